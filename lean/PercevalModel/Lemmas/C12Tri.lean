/-
  C12 — the final `u` of `decompose_triangle` is lower triangular: every entry above the diagonal is overwritten
  by `u[n, j] = 0` in its own cell and no later cell touches it (the later row operations only combine rows whose
  entries in the already-treated columns are zero).  For every commutative ring, every threshold, every solver.
-/
import PercevalModel.Lemmas.C12Bound

open Matrix

namespace PM.C12

variable {R : Type}

/-- the order in which the double loop visits its cells: columns from the right, rows from the top -/
def Before (c₁ c₂ : ℕ × ℕ) : Prop := c₁.1 > c₂.1 ∨ (c₁.1 = c₂.1 ∧ c₁.2 < c₂.2)

theorem before_asymm {x y : ℕ × ℕ} (h : Before x y) : ¬ Before y x := by
  unfold Before at *; omega

theorem before_irrefl (x : ℕ × ℕ) : ¬ Before x x := by
  unfold Before; omega

theorem mem_cells {m : ℕ} {c : ℕ × ℕ} : c ∈ cells m ↔ c.2 < c.1 ∧ c.1 < m := by
  refine ⟨cells_ok m c, fun h => ?_⟩
  simp only [cells, List.mem_flatMap, List.mem_reverse, List.mem_range, List.mem_map]
  exact ⟨c.1, h.2, c.2, h.1, rfl⟩

theorem cells_pairwise (m : ℕ) : (cells m).Pairwise Before := by
  unfold cells
  rw [List.pairwise_flatMap]
  constructor
  · intro j _
    rw [List.pairwise_map]
    exact (List.pairwise_lt_range (n := j)).imp fun h => Or.inr ⟨rfl, h⟩
  · rw [List.pairwise_reverse]
    refine (List.pairwise_lt_range (n := m)).imp ?_
    intro a b hab x hx y hy
    simp only [List.mem_map, List.mem_range] at hx hy
    obtain ⟨_, _, rfl⟩ := hx
    obtain ⟨_, _, rfl⟩ := hy
    exact Or.inl hab

/-- rows of `swapMat m n k * M` -/
theorem swapMat_mul_apply [CommRing R] {m n k : ℕ} (hn : n < m) (hk : k < m)
    (M : Matrix (Fin m) (Fin m) R) (a b : Fin m) :
    (swapMat (R := R) m n k * M : Matrix (Fin m) (Fin m) R) a b =
      if a.val = n then M ⟨k, hk⟩ b else if a.val = k then M ⟨n, hn⟩ b else M a b := by
  split_ifs with h1 h2
  · have : a = ⟨n, hn⟩ := Fin.ext h1
    subst this
    exact swapMat_mul_row hn hk M b
  · have hkn : k ≠ n := fun e => h1 (h2.trans e)
    rw [Matrix.mul_apply, Finset.sum_eq_single (⟨n, hn⟩ : Fin m)]
    · simp [swapMat, h2, hkn]
    · intro l _ hl
      have : l.val ≠ n := fun e => hl (Fin.ext e)
      simp [swapMat, h2, hkn, this]
    · simp
  · rw [Matrix.mul_apply, Finset.sum_eq_single a]
    · simp [swapMat, h1, h2]
    · intro l _ hl
      simp [swapMat, h1, h2, Ne.symm hl]
    · simp

/-- rows of `embed m n Binv * M` other than `n`: row `n + 1` and the untouched ones -/
theorem embed2_mul_row1 [CommRing R] {m n : ℕ} (hn : n + 1 < m) (Binv : Matrix (Fin 2) (Fin 2) R)
    (M : Matrix (Fin m) (Fin m) R) (j : Fin m) :
    (embed m n Binv * M) ⟨n + 1, hn⟩ j
      = Binv 1 0 * M ⟨n, by omega⟩ j + Binv 1 1 * M ⟨n + 1, hn⟩ j := by
  rw [Matrix.mul_apply]
  have hne : (⟨n, by omega⟩ : Fin m) ≠ ⟨n + 1, hn⟩ := by
    intro h; have := congrArg Fin.val h; simp at this
  have h0 : unshift m n 2 ⟨n, by omega⟩ = some 0 := by
    unfold unshift; rw [dif_pos (by constructor <;> simp)]; simp
  have h1 : unshift m n 2 ⟨n + 1, hn⟩ = some 1 := by
    unfold unshift; rw [dif_pos (by constructor <;> simp)]; simp
  rw [Finset.sum_eq_add (⟨n, by omega⟩ : Fin m) ⟨n + 1, hn⟩ hne]
  · simp only [embed, place, h0, h1]
  · intro c _ hc
    have hcn : unshift m n 2 c = none := by
      unfold unshift
      rw [dif_neg]
      intro h
      have h1' : c.val ≠ n := fun e => hc.1 (Fin.ext e)
      have h2' : c.val ≠ n + 1 := fun e => hc.2 (Fin.ext e)
      omega
    simp only [embed, place, h1, hcn, zero_mul]
  · intro h; exact absurd (Finset.mem_univ _) h
  · intro h; exact absurd (Finset.mem_univ _) h

theorem embed2_mul_other [CommRing R] {m n : ℕ} (Binv : Matrix (Fin 2) (Fin 2) R)
    (M : Matrix (Fin m) (Fin m) R) (a j : Fin m) (h1 : a.val ≠ n) (h2 : a.val ≠ n + 1) :
    (embed m n Binv * M) a j = M a j := by
  have ha : unshift m n 2 a = none := by
    unfold unshift
    rw [dif_neg]
    omega
  rw [Matrix.mul_apply, Finset.sum_eq_single a]
  · simp [embed, place, ha]
  · intro l _ hl
    cases hl' : unshift m n 2 l <;> simp [embed, place, ha, hl', Ne.symm hl]
  · simp

/-- the loop invariant: the entries whose cell has been visited are zero -/
theorem run_lower [CommRing R] (cfg : Cfg R) {m : ℕ} :
    ∀ (cs pre : List (ℕ × ℕ)) (st st' : St R m), pre ++ cs = cells m →
      (∀ a b : Fin m, (b.val, a.val) ∈ pre → st.u.toMatrix a b = 0) →
      run cfg st cs = some st' → ∀ a b : Fin m, a < b → st'.u.toMatrix a b = 0 := by
  intro cs
  induction cs with
  | nil =>
    intro pre st st' hpre hz hr a b hab
    simp only [run, Option.some.injEq] at hr
    subst hr
    apply hz
    rw [List.append_nil] at hpre
    rw [hpre, mem_cells]
    exact ⟨hab, b.isLt⟩
  | cons c cs ih =>
    intro pre st st' hpre hz hr
    simp only [run] at hr
    cases hstep : step cfg st c with
    | none => simp [hstep] at hr
    | some st1 =>
      simp only [hstep, Option.bind_some] at hr
      have hcm : c ∈ cells m := by rw [← hpre]; simp
      have hc := mem_cells.1 hcm
      have hpw := cells_pairwise m
      rw [← hpre, List.pairwise_append] at hpw
      obtain ⟨-, hpw2, hpw3⟩ := hpw
      rw [List.pairwise_cons] at hpw2
      -- a visited cell is one that comes before `c`
      have hbefore : ∀ x ∈ pre, Before x c := fun x hx => hpw3 x hx c List.mem_cons_self
      have hvisited : ∀ (a b : ℕ), a < b → b < m → Before (b, a) c → (b, a) ∈ pre := by
        intro a b hab hb hbf
        have hm : (b, a) ∈ cells m := mem_cells.2 ⟨hab, hb⟩
        rw [← hpre, List.mem_append, List.mem_cons] at hm
        rcases hm with hm | hm | hm
        · exact hm
        · rw [hm] at hbf; exact absurd hbf (before_irrefl c)
        · exact absurd hbf (before_asymm (hpw2.1 _ hm))
      refine ih (pre ++ [c]) st1 st' (by rw [List.append_assoc]; exact hpre) ?_ hr
      obtain ⟨M', sv, -, hu, -, hcase⟩ := step_char cfg hc hstep
      intro a b hmem
      rw [hu]
      simp only [zeroAt]
      split_ifs with hcell
      · rfl
      · rw [List.mem_append, List.mem_singleton] at hmem
        rcases hmem with hmem | hmem
        swap
        · exfalso
          apply hcell
          rw [← hmem]
          exact ⟨rfl, rfl⟩
        have hbf := hbefore _ hmem
        have hab : a.val < b.val := (mem_cells.1 (by rw [← hpre]; exact List.mem_append_left _ hmem)).1
        have hM : st.u.toMatrix a b = 0 := hz a b hmem
        have hbj : c.1 < b.val ∨ (b.val = c.1 ∧ a.val < c.2) := by
          unfold Before at hbf; simpa using hbf
        -- entries of column `b` in rows that come into play
        have hrow : ∀ (r : ℕ) (hr : r < m), r < b.val → Before (b.val, r) c → st.u.toMatrix ⟨r, hr⟩ b = 0 :=
          fun r hr hrb hb' => hz ⟨r, hr⟩ b (hvisited r b.val hrb b.isLt hb')
        rcases hcase with ⟨-, -, -, ⟨-, hM'⟩ | ⟨d, hd1, hd2, -, hM'⟩⟩ | ⟨-, B, Binv, -, -, hM'⟩
        · rw [hM']; exact hM
        · rw [hM', swapMat_mul_apply (by omega) (by omega)]
          split_ifs with e1 e2
          · have hb' : c.1 < b.val := by omega
            exact hrow _ (by omega) (by omega) (Or.inl hb')
          · have hb' : c.1 < b.val := by omega
            exact hrow _ (by omega) (by omega) (Or.inl hb')
          · exact hM
        · rw [hM']
          have hn1 : c.2 + 1 < m := by omega
          by_cases e1 : a.val = c.2
          · have ha : a = ⟨c.2, by omega⟩ := Fin.ext e1
            have hb' : c.1 < b.val := by omega
            rw [ha, embed2_mul_row hn1]
            rw [hrow c.2 (by omega) (by omega) (Or.inl hb'), hrow (c.2 + 1) hn1 (by omega) (Or.inl hb')]
            simp
          · by_cases e2 : a.val = c.2 + 1
            · have ha : a = ⟨c.2 + 1, hn1⟩ := Fin.ext e2
              have hb' : c.1 < b.val := by omega
              rw [ha, embed2_mul_row1 hn1]
              rw [hrow c.2 (by omega) (by omega) (Or.inl hb'), hrow (c.2 + 1) hn1 (by omega) (Or.inl hb')]
              simp
            · rw [embed2_mul_other _ _ _ _ e1 e2]
              exact hM

/-- the final `u` of `decompose_triangle` is lower triangular -/
theorem decomposeTriangle_lower [CommRing R] (cfg : Cfg R) {m : ℕ} (U : Matrix (Fin m) (Fin m) R)
    (sols : List (Sol R)) (st : St R m) (h : decomposeTriangle cfg U sols = some st) :
    ∀ a b : Fin m, a < b → st.u.toMatrix a b = 0 :=
  run_lower cfg (cells m) [] (initSt U sols) st (by simp) (by intro a b h; simp at h) h

end PM.C12
