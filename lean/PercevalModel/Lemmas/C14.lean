/-
  C14 — helper lemmas (generic ring algebra of the elementary components, permutation matrices,
  exact-arithmetic wrapping, expression evaluation).  Property theorems are in `Props/C14.lean`.
-/
import PercevalModel.Model.C14
import Mathlib.Tactic.LinearCombination
import Mathlib.Tactic.Linarith
import Mathlib.Tactic.FinCases
import Mathlib.Algebra.Order.Field.Basic
import Mathlib.Data.List.FinRange
import Mathlib.Data.List.Dedup
import Mathlib.Data.List.Perm.Subperm
import Mathlib.Data.List.Range
import Mathlib.Data.Fintype.EquivFin
import Mathlib.Logic.Equiv.Fin.Basic

open Matrix PM

set_option linter.unusedSectionVars false


namespace PM.C14
variable {R : Type*} [CommRing R] [StarRing R]

structure ImagUnit (I : R) : Prop where
  sq : I * I = -1
  star : star I = -I

/-- `(cos x, sin x)` of a real angle: self-adjoint components on the unit circle -/
structure Ang.IsReal (a : Ang R) : Prop where
  c : star a.c = a.c
  s : star a.s = a.s
  unit : a.c * a.c + a.s * a.s = 1

omit [StarRing R] in
theorem cis_add {I : R} (hI : I * I = -1) (a b : Ang R) :
    (a.add b).cis I = a.cis I * b.cis I := by
  simp only [Ang.add, Ang.cis]
  linear_combination (-(a.s * b.s)) * hI

omit [StarRing R] in
theorem bs_factorisation' (I : R) (conv : Conv) (c s ptl pbl ptr pbr : R) :
    bs I conv c s ptl pbl ptr pbr = diag2 ptr pbr * bsCore I conv c s * diag2 ptl pbl := by
  ext i j
  fin_cases i <;> fin_cases j <;> simp [bs, bsCore, diag2, Matrix.mul_apply, Fin.sum_univ_two] <;> ring

theorem diag2_isUnitary {p q : R} (hp : p * star p = 1) (hq : q * star q = 1) :
    IsUnitary (diag2 p q) := by
  have hp' : star p * p = 1 := by rw [mul_comm]; exact hp
  have hq' : star q * q = 1 := by rw [mul_comm]; exact hq
  constructor <;> ext i j <;> fin_cases i <;> fin_cases j <;>
    simp [diag2, Matrix.mul_apply, Fin.sum_univ_two, hp, hq, hp', hq']

theorem bsCore_isUnitary {I : R} (hI : ImagUnit I) (conv : Conv) {c s : R}
    (hc : star c = c) (hs : star s = s) (hcs : c * c + s * s = 1) :
    IsUnitary (bsCore I conv c s) := by
  have h1 := hI.sq
  constructor <;> ext i j <;> cases conv <;> fin_cases i <;> fin_cases j <;>
    simp [bsCore, template, Matrix.mul_apply, Fin.sum_univ_two, hc, hs, hI.star] <;>
    first
      | ring1
      | linear_combination hcs
      | linear_combination hcs - s * s * h1
end PM.C14

namespace PM.C14
variable {R : Type*} [CommRing R] [StarRing R]

theorem Ang.IsReal.add {a b : Ang R} (ha : a.IsReal) (hb : b.IsReal) : (a.add b).IsReal := by
  refine ⟨?_, ?_, ?_⟩
  · simp [Ang.add, ha.c, ha.s, hb.c, hb.s]
  · simp [Ang.add, ha.c, ha.s, hb.c, hb.s]
  · simp only [Ang.add]
    linear_combination (b.c * b.c + b.s * b.s) * ha.unit + hb.unit

theorem cis_unit {I : R} (hI : ImagUnit I) {a : Ang R} (ha : a.IsReal) :
    a.cis I * star (a.cis I) = 1 := by
  simp only [Ang.cis, star_add, star_mul, ha.c, ha.s, hI.star]
  linear_combination ha.unit - a.s * a.s * hI.sq

def wpCore (I : R) (d y : Ang R) : Matrix (Fin 2) (Fin 2) R :=
  !![d.c + I * d.s * y.c, I * d.s * y.s; I * d.s * y.s, d.c - I * d.s * y.c]

theorem wpCore_isUnitary {I : R} (hI : ImagUnit I) {d y : Ang R} (hd : d.IsReal) (hy : y.IsReal) :
    IsUnitary (wpCore I d y) := by
  have h1 := hI.sq
  have hd' := hd.unit
  have hy' := hy.unit
  constructor <;> ext i j <;> fin_cases i <;> fin_cases j <;>
    simp [wpCore, Matrix.mul_apply, Fin.sum_univ_two, hd.c, hd.s, hy.c, hy.s, hI.star] <;>
    first
      | ring1
      | linear_combination hd' + d.s * d.s * hy' - d.s * d.s * (y.c * y.c + y.s * y.s) * h1

theorem pr_isUnitary' {d : Ang R} (hd : d.IsReal) : IsUnitary (pr d) := by
  have hd' := hd.unit
  constructor <;> ext i j <;> fin_cases i <;> fin_cases j <;>
    simp [pr, Matrix.mul_apply, Fin.sum_univ_two, hd.c, hd.s] <;>
    first
      | ring1
      | linear_combination hd'

theorem ps_isUnitary' {p : R} (hp : p * star p = 1) : IsUnitary (ps p) := by
  have hp' : star p * p = 1 := by rw [mul_comm]; exact hp
  constructor <;> ext i j <;> fin_cases i <;> fin_cases j <;> simp [ps, Matrix.mul_apply, hp, hp']
end PM.C14


namespace PM.C14
variable {R : Type*} {n : ℕ}

theorem permMat_mulVec_single' [NonAssocSemiring R] (σ : Fin n → Fin n) (k : Fin n) :
    permMat (R := R) σ *ᵥ Pi.single k 1 = Pi.single (σ k) 1 := by
  ext r
  rw [Matrix.mulVec_single_one]
  simp [permMat, Pi.single_apply, eq_comm]

/-- two-sided inverse of an injective self-map of `Fin n` -/
theorem exists_inv {σ : Fin n → Fin n} (hσ : Function.Injective σ) :
    ∃ τ : Fin n → Fin n, ∀ r c, σ c = r ↔ c = τ r := by
  have hb := Finite.injective_iff_bijective.mp hσ
  refine ⟨(Equiv.ofBijective σ hb).symm, fun r c => ?_⟩
  constructor
  · rintro rfl; simp
  · rintro rfl; exact (Equiv.ofBijective σ hb).apply_symm_apply r

theorem permMat_isUnitary' [CommRing R] [StarRing R] {σ : Fin n → Fin n}
    (hσ : Function.Injective σ) : IsUnitary (permMat (R := R) σ) := by
  obtain ⟨τ, hτ⟩ := exists_inv hσ
  constructor
  · ext r r'
    simp only [Matrix.mul_apply, conjTranspose_apply, permMat, Matrix.one_apply]
    simp only [hτ, apply_ite star, star_one, star_zero, mul_ite, mul_one, mul_zero]
    by_cases h : r = r'
    · subst h; simp
    · have : τ r ≠ τ r' := fun e => h (by rw [← (hτ r (τ r)).2 rfl, e, (hτ r' (τ r')).2 rfl])
      simp [h]
      intro x; exact absurd x.symm this
  · ext c c'
    simp only [Matrix.mul_apply, conjTranspose_apply, permMat, Matrix.one_apply]
    simp only [apply_ite star, star_one, star_zero, mul_ite, mul_one, mul_zero]
    by_cases h : c = c'
    · subst h; simp
    · have : σ c ≠ σ c' := fun e => h (hσ e)
      simp [h]
      intro x; exact absurd x this

theorem nonzero_permMat [MulZeroOneClass R] [Nontrivial R] [DecidableEq R] {σ τ : Fin n → Fin n}
    (hτ : ∀ r c, σ c = r ↔ c = τ r) :
    nonzero (permMat (R := R) σ) = (List.finRange n).map fun r => (r, τ r) := by
  unfold nonzero
  have : ∀ r : Fin n, ((List.finRange n).filter fun c => permMat (R := R) σ r c ≠ 0) = [τ r] := by
    intro r
    have : (fun c => decide (permMat (R := R) σ r c ≠ 0)) = fun c => decide (c = τ r) := by
      funext c
      by_cases h : σ c = r
      · have h2 := (hτ r c).1 h
        subst h2
        simp [permMat, h]
      · have : c ≠ τ r := fun e => h ((hτ r c).2 e)
        simp [permMat, h, this]
    rw [this, List.filter_eq, List.count_eq_one_of_mem (List.nodup_finRange n) (List.mem_finRange _)]
    rfl
  simp only [this, List.map_cons, List.map_nil]
  induction (List.finRange n) with
  | nil => rfl
  | cons a l ih => simp [List.flatMap_cons, ih]

theorem permVector_permMat [MulZeroOneClass R] [Nontrivial R] [DecidableEq R] {σ : Fin n → Fin n}
    (hσ : Function.Injective σ) :
    permVector (permMat (R := R) σ) = List.ofFn fun k => (σ k).val := by
  obtain ⟨τ, hτ⟩ := exists_inv hσ
  have hτσ : ∀ c, τ (σ c) = c := fun c => ((hτ (σ c) c).1 rfl).symm
  have hτinj : Function.Injective τ := by
    intro a b e
    rw [← (hτ a (τ a)).2 rfl, e, (hτ b (τ b)).2 rfl]
  unfold permVector
  rw [nonzero_permMat hτ]
  simp only [List.map_map]
  rw [List.ofFn_eq_map]
  apply List.map_congr_left
  intro r _
  simp only [Function.comp]
  have hnd : ((List.finRange n).map τ).Nodup := (List.nodup_finRange n).map hτinj
  have hlen : (σ r).val < ((List.finRange n).map τ).length := by simp
  have hget : ((List.finRange n).map τ)[(σ r).val]'hlen = r := by simp [hτσ]
  conv_lhs => rw [← hget]
  exact hnd.idxOf_getElem _ _
end PM.C14


namespace PM.C14

theorem permOk_iff (l : List ℤ) :
    permOk l = true ↔ l ≠ [] ∧ l.Nodup ∧ ∀ x ∈ l, 0 ≤ x ∧ x < l.length := by
  constructor
  · intro h
    unfold permOk at h
    split at h
    · rename_i mn mx hmn hmx
      simp only [Bool.and_eq_true, beq_iff_eq] at h
      obtain ⟨⟨h0, h1⟩, h2⟩ := h
      subst h0
      rw [List.min?_eq_some_iff] at hmn
      rw [List.max?_eq_some_iff] at hmx
      refine ⟨?_, ?_, ?_⟩
      · rintro rfl; simp at hmn
      · have := (List.dedup_sublist l).eq_of_length h2
        rw [← this]; exact List.nodup_dedup l
      · intro x hx
        have := hmx.2 x hx
        exact ⟨hmn.2 x hx, by omega⟩
    · simp at h
  · rintro ⟨hne, hnd, hr⟩
    set n := l.length with hn
    have hsub : l ⊆ (List.range n).map Int.ofNat := by
      intro x hx
      obtain ⟨h0, h1⟩ := hr x hx
      simp only [List.mem_map, List.mem_range]
      exact ⟨x.toNat, by omega, by simp; omega⟩
    have hperm : l.Perm ((List.range n).map Int.ofNat) :=
      (hnd.subperm hsub).perm_of_length_le (by simp [hn])
    have hpos : 0 < n := by
      rw [hn]; exact List.length_pos_iff.mpr hne
    have h0 : (0 : ℤ) ∈ l := hperm.mem_iff.2 (List.mem_map.2 ⟨0, List.mem_range.2 hpos, rfl⟩)
    have hl : ((n : ℤ) - 1) ∈ l := hperm.mem_iff.2 (List.mem_map.2 ⟨n - 1, List.mem_range.2 (by omega), by simp; omega⟩)
    have hmn : l.min? = some 0 := List.min?_eq_some_iff.2 ⟨h0, fun b hb => (hr b hb).1⟩
    have hmx : l.max? = some ((n : ℤ) - 1) :=
      List.max?_eq_some_iff.2 ⟨hl, fun b hb => by have := (hr b hb).2; omega⟩
    unfold permOk
    rw [hmn, hmx]
    simp [hnd.dedup, ← hn]

theorem permFun_val {l : List ℤ} (h : permOk l = true) (i : Fin l.length) :
    ((permFun l i).val : ℤ) = l[i.val] := by
  obtain ⟨_, _, hr⟩ := (permOk_iff l).1 h
  have := hr l[i.val] (List.getElem_mem _)
  unfold permFun
  simp only
  split
  · simp; omega
  · omega

theorem permFun_injective {l : List ℤ} (h : permOk l = true) : Function.Injective (permFun l) := by
  obtain ⟨_, hnd, _⟩ := (permOk_iff l).1 h
  intro i j e
  have e' : l[i.val] = l[j.val] := by rw [← permFun_val h i, ← permFun_val h j, e]
  exact Fin.ext ((List.Nodup.getElem_inj_iff hnd).1 e')

end PM.C14


namespace PM.C14
section wrap
variable {K : Type*} [Field K] [LinearOrder K] [IsStrictOrderedRing K] [FloorRing K]

theorem trunc_of_nonneg {x : K} (h : 0 ≤ x) : trunc x = ⌊x⌋ := if_pos h

theorem wrapCore_exact {lo hi : K} (h : lo < hi) (v : K) :
    lo ≤ wrapCore id false lo hi v ∧ wrapCore id false lo hi v ≤ hi ∧
      ∃ k : ℤ, wrapCore id false lo hi v = v + k * (hi - lo) := by
  have hs : 0 < hi - lo := sub_pos.2 h
  unfold wrapCore
  simp only [id, Bool.false_eq_true, if_false]
  split_ifs with h1 h2
  · have ht : 0 ≤ (v - hi) / (hi - lo) := div_nonneg (sub_nonneg.2 h1.le) hs.le
    rw [trunc_of_nonneg ht]
    have hp1 := Int.floor_le ((v - hi) / (hi - lo))
    have hp2 := Int.lt_floor_add_one ((v - hi) / (hi - lo))
    generalize ⌊(v - hi) / (hi - lo)⌋ = p at hp1 hp2
    rw [le_div_iff₀ hs] at hp1
    rw [div_lt_iff₀ hs] at hp2
    refine ⟨?_, ?_, -(p + 1), ?_⟩
    · push_cast; linarith
    · push_cast; linarith
    · push_cast; ring
  · have ht : 0 ≤ (lo - v) / (hi - lo) := div_nonneg (sub_nonneg.2 h2.le) hs.le
    rw [trunc_of_nonneg ht]
    have hp1 := Int.floor_le ((lo - v) / (hi - lo))
    have hp2 := Int.lt_floor_add_one ((lo - v) / (hi - lo))
    generalize ⌊(lo - v) / (hi - lo)⌋ = p at hp1 hp2
    rw [le_div_iff₀ hs] at hp1
    rw [div_lt_iff₀ hs] at hp2
    refine ⟨?_, ?_, p + 1, ?_⟩
    · push_cast; linarith
    · push_cast; linarith
    · push_cast; ring
  · exact ⟨not_lt.1 h2, not_lt.1 h1, 0, by simp⟩

theorem wrapCore_clamp_id {lo hi : K} (h : lo < hi) (v : K) :
    wrapCore id true lo hi v = wrapCore id false lo hi v := by
  obtain ⟨h1, h2, _⟩ := wrapCore_exact h v
  unfold wrapCore at *
  simp only [Bool.false_eq_true, if_false] at h1 h2
  simp only [if_true, Bool.false_eq_true, if_false]
  rw [max_eq_left h1, min_eq_left h2]

theorem wrapCore_clamp_bounds (rnd : K → K) {lo hi : K} (h : lo ≤ hi) (v : K) :
    lo ≤ wrapCore rnd true lo hi v ∧ wrapCore rnd true lo hi v ≤ hi := by
  unfold wrapCore
  simp only [if_true]
  exact ⟨le_min (le_max_right _ _) h, min_le_right _ _⟩

theorem checkValue_some_of_bounds (rnd : K → K) (clamp : Bool) {lo hi : K} (v : K)
    (h1 : lo ≤ wrapCore rnd clamp lo hi v) (h2 : wrapCore rnd clamp lo hi v ≤ hi) :
    checkValue rnd clamp true (some lo) (some hi) v = some (wrapCore rnd clamp lo hi v) := by
  simp [checkValue, not_lt.2 h1, not_lt.2 h2]

end wrap

/-! expressions -/

theorem Expr.eval_congr (e : Expr) {env₁ env₂ : String → Option ℚ}
    (h : ∀ x ∈ e.vars, env₁ x = env₂ x) : e.eval env₁ = e.eval env₂ := by
  induction e with
  | var x => exact h x (by simp [Expr.vars])
  | const q => rfl
  | add a b iha ihb | sub a b iha ihb | mul a b iha ihb | div a b iha ihb =>
    simp only [Expr.eval]
    rw [iha fun x hx => h x (by simp [Expr.vars, hx]), ihb fun x hx => h x (by simp [Expr.vars, hx])]
  | pow a n iha | neg a iha =>
    simp only [Expr.eval]
    rw [iha fun x hx => h x (by simp [Expr.vars, hx])]

/-! stores -/

theorem Store.accepts_set (st : Store) (x : String) (v : ℚ) (x' : String) (v' : ℚ) :
    (st.set x v).accepts x' v' = st.accepts x' v' := by
  unfold Store.set Store.accepts
  cases hx : st x with
  | none => simp
  | some info =>
    simp only
    cases hw : wrap info.periodic info.lo info.hi v with
    | none => simp
    | some w =>
      simp only
      by_cases e : x' = x
      · subst e; simp [hx]
      · simp [Function.update_of_ne e]

theorem Store.env_set (st : Store) (x : String) (v : ℚ) (y : String) :
    (st.set x v).env y = st.step y (st.env y) (x, v) := by
  unfold Store.set Store.step Store.accepts Store.env
  cases hx : st x with
  | none =>
    by_cases e : x = y <;> simp [e]
  | some info =>
    simp only
    cases hw : wrap info.periodic info.lo info.hi v with
    | none =>
      by_cases e : x = y
      · subst e; simp [hw]
      · simp [e]
    | some w =>
      by_cases e : x = y
      · subst e; simp [hw]
      · simp [e, Function.update_of_ne (Ne.symm e)]

theorem Store.step_congr {st st' : Store} (h : ∀ x v, st'.accepts x v = st.accepts x v) (y : String) :
    st'.step y = st.step y := by
  funext acc op
  simp [Store.step, h]

theorem Store.env_run (st : Store) (ops : List (String × ℚ)) (y : String) :
    (st.run ops).env y = ops.foldl (st.step y) (st.env y) := by
  induction ops generalizing st with
  | nil => rfl
  | cons op rest ih =>
    obtain ⟨x, v⟩ := op
    simp only [Store.run, List.foldl_cons]
    rw [ih, Store.env_set, Store.step_congr (Store.accepts_set st x v)]

end PM.C14
