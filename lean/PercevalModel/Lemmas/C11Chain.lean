/-
  C11 — histories of transformations on one circuit (`Model/C11Chain.lean`): what each step preserves
  (admissible ranges, beam-splitter parameters from real angles), so that the law of the next step applies to
  what the previous step left.
-/
import PercevalModel.Model.C11Chain
import PercevalModel.Lemmas.C11

open Matrix PM

namespace PM.C11
variable {R : Type}

/-! ### `inverse` keeps the ranges admissible and the parameters real -/

theorem Its.WF_append {m : ℕ} : (a b : Its R) → a.WF m → b.WF m → (a.append b).WF m
  | .nil, _, _, hb => hb
  | .cons o c r, b, ha, hb => by
      simp only [Its.WF] at ha
      simp only [Its.append, Its.WF]
      exact ⟨ha.1, ha.2.1, Its.WF_append r b ha.2.2 hb⟩

theorem Its.WF_reverse {m : ℕ} : (a : Its R) → a.WF m → a.reverse.WF m
  | .nil, _ => by simp [Its.reverse, Its.WF]
  | .cons o c r, ha => by
      simp only [Its.WF] at ha
      simp only [Its.reverse]
      exact Its.WF_append _ _ (Its.WF_reverse r ha.2.2) (by simp only [Its.WF]; exact ⟨ha.1, ha.2.1, trivial⟩)

theorem Its.All_append {P : Leaf R → Prop} : (a b : Its R) → a.All P → b.All P → (a.append b).All P
  | .nil, _, _, hb => hb
  | .cons o c r, b, ha, hb => by
      simp only [Its.All] at ha
      simp only [Its.append, Its.All]
      exact ⟨ha.1, Its.All_append r b ha.2 hb⟩

theorem Its.All_reverse {P : Leaf R → Prop} : (a : Its R) → a.All P → a.reverse.All P
  | .nil, _ => by simp [Its.reverse, Its.All]
  | .cons o c r, ha => by
      simp only [Its.All] at ha
      simp only [Its.reverse]
      exact Its.All_append _ _ (Its.All_reverse r ha.2) (by simp only [Its.All]; exact ⟨ha.1, trivial⟩)

mutual
  theorem Cmp.WF_inv [Neg R] [Star R] (fixed v h : Bool) : (c : Cmp R) → c.WF → (c.inv fixed v h).WF
    | .leaf _, _ => by simp [Cmp.inv, Cmp.WF]
    | .circ m items, hw => by
        have hm := Its.WF_invMap fixed v h m items hw
        simp only [Cmp.inv, Cmp.WF]
        cases h
        · simpa using hm
        · simpa using Its.WF_reverse _ hm
  theorem Its.WF_invMap [Neg R] [Star R] (fixed v h : Bool) (m : ℕ) :
      (its : Its R) → its.WF m → (its.invMap fixed v h m).WF m
    | .nil, _ => by simp [Its.invMap, Its.WF]
    | .cons off c rest, hw => by
        simp only [Its.WF] at hw
        simp only [Its.invMap, Its.WF, Cmp.size_inv]
        refine ⟨?_, Cmp.WF_inv fixed v h c hw.2.1, Its.WF_invMap fixed v h m rest hw.2.2⟩
        have := hw.1
        split <;> omega
end

theorem Its.WF_inv [Neg R] [Star R] (fixed v h : Bool) (m : ℕ) (its : Its R) (hw : its.WF m) :
    (its.inv fixed v h m).WF m := by
  have hm := Its.WF_invMap fixed v h m its hw
  unfold Its.inv
  cases h
  · simpa using hm
  · simpa using Its.WF_reverse _ hm

theorem BSP.Real.hInv [CommRing R] [StarRing R] {p : BSP R} (hp : p.Real) (fixed : Bool) :
    (p.hInv fixed).Real := by
  obtain ⟨conv, c, s, tl, bl, tr, br⟩ := p
  have hc : star c = c := hp.c
  have hs : star s = s := hp.s
  cases conv <;> cases fixed <;>
    constructor <;> simp [BSP.hInv, BSP.hTheta, BSP.negTheta, hc, hs]

theorem BSP.Real.inv [CommRing R] [StarRing R] {p : BSP R} (hp : p.Real) (v h : Bool) :
    (p.inv true v h).Real := by
  cases v <;> cases h <;> simp only [BSP.inv, if_true, if_false, Bool.false_eq_true]
  · exact hp
  · exact hp.hInv true
  · exact hp.vInv true
  · exact (hp.vInv true).hInv true

theorem Leaf.Real_inv [CommRing R] [StarRing R] (v h : Bool) : (l : Leaf R) → l.Real → (l.inv true v h).Real
  | .bs p, hl => by
      simp only [Leaf.inv, Leaf.Real] at *
      exact BSP.Real.inv hl v h
  | .ps _, _ => by simp [Leaf.inv, Leaf.Real]
  | .un _ _, _ => by simp [Leaf.inv, Leaf.Real]
  | .barrier _, _ => by simp [Leaf.inv, Leaf.Real]

mutual
  theorem Cmp.Real_inv [CommRing R] [StarRing R] (v h : Bool) :
      (c : Cmp R) → c.All Leaf.Real → (c.inv true v h).All Leaf.Real
    | .leaf l, hl => by
        simp only [Cmp.inv, Cmp.All] at *
        exact Leaf.Real_inv v h l hl
    | .circ m items, hl => by
        simp only [Cmp.All] at hl
        have hm := Its.Real_invMap v h m items hl
        simp only [Cmp.inv, Cmp.All]
        cases h
        · simpa using hm
        · simpa using Its.All_reverse _ hm
  theorem Its.Real_invMap [CommRing R] [StarRing R] (v h : Bool) (m : ℕ) :
      (its : Its R) → its.All Leaf.Real → (its.invMap true v h m).All Leaf.Real
    | .nil, _ => by simp [Its.invMap, Its.All]
    | .cons off c rest, hl => by
        simp only [Its.All] at hl
        simp only [Its.invMap, Its.All]
        exact ⟨Cmp.Real_inv v h c hl.1, Its.Real_invMap v h m rest hl.2⟩
end

theorem Its.Real_inv [CommRing R] [StarRing R] (v h : Bool) (m : ℕ) (its : Its R)
    (hl : its.All Leaf.Real) : (its.inv true v h m).All Leaf.Real := by
  have hm := Its.Real_invMap v h m its hl
  unfold Its.inv
  cases h
  · simpa using hm
  · simpa using Its.All_reverse _ hm

/-! ### flattening: a list of admissible components with the same leaves -/

/-- every listed component fits into `N` modes, is well-formed and has leaves satisfying `P` -/
def ListOK (P : Leaf R → Prop) (N : ℕ) (l : List (ℕ × Cmp R)) : Prop :=
  ∀ p ∈ l, p.1 + p.2.size ≤ N ∧ p.2.WF ∧ p.2.All P

theorem ListOK.append {P : Leaf R → Prop} {N : ℕ} {a b : List (ℕ × Cmp R)} (ha : ListOK P N a)
    (hb : ListOK P N b) : ListOK P N (a ++ b) := by
  intro p hp
  rcases List.mem_append.mp hp with h | h
  · exact ha p h
  · exact hb p h

mutual
  theorem flattenCmp_ok {P : Leaf R → Prop} :
      (c : Cmp R) → c.WF → c.All P → ∀ (N start off : ℕ) (depth : Option ℕ), start + off + c.size ≤ N →
        ListOK P N (flattenCmp true start off depth c)
    | .leaf l, hw, hl, N, start, off, depth, hk => by
        intro p hp
        simp only [flattenCmp, List.mem_singleton] at hp
        subst hp
        refine ⟨?_, hw, hl⟩
        simp only [Cmp.size] at hk ⊢
        omega
    | .circ m sub, hw, hl, N, start, off, depth, hk => by
        have hk' : start + off + m ≤ N := hk
        simp only [flattenCmp, if_true]
        split
        · exact flattenIts_ok m sub hw hl N (start + off) _ hk'
        · intro p hp
          simp only [List.mem_singleton] at hp
          subst hp
          refine ⟨?_, hw, hl⟩
          simp only [Cmp.size]
          omega
  theorem flattenIts_ok {P : Leaf R → Prop} (m : ℕ) :
      (its : Its R) → its.WF m → its.All P → ∀ (N start : ℕ) (depth : Option ℕ), start + m ≤ N →
        ListOK P N (flattenIts true start depth its)
    | .nil, _, _, N, start, depth, hk => by
        intro p hp
        simp [flattenIts] at hp
    | .cons off c rest, hw, hl, N, start, depth, hk => by
        simp only [Its.WF] at hw
        simp only [Its.All] at hl
        simp only [flattenIts]
        exact (flattenCmp_ok c hw.2.1 hl.1 N start off depth (by have := hw.1; omega)).append
          (flattenIts_ok m rest hw.2.2 hl.2 N start depth hk)
end

theorem Its.ofList_WF {P : Leaf R → Prop} {N : ℕ} : (l : List (ℕ × Cmp R)) → ListOK P N l →
    (Its.ofList l).WF N ∧ (Its.ofList l).All P
  | [], _ => by simp [Its.ofList, Its.WF, Its.All]
  | (o, c) :: rest, h => by
      have h1 := h (o, c) (by simp)
      have h2 := Its.ofList_WF rest (fun p hp => h p (by simp [hp]))
      simp only [Its.ofList, Its.WF, Its.All]
      exact ⟨⟨h1.1, h1.2.1, h2.1⟩, h1.2.2, h2.2⟩

/-- the matrix of a component list read as a circuit is the ordered product of the list -/
theorem Its.U_ofList [CommRing R] (I : R) (N : ℕ) : (l : List (ℕ × Cmp R)) →
    (Its.ofList l).U I N = prodList I N l
  | [] => by simp [Its.ofList, Its.U, Its.toC01, prodList]
  | (o, c) :: rest => by
      have ih := Its.U_ofList I N rest
      simp only [Its.U] at ih
      simp only [Its.ofList, Its.U, Its.toC01, C01.prodItems_cons, prodList, ih]

end PM.C11
