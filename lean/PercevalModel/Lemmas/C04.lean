/-
  Helper lemmas for C04: mode-wise addition, the native mask semantics under addition, pruning of
  convolutions, and the bridge between the herald dictionary and the positional mask.
-/
import PercevalModel.Model.C04
import Mathlib.Tactic.Linarith
import Mathlib.Tactic.FieldSimp

namespace PM.C04
open PM.Fock PM.Dist PM.SimSpec

/-! ### mode-wise addition -/

@[simp] theorem fadd_nil_left (b : Fock) : fadd [] b = b := by cases b <;> rfl
@[simp] theorem fadd_nil_right (a : Fock) : fadd a [] = a := by cases a <;> rfl
@[simp] theorem fadd_cons_cons (a b : ℕ) (as bs : Fock) :
    fadd (a :: as) (b :: bs) = (a + b) :: fadd as bs := rfl

theorem fadd_comm : ∀ x y : Fock, fadd x y = fadd y x
  | [], y => by simp
  | x, [] => by simp
  | a :: as, b :: bs => by simp [fadd_comm as bs, Nat.add_comm]

theorem sum_fadd : ∀ x y : Fock, (fadd x y).sum = x.sum + y.sum
  | [], y => by simp
  | a :: as, [] => by simp
  | a :: as, b :: bs => by simp only [fadd_cons_cons, List.sum_cons, sum_fadd as bs]; omega

theorem length_fadd : ∀ x y : Fock, (fadd x y).length = max x.length y.length
  | [], y => by simp
  | a :: as, [] => by simp
  | a :: as, b :: bs => by simp [length_fadd as bs]

/-! ### the mask semantics, split in its two halves -/

def leAll (mask : List (Option ℕ)) (t : Fock) : Bool :=
  (mask.zip t).all fun p => match p.1 with | none => true | some d => p.2 ≤ d

def deficit (mask : List (Option ℕ)) (t : Fock) : ℕ :=
  ((mask.zip t).map fun p => match p.1 with | none => 0 | some d => d - p.2).sum

theorem maskOk_eq (mask : List (Option ℕ)) (s : ℕ) (t : Fock) :
    maskOk mask s t = (leAll mask t && decide (deficit mask t ≤ s)) := rfl

theorem maskOk_iff (mask : List (Option ℕ)) (s : ℕ) (t : Fock) :
    maskOk mask s t = true ↔ leAll mask t = true ∧ deficit mask t ≤ s := by
  simp [maskOk_eq]

theorem leAll_fadd_left : ∀ (mask : List (Option ℕ)) (x y : Fock),
    leAll mask (fadd x y) = true → leAll mask x = true
  | [], x, y, _ => by simp [leAll]
  | _ :: _, [], y, _ => by simp [leAll]
  | _ :: _, a :: as, [], h => by simpa using h
  | none :: ms, a :: as, b :: bs, h => by
    have h' : leAll ms (fadd as bs) = true := by simpa [leAll] using h
    simpa [leAll] using leAll_fadd_left ms as bs h'
  | some d :: ms, a :: as, b :: bs, h => by
    have h' : a + b ≤ d ∧ leAll ms (fadd as bs) = true := by simpa [leAll] using h
    have := leAll_fadd_left ms as bs h'.2
    simp only [leAll] at this
    simp [leAll, this]; omega

theorem deficit_fadd_left : ∀ (mask : List (Option ℕ)) (x y : Fock),
    deficit mask x ≤ deficit mask (fadd x y) + y.sum
  | [], x, y => by simp [deficit]
  | _ :: _, [], y => by simp [deficit]
  | _ :: _, a :: as, [] => by simp
  | none :: ms, a :: as, b :: bs => by
    have := deficit_fadd_left ms as bs
    simp only [deficit] at this
    simp [deficit]; omega
  | some d :: ms, a :: as, b :: bs => by
    have := deficit_fadd_left ms as bs
    simp only [deficit] at this
    simp [deficit]; omega

theorem deficit_le_total : ∀ (mask : List (Option ℕ)) (t : Fock), deficit mask t ≤ maskTotal mask
  | [], t => by simp [deficit]
  | _ :: _, [] => by simp [deficit]
  | none :: ms, a :: as => by
    have := deficit_le_total ms as
    simp only [deficit, maskTotal] at this
    simp [deficit, maskTotal]; omega
  | some d :: ms, a :: as => by
    have := deficit_le_total ms as
    simp only [deficit, maskTotal] at this
    simp [deficit, maskTotal]; omega

theorem maskOk_mono (mask : List (Option ℕ)) {r r' : ℕ} (t : Fock) (h : maskOk mask r t = true)
    (hr : r ≤ r') : maskOk mask r' t = true := by
  rw [maskOk_iff] at *
  exact ⟨h.1, by omega⟩

/-- a state that can still reach the mask with `r` more photons, after `y` has been added, could reach it
with `r + |y|` before -/
theorem maskOk_of_fadd_left (mask : List (Option ℕ)) (r : ℕ) (x y : Fock)
    (h : maskOk mask r (fadd x y) = true) : maskOk mask (r + y.sum) x = true := by
  rw [maskOk_iff] at *
  exact ⟨leAll_fadd_left mask x y h.1, by have := deficit_fadd_left mask x y; omega⟩

theorem maskOk_of_fadd_right (mask : List (Option ℕ)) (r : ℕ) (x y : Fock)
    (h : maskOk mask r (fadd x y) = true) : maskOk mask (r + x.sum) y = true := by
  rw [fadd_comm] at h
  exact maskOk_of_fadd_left mask r y x h

/-- …and the deficit never exceeds what the mask asks for in total: this is the `n_own + n_heralds` cap -/
theorem maskOk_cap (mask : List (Option ℕ)) (r T : ℕ) (t : Fock) (h : maskOk mask r t = true)
    (hT : maskTotal mask ≤ T) : maskOk mask (min r T) t = true := by
  rw [maskOk_iff] at *
  exact ⟨h.1, by have := deficit_le_total mask t; omega⟩

/-! ### pruning one convolution -/

theorem restrict_append (f : Fock → Bool) (a b : D) : restrict f (a ++ b) = restrict f a ++ restrict f b := by
  simp [restrict]

theorem conv_cons (p : Fock × ℚ) (r d : D) :
    conv (p :: r) d = (d.map fun q => (fadd p.1 q.1, p.2 * q.2)) ++ conv r d := by
  simp [conv]

@[simp] theorem conv_nil (d : D) : conv [] d = [] := rfl

/-- dropping from the accumulator what cannot pass `g` after any addition changes nothing under `g` -/
theorem restrict_conv_prune_left (f g : Fock → Bool) (acc d : D)
    (h : ∀ p ∈ acc, ∀ q ∈ d, f p.1 = false → g (fadd p.1 q.1) = false) :
    restrict g (conv acc d) = restrict g (conv (restrict f acc) d) := by
  induction acc with
  | nil => simp [restrict]
  | cons p r ih =>
    have ih' := ih (fun p' hp' => h p' (List.mem_cons_of_mem _ hp'))
    by_cases hf : f p.1 = true
    · have : restrict f (p :: r) = p :: restrict f r := by simp [restrict, hf]
      rw [this, conv_cons, conv_cons, restrict_append, restrict_append, ih']
    · have hf' : f p.1 = false := by simpa using hf
      have : restrict f (p :: r) = restrict f r := by simp [restrict, hf']
      rw [this, conv_cons, restrict_append, ih']
      have hnil : restrict g (d.map fun q => (fadd p.1 q.1, p.2 * q.2)) = [] := by
        simp only [restrict, List.filter_eq_nil_iff, List.mem_map]
        rintro _ ⟨q, hq, rfl⟩
        simp [h p List.mem_cons_self q hq hf']
      rw [hnil, List.nil_append]

/-- dropping from the new factor what cannot pass `g` after addition to anything accumulated -/
theorem restrict_conv_prune_right (f g : Fock → Bool) (acc d : D)
    (h : ∀ p ∈ acc, ∀ q ∈ d, f q.1 = false → g (fadd p.1 q.1) = false) :
    restrict g (conv acc d) = restrict g (conv acc (restrict f d)) := by
  induction acc with
  | nil => simp [restrict]
  | cons p r ih =>
    have ih' := ih (fun p' hp' => h p' (List.mem_cons_of_mem _ hp'))
    rw [conv_cons, conv_cons, restrict_append, restrict_append, ih']
    congr 1
    have hp := h p List.mem_cons_self
    clear ih ih' h
    induction d with
    | nil => simp [restrict]
    | cons q d ihd =>
      have ihd' := ihd (fun q' hq' => hp q' (List.mem_cons_of_mem _ hq'))
      by_cases hf : f q.1 = true
      · simp only [restrict, List.map_cons, List.filter_cons, hf, ↓reduceIte] at *
        rw [ihd']
      · have hf' : f q.1 = false := by simpa using hf
        have hg := hp q List.mem_cons_self hf'
        simp only [restrict, List.map_cons, List.filter_cons, hf', hg, Bool.false_eq_true, ↓reduceIte] at *
        rw [ihd']

/-! ### pruning a whole chain of convolutions -/

@[simp] theorem convAll_nil (acc : D) : convAll acc [] = acc := rfl
@[simp] theorem convAll_cons (acc d : D) (ds : List D) : convAll acc (d :: ds) = convAll (conv acc d) ds := rfl

theorem mem_conv {acc d : D} {x : Fock × ℚ} (h : x ∈ conv acc d) :
    ∃ p ∈ acc, ∃ q ∈ d, x = (fadd p.1 q.1, p.2 * q.2) := by
  simp only [conv, List.mem_flatMap, List.mem_map] at h
  obtain ⟨p, hp, q, hq, rfl⟩ := h
  exact ⟨p, hp, q, hq, rfl⟩

theorem mem_restrict {f : Fock → Bool} {d : D} {x : Fock × ℚ} (h : x ∈ restrict f d) : x ∈ d := by
  simp only [restrict, List.mem_filter] at h
  exact h.1

/-- Before a chain of factors with at most `R` photons in total, only what the mask instantiated with slack
`R` keeps can still end on the heralded values. -/
theorem restrict_convAll_prune (mask : List (Option ℕ)) :
    ∀ (gs : List (ℕ × D)), (∀ g ∈ gs, ∀ q ∈ g.2, q.1.sum ≤ g.1) → ∀ acc : D,
    restrict (maskOk mask 0) (convAll acc (gs.map (·.2))) =
    restrict (maskOk mask 0) (convAll (restrict (maskOk mask (gs.map (·.1)).sum) acc) (gs.map (·.2)))
  | [], _, acc => by
    simp [restrict_restrict]
  | g :: rest, hsz, acc => by
    have hrest : ∀ g' ∈ rest, ∀ q ∈ g'.2, q.1.sum ≤ g'.1 := fun g' hg' => hsz g' (List.mem_cons_of_mem _ hg')
    simp only [List.map_cons, convAll_cons, List.sum_cons]
    rw [restrict_convAll_prune mask rest hrest (conv acc g.2),
        restrict_convAll_prune mask rest hrest (conv (restrict _ acc) g.2)]
    congr 2
    apply restrict_conv_prune_left
    intro p _ q hq hf
    by_contra hg
    have hg' : maskOk mask (rest.map (·.1)).sum (fadd p.1 q.1) = true := by simpa using hg
    have h1 := maskOk_of_fadd_left mask _ _ _ hg'
    have hq' := hsz g List.mem_cons_self q hq
    have h2 := maskOk_mono mask p.1 h1 (r' := g.1 + (rest.map (·.1)).sum) (by omega)
    rw [h2] at hf
    exact Bool.noConfusion hf

/-- one group of the code: its photon number, its full distribution, the filter the engine applied -/
structure Grp where
  n : ℕ
  d : D
  f : Fock → Bool

/-- **Mask invariance, list form.**  `N` is the photon number of the whole input state, `T` any bound on the
photons the mask asks for.  If every group's filter keeps at least what the mask with budget
`min N (n_g + T)` keeps, then after conditioning on the heralded values the convolution of the filtered
groups is the convolution of the full groups — as lists, entry by entry. -/
theorem restrict_convAll_masked (mask : List (Option ℕ)) (N T : ℕ) (hT : maskTotal mask ≤ T) :
    ∀ (gs : List Grp), (∀ g ∈ gs, ∀ q ∈ g.d, q.1.sum ≤ g.n) →
    (∀ g ∈ gs, ∀ y, maskOk mask (min N (g.n + T) - g.n) y = true → g.f y = true) →
    ∀ (acc : D) (a : ℕ), (∀ p ∈ acc, p.1.sum ≤ a) → a + (gs.map (·.n)).sum ≤ N →
    restrict (maskOk mask 0) (convAll acc (gs.map fun g => restrict g.f g.d)) =
    restrict (maskOk mask 0) (convAll acc (gs.map (·.d)))
  | [], _, _, acc, _, _, _ => by simp
  | g :: rest, hsz, hf, acc, a, hacc, hN => by
    have hsz' : ∀ g' ∈ rest, ∀ q ∈ g'.d, q.1.sum ≤ g'.n := fun g' hg' => hsz g' (List.mem_cons_of_mem _ hg')
    have hf' : ∀ g' ∈ rest, ∀ y, maskOk mask (min N (g'.n + T) - g'.n) y = true → g'.f y = true :=
      fun g' hg' => hf g' (List.mem_cons_of_mem _ hg')
    simp only [List.map_cons, List.sum_cons] at hN
    simp only [List.map_cons, convAll_cons]
    -- the remaining factors, as (size, distribution) pairs
    let restM : List (ℕ × D) := rest.map fun g' => (g'.n, restrict g'.f g'.d)
    have hM2 : restM.map (·.2) = rest.map fun g' => restrict g'.f g'.d := by simp [restM]
    have hM1 : restM.map (·.1) = rest.map (·.n) := by simp [restM]
    have hMsz : ∀ g' ∈ restM, ∀ q ∈ g'.2, q.1.sum ≤ g'.1 := by
      intro g' hg' q hq
      simp only [restM, List.mem_map] at hg'
      obtain ⟨g0, hg0, rfl⟩ := hg'
      exact hsz' g0 hg0 q (mem_restrict hq)
    have e1 := restrict_convAll_prune mask restM hMsz (conv acc (restrict g.f g.d))
    have e2 := restrict_convAll_prune mask restM hMsz (conv acc g.d)
    rw [hM2, hM1] at e1 e2
    have key : restrict (maskOk mask (rest.map (·.n)).sum) (conv acc g.d) =
        restrict (maskOk mask (rest.map (·.n)).sum) (conv acc (restrict g.f g.d)) := by
      apply restrict_conv_prune_right
      intro p hp q _ hfq
      by_contra hg
      have hg' : maskOk mask (rest.map (·.n)).sum (fadd p.1 q.1) = true := by simpa using hg
      have h1 := maskOk_of_fadd_right mask _ _ _ hg'
      have h2 := maskOk_cap mask _ T _ h1 hT
      have hpa := hacc p hp
      have h3 := maskOk_mono mask q.1 h2 (r' := min N (g.n + T) - g.n) (by omega)
      rw [hf g List.mem_cons_self q.1 h3] at hfq
      exact Bool.noConfusion hfq
    rw [e1, ← key, ← e2]
    refine restrict_convAll_masked mask N T hT rest hsz' hf' (conv acc g.d) (a + g.n) ?_ (by omega)
    intro x hx
    obtain ⟨p, hp, q, hq, rfl⟩ := mem_conv hx
    have := hacc p hp
    have := hsz g List.mem_cons_self q hq
    simp only [sum_fadd]
    omega

/-! ### the herald dictionary and the positional mask -/

theorem lookup_mem : ∀ {h : List (ℕ × ℕ)} {i d : ℕ}, h.lookup i = some d → (i, d) ∈ h
  | [], _, _, hl => by simp at hl
  | (k, v) :: t, i, d, hl => by
    rw [List.lookup_cons] at hl
    by_cases hik : i = k
    · subst hik
      simp at hl
      simp [hl]
    · have : (i == k) = false := by simpa using hik
      rw [this] at hl
      exact List.mem_cons_of_mem _ (lookup_mem hl)

theorem lookup_of_mem : ∀ {h : List (ℕ × ℕ)}, (h.map (·.1)).Nodup → ∀ {i d : ℕ}, (i, d) ∈ h →
    h.lookup i = some d
  | [], _, _, _, hm => by simp at hm
  | (k, v) :: t, hnd, i, d, hm => by
    rw [List.lookup_cons]
    simp only [List.map_cons, List.nodup_cons] at hnd
    rcases List.mem_cons.1 hm with heq | hm'
    · simp only [Prod.mk.injEq] at heq
      obtain ⟨rfl, rfl⟩ := heq
      simp
    · have hik : i ≠ k := by
        rintro rfl
        exact hnd.1 (List.mem_map.2 ⟨(i, d), hm', rfl⟩)
      have : (i == k) = false := by simpa using hik
      rw [this]
      exact lookup_of_mem hnd.2 hm'

theorem maskOk_zero_cons_none (ms : List (Option ℕ)) (a : ℕ) (as : Fock) :
    maskOk (none :: ms) 0 (a :: as) = maskOk ms 0 as := by
  rw [Bool.eq_iff_iff, maskOk_iff, maskOk_iff]
  simp [leAll, deficit]

theorem maskOk_zero_cons_some (d : ℕ) (ms : List (Option ℕ)) (a : ℕ) (as : Fock) :
    maskOk (some d :: ms) 0 (a :: as) = (decide (a = d) && maskOk ms 0 as) := by
  rw [Bool.eq_iff_iff, Bool.and_eq_true, maskOk_iff, maskOk_iff]
  simp only [leAll, deficit, List.zip_cons_cons, List.all_cons, List.map_cons, List.sum_cons,
    decide_eq_true_eq, Bool.and_eq_true, Nat.le_zero_eq, Nat.add_eq_zero_iff]
  constructor
  · rintro ⟨⟨h1, h2⟩, h3, h4⟩
    exact ⟨by omega, h2, h4⟩
  · rintro ⟨rfl, h2, h4⟩
    exact ⟨⟨le_refl _, h2⟩, by omega, h4⟩

/-- with slack 0 a mask built from a per-mode lookup `f` asks exactly `tᵢ = d` wherever `f i = some d` -/
theorem maskOk_zero_range' (f : ℕ → Option ℕ) : ∀ (t : Fock) (k : ℕ),
    maskOk ((List.range' k t.length).map f) 0 t = true ↔
      ∀ i, i < t.length → ∀ d, f (k + i) = some d → t.getD i 0 = d
  | [], k => by simp [maskOk_iff, leAll, deficit]
  | a :: as, k => by
    simp only [List.length_cons, List.range'_succ, List.map_cons]
    have ih := maskOk_zero_range' f as (k + 1)
    cases hfk : f k with
    | none =>
      rw [maskOk_zero_cons_none, ih]
      constructor
      · intro h i hi d hd
        cases i with
        | zero => simp [hfk] at hd
        | succ j =>
          have := h j (by omega) d (by rwa [show k + 1 + j = k + (j + 1) by omega])
          simpa using this
      · intro h i hi d hd
        have := h (i + 1) (by omega) d (by rwa [show k + (i + 1) = k + 1 + i by omega])
        simpa using this
    | some d0 =>
      rw [maskOk_zero_cons_some, Bool.and_eq_true, ih]
      constructor
      · rintro ⟨ha, h⟩ i hi d hd
        cases i with
        | zero =>
          simp only [Nat.add_zero, hfk, Option.some.injEq] at hd
          simp at ha
          simp [ha, hd]
        | succ j =>
          have := h j (by omega) d (by rwa [show k + 1 + j = k + (j + 1) by omega])
          simpa using this
      · intro h
        refine ⟨?_, ?_⟩
        · have := h 0 (by omega) d0 (by simpa using hfk)
          simpa using this
        · intro i hi d hd
          have := h (i + 1) (by omega) d (by rwa [show k + (i + 1) = k + 1 + i by omega])
          simpa using this

/-- well-formed herald dictionary: distinct modes inside the circuit -/
structure HeraldsWF (m : ℕ) (h : List (ℕ × ℕ)) : Prop where
  nodup : (h.map (·.1)).Nodup
  inRange : ∀ p ∈ h, p.1 < m

/-- on states of the circuit's size the specification's herald test is the mask with slack 0 -/
theorem heraldsOk_eq_maskOk {m : ℕ} {h : List (ℕ × ℕ)} (wf : HeraldsWF m h) (t : Fock)
    (ht : t.length = m) : heraldsOk h t = maskOk (heraldMask m h) 0 t := by
  rw [Bool.eq_iff_iff]
  have hm : heraldMask m h = (List.range' 0 t.length).map fun i => h.lookup i := by
    simp [heraldMask, List.range_eq_range', ht]
  rw [hm, maskOk_zero_range']
  simp only [heraldsOk, List.all_eq_true, beq_iff_eq, Nat.zero_add]
  constructor
  · intro hall i _ d hd
    exact hall (i, d) (lookup_mem hd)
  · intro hpos p hp
    have := wf.inRange p hp
    exact hpos p.1 (by omega) p.2 (lookup_of_mem wf.nodup hp)

theorem sum_range_ite (k v : ℕ) : ∀ m : ℕ,
    ((List.range m).map fun i => if i = k then v else 0).sum = if k < m then v else 0
  | 0 => by simp
  | m + 1 => by
    rw [List.range_succ, List.map_append, List.sum_append, sum_range_ite k v m]
    by_cases h1 : k < m
    · have : m ≠ k := by omega
      simp [h1, this]; omega
    · by_cases h2 : m = k
      · subst h2; simp
      · have : ¬ k < m + 1 := by omega
        simp [h1, h2, this]

theorem sum_map_le_sum_map {α : Type} (l : List α) (f g : α → ℕ) (h : ∀ x ∈ l, f x ≤ g x) :
    (l.map f).sum ≤ (l.map g).sum := by
  induction l with
  | nil => simp
  | cons a r ih =>
    have := ih (fun x hx => h x (List.mem_cons_of_mem _ hx))
    have := h a List.mem_cons_self
    simp only [List.map_cons, List.sum_cons]; omega

theorem sum_map_add' {α : Type} (l : List α) (f g : α → ℕ) :
    (l.map fun x => f x + g x).sum = (l.map f).sum + (l.map g).sum := by
  induction l with
  | nil => simp
  | cons a r ih => simp only [List.map_cons, List.sum_cons, ih]; omega

/-- the mask never asks for more photons than `sum(heralds.values())` -/
theorem maskTotal_heraldMask_le (m : ℕ) : ∀ h : List (ℕ × ℕ), maskTotal (heraldMask m h) ≤ nHeralds h
  | [] => by simp [maskTotal, heraldMask, nHeralds]
  | (k, v) :: t => by
    have ih := maskTotal_heraldMask_le m t
    simp only [maskTotal, heraldMask, List.map_map, nHeralds, List.map_cons, List.sum_cons] at *
    calc ((List.range m).map ((fun o : Option ℕ => o.getD 0) ∘ fun i => List.lookup i ((k, v) :: t))).sum
        ≤ ((List.range m).map fun i => (if i = k then v else 0) +
            ((fun o : Option ℕ => o.getD 0) ∘ fun i => List.lookup i t) i).sum := by
          apply sum_map_le_sum_map
          intro i _
          simp only [Function.comp, List.lookup_cons]
          by_cases hik : i = k
          · subst hik; simp
          · have : (i == k) = false := by simpa using hik
            simp [this, hik]
      _ = ((List.range m).map fun i => if i = k then v else 0).sum +
            ((List.range m).map ((fun o : Option ℕ => o.getD 0) ∘ fun i => List.lookup i t)).sum :=
          sum_map_add' _ _ _
      _ ≤ v + (t.map (·.2)).sum := by
          rw [sum_range_ite]
          split <;> omega

/-! ### shapes of the keys, non-negativity, masses -/

theorem length_convAll (m : ℕ) : ∀ (ds : List D) (acc : D), (∀ p ∈ acc, p.1.length = m) →
    (∀ d ∈ ds, ∀ q ∈ d, q.1.length = m) → ∀ x ∈ convAll acc ds, x.1.length = m
  | [], _, ha, _, x, hx => ha x hx
  | d :: ds, acc, ha, hd, x, hx => by
    refine length_convAll m ds (conv acc d) ?_ (fun d' hd' => hd d' (List.mem_cons_of_mem _ hd')) x hx
    intro y hy
    obtain ⟨p, hp, q, hq, rfl⟩ := mem_conv hy
    simp [length_fadd, ha p hp, hd d List.mem_cons_self q hq]

theorem sum_convAll : ∀ (gs : List (ℕ × D)) (acc : D) (a : ℕ), (∀ p ∈ acc, p.1.sum = a) →
    (∀ g ∈ gs, ∀ q ∈ g.2, q.1.sum = g.1) →
    ∀ x ∈ convAll acc (gs.map (·.2)), x.1.sum = a + (gs.map (·.1)).sum
  | [], _, a, ha, _, x, hx => by simpa using ha x hx
  | g :: gs, acc, a, ha, hg, x, hx => by
    have := sum_convAll gs (conv acc g.2) (a + g.1) ?_
      (fun g' hg' => hg g' (List.mem_cons_of_mem _ hg')) x hx
    · simp only [List.map_cons, List.sum_cons]; omega
    · intro y hy
      obtain ⟨p, hp, q, hq, rfl⟩ := mem_conv hy
      simp [sum_fadd, ha p hp, hg g List.mem_cons_self q hq]

/-- all entries non-negative -/
def NN (d : D) : Prop := ∀ p ∈ d, 0 ≤ p.2

theorem NN.mass_nonneg {d : D} (h : NN d) : 0 ≤ mass d := by
  induction d with
  | nil => simp
  | cons p r ih =>
    have := ih (fun q hq => h q (List.mem_cons_of_mem _ hq))
    have := h p List.mem_cons_self
    rw [mass_cons]; linarith

theorem NN.restrict {d : D} (h : NN d) (f : Fock → Bool) : NN (restrict f d) :=
  fun p hp => h p (mem_restrict hp)

theorem NN.conv {a b : D} (ha : NN a) (hb : NN b) : NN (conv a b) := by
  intro x hx
  obtain ⟨p, hp, q, hq, rfl⟩ := mem_conv hx
  exact mul_nonneg (ha p hp) (hb q hq)

theorem NN.scale {d : D} (h : NN d) {w : ℚ} (hw : 0 ≤ w) : NN (scale w d) := by
  intro x hx
  simp only [Dist.scale, List.mem_map] at hx
  obtain ⟨p, hp, rfl⟩ := hx
  exact mul_nonneg hw (h p hp)

theorem NN.append {a b : D} (ha : NN a) (hb : NN b) : NN (a ++ b) := by
  intro x hx
  rcases List.mem_append.1 hx with h | h
  · exact ha x h
  · exact hb x h

theorem NN.convAll : ∀ (ds : List D) (acc : D), NN acc → (∀ d ∈ ds, NN d) → NN (convAll acc ds)
  | [], _, ha, _ => ha
  | d :: ds, acc, ha, hd =>
    NN.convAll ds (Dist.conv acc d) (ha.conv (hd d List.mem_cons_self))
      (fun d' hd' => hd d' (List.mem_cons_of_mem _ hd'))

theorem NN.mix : ∀ (l : List (ℚ × D)), (∀ p ∈ l, 0 ≤ p.1 ∧ NN p.2) → NN (mix l)
  | [], _ => by intro x hx; simp [Dist.mix] at hx
  | (w, d) :: r, h => by
    have h0 := h (w, d) List.mem_cons_self
    simp only [Dist.mix]
    exact (h0.2.scale h0.1).append (NN.mix r (fun p hp => h p (List.mem_cons_of_mem _ hp)))

theorem mass_restrict_le {d : D} (h : NN d) (f : Fock → Bool) : mass (restrict f d) ≤ mass d := by
  have h1 := mass_restrict_add f d
  have h2 := (h.restrict (fun t => !f t)).mass_nonneg
  linarith

theorem mass_convAll : ∀ (ds : List D) (acc : D), (∀ d ∈ ds, mass d = 1) → mass (convAll acc ds) = mass acc
  | [], _, _ => rfl
  | d :: ds, acc, h => by
    rw [convAll_cons, mass_convAll ds _ (fun d' hd' => h d' (List.mem_cons_of_mem _ hd')), mass_conv,
      h d List.mem_cons_self, mul_one]

/-! ### restriction, scaling, mixtures -/

theorem restrict_congr {f g : Fock → Bool} {d : D} (h : ∀ p ∈ d, f p.1 = g p.1) :
    restrict f d = restrict g d := by
  simp only [restrict]
  exact List.filter_congr h

theorem restrict_of_all {f : Fock → Bool} {d : D} (h : ∀ p ∈ d, f p.1 = true) : restrict f d = d := by
  simp only [restrict]
  exact List.filter_eq_self.2 h

theorem restrict_of_none {f : Fock → Bool} {d : D} (h : ∀ p ∈ d, f p.1 = false) : restrict f d = [] := by
  simp only [restrict, List.filter_eq_nil_iff]
  intro p hp
  simp [h p hp]

theorem restrict_scale (f : Fock → Bool) (w : ℚ) (d : D) : restrict f (scale w d) = scale w (restrict f d) := by
  induction d with
  | nil => rfl
  | cons p r ih =>
    simp only [restrict, scale, List.map_cons, List.filter_cons] at *
    by_cases h : f p.1 = true
    · simp [h, ih]
    · simp [h, ih]

theorem mapKeys_scale (g : Fock → Fock) (w : ℚ) (d : D) : mapKeys g (scale w d) = scale w (mapKeys g d) := by
  simp [mapKeys, scale]

theorem scale_scale (a b : ℚ) (d : D) : scale a (scale b d) = scale (a * b) d := by
  simp [scale, mul_assoc]

theorem mem_scale {w : ℚ} {d : D} {x : Fock × ℚ} (h : x ∈ scale w d) : ∃ p ∈ d, x = (p.1, w * p.2) := by
  simp only [scale, List.mem_map] at h
  obtain ⟨p, hp, rfl⟩ := h
  exact ⟨p, hp, rfl⟩

theorem restrict_mix (f : Fock → Bool) : ∀ l : List (ℚ × D),
    restrict f (mix l) = mix (l.map fun p => (p.1, restrict f p.2))
  | [] => rfl
  | (w, d) :: r => by
    simp only [mix, List.map_cons, restrict_append, restrict_scale, restrict_mix f r]

/-- scaling by a non-zero factor is invisible after normalisation -/
theorem normalize_scale (k : ℚ) (hk : k ≠ 0) (d : D) (hd : mass d ≠ 0) :
    normalize (scale k d) = normalize d := by
  have hm : k * mass d ≠ 0 := mul_ne_zero hk hd
  simp only [normalize, hm, hd, ↓reduceIte, scale_scale, mass_scale]
  congr 1
  field_simp

/-! ### one member of the mixture -/

/-- what is assumed of the engine on the groups that occur: `m`-mode outputs with the input's photon number
(photon-number conservation), a probability distribution (unitarity) -/
structure EngOK (eng : Fock → D) (m : ℕ) (members : List Member) : Prop where
  shape : ∀ mb ∈ members, ∀ s ∈ mb.groups, ∀ q ∈ eng s, q.1.length = m ∧ q.1.sum = s.sum
  massOne : ∀ mb ∈ members, ∀ s ∈ mb.groups, mass (eng s) = 1
  nonneg : ∀ mb ∈ members, ∀ s ∈ mb.groups, NN (eng s)

/-- the input mixture: non-negative weights of total 1 -/
structure MixOK (members : List Member) : Prop where
  wsum : (members.map (·.w)).sum = 1
  wpos : ∀ mb ∈ members, 0 ≤ mb.w

/-- the filter `groupDist` applies to the engine's distribution -/
def groupFilter (c : Cfg) (nExt : ℕ) (s : Fock) : Fock → Bool :=
  if canUseMask c && bestN (canUseMask c) (nHeralds c.heralds) nExt s.sum != 0 then
    maskOk (heraldMask c.m c.heralds) (slack c nExt s.sum)
  else fun _ => true

theorem groupDist_fun (eng : Fock → D) (c : Cfg) (nExt : ℕ) :
    groupDist eng c nExt = fun s => restrict (groupFilter c nExt s) (eng s) := by
  funext s
  unfold groupDist groupFilter
  split <;> simp [restrict]

theorem groupFilter_weaker (c : Cfg) (nExt : ℕ) (s y : Fock)
    (h : maskOk (heraldMask c.m c.heralds) (min nExt (s.sum + nHeralds c.heralds) - s.sum) y = true) :
    groupFilter c nExt s y = true := by
  unfold groupFilter
  split
  · next hc =>
    have hm : canUseMask c = true := by
      simp only [Bool.and_eq_true] at hc
      exact hc.1
    simpa [slack, bestN, hm] using h
  · rfl

theorem zeros_sum (m : ℕ) : (zeros m).sum = 0 := by simp [zeros]
theorem zeros_length (m : ℕ) : (zeros m).length = m := by simp [zeros]

theorem member_mask_invariance (eng : Fock → D) (c : Cfg) (mb : Member)
    (hshape : ∀ s ∈ mb.groups, ∀ q ∈ eng s, q.1.sum ≤ s.sum) :
    restrict (maskOk (heraldMask c.m c.heralds) 0) (memberDist eng c mb) =
    restrict (maskOk (heraldMask c.m c.heralds) 0) (fullMember eng c.m mb) := by
  have key := restrict_convAll_masked (heraldMask c.m c.heralds) mb.n (nHeralds c.heralds)
    (maskTotal_heraldMask_le _ _)
    (mb.groups.map fun s => (⟨s.sum, eng s, groupFilter c mb.n s⟩ : Grp)) ?_ ?_ [(zeros c.m, 1)] 0 ?_ ?_
  · simpa [memberDist, fullMember, groupDist_fun, List.map_map, Function.comp_def] using key
  · intro g hg q hq
    simp only [List.mem_map] at hg
    obtain ⟨s, hs, rfl⟩ := hg
    exact hshape s hs q hq
  · intro g hg y hy
    simp only [List.mem_map] at hg
    obtain ⟨s, hs, rfl⟩ := hg
    exact groupFilter_weaker c mb.n s y hy
  · intro p hp
    simp only [List.mem_singleton] at hp
    simp [hp, zeros_sum]
  · simp [Member.n, List.map_map, Function.comp_def]

theorem memberDist_length (eng : Fock → D) (c : Cfg) (mb : Member)
    (hshape : ∀ s ∈ mb.groups, ∀ q ∈ eng s, q.1.length = c.m) :
    ∀ x ∈ memberDist eng c mb, x.1.length = c.m := by
  apply length_convAll
  · intro p hp
    simp only [List.mem_singleton] at hp
    simp [hp, zeros_length]
  · intro d hd q hq
    simp only [List.mem_map, groupDist_fun] at hd
    obtain ⟨s, hs, rfl⟩ := hd
    exact hshape s hs q (mem_restrict hq)

theorem fullMember_keys (eng : Fock → D) (m : ℕ) (mb : Member)
    (hshape : ∀ s ∈ mb.groups, ∀ q ∈ eng s, q.1.length = m ∧ q.1.sum = s.sum) :
    ∀ x ∈ fullMember eng m mb, x.1.length = m ∧ x.1.sum = mb.n := by
  intro x hx
  constructor
  · refine length_convAll m _ _ ?_ ?_ x hx
    · intro p hp
      simp only [List.mem_singleton] at hp
      simp [hp, zeros_length]
    · intro d hd q hq
      simp only [List.mem_map] at hd
      obtain ⟨s, hs, rfl⟩ := hd
      exact (hshape s hs q hq).1
  · have e : mb.groups.map eng = (mb.groups.map fun s => (s.sum, eng s)).map (·.2) := by
      simp [List.map_map, Function.comp_def]
    unfold fullMember at hx
    rw [e] at hx
    have := sum_convAll _ _ 0 ?_ ?_ x hx
    · simpa [Member.n, List.map_map, Function.comp_def] using this
    · intro p hp
      simp only [List.mem_singleton] at hp
      simp [hp, zeros_sum]
    · intro g hg q hq
      simp only [List.mem_map] at hg
      obtain ⟨s, hs, rfl⟩ := hg
      exact (hshape s hs q hq).2

/-- **Mask invariance for one input state**, in the specification's terms: conditioning on the heralds, the
distribution computed group by group under the herald mask with the budgets of `_best_n` is the full one. -/
theorem member_heralds_invariance (eng : Fock → D) (c : Cfg) (mb : Member) (wf : HeraldsWF c.m c.heralds)
    (hshape : ∀ s ∈ mb.groups, ∀ q ∈ eng s, q.1.length = c.m ∧ q.1.sum = s.sum) :
    restrict (heraldsOk c.heralds) (memberDist eng c mb) =
    restrict (heraldsOk c.heralds) (fullMember eng c.m mb) := by
  rw [restrict_congr (g := maskOk (heraldMask c.m c.heralds) 0)
        (fun p hp => heraldsOk_eq_maskOk wf p.1
          (memberDist_length eng c mb (fun s hs q hq => (hshape s hs q hq).1) p hp)),
      restrict_congr (g := maskOk (heraldMask c.m c.heralds) 0)
        (fun p hp => heraldsOk_eq_maskOk wf p.1 (fullMember_keys eng c.m mb hshape p hp).1)]
  exact member_mask_invariance eng c mb (fun s hs q hq => le_of_eq (hshape s hs q hq).2)

theorem mass_fullMember (eng : Fock → D) (m : ℕ) (mb : Member) (h : ∀ s ∈ mb.groups, mass (eng s) = 1) :
    mass (fullMember eng m mb) = 1 := by
  unfold fullMember
  rw [mass_convAll]
  · simp
  · intro d hd
    simp only [List.mem_map] at hd
    obtain ⟨s, hs, rfl⟩ := hd
    exact h s hs

theorem NN_memberDist (eng : Fock → D) (c : Cfg) (mb : Member) (h : ∀ s ∈ mb.groups, NN (eng s)) :
    NN (memberDist eng c mb) := by
  apply NN.convAll
  · intro p hp
    simp only [List.mem_singleton] at hp
    simp [hp]
  · intro d hd
    simp only [List.mem_map, groupDist_fun] at hd
    obtain ⟨s, hs, rfl⟩ := hd
    exact (h s hs).restrict _

/-! ### the mixture -/

/-- `res` of `_probs_svd_fast` before normalisation -/
def codeRes (eng : Fock → D) (c : Cfg) (members : List Member) : D :=
  mix ((kept c members).map fun mb => (mb.w, memberDist eng c mb))

theorem probsSvd_eq (eng : Fock → D) (c : Cfg) (members : List Member) :
    probsSvd eng c members =
      if mass (codeRes eng c members) = 0 then ⟨[], physInputs c members, 0⟩
      else ⟨(postSelect c (normalize (codeRes eng c members))).1, physInputs c members,
            (if 0 < mass (codeRes eng c members) ∧ 0 < physInputs c members
              then mass (codeRes eng c members) / physInputs c members else mass (codeRes eng c members)) *
            (postSelect c (normalize (codeRes eng c members))).2⟩ := rfl

theorem mem_kept {c : Cfg} {members : List Member} {mb : Member} (h : mb ∈ kept c members) : mb ∈ members :=
  (List.mem_filter.1 h).1

theorem restrict_phys_full (eng : Fock → D) (c : Cfg) : ∀ (members : List Member),
    (∀ mb ∈ members, ∀ s ∈ mb.groups, ∀ q ∈ eng s, q.1.length = c.m ∧ q.1.sum = s.sum) →
    restrict (physOk (cond c)) (full eng c.m members) =
      mix ((kept c members).map fun mb => (mb.w, fullMember eng c.m mb))
  | [], _ => rfl
  | mb :: r, h => by
    have ih := restrict_phys_full eng c r (fun mb' hmb' => h mb' (List.mem_cons_of_mem _ hmb'))
    have hk := fullMember_keys eng c.m mb (h mb List.mem_cons_self)
    have e : full eng c.m (mb :: r) = scale mb.w (fullMember eng c.m mb) ++ full eng c.m r := rfl
    rw [e, restrict_append, restrict_scale, ih]
    by_cases hf : minFilter c ≤ mb.n
    · have : kept c (mb :: r) = mb :: kept c r := by simp [kept, hf]
      rw [this, restrict_of_all]
      · rfl
      · intro p hp
        simp [physOk, cond, (hk p hp).2, hf]
    · have : kept c (mb :: r) = kept c r := by simp [kept, hf]
      rw [this, restrict_of_none]
      · rfl
      · intro p hp
        simp [physOk, cond, (hk p hp).2, hf]

theorem mix_congr : ∀ (l : List Member) (f g : Member → ℚ × D), (∀ mb ∈ l, f mb = g mb) →
    mix (l.map f) = mix (l.map g)
  | [], _, _, _ => rfl
  | mb :: r, f, g, h => by
    simp only [List.map_cons]
    rw [h mb List.mem_cons_self, List.map_congr_left (fun x hx => h x (List.mem_cons_of_mem _ hx))]

/-- the retained part of the *unconditioned* distribution is the logically accepted part of what the code
accumulated under the mask — as lists -/
theorem retained_eq (eng : Fock → D) (c : Cfg) (members : List Member) (wf : HeraldsWF c.m c.heralds)
    (hshape : ∀ mb ∈ members, ∀ s ∈ mb.groups, ∀ q ∈ eng s, q.1.length = c.m ∧ q.1.sum = s.sum) :
    retained (cond c) (full eng c.m members) = restrict (logicOk (cond c)) (codeRes eng c members) := by
  have e1 : retained (cond c) (full eng c.m members) =
      restrict (logicOk (cond c)) (restrict (physOk (cond c)) (full eng c.m members)) := by
    rw [restrict_restrict]; rfl
  have split : ∀ d : D, restrict (logicOk (cond c)) d =
      restrict (fun t => c.ps.eval t) (restrict (heraldsOk c.heralds) d) := by
    intro d; rw [restrict_restrict]; rfl
  have hh : restrict (heraldsOk c.heralds) (mix ((kept c members).map fun mb => (mb.w, fullMember eng c.m mb))) =
      restrict (heraldsOk c.heralds) (codeRes eng c members) := by
    rw [codeRes, restrict_mix, restrict_mix, List.map_map, List.map_map]
    apply mix_congr
    intro mb hmb
    simp only [Function.comp]
    rw [member_heralds_invariance eng c mb wf (hshape mb (mem_kept hmb))]
  rw [e1, restrict_phys_full eng c members hshape, split, split, hh]

theorem sum_filter_partition {α : Type} (f : α → ℚ) (p : α → Bool) : ∀ l : List α,
    ((l.filter p).map f).sum + ((l.filter fun x => !p x).map f).sum = (l.map f).sum
  | [] => by simp
  | a :: r => by
    have := sum_filter_partition f p r
    by_cases h : p a = true
    · simp only [List.filter_cons, h, ↓reduceIte, Bool.not_true, Bool.false_eq_true, List.map_cons,
        List.sum_cons]
      linarith
    · have h' : p a = false := by simpa using h
      simp only [List.filter_cons, h', Bool.false_eq_true, ↓reduceIte, Bool.not_false, List.map_cons,
        List.sum_cons]
      linarith

theorem sum_mul_zero_of_sum_zero {α : Type} (f g : α → ℚ) : ∀ l : List α, (∀ x ∈ l, 0 ≤ f x) →
    (l.map f).sum = 0 → (l.map fun x => f x * g x).sum = 0
  | [], _, _ => by simp
  | a :: r, hf, hs => by
    have hr : 0 ≤ (r.map f).sum := by
      apply List.sum_nonneg
      intro x hx
      obtain ⟨y, hy, rfl⟩ := List.mem_map.1 hx
      exact hf y (List.mem_cons_of_mem _ hy)
    have ha := hf a List.mem_cons_self
    simp only [List.map_cons, List.sum_cons] at hs ⊢
    have ha0 : f a = 0 := by linarith
    have hr0 : (r.map f).sum = 0 := by linarith
    rw [ha0, zero_mul, zero_add]
    exact sum_mul_zero_of_sum_zero f g r (fun x hx => hf x (List.mem_cons_of_mem _ hx)) hr0

theorem mass_kept_full (eng : Fock → D) (c : Cfg) (members : List Member)
    (hm : ∀ mb ∈ members, ∀ s ∈ mb.groups, mass (eng s) = 1) :
    mass (mix ((kept c members).map fun mb => (mb.w, fullMember eng c.m mb))) =
      ((kept c members).map (·.w)).sum := by
  rw [mass_mix, List.map_map]
  congr 1
  apply List.map_congr_left
  intro mb hmb
  simp [mass_fullMember eng c.m mb (hm mb (mem_kept hmb))]

theorem physInputs_eq (c : Cfg) (members : List Member) (hw : (members.map (·.w)).sum = 1) :
    physInputs c members = ((kept c members).map (·.w)).sum := by
  have := sum_filter_partition (fun mb : Member => mb.w) (fun mb => decide (minFilter c ≤ mb.n)) members
  unfold physInputs kept
  linarith

theorem NN_codeRes (eng : Fock → D) (c : Cfg) (members : List Member)
    (hn : ∀ mb ∈ members, ∀ s ∈ mb.groups, NN (eng s)) (hw : ∀ mb ∈ members, 0 ≤ mb.w) :
    NN (codeRes eng c members) := by
  apply NN.mix
  intro p hp
  simp only [List.mem_map] at hp
  obtain ⟨mb, hmb, rfl⟩ := hp
  exact ⟨hw mb (mem_kept hmb), NN_memberDist eng c mb (hn mb (mem_kept hmb))⟩

theorem removeModes_nil (t : Fock) : removeModes [] t = t := by
  simp [removeModes]

theorem hasCond_false {ps : PS} (h : hasCond ps = false) : ps = .tt := by
  cases ps <;> simp_all [hasCond]

/-! ### heralded modes: removal, interleaving, the filter -/

theorem maskTotal_cons (o : Option ℕ) (ms : List (Option ℕ)) :
    maskTotal (o :: ms) = o.getD 0 + maskTotal ms := by simp [maskTotal]

theorem sum_removeM : ∀ (mask : List (Option ℕ)) (t : Fock), mask.length = t.length →
    maskOk mask 0 t = true → (removeM mask t).sum + maskTotal mask = t.sum
  | [], [], _, _ => by simp [removeM, maskTotal]
  | [], _ :: _, hl, _ => by simp at hl
  | _ :: _, [], hl, _ => by simp at hl
  | none :: ms, a :: as, hl, h => by
    rw [maskOk_zero_cons_none] at h
    have := sum_removeM ms as (by simpa using hl) h
    simp only [removeM, maskTotal_cons, List.sum_cons, Option.getD_none]
    omega
  | some d :: ms, a :: as, hl, h => by
    rw [maskOk_zero_cons_some, Bool.and_eq_true] at h
    have := sum_removeM ms as (by simpa using hl) h.2
    have had : a = d := by simpa using h.1
    simp only [removeM, maskTotal_cons, List.sum_cons, Option.getD_some]
    omega

theorem removeModes_eq_removeM_aux (modes : List ℕ) (f : ℕ → Option ℕ)
    (hf : ∀ i, modes.contains i = (f i).isSome) : ∀ (t : Fock) (k : ℕ),
    ((t.zipIdx k).filter fun p => !modes.contains p.2).map (·.1) =
      removeM ((List.range' k t.length).map f) t
  | [], k => by simp [removeM]
  | a :: as, k => by
    have ih := removeModes_eq_removeM_aux modes f hf as (k + 1)
    simp only [List.zipIdx_cons, List.length_cons, List.range'_succ, List.map_cons, List.filter_cons]
    cases hfk : f k with
    | none =>
      have : modes.contains k = false := by rw [hf, hfk]; rfl
      simp only [this, Bool.not_false, ↓reduceIte, List.map_cons, removeM, ih]
    | some d =>
      have : modes.contains k = true := by rw [hf, hfk]; rfl
      simp only [this, Bool.not_true, Bool.false_eq_true, ↓reduceIte, removeM, ih]

theorem contains_keys_eq_lookup_isSome : ∀ (h : List (ℕ × ℕ)) (i : ℕ),
    (h.map (·.1)).contains i = (h.lookup i).isSome
  | [], i => by simp
  | (k, v) :: t, i => by
    have ih := contains_keys_eq_lookup_isSome t i
    rw [List.lookup_cons]
    by_cases hik : i = k
    · subst hik; simp
    · have e : (i == k) = false := by simpa using hik
      simp only [List.map_cons, List.contains_cons, e, Bool.false_or]
      exact ih

theorem removeModes_eq_removeM (m : ℕ) (h : List (ℕ × ℕ)) (t : Fock) (ht : t.length = m) :
    removeModes (h.map (·.1)) t = removeM (heraldMask m h) t := by
  have := removeModes_eq_removeM_aux (h.map (·.1)) (fun i => h.lookup i)
    (contains_keys_eq_lookup_isSome h) t 0
  simpa [removeModes, heraldMask, List.range_eq_range', ht] using this

theorem lookup_none_of_not_mem : ∀ (t : List (ℕ × ℕ)) (k : ℕ), k ∉ t.map (·.1) → t.lookup k = none
  | [], _, _ => rfl
  | (k', v) :: t, k, hk => by
    simp only [List.map_cons, List.mem_cons, not_or] at hk
    rw [List.lookup_cons]
    have e : (k == k') = false := by simpa using hk.1
    rw [e]
    exact lookup_none_of_not_mem t k hk.2

theorem sum_map_congr' {α : Type} (l : List α) (f g : α → ℕ) (h : ∀ x ∈ l, f x = g x) :
    (l.map f).sum = (l.map g).sum := by
  rw [List.map_congr_left h]

/-- for a well-formed dictionary the mask asks for exactly `sum(heralds.values())` photons -/
theorem maskTotal_heraldMask_eq (m : ℕ) : ∀ h : List (ℕ × ℕ), HeraldsWF m h →
    maskTotal (heraldMask m h) = nHeralds h
  | [], _ => by simp [maskTotal, heraldMask, nHeralds]
  | (k, v) :: t, wf => by
    have hnd := wf.nodup
    simp only [List.map_cons, List.nodup_cons] at hnd
    have wf' : HeraldsWF m t := ⟨hnd.2, fun p hp => wf.inRange p (List.mem_cons_of_mem _ hp)⟩
    have ih := maskTotal_heraldMask_eq m t wf'
    have hk : k < m := wf.inRange (k, v) List.mem_cons_self
    simp only [maskTotal, heraldMask, List.map_map, nHeralds, List.map_cons, List.sum_cons] at *
    rw [← ih]
    calc ((List.range m).map ((fun o : Option ℕ => o.getD 0) ∘ fun i => List.lookup i ((k, v) :: t))).sum
        = ((List.range m).map fun i => (if i = k then v else 0) +
            ((fun o : Option ℕ => o.getD 0) ∘ fun i => List.lookup i t) i).sum := by
          apply sum_map_congr'
          intro i _
          simp only [Function.comp, List.lookup_cons]
          by_cases hik : i = k
          · subst hik
            simp [lookup_none_of_not_mem t i hnd.1]
          · have : (i == k) = false := by simpa using hik
            simp [this, hik]
      _ = ((List.range m).map fun i => if i = k then v else 0).sum +
            ((List.range m).map ((fun o : Option ℕ => o.getD 0) ∘ fun i => List.lookup i t)).sum :=
          sum_map_add' _ _ _
      _ = v + _ := by rw [sum_range_ite]; simp [hk]

theorem heraldMask_length (m : ℕ) (h : List (ℕ × ℕ)) : (heraldMask m h).length = m := by
  simp [heraldMask]

theorem length_interleaveM : ∀ (mask : List (Option ℕ)) (u : Fock), (interleaveM mask u).length = mask.length
  | [], _ => rfl
  | some d :: ms, u => by simp [interleaveM, length_interleaveM ms u]
  | none :: ms, a :: u => by simp [interleaveM, length_interleaveM ms u]
  | none :: ms, [] => by simp [interleaveM, length_interleaveM ms []]

theorem maskOk_interleaveM : ∀ (mask : List (Option ℕ)) (u : Fock), maskOk mask 0 (interleaveM mask u) = true
  | [], _ => by simp [interleaveM, maskOk_iff, leAll, deficit]
  | some d :: ms, u => by
    simp [interleaveM, maskOk_zero_cons_some, maskOk_interleaveM ms u]
  | none :: ms, a :: u => by
    simp [interleaveM, maskOk_zero_cons_none, maskOk_interleaveM ms u]
  | none :: ms, [] => by
    simp [interleaveM, maskOk_zero_cons_none, maskOk_interleaveM ms []]

theorem removeM_interleaveM : ∀ (mask : List (Option ℕ)) (u : Fock), u.length = freeModes mask →
    removeM mask (interleaveM mask u) = u
  | [], u, hu => by
    have : u = [] := by simpa [freeModes] using hu
    simp [interleaveM, removeM, this]
  | some d :: ms, u, hu => by
    have : u.length = freeModes ms := by simpa [freeModes] using hu
    simp [interleaveM, removeM, removeM_interleaveM ms u this]
  | none :: ms, a :: u, hu => by
    have : u.length = freeModes ms := by simpa [freeModes] using hu
    simp [interleaveM, removeM, removeM_interleaveM ms u this]
  | none :: ms, [], hu => by
    simp [freeModes] at hu

/-! ### declaration order of the heralds -/

theorem lookup_perm {h h' : List (ℕ × ℕ)} (hp : h.Perm h') (hnd : (h.map (·.1)).Nodup) (i : ℕ) :
    h.lookup i = h'.lookup i := by
  have hnd' : (h'.map (·.1)).Nodup := (hp.map _).nodup_iff.mp hnd
  cases e : h.lookup i with
  | some d => exact (lookup_of_mem hnd' (hp.subset (lookup_mem e))).symm
  | none =>
    cases e' : h'.lookup i with
    | none => rfl
    | some d =>
      have := lookup_of_mem hnd (hp.symm.subset (lookup_mem e'))
      rw [e] at this
      cases this

theorem heraldMask_perm (m : ℕ) {h h' : List (ℕ × ℕ)} (hp : h.Perm h') (hnd : (h.map (·.1)).Nodup) :
    heraldMask m h = heraldMask m h' := by
  simp only [heraldMask]
  exact List.map_congr_left fun i _ => lookup_perm hp hnd i

theorem nHeralds_perm {h h' : List (ℕ × ℕ)} (hp : h.Perm h') : nHeralds h = nHeralds h' := by
  simp only [nHeralds]
  exact (hp.map _).sum_eq

/-! ### detector stage -/

/-- every row of every kernel is a probability distribution -/
def KernsNormed (Ks : List Kern) : Prop := ∀ K ∈ Ks, ∀ k, ((K k).map (·.2)).sum = 1

theorem mass_map_scaled (a : ℕ × ℚ) (d : D) :
    mass (d.map fun sp => (a.1 :: sp.1, a.2 * sp.2)) = a.2 * mass d := by
  induction d with
  | nil => simp
  | cons b d ihd => simp only [List.map_cons, mass_cons, ihd]; ring

theorem mass_flatMap_scaled (l : List (ℕ × ℚ)) (d : D) :
    mass (l.flatMap fun jq => d.map fun sp => (jq.1 :: sp.1, jq.2 * sp.2)) = (l.map (·.2)).sum * mass d := by
  induction l with
  | nil => simp
  | cons a l ih =>
    simp only [List.flatMap_cons, mass_append, ih, List.map_cons, List.sum_cons, mass_map_scaled]
    ring

theorem mass_detectState : ∀ (Ks : List Kern) (t : Fock), KernsNormed Ks → mass (detectState Ks t) = 1
  | [], _, _ => by simp [detectState]
  | _ :: _, [], _ => by simp [detectState]
  | K :: Ks, a :: t, hK => by
    rw [detectState, mass_flatMap_scaled, hK K (List.mem_cons_self ..) a,
      mass_detectState Ks t (fun K' hK' => hK K' (List.mem_cons_of_mem _ hK'))]
    ring

/-- the detector stage moves probability between patterns, it neither creates nor loses any -/
theorem mass_detect (Ks : List Kern) (d : D) (hK : KernsNormed Ks) : mass (detect Ks d) = mass d := by
  induction d with
  | nil => simp [detect]
  | cons a d ih =>
    have : detect Ks (a :: d) = scale a.2 (detectState Ks a.1) ++ detect Ks d := by
      simp [detect]
    rw [this, mass_append, ih, mass_scale, mass_detectState Ks a.1 hK, mass_cons]; ring

theorem detectState_pnr : ∀ (ds : List Det) (t : Fock), allPnr ds = true → ds.length = t.length →
    detectState (ds.map Det.kern) t = [(t, 1)]
  | [], [], _, _ => by simp [detectState]
  | [], _ :: _, _, h => by simp at h
  | _ :: _, [], _, h => by simp at h
  | d :: ds, a :: t, hp, hl => by
    simp only [allPnr, List.all_cons, Bool.and_eq_true] at hp
    have ih := detectState_pnr ds t (by simpa [allPnr] using hp.2) (by simpa using hl)
    have hk : d.kern a = [(a, 1)] := by
      cases d <;> simp_all [Det.isPnr, Det.kern]
    simp [detectState, hk, ih]

/-- perfect photon-number resolution on every mode: the detector stage is the identity (as a list) -/
theorem detect_pnr (ds : List Det) (hp : allPnr ds = true) (d : D) (hl : ∀ p ∈ d, p.1.length = ds.length) :
    detect (ds.map Det.kern) d = d := by
  induction d with
  | nil => simp [detect]
  | cons a d ih =>
    have h1 : detect (ds.map Det.kern) (a :: d) =
        scale a.2 (detectState (ds.map Det.kern) a.1) ++ detect (ds.map Det.kern) d := by simp [detect]
    rw [h1, ih (fun p hp' => hl p (List.mem_cons_of_mem _ hp')),
      detectState_pnr ds a.1 hp (hl a (List.mem_cons_self ..)).symm]
    simp [scale]

theorem full_keys (eng : Fock → D) (m : ℕ) : ∀ (members : List Member),
    (∀ mb ∈ members, ∀ s ∈ mb.groups, ∀ q ∈ eng s, q.1.length = m ∧ q.1.sum = s.sum) →
    ∀ p ∈ full eng m members, p.1.length = m
  | [], _ => by intro p hp; cases hp
  | mb :: r, h => by
    intro p hp
    have e : full eng m (mb :: r) = scale mb.w (fullMember eng m mb) ++ full eng m r := rfl
    rw [e, List.mem_append] at hp
    rcases hp with hp | hp
    · obtain ⟨q, hq, rfl⟩ := mem_scale hp
      exact (fullMember_keys eng m mb (h mb List.mem_cons_self) q hq).1
    · exact full_keys eng m r (fun mb' hmb' => h mb' (List.mem_cons_of_mem _ hmb')) p hp

/-! ### witnesses for the non-vacuity examples of `Props/C04.lean` -/

def idEng : Fock → D := fun s => [(s, 1)]

def exCfg : Cfg := { m := 3, heralds := [(1, 1)], ps := .cond [0] .ge 1, userFilter := 1,
                     keepHeralds := false, pnr := true }

def exMembers : List Member := [⟨1/2, [[1, 1, 0]]⟩, ⟨1/4, [[1, 0, 0], [0, 1, 0]]⟩, ⟨1/4, [[0, 1, 0]]⟩]

theorem exWF : HeraldsWF exCfg.m exCfg.heralds := ⟨by decide, by decide⟩

theorem exEng : EngOK idEng exCfg.m exMembers := by
  refine ⟨?_, ?_, ?_⟩ <;> simp [idEng, exMembers, exCfg, NN, mass]

theorem exMix : MixOK exMembers := by
  refine ⟨?_, ?_⟩
  · norm_num [exMembers]
  · intro mb hmb
    simp only [exMembers, List.mem_cons, List.not_mem_nil, or_false] at hmb
    rcases hmb with rfl | rfl | rfl <;> norm_num

theorem exRet : mass (retained (cond exCfg) (full idEng exCfg.m exMembers)) ≠ 0 := by
  simp [retained, cond, full, fullMember, convAll, exMembers, exCfg, idEng, mix, scale, conv, restrict, zeros,
    fadd, physOk, logicOk, heraldsOk, PS.eval, Cmp.eval, minFilter, nHeralds, mass, List.replicate]
  norm_num

def exGrps : List Grp :=
  [⟨1, [([0, 1], 1), ([1, 0], 0)], maskOk [none, some 1] (min 2 (1 + 1) - 1)⟩, ⟨1, [([1, 0], 1)], fun _ => true⟩]


end PM.C04
