/-
  C07 — wave 7 helper lemmas: the photon-filter case excluded by `lossPost_spec`, non-negativity of the
  detected marginal and of the noisy-source mixture.
-/
import PercevalModel.Lemmas.C07Sel
import PercevalModel.Lemmas.C07Det
import PercevalModel.Lemmas.C07Mix

namespace PM.C07
open PM.SimSpec PM.Dist

/-- a part of a non-negative distribution of mass zero has mass zero -/
theorem mass_restrict_zero_of_mass_zero (ok : Dist.Fock → Bool) (d : Dist.D) (h : Nonneg d) (h0 : mass d = 0) :
    mass (restrict ok d) = 0 :=
  le_antisymm (h0 ▸ mass_restrict_le ok d h) (mass_nonneg _ (nonneg_restrict ok d h))

/-- `_postprocess_bsd` of the loss layer when nothing passes the photon filter -/
theorem lossPost_nothing_passes (σ : Sel) (M : ℕ) (d : Dist.D) (hd : Dist.mass d = 1) (hn : Nonneg d)
    (hp : SimSpec.physPerf σ.cond (postprocess M d) = 0) :
    (lossPost σ M d).2.2 = 0 ∧ (lossPost σ M d).2.1 = 1 ∧
      SimSpec.logicalPerf σ.cond (postprocess M d) = 0 ∧
      Dist.mass (SimSpec.retained σ.cond (postprocess M d)) = 0 := by
  have hm1 : mass (postprocess M d) = 1 := by unfold postprocess; rw [mass_mapKeys, hd]
  have hf : σ.filter ≠ 0 := by
    intro hf
    apply one_ne_zero (α := ℚ)
    rw [← hm1, ← hp]
    unfold physPerf
    rw [restrict_true]
    intro t
    simp [physOk, Sel.cond, hf]
  have hn1 := nonneg_postprocess M d hn
  have hres : mass (restrict (fun t => decide (σ.filter ≤ t.sum)) (postprocess M d)) = 0 := by
    rw [← physOk_sel]; exact hp
  have hnres := nonneg_restrict (fun t => decide (σ.filter ≤ t.sum)) _ hn1
  refine ⟨?_, ?_, ?_, ?_⟩
  · simp only [lossPost, filterCount, hf, ↓reduceIte]
    exact hres
  · simp only [lossPost, filterCount, hf, ↓reduceIte, postSelect]
    split
    · rfl
    · rw [show Dist.normalize (restrict (fun t => decide (σ.filter ≤ t.sum)) (postprocess M d)) =
          restrict (fun t => decide (σ.filter ≤ t.sum)) (postprocess M d) by
        unfold Dist.normalize; rw [if_pos hres]]
      rw [mass_restrict_zero_of_mass_zero _ _ hnres hres]
      norm_num
  · unfold logicalPerf; rw [if_pos hp]
  · unfold retained
    rw [← restrict_restrict]
    exact mass_restrict_zero_of_mass_zero _ _ (nonneg_restrict _ _ hn1) hp

/-- detectors with non-negative rows on the marginal of a Fock distribution: non-negative -/
theorem nonneg_detectMarginal {N : ℕ} (ds : List DetK) (U : Matrix (Fin N) (Fin N) GQ) (M : ℕ) (s : List ℕ)
    (hnn : ∀ d ∈ ds, ∀ n, ∀ e ∈ d.kern n, (0 : ℚ) ≤ e.2) : Nonneg (detectMarginal ds U M s) := by
  unfold detectMarginal lossProbs
  refine nonneg_detectAll _ _ ?_ (nonneg_postprocess M _ (nonneg_fullDist _ _))
  intro k hk
  obtain ⟨d, hd, rfl⟩ := List.mem_map.1 hk
  exact hnn d hd

/-- a mixture with non-negative weights of marginal Fock distributions is non-negative -/
theorem nonneg_lossProbsMix {N : ℕ} (U : Matrix (Fin N) (Fin N) GQ) (M : ℕ) (src : List (ℚ × List ℕ))
    (h : ∀ ws ∈ src, (0 : ℚ) ≤ ws.1) : Nonneg (lossProbsMix U M src) := by
  rw [← postprocess_enlargedMix]
  exact nonneg_postprocess M _ (nonneg_enlargedMix U M src h)

end PM.C07
