/-
  C12 — the quadrant logic of `add_phases` (decomposition.py) over the reals.

      a = iD.real; b = iD.imag
      if b != 0 or a < 0:
          if b == 0: phi = pi
          elif a == 0: phi = pi/2 if b > 0 else 3*pi/2
          else: phi = arctan(b/a); if a < 0: phi += pi
          phases = [(idx, phase_shifter_fn(phi))] + phases
-/
import Mathlib.Analysis.SpecialFunctions.Trigonometric.Arctan

open Real

namespace PM.C12

/-- `none` = no phase shifter is inserted for this diagonal entry -/
noncomputable def phaseOf (a b : ℝ) : Option ℝ :=
  if b ≠ 0 ∨ a < 0 then
    some (if b = 0 then π
          else if a = 0 then (if b > 0 then π / 2 else 3 * π / 2)
          else (if a < 0 then arctan (b / a) + π else arctan (b / a)))
  else none

theorem sqrt_one_add_sq_div {a b : ℝ} (h : a ^ 2 + b ^ 2 = 1) (ha : a ≠ 0) :
    √(1 + (b / a) ^ 2) = 1 / |a| := by
  have habs : |a| ≠ 0 := abs_ne_zero.2 ha
  have : 1 + (b / a) ^ 2 = (1 / |a|) ^ 2 := by
    rw [div_pow, div_pow, sq_abs]
    field_simp
    linarith
  rw [this, Real.sqrt_sq (by positivity)]

theorem cos_arctan_div {a b : ℝ} (h : a ^ 2 + b ^ 2 = 1) (ha : a ≠ 0) :
    cos (arctan (b / a)) = |a| := by
  rw [cos_arctan, sqrt_one_add_sq_div h ha]
  simp

theorem sin_arctan_div {a b : ℝ} (h : a ^ 2 + b ^ 2 = 1) (ha : a ≠ 0) :
    sin (arctan (b / a)) = b / a * |a| := by
  rw [sin_arctan, sqrt_one_add_sq_div h ha]
  simp [div_eq_mul_inv]

end PM.C12
