/-
  C06 — the class profile of a state IS the state up to the names of its fresh tags: two states in each of which
  every fresh tag occurs once (the second one using a single common tag) have the same profile iff one is the other
  with its tags renamed, common tags staying common and fresh tags staying fresh (injectively).
-/
import PercevalModel.Lemmas.C06Kinds
import Mathlib.Data.List.Nodup
namespace PM.C06

/-- `s'` is `s` with its tags renamed by `ρ` (mode by mode, up to the order of the photons inside a mode) -/
def Renamed (ρ : Tag → Tag) (s s' : State) : Prop := List.Forall₂ (fun m m' => (m.map ρ).Perm m') s s'

/-! ### easy direction -/

theorem cls_map_of_commonTag (ρ : Tag → Tag) (hρ : ∀ tg, commonTag (ρ tg) = commonTag tg) (m : Mode) :
    cls (m.map ρ) = cls m := by
  unfold cls mCommon mFresh freshTags
  simp [List.filter_map, Function.comp_def, hρ]

/-- easy direction: a renaming that keeps common tags common and fresh tags fresh keeps the profile -/
theorem profile_eq_of_renamed (ρ : Tag → Tag) (hρ : ∀ tg, commonTag (ρ tg) = commonTag tg) {s s' : State}
    (h : Renamed ρ s s') : profile s = profile s' := by
  unfold profile
  induction h with
  | nil => rfl
  | cons hm _ ih => rw [List.map_cons, List.map_cons, ih, ← cls_perm hm, cls_map_of_commonTag ρ hρ]

/-! ### association lists -/

/-- value of the first pair of `l` whose key is `t`, `d` when there is none -/
def assocD (d : Tag) : List (Tag × Tag) → Tag → Tag
  | [], _ => d
  | p :: l, t => if t = p.1 then p.2 else assocD d l t

theorem assocD_eq_or_mem (d : Tag) (l : List (Tag × Tag)) (t : Tag) :
    assocD d l t = d ∨ (t, assocD d l t) ∈ l := by
  induction l with
  | nil => exact Or.inl rfl
  | cons p l ih =>
    rcases p with ⟨a, b⟩
    by_cases h : t = a
    · right
      simp [assocD, h]
    · rcases ih with ih | ih
      · left
        simp [assocD, h, ih]
      · right
        simp [assocD, h, ih]

theorem assocD_of_mem (d : Tag) {l : List (Tag × Tag)} (hl : (l.map Prod.fst).Nodup) {a b : Tag}
    (h : (a, b) ∈ l) : assocD d l a = b := by
  induction l with
  | nil => cases h
  | cons p l ih =>
    rcases p with ⟨a', b'⟩
    rw [List.map_cons, List.nodup_cons] at hl
    rcases List.mem_cons.1 h with h2 | h2
    · cases h2
      simp [assocD]
    · have hne : a ≠ a' := by
        rintro rfl
        exact hl.1 (List.mem_map.2 ⟨(a, b), h2, rfl⟩)
      simp [assocD, hne, ih hl.2 h2]

theorem map_eq_of_zip (f : Tag → Tag) : ∀ (X Y : List Tag), X.length = Y.length →
    (∀ p ∈ List.zip X Y, f p.1 = p.2) → X.map f = Y
  | [], [], _, _ => rfl
  | [], _ :: _, h, _ => by simp at h
  | _ :: _, [], h, _ => by simp at h
  | x :: X, y :: Y, h, hz => by
    rw [List.map_cons, map_eq_of_zip f X Y (by simpa using h) (fun p hp => hz p (by simp [hp])),
      show f x = y from hz (x, y) (by simp)]

/-! ### the renaming read off an association list -/

/-- common tags go to `c0`, a fresh tag goes to its partner in `L` (to the fresh tag `some 1` when it has none) -/
def renameBy (c0 : Tag) (L : List (Tag × Tag)) (tg : Tag) : Tag :=
  if commonTag tg = true then c0 else assocD (some 1) L tg

theorem renameBy_common (c0 : Tag) (L : List (Tag × Tag)) {tg : Tag} (h : commonTag tg = true) :
    renameBy c0 L tg = c0 := by simp [renameBy, h]

theorem renameBy_fresh (c0 : Tag) (L : List (Tag × Tag)) {m : Mode} {tg : Tag} (h : tg ∈ freshTags m) :
    renameBy c0 L tg = assocD (some 1) L tg := by
  have := (List.mem_filter.1 h).2
  simp only [Bool.not_eq_true'] at this
  simp [renameBy, this]

theorem freshTags_append (a b : Mode) : freshTags (a ++ b) = freshTags a ++ freshTags b :=
  List.filter_append a b

/-- the renaming of any association list with distinct keys that contains the pairs (i-th fresh tag of `s`, i-th
fresh tag of `s'`) turns `s` into `s'` -/
theorem renamed_of_assoc (c0 : Tag) (L : List (Tag × Tag)) (hL : (L.map Prod.fst).Nodup) :
    ∀ (s s' : State), profile s = profile s' → (∀ tg ∈ s'.flatten, commonTag tg = true → tg = c0) →
      (∀ p ∈ List.zip (freshTags s.flatten) (freshTags s'.flatten), p ∈ L) → Renamed (renameBy c0 L) s s' := by
  intro s
  induction s with
  | nil =>
    intro s' h _ _
    cases s' with
    | nil => exact List.Forall₂.nil
    | cons m' s' => simp [profile] at h
  | cons m s ih =>
    intro s' h hc' hsub
    cases s' with
    | nil => simp [profile] at h
    | cons m' s' =>
      have hcls : cls m = cls m' := (List.cons.inj h).1
      have hprof : profile s = profile s' := (List.cons.inj h).2
      have hfl : (freshTags m).length = (freshTags m').length := congrArg Prod.snd hcls
      have hmc : mCommon m = mCommon m' := congrArg Prod.fst hcls
      rw [List.flatten_cons, List.flatten_cons, freshTags_append, freshTags_append, List.zip_append hfl] at hsub
      rw [List.flatten_cons] at hc'
      refine List.Forall₂.cons ?_ (ih s' hprof (fun tg htg => hc' tg (List.mem_append_right _ htg))
        (fun p hp => hsub p (List.mem_append_right _ hp)))
      have hfm : (freshTags m).map (renameBy c0 L) = freshTags m' := by
        refine map_eq_of_zip _ _ _ hfl ?_
        rintro ⟨a, b⟩ hp
        rw [renameBy_fresh c0 L (List.of_mem_zip hp).1]
        exact assocD_of_mem _ hL (hsub _ (List.mem_append_left _ hp))
      have hcm : (m.filter commonTag).map (renameBy c0 L) = List.replicate (mCommon m) c0 := by
        refine List.eq_replicate_iff.2 ⟨by rw [List.length_map]; rfl, ?_⟩
        intro b hb
        obtain ⟨a, ha, rfl⟩ := List.mem_map.1 hb
        exact renameBy_common c0 L (List.mem_filter.1 ha).2
      have hcm' : m'.filter commonTag = List.replicate (mCommon m') c0 := by
        refine List.eq_replicate_iff.2 ⟨rfl, ?_⟩
        intro b hb
        exact hc' b (List.mem_append_left _ (List.mem_filter.1 hb).1) (List.mem_filter.1 hb).2
      have hpm : (m.filter commonTag ++ freshTags m).Perm m := List.filter_append_perm commonTag m
      refine (hpm.symm.map _).trans ?_
      rw [List.map_append, hcm, hfm, hmc, ← hcm']
      exact List.filter_append_perm commonTag m'

/-! ### hard direction -/

/-- hard direction: two states with the same profile, in each of which every fresh tag occurs once, and the second of
which uses ONE common tag `c0`, differ by a renaming that is injective on the fresh tags of the first -/
theorem renamed_of_profile_eq (s s' : State) (c0 : Tag) (hc0 : commonTag c0 = true)
    (hs : (freshTags s.flatten).Nodup) (hs' : (freshTags s'.flatten).Nodup)
    (hc' : ∀ tg ∈ s'.flatten, commonTag tg = true → tg = c0) (h : profile s = profile s') :
    ∃ ρ : Tag → Tag, (∀ tg, commonTag (ρ tg) = commonTag tg) ∧
      (∀ a ∈ freshTags s.flatten, ∀ b ∈ freshTags s.flatten, ρ a = ρ b → a = b) ∧ Renamed ρ s s' := by
  have hcl : cls s.flatten = cls s'.flatten := by
    rw [cls_flatten, cls_flatten]
    exact congrArg clsSum h
  have hlen : (freshTags s.flatten).length = (freshTags s'.flatten).length := congrArg Prod.snd hcl
  have hL : ((List.zip (freshTags s.flatten) (freshTags s'.flatten)).map Prod.fst).Nodup := by
    rw [List.map_fst_zip hlen.le]
    exact hs
  refine ⟨renameBy c0 (List.zip (freshTags s.flatten) (freshTags s'.flatten)), ?_, ?_,
    renamed_of_assoc c0 _ hL s s' h hc' (fun p hp => hp)⟩
  · intro tg
    by_cases htg : commonTag tg = true
    · rw [renameBy_common c0 _ htg, hc0, htg]
    · simp only [Bool.not_eq_true] at htg
      have hr : renameBy c0 (List.zip (freshTags s.flatten) (freshTags s'.flatten)) tg =
          assocD (some 1) (List.zip (freshTags s.flatten) (freshTags s'.flatten)) tg := by
        simp [renameBy, htg]
      rw [hr, htg]
      rcases assocD_eq_or_mem (some 1) (List.zip (freshTags s.flatten) (freshTags s'.flatten)) tg with h1 | h1
      · rw [h1]
        rfl
      · have := (List.mem_filter.1 (List.of_mem_zip h1).2).2
        simpa using this
  · have hmap : (freshTags s.flatten).map
        (renameBy c0 (List.zip (freshTags s.flatten) (freshTags s'.flatten))) = freshTags s'.flatten := by
      refine map_eq_of_zip _ _ _ hlen ?_
      rintro ⟨a, b⟩ hp
      rw [renameBy_fresh c0 _ (List.of_mem_zip hp).1]
      exact assocD_of_mem _ hL hp
    exact List.inj_on_of_nodup_map (by rw [hmap]; exact hs')

/-- the profile is the state up to the names of its fresh tags -/
theorem profile_eq_iff_renamed (s s' : State) (c0 : Tag) (hc0 : commonTag c0 = true)
    (hs : (freshTags s.flatten).Nodup) (hs' : (freshTags s'.flatten).Nodup)
    (hc' : ∀ tg ∈ s'.flatten, commonTag tg = true → tg = c0) :
    profile s = profile s' ↔ ∃ ρ : Tag → Tag, (∀ tg, commonTag (ρ tg) = commonTag tg) ∧ Renamed ρ s s' := by
  constructor
  · intro h
    obtain ⟨ρ, h1, _, h3⟩ := renamed_of_profile_eq s s' c0 hc0 hs hs' hc' h
    exact ⟨ρ, h1, h3⟩
  · rintro ⟨ρ, h1, h3⟩
    exact profile_eq_of_renamed ρ h1 h3

end PM.C06
