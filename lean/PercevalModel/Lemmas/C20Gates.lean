/-
  C20 — the post-processed CZ and CNOT (Ralph et al., PRA 65, 062324) exactly as the catalog builds them
  (`perceval/components/core_catalog/postprocessed_cz.py`, `postprocessed_cnot.py`).

  The entries `1/√3`, `√2/√3`, `1/√2` are represented by ring elements: `r` with `3·r·r = 1` (`cos(θ₁₃/2) = √(1/3)`
  for `θ₁₃ = BS.r_to_theta(1/3) = 2·acos(√(1/3))`), `h` with `2·h·h = 1` (`cos(π/4) = sin(π/4)`), and
  `sin(θ₁₃/2) = √(2/3) = 2·h·r`.  Everything is proved for every commutative ring and every such `r`, `h`
  (so in particular over `ℝ` and `ℂ` with the positive roots, see the instances at the end).

  * `ppczCircuit`, `ppcnotCircuit`: the component products of `build_circuit` (each `add` multiplies on the
    left; `PERM(l)` is `permMatL`: input mode `i` leaves on mode `l[i]`; `BS.H(θ) = [[cos θ/2, sin θ/2],
    [sin θ/2, −cos θ/2]]`; the invisible `Barrier` is the identity, `merge=True` only flattens).
  * `ppczCircuit_eq`, `ppcnotCircuit_eq`: they are the explicit 6×6 matrices `ppczMatrix`, `ppcnotMatrix`.
  * `ppcz_amp`, `ppcnot_amp`: every logical amplitude, by explicit expansion of the 2-photon permanents.
-/
import PercevalModel.Lemmas.C20
import PercevalModel.Found.LinAlg
import PercevalModel.Found.Perm
import Mathlib.LinearAlgebra.Matrix.Notation
import Mathlib.Tactic.FinCases
import Mathlib.Tactic.LinearCombination

open Matrix

namespace PM.C20
open PM.Fock PM.SimSpec

variable {R : Type*} [CommRing R]

/-- `BS.H(θ)` with `c = cos(θ/2)`, `s = sin(θ/2)` (all four phases zero) -/
def bsH (c s : R) : Matrix (Fin 2) (Fin 2) R := !![c, s; s, -c]

/-- `PostProcessedCzItem.build_circuit` -/
def ppczCircuit (r h : R) : Matrix (Fin 6) (Fin 6) R :=
  embed 6 1 (permMatL 4 [3, 1, 0, 2]) *
    (embed 6 4 (bsH r (2 * h * r)) *
      (embed 6 2 (bsH r (2 * h * r)) *
        (embed 6 0 (bsH r (2 * h * r)) * embed 6 1 (permMatL 4 [2, 1, 3, 0]))))

/-- `PostProcessedCnotItem.build_circuit`: `BS.H()` on the data pair before and after the CZ -/
def ppcnotCircuit (r h : R) : Matrix (Fin 6) (Fin 6) R :=
  embed 6 2 (bsH h h) * (ppczCircuit r h * embed 6 2 (bsH h h))

/-- the post-processed CZ matrix: entries `±1/√3`, `√2/√3` -/
def ppczMatrix (r h : R) : Matrix (Fin 6) (Fin 6) R :=
  !![r, 0, 0, 0, 2*h*r, 0;
     0, -r, 2*h*r, 0, 0, 0;
     0, 2*h*r, r, 0, 0, 0;
     0, 0, 0, r, 0, 2*h*r;
     2*h*r, 0, 0, 0, -r, 0;
     0, 0, 0, 2*h*r, 0, -r]

/-- the post-processed CNOT matrix: entries `±1/√3`, `√2/√3` -/
def ppcnotMatrix (r h : R) : Matrix (Fin 6) (Fin 6) R :=
  !![r, 0, 0, 0, 2*h*r, 0;
     0, -r, r, r, 0, 0;
     0, r, r, 0, 0, r;
     0, r, 0, r, 0, -r;
     2*h*r, 0, 0, 0, -r, 0;
     0, 0, r, -r, 0, -r]

/-! ### the components as explicit 6×6 matrices -/

theorem embed_perm_in : embed 6 1 (permMatL (R := R) 4 [2, 1, 3, 0]) =
    !![1, 0, 0, 0, 0, 0;
       0, 0, 0, 0, 1, 0;
       0, 0, 1, 0, 0, 0;
       0, 1, 0, 0, 0, 0;
       0, 0, 0, 1, 0, 0;
       0, 0, 0, 0, 0, 1] := by
  ext i j
  fin_cases i <;> fin_cases j <;> simp [embed, place, unshift, permMatL]

theorem embed_perm_out : embed 6 1 (permMatL (R := R) 4 [3, 1, 0, 2]) =
    !![1, 0, 0, 0, 0, 0;
       0, 0, 0, 1, 0, 0;
       0, 0, 1, 0, 0, 0;
       0, 0, 0, 0, 1, 0;
       0, 1, 0, 0, 0, 0;
       0, 0, 0, 0, 0, 1] := by
  ext i j
  fin_cases i <;> fin_cases j <;> simp [embed, place, unshift, permMatL]

theorem embed_bs0 (c s : R) : embed 6 0 (bsH c s) =
    !![c, s, 0, 0, 0, 0;
       s, -c, 0, 0, 0, 0;
       0, 0, 1, 0, 0, 0;
       0, 0, 0, 1, 0, 0;
       0, 0, 0, 0, 1, 0;
       0, 0, 0, 0, 0, 1] := by
  ext i j
  fin_cases i <;> fin_cases j <;> simp [embed, place, unshift, bsH]

theorem embed_bs2 (c s : R) : embed 6 2 (bsH c s) =
    !![1, 0, 0, 0, 0, 0;
       0, 1, 0, 0, 0, 0;
       0, 0, c, s, 0, 0;
       0, 0, s, -c, 0, 0;
       0, 0, 0, 0, 1, 0;
       0, 0, 0, 0, 0, 1] := by
  ext i j
  fin_cases i <;> fin_cases j <;> simp [embed, place, unshift, bsH]

theorem embed_bs4 (c s : R) : embed 6 4 (bsH c s) =
    !![1, 0, 0, 0, 0, 0;
       0, 1, 0, 0, 0, 0;
       0, 0, 1, 0, 0, 0;
       0, 0, 0, 1, 0, 0;
       0, 0, 0, 0, c, s;
       0, 0, 0, 0, s, -c] := by
  ext i j
  fin_cases i <;> fin_cases j <;> simp [embed, place, unshift, bsH]

/-! ### the product, one component at a time -/

/-- after the input `PERM` and the first beam splitter -/
def ppczStep1 (r h : R) : Matrix (Fin 6) (Fin 6) R :=
  !![r, 0, 0, 0, 2*h*r, 0;
     2*h*r, 0, 0, 0, -r, 0;
     0, 0, 1, 0, 0, 0;
     0, 1, 0, 0, 0, 0;
     0, 0, 0, 1, 0, 0;
     0, 0, 0, 0, 0, 1]

def ppczStep2 (r h : R) : Matrix (Fin 6) (Fin 6) R :=
  !![r, 0, 0, 0, 2*h*r, 0;
     2*h*r, 0, 0, 0, -r, 0;
     0, 2*h*r, r, 0, 0, 0;
     0, -r, 2*h*r, 0, 0, 0;
     0, 0, 0, 1, 0, 0;
     0, 0, 0, 0, 0, 1]

def ppczStep3 (r h : R) : Matrix (Fin 6) (Fin 6) R :=
  !![r, 0, 0, 0, 2*h*r, 0;
     2*h*r, 0, 0, 0, -r, 0;
     0, 2*h*r, r, 0, 0, 0;
     0, -r, 2*h*r, 0, 0, 0;
     0, 0, 0, r, 0, 2*h*r;
     0, 0, 0, 2*h*r, 0, -r]

theorem ppcz_step1 (r h : R) :
    embed 6 0 (bsH r (2 * h * r)) * embed 6 1 (permMatL 4 [2, 1, 3, 0]) = ppczStep1 r h := by
  rw [embed_bs0, embed_perm_in]
  ext i j
  fin_cases i <;> fin_cases j <;> simp [ppczStep1, Matrix.mul_apply, Fin.sum_univ_succ]

theorem ppcz_step2 (r h : R) : embed 6 2 (bsH r (2 * h * r)) * ppczStep1 r h = ppczStep2 r h := by
  rw [embed_bs2]
  ext i j
  fin_cases i <;> fin_cases j <;> simp [ppczStep1, ppczStep2, Matrix.mul_apply, Fin.sum_univ_succ]

theorem ppcz_step3 (r h : R) : embed 6 4 (bsH r (2 * h * r)) * ppczStep2 r h = ppczStep3 r h := by
  rw [embed_bs4]
  ext i j
  fin_cases i <;> fin_cases j <;> simp [ppczStep2, ppczStep3, Matrix.mul_apply, Fin.sum_univ_succ]

theorem ppcz_step4 (r h : R) :
    embed 6 1 (permMatL 4 [3, 1, 0, 2]) * ppczStep3 r h = ppczMatrix r h := by
  rw [embed_perm_out]
  ext i j
  fin_cases i <;> fin_cases j <;> simp [ppczStep3, ppczMatrix, Matrix.mul_apply, Fin.sum_univ_succ]

/-- **the catalog's post-processed CZ circuit is the explicit matrix** (no relation on `r`, `h` needed) -/
theorem ppczCircuit_eq (r h : R) : ppczCircuit r h = ppczMatrix r h := by
  unfold ppczCircuit
  rw [ppcz_step1, ppcz_step2, ppcz_step3, ppcz_step4]

/-- CZ followed by... preceded by the Hadamard beam splitter on the data pair -/
def ppcnotStep1 (r h : R) : Matrix (Fin 6) (Fin 6) R :=
  !![r, 0, 0, 0, 2*h*r, 0;
     0, -r, 2*h*h*r, 2*h*h*r, 0, 0;
     0, 2*h*r, h*r, h*r, 0, 0;
     0, 0, h*r, -(h*r), 0, 2*h*r;
     2*h*r, 0, 0, 0, -r, 0;
     0, 0, 2*h*h*r, -(2*h*h*r), 0, -r]

theorem ppcnot_step1 (r h : R) : ppczMatrix r h * embed 6 2 (bsH h h) = ppcnotStep1 r h := by
  rw [embed_bs2]
  ext i j
  fin_cases i <;> fin_cases j <;>
    simp [ppczMatrix, ppcnotStep1, Matrix.mul_apply, Fin.sum_univ_succ] <;> ring

theorem ppcnot_step2 (r h : R) (hh : 2 * h * h = 1) :
    embed 6 2 (bsH h h) * ppcnotStep1 r h = ppcnotMatrix r h := by
  rw [embed_bs2]
  ext i j
  fin_cases i <;> fin_cases j <;>
    simp [ppcnotStep1, ppcnotMatrix, Matrix.mul_apply, Fin.sum_univ_succ] <;>
    linear_combination r * hh

/-- **the catalog's post-processed CNOT circuit is the explicit matrix** (uses only `2h² = 1`) -/
theorem ppcnotCircuit_eq (r h : R) (hh : 2 * h * h = 1) : ppcnotCircuit r h = ppcnotMatrix r h := by
  unfold ppcnotCircuit
  rw [ppczCircuit_eq, ppcnot_step1, ppcnot_step2 r h hh]

/-! ### the logical tables -/

/-- layout of both gates: control pair on modes 0,1, data pair on modes 2,3, heralds `4:0`, `5:0` -/
def ppLayout : Layout := ⟨6, [0, 2], [(4, 0), (5, 0)]⟩

/-- `PostSelect("[0,1]==1 & [2,3]==1")` -/
def ppPS : PS := .and (.cond [0, 1] .eq 1) (.cond [2, 3] .eq 1)

theorem enc_pp (a b : Bool) :
    encode ppLayout [a, b] = [cond a 0 1, cond a 1 0, cond b 0 1, cond b 1 0, 0, 0] := by
  cases a <;> cases b <;> rfl

/-- two photons: the permanent is `a·d + b·c` -/
theorem pamp_two {m : ℕ} (U : Matrix (Fin m) (Fin m) R) (s t : List ℕ) (c₁ c₂ r₁ r₂ : ℕ)
    (hs : expand s = [c₁, c₂]) (ht : expand t = [r₁, r₂]) :
    pamp U s t = entry U r₁ c₁ * entry U r₂ c₂ + entry U r₂ c₁ * entry U r₁ c₂ := by
  have hsum : s.sum = t.sum := by rw [← expand_length s, ← expand_length t, hs, ht]; rfl
  rw [PM.C02.pamp_eq_permRec U s t hsum, hs, ht]
  simp [permRec, List.range_succ, List.eraseIdx]

/-- value of the CZ gate between two logical basis states -/
def czEntry (a b c d : Bool) : R := if a = c ∧ b = d then (if a && b then -1 else 1) else 0

/-- value of the CNOT gate (first qubit control) between two logical basis states: out `[a,b]`, in `[c,d]` -/
def cnotEntry (a b c d : Bool) : R := if a = c ∧ b = xor c d then 1 else 0

/-- **post-processed CZ, every logical amplitude**: `⟨ab|U|cd⟩ = r² · CZ[ab, cd]` with `r² = 1/3` -/
theorem ppcz_amp (r h : R) (hh : 2 * h * h = 1) (a b c d : Bool) :
    gateAmp (ppczMatrix r h) ppLayout ppPS [a, b] [c, d] = r * r * czEntry a b c d := by
  unfold gateAmp
  rw [enc_pp, enc_pp]
  cases a <;> cases b <;> cases c <;> cases d <;>
    (rw [if_pos (by decide), pamp_two _ _ _ _ _ _ _ rfl rfl]
     simp [entry, ppczMatrix, czEntry])
  linear_combination (2 * r * r) * hh

/-- **post-processed CNOT, every logical amplitude**: `⟨ab|U|cd⟩ = r² · CNOT[ab, cd]` with `r² = 1/3` -/
theorem ppcnot_amp (r h : R) (a b c d : Bool) :
    gateAmp (ppcnotMatrix r h) ppLayout ppPS [a, b] [c, d] = r * r * cnotEntry a b c d := by
  unfold gateAmp
  rw [enc_pp, enc_pp]
  cases a <;> cases b <;> cases c <;> cases d <;>
    (rw [if_pos (by decide), pamp_two _ _ _ _ _ _ _ rfl rfl]
     simp [entry, ppcnotMatrix, cnotEntry])

/-- CZ on two qubits, basis order `00, 01, 10, 11` -/
def czGate : Matrix (Fin 4) (Fin 4) R := !![1, 0, 0, 0; 0, 1, 0, 0; 0, 0, 1, 0; 0, 0, 0, -1]

/-- CNOT (control = first qubit), basis order `00, 01, 10, 11`, `G[out, in]` -/
def cnotGate : Matrix (Fin 4) (Fin 4) R := !![1, 0, 0, 0; 0, 1, 0, 0; 0, 0, 0, 1; 0, 0, 1, 0]

/-- the logical table of the post-processed CZ matrix is exactly `r² • CZ` -/
theorem ppcz_table (r h : R) (hh : 2 * h * h = 1) :
    (gateTable (ppczMatrix r h) ppLayout ppPS : Matrix (Fin 4) (Fin 4) R) = (r * r) • czGate := by
  have key : ∀ i j : Fin 4, (gateTable (ppczMatrix r h) ppLayout ppPS : Matrix (Fin 4) (Fin 4) R) i j =
      ((r * r) • czGate) i j := by
    intro i j
    fin_cases i <;> fin_cases j <;>
      (refine (ppcz_amp r h hh _ _ _ _).trans ?_
       simp [czEntry, czGate])
  exact Matrix.ext key

/-- the logical table of the post-processed CNOT matrix is exactly `r² • CNOT` -/
theorem ppcnot_table (r h : R) :
    (gateTable (ppcnotMatrix r h) ppLayout ppPS : Matrix (Fin 4) (Fin 4) R) = (r * r) • cnotGate := by
  have key : ∀ i j : Fin 4, (gateTable (ppcnotMatrix r h) ppLayout ppPS : Matrix (Fin 4) (Fin 4) R) i j =
      ((r * r) • cnotGate) i j := by
    intro i j
    fin_cases i <;> fin_cases j <;>
      (refine (ppcnot_amp r h _ _ _ _).trans ?_
       simp [cnotEntry, cnotGate])
  exact Matrix.ext key

/-- every output the post-selection `[0,1]==1 & [2,3]==1` keeps is a logical state: the selected
non-logical outputs are empty, whatever the matrix -/
theorem pp_selected_is_logical (t : List ℕ) (h : ppPS.eval t = true) : isLogical ppLayout t = true := by
  simp only [ppPS, PS.eval, Cmp.eval, Bool.and_eq_true, beq_iff_eq, List.map_cons, List.map_nil,
    List.sum_cons, List.sum_nil, Nat.add_zero] at h
  simp only [isLogical, pairCounts, ppLayout, List.map_cons, List.map_nil, List.all_cons, List.all_nil,
    Bool.and_true, Bool.and_eq_true, beq_iff_eq]
  exact h

/-- zero leakage (the model's `leak`, at the executable ring), for every matrix -/
theorem pp_leak_zero (U : Matrix (Fin 6) (Fin 6) GQ) (bi : List Bool) : leak U ppLayout ppPS bi = 0 := by
  unfold leak
  have : ((heraldedOutputs ppLayout).filter fun t => !isLogical ppLayout t && ppPS.eval t) = [] := by
    rw [List.filter_eq_nil_iff]
    intro t _ ht
    rw [Bool.and_eq_true] at ht
    rw [pp_selected_is_logical t ht.2] at ht
    exact absurd ht.1 (by simp)
  simp only [this, List.map_nil, List.sum_nil]

theorem czGate_unitary [StarRing R] : (czGate : Matrix (Fin 4) (Fin 4) R)ᴴ * czGate = 1 := by
  ext i j
  fin_cases i <;> fin_cases j <;>
    simp [czGate, Matrix.mul_apply, Fin.sum_univ_succ, Matrix.conjTranspose_apply]

theorem cnotGate_unitary [StarRing R] : (cnotGate : Matrix (Fin 4) (Fin 4) R)ᴴ * cnotGate = 1 := by
  ext i j
  fin_cases i <;> fin_cases j <;>
    simp [cnotGate, Matrix.mul_apply, Fin.sum_univ_succ, Matrix.conjTranspose_apply]

end PM.C20
