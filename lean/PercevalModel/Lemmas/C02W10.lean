/-
  C02 wave 10 helper lemmas: the full matrix of a circuit with PERM components (`stepsMatrix`) is
  unitary when every block is — the embedded permutation matrix of a genuine permutation list always is.
-/
import PercevalModel.Lemmas.C02Perm
import PercevalModel.Lemmas.C02More

open Matrix

namespace PM.C02
open PM.Fock PM.FockComp

variable {R : Type*} [CommRing R] [StarRing R]

/-- the block `u[σ j, j] = 1` of a genuine permutation list is unitary -/
theorem permMatL_isUnitary {k : ℕ} {σ : List ℕ} (h : IsPermList k σ) :
    PM.IsUnitary (permMatL (R := R) k σ) := by
  rw [permMatL_eq_permMatF h]
  exact permMatF_isUnitary (permFn k σ) (invFn k σ h) (permFn_invFn h) (invFn_permFn h)

/-- every step is unitary: a block by hypothesis, a PERM always -/
def StepUnitary : Step R → Prop
  | .block c => PM.IsUnitary c.B
  | .perm _ _ => True

theorem stepMatrix_isUnitary {M : ℕ} (st : Step R) (hfit : StepFits M st) (hU : StepUnitary st) :
    PM.IsUnitary (stepMatrix M st) := by
  cases st with
  | block c => exact PM.IsUnitary.embed hfit hU
  | perm r0 σ => exact PM.IsUnitary.embed hfit.1 (permMatL_isUnitary hfit.2)

/-- the matrix of a list of steps (unitary blocks and PERMs) that fit is unitary -/
theorem stepsMatrix_isUnitary {M : ℕ} (steps : List (Step R))
    (hfit : ∀ st ∈ steps, StepFits M st) (hU : ∀ st ∈ steps, StepUnitary st) :
    PM.IsUnitary (stepsMatrix M steps) := by
  unfold stepsMatrix
  suffices h : ∀ (A : Matrix (Fin M) (Fin M) R), PM.IsUnitary A →
      PM.IsUnitary (steps.foldl (fun A st => stepMatrix M st * A) A) from h 1 PM.isUnitary_one
  induction steps with
  | nil => intro A hA; exact hA
  | cons c rest ih =>
    intro A hA
    simp only [List.foldl_cons]
    apply ih (fun c' hc' => hfit c' (List.mem_cons_of_mem _ hc'))
      (fun c' hc' => hU c' (List.mem_cons_of_mem _ hc'))
    exact (stepMatrix_isUnitary c (hfit c List.mem_cons_self) (hU c List.mem_cons_self)).mul hA

end PM.C02
