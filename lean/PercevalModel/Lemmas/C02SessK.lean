/-
  C02 — invariants of the SLOS / SLAP overrides of the configuration glue (`Model/C02SessK.lean`).
-/
import PercevalModel.Model.C02SessK
import PercevalModel.Lemmas.C02Sess

namespace PM.C02.Sess
open PM.Fock

theorem zip_self_eq_diag (l : List (List ℕ)) : l.zip l = diag l := by
  induction l with
  | nil => rfl
  | cons a l ih => simp [diag] at ih ⊢; exact ih

/-- `_init_mask` touches the mask object only -/
theorem initMask_fields {st st' : St} (h : initMask st = .ok st') :
    st'.circ = st.circ ∧ st'.masksStr = st.masksStr ∧ st'.maskN = st.maskN ∧ st'.input = st.input ∧
      st'.cache = st.cache := by
  unfold initMask at h
  split at h
  · split at h
    · cases h
    · cases h; exact ⟨rfl, rfl, rfl, rfl, rfl⟩
  · cases h; exact ⟨rfl, rfl, rfl, rfl, rfl⟩

/-- the mask object in terms of the configuration, for the current input -/
theorem mask_eq_of_inv {st : St} (hi : Inv st) {s : List ℕ} (hs : st.input = some s) :
    st.mask = st.masksStr.map fun ms => ⟨s.length, effN st.maskN s.sum, ms⟩ := by
  cases hms : st.masksStr with
  | none => simp [hi.b hms]
  | some ms => simp [hi.c s ms hs hms]

/-! ### base class through the common interface -/

theorem stepB_step {st st' : St} {op : OpK} {out : Option Ans} (h : stepB st op = .ok (st', out)) :
    ∃ o, step st op.toBase = .ok (st', o) ∧ out = o.map diag := by
  unfold stepB at h
  simp only [bind, Except.bind, pure, Except.pure] at h
  split at h
  · cases h
  · rename_i r hr
    cases h
    exact ⟨r.2, hr, rfl⟩

theorem reachableB_reachable {st : St} (h : ReachableB st) : Reachable st := by
  induction h with
  | init => exact .init
  | step _ hs ih =>
    obtain ⟨o, ho, _⟩ := stepB_step hs
    exact .step ih ho

/-! ### SLOS -/

structure InvS (x : StS) : Prop where
  i : Inv x.b
  f : ∀ n a, (n, a) ∈ x.fsas → ∃ m, x.b.circ = some m ∧
        a = ⟨m, n, x.b.masksStr.map fun ms => ⟨m, effN x.b.maskN n, ms⟩⟩
  g : ∀ s ∈ x.mapping, (fsaGet x.fsas s.sum).isSome

theorem mem_of_fsaGet {c : List (ℕ × FSA)} {n : ℕ} {a : FSA} (h : fsaGet c n = some a) :
    (n, a) ∈ c := by
  unfold fsaGet at h
  rw [Option.map_eq_some_iff] at h
  obtain ⟨p, hp, rfl⟩ := h
  have hmem := List.mem_of_find?_eq_some hp
  have hk := List.find?_some hp
  have : p.1 = n := by simpa using hk
  rw [← this]
  exact hmem

theorem resetS_inv0 {x : StS} (h : Inv0 x.b) : Inv0 (resetS x).b := by
  refine ⟨h.a, ?_, ?_, ?_⟩
  · intro _; rfl
  · intro _; rfl
  · intro m n l _ hm; cases hm

theorem invS_of_reset {x : StS} (h : Inv0 x.b) (hf : MaskFresh (resetS x).b) : InvS (resetS x) :=
  ⟨⟨resetS_inv0 h, hf⟩, (by intro n a hm; cases hm), (by intro s hm; cases hm)⟩

theorem preInitS_cases (x : StS) :
    preInitS x = x ∨ ∃ k, preInitS x = { resetS x with maskInstN := some k } := by
  unfold preInitS
  split
  · split
    · exact .inr ⟨_, rfl⟩
    · exact .inl rfl
  · exact .inl rfl

/-- `SLOSBackend._init_mask` re-establishes the whole invariant from its mask-free part -/
theorem initMaskS_inv {x x' : StS} (h0 : Inv0 x.b)
    (hf : ∀ n a, (n, a) ∈ x.fsas → ∃ m, x.b.circ = some m ∧
        a = ⟨m, n, x.b.masksStr.map fun ms => ⟨m, effN x.b.maskN n, ms⟩⟩)
    (hg : ∀ s ∈ x.mapping, (fsaGet x.fsas s.sum).isSome)
    (h : initMaskS x = .ok x') : InvS x' ∧ x'.b.input = x.b.input := by
  unfold initMaskS at h
  split at h
  · rename_i b' hb'
    cases h
    obtain ⟨q1, q2, q3, q4, _⟩ := initMask_fields hb'
    rcases preInitS_cases x with hp | ⟨k, hp⟩
    · rw [hp] at hb' q1 q2 q3 q4 ⊢
      refine ⟨⟨initMask_inv h0 hb', ?_, ?_⟩, q4⟩
      · intro n a hm
        simp only at hm ⊢
        rw [q1, q2, q3]
        exact hf n a hm
      · exact hg
    · rw [hp] at hb' q1 q2 q3 q4 ⊢
      refine ⟨⟨initMask_inv (resetS_inv0 h0) hb', ?_, ?_⟩, ?_⟩
      · intro n a hm; cases hm
      · intro s hm; cases hm
      · simpa [resetS] using q4
  · cases h

theorem fsaGet_cons_isSome {c : List (ℕ × FSA)} {n k : ℕ} {a : FSA}
    (h : (fsaGet c k).isSome) : (fsaGet ((n, a) :: c) k).isSome := by
  unfold fsaGet at h ⊢
  rw [List.find?_cons]
  split
  · simp
  · exact h

theorem preprocess_inv {x x' : StS} {s : List ℕ} (hi : InvS x) (hs : x.b.input = some s)
    (h : preprocess x s = .ok x') :
    InvS x' ∧ x'.b = x.b ∧ (fsaGet x'.fsas s.sum).isSome := by
  unfold preprocess at h
  split at h
  · rename_i hmem
    cases h
    exact ⟨hi, rfl, hi.g s hmem⟩
  · split at h
    · cases h
    · rename_i m hm
      cases h
      have hc : x.b.circ = some s.length := hi.i.a s hs
      have hmm : m = s.length := by rw [hc] at hm; cases hm; rfl
      subst hmm
      cases hget : fsaGet x.fsas s.sum with
      | some a0 =>
        refine ⟨⟨hi.i, ?_, ?_⟩, rfl, ?_⟩
        · intro n a hmem; simp only [hget] at hmem; exact hi.f n a hmem
        · intro s' hs'
          simp only [hget]
          simp only [List.mem_cons] at hs'
          rcases hs' with rfl | hs'
          · simp [hget]
          · exact hi.g s' hs'
        · simp [hget]
      | none =>
        refine ⟨⟨hi.i, ?_, ?_⟩, rfl, ?_⟩
        · intro n a hmem
          simp only [hget, List.mem_cons, Prod.mk.injEq] at hmem
          rcases hmem with ⟨rfl, rfl⟩ | hmem
          · exact ⟨s.length, hc, by rw [mask_eq_of_inv hi.i hs]⟩
          · exact hi.f n a hmem
        · intro s' hs'
          simp only [hget]
          simp only [List.mem_cons] at hs'
          rcases hs' with rfl | hs'
          · simp [fsaGet]
          · exact fsaGet_cons_isSome (hi.g s' hs')
        · simp [hget, fsaGet]

theorem setInputS_inv {x x' : StS} {s : List ℕ} (hi : InvS x) (h : setInputS x s = .ok x') :
    InvS x' ∧ x'.b.input = some s := by
  unfold setInputS at h
  split at h
  · cases h
  · rename_i m hm
    split at h
    · cases h
    · rename_i hlen
      have hlen' : m = s.length := by simpa using hlen
      split at h
      · rename_i x1 h1
        have h0 : Inv0 ({ x with b := { x.b with input := some s } } : StS).b := by
          refine ⟨?_, hi.i.b, hi.i.d, hi.i.e⟩
          intro s' hs'
          simp only [Option.some.injEq] at hs'
          subst hs'
          simp [hm, hlen']
        obtain ⟨hi1, hin1⟩ := initMaskS_inv h0 hi.f hi.g h1
        have hin : x1.b.input = some s := by rw [hin1]
        obtain ⟨hi2, hb, _⟩ := preprocess_inv hi1 hin h
        exact ⟨hi2, by rw [hb]; exact hin⟩
      · cases h

theorem clearMaskS_inv {x : StS} (hi : Inv0 x.b) : InvS (clearMaskS x) := by
  unfold clearMaskS
  refine invS_of_reset (clearMask_inv hi).toInv0 ?_
  intro s ms _ hms; cases hms

theorem inputFsa_sound {x x' : StS} {s : List ℕ} {a : FSA} (hi : InvS x) (hs : x.b.input = some s)
    (h : inputFsa x s = .ok (x', a)) : InvS x' ∧ x'.b = x.b ∧ a.states = spec x.b s := by
  unfold inputFsa at h
  split at h
  · cases h
  · rename_i x1 h1
    obtain ⟨hi1, hb, _⟩ := preprocess_inv hi hs h1
    split at h
    · cases h
    · rename_i a' ha'
      cases h
      refine ⟨hi1, hb, ?_⟩
      obtain ⟨m, hm, rfl⟩ := hi1.f _ _ (mem_of_fsaGet ha')
      have hc : x.b.circ = some s.length := hi.i.a s hs
      rw [hb, hc] at hm
      cases hm
      simp only [FSA.states, spec, hb]

theorem bulkS_sound {x x' : StS} {q : Q} {out : Option Ans} (hi : InvS x)
    (h : stepS x (.bulk q) = .ok (x', out)) :
    InvS x' ∧ ∃ s, x'.b.input = some s ∧ out = some (diag (spec x'.b s)) ∧
      (∀ s0, q = .allProb (some s0) → s = s0) := by
  simp only [stepS] at h
  split at h
  · cases h
  · rename_i x1 hpre
    have hi1 : InvS x1 ∧ ∀ s0, q = .allProb (some s0) → x1.b.input = some s0 := by
      split at hpre
      · rename_i s0
        obtain ⟨g1, g2⟩ := setInputS_inv hi hpre
        exact ⟨g1, by intro s1 hq; cases hq; exact g2⟩
      · rename_i hne
        cases hpre
        exact ⟨hi, by intro s0 hq; exact absurd hq (hne s0)⟩
    obtain ⟨hi1, hq0⟩ := hi1
    split at h
    · cases h
    · rename_i s hs
      split at h
      · cases h
      · rename_i x2 a ha
        obtain ⟨hi2, hb, hst⟩ := inputFsa_sound hi1 hs ha
        have hs2 : x2.b.input = some s := by rw [hb]; exact hs
        have huniq : ∀ s0, q = .allProb (some s0) → s = s0 := by
          intro s0 hq
          have := hq0 s0 hq
          rw [hs] at this; cases this; rfl
        split at h
        · cases h
          exact ⟨hi2, s, hs2, by rw [hst, hb], huniq⟩
        · cases h
          obtain ⟨g1, g2, g3, g4⟩ := getIter_inv hi2.i hs2
          have hfields : (getIter x2.b s).1.circ = x2.b.circ ∧
              (getIter x2.b s).1.masksStr = x2.b.masksStr ∧ (getIter x2.b s).1.maskN = x2.b.maskN := by
            unfold getIter; split <;> exact ⟨rfl, rfl, rfl⟩
          refine ⟨⟨g1, ?_, hi2.g⟩, s, g2, ?_, huniq⟩
          · intro n a' hm
            simp only at hm ⊢
            rw [hfields.1, hfields.2.1, hfields.2.2]
            exact hi2.f n a' hm
          · simp only
            rw [g3, hst, ← hb, zip_self_eq_diag, g4]

theorem stepS_inv {x x' : StS} {op : OpK} {out : Option Ans} (hi : InvS x)
    (h : stepS x op = .ok (x', out)) : InvS x' := by
  cases op with
  | setCircuit m =>
    simp only [stepS] at h
    split at h
    · rename_i hkeep
      cases h
      refine ⟨⟨⟨?_, hi.i.b, ?_, ?_⟩, ?_⟩, ?_, hi.g⟩
      · intro s hs; cases hs
      · intro hn; cases hn
      · intro m' n l hm' hmem
        simp only at hm' hmem
        rw [← hkeep.2] at hm'
        exact hi.i.e m' n l hm' hmem
      · intro s ms hs; cases hs
      · intro n a hmem
        simp only at hmem ⊢
        obtain ⟨m', hm', ha⟩ := hi.f n a hmem
        rw [hkeep.2] at hm'
        exact ⟨m', hm', ha⟩
    · cases h
      refine ⟨⟨⟨?_, ?_, ?_, ?_⟩, ?_⟩, ?_, ?_⟩
      · intro s hs; cases hs
      · intro _; rfl
      · intro hn; cases hn
      · intro m' n l _ hmem; cases hmem
      · intro s ms hs; cases hs
      · intro n a hmem; cases hmem
      · intro s hmem; cases hmem
  | setInput s =>
    simp only [stepS] at h
    split at h
    · rename_i x1 h1; cases h; exact (setInputS_inv hi h1).1
    · cases h
  | setMask masks n =>
    simp only [stepS] at h
    split at h
    · cases h
    · split at h
      · cases h
      · split at h
        · rename_i x2 h2
          cases h
          have hc := clearMaskS_inv (x := x) hi.i.toInv0
          refine (initMaskS_inv ?_ ?_ ?_ h2).1
          · refine ⟨hc.i.a, ?_, hc.i.d, ?_⟩
            · intro hn; cases hn
            · intro m' n' l _ hmem; cases hmem
          · intro n' a hmem; cases hmem
          · intro s hmem; cases hmem
        · cases h
  | clearMask =>
    simp only [stepS] at h
    cases h
    exact clearMaskS_inv hi.i.toInv0
  | bulk q => exact (bulkS_sound hi h).1

theorem invS_init : InvS ({} : StS) :=
  ⟨inv_init, (by intro n a h; cases h), (by intro s h; cases h)⟩

theorem reachableS_inv {x : StS} (h : ReachableS x) : InvS x := by
  induction h with
  | init => exact invS_init
  | step _ hs ih => exact stepS_inv ih hs

/-! ### SLAP -/

theorem matchStates_eq (m n : ℕ) (mask : Option MaskObj) :
    matchStates (m, n) mask = arrayStates m n mask := by
  unfold matchStates arrayStates
  cases mask with
  | none => rfl
  | some k =>
    simp only
    split
    · rename_i hlt
      have : ¬ n ≤ k.n := Nat.not_le.2 hlt
      simp [this]
    · rename_i hge
      have : n ≤ k.n := Nat.not_lt.1 hge
      simp [this, allStatesMasked]

structure InvP (x : StP) : Prop where
  i : Inv x.b
  f : ∀ s, x.b.input = some s → x.fock = some (s.length, s.sum)

theorem setInputP_inv {x x' : StP} {s : List ℕ} (hi : InvP x) (h : setInputP x s = .ok x') :
    InvP x' ∧ x'.b.input = some s := by
  unfold setInputP at h
  split at h
  · cases h
  · rename_i b' hb'
    cases h
    obtain ⟨g1, g2⟩ := setInput_inv hi.i hb'
    refine ⟨⟨g1, ?_⟩, g2⟩
    intro s' hs'
    simp only at hs'
    rw [g2] at hs'; cases hs'
    simp only
    split
    · rename_i he; exact he
    · rfl

theorem bulkP_sound {x x' : StP} {q : Q} {out : Option Ans} (hi : InvP x)
    (h : stepP x (.bulk q) = .ok (x', out)) :
    InvP x' ∧ ∃ s, x'.b.input = some s ∧ out = some (diag (spec x'.b s)) ∧
      (∀ s0, q = .allProb (some s0) → s = s0) := by
  simp only [stepP] at h
  split at h
  · cases h
  · rename_i x1 hpre
    have hi1 : InvP x1 ∧ ∀ s0, q = .allProb (some s0) → x1.b.input = some s0 := by
      split at hpre
      · obtain ⟨g1, g2⟩ := setInputP_inv hi hpre
        exact ⟨g1, by intro s1 hq; cases hq; exact g2⟩
      · rename_i hne
        cases hpre
        exact ⟨hi, by intro s0 hq; exact absurd hq (hne s0)⟩
    obtain ⟨hi1, hq0⟩ := hi1
    split at h
    · rename_i s f hs hf
      have hf' := hi1.f s hs
      rw [hf] at hf'; cases hf'
      have huniq : ∀ s0, q = .allProb (some s0) → s = s0 := by
        intro s0 hq
        have := hq0 s0 hq
        rw [hs] at this; cases this; rfl
      have hms : matchStates (s.length, s.sum) x1.b.mask = spec x1.b s := by
        rw [matchStates_eq, mask_eq_of_inv hi1.i hs]; rfl
      split at h
      · cases h
        obtain ⟨g1, g2, g3, g4⟩ := getIter_inv hi1.i hs
        refine ⟨⟨g1, ?_⟩, s, g2, ?_, huniq⟩
        · intro s' hs'
          simp only at hs' ⊢
          rw [g2] at hs'; cases hs'; exact hf
        · simp only
          rw [g3, hms, zip_self_eq_diag, g4]
      · cases h
        exact ⟨hi1, s, hs, by rw [hms], huniq⟩
    · cases h

theorem stepP_inv {x x' : StP} {op : OpK} {out : Option Ans} (hi : InvP x)
    (h : stepP x op = .ok (x', out)) : InvP x' := by
  have base : ∀ (op : OpK), (∀ s, op.toBase ≠ .setInput s) → (∀ s, op.toBase ≠ .bulk s) →
      ∀ r, step x.b op.toBase = .ok r → InvP { x with b := r.1 } := by
    intro op h1 h2 r hr
    have hinv : Inv r.1 := step_inv hi.i (out := r.2) (by simpa using hr)
    refine ⟨hinv, ?_⟩
    intro s hs
    simp only at hs ⊢
    -- the base operations other than set_input_state / bulk either keep the input or drop it
    cases hop : op.toBase with
    | setCircuit m => rw [hop] at hr; simp only [step] at hr; cases hr; cases hs
    | setInput s0 => exact absurd hop (h1 s0)
    | bulk s0 => exact absurd hop (h2 s0)
    | clearMask => rw [hop] at hr; simp only [step] at hr; cases hr; exact hi.f s hs
    | setMask ms n =>
      rw [hop] at hr
      simp only [step] at hr
      split at hr
      · cases hr
      · split at hr
        · cases hr
        · simp only [bind, Except.bind, pure, Except.pure] at hr
          split at hr
          · cases hr
          · rename_i st2 h2'
            cases hr
            obtain ⟨_, _, _, q4, _⟩ := initMask_fields h2'
            simp only at hs
            rw [q4] at hs
            exact hi.f s hs
  cases op with
  | setInput s =>
    simp only [stepP] at h
    split at h
    · rename_i x1 h1; cases h; exact (setInputP_inv hi h1).1
    · cases h
  | bulk q => exact (bulkP_sound hi h).1
  | setCircuit m =>
    simp only [stepP] at h
    split at h
    · rename_i r hr; cases h
      exact base (.setCircuit m) (by intro s hh; cases hh) (by intro s hh; cases hh) r hr
    · cases h
  | setMask ms n =>
    simp only [stepP] at h
    split at h
    · rename_i r hr; cases h
      exact base (.setMask ms n) (by intro s hh; cases hh) (by intro s hh; cases hh) r hr
    · cases h
  | clearMask =>
    simp only [stepP] at h
    split at h
    · rename_i r hr; cases h
      exact base .clearMask (by intro s hh; cases hh) (by intro s hh; cases hh) r hr
    · cases h

theorem invP_init : InvP ({} : StP) := ⟨inv_init, by intro s h; cases h⟩

theorem reachableP_inv {x : StP} (h : ReachableP x) : InvP x := by
  induction h with
  | init => exact invP_init
  | step _ hs ih => exact stepP_inv ih hs

end PM.C02.Sess
