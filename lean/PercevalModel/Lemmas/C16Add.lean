/-
  C16 (extension, round 5) — helper lemmas for `Model/C16Add.lean`.
-/
import PercevalModel.Model.C16Add
import PercevalModel.Lemmas.C16Mat
import Batteries.Data.List.Perm

namespace PM.C16
open Matrix PM.SM

/-! ### smallest / largest key -/

theorem foldl_min_le_acc (l : List Nat) (a : Nat) : l.foldl min a ≤ a := by
  induction l generalizing a with
  | nil => exact Nat.le_refl _
  | cons x t ih => exact Nat.le_trans (ih (min a x)) (Nat.min_le_left a x)

theorem foldl_min_le_mem (l : List Nat) (a x : Nat) (h : x ∈ l) : l.foldl min a ≤ x := by
  induction l generalizing a with
  | nil => cases h
  | cons y t ih =>
    simp only [List.mem_cons] at h
    rcases h with rfl | h
    · exact Nat.le_trans (foldl_min_le_acc t (min a x)) (Nat.min_le_right a x)
    · exact ih (min a y) h

theorem foldl_max_ge_acc (l : List Nat) (a : Nat) : a ≤ l.foldl max a := by
  induction l generalizing a with
  | nil => exact Nat.le_refl _
  | cons x t ih => exact Nat.le_trans (Nat.le_max_left a x) (ih (max a x))

theorem foldl_max_ge_mem (l : List Nat) (a x : Nat) (h : x ∈ l) : x ≤ l.foldl max a := by
  induction l generalizing a with
  | nil => cases h
  | cons y t ih =>
    simp only [List.mem_cons] at h
    rcases h with rfl | h
    · exact Nat.le_trans (Nat.le_max_right a x) (foldl_max_ge_acc t (max a x))
    · exact ih (max a y) h

theorem minL_le (l : List Nat) (x : Nat) (h : x ∈ l) : minL l ≤ x := foldl_min_le_mem l _ x h

theorem le_maxL (l : List Nat) (x : Nat) (h : x ∈ l) : x ≤ maxL l := foldl_max_ge_mem l 0 x h

/-- a key lies in the span -/
theorem key_in_span (nm : NMap) (k : Nat) (h : k ∈ nm.map (·.1)) :
    minL (nm.map (·.1)) ≤ k ∧ k < minL (nm.map (·.1)) + spanLen nm := by
  have h1 := minL_le _ k h
  have h2 := le_maxL _ k h
  unfold spanLen
  omega

theorem nget_of_mem (nm : NMap) (hk : (nm.map (·.1)).Nodup) (k v : Nat) (h : (k, v) ∈ nm) : nget nm k = some v := by
  induction nm with
  | nil => cases h
  | cons p t ih =>
    obtain ⟨a, b⟩ := p
    simp only [List.map_cons, List.nodup_cons] at hk
    simp only [List.mem_cons] at h
    rcases h with h | h
    · cases h; simp [nget]
    · have hne : a ≠ k := by
        rintro rfl
        exact hk.1 (List.mem_map.2 ⟨(a, v), h, rfl⟩)
      simp [nget, hne, ih hk.2 h]

/-! ### the permutation vector -/

theorem permVect_length (nm : NMap) : (permVect nm).length = spanLen nm := by simp [permVect]

theorem permVect_getD (nm : NMap) (i d : Nat) (h : i < spanLen nm) : (permVect nm).getD i d = spanVal nm i := by
  simp [permVect, List.getD_eq_getElem?_getD, h]

theorem permVect_lt (nm : NMap) (hσ : IsPermList (spanLen nm) (permVect nm)) (i : Nat) (h : i < spanLen nm) :
    spanVal nm i < spanLen nm := by
  apply hσ.2.2
  simp only [permVect, List.mem_map, List.mem_range]
  exact ⟨i, h, rfl⟩

section Mat
variable {R : Type} [CommRing R] [StarRing R]

/-- **the `PERM` the code inserts IS the routing the user's mapping means** -/
theorem perm_mat_eq_route (N : Nat) (nm : NMap) (hσ : IsPermList (spanLen nm) (permVect nm))
    (hfit : minL (nm.map (·.1)) + spanLen nm ≤ N) :
    embed N (minL (nm.map (·.1))) (permMatL (R := R) (permVect nm).length (permVect nm)) =
      permMatF (routeFn N nm) := by
  ext i j
  simp only [embed, place, unshift, permMatL, permMatF, permVect_length]
  by_cases hj : minL (nm.map (·.1)) ≤ j.val ∧ j.val < minL (nm.map (·.1)) + spanLen nm
  · have hjl : j.val - minL (nm.map (·.1)) < spanLen nm := by omega
    have hv := permVect_lt nm hσ _ hjl
    have hN : minL (nm.map (·.1)) + spanVal nm (j.val - minL (nm.map (·.1))) < N := by omega
    have hc : minL (nm.map (·.1)) ≤ j.val ∧ j.val < minL (nm.map (·.1)) + spanLen nm ∧
        minL (nm.map (·.1)) + spanVal nm (j.val - minL (nm.map (·.1))) < N := ⟨hj.1, hj.2, hN⟩
    have hr : routeFn N nm j = ⟨minL (nm.map (·.1)) + spanVal nm (j.val - minL (nm.map (·.1))), hN⟩ := by
      unfold routeFn; rw [dif_pos hc]
    simp only [hr]
    by_cases hi : minL (nm.map (·.1)) ≤ i.val ∧ i.val < minL (nm.map (·.1)) + spanLen nm
    · simp only [hi, hj, and_self, ↓reduceDIte, permVect_getD nm _ _ hjl]
      by_cases he : spanVal nm (j.val - minL (nm.map (·.1))) = i.val - minL (nm.map (·.1))
      · have : (⟨minL (nm.map (·.1)) + spanVal nm (j.val - minL (nm.map (·.1))), hN⟩ : Fin N) = i := by
          apply Fin.ext; simp only; omega
        rw [if_pos he, if_pos this]
      · have : (⟨minL (nm.map (·.1)) + spanVal nm (j.val - minL (nm.map (·.1))), hN⟩ : Fin N) ≠ i := by
          intro h'; apply he; have := congrArg Fin.val h'; simp only at this; omega
        rw [if_neg he, if_neg this]
    · have : (⟨minL (nm.map (·.1)) + spanVal nm (j.val - minL (nm.map (·.1))), hN⟩ : Fin N) ≠ i := by
        intro h'; apply hi; have := congrArg Fin.val h'; simp only at this; omega
      simp only [hi, hj, and_self, ↓reduceDIte, if_neg this]
  · have hc : ¬ (minL (nm.map (·.1)) ≤ j.val ∧ j.val < minL (nm.map (·.1)) + spanLen nm ∧
        minL (nm.map (·.1)) + spanVal nm (j.val - minL (nm.map (·.1))) < N) := fun h => hj ⟨h.1, h.2.1⟩
    have hr : routeFn N nm j = j := by
      unfold routeFn; rw [dif_neg hc]
    simp only [hr]
    by_cases hi : minL (nm.map (·.1)) ≤ i.val ∧ i.val < minL (nm.map (·.1)) + spanLen nm
    · have : j ≠ i := by rintro rfl; exact hj hi
      simp only [hi, hj, and_self, ↓reduceDIte, if_neg this]
    · simp only [hi, hj, ↓reduceDIte, eq_comm]

end Mat

/-! ### Python dictionaries with integer keys: keys stay distinct -/

def ikeys (m : IMap) : List Int := m.map (·.1)

theorem iset_keys (m : IMap) (k v : Int) :
    ikeys (iset m k v) = if k ∈ ikeys m then ikeys m else ikeys m ++ [k] := by
  induction m with
  | nil => simp [iset, ikeys]
  | cons p t ih =>
    obtain ⟨a, b⟩ := p
    by_cases h : a = k
    · subst h; simp [iset, ikeys]
    · have hne : ¬ k = a := fun h' => h h'.symm
      simp only [ikeys] at ih
      simp only [iset, h, ↓reduceIte, ikeys, List.map_cons, List.mem_cons, hne, false_or, ih]
      split <;> simp

theorem iset_keys_nodup (m : IMap) (k v : Int) (h : (ikeys m).Nodup) : (ikeys (iset m k v)).Nodup := by
  rw [iset_keys]
  split
  · exact h
  · rename_i hk
    exact List.nodup_append.2 ⟨h, by simp, by
      intro a ha b hb
      simp only [List.mem_cons, List.not_mem_nil, or_false] at hb
      subst hb; rintro rfl; exact hk ha⟩

theorem zipSet_keys_nodup (m : IMap) (ks vs : List Int) (h : (ikeys m).Nodup) : (ikeys (zipSet m ks vs)).Nodup := by
  induction ks generalizing m vs with
  | nil => simpa [zipSet] using h
  | cons k ks ih =>
    cases vs with
    | nil => simpa [zipSet] using h
    | cons v vs => simp only [zipSet]; exact ih _ _ (iset_keys_nodup m k v h)

theorem resolveDict_keys_nodup (names : List String) (items : List (MKey × MVal)) (acc m : IMap)
    (h : (ikeys acc).Nodup) (hr : resolveDict names items acc = .ok m) : (ikeys m).Nodup := by
  induction items generalizing acc with
  | nil => simp only [resolveDict, pure, Except.pure, Except.ok.injEq] at hr; subst hr; exact h
  | cons it t ih =>
    obtain ⟨key, v⟩ := it
    cases key with
    | mode k =>
      cases v with
      | mode x => simp only [resolveDict] at hr; exact ih _ (iset_keys_nodup acc k x h) hr
      | modes vs =>
        simp only [resolveDict] at hr
        split at hr
        · cases hr
        · exact ih _ (zipSet_keys_nodup acc _ _ h) hr
      | str => simp only [resolveDict] at hr; cases hr
    | port n =>
      simp only [resolveDict] at hr
      cases hp : resolvePortLeft names n with
      | none => simp only [hp] at hr; cases hr
      | some l =>
        simp only [hp] at hr
        cases v with
        | mode x =>
          simp only at hr
          split at hr
          · simp only at hr
            split at hr
            · cases hr
            · exact ih _ (zipSet_keys_nodup acc _ _ h) hr
          · cases hr
        | modes vs =>
          simp only at hr
          split at hr
          · cases hr
          · exact ih _ (zipSet_keys_nodup acc _ _ h) hr
        | str => simp only at hr; cases hr

theorem resolveRaw_keys_nodup (names : List String) (n : Nat) (mp : Mapping) (m : IMap)
    (hr : resolveRaw names n mp = .ok m) : (ikeys m).Nodup := by
  cases mp with
  | offset k =>
    simp only [resolveRaw, pure, Except.pure, Except.ok.injEq] at hr
    subst hr
    simp only [ikeys, List.map_map]
    refine (List.nodup_range (n := n)).map ?_
    intro a b hab
    simp only [Function.comp] at hab
    omega
  | list keys =>
    simp only [resolveRaw] at hr
    split at hr
    · cases hr
    · simp only [pure, Except.pure, Except.ok.injEq] at hr
      subst hr
      exact zipSet_keys_nodup [] _ _ (by simp [ikeys])
  | dict items =>
    simp only [resolveRaw] at hr
    split at hr
    · cases hr
    · exact resolveDict_keys_nodup names items [] m (by simp [ikeys]) hr

/-! ### what a resolved mapping is -/

/-- the facts `add(mapping, circuit)` has established when it does not raise -/
structure Resolved (aw : AWorld) (e : Exp) (c : UC) (nm : NMap) : Prop where
  len : nm.length = c.m
  keysNodup : (nm.map (·.1)).Nodup
  valsNodup : (nm.map (·.2)).Nodup
  inside : ∀ k ∈ nm.map (·.1), k < e.size
  noHerald : ∀ k ∈ nm.map (·.1), k ∉ heraldModes e
  composes : ∀ conds, aw.psc = some conds → canCompose conds (nm.map (·.1)) = true
  perm : IsPermList (spanLen nm) (permVect nm)

theorem connectible_iff (e : Exp) (k : Int) (h : connectible e k = true) :
    0 ≤ k ∧ k.toNat < e.size ∧ k.toNat ∉ heraldModes e := by
  simp only [connectible, Bool.and_eq_true, decide_eq_true_eq, Bool.not_eq_true', List.contains_eq_mem,
    decide_eq_false_iff_not] at h
  exact ⟨h.1.1, h.1.2, h.2⟩

theorem resolveAdd_resolved (aw : AWorld) (e : Exp) (mp : Mapping) (c : UC) (nm : NMap)
    (h : resolveAdd aw e mp c = .ok nm) : Resolved aw e c nm := by
  unfold resolveAdd at h
  cases hr : resolveRaw (portNames e.size aw.ports) c.m mp with
  | error err => simp only [hr] at h; cases h
  | ok m =>
    simp only [hr] at h
    cases hc : checkConsistency e c.m m with
    | some err => simp only [hc] at h; cases h
    | none =>
      simp only [hc] at h
      -- the consistency check
      unfold checkConsistency at hc
      split at hc
      · cases hc
      · rename_i hlen
        split at hc
        · cases hc
        · rename_i hconn
          split at hc
          · cases hc
          · rename_i hvals
            have hlen' : m.length = c.m := by simpa using hlen
            have hconn' : ∀ kv ∈ m, connectible e kv.1 = true := by
              intro kv hkv
              cases hcv : connectible e kv.1 with
              | true => rfl
              | false =>
                exfalso; apply hconn
                simp only [List.any_eq_true]
                exact ⟨kv, hkv, by simp [hcv]⟩
            have hvals' : (m.map (·.2)).Nodup := by simpa using hvals
            split at h
            · cases h
            · rename_i hps
              split at h
              · cases h
              · rename_i hneg
                split at h
                · cases h
                · rename_i hperm
                  simp only [pure, Except.pure, Except.ok.injEq] at h
                  subst h
                  have hnn : ∀ kv ∈ m, (0 : Int) ≤ kv.2 := by
                    intro kv hkv
                    by_contra hlt
                    apply hneg
                    simp only [List.any_eq_true, decide_eq_true_eq]
                    exact ⟨kv, hkv, by omega⟩
                  have hkeys := resolveRaw_keys_nodup _ _ _ _ hr
                  refine ⟨by simpa using hlen', ?_, ?_, ?_, ?_, ?_, by simpa using hperm⟩
                  · simp only [List.map_map]
                    refine List.Nodup.map_on ?_ hkeys
                    intro a ha b hb hab
                    simp only [ikeys, List.mem_map] at ha hb
                    obtain ⟨kva, hkva, rfl⟩ := ha
                    obtain ⟨kvb, hkvb, rfl⟩ := hb
                    have h1 := (connectible_iff e _ (hconn' kva hkva)).1
                    have h2 := (connectible_iff e _ (hconn' kvb hkvb)).1
                    simp only [Function.comp] at hab
                    omega
                  · simp only [List.map_map]
                    refine List.Nodup.map_on ?_ hvals'
                    intro a ha b hb hab
                    simp only [List.mem_map] at ha hb
                    obtain ⟨kva, hkva, rfl⟩ := ha
                    obtain ⟨kvb, hkvb, rfl⟩ := hb
                    have h1 := hnn kva hkva
                    have h2 := hnn kvb hkvb
                    simp only [Function.comp] at hab
                    omega
                  · intro k hk
                    simp only [List.map_map, List.mem_map, Function.comp] at hk
                    obtain ⟨kv, hkv, rfl⟩ := hk
                    exact (connectible_iff e _ (hconn' kv hkv)).2.1
                  · intro k hk
                    simp only [List.map_map, List.mem_map, Function.comp] at hk
                    obtain ⟨kv, hkv, rfl⟩ := hk
                    exact (connectible_iff e _ (hconn' kv hkv)).2.2
                  · intro conds hcd
                    cases hcc : canCompose conds (List.map (fun x => x.1) (List.map (fun kv => (kv.1.toNat, kv.2.toNat)) m)) with
                    | true => rfl
                    | false => exfalso; apply hps; simp [hcd, hcc]

end PM.C16
