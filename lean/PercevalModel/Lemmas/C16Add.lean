/-
  C16 (extension, round 5) — helper lemmas for `Model/C16Add.lean`.
-/
import PercevalModel.Model.C16Add
import PercevalModel.Lemmas.C16Mat
import Batteries.Data.List.Perm

namespace PM.C16
open Matrix PM.SM

/-! ### smallest / largest key -/

theorem foldl_min_le_acc (l : List Nat) (a : Nat) : l.foldl min a ≤ a := by
  induction l generalizing a with
  | nil => exact Nat.le_refl _
  | cons x t ih => exact Nat.le_trans (ih (min a x)) (Nat.min_le_left a x)

theorem foldl_min_le_mem (l : List Nat) (a x : Nat) (h : x ∈ l) : l.foldl min a ≤ x := by
  induction l generalizing a with
  | nil => cases h
  | cons y t ih =>
    simp only [List.mem_cons] at h
    rcases h with rfl | h
    · exact Nat.le_trans (foldl_min_le_acc t (min a x)) (Nat.min_le_right a x)
    · exact ih (min a y) h

theorem foldl_max_ge_acc (l : List Nat) (a : Nat) : a ≤ l.foldl max a := by
  induction l generalizing a with
  | nil => exact Nat.le_refl _
  | cons x t ih => exact Nat.le_trans (Nat.le_max_left a x) (ih (max a x))

theorem foldl_max_ge_mem (l : List Nat) (a x : Nat) (h : x ∈ l) : x ≤ l.foldl max a := by
  induction l generalizing a with
  | nil => cases h
  | cons y t ih =>
    simp only [List.mem_cons] at h
    rcases h with rfl | h
    · exact Nat.le_trans (Nat.le_max_right a x) (foldl_max_ge_acc t (max a x))
    · exact ih (max a y) h

theorem minL_le (l : List Nat) (x : Nat) (h : x ∈ l) : minL l ≤ x := foldl_min_le_mem l _ x h

theorem le_maxL (l : List Nat) (x : Nat) (h : x ∈ l) : x ≤ maxL l := foldl_max_ge_mem l 0 x h

/-- a key lies in the span -/
theorem key_in_span (nm : NMap) (k : Nat) (h : k ∈ nm.map (·.1)) :
    minL (nm.map (·.1)) ≤ k ∧ k < minL (nm.map (·.1)) + spanLen nm := by
  have h1 := minL_le _ k h
  have h2 := le_maxL _ k h
  unfold spanLen
  omega

theorem nget_of_mem (nm : NMap) (hk : (nm.map (·.1)).Nodup) (k v : Nat) (h : (k, v) ∈ nm) : nget nm k = some v := by
  induction nm with
  | nil => cases h
  | cons p t ih =>
    obtain ⟨a, b⟩ := p
    simp only [List.map_cons, List.nodup_cons] at hk
    simp only [List.mem_cons] at h
    rcases h with h | h
    · cases h; simp [nget]
    · have hne : a ≠ k := by
        rintro rfl
        exact hk.1 (List.mem_map.2 ⟨(a, v), h, rfl⟩)
      simp [nget, hne, ih hk.2 h]

/-! ### the permutation vector -/

theorem permVect_length (nm : NMap) : (permVect nm).length = spanLen nm := by simp [permVect]

theorem permVect_getD (nm : NMap) (i d : Nat) (h : i < spanLen nm) : (permVect nm).getD i d = spanVal nm i := by
  simp [permVect, List.getD_eq_getElem?_getD, h]

theorem permVect_lt (nm : NMap) (hσ : IsPermList (spanLen nm) (permVect nm)) (i : Nat) (h : i < spanLen nm) :
    spanVal nm i < spanLen nm := by
  apply hσ.2.2
  simp only [permVect, List.mem_map, List.mem_range]
  exact ⟨i, h, rfl⟩

section Mat
variable {R : Type} [CommRing R] [StarRing R]

/-- **the `PERM` the code inserts IS the routing the user's mapping means** -/
theorem perm_mat_eq_route (N : Nat) (nm : NMap) (hσ : IsPermList (spanLen nm) (permVect nm))
    (hfit : minL (nm.map (·.1)) + spanLen nm ≤ N) :
    embed N (minL (nm.map (·.1))) (permMatL (R := R) (permVect nm).length (permVect nm)) =
      permMatF (routeFn N nm) := by
  ext i j
  simp only [embed, place, unshift, permMatL, permMatF, permVect_length]
  by_cases hj : minL (nm.map (·.1)) ≤ j.val ∧ j.val < minL (nm.map (·.1)) + spanLen nm
  · have hjl : j.val - minL (nm.map (·.1)) < spanLen nm := by omega
    have hv := permVect_lt nm hσ _ hjl
    have hN : minL (nm.map (·.1)) + spanVal nm (j.val - minL (nm.map (·.1))) < N := by omega
    have hc : minL (nm.map (·.1)) ≤ j.val ∧ j.val < minL (nm.map (·.1)) + spanLen nm ∧
        minL (nm.map (·.1)) + spanVal nm (j.val - minL (nm.map (·.1))) < N := ⟨hj.1, hj.2, hN⟩
    have hr : routeFn N nm j = ⟨minL (nm.map (·.1)) + spanVal nm (j.val - minL (nm.map (·.1))), hN⟩ := by
      unfold routeFn; rw [dif_pos hc]
    simp only [hr]
    by_cases hi : minL (nm.map (·.1)) ≤ i.val ∧ i.val < minL (nm.map (·.1)) + spanLen nm
    · simp only [hi, hj, and_self, ↓reduceDIte, permVect_getD nm _ _ hjl]
      by_cases he : spanVal nm (j.val - minL (nm.map (·.1))) = i.val - minL (nm.map (·.1))
      · have : (⟨minL (nm.map (·.1)) + spanVal nm (j.val - minL (nm.map (·.1))), hN⟩ : Fin N) = i := by
          apply Fin.ext; simp only; omega
        rw [if_pos he, if_pos this]
      · have : (⟨minL (nm.map (·.1)) + spanVal nm (j.val - minL (nm.map (·.1))), hN⟩ : Fin N) ≠ i := by
          intro h'; apply he; have := congrArg Fin.val h'; simp only at this; omega
        rw [if_neg he, if_neg this]
    · have : (⟨minL (nm.map (·.1)) + spanVal nm (j.val - minL (nm.map (·.1))), hN⟩ : Fin N) ≠ i := by
        intro h'; apply hi; have := congrArg Fin.val h'; simp only at this; omega
      simp only [hi, hj, and_self, ↓reduceDIte, if_neg this]
  · have hc : ¬ (minL (nm.map (·.1)) ≤ j.val ∧ j.val < minL (nm.map (·.1)) + spanLen nm ∧
        minL (nm.map (·.1)) + spanVal nm (j.val - minL (nm.map (·.1))) < N) := fun h => hj ⟨h.1, h.2.1⟩
    have hr : routeFn N nm j = j := by
      unfold routeFn; rw [dif_neg hc]
    simp only [hr]
    by_cases hi : minL (nm.map (·.1)) ≤ i.val ∧ i.val < minL (nm.map (·.1)) + spanLen nm
    · have : j ≠ i := by rintro rfl; exact hj hi
      simp only [hi, hj, and_self, ↓reduceDIte, if_neg this]
    · simp only [hi, hj, ↓reduceDIte, eq_comm]

end Mat

/-! ### Python dictionaries with integer keys: keys stay distinct -/

def ikeys (m : IMap) : List Int := m.map (·.1)

theorem iset_keys (m : IMap) (k v : Int) :
    ikeys (iset m k v) = if k ∈ ikeys m then ikeys m else ikeys m ++ [k] := by
  induction m with
  | nil => simp [iset, ikeys]
  | cons p t ih =>
    obtain ⟨a, b⟩ := p
    by_cases h : a = k
    · subst h; simp [iset, ikeys]
    · have hne : ¬ k = a := fun h' => h h'.symm
      simp only [ikeys] at ih
      simp only [iset, h, ↓reduceIte, ikeys, List.map_cons, List.mem_cons, hne, false_or, ih]
      by_cases hk : k ∈ List.map (fun x => x.1) t <;> simp [hk]

theorem iset_keys_nodup (m : IMap) (k v : Int) (h : (ikeys m).Nodup) : (ikeys (iset m k v)).Nodup := by
  rw [iset_keys]
  split
  · exact h
  · rename_i hk
    exact List.nodup_append.2 ⟨h, by simp, by
      intro a ha b hb
      simp only [List.mem_cons, List.not_mem_nil, or_false] at hb
      subst hb; rintro rfl; exact hk ha⟩

theorem zipSet_keys_nodup (m : IMap) (ks vs : List Int) (h : (ikeys m).Nodup) : (ikeys (zipSet m ks vs)).Nodup := by
  induction ks generalizing m vs with
  | nil => simpa [zipSet] using h
  | cons k ks ih =>
    cases vs with
    | nil => simpa [zipSet] using h
    | cons v vs => simp only [zipSet]; exact ih _ _ (iset_keys_nodup m k v h)

theorem resolveDict_keys_nodup (names : List String) (items : List (MKey × MVal)) (acc m : IMap)
    (h : (ikeys acc).Nodup) (hr : resolveDict names items acc = .ok m) : (ikeys m).Nodup := by
  induction items generalizing acc with
  | nil => simp only [resolveDict, Except.ok.injEq] at hr; subst hr; exact h
  | cons it t ih =>
    obtain ⟨key, v⟩ := it
    simp only [resolveDict] at hr
    cases hl : leftModes names key with
    | none => simp [hl] at hr
    | some l =>
      simp only [hl] at hr
      cases hrm : rightModes l.length v with
      | none => simp [hrm] at hr
      | some r =>
        simp only [hrm] at hr
        by_cases hlen : l.length = r.length
        · rw [if_pos hlen] at hr
          exact ih _ (zipSet_keys_nodup acc l r h) hr
        · rw [if_neg hlen] at hr; cases hr

theorem resolveRaw_keys_nodup (names : List String) (n : Nat) (mp : Mapping) (m : IMap)
    (hr : resolveRaw names n mp = .ok m) : (ikeys m).Nodup := by
  cases mp with
  | offset k =>
    simp only [resolveRaw, Except.ok.injEq] at hr
    subst hr
    show (List.map (·.1) (List.map (fun i : Nat => (k + (i : Int), (i : Int))) (List.range n))).Nodup
    rw [List.map_map]
    exact List.Nodup.map (fun a b hab => by simp only [Function.comp] at hab; omega) List.nodup_range
  | list keys =>
    simp only [resolveRaw] at hr
    by_cases hl : keys.length = n
    · rw [if_pos hl] at hr
      simp only [Except.ok.injEq] at hr
      subst hr
      exact zipSet_keys_nodup [] _ _ (by simp [ikeys])
    · rw [if_neg hl] at hr; cases hr
  | dict items =>
    simp only [resolveRaw] at hr
    by_cases hs : (items.any fun kv => kv.2 == MVal.str) = true
    · rw [if_pos hs] at hr; cases hr
    · rw [if_neg hs] at hr
      exact resolveDict_keys_nodup names items [] m (by simp [ikeys]) hr

/-! ### what a resolved mapping is -/

/-- the facts `add(mapping, circuit)` has established when it does not raise -/
structure Resolved (aw : AWorld) (e : Exp) (c : UC) (nm : NMap) : Prop where
  len : nm.length = c.m
  keysNodup : (nm.map (·.1)).Nodup
  valsNodup : (nm.map (·.2)).Nodup
  inside : ∀ k ∈ nm.map (·.1), k < e.size
  noHerald : ∀ k ∈ nm.map (·.1), k ∉ heraldModes e
  composes : ∀ conds, aw.psc = some conds → canCompose conds (nm.map (·.1)) = true
  perm : IsPermList (spanLen nm) (permVect nm)

theorem connectible_iff (e : Exp) (k : Int) (h : connectible e k = true) :
    0 ≤ k ∧ k.toNat < e.size ∧ k.toNat ∉ heraldModes e := by
  simp only [connectible, Bool.and_eq_true, decide_eq_true_eq, Bool.not_eq_true', List.contains_eq_mem,
    decide_eq_false_iff_not] at h
  exact ⟨h.1.1, h.1.2, h.2⟩

theorem checkConsistency_none (e : Exp) (n : Nat) (m : IMap) (h : checkConsistency e n m = none) :
    m.length = n ∧ (∀ kv ∈ m, connectible e kv.1 = true) ∧ (m.map (·.2)).Nodup := by
  unfold checkConsistency at h
  by_cases h1 : m.length = n
  · rw [if_pos h1] at h
    by_cases h2 : (m.all fun kv => connectible e kv.1) = true
    · rw [if_pos h2] at h
      by_cases h3 : (m.map (·.2)).Nodup
      · exact ⟨h1, by simpa [List.all_eq_true] using h2, h3⟩
      · rw [if_neg h3] at h; cases h
    · rw [if_neg h2] at h; cases h
  · rw [if_neg h1] at h; cases h

theorem resolveAdd_ok (aw : AWorld) (e : Exp) (mp : Mapping) (c : UC) (nm : NMap)
    (h : resolveAdd aw e mp c = .ok nm) :
    ∃ m, resolveRaw (portNames e.size aw.ports) c.m mp = .ok m ∧ checkConsistency e c.m m = none ∧
      psBlocks aw ((toNMap m).map (·.1)) = false ∧ (m.any fun kv => decide (kv.2 < 0)) = false ∧
      IsPermList (spanLen (toNMap m)) (permVect (toNMap m)) ∧ nm = toNMap m := by
  unfold resolveAdd at h
  cases hr : resolveRaw (portNames e.size aw.ports) c.m mp with
  | error err => simp [hr] at h
  | ok m =>
    simp only [hr] at h
    cases hc : checkConsistency e c.m m with
    | some err => simp [hc] at h
    | none =>
      simp only [hc] at h
      by_cases h1 : psBlocks aw ((toNMap m).map (·.1)) = true
      · rw [if_pos h1] at h; cases h
      · rw [if_neg h1] at h
        by_cases h2 : (m.any fun kv => decide (kv.2 < 0)) = true
        · rw [if_pos h2] at h; cases h
        · rw [if_neg h2] at h
          by_cases h3 : IsPermList (spanLen (toNMap m)) (permVect (toNMap m))
          · rw [if_pos h3] at h
            simp only [Except.ok.injEq] at h
            exact ⟨m, rfl, hc, by simpa using h1, by simpa using h2, h3, h.symm⟩
          · rw [if_neg h3] at h; cases h

theorem resolveAdd_resolved (aw : AWorld) (e : Exp) (mp : Mapping) (c : UC) (nm : NMap)
    (h : resolveAdd aw e mp c = .ok nm) : Resolved aw e c nm := by
  obtain ⟨m, hr, hc, hps, hneg, hperm, rfl⟩ := resolveAdd_ok aw e mp c nm h
  obtain ⟨hlen, hconn, hvals⟩ := checkConsistency_none e c.m m hc
  have hnn : ∀ kv ∈ m, (0 : Int) ≤ kv.2 := by
    intro kv hkv
    by_contra hlt
    have : (m.any fun kv => decide (kv.2 < 0)) = true := by
      simp only [List.any_eq_true, decide_eq_true_eq]
      exact ⟨kv, hkv, by omega⟩
    rw [hneg] at this; cases this
  have hkeys := resolveRaw_keys_nodup _ _ _ _ hr
  refine ⟨by simpa [toNMap] using hlen, ?_, ?_, ?_, ?_, ?_, hperm⟩
  · have : (toNMap m).map (·.1) = (ikeys m).map Int.toNat := by simp [toNMap, ikeys, List.map_map]
    rw [this]
    refine List.Nodup.map_on ?_ hkeys
    intro a ha b hb hab
    simp only [ikeys, List.mem_map] at ha hb
    obtain ⟨kva, hkva, rfl⟩ := ha
    obtain ⟨kvb, hkvb, rfl⟩ := hb
    have h1 := (connectible_iff e _ (hconn kva hkva)).1
    have h2 := (connectible_iff e _ (hconn kvb hkvb)).1
    omega
  · have : (toNMap m).map (·.2) = (m.map (·.2)).map Int.toNat := by simp [toNMap, List.map_map]
    rw [this]
    refine List.Nodup.map_on ?_ hvals
    intro a ha b hb hab
    simp only [List.mem_map] at ha hb
    obtain ⟨kva, hkva, rfl⟩ := ha
    obtain ⟨kvb, hkvb, rfl⟩ := hb
    have h1 := hnn kva hkva
    have h2 := hnn kvb hkvb
    omega
  · intro k hk
    simp only [toNMap, List.map_map, List.mem_map, Function.comp] at hk
    obtain ⟨kv, hkv, rfl⟩ := hk
    exact (connectible_iff e _ (hconn kv hkv)).2.1
  · intro k hk
    simp only [toNMap, List.map_map, List.mem_map, Function.comp] at hk
    obtain ⟨kv, hkv, rfl⟩ := hk
    exact (connectible_iff e _ (hconn kv hkv)).2.2
  · intro conds hcd
    simp only [psBlocks, hcd, Bool.not_eq_false'] at hps
    exact hps

/-! ### the span of a resolved mapping fits the processor -/

theorem foldl_max_lt (l : List Nat) (a N : Nat) (ha : a < N) (h : ∀ x ∈ l, x < N) : l.foldl max a < N := by
  induction l generalizing a with
  | nil => exact ha
  | cons x t ih =>
    have hx : x < N := h x (by simp)
    exact ih (max a x) (by omega) (fun y hy => h y (List.mem_cons_of_mem _ hy))

theorem span_fits (aw : AWorld) (e : Exp) (c : UC) (nm : NMap) (hr : Resolved aw e c nm) (hm : c.m ≠ 0) :
    minL (nm.map (·.1)) + spanLen nm ≤ e.size ∧ minL (nm.map (·.1)) + c.m ≤ e.size := by
  have hne : nm ≠ [] := by
    intro h; have := hr.len; rw [h] at this; simp at this; exact hm this.symm
  obtain ⟨p, hp⟩ := List.exists_mem_of_ne_nil nm hne
  have hk : p.1 ∈ nm.map (·.1) := List.mem_map.2 ⟨p, hp, rfl⟩
  have h1 := minL_le _ _ hk
  have h2 := le_maxL _ _ hk
  have hN : 0 < e.size := Nat.lt_of_le_of_lt (Nat.zero_le _) (hr.inside _ hk)
  have h3 : maxL (nm.map (·.1)) < e.size := foldl_max_lt _ 0 _ hN hr.inside
  have hfit : minL (nm.map (·.1)) + spanLen nm ≤ e.size := by unfold spanLen; omega
  refine ⟨hfit, ?_⟩
  -- pigeonhole: `c.m` distinct keys inside a span of `spanLen` modes
  have hsub : (nm.map (·.1)).map (· - minL (nm.map (·.1))) ⊆ List.range (spanLen nm) := by
    intro x hx
    simp only [List.mem_map] at hx
    obtain ⟨k, hk', rfl⟩ := hx
    have := key_in_span nm k (by simpa using hk')
    simp only [List.mem_range]; omega
  have hnd : ((nm.map (·.1)).map (· - minL (nm.map (·.1)))).Nodup := by
    refine List.Nodup.map_on ?_ hr.keysNodup
    intro a ha b hb hab
    have := minL_le _ a ha
    have := minL_le _ b hb
    omega
  have hle := (List.subperm_of_subset hnd hsub).length_le
  simp only [List.length_map, List.length_range] at hle
  have := hr.len
  omega

section Inv
variable {R : Type} [CommRing R] [StarRing R]

/-! ### segments -/

def segsFold (ρ : Env R) (N : Nat) (A : Matrix (Fin N) (Fin N) R) (segs : List Seg) : Matrix (Fin N) (Fin N) R :=
  segs.foldl (fun acc s => s.mat ρ N * acc) A

theorem segsFold_mul (ρ : Env R) (N : Nat) (A : Matrix (Fin N) (Fin N) R) (segs : List Seg) :
    segsFold ρ N A segs = segsFold ρ N 1 segs * A := by
  induction segs generalizing A with
  | nil => simp [segsFold]
  | cons s t ih =>
    simp only [segsFold, List.foldl_cons] at ih ⊢
    rw [ih (s.mat ρ N * A), ih (s.mat ρ N * 1), Matrix.mul_one, Matrix.mul_assoc]

theorem segsMat_nil (ρ : Env R) (N : Nat) : segsMat ρ N [] = 1 := rfl

theorem segsMat_append (ρ : Env R) (N : Nat) (a b : List Seg) :
    segsMat ρ N (a ++ b) = segsMat ρ N b * segsMat ρ N a := by
  show segsFold ρ N 1 (a ++ b) = segsFold ρ N 1 b * segsFold ρ N 1 a
  simp only [segsFold, List.foldl_append]
  exact segsFold_mul ρ N _ b

theorem segsMat_single (ρ : Env R) (N : Nat) (s : Seg) : segsMat ρ N [s] = s.mat ρ N := by
  simp [segsMat]

/-! ### the invariant -/

/-- the components denote the matrix the user means; a processor of 0 modes has no component and an empty reading -/
def AInv (ρ : Env R) (st : AWorld × ASpec) : Prop :=
  (∀ N, st.1.cw.w.size = some N → circMat ρ N st.1.cw.comps = st.2.mat ρ N) ∧
  (st.1.cw.w.size = some 0 → st.1.cw.comps = [] ∧ st.2 = ⟨⟨none, []⟩, []⟩)

theorem ainv_same (ρ : Env R) (st st' : AWorld × ASpec) (h : AInv ρ st)
    (hs : st'.1.cw.w.size = st.1.cw.w.size) (hc : st'.1.cw.comps = st.1.cw.comps) (hp : st'.2 = st.2) :
    AInv ρ st' := by
  refine ⟨fun N hN => ?_, fun h0 => ?_⟩
  · rw [hc, hp]; exact h.1 N (hs ▸ hN)
  · rw [hc, hp]; exact h.2 (hs ▸ h0)

theorem aspec_trivial_mat (ρ : Env R) (N : Nat) : (ASpec.mk ⟨none, []⟩ []).mat ρ N = 1 := by
  simp [ASpec.mat, segsMat, Spec.mat, flatMat]

/-! ### what `cstep` does to components and size -/

theorem cstep_plain_frame (cw : CWorld) (op : Op) :
    (cstep cw (.plain op)).1.comps = cw.comps ∧ (cstep cw (.plain op)).1.w.size = cw.w.size := by
  simp only [cstep]
  by_cases hs : op.structural = true
  · rw [if_pos hs]; exact ⟨rfl, rfl⟩
  · rw [if_neg hs]
    have hcp : op.createsProcessor = false := by
      cases op <;> simp_all [Op.structural, Op.createsProcessor]
    exact ⟨rfl, step_size_frame cw.w op hcp⟩

/-- for ANY component list there is a reading `cstep_matInv` accepts -/
theorem matInv_exists (ρ : Env R) (cw : CWorld) : ∃ sp : Spec, MatInv ρ (cw, sp) := by
  cases hsz : cw.w.size with
  | none => exact ⟨⟨none, []⟩, fun N hN => by simp [hsz] at hN⟩
  | some N₀ =>
    refine ⟨⟨some (List.range N₀, cw.comps), []⟩, fun N hN => ?_⟩
    simp only [hsz, Option.some.injEq] at hN
    subst hN
    have hperm : IsPermList N₀ (List.range N₀) :=
      ⟨List.length_range, List.nodup_range, fun x hx => List.mem_range.1 hx⟩
    have hid : permFn N₀ (List.range N₀) = id :=
      permFn_identity N₀ (List.range N₀) hperm (by simp [isIdentity])
    simp [Spec.mat, flatMat, hid]

def COp.resets : COp → Bool
  | .newRemote _ _ _ => true
  | .convert _ _ => true
  | .setCircuit _ _ => true
  | _ => false

/-- a constructor / `set_circuit` that succeeds: the new components denote what the call says, whatever was there -/
theorem cstep_reset_done (ρ : Env R) (cw : CWorld) (op : COp) (hop : op.resets = true)
    (hd : (cstep cw op).2 = .done) :
    ∀ N, (cstep cw op).1.w.size = some N →
      circMat ρ N (cstep cw op).1.comps = (specAfter ⟨none, []⟩ op).mat ρ N := by
  obtain ⟨sp, hsp⟩ := matInv_exists ρ cw
  have h := cstep_matInv ρ cw sp op hsp _ rfl
  rw [if_pos hd] at h
  have hs : specAfter sp op = specAfter ⟨none, []⟩ op := by
    cases op <;> first | rfl | (simp [COp.resets] at hop)
  rw [hs] at h
  exact h

theorem cstep_not_done (cw : CWorld) (op : COp) (hd : (cstep cw op).2 ≠ .done) :
    (cstep cw op).1.comps = cw.comps ∧ (cstep cw op).1.w.size = cw.w.size := by
  cases op with
  | plain o => exact cstep_plain_frame cw o
  | newRemote via c noise =>
    simp only [cstep] at hd ⊢
    by_cases hwf : c.WF
    · rw [if_neg (not_not.2 hwf)] at hd ⊢
      rcases step_newRemote_cases cw.w via c.m c.sym c.cparams noise with ⟨err, he⟩ | ⟨e, -, he⟩
      · rw [he]; exact ⟨rfl, rfl⟩
      · rw [he] at hd; exact absurd rfl hd
    · rw [if_pos hwf]; exact ⟨rfl, rfl⟩
  | convert p pc =>
    simp only [cstep] at hd ⊢
    by_cases hσ : IsPermList p.size (relabelOf p)
    · rw [if_neg (not_not.2 hσ)] at hd ⊢
      rcases step_convert_cases cw.w true p with ⟨err, he⟩ | ⟨e, -, he⟩
      · rw [he]; exact ⟨rfl, rfl⟩
      · rw [he] at hd; exact absurd rfl hd
    · rw [if_pos hσ]; exact ⟨rfl, rfl⟩
  | add k c =>
    simp only [cstep] at hd ⊢
    cases hexp : cw.w.exp with
    | none => exact ⟨rfl, rfl⟩
    | some e =>
      rw [hexp] at hd
      simp only at hd ⊢
      by_cases hg : ¬ c.WF ∨ addOk e k c = false
      · rw [if_pos hg]; exact ⟨rfl, rfl⟩
      · rw [if_neg hg] at hd ⊢
        have hsize := step_size_frame cw.w (.addComponent c.sym c.cparams) rfl
        generalize step cw.w (.addComponent c.sym c.cparams) = sr at hsize hd ⊢
        obtain ⟨w', o⟩ := sr
        cases o <;> first | exact absurd rfl hd | exact ⟨rfl, hsize⟩
  | setCircuit checked c =>
    simp only [cstep] at hd ⊢
    by_cases hwf : c.WF
    · rw [if_neg (not_not.2 hwf)] at hd ⊢
      have hsize := step_size_frame cw.w (.setCircuit checked c.m c.sym c.cparams) rfl
      generalize step cw.w (.setCircuit checked c.m c.sym c.cparams) = sr at hsize hd ⊢
      obtain ⟨w', o⟩ := sr
      cases o <;> first | exact absurd rfl hd | exact ⟨rfl, hsize⟩
    · rw [if_pos hwf]; exact ⟨rfl, rfl⟩

/-! ### the mapped `add` -/

theorem perm_comp_mat (ρ : Env R) (N pos : Nat) (σ : List Nat) :
    (Comp.perm pos σ).mat ρ N = embed N pos (permMatL (R := R) σ.length σ) := by
  simp only [Comp.mat, Comp.matV, MatV.toMatrix_ofMatrix]

/-- what the components of a mapped `add` denote: the routing the user's mapping means, then the component's
elementary components at their absolute positions -/
theorem mappedComps_mat (ρ : Env R) (aw : AWorld) (e : Exp) (c : UC) (nm : NMap) (hr : Resolved aw e c nm)
    (hm : c.m ≠ 0) (hwf : c.WF) :
    circMat ρ e.size (mappedComps nm c) =
      segsMat ρ e.size ((if isIdentity (permVect nm) then [] else [Seg.route nm]) ++
        [Seg.leaves (shiftLeaves (minL (nm.map (·.1))) c.leaves)]) := by
  obtain ⟨hfit, hcfit⟩ := span_fits aw e c nm hr hm
  unfold mappedComps
  simp only
  by_cases hid : isIdentity (permVect nm) = true
  · simp only [hid, if_true, List.nil_append]
    rw [circMat_single, segsMat_single, sub_mat ρ e.size _ c hcfit hwf]
    rfl
  · simp only [hid, if_false, Bool.false_eq_true]
    rw [List.singleton_append, circMat_cons, circMat_single, segsMat_append, segsMat_single, segsMat_single,
      sub_mat ρ e.size _ c hcfit hwf, perm_comp_mat, perm_mat_eq_route e.size nm hr.perm hfit]
    rfl

/-! ### one step keeps the invariant -/

theorem freshOn_cw (aw : AWorld) (r : AWorld × Out) (known : Bool) (psc : Option (List (List Nat))) :
    (freshOn aw r known psc).1.cw = r.1.cw ∧ (freshOn aw r known psc).2 = r.2 := by
  unfold freshOn
  split <;> exact ⟨rfl, rfl⟩

theorem pass_cw (aw : AWorld) (op : COp) : (pass aw op).1.cw = (cstep aw.cw op).1 ∧ (pass aw op).2 = (cstep aw.cw op).2 :=
  ⟨rfl, rfl⟩

theorem specAfter_resets (sp : Spec) (op : COp) (h : op.resets = true) : specAfter sp op = specAfter ⟨none, []⟩ op := by
  cases op <;> first | rfl | (simp [COp.resets] at h)

/-- a call that goes to `cstep` as a constructor / `set_circuit`, with the new size known not to be 0 when it
succeeds -/
theorem ainv_reset (ρ : Env R) (aw : AWorld) (asp : ASpec) (op : COp) (hop : op.resets = true)
    (h : AInv ρ (aw, asp)) (aw' : AWorld) (o : Out) (hcw : aw'.cw = (cstep aw.cw op).1) (ho : o = (cstep aw.cw op).2)
    (hpos : o = .done → aw'.cw.w.size ≠ some 0) :
    AInv ρ (aw', if o = .done then ⟨specAfter asp.sp op, []⟩ else asp) := by
  by_cases hd : o = .done
  · rw [if_pos hd]
    refine ⟨fun N hN => ?_, fun h0 => absurd h0 (hpos hd)⟩
    rw [hcw] at hN ⊢
    simp only [ASpec.mat, segsMat_nil, Matrix.one_mul]
    rw [specAfter_resets asp.sp op hop]
    exact cstep_reset_done ρ aw.cw op hop (ho ▸ hd) N hN
  · rw [if_neg hd]
    have := cstep_not_done aw.cw op (ho ▸ hd)
    exact ainv_same ρ _ _ h (by rw [hcw]; exact this.2) (by rw [hcw]; exact this.1) rfl

theorem newRemote_done_size (w : World) (via : Bool) (m circ : Nat) (cps : List String) (noise : Option Nat)
    (h : (step w (.newRemote via m circ cps noise)).2 = .done) :
    (step w (.newRemote via m circ cps noise)).1.size ≠ some 0 := by
  simp only [step] at h ⊢
  cases hn : newRemote w.pf via m circ cps noise with
  | error err => rw [hn] at h; cases h
  | ok e =>
    simp only [World.size, Option.map_some, ne_eq, Option.some.injEq]
    unfold newRemote at hn
    simp only at hn
    split at hn
    · cases hn
    · rename_i hm
      split at hn
      · split at hn
        · cases hn
        · cases hn; exact hm
      · cases hn; exact hm

theorem cstep_newRemote_done_size (cw : CWorld) (via : Bool) (c : UC) (noise : Option Nat)
    (h : (cstep cw (.newRemote via c noise)).2 = .done) : (cstep cw (.newRemote via c noise)).1.w.size ≠ some 0 := by
  simp only [cstep] at h ⊢
  by_cases hwf : c.WF
  · rw [if_neg (not_not.2 hwf)] at h ⊢
    have hs := newRemote_done_size cw.w via c.m c.sym c.cparams noise
    generalize step cw.w (.newRemote via c.m c.sym c.cparams noise) = sr at hs h ⊢
    obtain ⟨w', o⟩ := sr
    cases o <;> first | exact hs rfl | cases h
  · rw [if_pos hwf] at h; cases h

theorem cstep_convert_done_size (cw : CWorld) (p : Exp) (pc : List Comp) (hp : p.size ≠ 0)
    (h : (cstep cw (.convert p pc)).2 = .done) : (cstep cw (.convert p pc)).1.w.size ≠ some 0 := by
  simp only [cstep] at h ⊢
  by_cases hσ : IsPermList p.size (relabelOf p)
  · rw [if_neg (not_not.2 hσ)] at h ⊢
    rcases step_convert_cases cw.w true p with ⟨err, he⟩ | ⟨e, hsz, he⟩
    · rw [he] at h; cases h
    · rw [he]; simp [World.size, hsz, hp]
  · rw [if_pos hσ] at h; cases h

theorem cstep_setCircuit_size (cw : CWorld) (checked : Bool) (c : UC) :
    (cstep cw (.setCircuit checked c)).1.w.size = cw.w.size := by
  simp only [cstep]
  by_cases hwf : c.WF
  · rw [if_neg (not_not.2 hwf)]
    have hsize := step_size_frame cw.w (.setCircuit checked c.m c.sym c.cparams) rfl
    generalize step cw.w (.setCircuit checked c.m c.sym c.cparams) = sr at hsize ⊢
    obtain ⟨w', o⟩ := sr
    cases o <;> exact hsize
  · rw [if_pos hwf]

theorem cstep_setCircuit_none (cw : CWorld) (checked : Bool) (c : UC) (h : cw.w.exp = none) :
    (cstep cw (.setCircuit checked c)).2 ≠ .done := by
  simp only [cstep]
  by_cases hwf : c.WF
  · rw [if_neg (not_not.2 hwf)]
    have : step cw.w (.setCircuit checked c.m c.sym c.cparams) = (cw.w, .err .precondition) := by
      simp [step, onExp, h]
    rw [this]; simp
  · rw [if_pos hwf]; simp

/-- `set_circuit` on a processor whose `m` is 0 is outside the session machine's domain -/
theorem cstep_setCircuit_m0 (cw : CWorld) (checked : Bool) (c : UC) (e : Exp) (h : cw.w.exp = some e) (hm : e.m = 0) :
    (cstep cw (.setCircuit checked c)).2 ≠ .done := by
  simp only [cstep]
  by_cases hwf : c.WF
  · rw [if_neg (not_not.2 hwf)]
    have : step cw.w (.setCircuit checked c.m c.sym c.cparams) = (cw.w, .err .precondition) := by
      simp [step, onExp, h, hm]; rfl
    rw [this]; simp
  · rw [if_pos hwf]; simp

theorem size_setExp (aw : AWorld) (e : Exp) : (setExp aw e).cw.w.size = some e.size := rfl
theorem comps_setExp (aw : AWorld) (e : Exp) : (setExp aw e).cw.comps = aw.cw.comps := rfl

theorem err_ne_done (e : Err) : (Out.err e = Out.done) = False := by simp

theorem ainv_base (ρ : Env R) (aw : AWorld) (asp : ASpec) (cop : COp) (h : AInv ρ (aw, asp)) :
    ∀ r, astepBase aw cop = r → AInv ρ (r.1, if r.2 = .done then aspecAfter aw asp (.base cop) else asp) := by
  intro r hr
  cases cop with
  | newRemote via c noise =>
    simp only [astepBase] at hr
    subst hr
    have hf := freshOn_cw aw (pass aw (.newRemote via c noise)) true none
    exact ainv_reset ρ aw asp (.newRemote via c noise) rfl h _ _ hf.1 hf.2
      (fun hd => by
        rw [show (freshOn aw (pass aw (.newRemote via c noise)) true none).1.cw =
          (cstep aw.cw (.newRemote via c noise)).1 from hf.1]
        exact cstep_newRemote_done_size aw.cw via c noise (by rw [← hd]; exact hf.2.symm))
  | convert p pc =>
    simp only [astepBase] at hr
    by_cases hg : p.post.isSome = true ∨ p.size = 0
    · rw [if_pos hg] at hr; subst hr
      simp only [err_ne_done, if_false]; exact h
    · rw [if_neg hg] at hr; subst hr
      have hp : p.size ≠ 0 := fun h0 => hg (Or.inr h0)
      have hf := freshOn_cw aw (pass aw (.convert p pc)) false none
      exact ainv_reset ρ aw asp (.convert p pc) rfl h _ _ hf.1 hf.2
        (fun hd => by
          rw [show (freshOn aw (pass aw (.convert p pc)) false none).1.cw = (cstep aw.cw (.convert p pc)).1 from hf.1]
          exact cstep_convert_done_size aw.cw p pc hp (by rw [← hd]; exact hf.2.symm))
  | add k c =>
    simp only [astepBase] at hr; subst hr
    simp only [err_ne_done, if_false]; exact h
  | setCircuit checked c =>
    simp only [astepBase] at hr
    cases hexp : aw.cw.w.exp with
    | none =>
      rw [hexp] at hr; simp only at hr; subst hr
      have hnd := cstep_setCircuit_none aw.cw checked c hexp
      exact ainv_reset ρ aw asp (.setCircuit checked c) rfl h _ _ rfl rfl (fun hd => absurd hd hnd)
    | some e =>
      rw [hexp] at hr; simp only at hr
      by_cases hz : e.size = 0
      · rw [if_pos hz] at hr
        by_cases hd : (pass (setExp aw (sized e c.m)) (.setCircuit checked c)).2 = .done
        · rw [if_pos hd] at hr; subst hr
          -- the processor takes the circuit's size first; components and reading were empty
          have h0 : aw.cw.w.size = some 0 := by simp [World.size, hexp, hz]
          obtain ⟨hc0, hs0⟩ := h.2 h0
          have hin : AInv ρ (setExp aw (sized e c.m), asp) := by
            refine ⟨fun N _ => ?_, fun _ => ⟨by rw [comps_setExp]; exact hc0, hs0⟩⟩
            rw [comps_setExp, hc0, hs0, aspec_trivial_mat]; exact circMat_nil ρ N
          have hcm : c.m ≠ 0 := by
            intro hc
            exact cstep_setCircuit_m0 (setExp aw (sized e c.m)).cw checked c (sized e c.m) rfl (by simp [sized, hc]) hd
          exact ainv_reset ρ (setExp aw (sized e c.m)) asp (.setCircuit checked c) rfl hin _ _ rfl rfl
            (fun _ => by
              show (cstep (setExp aw (sized e c.m)).cw (.setCircuit checked c)).1.w.size ≠ some 0
              rw [cstep_setCircuit_size, size_setExp]
              simp [sized, hcm])
        · rw [if_neg hd] at hr; subst hr
          simp only [hd, if_false]; exact h
      · rw [if_neg hz] at hr; subst hr
        exact ainv_reset ρ aw asp (.setCircuit checked c) rfl h _ _ rfl rfl
          (fun _ => by
            show (cstep aw.cw (.setCircuit checked c)).1.w.size ≠ some 0
            rw [cstep_setCircuit_size]; simp [World.size, hexp, hz])
  | plain o =>
    have hsp : aspecAfter aw asp (.base (.plain o)) = asp := rfl
    rw [hsp, ite_self]
    subst hr
    have hpass : ∀ o', (pass aw (.plain o')).1.cw.comps = aw.cw.comps ∧ (pass aw (.plain o')).1.cw.w.size = aw.cw.w.size :=
      fun o' => cstep_plain_frame aw.cw o'
    have hframe : (astepBase aw (.plain o)).1.cw.comps = aw.cw.comps ∧
        (astepBase aw (.plain o)).1.cw.w.size = aw.cw.w.size := by
      simp only [astepBase, astepPlain]
      split
      · exact ⟨rfl, rfl⟩
      · split
        · exact ⟨rfl, rfl⟩
        · exact hpass _
      · split
        · unfold prepareEmpty
          split
          · exact ⟨rfl, rfl⟩
          · rename_i e he
            split
            · exact ⟨rfl, rfl⟩
            · split
              · exact ⟨rfl, rfl⟩
              · split
                · exact ⟨rfl, rfl⟩
                · refine ⟨rfl, ?_⟩
                  rw [size_setExp]; simp [World.size, he, syncFilterParam]
        · exact hpass _
      · split
        · exact ⟨rfl, rfl⟩
        · exact hpass _
    exact ainv_same ρ _ _ h hframe.2 hframe.1 rfl

theorem setParams_size (e : Exp) (d : List (Option String × PV)) : (setParams e d).1.size = e.size := by
  induction d generalizing e with
  | nil => rfl
  | cons p t ih =>
    obtain ⟨k, v⟩ := p
    cases k with
    | none => rfl
    | some k => simp only [setParams]; rw [ih]; rfl

theorem firstSize_pos (mp : Mapping) (cm n : Nat) (h : firstSize mp cm = some n) : n ≠ 0 := by
  unfold firstSize at h
  cases mp with
  | offset k =>
    simp only at h
    split at h
    · cases h
    · cases h; omega
  | list keys =>
    simp only at h
    split at h
    · cases h
    · cases h; omega
  | dict items => cases h

theorem ainv_addMapped (ρ : Env R) (aw : AWorld) (asp : ASpec) (mp : Mapping) (c : UC) (h : AInv ρ (aw, asp)) :
    ∀ r, astep aw (.addMapped mp c) = r →
      AInv ρ (r.1, if r.2 = .done then aspecAfter aw asp (.addMapped mp c) else asp) := by
  intro r hr
  simp only [astep] at hr
  cases hexp : aw.cw.w.exp with
  | none => rw [hexp] at hr; simp only at hr; subst hr; simp only [err_ne_done, if_false]; exact h
  | some e0 =>
    rw [hexp] at hr; simp only at hr
    by_cases hg : ¬ c.WF ∨ c.m = 0 ∨ (usesPortName mp = true ∧ aw.portsKnown = false)
    · rw [if_pos hg] at hr; subst hr; simp only [err_ne_done, if_false]; exact h
    · rw [if_neg hg] at hr
      have hwf : c.WF := by by_contra hn; exact hg (Or.inl hn)
      have hcm : c.m ≠ 0 := fun h0 => hg (Or.inr (Or.inl h0))
      cases hfs : (if e0.size = 0 then (firstSize mp c.m).map (sized e0) else some e0) with
      | none => rw [hfs] at hr; simp only at hr; subst hr; simp only [err_ne_done, if_false]; exact h
      | some e =>
        rw [hfs] at hr; simp only at hr
        -- before the call: components and reading, read at the size the call works with
        have hpre : circMat ρ e.size aw.cw.comps = asp.mat ρ e.size ∧
            (e.size = 0 → aw.cw.comps = [] ∧ asp = ⟨⟨none, []⟩, []⟩) := by
          by_cases hz : e0.size = 0
          · have h0 : aw.cw.w.size = some 0 := by simp [World.size, hexp, hz]
            have hcs : aw.cw.comps = [] ∧ asp = ⟨⟨none, []⟩, []⟩ := h.2 h0
            exact ⟨by rw [hcs.1, hcs.2, aspec_trivial_mat]; exact circMat_nil ρ _, fun _ => hcs⟩
          · rw [if_neg hz] at hfs
            have he : e0 = e := Option.some.inj hfs
            rw [← he]
            exact ⟨h.1 e0.size (by simp [World.size, hexp]), fun h0 => absurd h0 hz⟩
        cases hra : resolveAdd aw e mp c with
        | error err =>
          rw [hra] at hr; simp only at hr; subst hr
          simp only [err_ne_done, if_false]
          refine ⟨fun N hN => ?_, fun h0 => ?_⟩
          · rw [size_setExp] at hN; cases hN; rw [comps_setExp]; exact hpre.1
          · rw [size_setExp] at h0; rw [comps_setExp]; exact hpre.2 (by simpa using h0)
        | ok nm =>
          rw [hra] at hr; simp only at hr; subst hr
          have hres := resolveAdd_resolved aw e mp c nm hra
          have hsp : aspecAfter aw asp (.addMapped mp c) =
              { asp with segs := asp.segs ++ (if isIdentity (permVect nm) then [] else [Seg.route nm]) ++
                  [Seg.leaves (shiftLeaves (minL (nm.map (·.1))) c.leaves)] } := by
            simp only [aspecAfter, hexp, hfs, hra]
          rw [if_pos rfl, hsp]
          have hpos : e.size ≠ 0 := by
            obtain ⟨hfit, -⟩ := span_fits aw e c nm hres hcm
            have hne : nm ≠ [] := by
              intro hn; have := hres.len; rw [hn] at this; simp at this; exact hcm this.symm
            obtain ⟨p, hp⟩ := List.exists_mem_of_ne_nil nm hne
            have := hres.inside p.1 (List.mem_map.2 ⟨p, hp, rfl⟩)
            omega
          refine ⟨fun N hN => ?_, fun h0 => ?_⟩
          · have hN' : N = e.size := by
              have : (setComps (setExp aw (addComponent e c.sym c.cparams)) (aw.cw.comps ++ mappedComps nm c)).cw.w.size =
                  some e.size := rfl
              rw [this] at hN; cases hN; rfl
            subst hN'
            show circMat ρ e.size (aw.cw.comps ++ mappedComps nm c) =
              segsMat ρ e.size ((asp.segs ++ (if isIdentity (permVect nm) then [] else [Seg.route nm])) ++
                [Seg.leaves (shiftLeaves (minL (nm.map (·.1))) c.leaves)]) * asp.sp.mat ρ e.size
            have hR : segsMat ρ e.size ((asp.segs ++ (if isIdentity (permVect nm) then [] else [Seg.route nm])) ++
                [Seg.leaves (shiftLeaves (minL (nm.map (·.1))) c.leaves)]) =
                segsMat ρ e.size ((if isIdentity (permVect nm) then [] else [Seg.route nm]) ++
                  [Seg.leaves (shiftLeaves (minL (nm.map (·.1))) c.leaves)]) * segsMat ρ e.size asp.segs := by
              rw [List.append_assoc, segsMat_append]
            rw [hR, circMat_append, hpre.1, mappedComps_mat ρ aw e c nm hres hcm hwf, Matrix.mul_assoc]
            rfl
          · exfalso
            have : (setComps (setExp aw (addComponent e c.sym c.cparams)) (aw.cw.comps ++ mappedComps nm c)).cw.w.size =
                some e.size := rfl
            rw [this] at h0
            exact hpos (by simpa using h0)

/-- **one call keeps the invariant** -/
theorem asstep_ainv (ρ : Env R) (st : AWorld × ASpec) (op : AOp) (h : AInv ρ st) : AInv ρ (asstep st op).1 := by
  obtain ⟨aw, asp⟩ := st
  cases op with
  | base cop =>
    have := ainv_base ρ aw asp cop h _ rfl
    simpa [asstep, astep] using this
  | addMapped mp c =>
    have := ainv_addMapped ρ aw asp mp c h _ rfl
    simpa [asstep] using this
  | convertPS p pc conds =>
    simp only [asstep, astep, Bool.false_eq_true, or_false]
    by_cases hg : p.post.isNone = true ∨ p.size = 0
    · rw [if_pos hg]; simp only [err_ne_done, if_false]; exact h
    · rw [if_neg hg]
      have hp : p.size ≠ 0 := fun h0 => hg (Or.inr h0)
      have hf := freshOn_cw aw (pass aw (.convert p pc)) false
        (some (conds.map fun c => c.map fun x => (relabelOf p).idxOf x))
      exact ainv_reset ρ aw asp (.convert p pc) rfl h _ _ hf.1 hf.2
        (fun hd => by
          rw [hf.1]
          exact cstep_convert_done_size aw.cw p pc hp (by rw [← hd]; exact hf.2.symm))
  | post id conds =>
    have hfr := cstep_plain_frame aw.cw (.setPost (some id))
    simp only [asstep, astep, Bool.false_eq_true, or_false]
    have hsp : aspecAfter aw asp (.post id conds) = asp := rfl
    rw [hsp, ite_self]
    split
    · exact ainv_same ρ _ _ h hfr.2 hfr.1 rfl
    · exact ainv_same ρ _ _ h hfr.2 hfr.1 rfl
  | clearPost =>
    have hfr := cstep_plain_frame aw.cw (.setPost none)
    simp only [asstep, astep, Bool.false_eq_true, or_false]
    have hsp : aspecAfter aw asp .clearPost = asp := rfl
    rw [hsp, ite_self]
    split
    · exact ainv_same ρ _ _ h hfr.2 hfr.1 rfl
    · exact ainv_same ρ _ _ h hfr.2 hfr.1 rfl
  | addPort mode name size =>
    simp only [asstep, astep, Bool.false_eq_true, or_false]
    have hsp : aspecAfter aw asp (.addPort mode name size) = asp := rfl
    rw [hsp, ite_self]
    split
    · exact h
    · split
      · exact h
      · split
        · exact h
        · exact ainv_same ρ _ _ h rfl rfl rfl
  | setParams d =>
    simp only [asstep, astep, Bool.false_eq_true, or_false]
    have hsp : aspecAfter aw asp (.setParams d) = asp := rfl
    rw [hsp, ite_self]
    split
    · exact h
    · rename_i e he
      have hsz : (setExp aw (setParams e d).1).cw.w.size = aw.cw.w.size := by
        rw [size_setExp, setParams_size]; simp [World.size, he]
      split
      · rename_i e' err heq
        have : e' = (setParams e d).1 := by rw [heq]
        subst this
        exact ainv_same ρ _ _ h hsz rfl rfl
      · rename_i e' heq
        have : e' = (setParams e d).1 := by rw [heq]
        subst this
        exact ainv_same ρ _ _ h hsz rfl rfl
  | thresholded v =>
    simp only [asstep, astep, Bool.false_eq_true, or_false]
    have hsp : aspecAfter aw asp (.thresholded v) = asp := rfl
    rw [hsp, ite_self]
    split
    · exact h
    · rename_i e he
      split
      · exact h
      · exact ainv_same ρ _ _ h (by rw [size_setExp]; simp [World.size, he, setParam]) rfl rfl
  | clearAll newM sym =>
    simp only [asstep, astep]
    cases hexp : aw.cw.w.exp with
    | none => simp only [Option.isSome_none, Bool.false_eq_true, or_false, err_ne_done, if_false]; exact h
    | some e =>
      simp only [Option.isSome_some, or_true, if_true]
      have hsp : aspecAfter aw asp (.clearAll newM sym) = ⟨⟨none, []⟩, []⟩ := rfl
      rw [hsp]
      have key : ∀ aw' : AWorld, aw'.cw.comps = [] → AInv ρ (aw', (⟨⟨none, []⟩, []⟩ : ASpec)) := by
        intro aw' hc
        refine ⟨fun N _ => ?_, fun _ => ⟨hc, rfl⟩⟩
        rw [hc, aspec_trivial_mat]; exact circMat_nil ρ N
      cases newM with
      | none => exact key _ rfl
      | some i =>
        simp only
        split
        · exact key _ rfl
        · exact key _ rfl

end Inv

/-! ### what `astep` leaves to `cstep` -/

theorem astep_delegate (aw : AWorld) (op : AOp) (cop : COp) (h : op.delegate aw = some cop) :
    (astep aw op).1.cw = (cstep aw.cw cop).1 ∧ (astep aw op).2 = (cstep aw.cw cop).2 := by
  cases op with
  | base bop =>
    cases bop with
    | newRemote via c noise =>
      simp only [AOp.delegate, Option.some.injEq] at h; subst h
      exact freshOn_cw aw (pass aw (.newRemote via c noise)) true none
    | convert p pc =>
      simp only [AOp.delegate] at h
      by_cases hg : p.post.isSome = true ∨ p.size = 0
      · rw [if_pos hg] at h; cases h
      · rw [if_neg hg] at h; cases h
        simp only [astep, astepBase, if_neg hg]
        exact freshOn_cw aw (pass aw (.convert p pc)) false none
    | add k c => simp [AOp.delegate] at h
    | setCircuit checked c =>
      simp only [AOp.delegate] at h
      by_cases hg : emptyProc aw = true
      · rw [if_pos hg] at h; cases h
      · rw [if_neg hg] at h; cases h
        simp only [astep, astepBase]
        cases hexp : aw.cw.w.exp with
        | none => exact ⟨rfl, rfl⟩
        | some e =>
          have hz : ¬ e.size = 0 := by
            intro h0; apply hg; simp [emptyProc, hexp, h0]
          simp only [if_neg hz]; exact ⟨rfl, rfl⟩
    | plain o =>
      simp only [AOp.delegate] at h
      simp only [astep, astepBase, astepPlain]
      split at h
      · cases h
      · split at h
        · cases h
        · cases h; rename_i hg; rw [if_neg hg]; exact ⟨rfl, rfl⟩
      · split at h
        · cases h
        · cases h; rename_i hg; rw [if_neg hg]; exact ⟨rfl, rfl⟩
      · split at h
        · cases h
        · cases h
          rename_i hne1 hne2 hne3 hg
          split
          · rename_i hc; exact absurd hc hg
          · exact ⟨rfl, rfl⟩
  | convertPS p pc conds =>
    simp only [AOp.delegate] at h
    by_cases hg : p.post.isNone = true ∨ p.size = 0
    · rw [if_pos hg] at h; cases h
    · rw [if_neg hg] at h; cases h
      simp only [astep, if_neg hg]
      exact freshOn_cw aw (pass aw (.convert p pc)) false _
  | post id conds =>
    simp only [AOp.delegate, Option.some.injEq] at h; subst h
    simp only [astep]; split <;> exact ⟨rfl, rfl⟩
  | clearPost =>
    simp only [AOp.delegate, Option.some.injEq] at h; subst h
    simp only [astep]; split <;> exact ⟨rfl, rfl⟩
  | addPort mode name size => simp [AOp.delegate] at h
  | addMapped mp c => simp [AOp.delegate] at h
  | setParams d => simp [AOp.delegate] at h
  | thresholded v => simp [AOp.delegate] at h
  | clearAll newM sym => simp [AOp.delegate] at h

/-! ### where a key of the user's mapping goes -/

theorem route_key (aw : AWorld) (e : Exp) (c : UC) (nm : NMap) (hr : Resolved aw e c nm) (hm : c.m ≠ 0)
    (k v : Nat) (h : (k, v) ∈ nm) :
    ∃ (hk : k < e.size) (hv : minL (nm.map (·.1)) + v < e.size),
      routeFn e.size nm ⟨k, hk⟩ = ⟨minL (nm.map (·.1)) + v, hv⟩ := by
  have hkm : k ∈ nm.map (·.1) := List.mem_map.2 ⟨(k, v), h, rfl⟩
  have hk : k < e.size := hr.inside k hkm
  obtain ⟨hfit, -⟩ := span_fits aw e c nm hr hm
  obtain ⟨h1, h2⟩ := key_in_span nm k hkm
  have hget : nget nm k = some v := nget_of_mem nm hr.keysNodup k v h
  have hsv : spanVal nm (k - minL (nm.map (·.1))) = v := by
    unfold spanVal
    rw [show minL (nm.map (·.1)) + (k - minL (nm.map (·.1))) = k by omega, hget]
  have hlt := permVect_lt nm hr.perm (k - minL (nm.map (·.1))) (by omega)
  rw [hsv] at hlt
  have hv : minL (nm.map (·.1)) + v < e.size := by omega
  refine ⟨hk, hv, ?_⟩
  unfold routeFn
  have hc : minL (nm.map (·.1)) ≤ k ∧ k < minL (nm.map (·.1)) + spanLen nm ∧
      minL (nm.map (·.1)) + spanVal nm (k - minL (nm.map (·.1))) < e.size := ⟨h1, h2, by rw [hsv]; exact hv⟩
  rw [dif_pos hc]
  apply Fin.ext
  simp only [hsv]

end PM.C16
