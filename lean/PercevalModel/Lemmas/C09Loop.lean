/-
  C09 (extension, round 6) — the WHOLE sampling loop (`loopG`, with the generator's batches and the data-dependent
  stop at `max_samples` / `max_shots`) as a reading strategy on the joint streams (backend streams per input state,
  detector streams per incoming state), and its law on independent ideal streams.
-/
import PercevalModel.Lemmas.C09Shots
import PercevalModel.Lemmas.C09Joint

set_option linter.unusedSimpArgs false
set_option linter.unusedVariables false

namespace PM.C09

open PM.Dist (D mass)

/-! ### the loop, one iteration at a time -/

/-- the loop state without the detector streams (they live in the joint streams) -/
def noDet (s : Core) : Core := { s with det := [] }

/-- what the loop does before a shot: take the next emitted input, calling the generator when the batch is used up.
Result: the state handed to the shot, the emitted input, the rest of the batch. -/
def nextShot (ms : Nat) (sh : Option Nat) (ge : Option String) (s : Core) :
    Except String (Core × InDraw × List InDraw) :=
  match s.batch with
  | inp :: rest => .ok (s, inp, rest)
  | [] =>
    match ge, s.gens with
    | some e, _ => .error e
    | none, [] => .error "needInputs"
    | none, b :: gs =>
      match b with
      | [] => .error "IndexError"
      | inp :: rest => .ok ({ s with gens := gs, asked := nbGenR ms sh s :: s.asked }, inp, rest)

/-- the loop state after a shot whose detected state is `st` (the detector streams are not touched here) -/
def afterShot (c : SelCfg) (s : Core) (rest : List InDraw) (st : Fock) : Core :=
  match shotOutcome true c.filter c.heralds (c.psf st) st with
  | .phys => { s with batch := rest, shots := s.shots + 1, seen := st :: s.seen, notSelPhys := s.notSelPhys + 1 }
  | .logic => { s with batch := rest, shots := s.shots + 1, seen := st :: s.seen, notSel := s.notSel + 1 }
  | .sel => { s with batch := rest, shots := s.shots + 1, seen := st :: s.seen,
                     out := emitted c.heralds c.keep st :: s.out }

theorem shotG_eq {P : Type} (sf : P → Fock → Except String (Fock × P)) (c : SelCfg) (p : P) (s : Core)
    (inp : InDraw) (rest : List InDraw) :
    shotG sf c p s inp rest =
      match sampleAll sf p inp with
      | .error e => .error e
      | .ok (vs, p1) =>
        match mergeAll vs with
        | none => .error "IndexError"
        | some st0 =>
          match detect c st0 s.det with
          | .error e => .error e
          | .ok (st, d) => .ok (p1, { afterShot c s rest st with det := d }) := by
  unfold shotG
  cases sampleAll sf p inp with
  | error e => rfl
  | ok r =>
    obtain ⟨vs, p1⟩ := r
    simp only
    cases mergeAll vs with
    | none => rfl
    | some st0 =>
      simp only
      cases detect c st0 s.det with
      | error e => rfl
      | ok r2 =>
        obtain ⟨st, d⟩ := r2
        simp only [afterShot]
        cases shotOutcome true c.filter c.heralds (c.psf st) st <;> rfl

theorem loopG_succ {P : Type} (sf : P → Fock → Except String (Fock × P)) (c : SelCfg) (ms : Nat) (sh : Option Nat)
    (ge : Option String) (fuel : Nat) (p : P) (s : Core) :
    loopG sf c ms sh ge (fuel + 1) p s =
      if !condR ms sh s then .ok (p, s)
      else
        match nextShot ms sh ge s with
        | .error e => .error e
        | .ok (s1, inp, rest) =>
          match shotG sf c p s1 inp rest with
          | .error e => .error e
          | .ok (p, s) => loopG sf c ms sh ge fuel p s := by
  conv_lhs => unfold loopG
  by_cases hc : (!condR ms sh s) = true
  · simp only [hc, ↓reduceIte]
  · simp only [hc, Bool.false_eq_true, ↓reduceIte]
    unfold nextShot
    cases hb : s.batch with
    | cons inp rest => rfl
    | nil =>
      simp only
      cases ge with
      | some e => rfl
      | none =>
        cases hg : s.gens with
        | nil => rfl
        | cons b gs =>
          cases b with
          | nil => rfl
          | cons inp rest => rfl

/-! ### the loop as a reader -/

/-- **the sampling loop as a reading strategy**: the generator's batches are given, every shot reads the backend
streams of the components of its emitted input and then (random detectors) the detector stream of the merged state;
whether there is a next shot is decided from what was read so far (`condR`: stop when `max_samples` are selected or
`max_shots` shots are done).  The states of this reader carry no detector streams (`noDet`). -/
def loopRd (c : SelCfg) (ms : Nat) (sh : Option Nat) (ge : Option String) :
    Nat → Core → Reader Site (Except String Core)
  | 0, _ => .done (.error "fuel")
  | fuel + 1, s =>
    if !condR ms sh s then .done (.ok s)
    else
      match nextShot ms sh ge s with
      | .error e => .done (.error e)
      | .ok (s1, inp, rest) =>
        (shotRd c.det inp).bind fun o =>
          match o with
          | none => .done (.error "IndexError")
          | some st => loopRd c ms sh ge fuel (afterShot c s1 rest st)

/-- value of an observable of a reader run: a stream that ran out or an error of the code count 0 -/
def valR (F : Core → ℚ) : Option (Except String Core) → ℚ
  | some (.ok r) => F r
  | _ => 0

theorem condR_noDet (ms : Nat) (sh : Option Nat) (s : Core) : condR ms sh (noDet s) = condR ms sh s := rfl

theorem nextShot_noDet (ms : Nat) (sh : Option Nat) (ge : Option String) (s : Core) :
    nextShot ms sh ge (noDet s) =
      match nextShot ms sh ge s with
      | .error e => .error e
      | .ok (s1, inp, rest) => .ok (noDet s1, inp, rest) := by
  obtain ⟨out, seen, shots, notSel, notSelPhys, batch, gens, asked, det⟩ := s
  unfold nextShot noDet
  cases batch with
  | cons inp rest => rfl
  | nil =>
    cases ge with
    | some e => rfl
    | none =>
      cases gens with
      | nil => rfl
      | cons b gs =>
        cases b with
        | nil => rfl
        | cons inp rest => rfl

theorem nextShot_det (ms : Nat) (sh : Option Nat) (ge : Option String) (s s1 : Core) (inp : InDraw)
    (rest : List InDraw) (h : nextShot ms sh ge s = .ok (s1, inp, rest)) :
    s1.det = s.det ∧ s.batch ++ s.gens.flatten = inp :: (rest ++ s1.gens.flatten) := by
  obtain ⟨out, seen, shots, notSel, notSelPhys, batch, gens, asked, det⟩ := s
  unfold nextShot at h
  cases batch with
  | cons inp' rest' =>
    simp only [Except.ok.injEq, Prod.mk.injEq] at h
    obtain ⟨rfl, rfl, rfl⟩ := h
    exact ⟨rfl, rfl⟩
  | nil =>
    cases ge with
    | some e => simp at h
    | none =>
      cases gens with
      | nil => simp at h
      | cons b gs =>
        cases b with
        | nil => simp at h
        | cons inp' rest' =>
          simp only [Except.ok.injEq, Prod.mk.injEq] at h
          obtain ⟨rfl, rfl, rfl⟩ := h
          exact ⟨rfl, by simp⟩

theorem afterShot_noDet (c : SelCfg) (s : Core) (rest : List InDraw) (st : Fock) (d : AL (List Fock)) :
    noDet { afterShot c s rest st with det := d } = afterShot c (noDet s) rest st := by
  unfold afterShot noDet
  cases shotOutcome true c.filter c.heralds (c.psf st) st <;> rfl

theorem afterShot_fields (c : SelCfg) (s : Core) (rest : List InDraw) (st : Fock) :
    (afterShot c s rest st).batch = rest ∧ (afterShot c s rest st).gens = s.gens := by
  unfold afterShot
  cases shotOutcome true c.filter c.heralds (c.psf st) st <;> exact ⟨rfl, rfl⟩

/-! ### one shot on the joint streams -/

theorem readComps_run_joint (d : AL (List Fock)) (ks : List Fock) (q : Fock → List Fock) :
    (readComps ks).run (joint q d) =
      match sampleAll sfLazy q ks with
      | .ok (vs, _) => some vs
      | .error _ => none := by
  induction ks generalizing q with
  | nil => rfl
  | cons k ks ih =>
    simp only [readComps, Reader.run, sampleAll, sfLazy]
    have hj : joint q d (.bk k) = q k := rfl
    rw [hj]
    cases hq : q k with
    | nil => rfl
    | cons v vs =>
      simp only [Reader.run_map, joint_update_bk, ih, sfLazy_update]
      cases sampleAll sfLazy (Function.update q k vs) ks with
      | error e => rfl
      | ok r => rfl

theorem readComps_rest_joint (d : AL (List Fock)) (ks : List Fock) (q : Fock → List Fock) :
    (readComps ks).rest (joint q d) =
      match sampleAll sfLazy q ks with
      | .ok (_, q') => some (joint q' d)
      | .error _ => none := by
  induction ks generalizing q with
  | nil => rfl
  | cons k ks ih =>
    simp only [readComps, Reader.rest, sampleAll, sfLazy]
    have hj : joint q d (.bk k) = q k := rfl
    rw [hj]
    cases hq : q k with
    | nil => rfl
    | cons v vs =>
      simp only [Reader.rest_map, joint_update_bk, ih, sfLazy_update]
      cases sampleAll sfLazy (Function.update q k vs) ks with
      | error e => rfl
      | ok r => rfl

/-- a shot followed by a continuation, run on the joint streams -/
theorem shot_bind_run {σ : Type} (c : SelCfg) (q : Fock → List Fock) (d : AL (List Fock)) (inp : InDraw)
    (f : Option Fock → Reader Site σ) :
    ((shotRd c.det inp).bind f).run (joint q d) =
      match sampleAll sfLazy q inp with
      | .error _ => none
      | .ok (vs, q1) =>
        match mergeAll vs with
        | none => (f none).run (joint q1 d)
        | some st0 =>
          match detect c st0 d with
          | .error _ => none
          | .ok (st, d') => (f (some st)).run (joint q1 d') := by
  rw [Reader.run_bind, shotRd_eq_bind, Reader.run_bind, Reader.rest_bind, readComps_run_joint,
    readComps_rest_joint]
  cases hs : sampleAll sfLazy q inp with
  | error e => rfl
  | ok r =>
    obtain ⟨vs, q1⟩ := r
    simp only
    unfold detRd detect
    cases hm : mergeAll vs with
    | none => simp only [Reader.run, Reader.rest]
    | some st0 =>
      cases hdm : c.det with
      | none => simp only [Reader.run, Reader.rest]
      | threshold => simp only [Reader.run, Reader.rest]
      | random =>
        simp only [Reader.run, Reader.rest]
        have hj : joint q1 d (.det st0) = agetD st0 d [] := rfl
        rw [hj]
        cases ha : agetD st0 d [] with
        | nil => rfl
        | cons x xs => simp only [joint_update_det]


/-! ### the loop of the lazy provider is the run of `loopRd` -/

/-- **the loop run by the lazy provider IS the run of the reader `loopRd`** on the joint streams, for every
observable of the final loop state that does not look at the detector streams left over -/
theorem loopG_lazy_is_loopRd (c : SelCfg) (ms : Nat) (sh : Option Nat) (ge : Option String) (F : Core → ℚ) :
    ∀ (fuel : Nat) (q : Fock → List Fock) (s : Core),
      okVal (fun r => F (noDet r)) (loopG sfLazy c ms sh ge fuel q s) =
        valR F ((loopRd c ms sh ge fuel (noDet s)).run (joint q s.det)) := by
  intro fuel
  induction fuel with
  | zero => intro q s; rfl
  | succ fuel ih =>
    intro q s
    rw [loopG_succ]
    conv_rhs => unfold loopRd
    rw [condR_noDet, nextShot_noDet]
    by_cases hc : (!condR ms sh s) = true
    · simp only [hc, ↓reduceIte]
      rfl
    · simp only [hc, Bool.false_eq_true, ↓reduceIte]
      cases hn : nextShot ms sh ge s with
      | error e => rfl
      | ok r =>
        obtain ⟨s1, inp, rest⟩ := r
        simp only
        have hd := (nextShot_det ms sh ge s s1 inp rest hn).1
        rw [← hd, shot_bind_run, shotG_eq]
        cases sampleAll sfLazy q inp with
        | error e => rfl
        | ok r2 =>
          obtain ⟨vs, q1⟩ := r2
          simp only
          cases mergeAll vs with
          | none => rfl
          | some st0 =>
            simp only
            cases detect c st0 s1.det with
            | error e => rfl
            | ok r3 =>
              obtain ⟨st, d'⟩ := r3
              simp only
              rw [ih, afterShot_noDet]

/-! ### the law: every shot a fresh independent draw, the loop stopping by its own rule -/

/-- **the law of the sampling loop with its stopping rule**, as an iterated expectation: while the loop condition
holds (fewer than `max_samples` selected, fewer than `max_shots` shots) the next emitted input is taken, ONE fresh
independent shot is drawn for it (`shotRd … .exR`: one backend draw per component, merged, one detector draw), the
counters are updated with its outcome, and the rest of the loop follows; a run that ends in an error of the code
(or out of fuel) counts 0. -/
def exLoop (bk detK : Fock → D) (c : SelCfg) (ms : Nat) (sh : Option Nat) (ge : Option String) :
    Nat → Core → (Core → ℚ) → ℚ
  | 0, _, _ => 0
  | fuel + 1, s, F =>
    if !condR ms sh s then F s
    else
      match nextShot ms sh ge s with
      | .error _ => 0
      | .ok (s1, inp, rest) =>
        (shotRd c.det inp).exR (siteLaw bk detK) fun o =>
          match o with
          | none => 0
          | some st => exLoop bk detK c ms sh ge fuel (afterShot c s1 rest st) F

theorem loopRd_exR (bk detK : Fock → D) (c : SelCfg) (ms : Nat) (sh : Option Nat) (ge : Option String)
    (F : Core → ℚ) : ∀ (fuel : Nat) (s : Core),
      (loopRd c ms sh ge fuel s).exR (siteLaw bk detK) (fun r => valR F (some r)) =
        exLoop bk detK c ms sh ge fuel s F := by
  intro fuel
  induction fuel with
  | zero => intro s; rfl
  | succ fuel ih =>
    intro s
    unfold loopRd exLoop
    by_cases hc : (!condR ms sh s) = true
    · simp only [hc, ↓reduceIte]
      rfl
    · simp only [hc, Bool.false_eq_true, ↓reduceIte]
      cases nextShot ms sh ge s with
      | error e => rfl
      | ok r =>
        obtain ⟨s1, inp, rest⟩ := r
        simp only
        rw [Reader.exR_bind]
        congr 1
        funext o
        cases o with
        | none => rfl
        | some st => exact ih _

theorem Reader.allS_true {K ρ : Type} (μ : K → D) (rd : Reader K ρ) : rd.AllS μ (fun _ => True) := by
  induction rd with
  | done r => trivial
  | read k c ih => exact fun p hp => ih p.1

/-- the streams of `shotsLen` for all the emitted inputs the loop may use are enough for every path of the loop -/
theorem loopRd_fitsS (bk detK : Fock → D) (c : SelCfg) (ms : Nat) (sh : Option Nat) (ge : Option String)
    (T : List Fock) : ∀ (fuel : Nat) (s : Core),
      (∀ inp ∈ s.batch ++ s.gens.flatten, ∀ vs st, CompVals bk inp vs → mergeAll vs = some st → st ∈ T) →
      (loopRd c ms sh ge fuel s).FitsS (siteLaw bk detK) (shotsLen T (s.batch ++ s.gens.flatten)) := by
  intro fuel
  induction fuel with
  | zero => intro s _; trivial
  | succ fuel ih =>
    intro s hT
    unfold loopRd
    by_cases hc : (!condR ms sh s) = true
    · simp only [hc, ↓reduceIte]
      trivial
    · simp only [hc, Bool.false_eq_true, ↓reduceIte]
      cases hn : nextShot ms sh ge s with
      | error e => trivial
      | ok r =>
        obtain ⟨s1, inp, rest⟩ := r
        simp only
        obtain ⟨_, hinp⟩ := nextShot_det ms sh ge s s1 inp rest hn
        rw [hinp] at hT ⊢
        have h := Reader.fitsS_bind (siteLaw bk detK) (fun _ => True) (shotRd c.det inp)
          (fun o => match o with
            | none => Reader.done (.error "IndexError")
            | some st => loopRd c ms sh ge fuel (afterShot c s1 rest st))
          (shotsLen T [inp]) (shotsLen T (rest ++ s1.gens.flatten))
          (shotRd_fitsS bk detK c.det T inp (hT inp List.mem_cons_self)) (Reader.allS_true _ _) ?_
        · refine Reader.fitsS_mono _ _ _ _ ?_ h
          intro x
          cases x with
          | bk k =>
            simp only [shotsLen, List.flatten_cons, List.flatten_nil, List.append_nil, List.count_append,
              Nat.le_refl]
          | det st =>
            by_cases hst : st ∈ T
            · simp only [shotsLen, hst, if_true, List.length_cons, List.length_nil]; omega
            · simp only [shotsLen, hst, if_false, Nat.le_refl]
        · intro o _
          cases o with
          | none => trivial
          | some st =>
            have hf := afterShot_fields c s1 rest st
            have := ih (afterShot c s1 rest st) (by
              rw [hf.1, hf.2]
              exact fun inp' hi => hT inp' (List.mem_cons_of_mem _ hi))
            rw [hf.1, hf.2] at this
            exact this

/-! ### the streams drawn by `exStreams` as the model's provider / detector streams -/

/-- the detector streams of the loop state made of the `.det` sites of `T` -/
def detOf (T : List Fock) (Q : Site → List Fock) : AL (List Fock) := T.map fun st => (st, Q (.det st))

theorem bk_mem_shotSites (bks T : List Fock) (k : Fock) : Site.bk k ∈ shotSites bks T ↔ k ∈ bks := by
  unfold shotSites
  simp only [List.mem_append, List.mem_map, Site.bk.injEq, exists_eq_right, reduceCtorEq, and_false, exists_false,
    or_false]

theorem det_mem_shotSites (bks T : List Fock) (st : Fock) : Site.det st ∈ shotSites bks T ↔ st ∈ T := by
  unfold shotSites
  simp only [List.mem_append, List.mem_map, Site.det.injEq, exists_eq_right, reduceCtorEq, and_false, exists_false,
    false_or]

theorem joint_detOf (T : List Fock) (Q : Site → List Fock) (hQ : ∀ st, st ∉ T → Q (.det st) = []) :
    joint (fun k => Q (.bk k)) (detOf T Q) = Q := by
  funext x
  cases x with
  | bk k => rfl
  | det st =>
    simp only [joint, detOf, agetD]
    rw [findKey_map_self (fun st => Q (.det st)) st T]
    by_cases h : st ∈ T
    · simp [h]
    · simp [h, hQ st h]

/-- **the law of the sampling loop run by the LAZY provider on independent ideal streams** (target: the loop with its
data-dependent stop is a reading strategy, so `adaptive_reading_supp` applies): it is `exLoop`. -/
theorem lazy_loop_law (bk detK : Fock → D) (hbk : ∀ k, mass (bk k) = 1) (hdet : ∀ st, mass (detK st) = 1)
    (c : SelCfg) (ms : Nat) (sh : Option Nat) (ge : Option String) (fuel : Nat) (s : Core) (bks T : List Fock)
    (hbn : bks.Nodup) (hTn : T.Nodup) (len : Site → ℕ)
    (hlen : ∀ x, shotsLen T (s.batch ++ s.gens.flatten) x ≤ len x)
    (hout : ∀ x, x ∉ shotSites bks T → len x = 0)
    (hT : ∀ inp ∈ s.batch ++ s.gens.flatten, ∀ vs st, CompVals bk inp vs → mergeAll vs = some st → st ∈ T)
    (F : Core → ℚ) :
    exStreams (siteLaw bk detK) len (shotSites bks T) (fun Q => okVal (fun r => F (noDet r))
        (loopG sfLazy c ms sh ge fuel (fun k => Q (.bk k)) { s with det := detOf T Q })) =
      exLoop bk detK c ms sh ge fuel (noDet s) F := by
  rw [← loopRd_exR, ← adaptive_reading_supp (siteLaw bk detK) (siteLaw_mass bk detK hbk hdet) (shotSites bks T)
    (shotSites_nodup bks T hbn hTn) (loopRd c ms sh ge fuel (noDet s)) len
    (Reader.fitsS_mono _ _ _ _ hlen (loopRd_fitsS bk detK c ms sh ge T fuel (noDet s) hT)) hout]
  apply exStreams_congr_out
  intro Q hQ
  rw [loopG_lazy_is_loopRd]
  have hj : joint (fun k => Q (.bk k)) (detOf T Q) = Q :=
    joint_detOf T Q (fun st hst => hQ _ (fun hm => hst ((det_mem_shotSites bks T st).1 hm)))
  show valR F ((loopRd c ms sh ge fuel (noDet s)).run (joint (fun k => Q (.bk k)) (detOf T Q))) = _
  rw [hj]
  cases (loopRd c ms sh ge fuel (noDet s)).run Q <;> rfl

/-! ### the pooled provider, jointly with the detector streams -/

/-- what the pooled provider does to the streams, site by site: the backend streams are re-ordered, the detector
streams are left alone -/
def siteT (weights : AL Nat) : Site → List Fock → List Fock
  | .bk k => reorder (aget k weights)
  | .det _ => id

def siteLenT (weights : AL Nat) (len : Site → ℕ) : Site → ℕ
  | .bk k => reorderLen (aget k weights) (len (.bk k))
  | .det st => len (.det st)

theorem reorderLen_zero (w : Option Nat) : reorderLen w 0 = 0 := by
  rw [reorderLen_eq]
  split
  · rfl
  · rename_i h
    exfalso
    apply h
    omega

/-- **the joint law over all pools and the detector streams**: the run of the pooled provider on independent ideal
streams has the law of the run of the lazy provider on independent ideal streams (of the lengths the pools hand
out), after the draws already in the pools -/
theorem pooled_loop_joint (bk detK : Fock → D) (hbk : ∀ k, mass (bk k) = 1) (len : Site → ℕ)
    (pools : AL (List Fock)) (weights : AL Nat) (reqs : List (Fock × Nat)) (bks T : List Fock)
    (c : SelCfg) (ms : Nat) (sh : Option Nat) (ge : Option String) (fuel : Nat) (s : Core) (F : Core → ℚ) :
    exStreams (siteLaw bk detK) len (shotSites bks T) (fun Q => okVal F
        (loopG sfPool c ms sh ge fuel (poolProv pools weights reqs bks (fun k => Q (.bk k)))
          { s with det := detOf T Q })) =
      exStreams (siteLaw bk detK) (siteLenT weights len) (shotSites bks T) (fun Q => okVal F
        (loopG sfLazy c ms sh ge fuel (fun k => agetD k pools [] ++ Q (.bk k)) { s with det := detOf T Q })) := by
  rw [← exStreams_sitewise (siteLaw bk detK) len (siteLenT weights len) (siteT weights) ?_ ?_ (shotSites bks T)
    (fun Q => okVal F
        (loopG sfLazy c ms sh ge fuel (fun k => agetD k pools [] ++ Q (.bk k)) { s with det := detOf T Q }))]
  · apply exStreams_congr_out
    intro Q hQ
    rw [okVal_pool_eq_lazy, lazyOf_poolProv pools weights reqs bks (fun k => Q (.bk k))
      (fun k hk => hQ _ (fun hm => hk ((bk_mem_shotSites bks T k).1 hm)))]
    rfl
  · intro x F'
    cases x with
    | bk k => exact exN_reorder (bk k) (hbk k) (aget k weights) (len (.bk k)) F'
    | det st => rfl
  · intro x
    cases x with
    | bk k => exact reorder_nil _
    | det st => rfl

/-- **composition: the law of the sampling loop run by the POOLED provider (the code's `SamplesProvider`, pools
empty at the start) on independent ideal streams is `exLoop`** — provided the pools hand out enough draws
(`hlen`: complete batches only, `reorderLen`). -/
theorem pooled_loop_law (bk detK : Fock → D) (hbk : ∀ k, mass (bk k) = 1) (hdet : ∀ st, mass (detK st) = 1)
    (c : SelCfg) (ms : Nat) (sh : Option Nat) (ge : Option String) (fuel : Nat) (s : Core) (bks T : List Fock)
    (hbn : bks.Nodup) (hTn : T.Nodup) (weights : AL Nat) (reqs : List (Fock × Nat)) (len : Site → ℕ)
    (hlen : ∀ x, shotsLen T (s.batch ++ s.gens.flatten) x ≤ siteLenT weights len x)
    (hout : ∀ x, x ∉ shotSites bks T → len x = 0)
    (hT : ∀ inp ∈ s.batch ++ s.gens.flatten, ∀ vs st, CompVals bk inp vs → mergeAll vs = some st → st ∈ T)
    (F : Core → ℚ) :
    exStreams (siteLaw bk detK) len (shotSites bks T) (fun Q => okVal (fun r => F (noDet r))
        (loopG sfPool c ms sh ge fuel (poolProv [] weights reqs bks (fun k => Q (.bk k)))
          { s with det := detOf T Q })) =
      exLoop bk detK c ms sh ge fuel (noDet s) F := by
  rw [pooled_loop_joint bk detK hbk len [] weights reqs bks T c ms sh ge fuel s]
  have hout' : ∀ x, x ∉ shotSites bks T → siteLenT weights len x = 0 := by
    intro x hx
    cases x with
    | bk k => simp only [siteLenT, hout _ hx, reorderLen_zero]
    | det st => simp only [siteLenT, hout _ hx]
  exact lazy_loop_law bk detK hbk hdet c ms sh ge fuel s bks T hbn hTn (siteLenT weights len) hlen hout' hT F

end PM.C09
