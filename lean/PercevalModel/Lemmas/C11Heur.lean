/-
  C11 — the heuristic `_generate_compatible_perm` / `_update_perm` / `_search_empty_space`
  (`Model/C11Heur.lean`) always produces a permutation of the modes in which every group of dependent
  modes is written as a sorted block into consecutive slots (`BlockPlaced`), hence a valid
  unravelling permutation.
-/
import PercevalModel.Model.C11Heur
import PercevalModel.Lemmas.C11Adj

set_option linter.unusedSimpArgs false
set_option linter.unusedSectionVars false
set_option linter.unusedVariables false

namespace PM.C11
variable {P : Type}

/-! ### the slice shift -/

theorem moveNone_getElem? (perm : Slots) (cur p k : ℕ) (hc : cur < perm.length)
    (hp : p < perm.length) :
    (moveNone perm cur p)[k]? =
      if k < p then (if k < cur then perm[k]? else perm[k + 1]?)
      else if k = p then some none
      else (if k - 1 < cur then perm[k - 1]? else perm[k]?) := by
  unfold moveNone
  rw [List.getElem?_insertIdx]
  simp only [List.getElem?_eraseIdx, List.length_eraseIdx_of_lt hc]
  split
  · rfl
  · split
    · rw [if_pos (by omega)]
    · have : k - 1 + 1 = k := by omega
      rw [this]

theorem moveNone_length (perm : Slots) (cur p : ℕ) (hc : cur < perm.length) (hp : p < perm.length) :
    (moveNone perm cur p).length = perm.length := by
  unfold moveNone
  rw [List.length_insertIdx, List.length_eraseIdx_of_lt hc, if_pos (by omega)]
  omega

theorem count_eraseIdx_none (perm : Slots) (cur : ℕ) (h : perm[cur]? = some none) :
    (perm.eraseIdx cur).count none + 1 = perm.count none := by
  have hc : cur < perm.length := (List.getElem?_eq_some_iff.1 h).1
  have hv : perm[cur] = none := (List.getElem?_eq_some_iff.1 h).2
  have e1 : perm = perm.take cur ++ perm[cur] :: perm.drop (cur + 1) := by
    conv_lhs => rw [← List.take_append_drop cur perm, List.drop_eq_getElem_cons hc]
  rw [List.eraseIdx_eq_take_drop_succ]
  conv_rhs => rw [e1]
  simp [List.count_append, List.count_cons, hv]
  omega

theorem moveNone_count (perm : Slots) (cur p : ℕ) (h : perm[cur]? = some none)
    (hp : p < perm.length) : (moveNone perm cur p).count none = perm.count none := by
  have hc : cur < perm.length := (List.getElem?_eq_some_iff.1 h).1
  unfold moveNone
  have := (List.perm_insertIdx (none : Option ℕ) (perm.eraseIdx cur) (i := p)
    (by rw [List.length_eraseIdx_of_lt hc]; omega)).count_eq none
  rw [this, List.count_cons_self, count_eraseIdx_none perm cur h]

/-! ### blocks -/

/-- the list `g` is written into consecutive slots of `perm` -/
def Placed (perm : Slots) (g : List ℕ) : Prop :=
  ∃ s, ∀ k < g.length, perm[s + k]? = some (some (g.getD k 0))

/-- a block does not meet a free slot -/
theorem Placed.avoid {perm : Slots} {g : List ℕ} {s : ℕ}
    (h : ∀ k < g.length, perm[s + k]? = some (some (g.getD k 0))) {e : ℕ}
    (he : perm[e]? = some none) : e < s ∨ s + g.length ≤ e := by
  by_contra hc
  have h1 : s ≤ e := by omega
  have h2 : e - s < g.length := by omega
  have := h (e - s) h2
  rw [show s + (e - s) = e by omega, he] at this
  simp at this

/-- moving a free slot from `cur` to `p ≤ cur`, the slot before `p` being free -/
theorem Placed.moveRight {perm : Slots} {g : List ℕ} (hg : Placed perm g) {cur p : ℕ}
    (hpc : p ≤ cur) (hp0 : 0 < p) (hcur : perm[cur]? = some none)
    (hprev : perm[p - 1]? = some none) : Placed (moveNone perm cur p) g := by
  obtain ⟨s, hs⟩ := hg
  have hc : cur < perm.length := (List.getElem?_eq_some_iff.1 hcur).1
  by_cases h0 : g.length = 0
  · exact ⟨0, fun k hk => by omega⟩
  have a1 := Placed.avoid hs hcur
  have a2 := Placed.avoid hs hprev
  by_cases c1 : s + g.length ≤ p - 1
  · refine ⟨s, fun k hk => ?_⟩
    rw [moveNone_getElem? perm cur p _ hc (by omega), if_pos (by omega), if_pos (by omega)]
    exact hs k hk
  · by_cases c2 : s + g.length ≤ cur
    · refine ⟨s + 1, fun k hk => ?_⟩
      rw [moveNone_getElem? perm cur p _ hc (by omega), if_neg (by omega), if_neg (by omega),
        if_pos (by omega)]
      rw [show s + 1 + k - 1 = s + k by omega]
      exact hs k hk
    · refine ⟨s, fun k hk => ?_⟩
      rw [moveNone_getElem? perm cur p _ hc (by omega), if_neg (by omega), if_neg (by omega),
        if_neg (by omega)]
      exact hs k hk

/-- moving a free slot from `cur` to `p ≥ cur`, the slot after `p` being free -/
theorem Placed.moveLeft {perm : Slots} {g : List ℕ} (hg : Placed perm g) {cur p : ℕ}
    (hpc : cur ≤ p) (hcur : perm[cur]? = some none)
    (hnext : perm[p + 1]? = some none) : Placed (moveNone perm cur p) g := by
  obtain ⟨s, hs⟩ := hg
  have hc : cur < perm.length := (List.getElem?_eq_some_iff.1 hcur).1
  have hpl : p + 1 < perm.length := (List.getElem?_eq_some_iff.1 hnext).1
  by_cases h0 : g.length = 0
  · exact ⟨0, fun k hk => by omega⟩
  have a1 := Placed.avoid hs hcur
  have a2 := Placed.avoid hs hnext
  by_cases c1 : s + g.length ≤ cur
  · refine ⟨s, fun k hk => ?_⟩
    rw [moveNone_getElem? perm cur p _ hc (by omega), if_pos (by omega), if_pos (by omega)]
    exact hs k hk
  · by_cases c2 : s + g.length ≤ p + 1
    · refine ⟨s - 1, fun k hk => ?_⟩
      rw [moveNone_getElem? perm cur p _ hc (by omega), if_pos (by omega), if_neg (by omega)]
      rw [show s - 1 + k + 1 = s + k by omega]
      exact hs k hk
    · refine ⟨s, fun k hk => ?_⟩
      rw [moveNone_getElem? perm cur p _ hc (by omega), if_neg (by omega), if_neg (by omega),
        if_neg (by omega)]
      exact hs k hk

/-! ### the loop of `_update_perm` -/

/-- what holds at the head of every iteration (`m = len(perm)`, `C` free slots in all,
`placed`: the groups written so far) -/
structure LInv (m C : ℕ) (placed : List (List ℕ)) (st : LoopSt) : Prop where
  len : st.perm.length = m
  nEq : st.n + st.smin = st.smax
  win : st.smin < st.smax
  fit : st.smax ≤ m
  jl1 : 1 ≤ st.jl
  free : ∀ i, st.smin ≤ i → i < st.smax → st.perm[i]? = some none
  right : ∀ i, st.smax ≤ i → i < st.smax + st.jr → st.perm[i]? ≠ some none
  left : ∀ i, i < st.smin → st.smin < i + st.jl → st.perm[i]? ≠ some none
  cnt : st.perm.count none = C
  blocks : ∀ g ∈ placed, Placed st.perm g

theorem rightHalf_inv {m C : ℕ} {placed : List (List ℕ)} {st : LoopSt} (h : LInv m C placed st) :
    LInv m C placed (rightHalf st) ∧
      (rightHalf st).smax + (rightHalf st).jr = st.smax + st.jr + 1 ∧
      (rightHalf st).smin = st.smin ∧ (rightHalf st).jl = st.jl ∧
      ((rightHalf st).n = st.n ∨ (rightHalf st).n = st.n + 1) := by
  unfold rightHalf
  simp only
  split
  · rename_i hc
    obtain ⟨hlt, hcur⟩ := hc
    have hlen := h.len
    have hw := h.win
    have hp : st.smax < st.perm.length := by omega
    refine ⟨⟨?_, ?_, ?_, ?_, h.jl1, ?_, ?_, ?_, ?_, ?_⟩, ?_, rfl, rfl, Or.inr rfl⟩
    · simp only; rw [moveNone_length _ _ _ hlt hp]; exact hlen
    · simp only; have := h.nEq; omega
    · simp only; omega
    · simp only; omega
    · intro i h1 h2
      simp only at h1 h2 ⊢
      rw [moveNone_getElem? _ _ _ _ hlt hp]
      by_cases c : i < st.smax
      · rw [if_pos c, if_pos (by omega)]; exact h.free i h1 c
      · rw [if_neg c, if_pos (by omega)]
    · intro i h1 h2
      simp only at h1 h2 ⊢
      rw [moveNone_getElem? _ _ _ _ hlt hp, if_neg (by omega), if_neg (by omega), if_pos (by omega)]
      exact h.right (i - 1) (by omega) (by omega)
    · intro i h1 h2
      simp only at h1 h2 ⊢
      rw [moveNone_getElem? _ _ _ _ hlt hp, if_pos (by omega), if_pos (by omega)]
      exact h.left i h1 h2
    · simp only; rw [moveNone_count _ _ _ hcur hp]; exact h.cnt
    · intro g hg
      simp only
      exact (h.blocks g hg).moveRight (by omega) (by omega) hcur
        (h.free (st.smax - 1) (by omega) (by omega))
    · simp only; omega
  · rename_i hc
    refine ⟨⟨h.len, h.nEq, h.win, h.fit, h.jl1, h.free, ?_, h.left, h.cnt, h.blocks⟩, ?_, rfl, rfl,
      Or.inl rfl⟩
    · intro i h1 h2
      simp only at h1 h2 ⊢
      by_cases c : i < st.smax + st.jr
      · exact h.right i h1 c
      · have e : i = st.smax + st.jr := by omega
        subst e
        intro hx
        exact hc ⟨(List.getElem?_eq_some_iff.1 hx).1, hx⟩
    · simp only; omega

theorem leftHalf_inv {m C : ℕ} {placed : List (List ℕ)} {st : LoopSt} (h : LInv m C placed st) :
    LInv m C placed (leftHalf st) ∧
      (leftHalf st).jl + st.smin = st.jl + (leftHalf st).smin + 1 ∧
      (leftHalf st).smax = st.smax ∧ (leftHalf st).jr = st.jr ∧
      ((leftHalf st).n = st.n ∨ (leftHalf st).n = st.n + 1) := by
  unfold leftHalf
  split
  · rename_i hc
    obtain ⟨hle, hcur⟩ := hc
    have hlen := h.len
    have hw := h.win
    have hj := h.jl1
    have hf := h.fit
    have hlt : st.smin - st.jl < st.perm.length := (List.getElem?_eq_some_iff.1 hcur).1
    have hp : st.smin - 1 < st.perm.length := by omega
    refine ⟨⟨?_, ?_, ?_, ?_, h.jl1, ?_, ?_, ?_, ?_, ?_⟩, ?_, rfl, rfl, Or.inr rfl⟩
    · simp only; rw [moveNone_length _ _ _ hlt hp]; exact hlen
    · simp only; have := h.nEq; omega
    · simp only; omega
    · simp only; omega
    · intro i h1 h2
      simp only at h1 h2 ⊢
      rw [moveNone_getElem? _ _ _ _ hlt hp]
      by_cases c : i = st.smin - 1
      · rw [if_neg (by omega), if_pos c]
      · rw [if_neg (by omega), if_neg c, if_neg (by omega)]
        exact h.free i (by omega) h2
    · intro i h1 h2
      simp only at h1 h2 ⊢
      rw [moveNone_getElem? _ _ _ _ hlt hp, if_neg (by omega), if_neg (by omega), if_neg (by omega)]
      exact h.right i h1 h2
    · intro i h1 h2
      simp only at h1 h2 ⊢
      rw [moveNone_getElem? _ _ _ _ hlt hp, if_pos (by omega)]
      by_cases c : i < st.smin - st.jl
      · rw [if_pos c]; exact h.left i (by omega) (by omega)
      · rw [if_neg c]; exact h.left (i + 1) (by omega) (by omega)
    · simp only; rw [moveNone_count _ _ _ hcur hp]; exact h.cnt
    · intro g hg
      simp only
      refine (h.blocks g hg).moveLeft (by omega) hcur ?_
      rw [show st.smin - 1 + 1 = st.smin by omega]
      exact h.free st.smin (by omega) hw
    · simp only; omega
  · rename_i hc
    refine ⟨⟨h.len, h.nEq, h.win, h.fit, by simp only; omega, h.free, h.right, ?_, h.cnt, h.blocks⟩,
      ?_, rfl, rfl, Or.inl rfl⟩
    · intro i h1 h2
      simp only at h1 h2 ⊢
      by_cases c : st.smin < i + st.jl
      · exact h.left i h1 c
      · have e : i = st.smin - st.jl := by omega
        intro hx
        exact hc ⟨by omega, e ▸ hx⟩
    · simp only; omega

/-- when every slot outside `[a, b)` is filled, at most `b - a` slots are free -/
theorem count_none_le (perm : Slots) (a b : ℕ)
    (hout : ∀ i, (i < a ∨ b ≤ i) → perm[i]? ≠ some none) : perm.count none ≤ b - a := by
  have e : perm = perm.take a ++ ((perm.drop a).take (b - a) ++ (perm.drop a).drop (b - a)) := by
    rw [List.take_append_drop, List.take_append_drop]
  have hc := congrArg (fun l => List.count none l) e
  simp only [List.count_append] at hc
  have z1 : (perm.take a).count none = 0 := by
    rw [List.count_eq_zero]
    intro hm
    obtain ⟨i, hi⟩ := List.mem_iff_getElem?.1 hm
    rw [List.getElem?_take] at hi
    split at hi
    · rename_i hlt
      exact hout i (Or.inl hlt) hi
    · simp at hi
  have z2 : ((perm.drop a).drop (b - a)).count none = 0 := by
    rw [List.count_eq_zero]
    intro hm
    obtain ⟨i, hi⟩ := List.mem_iff_getElem?.1 hm
    rw [List.getElem?_drop, List.getElem?_drop] at hi
    exact hout _ (Or.inr (by omega)) hi
  have z3 : ((perm.drop a).take (b - a)).count none ≤ b - a :=
    Nat.le_trans List.count_le_length (by rw [List.length_take]; exact Nat.min_le_left _ _)
  omega

/-- **the loop of `_update_perm` ends** (within `len(perm) + 1` iterations) whenever at least
`len(modes)` slots are free, with a window of exactly `len(modes)` free slots, every group written
before still a block -/
theorem updLoop_spec {m C k : ℕ} {placed : List (List ℕ)} : ∀ (fuel : ℕ) (st : LoopSt),
    LInv m C placed st → k ≤ C → st.n ≤ k → m + 1 ≤ fuel + st.smax + st.jr →
    st.smin + 2 ≤ fuel + st.jl →
    ∃ st', updLoop k fuel st = some st' ∧ LInv m C placed st' ∧ st'.n = k
  | 0, st, h, hC, hn, f1, f2 => by
    unfold updLoop
    by_cases c : st.n = k
    · exact ⟨st, by rw [if_pos c], h, c⟩
    · exfalso
      have := count_none_le st.perm st.smin st.smax (by
        intro i hi
        rcases hi with hi | hi
        · exact h.left i hi (by omega)
        · by_cases hl : i < st.perm.length
          · exact h.right i hi (by have := h.len; omega)
          · rw [List.getElem?_eq_none (by omega)]; simp)
      have h1 := h.cnt
      have h2 := h.nEq
      omega
  | fuel + 1, st, h, hC, hn, f1, f2 => by
    unfold updLoop
    by_cases c : st.n = k
    · exact ⟨st, by rw [if_pos c], h, c⟩
    · rw [if_neg c]
      simp only
      obtain ⟨r, r1, r2, r3, r4⟩ := rightHalf_inv h
      by_cases c1 : (rightHalf st).n = k
      · exact ⟨rightHalf st, by rw [if_pos c1], r, c1⟩
      · rw [if_neg c1]
        obtain ⟨l, l1, l2, l3, l4⟩ := leftHalf_inv r
        exact updLoop_spec fuel _ l hC (by omega) (by omega) (by omega)

/-! ### `_search_empty_space` -/

theorem emptyWindow_spec {perm : Slots} {s n : ℕ} (h : emptyWindow perm s n = true) :
    ∀ i < n, perm[s + i]? = some none := by
  intro i hi
  unfold emptyWindow at h
  have e := congrArg (fun l => l[i]?) (eq_of_beq h)
  simp only [List.getElem?_take, List.getElem?_drop, if_pos hi, List.getElem?_replicate] at e
  exact e

theorem emptyWindow_one {perm : Slots} {e : ℕ} (h : perm[e]? = some none) :
    emptyWindow perm e 1 = true := by
  unfold emptyWindow
  rw [beq_iff_eq]
  apply List.ext_getElem?
  intro i
  simp only [List.getElem?_take, List.getElem?_drop, List.getElem?_replicate]
  by_cases c : i < 1
  · have : i = 0 := by omega
    subst this
    simpa using h
  · simp [c]

theorem searchAt_spec {perm : Slots} {n init s : ℕ} (h : searchAt perm n init = some s) :
    emptyWindow perm s n = true := by
  unfold searchAt at h
  obtain ⟨i, _, hi⟩ := List.exists_of_findSome?_eq_some h
  split at hi
  · rename_i hc
    simp only [Bool.and_eq_true] at hc
    cases hi
    exact hc.2
  · split at hi
    · rename_i hc
      simp only [Bool.and_eq_true] at hc
      cases hi
      exact hc.2
    · simp at hi

theorem searchAt_one_isSome {perm : Slots} {init e : ℕ} (hi : init < perm.length)
    (he : perm[e]? = some none) : (searchAt perm 1 init).isSome = true := by
  have hel : e < perm.length := (List.getElem?_eq_some_iff.1 he).1
  cases hs : searchAt perm 1 init with
  | some s => rfl
  | none =>
    exfalso
    unfold searchAt at hs
    rw [List.findSome?_eq_none_iff] at hs
    by_cases c : init ≤ e
    · have := hs (e - init) (List.mem_range.2 (by omega))
      rw [if_pos (by
        simp only [Bool.and_eq_true, decide_eq_true_eq]
        refine ⟨by omega, ?_⟩
        rw [show init + (e - init) = e by omega]
        exact emptyWindow_one he)] at this
      simp at this
    · have := hs (init - e) (List.mem_range.2 (by omega))
      have hw : emptyWindow perm (init - (init - e)) 1 = true := by
        rw [show init - (init - e) = e by omega]
        exact emptyWindow_one he
      split at this
      · simp at this
      · rw [if_pos (by simp only [Bool.and_eq_true, decide_eq_true_eq]; exact ⟨by omega, hw⟩)] at this
        simp at this

/-- `_search_empty_space`: a window of `n' ≤ n` free slots; at least one slot whenever one is free -/
theorem searchEmptySpace_spec {perm : Slots} {init e : ℕ} (hi : init < perm.length)
    (he : perm[e]? = some none) : ∀ n, 1 ≤ n →
    (searchEmptySpace perm n init).2 ≤ n ∧ 1 ≤ (searchEmptySpace perm n init).2 ∧
      ∀ i < (searchEmptySpace perm n init).2,
        perm[(searchEmptySpace perm n init).1 + i]? = some none
  | 0, h => by omega
  | n + 1, _ => by
    unfold searchEmptySpace
    cases hs : searchAt perm (n + 1) init with
    | some s =>
      simp only
      exact ⟨Nat.le_refl _, by omega, emptyWindow_spec (searchAt_spec hs)⟩
    | none =>
      simp only
      by_cases c : n = 0
      · subst c
        have := searchAt_one_isSome hi he
        rw [hs] at this
        simp at this
      · obtain ⟨a, b, d⟩ := searchEmptySpace_spec hi he n (by omega)
        exact ⟨by omega, b, d⟩

/-! ### `_update_perm` -/

theorem write_getElem? (p : Slots) (a : ℕ) (w : Slots) (i : ℕ) (h : a + w.length ≤ p.length) :
    (p.take a ++ w ++ p.drop (a + w.length))[i]? =
      if i < a then p[i]? else if i < a + w.length then w[i - a]? else p[i]? := by
  have hl : (p.take a).length = a := by rw [List.length_take]; omega
  rw [List.append_assoc, List.getElem?_append, hl]
  split
  · rw [List.getElem?_take, if_pos ‹_›]
  · rw [List.getElem?_append]
    split
    · rw [if_pos (by omega)]
    · rw [if_neg (by omega), List.getElem?_drop]
      congr 1
      omega

theorem window_eq_replicate (p : Slots) (a k : ℕ) (h : ∀ i < k, p[a + i]? = some none) :
    (p.drop a).take k = List.replicate k none := by
  apply List.ext_getElem?
  intro i
  simp only [List.getElem?_take, List.getElem?_drop, List.getElem?_replicate]
  split
  · exact h i ‹_›
  · rfl

theorem write_count (p : Slots) (a : ℕ) (modes : List ℕ)
    (h : ∀ i < modes.length, p[a + i]? = some none) :
    (p.take a ++ modes.map some ++ p.drop (a + modes.length)).count none + modes.length =
      p.count none := by
  have e : p = p.take a ++ ((p.drop a).take modes.length ++ (p.drop a).drop modes.length) := by
    rw [List.take_append_drop, List.take_append_drop]
  have hc := congrArg (fun l => List.count none l) e
  rw [window_eq_replicate p a modes.length h, List.drop_drop] at hc
  simp only [List.count_append, List.count_replicate_self] at hc
  have z : (modes.map some).count (none : Option ℕ) = 0 := by
    rw [List.count_eq_zero]; simp
  simp only [List.count_append, z]
  omega

/-- **`_update_perm`** on a list with at least `len(modes)` free slots: it returns, the modes are
written as one block, every block written before is still a block, `len(modes)` slots fewer are free -/
theorem updatePerm_spec {m C : ℕ} {placed : List (List ℕ)} {perm : Slots} {init : ℕ}
    {modes : List ℕ} (hlen : perm.length = m) (hcnt : perm.count none = C)
    (hbl : ∀ g ∈ placed, Placed perm g) (hinit : init < m) (hk1 : 1 ≤ modes.length)
    (hkC : modes.length ≤ C) :
    ∃ p', updatePerm perm init modes = some p' ∧ p'.length = m ∧
      p'.count none + modes.length = C ∧ ∀ g ∈ modes :: placed, Placed p' g := by
  have hex : ∃ e : ℕ, perm[e]? = some none := by
    have : (none : Option ℕ) ∈ perm := by
      rw [← List.count_pos_iff]; omega
    exact List.mem_iff_getElem?.1 this
  obtain ⟨e, he⟩ := hex
  obtain ⟨s1, s2, s3⟩ := searchEmptySpace_spec (by omega : init < perm.length) he modes.length hk1
  unfold updatePerm
  simp only
  generalize searchEmptySpace perm modes.length init = sn at s1 s2 s3
  have hfit : sn.1 + sn.2 ≤ m := by
    have := (List.getElem?_eq_some_iff.1 (s3 (sn.2 - 1) (by omega))).1
    omega
  have inv0 : LInv m C placed ⟨perm, sn.1, sn.1 + sn.2, sn.2, 0, 1⟩ :=
    { len := hlen, nEq := by simp only; omega, win := by simp only; omega, fit := hfit,
      jl1 := Nat.le_refl _,
      free := by
        intro i h1 h2
        simp only at h1 h2 ⊢
        have := s3 (i - sn.1) (by omega)
        rwa [show sn.1 + (i - sn.1) = i by omega] at this
      right := by intro i h1 h2; simp only at h1 h2; omega
      left := by intro i h1 h2; simp only at h1 h2; omega
      cnt := hcnt, blocks := hbl }
  obtain ⟨st, hst, inv, hn⟩ := updLoop_spec (k := modes.length) (m + 1) _ inv0 hkC s1
    (by simp only; omega) (by simp only; omega)
  rw [hlen, hst]
  simp only
  have hmax : st.smax = st.smin + modes.length := by have := inv.nEq; omega
  have hfit2 := inv.fit
  have hl := inv.len
  have hfree : ∀ i < modes.length, st.perm[st.smin + i]? = some none :=
    fun i hi => inv.free _ (by omega) (by omega)
  rw [hmax]
  have hw : st.smin + (modes.map some).length ≤ st.perm.length := by
    rw [List.length_map]; omega
  have hml : (modes.map some).length = modes.length := List.length_map _
  refine ⟨_, rfl, ?_, ?_, ?_⟩
  · simp only [List.length_append, List.length_take, List.length_drop, List.length_map]
    omega
  · rw [write_count st.perm st.smin modes hfree]; exact inv.cnt
  · intro g hg
    rcases List.mem_cons.1 hg with hgm | hg
    · rw [hgm]
      refine ⟨st.smin, fun k hk => ?_⟩
      have := write_getElem? st.perm st.smin (modes.map some) (st.smin + k) hw
      rw [hml] at this
      rw [this, if_neg (by omega), if_pos (by omega), show st.smin + k - st.smin = k by omega,
        List.getElem?_map, List.getD_eq_getElem?_getD, List.getElem?_eq_getElem hk]
      rfl
    · obtain ⟨s, hs⟩ := inv.blocks g hg
      by_cases h0 : g.length = 0
      · exact ⟨0, fun k hk => by omega⟩
      have a1 := Placed.avoid hs (hfree 0 (by omega))
      have a2 := Placed.avoid hs (hfree (modes.length - 1) (by omega))
      have side : s + g.length ≤ st.smin ∨ st.smin + modes.length ≤ s := by
        by_contra hc
        have hin : st.smin < s + g.length ∧ s < st.smin + modes.length := by omega
        -- the block would contain a slot of the window
        by_cases c : st.smin ≤ s
        · have := Placed.avoid hs (hfree (s - st.smin) (by omega))
          omega
        · have := Placed.avoid hs (hfree 0 (by omega))
          omega
      refine ⟨s, fun k hk => ?_⟩
      have := write_getElem? st.perm st.smin (modes.map some) (s + k) hw
      rw [hml] at this
      rw [this]
      rcases side with sd | sd
      · rw [if_pos (by omega)]; exact hs k hk
      · rw [if_neg (by omega), if_neg (by omega)]; exact hs k hk

/-! ### `_generate_compatible_perm` -/

theorem foldl_min_mem : ∀ (xs : List ℕ) (x : ℕ), xs.foldl min x ∈ x :: xs
  | [], x => by simp
  | y :: ys, x => by
    simp only [List.foldl_cons]
    have := foldl_min_mem ys (min x y)
    rcases List.mem_cons.1 this with h | h
    · rw [h]
      rcases Nat.le_total x y with c | c
      · rw [Nat.min_eq_left c]; simp
      · rw [Nat.min_eq_right c]; simp
    · simp [h]

theorem outMin_lt {m : ℕ} {permList : List ℕ} (hm : 0 < m) (hpl : ∀ x ∈ permList, x < m)
    (modes : List ℕ) : outMin permList modes < m := by
  unfold outMin
  cases ho : outOf permList modes with
  | nil => exact hm
  | cons y ys =>
    simp only [listMin]
    have hmem := foldl_min_mem ys y
    rw [← ho] at hmem
    unfold outOf at hmem
    obtain ⟨x, _, hx⟩ := List.mem_map.1 hmem
    rw [← hx, List.getD_eq_getElem?_getD]
    cases hg : permList[x]? with
    | none => exact hm
    | some v => exact hpl v (List.mem_of_getElem? hg)

/-- placing a list of groups one after the other: every one ends up as a block -/
theorem placeAll_spec {m : ℕ} {permList : List ℕ} (hm : 0 < m) (hpl : ∀ x ∈ permList, x < m) :
    ∀ (groups : List (List ℕ)) (perm : Slots) (C : ℕ) (placed : List (List ℕ)),
    perm.length = m → perm.count none = C → (∀ g ∈ placed, Placed perm g) →
    (∀ g ∈ groups, 1 ≤ g.length) → groups.flatten.length ≤ C →
    ∃ p', placeAll permList perm groups = some p' ∧ p'.length = m ∧
      p'.count none + groups.flatten.length = C ∧ ∀ g, (g ∈ groups ∨ g ∈ placed) → Placed p' g
  | [], perm, C, placed, hl, hc, hb, _, _ => by
    refine ⟨perm, rfl, hl, by simpa using hc, ?_⟩
    intro g hg
    rcases hg with hg | hg
    · simp at hg
    · exact hb g hg
  | g0 :: rest, perm, C, placed, hl, hc, hb, hne, hsum => by
    simp only [List.flatten_cons, List.length_append] at hsum ⊢
    obtain ⟨p1, e1, l1, c1, b1⟩ := updatePerm_spec (init := outMin permList g0) (modes := g0) hl hc hb
      (outMin_lt hm hpl g0) (hne g0 (by simp)) (by omega)
    obtain ⟨p2, e2, l2, c2, b2⟩ := placeAll_spec hm hpl rest p1 (C - g0.length) (g0 :: placed) l1
      (by omega) b1 (fun g hg => hne g (by simp [hg])) (by omega)
    refine ⟨p2, ?_, l2, by omega, ?_⟩
    · unfold placeAll at e2 ⊢
      simp only [List.foldlM_cons, e1]
      exact e2
    · intro g hg
      apply b2
      rcases hg with hg | hg
      · rcases List.mem_cons.1 hg with h | h
        · right; rw [h]; simp
        · left; exact h
      · right; simp [hg]

theorem insertByKey_perm (key : List ℕ → ℕ) (x : List ℕ) :
    ∀ l : List (List ℕ), (insertByKey key x l).Perm (x :: l)
  | [] => List.Perm.refl _
  | y :: ys => by
    unfold insertByKey
    split
    · exact List.Perm.refl _
    · exact ((insertByKey_perm key x ys).cons y).trans (List.Perm.swap x y ys)

theorem sortByKey_perm (key : List ℕ → ℕ) : ∀ l : List (List ℕ), (sortByKey key l).Perm l
  | [] => List.Perm.refl _
  | x :: xs => by
    unfold sortByKey
    rw [List.foldr_cons]
    exact (insertByKey_perm key x _).trans ((sortByKey_perm key xs).cons x)

/-- the work lists hold exactly the groups -/
theorem workLists_perm {permList : List ℕ} {adj : List (List ℕ)} (hne : ∀ g ∈ adj, 1 ≤ g.length) :
    ∃ multi third, workLists permList adj = some (multi, third) ∧ (multi ++ third).Perm adj := by
  unfold workLists
  have hany : adj.any (·.isEmpty) = false := by
    rw [List.any_eq_false]
    intro g hg
    have := hne g hg
    cases g with
    | nil => simp at this
    | cons a b => simp
  rw [hany]
  simp only [Bool.false_eq_true, if_false]
  refine ⟨_, _, rfl, ?_⟩
  have hthird : ((adj.filter fun g => !(decide (g.length > 1))).map fun g => [g.headD 0]) =
      adj.filter fun g => !(decide (g.length > 1)) := by
    conv_rhs => rw [← List.map_id (adj.filter fun g => !(decide (g.length > 1)))]
    apply List.map_congr_left
    intro g hg
    obtain ⟨hg1, hg2⟩ := List.mem_filter.1 hg
    have h1 := hne g hg1
    simp only [Bool.not_eq_true', decide_eq_false_iff_not] at hg2
    match g, h1, hg2 with
    | [a], _, _ => rfl
    | _ :: _ :: _, _, h2 => simp at h2
  rw [hthird]
  have p1 := ((sortByKey_perm (outMin permList) _).append (sortByKey_perm (outMin permList) _)).trans
    ((List.perm_append_comm).trans
      (List.filter_append_perm (fun g => keptAdjacent permList g) (adj.filter fun g => g.length > 1)))
  have p2 : ((sortByKey (outMin permList)
      (adj.filter fun g => !(decide (g.length > 1)))).reverse).Perm
      (adj.filter fun g => !(decide (g.length > 1))) :=
    (List.reverse_perm _).trans (sortByKey_perm _ _)
  exact (p1.append p2).trans (List.filter_append_perm (fun g => decide (g.length > 1)) adj)

/-- **`_generate_compatible_perm`**: for groups that are non-empty and hold `m` modes in all (as the
groups of dependent modes do), and a `perm_list` of `m` entries below `m`, the function returns a list
of `m` modes in which every group is written into consecutive slots -/
theorem genCompatiblePerm_spec {m : ℕ} {permList : List ℕ} {adj : List (List ℕ)} (hm : 0 < m)
    (hlen : permList.length = m) (hpl : ∀ x ∈ permList, x < m)
    (hne : ∀ g ∈ adj, 1 ≤ g.length) (htot : adj.flatten.length = m) :
    ∃ ρ, genCompatiblePerm permList adj = some ρ ∧ ρ.length = m ∧
      ∀ g ∈ adj, ∃ s, s + g.length ≤ m ∧ ∀ k < g.length, ρ.getD (s + k) 0 = g.getD k 0 := by
  obtain ⟨multi, third, hwl, hperm⟩ := workLists_perm (permList := permList) hne
  have hmem : ∀ g, g ∈ adj ↔ (g ∈ multi ∨ g ∈ third) := fun g => by
    rw [← hperm.mem_iff, List.mem_append]
  have htl : multi.flatten.length + third.flatten.length = m := by
    have := hperm.flatten.length_eq
    rw [List.flatten_append, List.length_append] at this
    omega
  have hne1 : ∀ g ∈ multi, 1 ≤ g.length := fun g hg => hne g ((hmem g).2 (Or.inl hg))
  have hne2 : ∀ g ∈ third, 1 ≤ g.length := fun g hg => hne g ((hmem g).2 (Or.inr hg))
  obtain ⟨rev, e1, l1, c1, b1⟩ := placeAll_spec hm hpl multi (List.replicate m none) m []
    (List.length_replicate ..) List.count_replicate_self (by simp) hne1 (by omega)
  -- both orders of the one-mode groups fill the list
  have fill : ∀ (t : List (List ℕ)), t.Perm third →
      ∃ f, placeAll permList rev t = some f ∧ f.length = m ∧ f.count none = 0 ∧
        ∀ g ∈ adj, Placed f g := by
    intro t ht
    have hfl : t.flatten.length = third.flatten.length := ht.flatten.length_eq
    obtain ⟨f, e2, l2, c2, b2⟩ := placeAll_spec hm hpl t rev (m - multi.flatten.length) multi l1
      (by omega) (fun g hg => b1 g (Or.inl hg)) (fun g hg => hne2 g (ht.mem_iff.1 hg)) (by omega)
    refine ⟨f, e2, l2, by omega, ?_⟩
    intro g hg
    rcases (hmem g).1 hg with h | h
    · exact b2 g (Or.inr h)
    · exact b2 g (Or.inl (ht.mem_iff.2 h))
  have hfin : ∃ f, (match placeAll permList rev third with
      | none => none
      | some rev2 =>
        let fin : Option Slots :=
          if rev2 == (List.range m).map some then placeAll permList rev third.reverse
          else some rev2
        match fin with
        | none => none
        | some f => if f.all Option.isSome then some (f.map fun x => x.getD 0) else none) =
        some (f.map fun x => x.getD 0) ∧ f.length = m ∧ f.count none = 0 ∧
        ∀ g ∈ adj, Placed f g := by
    obtain ⟨f2, e2, l2, c2, b2⟩ := fill third (List.Perm.refl _)
    obtain ⟨f3, e3, l3, c3, b3⟩ := fill third.reverse (List.reverse_perm _)
    have hall : ∀ f : Slots, f.count none = 0 → f.all Option.isSome = true := by
      intro f hf
      rw [List.count_eq_zero] at hf
      rw [List.all_eq_true]
      intro x hx
      cases x with
      | none => exact absurd hx hf
      | some v => rfl
    rw [e2]
    simp only
    by_cases c : (f2 == (List.range m).map some) = true
    · rw [if_pos c, e3]
      simp only
      rw [if_pos (hall f3 c3)]
      exact ⟨f3, rfl, l3, c3, b3⟩
    · rw [if_neg c]
      simp only
      rw [if_pos (hall f2 c2)]
      exact ⟨f2, rfl, l2, c2, b2⟩
  obtain ⟨f, ef, lf, cf, bf⟩ := hfin
  refine ⟨f.map fun x => x.getD 0, ?_, by rw [List.length_map]; exact lf, ?_⟩
  · unfold genCompatiblePerm
    rw [hwl]
    simp only
    rw [hlen, e1]
    exact ef
  · intro g hg
    obtain ⟨s, hs⟩ := bf g hg
    have h1 := hne g hg
    refine ⟨s, ?_, fun k hk => ?_⟩
    · have := (List.getElem?_eq_some_iff.1 (hs (g.length - 1) (by omega))).1
      omega
    · rw [List.getD_eq_getElem?_getD, List.getElem?_map, hs k hk]
      rfl

/-! ### the exact groups of dependent modes -/

theorem le_foldl_max : ∀ (g : List ℕ) (a : ℕ), a ≤ g.foldl max a ∧ ∀ x ∈ g, x ≤ g.foldl max a
  | [], a => ⟨Nat.le_refl _, by simp⟩
  | y :: ys, a => by
    simp only [List.foldl_cons]
    obtain ⟨h1, h2⟩ := le_foldl_max ys (max a y)
    refine ⟨Nat.le_trans (Nat.le_max_left a y) h1, ?_⟩
    intro x hx
    rcases List.mem_cons.1 hx with h | h
    · rw [h]; exact Nat.le_trans (Nat.le_max_right a y) h1
    · exact h2 x h

theorem mem_normGroup {g : List ℕ} {x : ℕ} : x ∈ normGroup g ↔ x ∈ g := by
  unfold normGroup
  simp only [List.mem_filter, List.mem_range, List.contains_iff_mem]
  constructor
  · exact fun h => h.2
  · intro h
    exact ⟨Nat.lt_succ_of_le ((le_foldl_max g 0).2 x h), h⟩

theorem normGroup_sorted (g : List ℕ) : (normGroup g).Pairwise (· < ·) :=
  List.Pairwise.filter _ List.pairwise_lt_range

theorem normGroup_nodup (g : List ℕ) : (normGroup g).Nodup :=
  (normGroup_sorted g).imp (fun h => Nat.ne_of_lt h)

/-- all modes of the groups, each group sorted -/
def modesOf (adj : List (List ℕ)) : List ℕ := (adj.map normGroup).flatten

theorem mem_modesOf {adj : List (List ℕ)} {x : ℕ} : x ∈ modesOf adj ↔ ∃ g ∈ adj, x ∈ g := by
  unfold modesOf
  simp only [List.mem_flatten, List.mem_map]
  constructor
  · rintro ⟨l, ⟨g, hg, rfl⟩, hx⟩
    exact ⟨g, hg, mem_normGroup.1 hx⟩
  · rintro ⟨g, hg, hx⟩
    exact ⟨normGroup g, ⟨g, hg, rfl⟩, mem_normGroup.2 hx⟩

theorem modesOf_perm {a b : List (List ℕ)} (h : a.Perm b) : (modesOf a).Perm (modesOf b) :=
  (h.map normGroup).flatten

theorem updateAdjacent_perm (adj : List (List ℕ)) (r0 w : ℕ) :
    (updateAdjacent true adj r0 w).Perm
      (mergedR adj r0 w :: adj.filter (fun g => !touchesR r0 w g)) := by
  rw [updateAdjacent_fixed_eq]
  split
  · rename_i hnone
    have hall : adj.filter (fun g => !touchesR r0 w g) = adj := by
      rw [List.filter_eq_self]
      intro g hg
      have := List.findIdx?_eq_none_iff.1 hnone g hg
      simp [this]
    rw [hall]
    exact List.perm_append_comm
  · rename_i i _
    have e : adj.filter (fun g => !touchesR r0 w g) =
        (adj.take i).filter (fun g => !touchesR r0 w g) ++
          (adj.drop i).filter (fun g => !touchesR r0 w g) := by
      rw [← List.filter_append, List.take_append_drop]
    rw [e, List.append_assoc]
    exact List.perm_middle

/-- the repaired `_update_adjacent` keeps the groups a partition of the modes -/
theorem updateAdjacent_partition {m : ℕ} (adj : List (List ℕ)) (r0 w : ℕ) (hw : 0 < w)
    (hfit : r0 + w ≤ m) (hp : (modesOf adj).Perm (List.range m)) (hne : ∀ g ∈ adj, g ≠ []) :
    (modesOf (updateAdjacent true adj r0 w)).Perm (List.range m) ∧
      ∀ g ∈ updateAdjacent true adj r0 w, g ≠ [] := by
  have hsplit : (modesOf adj).Perm (modesOf (adj.filter (touchesR r0 w)) ++
      modesOf (adj.filter (fun g => !touchesR r0 w g))) := by
    have := modesOf_perm (List.filter_append_perm (touchesR r0 w) adj)
    unfold modesOf at this ⊢
    rw [List.map_append, List.flatten_append] at this
    exact this.symm
  have hnd : (modesOf (adj.filter (touchesR r0 w)) ++
      modesOf (adj.filter (fun g => !touchesR r0 w g))).Nodup :=
    (hsplit.symm.trans hp).nodup_iff.2 List.nodup_range
  have hmerged : (normGroup (mergedR adj r0 w)).Perm (modesOf (adj.filter (touchesR r0 w))) := by
    rw [List.perm_ext_iff_of_nodup (normGroup_nodup _) (List.nodup_append.1 hnd).1]
    intro x
    rw [mem_normGroup, mem_modesOf]
    unfold mergedR
    rw [List.mem_append, List.mem_flatten, List.mem_range'_1]
    constructor
    · rintro (⟨g, hg, hx⟩ | ⟨h1, h2⟩)
      · exact ⟨g, hg, hx⟩
      · have hxm : x ∈ modesOf adj := hp.mem_iff.2 (List.mem_range.2 (by omega))
        obtain ⟨g, hg, hx⟩ := mem_modesOf.1 hxm
        refine ⟨g, List.mem_filter.2 ⟨hg, ?_⟩, hx⟩
        unfold touchesR
        rw [List.any_eq_true]
        exact ⟨x, hx, by simp [h1, h2]⟩
    · rintro ⟨g, hg, hx⟩
      exact Or.inl ⟨g, hg, hx⟩
  constructor
  · refine (modesOf_perm (updateAdjacent_perm adj r0 w)).trans ?_
    have : modesOf (mergedR adj r0 w :: adj.filter (fun g => !touchesR r0 w g)) =
        normGroup (mergedR adj r0 w) ++ modesOf (adj.filter (fun g => !touchesR r0 w g)) := by
      simp [modesOf]
    rw [this]
    exact ((hmerged.append_right _).trans hsplit.symm).trans hp
  · intro g hg
    rcases List.mem_cons.1 ((updateAdjacent_perm adj r0 w).mem_iff.1 hg) with h | h
    · rw [h]
      unfold mergedR
      intro hnil
      have : r0 ∈ (adj.filter (touchesR r0 w)).flatten ++ List.range' r0 w :=
        List.mem_append_right _ (List.mem_range'_1.2 ⟨Nat.le_refl _, by omega⟩)
      rw [hnil] at this
      simp at this
    · exact hne g (List.mem_filter.1 h).1

theorem adjOf_partition (m : ℕ) : ∀ (inComps : List (Item P)) (adj : List (List ℕ)),
    (∀ it ∈ inComps, 0 < it.w ∧ it.r0 + it.w ≤ m) → (modesOf adj).Perm (List.range m) →
    (∀ g ∈ adj, g ≠ []) →
    (modesOf (inComps.foldl (fun a it => updateAdjacent true a it.r0 it.w) adj)).Perm (List.range m) ∧
      ∀ g ∈ inComps.foldl (fun a it => updateAdjacent true a it.r0 it.w) adj, g ≠ []
  | [], adj, _, hp, hne => ⟨hp, hne⟩
  | it :: rest, adj, hw, hp, hne => by
    simp only [List.foldl_cons]
    obtain ⟨h1, h2⟩ := updateAdjacent_partition adj it.r0 it.w (hw it (by simp)).1
      (hw it (by simp)).2 hp hne
    exact adjOf_partition m rest _ (fun x hx => hw x (by simp [hx])) h1 h2

theorem modesOf_init (m : ℕ) : modesOf ((List.range m).map fun j => [j]) = List.range m := by
  unfold modesOf
  rw [List.map_map]
  have : (normGroup ∘ fun j => [j]) = fun j => [j] := by
    funext j
    simp only [Function.comp]
    unfold normGroup
    simp only [List.foldl_cons, List.foldl_nil, Nat.zero_max]
    rw [List.range_succ, List.filter_append]
    have : (List.range j).filter (fun x => [j].contains x) = [] := by
      rw [List.filter_eq_nil_iff]
      intro x hx
      have := List.mem_range.1 hx
      simp; omega
    rw [this]
    simp
  rw [this]
  induction m with
  | zero => rfl
  | succ n ih => rw [List.range_succ, List.map_append, List.flatten_append, ih]; simp

/-- the groups handed to the heuristic: non-empty, and `m` modes in all -/
theorem adjExact_spec (m : ℕ) (inComps : List (Item P))
    (hw : ∀ it ∈ inComps, 0 < it.w ∧ it.r0 + it.w ≤ m) :
    (adjExact m inComps) = (adjOf true m inComps).map normGroup ∧
      (adjExact m inComps).flatten.Perm (List.range m) ∧ ∀ g ∈ adjExact m inComps, 1 ≤ g.length := by
  obtain ⟨h1, h2⟩ := adjOf_partition m inComps ((List.range m).map fun j => [j]) hw
    (by rw [modesOf_init]) (by simp)
  refine ⟨rfl, h1, ?_⟩
  intro g hg
  unfold adjExact at hg
  obtain ⟨g0, hg0, rfl⟩ := List.mem_map.1 hg
  have hne := h2 g0 hg0
  cases g0 with
  | nil => exact absurd rfl hne
  | cons a b =>
    have : a ∈ normGroup (a :: b) := mem_normGroup.2 (by simp)
    exact List.length_pos_of_mem this

/-- **the heuristic's `left_right_perm` is a permutation of the modes in which every group of
dependent modes is a sorted block** -/
theorem heur_blocks {m : ℕ} (hm : 0 < m) {permList : List ℕ} (hpl : IsPermList m permList)
    (inComps : List (Item P)) (hw : ∀ it ∈ inComps, 0 < it.w ∧ it.r0 + it.w ≤ m) :
    ∃ ρ, genCompatiblePerm permList (adjExact m inComps) = some ρ ∧ IsPermList m ρ ∧
      ∀ g ∈ adjOf true m inComps, BlockPlaced ρ g := by
  obtain ⟨he, hperm, hne⟩ := adjExact_spec m inComps hw
  obtain ⟨ρ, hρ, hlen, hb⟩ := genCompatiblePerm_spec hm hpl.1 hpl.2.2 hne
    (by rw [hperm.length_eq, List.length_range])
  refine ⟨ρ, hρ, ?_, ?_⟩
  · apply isPerm_spec hlen
    simp only [isPerm, List.all_eq_true, List.mem_range, List.contains_iff_mem, hlen]
    intro j hj
    have : j ∈ (adjExact m inComps).flatten := hperm.mem_iff.2 (List.mem_range.2 hj)
    obtain ⟨blk, hblk, hjb⟩ := List.mem_flatten.1 this
    obtain ⟨s, hs, hk⟩ := hb blk hblk
    have hi := List.idxOf_lt_length_of_mem hjb
    have := hk _ hi
    rw [getD_idxOf hjb] at this
    rw [← this, getD_eq_getElem' _ _ _ (by omega)]
    exact List.getElem_mem _
  · intro g hg
    have hblk : normGroup g ∈ adjExact m inComps := by rw [he]; exact List.mem_map_of_mem hg
    obtain ⟨s, hs, hk⟩ := hb _ hblk
    exact ⟨s, normGroup g, normGroup_sorted g, fun x hx => mem_normGroup.2 hx, by omega, hk⟩

/-! ### every component keeps a positive width -/

/-- every component has at least one mode -/
def Pos (l : List (Item P)) : Prop := ∀ x ∈ l, 0 < x.w

theorem pushPerm_pos (l : List (Item P)) (rp : ℕ × List ℕ) (h : Pos l) : Pos (pushPerm l rp) := by
  unfold pushPerm
  split
  · exact h
  · rename_i hne
    intro x hx
    rcases List.mem_append.1 hx with h1 | h1
    · exact h x h1
    · simp only [List.mem_singleton] at h1
      subst h1
      simp only
      cases hr : rp.2 with
      | nil => simp [hr] at hne
      | cons a b => simp

theorem psWalk_pos [PhaseAlg P] (m : ℕ) (display wantDrop : Bool) (φ : P) :
    (rev : List (Item P)) → (r0 : ℕ) → (l : List (Item P)) → Pos rev →
    psWalk m display wantDrop φ r0 rev = some l → Pos l
  | [], _, _, _, h => by simp [psWalk] at h
  | it :: rest, r0, l, hw, h => by
    have hwit := hw it (by simp)
    have hwrest : Pos rest := fun x hx => hw x (by simp [hx])
    have step : ∀ (r0' : ℕ) (l' : List (Item P)),
        psWalk m display wantDrop φ r0' rest = some l' → Pos (it :: l') := by
      intro r0' l' hl' x hx
      rcases List.mem_cons.1 hx with hx | hx
      · rw [hx]; exact hwit
      · exact psWalk_pos m display wantDrop φ rest r0' l' hwrest hl' x hx
    unfold psWalk at h
    cases hk : it.k with
    | ps ψ =>
      simp only [hk] at h
      by_cases c : r0 = it.r0
      · rw [if_pos c] at h
        have hl := Option.some.inj h
        split at hl
        · rw [← hl]; exact hwrest
        · rw [← hl]
          intro x hx
          rcases List.mem_cons.1 hx with hx | hx
          · rw [hx]; exact hwit
          · exact hwrest x hx
      · rw [if_neg c] at h
        obtain ⟨l', hl', rfl⟩ := Option.map_eq_some_iff.1 h
        exact step r0 l' hl'
    | psVar v =>
      simp only [hk] at h
      obtain ⟨l', hl', rfl⟩ := Option.map_eq_some_iff.1 h
      exact step r0 l' hl'
    | perm σ =>
      simp only [hk] at h
      obtain ⟨l', hl', rfl⟩ := Option.map_eq_some_iff.1 h
      exact step _ l' hl'
    | other v =>
      simp only [hk] at h
      by_cases c : it.r0 ≤ r0 ∧ r0 < it.r0 + it.w
      · rw [if_pos c] at h; exact absurd h (by simp)
      · rw [if_neg c] at h
        obtain ⟨l', hl', rfl⟩ := Option.map_eq_some_iff.1 h
        exact step r0 l' hl'

theorem simplifyPS_pos [PhaseAlg P] (m : ℕ) (display wantDrop : Bool) (comps : List (Item P))
    (r0 : ℕ) (φ : P) (hw : Pos comps) : Pos (simplifyPS m display wantDrop comps r0 φ) := by
  unfold simplifyPS
  cases h : psWalk m display wantDrop φ r0 comps.reverse with
  | some l =>
    simp only
    intro x hx
    exact psWalk_pos m display wantDrop φ comps.reverse r0 l
      (fun it hit => hw it (List.mem_reverse.1 hit)) h x (List.mem_reverse.1 hx)
  | none =>
    simp only
    split
    · exact hw
    · intro x hx
      rcases List.mem_append.1 hx with h1 | h1
      · exact hw x h1
      · simp only [List.mem_singleton] at h1
        rw [h1]
        exact Nat.one_pos

theorem moveComp_pos (l : List (Item P)) (perm : List ℕ) (h : Pos l) : Pos (moveComp l perm) := by
  intro x hx
  simp only [moveComp, List.mem_map] at hx
  obtain ⟨it, hit, rfl⟩ := hx
  exact h it hit

theorem simplifyPerm_pos (fixedAdj : Bool) (m : ℕ) (display : Bool) (comps : List (Item P))
    (r0 : ℕ) (σ : List ℕ) (choice : Option (List ℕ)) (l : List (Item P)) (hw : Pos comps)
    (h : simplifyPerm fixedAdj m display comps r0 σ choice = some l) : Pos l := by
  unfold simplifyPerm at h
  split at h
  · rw [← Option.some.inj h]; exact pushPerm_pos _ _ hw
  · split at h
    · rw [← Option.some.inj h]
      exact pushPerm_pos _ _ (fun x hx => hw x (List.mem_of_mem_dropLast hx))
    · exact absurd h (by simp)
  · simp only at h
    cases choice with
    | none => rw [← Option.some.inj h]; exact pushPerm_pos _ _ hw
    | some ρ =>
      cases hli : lastPermIdx comps with
      | none => rw [hli] at h; exact absurd h (by simp)
      | some i =>
        rw [hli] at h
        simp only at h
        split at h
        · split at h
          · split at h
            · rename_i l' hun
              rw [← Option.some.inj h]
              unfold unravel at hun
              simp only at hun
              split at hun
              · rw [← Option.some.inj hun]
                apply pushPerm_pos
                intro x hx
                rcases List.mem_append.1 hx with h1 | h1
                · exact pushPerm_pos _ _ (fun y hy => hw y (List.mem_of_mem_take hy)) x h1
                · exact moveComp_pos _ _ (fun y hy => hw y (List.mem_of_mem_drop hy)) x h1
              · exact absurd hun (by simp)
            · rw [← Option.some.inj h]; exact pushPerm_pos _ _ hw
          · exact absurd h (by simp)
        · exact absurd h (by simp)

theorem simplifyStep_pos [PhaseAlg P] (fixedAdj : Bool) (m : ℕ) (display wantDrop : Bool)
    (choice : Option (List ℕ)) (comps : List (Item P)) (it : Item P) (l : List (Item P))
    (hw : Pos comps) (hpos : 0 < it.w)
    (h : simplifyStep fixedAdj m display wantDrop choice comps it = some l) : Pos l := by
  have happ : Pos (comps ++ [it]) := by
    intro x hx
    rcases List.mem_append.1 hx with h1 | h1
    · exact hw x h1
    · simp only [List.mem_singleton] at h1; rw [h1]; exact hpos
  unfold simplifyStep at h
  cases hk : it.k with
  | perm σ =>
    simp only [hk] at h
    exact simplifyPerm_pos fixedAdj m display comps it.r0 σ choice l hw h
  | ps φ =>
    simp only [hk] at h
    rw [← Option.some.inj h]
    exact simplifyPS_pos m display wantDrop comps it.r0 φ hw
  | psVar v =>
    simp only [hk] at h
    rw [← Option.some.inj h]; exact happ
  | other v =>
    simp only [hk] at h
    rw [← Option.some.inj h]; exact happ

/-! ### `_simplify_perm` / `simplify` with the real heuristic -/

/-- **the heuristic's choice is valid**: in the non-successive branch `_generate_compatible_perm`
returns a `left_right_perm` that `_simplify_perm` can use for `_move_comp` -/
theorem heurChoice_valid {R : Type} (ι : Interp P R) {m : ℕ} (hm : 0 < m) (comps : List (Item P))
    (hw : ∀ it ∈ comps, it.WF ι m) (hpos : Pos comps) {i : ℕ} (hli : lastPermIdx comps = some i) :
    ∃ ρ, heurChoice m comps = some ρ ∧ IsPermList m ρ ∧
      (∀ g ∈ adjOf true m (comps.drop (i + 1)), BlockPlaced ρ g) ∧
      validChoice m (comps.drop (i + 1)) ρ = true := by
  obtain ⟨pr0, pw, pσ, hget⟩ := lastPermIdx_spec hli
  obtain ⟨hilt, hci⟩ := List.getElem?_eq_some_iff.1 hget
  have hwp : (⟨pr0, pw, .perm pσ⟩ : Item P).WF ι m := by
    rw [← hci]; exact hw _ (List.getElem_mem _)
  obtain ⟨hpfit, hpk⟩ := hwp
  simp only at hpfit hpk
  have hpl := invertPerm_isPerm (extendPerm_isPerm (r0 := pr0) (m := m) hpk.2 (by have := hpk.1; omega))
  have hin : ∀ it ∈ comps.drop (i + 1), 0 < it.w ∧ it.r0 + it.w ≤ m := fun it hit =>
    ⟨hpos it (List.mem_of_mem_drop hit), (hw it (List.mem_of_mem_drop hit)).1⟩
  obtain ⟨ρ, hρ, hperm, hb⟩ := heur_blocks hm hpl (comps.drop (i + 1)) hin
  refine ⟨ρ, ?_, hperm, hb, ?_⟩
  · unfold heurChoice
    rw [hli]
    simp only [hget]
    exact hρ
  · refine validChoice_of_groups _ ρ hperm.1 ?_ (keepsGroups_of_blocks hperm hb)
    simp only [isPerm, List.all_eq_true, List.mem_range, List.contains_iff_mem]
    intro j hj
    exact isPermList_mem hperm (by rw [← hperm.1]; exact hj)

/-- **`_simplify_perm` with the real heuristic** returns, the result fits the circuit, keeps positive
widths and has the matrix of the input -/
theorem simplifyPermDet_sound {R : Type} [CommRing R] (ι : Interp P R) {m : ℕ} (display : Bool)
    (comps : List (Item P)) (r0 : ℕ) (σ : List ℕ) (hw : ∀ it ∈ comps, it.WF ι m)
    (hpos : Pos comps) (hσ : IsPermList σ.length σ) (h0 : 0 < σ.length) (hfit : r0 + σ.length ≤ m) :
    ∃ l, simplifyPermDet m display comps r0 σ = some l ∧ (∀ x ∈ l, x.WF ι m) ∧ Pos l ∧
      listU ι m l = listU ι m (comps ++ [⟨r0, σ.length, .perm σ⟩]) := by
  have hm : 0 < m := by omega
  have fin : ∀ choice, (∀ ρ, choice = some ρ → ∀ i, lastPermIdx comps = some i →
      validChoice m (comps.drop (i + 1)) ρ = true) →
      ∃ l, simplifyPerm true m display comps r0 σ choice = some l ∧ (∀ x ∈ l, x.WF ι m) ∧ Pos l ∧
        listU ι m l = listU ι m (comps ++ [⟨r0, σ.length, .perm σ⟩]) := by
    intro choice hch
    obtain ⟨l, hl⟩ := Option.isSome_iff_exists.1 (simplifyPerm_isSome true m display comps r0 σ choice hch)
    exact ⟨l, hl, simplifyPerm_wf ι hm true display comps r0 σ choice l hw hσ h0 hfit hl,
      simplifyPerm_pos true m display comps r0 σ choice l hpos hl,
      simplify_perm_sound' ι hm true display comps r0 σ choice l hw hσ h0 hfit hl⟩
  unfold simplifyPermDet
  cases hb : permBranch true m comps with
  | nonSuccessive =>
    simp only
    cases hli : lastPermIdx comps with
    | none =>
      rw [permBranch_eq_adjOf, hli] at hb
      simp at hb
    | some i =>
      obtain ⟨ρ, hρ, _, _, hv⟩ := heurChoice_valid ι hm comps hw hpos hli
      rw [hρ]
      simp only
      apply fin
      intro ρ' hρ' i' hi'
      cases hρ'
      rw [hli] at hi'
      cases hi'
      exact hv
  | successive => exact fin none (fun ρ hρ => by simp at hρ)
  | single => exact fin none (fun ρ hρ => by simp at hρ)

/-- **one iteration of `simplify` with the real heuristic** -/
theorem simplifyStepDet_sound {R : Type} [CommRing R] [PhaseAlg P] (ι : Interp P R)
    (hadd : ∀ a b : P, ι.e (PhaseAlg.add a b) = ι.e a * ι.e b)
    (hdrop : ∀ a : P, PhaseAlg.canDrop a = true → ι.e a = 1)
    {m : ℕ} (display wantDrop : Bool) (comps : List (Item P)) (it : Item P)
    (hw : ∀ x ∈ comps, x.WF ι m) (hpos : Pos comps) (hit : it.WF ι m) (hitp : 0 < it.w) :
    ∃ l, simplifyStepDet m display wantDrop comps it = some l ∧ (∀ x ∈ l, x.WF ι m) ∧ Pos l ∧
      listU ι m l = listU ι m (comps ++ [it]) := by
  have other : (∀ σ, it.k ≠ .perm σ) →
      simplifyStepDet m display wantDrop comps it = simplifyStep true m display wantDrop none comps it := by
    intro hk
    unfold simplifyStepDet
    cases hkk : it.k with
    | perm σ => exact absurd hkk (hk σ)
    | ps φ => rfl
    | psVar v => rfl
    | other v => rfl
  have fin : (∀ σ, it.k ≠ .perm σ) →
      ∃ l, simplifyStepDet m display wantDrop comps it = some l ∧ (∀ x ∈ l, x.WF ι m) ∧ Pos l ∧
        listU ι m l = listU ι m (comps ++ [it]) := by
    intro hk
    rw [other hk]
    obtain ⟨l, hl⟩ := Option.isSome_iff_exists.1
      (simplifyStep_isSome true m display wantDrop none comps it (fun ρ hρ => by simp at hρ))
    exact ⟨l, hl, simplifyStep_wf ι true display wantDrop none comps it l hw hit hitp hl,
      simplifyStep_pos true m display wantDrop none comps it l hpos hitp hl,
      simplify_step_sound' ι hadd hdrop true display wantDrop none comps it l hw hit hitp hl⟩
  cases hk : it.k with
  | perm σ =>
    obtain ⟨r0, w, k⟩ := it
    simp only at hk
    subst hk
    obtain ⟨hfit, hlen, hp⟩ := hit
    simp only at hfit hlen hp hitp
    subst hlen
    unfold simplifyStepDet
    simp only
    exact simplifyPermDet_sound ι display comps r0 σ hw hpos hp hitp hfit
  | ps φ => exact fin (fun σ h => by rw [hk] at h; cases h)
  | psVar v => exact fin (fun σ h => by rw [hk] at h; cases h)
  | other v => exact fin (fun σ h => by rw [hk] at h; cases h)

/-- **the loop of `simplify` with the real heuristic**, started from any well-formed state -/
theorem simplifyDet_sound {R : Type} [CommRing R] [PhaseAlg P] (ι : Interp P R)
    (hadd : ∀ a b : P, ι.e (PhaseAlg.add a b) = ι.e a * ι.e b)
    (hdrop : ∀ a : P, PhaseAlg.canDrop a = true → ι.e a = 1)
    {m : ℕ} (display : Bool) :
    (steps : List (Item P × Bool)) → (acc : List (Item P)) →
    (∀ s ∈ steps, s.1.WF ι m ∧ 0 < s.1.w) → (∀ x ∈ acc, x.WF ι m) → Pos acc →
    ∃ l, simplifyDet m display steps acc = some l ∧ (∀ x ∈ l, x.WF ι m) ∧ Pos l ∧
      listU ι m l = listU ι m (acc ++ steps.map (·.1))
  | [], acc, _, hacc, hp => ⟨acc, rfl, hacc, hp, by simp⟩
  | s :: rest, acc, hs, hacc, hp => by
    have hs0 := hs s (by simp)
    obtain ⟨acc', e1, w1, p1, u1⟩ := simplifyStepDet_sound ι hadd hdrop display s.2 acc s.1 hacc hp
      hs0.1 hs0.2
    obtain ⟨l, e2, w2, p2, u2⟩ := simplifyDet_sound ι hadd hdrop display rest acc'
      (fun t ht => hs t (by simp [ht])) w1 p1
    refine ⟨l, ?_, w2, p2, ?_⟩
    · simp only [simplifyDet, e1]
      exact e2
    · rw [u2, listU_append, u1, ← listU_append]
      simp

end PM.C11
