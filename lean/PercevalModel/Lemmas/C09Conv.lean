/-
  C09 (extension) — lemmas about `Model/C09Conv.lean` and the counts → probabilities → counts round trip.
-/
import PercevalModel.Model.C09Conv
import PercevalModel.Lemmas.C09

set_option linter.unusedSimpArgs false
set_option linter.unusedVariables false

namespace PM.C09

theorem takingPart_spec (vac : List Bool) (nonNull : Bool) (present : List Bool) :
    ∀ i ∈ takingPart vac nonNull present,
      i < present.length ∧ present.getD i false = true ∧ (nonNull = true → vac.getD i false = false) := by
  intro i hi
  unfold takingPart at hi
  simp only [List.mem_filter, List.mem_range, Bool.and_eq_true, Bool.not_eq_eq_eq_not, Bool.not_true,
    Bool.and_eq_false_imp] at hi
  exact ⟨hi.1, hi.2.1, hi.2.2⟩

theorem sampleDist_ok (vac : List Bool) (nonNull : Bool) (present : List Bool) (weights : List ℚ) (count : Nat)
    (draws r : List Nat) (h : sampleDist vac nonNull present weights count draws = .ok r) :
    r.length = count ∧
    ∀ i ∈ r, i < present.length ∧ present.getD i false = true ∧ (nonNull = true → vac.getD i false = false) := by
  unfold sampleDist at h
  by_cases h1 : (takingPart vac nonNull present).isEmpty = true
  · rw [if_pos h1] at h; exact absurd h (by simp)
  · rw [if_neg h1] at h
    by_cases h2 : sumQ ((takingPart vac nonNull present).map fun i => weights.getD i 0) ≤ 0
    · rw [if_pos h2] at h; exact absurd h (by simp)
    · rw [if_neg h2] at h
      by_cases h3 : draws.length ≠ count
      · rw [if_pos h3] at h; exact absurd h (by simp)
      · rw [if_neg h3] at h
        by_cases h4 : draws.any (fun j => decide ((takingPart vac nonNull present).length ≤ j)) = true
        · rw [if_pos h4] at h; exact absurd h (by simp)
        · rw [if_neg h4] at h
          simp only [Drawn.ok.injEq] at h
          subst h
          refine ⟨by simpa using not_not.1 h3, ?_⟩
          intro i hi
          simp only [List.mem_map] at hi
          obtain ⟨j, hj, rfl⟩ := hi
          have hjlt : j < (takingPart vac nonNull present).length := by
            simp only [List.any_eq_true, decide_eq_true_eq, not_exists, not_and, Nat.not_le] at h4
            exact h4 j hj
          apply takingPart_spec
          rw [getD_eq_getElem' _ _ hjlt]
          exact List.getElem_mem hjlt

theorem roundHalfEven_int (c : ℤ) : roundHalfEven (c : ℚ) = c := by
  unfold roundHalfEven
  simp

theorem getQ_probOf_nonneg (T c : ℤ) (hT : 0 < T) (hc : 0 ≤ c) : 0 ≤ getQ (probOf T c) := by
  unfold probOf getQ
  by_cases h : c = 0
  · simp [h]
  · simp only [h, ↓reduceIte]
    have : (0 : ℚ) < T := by exact_mod_cast hT
    have : (0 : ℚ) ≤ c := by exact_mod_cast hc
    positivity

theorem getQ_probOf_mul (T c : ℤ) (hT : 0 < T) : getQ (probOf T c) * (T : ℚ) = c := by
  have hT' : (T : ℚ) ≠ 0 := by
    have : (0 : ℚ) < T := by exact_mod_cast hT
    exact ne_of_gt this
  unfold probOf getQ
  by_cases h : c = 0
  · simp [h]
  · simp only [h, ↓reduceIte]
    field_simp

theorem perturb_zero (ps : List ℚ) (h : ∀ p ∈ ps, 0 ≤ p) : perturb ps (ps.map fun _ => 0) = ps := by
  induction ps with
  | nil => rfl
  | cons p r ih =>
    simp only [List.map_cons, perturb, add_zero]
    rw [ih (fun q hq => h q (List.mem_cons_of_mem _ hq)), max_eq_left (h p List.mem_cons_self)]

theorem maxQ_ge (l : List ℚ) : ∀ x ∈ l, x ≤ maxQ l := by
  induction l with
  | nil => intro x hx; simp at hx
  | cons a t ih =>
    intro x hx
    simp only [List.mem_cons] at hx
    simp only [maxQ]
    rcases hx with rfl | hx
    · exact le_max_left _ _
    · exact le_trans (ih x hx) (le_max_right _ _)

theorem exists_pos_of_sumI_pos (cs : List ℤ) (h : 0 < sumI cs) (hnn : ∀ c ∈ cs, 0 ≤ c) : ∃ c ∈ cs, 1 ≤ c := by
  induction cs with
  | nil => simp [sumI] at h
  | cons a t ih =>
    by_cases ha : 1 ≤ a
    · exact ⟨a, List.mem_cons_self, ha⟩
    · have ha0 : a = 0 := by
        have := hnn a List.mem_cons_self
        omega
      simp only [sumI, ha0, zero_add] at h
      obtain ⟨c, hc, h1⟩ := ih h (fun c hc => hnn c (List.mem_cons_of_mem _ hc))
      exact ⟨c, List.mem_cons_of_mem _ hc, h1⟩

end PM.C09
