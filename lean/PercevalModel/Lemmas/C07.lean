/-
  C07 — helper lemmas: products of blocks, transpose/submatrix of `place`, the swap permutation
  hidden in `in_perm`, permanent of a matrix with identical columns, norms in `GQ`.
-/
import PercevalModel.Model.C07
import Mathlib.LinearAlgebra.Matrix.Permanent
import Mathlib.Data.Nat.Choose.Sum
import Mathlib.Data.Nat.Choose.Basic
import Mathlib.Data.List.GetD
import Mathlib.Tactic.FieldSimp
import Mathlib.Tactic.Linarith
import Mathlib.Tactic.LinearCombination
import Mathlib.Tactic.Positivity

open Matrix

namespace PM.C07

variable {R : Type}

/-! ### products -/

@[simp] theorem prod_nil [CommRing R] (N : ℕ) : prod N ([] : List (Blk R)) = 1 := by
  simp [prod, prodV]

@[simp] theorem prod_cons [CommRing R] (N : ℕ) (b : Blk R) (rest : List (Blk R)) :
    prod N (b :: rest) = prod N rest * b.mat N := by
  simp [prod, prodV]

theorem prod_append [CommRing R] (N : ℕ) (l₁ l₂ : List (Blk R)) :
    prod N (l₁ ++ l₂) = prod N l₂ * prod N l₁ := by
  induction l₁ with
  | nil => simp
  | cons b r ih => simp [ih, Matrix.mul_assoc]

/-! ### `place`: transpose and re-indexing -/

theorem place_transpose {κ ν : Type*} [DecidableEq ν] [Zero R] [One R] (g : ν → Option κ)
    (B : Matrix κ κ R) : (place g B)ᵀ = place g Bᵀ := by
  ext i j
  simp only [transpose_apply, place]
  cases hi : g i <;> cases hj : g j <;> simp [eq_comm]

theorem place_submatrix {κ ν : Type*} [DecidableEq ν] [Zero R] [One R] (g : ν → Option κ)
    (B : Matrix κ κ R) (f : ν → ν) (hf : Function.Injective f) :
    (place g B).submatrix f f = place (g ∘ f) B := by
  ext i j
  simp only [submatrix_apply, place, Function.comp]
  cases hi : g (f i) <;> cases hj : g (f j) <;> simp [hf.eq_iff]

/-- conjugating by the matrix of an involution re-indexes rows and columns -/
theorem permMatF_conj [CommRing R] {n : ℕ} (f : Fin n → Fin n) (hf : ∀ x, f (f x) = x)
    (A : Matrix (Fin n) (Fin n) R) :
    permMatF f * A * permMatF f = A.submatrix f f := by
  ext i j
  simp only [Matrix.mul_apply, permMatF, submatrix_apply]
  rw [Finset.sum_eq_single (f j)]
  · rw [Finset.sum_eq_single (f i)]
    · simp [hf]
    · intro l _ hl
      have : f l ≠ i := fun h => hl (by rw [← h, hf])
      simp [this]
    · simp
  · intro l _ hl; simp [Ne.symm hl]
  · simp

/-! ### the swap hidden in `in_perm` -/

/-- exchange `a` and `b` -/
def swapN (a b x : ℕ) : ℕ := if x = a then b else if x = b then a else x

def swapFin {N : ℕ} (a b : ℕ) (ha : a < N) (hb : b < N) (i : Fin N) : Fin N :=
  ⟨swapN a b i.val, by unfold swapN; split_ifs <;> omega⟩

theorem swapFin_invol {N : ℕ} (a b : ℕ) (ha : a < N) (hb : b < N) (i : Fin N) :
    swapFin a b ha hb (swapFin a b ha hb i) = i := by
  apply Fin.ext
  simp only [swapFin, swapN]
  split_ifs <;> omega

theorem swapFin_injective {N : ℕ} (a b : ℕ) (ha : a < N) (hb : b < N) :
    Function.Injective (swapFin (N := N) a b ha hb) :=
  Function.LeftInverse.injective (swapFin_invol a b ha hb)

/-- `in_perm[j]`: first and last exchanged, the rest fixed -/
theorem inPerm_getD (nfm r0 j : ℕ) (h : r0 + 1 < nfm) (hj : j < nfm - r0) :
    (inPerm nfm r0).getD j (nfm - r0) = swapN 0 (nfm - r0 - 1) j := by
  unfold inPerm swapN
  rcases j with _ | j
  · simp
  · have h1 : (List.range' 1 (nfm - r0 - 2)).length = nfm - r0 - 2 := by simp
    by_cases hj2 : j < nfm - r0 - 2
    · rw [List.getD_cons_succ, List.getD_append _ _ _ _ (by rw [h1]; exact hj2)]
      rw [List.getD_eq_getElem _ _ (by rw [h1]; exact hj2)]
      simp only [List.getElem_range']
      have : ¬ (j + 1 = 0) := by omega
      have h2 : ¬ (j + 1 = nfm - r0 - 1) := by omega
      simp [h2]; omega
    · have hj3 : j = nfm - r0 - 2 := by omega
      rw [List.getD_cons_succ, List.getD_append_right _ _ _ _ (by rw [h1]; omega)]
      have h2 : j + 1 = nfm - r0 - 1 := by omega
      simp [h1, hj3]
      omega

theorem inPerm_isPermList (nfm r0 : ℕ) (h : r0 + 1 < nfm) :
    (inPerm nfm r0).length = nfm - r0 := by
  simp [inPerm]; omega

/-- `Circuit.add(r_ip, PERM(in_perm))` is the matrix of the exchange of modes `r0+1` and `nfm` -/
theorem embed_inPerm [Zero R] [One R] {N nfm r0 : ℕ} (h : r0 + 1 < nfm) (hN : nfm < N) :
    embed N (r0 + 1) (permMatL (R := R) (nfm - r0) (inPerm nfm r0)) =
      permMatF (swapFin (r0 + 1) nfm (by omega) hN) := by
  ext i j
  have key : (swapFin (r0 + 1) nfm (by omega) hN j = i) ↔ swapN (r0 + 1) nfm j.val = i.val := by
    rw [Fin.ext_iff]; rfl
  simp only [embed, place, unshift, permMatF, permMatL, key]
  by_cases hi : r0 + 1 ≤ i.val ∧ i.val < r0 + 1 + (nfm - r0)
  · by_cases hj : r0 + 1 ≤ j.val ∧ j.val < r0 + 1 + (nfm - r0)
    · simp only [hi, hj, and_self, ↓reduceDIte]
      rw [inPerm_getD nfm r0 _ h (by omega)]
      have : (swapN 0 (nfm - r0 - 1) (j.val - (r0 + 1)) = i.val - (r0 + 1)) ↔
          swapN (r0 + 1) nfm j.val = i.val := by
        simp only [swapN]
        split_ifs <;> omega
      simp only [this]
    · simp only [hi, hj, and_self, ↓reduceDIte]
      have : ¬ (swapN (r0 + 1) nfm j.val = i.val) := by
        simp only [swapN]
        split_ifs <;> omega
      simp [this]
  · by_cases hj : r0 + 1 ≤ j.val ∧ j.val < r0 + 1 + (nfm - r0)
    · simp only [hi, hj, and_self, ↓reduceDIte]
      have : ¬ (swapN (r0 + 1) nfm j.val = i.val) := by
        simp only [swapN]
        split_ifs <;> omega
      simp [this]
    · simp only [hi, hj, ↓reduceDIte]
      have : (swapN (r0 + 1) nfm j.val = i.val) ↔ i = j := by
        rw [Fin.ext_iff]
        simp only [swapN]
        split_ifs <;> omega
      simp only [this]

theorem permMatF_transpose_invol [Zero R] [One R] {n : ℕ} (f : Fin n → Fin n)
    (hf : ∀ x, f (f x) = x) : (permMatF (R := R) f)ᵀ = permMatF f := by
  ext i j
  simp only [transpose_apply, permMatF]
  have : f i = j ↔ f j = i := ⟨fun h => by rw [← h, hf], fun h => by rw [← h, hf]⟩
  simp only [this]

theorem embed_transpose [Zero R] [One R] (N o : ℕ) {k : ℕ} (B : Matrix (Fin k) (Fin k) R) :
    embed N o Bᵀ = (embed N o B)ᵀ := (place_transpose _ B).symm

/-- the inverse `PERM` added after the beam splitter is the same exchange -/
theorem embed_inPerm_transpose [Zero R] [One R] {N nfm r0 : ℕ} (h : r0 + 1 < nfm) (hN : nfm < N) :
    embed N (r0 + 1) (permMatL (R := R) (nfm - r0) (inPerm nfm r0))ᵀ =
      permMatF (swapFin (r0 + 1) nfm (by omega) hN) := by
  rw [embed_transpose, embed_inPerm h hN, permMatF_transpose_invol _ (swapFin_invol _ _ _ _)]

/-- adjacent modes: the contiguous embedding already is the two-mode block -/
theorem unshift_two_eq {N r0 : ℕ} : unshift N r0 2 = twoG N r0 (r0 + 1) := by
  funext i
  simp only [unshift, twoG]
  by_cases h1 : i.val = r0
  · simp [h1]
  · by_cases h2 : i.val = r0 + 1
    · simp [h2]
    · simp [h1, h2]
      intro _; omega

/-- selecting modes `(r0, r0+1)` after exchanging `r0+1 ↔ nfm` selects `(r0, nfm)` -/
theorem unshift_comp_swap {N nfm r0 : ℕ} (h : r0 + 1 < nfm) (hN : nfm < N) :
    unshift N r0 2 ∘ swapFin (r0 + 1) nfm (by omega) hN = twoG N r0 nfm := by
  rw [unshift_two_eq]
  funext i
  simp only [Function.comp, swapFin, twoG, swapN]
  split_ifs <;> first | rfl | omega

/-! ### the two-mode block is a `place` along an injection -/

def twoF {N : ℕ} (a b : ℕ) (ha : a < N) (hb : b < N) (x : Fin 2) : Fin N :=
  if x = 0 then ⟨a, ha⟩ else ⟨b, hb⟩

theorem twoG_partialInv {N a b : ℕ} (ha : a < N) (hb : b < N) (hab : a ≠ b) :
    Function.IsPartialInv (twoF a b ha hb) (twoG N a b) := by
  intro x i
  simp only [twoF, twoG]
  constructor
  · intro h
    by_cases h1 : i.val = a
    · rw [if_pos h1] at h
      have := Option.some.inj h
      subst this
      simp; exact Fin.ext h1.symm
    · rw [if_neg h1] at h
      by_cases h2 : i.val = b
      · rw [if_pos h2] at h
        have := Option.some.inj h
        subst this
        simp; exact Fin.ext h2.symm
      · rw [if_neg h2] at h; cases h
  · intro h
    subst h
    fin_cases x
    · simp
    · simp [Ne.symm hab]

/-! ### permanent of a matrix whose columns are all equal -/

theorem permanent_const_cols [CommRing R] {n : ℕ} (v : Fin n → R) :
    Matrix.permanent (fun i _ => v i : Matrix (Fin n) (Fin n) R) =
      (n.factorial : R) * ∏ i, v i := by
  unfold Matrix.permanent
  have : ∀ σ : Equiv.Perm (Fin n), ∏ i, v (σ i) = ∏ i, v i := fun σ => Equiv.prod_comp σ v
  simp only [this, Finset.sum_const, Finset.card_univ, Fintype.card_perm, Fintype.card_fin,
    nsmul_eq_mul]

theorem prod_fin_getD [CommRing R] (l : List ℕ) (F : ℕ → R) :
    ∏ i : Fin l.length, F (l.getD i.val 0) = (l.map F).prod := by
  induction l with
  | nil => simp
  | cons a r ih =>
    show ∏ i : Fin (r.length + 1), F ((a :: r).getD i.val 0) = _
    rw [Fin.prod_univ_succ]
    simp only [Fin.val_zero, List.getD_cons_zero, Fin.val_succ,
      List.getD_cons_succ, List.map_cons, List.prod_cons]
    rw [ih]

/-- `∏_{x ∈ expand t} F x = ∏_j F(j)^{t_j}` -/
theorem prod_map_expandFrom [CommRing R] (F : ℕ → R) : ∀ (t : List ℕ) (k : ℕ),
    ((Fock.expandFrom k t).map F).prod =
      ((List.range t.length).map fun j => F (k + j) ^ t.getD j 0).prod
  | [], k => by simp [Fock.expandFrom]
  | c :: r, k => by
    rw [Fock.expandFrom, List.map_append, List.prod_append, prod_map_expandFrom F r (k + 1)]
    simp only [List.map_replicate, List.prod_replicate, List.length_cons]
    rw [List.range_succ_eq_map, List.map_cons, List.prod_cons, List.map_map]
    simp only [List.getD_cons_zero, Nat.add_zero]
    congr 2
    apply List.map_congr_left
    intro j _
    simp only [Function.comp, List.getD_cons_succ]
    congr 2
    omega

theorem expandFrom_replicate_zero (i a : ℕ) (l : List ℕ) :
    Fock.expandFrom i (List.replicate a 0 ++ l) = Fock.expandFrom (i + a) l := by
  induction a generalizing i with
  | zero => simp
  | succ a ih =>
    rw [List.replicate_succ, List.cons_append, Fock.expandFrom, List.replicate_zero,
      List.nil_append, ih]
    congr 1; omega

theorem expand_single (a r n : ℕ) : Fock.expand (single a r n) = List.replicate n a := by
  unfold Fock.expand single
  rw [expandFrom_replicate_zero, Fock.expandFrom]
  have := expandFrom_replicate_zero (0 + a + 1) r []
  simp only [List.append_nil] at this
  rw [this]
  simp [Fock.expandFrom]

theorem sum_single (a r n : ℕ) : (single a r n).sum = n := by
  simp [single]

theorem list_range_sum_rat (g : ℕ → ℚ) (n : ℕ) :
    ((List.range n).map g).sum = ∑ k ∈ Finset.range n, g k := by
  induction n with
  | zero => simp
  | succ k ih =>
    rw [List.range_succ, List.map_append, List.sum_append, ih, Finset.sum_range_succ]; simp

/-! ### `GQ` norms -/

theorem normSq_mul (a b : GQ) : GQ.normSq (a * b) = GQ.normSq a * GQ.normSq b := by
  simp [GQ.normSq]; ring

theorem normSq_one : GQ.normSq 1 = 1 := by simp [GQ.normSq]

theorem normSq_pow (a : GQ) (k : ℕ) : GQ.normSq (a ^ k) = GQ.normSq a ^ k := by
  induction k with
  | zero => simp [normSq_one]
  | succ k ih => rw [pow_succ, pow_succ, normSq_mul, ih]

theorem natCast_re_im (n : ℕ) : ((n : GQ).re = (n : ℚ)) ∧ ((n : GQ).im = 0) := by
  induction n with
  | zero => simp
  | succ n ih => simp [Nat.cast_succ, ih.1, ih.2]

theorem normSq_natCast (n : ℕ) : GQ.normSq (n : GQ) = (n : ℚ) * (n : ℚ) := by
  simp [GQ.normSq, (natCast_re_im n).1, (natCast_re_im n).2]

theorem normSq_list_prod (l : List GQ) : GQ.normSq l.prod = (l.map GQ.normSq).prod := by
  induction l with
  | nil => simp [normSq_one]
  | cons a r ih => simp [normSq_mul, ih]

end PM.C07
