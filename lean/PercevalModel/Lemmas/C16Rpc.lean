/-
  C16 (extension, round 5) — helper lemmas for `Model/C16Rpc.lean`.
-/
import PercevalModel.Model.C16Rpc
import PercevalModel.Lemmas.C16

namespace PM.C16
open PM.SM

/-! ### `execute` of the session machine through `execPrep` -/

theorem step_execute_prep (w : World) (idx : Nat) (args : List PV) (kw : Dict PV) (net : Net) :
    step w (.execute idx args kw net) =
      match execPrep w idx args kw with
      | .noJob => (w, .err .precondition)
      | .notFresh => (w, .err .assertion)
      | .refused jobs' err => ({ w with jobs := jobs' }, .err err)
      | .ready jobs' s => ({ w with jobs := jobs', log := w.log ++ received net s }, outcome net s) := by
  unfold execPrep
  cases hj : w.jobs[idx]? with
  | none => simp [step, hj]
  | some ji =>
    obtain ⟨j, its⟩ := ji
    cases hf : j.fresh with
    | false => simp [step, hj, hf]
    | true =>
      cases hc : createPayloadData j args kw with
      | error err => simp [step, hj, hf, hc]
      | ok pl => simp [step, hj, hf, hc]

theorem outcome_net (wire : Wire) (s : Sent) :
    outcome wire.net s =
      match createJobResult wire with
      | .ok _ => .sent s
      | .error _ => if wire.accepted then .lost s else .err .transport := by
  unfold Wire.net
  cases createJobResult wire with
  | ok id => rfl
  | error e => cases wire.accepted <;> rfl

/-- an `execute` whose wire is read by the session machine -/
theorem toOp_execute (idx : Nat) (args : List PV) (kw : Dict PV) (net : Net) (wire : Wire) :
    ROp.toOp (.execute idx args kw net, wire) = .execute idx args kw wire.net := rfl

theorem toOp_other (op : Op) (wire : Wire) (h : op.isExecute = false) : ROp.toOp (op, wire) = op := by
  cases op
  case execute => simp [Op.isExecute] at h
  all_goals rfl

/-! ### one step of `rstep` -/

/-- the machine with the HTTP layer IS the session machine on everything the latter knows: same state, and the
session machine's output is the abstraction of this one's -/
theorem rstep_refines (rw : RWorld) (o : ROp) :
    (rstep rw o).1.w = (step rw.w o.toOp).1 ∧ (step rw.w o.toOp).2 = (rstep rw o).2.abs o.2 := by
  obtain ⟨op, wire⟩ := o
  cases hx : op.isExecute with
  | false =>
    rw [toOp_other op wire hx]
    cases op
    case execute => simp [Op.isExecute] at hx
    all_goals simp [rstep, ROut.abs]
  | true =>
    cases op with
    | execute idx args kw net =>
      rw [toOp_execute, step_execute_prep]
      simp only [rstep]
      cases execPrep rw.w idx args kw with
      | noJob => simp [ROut.abs]
      | notFresh => simp [ROut.abs]
      | refused jobs' err => simp [ROut.abs]
      | ready jobs' s =>
        simp only [true_and]
        rw [outcome_net]
        cases hc : createJobResult wire with
        | ok id => simp [ROut.abs]
        | error e => obtain ⟨cls, msg⟩ := e; simp [ROut.abs]
    | _ => cases hx

theorem rstep_h (rw : RWorld) (o : ROp) : (rstep rw o).1.h = rw.h := by
  obtain ⟨op, wire⟩ := o
  cases op <;> simp only [rstep]
  case execute idx args kw net => cases execPrep rw.w idx args kw <;> rfl

/-- the requests ONE call emits: the platform-details request of a constructor, the job-creation request of an
execution that passed the client-side checks — never both, never two -/
def emitted (rw : RWorld) (o : ROp) : List Exchange :=
  (if o.1.fetches then [⟨fetchReq rw.h, none⟩] else []) ++ (rstep rw o).2.post rw.h o.2

theorem rstep_http (rw : RWorld) (o : ROp) : (rstep rw o).1.http = rw.http ++ emitted rw o := by
  obtain ⟨op, wire⟩ := o
  cases op <;> simp only [rstep, emitted, Op.fetches, ROut.post, List.append_nil]
  case execute idx args kw net =>
    cases execPrep rw.w idx args kw with
    | noJob => simp [ROut.post]
    | notFresh => simp [ROut.post]
    | refused jobs' err => simp [ROut.post]
    | ready jobs' s =>
      cases createJobResult wire with
      | ok id => simp [ROut.post]
      | error e => obtain ⟨cls, msg⟩ := e; simp [ROut.post]

theorem emitted_length (rw : RWorld) (o : ROp) : (emitted rw o).length ≤ 1 := by
  obtain ⟨op, wire⟩ := o
  cases op
  case execute idx args kw net =>
    simp only [emitted, rstep, Op.fetches]
    cases execPrep rw.w idx args kw with
    | noJob => simp [ROut.post]
    | notFresh => simp [ROut.post]
    | refused jobs' err => simp [ROut.post]
    | ready jobs' s =>
      cases createJobResult wire with
      | ok id => simp [ROut.post]
      | error e => obtain ⟨cls, msg⟩ := e; simp [ROut.post]
  all_goals (simp only [emitted, rstep, ROut.post, List.append_nil]; split <;> simp)

/-! ### histories -/

theorem rexec_h (rw : RWorld) (ops : List ROp) : (exec rstep rw ops).h = rw.h := by
  induction ops generalizing rw with
  | nil => rfl
  | cons o ops ih => rw [exec_cons, ih, rstep_h]

theorem rexec_refines (rw : RWorld) (ops : List ROp) :
    (exec rstep rw ops).w = exec step rw.w (ops.map ROp.toOp) := by
  induction ops generalizing rw with
  | nil => rfl
  | cons o ops ih => rw [exec_cons, ih, List.map_cons, exec_cons, (rstep_refines rw o).1]

/-- the POSTs the outputs of a history stand for (each output next to the wire of its call) -/
def postsOf (h : Handler) : List ROp → List ROut → List Exchange
  | o :: ops, r :: outs => r.post h o.2 ++ postsOf h ops outs
  | _, _ => []

theorem posts_append (a b : List Exchange) : posts (a ++ b) = posts a ++ posts b := by
  simp [posts]

theorem posts_emitted (rw : RWorld) (o : ROp) : posts (emitted rw o) = (rstep rw o).2.post rw.h o.2 := by
  unfold emitted
  rw [posts_append]
  have h1 : posts (if o.1.fetches then [(⟨fetchReq rw.h, none⟩ : Exchange)] else []) = [] := by
    split <;> simp [posts, fetchReq]
  rw [h1, List.nil_append]
  cases (rstep rw o).2 <;> simp [ROut.post, posts, postReq]

theorem rexec_posts (rw : RWorld) (ops : List ROp) :
    posts (exec rstep rw ops).http = posts rw.http ++ postsOf rw.h ops (run rstep rw ops).2 := by
  induction ops generalizing rw with
  | nil => simp [exec, run, postsOf]
  | cons o ops ih =>
    rw [exec_cons, ih, run_cons, rstep_http, posts_append, posts_emitted, rstep_h]
    simp [postsOf, List.append_assoc]

end PM.C16

namespace PM.C16
open PM.SM

/-! ### URLs -/

theorem dropWhile_slash_of_not_mem (l : Text) (h : ∀ c ∈ l, c ≠ '/') : l.dropWhile (· == '/') = l := by
  cases l with
  | nil => rfl
  | cons a t =>
    have : (a == '/') = false := by simpa using h a (by simp)
    simp [List.dropWhile, this]

theorem stripSlash_of_not_mem (s : Text) (h : ∀ c ∈ s, c ≠ '/') : stripSlash s = s := by
  unfold stripSlash
  rw [dropWhile_slash_of_not_mem s h, dropWhile_slash_of_not_mem s.reverse (by simpa using h), List.reverse_reverse]

theorem hexDigit_unreserved (n : Nat) : isUnreserved (hexDigit n) = true := by
  unfold hexDigit
  rw [List.getD_eq_getElem?_getD]
  cases h : hexChars[n]? with
  | none => decide
  | some c =>
    have hm : c ∈ hexChars := List.mem_of_getElem? h
    have : ∀ c ∈ hexChars, isUnreserved c = true := by decide
    exact this c hm

/-- a character `quote_plus` may produce -/
def urlSafe (c : Char) : Prop := isUnreserved c = true ∨ c = '+' ∨ c = '%'

theorem quoteChar_safe (a c : Char) (h : c ∈ quoteChar a) : urlSafe c := by
  unfold quoteChar at h
  split at h
  · simp at h; subst h; left; assumption
  · split at h
    · simp at h; right; left; exact h
    · simp only [List.mem_flatMap] at h
      obtain ⟨b, -, hc⟩ := h
      simp only [pctByte, List.mem_cons, List.not_mem_nil, or_false] at hc
      rcases hc with rfl | rfl | rfl
      · right; right; rfl
      · left; exact hexDigit_unreserved _
      · left; exact hexDigit_unreserved _

theorem quotePlus_safe' (s : Text) : ∀ c ∈ quotePlus s, urlSafe c := by
  intro c hc
  simp only [quotePlus, List.mem_flatMap] at hc
  obtain ⟨a, -, h⟩ := hc
  exact quoteChar_safe a c h

theorem urlSafe_ne_slash (c : Char) (h : urlSafe c) : c ≠ '/' := by
  rintro rfl
  rcases h with h | h | h
  · revert h; decide
  · revert h; decide
  · revert h; decide

end PM.C16

namespace PM.C16
open PM.SM

/-! ### more about one step -/

theorem execPrep_ready (w : World) (idx : Nat) (args : List PV) (kw : Dict PV) (jobs' : List (Job × List (Dict IV)))
    (s : Sent) (h : execPrep w idx args kw = .ready jobs' s) :
    ∃ j its pl, w.jobs[idx]? = some (j, its) ∧ j.fresh = true ∧ createPayloadData j args kw = .ok pl ∧
      s = ⟨j.jobName, pl, its⟩ := by
  unfold execPrep at h
  cases hj : w.jobs[idx]? with
  | none => simp [hj] at h
  | some ji =>
    obtain ⟨j, its⟩ := ji
    cases hf : j.fresh with
    | false => simp [hj, hf] at h
    | true =>
      cases hc : createPayloadData j args kw with
      | error err => simp [hj, hf, hc] at h
      | ok pl =>
        simp [hj, hf, hc] at h
        exact ⟨j, its, pl, rfl, hf, hc, h.2.symm⟩

theorem execPrep_executed (w : World) (idx : Nat) (args : List PV) (kw : Dict PV) (h : Executed w idx) :
    execPrep w idx args kw = .notFresh := by
  obtain ⟨j, its, hj, hf⟩ := h
  simp [execPrep, hj, hf]

theorem createJobResult_ok_accepted (wire : Wire) (id : Text) (h : createJobResult wire = .ok id) :
    wire.accepted = true := by
  cases wire with
  | answer code r =>
    by_cases hc : code = 200
    · subst hc; rfl
    · cases r with
      | obj a b => cases b <;> simp [createJobResult, hc] at h
      | notJson => simp [createJobResult, hc] at h
      | list => simp [createJobResult, hc] at h
  | readTimeout => rfl
  | connectionError => simp [createJobResult] at h
  | connectTimeout => simp [createJobResult] at h

/-- what the platform keeps of ONE job-creation request -/
theorem received_net (wire : Wire) (s : Sent) : received wire.net s = if wire.accepted then [s] else [] := by
  unfold Wire.net
  cases hc : createJobResult wire with
  | ok id => rw [createJobResult_ok_accepted wire id hc]; rfl
  | error e => cases wire.accepted <;> rfl

/-- an output that is not `.plain` comes from an `execute` that passed the client-side checks -/
theorem rstep_out (rw : RWorld) (o : ROp) :
    (∃ out, (rstep rw o).2 = .plain out) ∨
    (∃ idx args kw net jobs' s, o.1 = .execute idx args kw net ∧ execPrep rw.w idx args kw = .ready jobs' s ∧
      (rstep rw o).2.post rw.h o.2 = [⟨postReq rw.h s, some o.2⟩] ∧
      ((∃ id, createJobResult o.2 = .ok id ∧ (rstep rw o).2 = .sent id s) ∨
       (∃ cls msg, createJobResult o.2 = .error (cls, msg) ∧ (rstep rw o).2 = .raised cls msg s))) := by
  obtain ⟨op, wire⟩ := o
  cases op
  case execute idx args kw net =>
    simp only [rstep]
    cases hp : execPrep rw.w idx args kw with
    | noJob => left; exact ⟨_, rfl⟩
    | notFresh => left; exact ⟨_, rfl⟩
    | refused jobs' err => left; exact ⟨_, rfl⟩
    | ready jobs' s =>
      right
      refine ⟨idx, args, kw, net, jobs', s, rfl, hp, ?_, ?_⟩
      · cases createJobResult wire with
        | ok id => rfl
        | error e => obtain ⟨cls, msg⟩ := e; rfl
      · cases createJobResult wire with
        | ok id => left; exact ⟨id, rfl, rfl⟩
        | error e => obtain ⟨cls, msg⟩ := e; right; exact ⟨cls, msg, rfl, rfl⟩
  all_goals (left; exact ⟨_, rfl⟩)

theorem rstep_not_execute (rw : RWorld) (o : ROp) (h : o.1.isExecute = false) :
    (rstep rw o).2.post rw.h o.2 = [] := by
  rcases rstep_out rw o with ⟨out, ho⟩ | ⟨idx, args, kw, net, -, -, ho, -⟩
  · rw [ho]; rfl
  · rw [ho] at h; simp [Op.isExecute] at h

/-- the requests the platform took (or may have taken) among the emitted ones -/
def acceptedBodies : List Exchange → List Sent
  | [] => []
  | ⟨⟨_, _, _, _, _, some b⟩, some w⟩ :: t => (if w.accepted then [b.sent] else []) ++ acceptedBodies t
  | _ :: t => acceptedBodies t

theorem acceptedBodies_append (a b : List Exchange) : acceptedBodies (a ++ b) = acceptedBodies a ++ acceptedBodies b := by
  induction a with
  | nil => rfl
  | cons x t ih =>
    obtain ⟨⟨v, u, au, ti, pr, body⟩, wire⟩ := x
    cases body <;> cases wire <;> simp [acceptedBodies, ih]

theorem rstep_log (rw : RWorld) (o : ROp) : (rstep rw o).1.w.log = rw.w.log ++ acceptedBodies (emitted rw o) := by
  obtain ⟨op, wire⟩ := o
  cases op
  case execute idx args kw net =>
    simp only [rstep, emitted, Op.fetches]
    cases execPrep rw.w idx args kw with
    | noJob => simp [ROut.post, acceptedBodies]
    | notFresh => simp [ROut.post, acceptedBodies]
    | refused jobs' err => simp [ROut.post, acceptedBodies]
    | ready jobs' s =>
      have : acceptedBodies [(⟨postReq rw.h s, some wire⟩ : Exchange)] = if wire.accepted then [s] else [] := by
        simp [acceptedBodies, postReq]
      cases createJobResult wire with
      | ok id => simp [ROut.post, this, received_net]
      | error e => obtain ⟨cls, msg⟩ := e; simp [ROut.post, this, received_net]
  all_goals
    simp only [rstep, emitted, ROut.post, List.append_nil]
    rw [(step_frame rw.w _ rfl).1]
    split <;> simp [acceptedBodies, fetchReq]

end PM.C16
