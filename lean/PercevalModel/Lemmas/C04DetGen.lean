/-
  C04 — the detector stage `finishDetS` (`simulate_detectors`, detected-side photon filter, `post_select_distribution`)
  behind ANY accumulated list: when what was accumulated is the input-side-filtered part of an unconditioned
  distribution `F` (mask off), the three outputs are the conditioning of the distribution of detected patterns
  `detect Ks F`.  Used for superposed inputs behind a non-PNR detector (`probsSvdGenSDet`), `Props/C04.lean`.
  Also: with the mask off the generic path's member distribution is the specification's `probsSV`, as a list.
-/
import PercevalModel.Lemmas.C04Det
import PercevalModel.Lemmas.C04Generic
import PercevalModel.Lemmas.C04Split

namespace PM.C04
open PM.Fock PM.Dist PM.SimSpec

/-! ### the mask switched off on the generic path -/

theorem keyOk_maskoff (c : Cfg) (n : ℕ) (K : List Fock) : keyOk { c with pnr := false } n K = true := by
  unfold keyOk
  rw [List.all_eq_true]
  intro t _
  simp [ampFilter, canUseMask]

/-- with the mask off, what the generic path computes for one member is `probsSV`, as a list -/
theorem memberGen_maskoff {m : ℕ} (U : Matrix (Fin m) (Fin m) GQ) (c : Cfg) (terms : List Term) :
    memberGen U { c with pnr := false } terms = probsSV U terms := by
  unfold memberGen probsSV
  rw [svAmpsMasked_eq_filter]
  congr 1
  rw [List.filter_eq_self]
  intro p _
  exact keyOk_maskoff c _ _

/-! ### the detector stage behind an arbitrary unconditioned distribution -/

/-- `finishDetS` in closed form -/
theorem finishDetS_eq (c : Cfg) (ds : List Det) (phys : ℚ) (X : D) :
    finishDetS c ds phys X =
      if mass X = 0 then ⟨[], phys, 0⟩
      else
        ⟨(postSelect c (normalize (restrict (physOk (cond c)) (detect (ds.map Det.kern) (normalize X))))).1,
         phys * (1 - mass (restrict (fun t => !physOk (cond c) t) (detect (ds.map Det.kern) (normalize X)))),
         (if 0 < mass X ∧ 0 < phys then mass X / phys else mass X) *
          (postSelect c (normalize (restrict (physOk (cond c)) (detect (ds.map Det.kern) (normalize X))))).2⟩ := by
  rfl

/-- `finishDetS` does not read the `pnr` flag -/
theorem finishDetS_pnr (c : Cfg) (b : Bool) (ds : List Det) (phys : ℚ) (X : D) :
    finishDetS { c with pnr := b } ds phys X = finishDetS c ds phys X := rfl

/-- **the detector stage is one conditioning of the detected patterns.**  `F`: a non-negative list of states of at most
`N` photons (the unconditioned output distribution), `X` its part above the photon filter (what the mask-free code
accumulates), `mass X` the input-side physical performance.  Then `physical_perf` = P(detected pattern passes the
filter), `logical_perf` = the specification's except in the degenerate case (some input passes, no detected pattern
can: the code reports 1), and — whenever something is retained — the returned list is the conditioned distribution of
detected patterns. -/
theorem finishDetS_spec (c : Cfg) (ds : List Det) (F : D) (N : ℕ)
    (hnn : NN F) (hsl : SumLe N F) (hK : KernsOK N (ds.map Det.kern)) :
    (finishDetS c ds (mass (restrict (physOk (cond c)) F)) (restrict (physOk (cond c)) F)).phys =
      physPerf (cond c) (detect (ds.map Det.kern) F) ∧
    (finishDetS c ds (mass (restrict (physOk (cond c)) F)) (restrict (physOk (cond c)) F)).logical =
      (if physPerf (cond c) (detect (ds.map Det.kern) F) = 0 ∧ mass (restrict (physOk (cond c)) F) ≠ 0 then 1
       else logicalPerf (cond c) (detect (ds.map Det.kern) F)) ∧
    (mass (retained (cond c) (detect (ds.map Det.kern) F)) ≠ 0 →
      (finishDetS c ds (mass (restrict (physOk (cond c)) F)) (restrict (physOk (cond c)) F)).results =
        conditioned (cond c) (detect (ds.map Det.kern) F)) := by
  generalize hX : restrict (physOk (cond c)) F = X
  generalize hY : detect (ds.map Det.kern) F = Y
  have hslX : SumLe N X := by rw [← hX]; exact hsl.restrict _
  have hnnX : NN X := by rw [← hX]; exact hnn.restrict _
  have hP0 : 0 ≤ mass X := hnnX.mass_nonneg
  have hprune : restrict (physOk (cond c)) Y = restrict (physOk (cond c)) (detect (ds.map Det.kern) X) := by
    rw [← hX, ← hY]
    exact restrict_detect_prune (ds.map Det.kern) hK (minFilter c) F hsl
  have hnnY : NN (restrict (physOk (cond c)) Y) := by
    rw [← hY]; exact (NN_detect _ hK _ hsl hnn).restrict _
  have hnnD : NN (detect (ds.map Det.kern) X) := NN_detect _ hK _ hslX hnnX
  have hle : mass (restrict (physOk (cond c)) Y) ≤ mass X := by
    have h1 := mass_restrict_le hnnD (physOk (cond c))
    rw [mass_detect_le _ hK _ hslX, ← hprune] at h1
    exact h1
  have hzero : mass X = 0 → mass (restrict (physOk (cond c)) Y) = 0 := by
    intro h
    have := hnnY.mass_nonneg
    linarith
  have e1 : retained (cond c) Y = restrict (logicOk (cond c)) (restrict (physOk (cond c)) Y) := by
    rw [restrict_restrict]; rfl
  have hpass : mass X ≠ 0 →
      restrict (physOk (cond c)) (detect (ds.map Det.kern) (normalize X)) =
        scale (mass X)⁻¹ (restrict (physOk (cond c)) Y) := by
    intro hP
    have hn : normalize X = scale (mass X)⁻¹ X := by simp [Dist.normalize, hP]
    rw [hn, detect_scale, restrict_scale, hprune]
  have hmassDet : mass X ≠ 0 → mass (detect (ds.map Det.kern) (normalize X)) = 1 := by
    intro hP
    have hn : normalize X = scale (mass X)⁻¹ X := by simp [Dist.normalize, hP]
    rw [hn, detect_scale, mass_scale, mass_detect_le _ hK _ hslX]
    field_simp
  rw [finishDetS_eq]
  refine ⟨?_, ?_, ?_⟩
  · unfold physPerf
    by_cases h0 : mass X = 0
    · rw [if_pos h0, hzero h0]
      exact h0
    · rw [if_neg h0]
      have h1 := mass_restrict_add (physOk (cond c)) (detect (ds.map Det.kern) (normalize X))
      rw [hmassDet h0, hpass h0, mass_scale] at h1
      have h2 : 1 - mass (restrict (fun t => !physOk (cond c) t) (detect (ds.map Det.kern) (normalize X))) =
          (mass X)⁻¹ * mass (restrict (physOk (cond c)) Y) := by
        linarith
      show mass X * (1 - mass (restrict (fun t => !physOk (cond c) t) (detect (ds.map Det.kern) (normalize X)))) = _
      rw [h2]
      field_simp
  · unfold logicalPerf physPerf
    by_cases h0 : mass X = 0
    · rw [if_pos h0]
      simp [h0, hzero h0]
    · rw [if_neg h0]
      have hPpos : 0 < mass X := lt_of_le_of_ne hP0 (Ne.symm h0)
      show (if 0 < mass X ∧ 0 < mass X then mass X / mass X else mass X) *
          (postSelect c (normalize (restrict (physOk (cond c)) (detect (ds.map Det.kern) (normalize X))))).2 = _
      rw [if_pos ⟨hPpos, hPpos⟩, div_self h0, one_mul, hpass h0]
      by_cases hY0 : mass (restrict (physOk (cond c)) Y) = 0
      · rw [if_pos ⟨hY0, h0⟩]
        apply postSelect_snd_of_mass_zero
        · exact hnnY.scale (le_of_lt (inv_pos.2 hPpos))
        · rw [mass_scale, hY0, mul_zero]
      · rw [if_neg (fun h => hY0 h.1), if_neg hY0, normalize_scale _ (inv_ne_zero h0) _ hY0,
          postSelect_normalize_snd c _ hY0, e1]
  · intro hret
    have hRY : mass (restrict (logicOk (cond c)) (restrict (physOk (cond c)) Y)) ≠ 0 := by rwa [e1] at hret
    have hY0 : mass (restrict (physOk (cond c)) Y) ≠ 0 := by
      intro h
      apply hRY
      have h1 := mass_restrict_le hnnY (logicOk (cond c))
      have h2 := (hnnY.restrict (logicOk (cond c))).mass_nonneg
      linarith
    have h0 : mass X ≠ 0 := fun h => hY0 (hzero h)
    rw [if_neg h0]
    show (postSelect c (normalize (restrict (physOk (cond c)) (detect (ds.map Det.kern) (normalize X))))).1 = _
    rw [hpass h0, normalize_scale _ (inv_ne_zero h0) _ hY0, postSelect_normalize_fst c _ hY0 hRY]
    unfold conditioned
    rw [e1]

/-- physical × logical performance of the detector stage = retained mass of the detected patterns, unconditionally -/
theorem finishDetS_product (c : Cfg) (ds : List Det) (F : D) (N : ℕ)
    (hnn : NN F) (hsl : SumLe N F) (hK : KernsOK N (ds.map Det.kern)) :
    (finishDetS c ds (mass (restrict (physOk (cond c)) F)) (restrict (physOk (cond c)) F)).phys *
      (finishDetS c ds (mass (restrict (physOk (cond c)) F)) (restrict (physOk (cond c)) F)).logical =
    mass (retained (cond c) (detect (ds.map Det.kern) F)) := by
  obtain ⟨h1, h2, _⟩ := finishDetS_spec c ds F N hnn hsl hK
  rw [h1, h2]
  by_cases hphys : physPerf (cond c) (detect (ds.map Det.kern) F) = 0
  · rw [hphys, zero_mul]
    have e1 : retained (cond c) (detect (ds.map Det.kern) F) =
        restrict (logicOk (cond c)) (restrict (physOk (cond c)) (detect (ds.map Det.kern) F)) := by
      rw [restrict_restrict]; rfl
    have hnnY : NN (restrict (physOk (cond c)) (detect (ds.map Det.kern) F)) :=
      (NN_detect _ hK _ hsl hnn).restrict _
    have h3 := mass_restrict_le hnnY (logicOk (cond c))
    have h4 := (hnnY.restrict (logicOk (cond c))).mass_nonneg
    unfold physPerf at hphys
    rw [e1]
    linarith
  · rw [if_neg (fun h => hphys h.1)]
    exact PM.SimSpec.perf_product _ _ hphys

/-! ### the sectors' photon numbers are bounded by the members' largest component -/

theorem svN_splitAll_le (ms : List GMember) (N : ℕ) (hN : ∀ g ∈ ms, maxN g.terms ≤ N) :
    ∀ x ∈ splitAll ms, svN x.terms ≤ N := by
  intro x hx
  rcases mem_splitAll ms x hx with ⟨h1, h2⟩ | ⟨g, hg, hs⟩
  · obtain ⟨n, hn⟩ := uniform_of_not_multiN x h2
    rw [svN_eq_maxN_of_uniform hn]
    exact hN x h1
  · rw [svN_eq_maxN_sector g x hs]
    exact (maxN_sector_le g x hs).trans (hN g hg)

/-! ### the detector stage respects outcome-by-outcome equality -/

/-- a weighted sum over the entries of a list is a sum over outcomes -/
theorem wsum_eq_sum_get (g : Fock → ℚ) (d : D) (S : Finset Fock) (hS : ∀ e ∈ d, e.1 ∈ S) :
    (d.map fun x => x.2 * g x.1).sum = ∑ t ∈ S, get d t * g t := by
  classical
  induction d with
  | nil => simp [PM.C03.get_nil]
  | cons p r ih =>
    have hr : ∀ e ∈ r, e.1 ∈ S := fun e he => hS e (List.mem_cons_of_mem _ he)
    have hp : p.1 ∈ S := hS p List.mem_cons_self
    have : ∀ u, get (p :: r) u = (if p.1 = u then p.2 else 0) + get r u := by
      intro u
      rw [PM.C03.get_cons]
      by_cases h : p.1 = u <;> simp [h]
    simp only [this, add_mul, ite_mul, zero_mul, Finset.sum_add_distrib, Finset.sum_ite_eq, hp, if_true,
      List.map_cons, List.sum_cons, ih hr]

theorem get_detect (Ks : List Kern) (t : Fock) (d : D) :
    get (detect Ks d) t = (d.map fun x => x.2 * get (detectState Ks x.1) t).sum := by
  induction d with
  | nil => rfl
  | cons a d ih => rw [detect_cons, get_append, get_scale, ih, List.map_cons, List.sum_cons]

/-- two lists giving every state the same probability give every detected pattern the same probability -/
theorem get_detect_congr (Ks : List Kern) {d d' : D} (h : ∀ t, get d t = get d' t) (t : Fock) :
    get (detect Ks d) t = get (detect Ks d') t := by
  classical
  set S : Finset Fock := (d.map (·.1)).toFinset ∪ (d'.map (·.1)).toFinset with hS
  have h1 : ∀ x ∈ d, x.1 ∈ S := fun x hx =>
    Finset.mem_union_left _ (List.mem_toFinset.2 (List.mem_map_of_mem hx))
  have h2 : ∀ x ∈ d', x.1 ∈ S := fun x hx =>
    Finset.mem_union_right _ (List.mem_toFinset.2 (List.mem_map_of_mem hx))
  rw [get_detect, get_detect, wsum_eq_sum_get (fun s => get (detectState Ks s) t) d S h1,
    wsum_eq_sum_get (fun s => get (detectState Ks s) t) d' S h2]
  exact Finset.sum_congr rfl fun s _ => by rw [h s]

/-! ### abstract members with the mask off -/

theorem AM.NN_fullMix (ms : List AM) (hw : ∀ a ∈ ms, 0 ≤ a.w) (hn : ∀ a ∈ ms, NN a.full) : NN (AM.fullMix ms) := by
  apply NN.mix
  intro p hp
  obtain ⟨a, ha, rfl⟩ := List.mem_map.1 hp
  exact ⟨hw a ha, hn a ha⟩

theorem AM.sumLe_fullMix (N : ℕ) : ∀ (ms : List AM), (∀ a ∈ ms, ∀ q ∈ a.full, q.1.sum = a.n) →
    (∀ a ∈ ms, a.n ≤ N) → SumLe N (AM.fullMix ms)
  | [], _, _ => by intro p hp; cases hp
  | a :: r, h, hN => by
    intro p hp
    have e : AM.fullMix (a :: r) = scale a.w a.full ++ AM.fullMix r := rfl
    rw [e, List.mem_append] at hp
    rcases hp with hp | hp
    · obtain ⟨q, hq, rfl⟩ := mem_scale hp
      show q.1.sum ≤ N
      rw [h a List.mem_cons_self q hq]
      exact hN a List.mem_cons_self
    · exact AM.sumLe_fullMix N r (fun a' ha' => h a' (List.mem_cons_of_mem _ ha'))
        (fun a' ha' => hN a' (List.mem_cons_of_mem _ ha')) p hp

/-- when every member's computed list IS its unconditioned distribution (mask off), what the code accumulates is the
part of the unconditioned mixture above the photon filter, as a list -/
theorem AM.res_maskoff (c : Cfg) (ms : List AM) (hcode : ∀ a ∈ ms, a.code = a.full)
    (shape : ∀ a ∈ ms, ∀ q ∈ a.full, q.1.sum = a.n) :
    AM.res c ms = restrict (physOk (cond c)) (AM.fullMix ms) := by
  rw [AM.restrict_phys c ms shape, AM.res]
  apply mix_congr'
  intro a ha
  rw [hcode a (AM.mem_kept ha)]

end PM.C04
