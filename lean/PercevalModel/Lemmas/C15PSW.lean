/-
  C15 (part "PSW") — the regex pass of `_postselect_to_str` (`Model/C15PSW.lean`) turns the text of the native
  printer into the text of the repaired writer, for every expression:

  * `scan_print`            generalised statement (any number of pending negations, any stack, any continuation that
                            does not start with a digit)
  * `writeAsWritten_print`  `writeAsWritten (print false x) = some (print true x)`
  * `payloadAsWritten_eq`   the same including the empty PostSelect
  * `parse_payloadAsWritten` hence `PostSelect(payload)` is the original expression (with `parse_print_fixed`)
  * `oneDigit_breaks`       the variant whose condition token ends after ONE digit (`\d` instead of `\d+`) writes
                            `(! [1] <= 1)0` for `! [1] <= 10`, which the parser refuses
  Core Lean only.
-/
import PercevalModel.Model.C15PSW
import PercevalModel.Lemmas.C15PS

namespace PM.C15.PS

@[simp] theorem preT_nil (x : Option Text) : preT [] x = x := by cases x <;> rfl

@[simp] theorem preT_preT (a b : Text) (x : Option Text) : preT a (preT b x) = preT (a ++ b) x := by
  cases x <;> simp [preT]

theorem preT_some (a t : Text) : preT a (some t) = some (a ++ t) := rfl

/-! ## numerals -/

theorem decF_digits (f : Nat) : ∀ (n : Nat) (c : Char), c ∈ decF f n → c.isDigit = true := by
  induction f with
  | zero => intro n c h; simp [decF] at h
  | succ f ih =>
    intro n c h
    unfold decF at h
    by_cases h10 : n < 10
    · simp only [h10, if_true, List.mem_singleton] at h
      rw [h]; exact (digitChar_spec n h10).1
    · simp only [h10, if_false, List.mem_append, List.mem_singleton] at h
      cases h with
      | inl h => exact ih _ _ h
      | inr h => rw [h]; exact (digitChar_spec (n % 10) (by omega)).1

theorem dec_digits (n : Nat) (c : Char) (h : c ∈ dec n) : c.isDigit = true := decF_digits _ _ _ h

theorem dec_ne_nil (n : Nat) : dec n ≠ [] := by
  unfold dec decF
  by_cases h10 : n < 10 <;> simp [h10]

/-! ## the pieces of the condition pattern -/

theorem spanBracket_append : ∀ (a r : Text), (∀ c ∈ a, c ≠ ']') →
    spanBracket (a ++ ']' :: r) = some (a.length + 1, r)
  | [], r, _ => by simp [spanBracket]
  | c :: a, r, h => by
    have hc : c ≠ ']' := h c (by simp)
    have ih := spanBracket_append a r (fun d hd => h d (by simp [hd]))
    simp [spanBracket, hc, ih]

theorem countWhile_append (p : Char → Bool) : ∀ (a r : Text), (∀ c ∈ a, p c = true) →
    (match r with | [] => True | c :: _ => p c = false) → countWhile p (a ++ r) = a.length
  | [], [], _, _ => rfl
  | [], c :: r, _, h => by
    have hc : p c = false := h
    simp [countWhile, hc]
  | c :: a, r, h, hr => by
    have hc : p c = true := h c (by simp)
    have ih := countWhile_append p a r (fun d hd => h d (by simp [hd])) hr
    simp [countWhile, hc, ih]

theorem isDigit_ne_rbr (c : Char) (h : c.isDigit = true) : c ≠ ']' := by
  intro e; rw [e] at h; exact absurd h (by decide)

theorem printModes_no_rbr : ∀ (ms : List Nat) (c : Char), c ∈ printModes ms → c ≠ ']'
  | [], c, h => by simp [printModes] at h
  | [m], c, h => isDigit_ne_rbr c (dec_digits m c (by simpa [printModes] using h))
  | m :: m' :: ms, c, h => by
    simp only [printModes, List.mem_append, List.mem_cons] at h
    rcases h with h | h | h | h
    · exact isDigit_ne_rbr c (dec_digits m c h)
    · rw [h]; decide
    · rw [h]; decide
    · exact printModes_no_rbr (m' :: ms) c h

/-- the comparator is what `\S+` matches, and a blank follows -/
theorem cmp_span (c : Cmp) (r : Text) :
    countWhile (fun ch => !isReSpace ch) (c.sym ++ ' ' :: r) = c.sym.length ∧
    (c.sym ++ ' ' :: r).drop c.sym.length = ' ' :: r ∧ c.sym.length ≠ 0 := by
  cases c <;> exact ⟨rfl, rfl, by decide⟩

/-- the text of a condition after its `[` -/
def condTail (ms : List Nat) (c : Cmp) (n : Nat) : Text :=
  printModes ms ++ ']' :: ' ' :: (c.sym ++ ' ' :: dec n)

theorem condTail_ne_nil (ms : List Nat) (c : Cmp) (n : Nat) : condTail ms c n ≠ [] := by
  simp [condTail]

/-- on the printer's text the condition alternative matches the whole condition -/
theorem condLen_condTail (ms : List Nat) (c : Cmp) (n : Nat) (r : Text) (h : NoDigitHead r) :
    condLen false (condTail ms c n ++ r) = some (condTail ms c n).length := by
  have h1 := spanBracket_append (printModes ms) (' ' :: (c.sym ++ ' ' :: (dec n ++ r))) (printModes_no_rbr ms)
  obtain ⟨h2, h3, h4⟩ := cmp_span c (dec n ++ r)
  have h5 : countWhile Char.isDigit (dec n ++ r) = (dec n).length :=
    countWhile_append Char.isDigit (dec n) r (dec_digits n) (by cases r with | nil => trivial | cons d _ => exact h)
  have h6 : (dec n).length ≠ 0 := by
    have := dec_ne_nil n
    cases hd : dec n with
    | nil => exact absurd hd this
    | cons _ _ => simp
  have e : condTail ms c n ++ r = printModes ms ++ ']' :: ' ' :: (c.sym ++ ' ' :: (dec n ++ r)) := by
    simp [condTail, List.append_assoc]
  rw [e]
  unfold condLen
  rw [h1]
  simp only [h2, h3, h4, h5, h6, if_false, Bool.false_eq_true]
  simp [condTail, List.length_append]
  omega

/-! ## the scanner -/

/-- copying the rest of a condition token, then closing the pending negations -/
theorem scan_copy (b : Bool) : ∀ (a : Text), a ≠ [] → ∀ (p : Nat) (st : List Nat) (r : Text),
    scan b a.length p st (a ++ r) = preT (a ++ List.replicate p ')') (scan b 0 0 st r)
  | [], h, _, _, _ => absurd rfl h
  | [c], _, p, st, r => by
    simp [scan]
  | c :: d :: a, _, p, st, r => by
    have ih := scan_copy b (d :: a) (by simp) p st r
    have e : (c :: d :: a).length = (d :: a).length + 1 := rfl
    rw [e]
    simp only [List.cons_append, scan]
    have hne : (d :: a).length ≠ 0 := by simp
    simp only [hne, if_false]
    rw [show d :: (a ++ r) = (d :: a) ++ r from rfl, ih]
    simp

theorem scan_plain (b : Bool) (c : Char) (p : Nat) (st : List Nat) (cs : Text)
    (h1 : c ≠ '!') (h2 : c ≠ '(') (h3 : c ≠ ')') (h4 : c ≠ '[') :
    scan b 0 p st (c :: cs) = preT [c] (scan b 0 p st cs) := by
  simp [scan, h1, h2, h3, h4]

theorem scan_sp (b : Bool) (p : Nat) (st : List Nat) (cs : Text) :
    scan b 0 p st (' ' :: cs) = preT [' '] (scan b 0 p st cs) :=
  scan_plain b ' ' p st cs (by decide) (by decide) (by decide) (by decide)

theorem scan_bang_sp (b : Bool) (p : Nat) (st : List Nat) (cs : Text) :
    scan b 0 p st ('!' :: ' ' :: cs) = preT ['(', '!', ' '] (scan b 0 (p + 1) st cs) := by
  have : scan b 0 p st ('!' :: ' ' :: cs) = preT ['(', '!'] (scan b 0 (p + 1) st (' ' :: cs)) := by
    simp [scan]
  rw [this, scan_sp]
  simp

theorem scan_lpar (b : Bool) (p : Nat) (st : List Nat) (cs : Text) :
    scan b 0 p st ('(' :: cs) = preT ['('] (scan b 0 0 (p :: st) cs) := by
  simp [scan]

theorem scan_rpar (b : Bool) (p q : Nat) (st : List Nat) (cs : Text) :
    scan b 0 p (q :: st) (')' :: cs) = preT (')' :: List.replicate q ')') (scan b 0 0 st cs) := by
  simp [scan]

theorem scan_bop (b : Bool) (o : BOp) (st : List Nat) (cs : Text) :
    scan b 0 0 st (' ' :: o.sym :: ' ' :: cs) = preT [' ', o.sym, ' '] (scan b 0 0 st cs) := by
  rw [scan_sp]
  cases o
  · rw [show BOp.and.sym = '&' from rfl,
      scan_plain b '&' 0 st _ (by decide) (by decide) (by decide) (by decide), scan_sp]; simp
  · rw [show BOp.or.sym = '|' from rfl,
      scan_plain b '|' 0 st _ (by decide) (by decide) (by decide) (by decide), scan_sp]; simp
  · rw [show BOp.xor.sym = '^' from rfl,
      scan_plain b '^' 0 st _ (by decide) (by decide) (by decide) (by decide), scan_sp]; simp

theorem scan_cond (ms : List Nat) (c : Cmp) (n : Nat) (p : Nat) (st : List Nat) (r : Text) (h : NoDigitHead r) :
    scan false 0 p st ('[' :: (condTail ms c n ++ r)) =
      preT ('[' :: condTail ms c n ++ List.replicate p ')') (scan false 0 0 st r) := by
  have hl := condLen_condTail ms c n r h
  have hs : scan false 0 p st ('[' :: (condTail ms c n ++ r)) =
      preT ['['] (scan false (condTail ms c n).length p st (condTail ms c n ++ r)) := by
    simp [scan, hl]
  rw [hs, scan_copy false _ (condTail_ne_nil ms c n)]
  simp

theorem replicate_succ_rpar (p : Nat) : List.replicate (p + 1) ')' = ')' :: List.replicate p ')' := rfl

mutual
  /-- the regex pass over the printer's text of `x`, started with `p` pending negations: the repaired text of `x`,
      then the `p` closing parentheses, then the pass over what follows with nothing pending -/
  theorem scan_print : ∀ (x : Expr) (p : Nat) (st : List Nat) (r : Text), NoDigitHead r →
      scan false 0 p st (print false x ++ r) =
        preT (print true x ++ List.replicate p ')') (scan false 0 0 st r)
    | .cond ms c n, p, st, r, h => by
      have e : print false (.cond ms c n) ++ r = '[' :: (condTail ms c n ++ r) := by
        simp [print, condTail, List.append_assoc]
      have e' : print true (.cond ms c n) = '[' :: condTail ms c n := by
        simp [print, condTail, List.append_assoc]
      rw [e, e', scan_cond ms c n p st r h]
    | .not x, p, st, r, h => by
      simp only [print, Bool.false_eq_true, if_false, if_true, List.cons_append, List.append_assoc]
      rw [scan_bang_sp, scan_print x (p + 1) st r h, replicate_succ_rpar]
      simp
    | .nary o as, p, st, r, h => by
      simp only [print, List.cons_append, List.append_assoc, List.nil_append]
      rw [scan_lpar, scan_printArgs o as (p :: st) (')' :: r) (noDigit_rpar r), scan_rpar]
      simp
  theorem scan_printArgs (o : BOp) : ∀ (as : Args) (st : List Nat) (r : Text), NoDigitHead r →
      scan false 0 0 st (printArgs false o as ++ r) = preT (printArgs true o as) (scan false 0 0 st r)
    | .nil, st, r, _ => by simp [printArgs]
    | .cons x rest, st, r, h => by
      simp only [printArgs, List.append_assoc]
      have ht : NoDigitHead (printTail false o rest ++ r) := by
        cases rest with
        | nil => simpa [printTail] using h
        | cons y r' => exact noDigit_sp _
      rw [scan_print x 0 st _ ht, scan_printTail o rest st r h]
      simp
  theorem scan_printTail (o : BOp) : ∀ (as : Args) (st : List Nat) (r : Text), NoDigitHead r →
      scan false 0 0 st (printTail false o as ++ r) = preT (printTail true o as) (scan false 0 0 st r)
    | .nil, st, r, _ => by simp [printTail]
    | .cons x rest, st, r, h => by
      simp only [printTail, List.cons_append, List.append_assoc]
      have ht : NoDigitHead (printTail false o rest ++ r) := by
        cases rest with
        | nil => simpa [printTail] using h
        | cons y r' => exact noDigit_sp _
      rw [scan_bop, scan_print x 0 st _ ht, scan_printTail o rest st r h]
      simp
end

/-- `_postselect_to_str` writes the repaired text, for every expression -/
theorem writeAsWritten_print (x : Expr) : writeAsWritten (print false x) = some (print true x) := by
  have := scan_print x 0 [] [] trivial
  simpa [writeAsWritten, scan, preT] using this

theorem payloadAsWritten_eq (x : Option Expr) : payloadAsWritten x = some (printTop true x) := by
  cases x with
  | none => rfl
  | some e => exact writeAsWritten_print e

/-- … which `PostSelect(text)` reads back as the original expression -/
theorem parse_payloadAsWritten (x : Option Expr) (h : ∀ e, x = some e → e.WF) :
    (payloadAsWritten x).bind parseTop = some x := by
  rw [payloadAsWritten_eq]
  exact parseTop_printTop_fixed x h

/-- the negation of one condition on a count of two digits -/
def twoDigit : Expr := .not (.cond [1] .le 10)

/-- with a condition token that ends after ONE digit (`\d` for `\d+`) the closing parenthesis lands inside the
    number, and the text is not a PostSelect any more -/
theorem oneDigit_breaks :
    twoDigit.WF ∧ scan true 0 0 [] (print false twoDigit) = some "(! [1] <= 1)0".toList ∧
    parseTop "(! [1] <= 1)0".toList = none ∧
    scan false 0 0 [] (print false twoDigit) = some "(! [1] <= 10)".toList := by
  refine ⟨by decide, by rfl, ?_, by rfl⟩
  have h0 : ("(! [1] <= 1)0".toList.all (· = ' ')) = false := by rfl
  have h1 : lex "(! [1] <= 1)0".toList =
      some [.lpar, .bang, .lbr, .num 1, .rbr, .cmp .le, .num 1, .rpar, .num 0] := by rfl
  have h2 : parseToks [.lpar, .bang, .lbr, .num 1, .rbr, .cmp .le, .num 1, .rpar, .num 0] = none := by rfl
  unfold parseTop parse
  rw [h0, h1]
  simp [h2]

end PM.C15.PS
