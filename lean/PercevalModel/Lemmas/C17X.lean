/-
  C17, extension — helper lemmas (model: `Model/C17X.lean`).
-/
import PercevalModel.Lemmas.C17
import PercevalModel.Model.C17X

set_option linter.unusedSimpArgs false

namespace PM.C17
open PM.SM

/-! ### time fields -/

theorem updateProgress_status {st : St} (h : st.isRunning = true) (ts : TS) (now : Int) (p : Nat) :
    (updateProgress st ts now p).1 = st := by
  cases st <;> simp_all [updateProgress, St.isRunning]

theorem updateTimes_ok (st : St) (ts : TS) (b : Body) (hwf : b.WF) : (updateTimes st ts b).2 = true := by
  unfold updateTimes
  unfold Body.WF at hwf
  cases hd : nz b.duration with
  | none => simp
  | some d =>
    have hs := hwf (by simp [hd])
    cases hst : nz b.start with
    | none => exact absurd hst hs
    | some s =>
      simp only
      split <;> simp

theorem failed_not_running {st : St} (h : st.isRunning = true) : st.failed = false := by
  cases st <;> simp_all [St.isRunning, St.failed]

/-! ### the full status read projects onto the base status read -/

theorem readStatusF_job (fixed : Bool) (f : FJob) (now : Int) (r : RespF) :
    (readStatusF fixed f now r).1.job = (readStatus fixed f.job r.base).1 := by
  unfold readStatusF readStatus
  cases hd : statusDue f.job
  · simp
  · cases r with
    | status s m b =>
      simp only [Bool.not_true, Bool.false_eq_true, if_false, RespF.base]
      cases hr : (fromServer s).isRunning
      · simp
      · simp [updateProgress_status hr, failed_not_running hr]
    | http c => simp [RespF.base]
    | conn => simp [RespF.base]

theorem readStatusF_calls (fixed : Bool) (f : FJob) (now : Int) (r : RespF) :
    (readStatusF fixed f now r).2.2 = (readStatus fixed f.job r.base).2.2 := by
  unfold readStatusF readStatus
  cases hd : statusDue f.job
  · simp
  · cases r <;> simp [RespF.base]

theorem readStatusF_exc (fixed : Bool) (f : FJob) (now : Int) (r : RespF) (hwf : r.WF) :
    (readStatusF fixed f now r).2.1 = (readStatus fixed f.job r.base).2.1.map FExc.base := by
  unfold readStatusF readStatus
  cases hd : statusDue f.job
  · simp
  · cases r with
    | status s m b =>
      simp only [RespF.WF] at hwf
      simp [RespF.base, updateTimes_ok _ _ b hwf]
    | http c => simp [RespF.base]
    | conn => simp [RespF.base]

theorem readStatusF_hasBody (fixed : Bool) (f : FJob) (now : Int) (r : RespF) :
    (readStatusF fixed f now r).1.hasBody = f.hasBody ∧ (readStatusF fixed f now r).1.name = f.name := by
  unfold readStatusF
  cases hd : statusDue f.job
  · simp
  · cases r <;> simp

/-! ### `rerun`'s child through `_to_dict` / `_from_dict` -/

theorem rerun_child (f : FJob) (n : Nat) (now : Int) (hb : f.hasBody = true)
    (hf : f.job.status.failed = true) :
    ∃ d, toDict f = .ok d ∧
      fromDict { d with id := some n, status := some St.waiting.name } now =
        .ok ⟨born n, TS.fresh now, true, setName f.name⟩ := by
  have hs : f.job.status.isSuccess = false := by
    cases h : f.job.status <;> simp_all [St.failed, St.isSuccess]
  refine ⟨⟨f.job.id, if f.job.id.isSome then some f.job.status.name else none, some f.name⟩, ?_, ?_⟩
  · simp [toDict, hs, hb]
  · simp [fromDict, St.name, St.ofName, mkJob, born]

/-! ### every base operation of the full machine projects onto the base machine -/

theorem executeF_base (fixed : Bool) (f : FJob) (now : Int) (h : HResp) (hb : f.hasBody = true) :
    (executeF fixed f now h).1.job = (execute fixed f.job h).1 ∧
    (executeF fixed f now h).2 = ⟨.base (execute fixed f.job h).2.res, (execute fixed f.job h).2.calls⟩ ∧
    (executeF fixed f now h).1.hasBody = true := by
  unfold executeF
  cases hc : canExecute fixed f.job
  · simp [execute, hc, hb]
  · cases h <;> simp [hb]

theorem pollF_base (fixed : Bool) (f : FJob) (now : Int) (v : View) (r : RespF) (hwf : r.WF) :
    (pollF fixed f now v r).1.job = (poll fixed f.job v r.base).1 ∧
    (pollF fixed f now v r).2 = ⟨.base (poll fixed f.job v r.base).2.res, (poll fixed f.job v r.base).2.calls⟩ ∧
    (pollF fixed f now v r).1.hasBody = f.hasBody := by
  have hj := readStatusF_job fixed f now r
  have hc := readStatusF_calls fixed f now r
  have he := readStatusF_exc fixed f now r hwf
  have hh := (readStatusF_hasBody fixed f now r).1
  unfold pollF poll
  generalize readStatusF fixed f now r = p at hj hc he hh
  generalize readStatus fixed f.job r.base = q at hj hc he
  obtain ⟨f1, e, c⟩ := p
  obtain ⟨j1, e', c'⟩ := q
  simp only at hj hc he hh
  subst hj hc he
  cases e' <;> simp [FExc.toRes, hh]

theorem cancelF_base (fixed : Bool) (f : FJob) (now : Int) (r : RespF) (h : HResp) (hwf : r.WF) :
    (cancelF fixed f now r h).1.job = (cancel fixed f.job r.base h).1 ∧
    (cancelF fixed f now r h).2 =
      ⟨.base (cancel fixed f.job r.base h).2.res, (cancel fixed f.job r.base h).2.calls⟩ ∧
    (cancelF fixed f now r h).1.hasBody = f.hasBody := by
  have hj := readStatusF_job fixed f now r
  have hc := readStatusF_calls fixed f now r
  have he := readStatusF_exc fixed f now r hwf
  have hh := (readStatusF_hasBody fixed f now r).1
  unfold cancelF cancel
  generalize readStatusF fixed f now r = p at hj hc he hh
  generalize readStatus fixed f.job r.base = q at hj hc he
  obtain ⟨f1, e, c⟩ := p
  obtain ⟨j1, e', c'⟩ := q
  simp only at hj hc he hh
  subst hj hc he
  cases e' with
  | some e => simp [FExc.toRes, hh]
  | none =>
    simp only [Option.map_none]
    split
    · cases h <;> simp [hh]
    · simp [hh]

theorem rerunF_base (fixed : Bool) (f : FJob) (now : Int) (r1 r2 : RespF) (h : HResp) (sw : Bool)
    (hwf1 : r1.WF) (hwf2 : r2.WF) (hb : f.hasBody = true) :
    (rerunF fixed f now r1 r2 h sw).1.job = (rerun fixed f.job r1.base r2.base h sw).1 ∧
    (rerunF fixed f now r1 r2 h sw).2 =
      ⟨.base (rerun fixed f.job r1.base r2.base h sw).2.res, (rerun fixed f.job r1.base r2.base h sw).2.calls⟩ ∧
    (rerunF fixed f now r1 r2 h sw).1.hasBody = true := by
  have hj := readStatusF_job fixed f now r1
  have hc := readStatusF_calls fixed f now r1
  have he := readStatusF_exc fixed f now r1 hwf1
  have hh := (readStatusF_hasBody fixed f now r1).1
  unfold rerunF rerun
  generalize readStatusF fixed f now r1 = p at hj hc he hh
  generalize readStatus fixed f.job r1.base = q at hj hc he
  obtain ⟨f1, e, c⟩ := p
  obtain ⟨j1, e', c'⟩ := q
  simp only at hj hc he hh
  subst hj hc he
  rw [hb] at hh
  cases e' with
  | some e => simp [FExc.toRes, hh]
  | none =>
    simp only [Option.map_none]
    cases hf : f1.job.status.failed
    · simp only [Bool.false_eq_true, if_false]
      have hj2 := readStatusF_job fixed f1 now r2
      have hc2 := readStatusF_calls fixed f1 now r2
      have he2 := readStatusF_exc fixed f1 now r2 hwf2
      have hh2 := (readStatusF_hasBody fixed f1 now r2).1
      generalize readStatusF fixed f1 now r2 = p2 at hj2 hc2 he2 hh2
      generalize readStatus fixed f1.job r2.base = q2 at hj2 hc2 he2
      obtain ⟨f2, e2, c2⟩ := p2
      obtain ⟨j2, e2', c2'⟩ := q2
      simp only at hj2 hc2 he2 hh2
      subst hj2 hc2 he2
      rw [hh] at hh2
      cases e2' <;> simp [FExc.toRes, hh2]
    · simp only [if_true]
      obtain ⟨d, hd1, hd2⟩ := rerun_child f1 0 now hh hf
      have hchild : ∀ n, fromDict { d with id := some n, status := some St.waiting.name } now =
          .ok ⟨born n, TS.fresh now, true, setName f1.name⟩ := by
        intro n
        obtain ⟨d', hd1', hd2'⟩ := rerun_child f1 n now hh hf
        rw [hd1] at hd1'
        cases hd1'
        exact hd2'
      rw [hd1]
      cases h with
      | ok n => simp only [hchild n]; cases sw <;> simp [hh]
      | http c => simp [hh]
      | conn => simp [hh]

theorem getResultsF_base (fixed : Bool) (f : FJob) (now : Int) (r1 r2 : RespF) (h : RResp)
    (hwf1 : r1.WF) (hwf2 : r2.WF) :
    (getResultsF fixed f now r1 r2 h).1.job = (getResults fixed f.job r1.base r2.base h).1 ∧
    (getResultsF fixed f now r1 r2 h).2 =
      ⟨.base (getResults fixed f.job r1.base r2.base h).2.res, (getResults fixed f.job r1.base r2.base h).2.calls⟩ ∧
    (getResultsF fixed f now r1 r2 h).1.hasBody = f.hasBody := by
  have hj := readStatusF_job fixed f now r1
  have hc := readStatusF_calls fixed f now r1
  have he := readStatusF_exc fixed f now r1 hwf1
  have hh := (readStatusF_hasBody fixed f now r1).1
  unfold getResultsF getResults
  generalize readStatusF fixed f now r1 = p at hj hc he hh
  generalize readStatus fixed f.job r1.base = q at hj hc he
  obtain ⟨f1, e, c⟩ := p
  obtain ⟨j1, e', c'⟩ := q
  simp only at hj hc he hh
  subst hj hc he
  cases e' with
  | some e => simp [FExc.toRes, hh]
  | none =>
    simp only [Option.map_none]
    cases hm : f1.job.status.maybeCompleted
    · simp [hh]
    · simp only [Bool.not_true, Bool.false_eq_true, if_false]
      have hj2 : (if f1.job.cache.isSome then readStatusF fixed f1 now r2 else (f1, none, [])).1.job =
          (if f1.job.cache.isSome then readStatus fixed f1.job r2.base else (f1.job, none, [])).1 := by
        split
        · exact readStatusF_job fixed f1 now r2
        · rfl
      have hc2 : (if f1.job.cache.isSome then readStatusF fixed f1 now r2 else (f1, none, [])).2.2 =
          (if f1.job.cache.isSome then readStatus fixed f1.job r2.base else (f1.job, none, [])).2.2 := by
        split
        · exact readStatusF_calls fixed f1 now r2
        · rfl
      have he2 : (if f1.job.cache.isSome then readStatusF fixed f1 now r2 else (f1, none, [])).2.1 =
          (if f1.job.cache.isSome then readStatus fixed f1.job r2.base else (f1.job, none, [])).2.1.map FExc.base := by
        split
        · exact readStatusF_exc fixed f1 now r2 hwf2
        · rfl
      have hh2 : (if f1.job.cache.isSome then readStatusF fixed f1 now r2 else (f1, none, [])).1.hasBody =
          f1.hasBody := by
        split
        · exact (readStatusF_hasBody fixed f1 now r2).1
        · rfl
      generalize (if f1.job.cache.isSome then readStatusF fixed f1 now r2 else (f1, none, [])) = p2 at hj2 hc2 he2 hh2
      generalize (if f1.job.cache.isSome then readStatus fixed f1.job r2.base else (f1.job, none, [])) = q2 at hj2 hc2 he2
      obtain ⟨f2, e2, c2⟩ := p2
      obtain ⟨j2, e2', c2'⟩ := q2
      simp only at hj2 hc2 he2 hh2
      subst hj2 hc2 he2
      rw [hh] at hh2
      cases e2' with
      | some e => simp [FExc.toRes, hh2]
      | none =>
        simp only [Option.map_none]
        split
        · simp [hh2]
        · cases h <;> simp [hh2]

/-- one step of the full machine on a base operation, server-consistent bodies, job with request data -/
theorem fstep_base (fixed : Bool) (f : FJob) (t : TOp) (bop : Op) (hb : t.op.base? = some bop)
    (hwf : t.op.WF) (hbody : f.hasBody = true) :
    (fstep fixed f t).1.job = (step fixed f.job bop).1 ∧
    (fstep fixed f t).2 = ⟨.base (step fixed f.job bop).2.res, (step fixed f.job bop).2.calls⟩ ∧
    (fstep fixed f t).1.hasBody = true := by
  obtain ⟨now, op⟩ := t
  cases op with
  | execute h =>
    simp only [FOp.base?, Option.some.injEq] at hb; subst hb
    simpa [fstep, step] using executeF_base fixed f now h hbody
  | poll v r =>
    simp only [FOp.base?, Option.some.injEq] at hb; subst hb
    have := pollF_base fixed f now v r hwf
    rw [hbody] at this
    simpa [fstep, step] using this
  | cancel r h =>
    simp only [FOp.base?, Option.some.injEq] at hb; subst hb
    have := cancelF_base fixed f now r h hwf
    rw [hbody] at this
    simpa [fstep, step] using this
  | rerun r1 r2 h sw =>
    simp only [FOp.base?, Option.some.injEq] at hb; subst hb
    simpa [fstep, step] using rerunF_base fixed f now r1 r2 h sw hwf.1 hwf.2 hbody
  | getResults r1 r2 h =>
    simp only [FOp.base?, Option.some.injEq] at hb; subst hb
    have := getResultsF_base fixed f now r1 r2 h hwf.1 hwf.2
    rw [hbody] at this
    simpa [fstep, step] using this
  | toDict => simp [FOp.base?] at hb
  | reopen => simp [FOp.base?] at hb
  | resume r => simp [FOp.base?] at hb
  | setName a => simp [FOp.base?] at hb
  | sync h rs g d => simp [FOp.base?] at hb

/-- the output of the base machine as an output of the full machine -/
def Out.lift (o : Out) : FOut := ⟨.base o.res, o.calls⟩

/-- histories of base operations: the full machine, projected, is the base machine -/
theorem frun_base (fixed : Bool) (ts : List TOp) (f : FJob) (hbody : f.hasBody = true)
    (hts : ∀ t ∈ ts, t.op.base?.isSome = true ∧ t.op.WF) :
    (run (fstep fixed) f ts).1.job = (run (step fixed) f.job (ts.filterMap (·.op.base?))).1 ∧
    (run (fstep fixed) f ts).2 = (run (step fixed) f.job (ts.filterMap (·.op.base?))).2.map Out.lift ∧
    (run (fstep fixed) f ts).1.hasBody = true := by
  induction ts generalizing f with
  | nil => simp [run, hbody]
  | cons t ts ih =>
    obtain ⟨h1, h2⟩ := hts t (by simp)
    obtain ⟨bop, hb⟩ := Option.isSome_iff_exists.mp h1
    obtain ⟨hj, ho, hh⟩ := fstep_base fixed f t bop hb h2 hbody
    obtain ⟨i1, i2, i3⟩ := ih (fstep fixed f t).1 hh (fun t' ht' => hts t' (by simp [ht']))
    simp only [List.filterMap_cons, hb, run_cons, List.map_cons]
    rw [hj] at i1 i2
    exact ⟨i1, by rw [ho, i2]; rfl, i3⟩

/-! ### ghost fields are ghosts -/

/-- the part of a job object the code has: everything but the two ghost fields of the model -/
def core (j : Job) : Option Nat × St × Nat × Msg × Option Nat := (j.id, j.status, j.streak, j.msg, j.cache)

theorem core_eq_iff (j j' : Job) :
    core j = core j' ↔ j' = { j with sentCount := j'.sentCount, lastRead := j'.lastRead } := by
  obtain ⟨a, b, c, d, e, g, h⟩ := j
  obtain ⟨a', b', c', d', e', g', h'⟩ := j'
  simp only [core, Prod.mk.injEq, Job.mk.injEq]
  constructor
  · rintro ⟨rfl, rfl, rfl, rfl, rfl⟩; simp
  · rintro ⟨rfl, rfl, rfl, rfl, rfl, _, _⟩; simp

theorem handleErr_snd_ghost (fixed : Bool) (j : Job) (code : Option Nat) (a : Nat) (b : Option St) :
    (handleErr fixed { j with sentCount := a, lastRead := b } code).2 = (handleErr fixed j code).2 := by
  unfold handleErr
  simp only
  split
  · rfl
  · cases code with
    | some c => simp only; split <;> rfl
    | none => rfl

theorem readStatus_ghost (fixed : Bool) (j : Job) (r : Resp) (a : Nat) (b : Option St) :
    core (readStatus fixed { j with sentCount := a, lastRead := b } r).1 = core (readStatus fixed j r).1 ∧
    (readStatus fixed { j with sentCount := a, lastRead := b } r).2 = (readStatus fixed j r).2 := by
  unfold readStatus
  cases hd : statusDue j
  · have : statusDue { j with sentCount := a, lastRead := b } = false := by simpa [statusDue] using hd
    simp [this, core]
  · have : statusDue { j with sentCount := a, lastRead := b } = true := by simpa [statusDue] using hd
    cases r with
    | status s m => simp [this, core]
    | http c => simp [this, core, handleErr_fst, handleErr_snd_ghost]
    | conn => simp [this, core, handleErr_fst, handleErr_snd_ghost]

theorem readStatus_core (fixed : Bool) (j j' : Job) (r : Resp) (h : core j = core j') :
    core (readStatus fixed j r).1 = core (readStatus fixed j' r).1 ∧
    (readStatus fixed j r).2 = (readStatus fixed j' r).2 := by
  rw [core_eq_iff] at h
  rw [h]
  have := readStatus_ghost fixed j r j'.sentCount j'.lastRead
  exact ⟨this.1.symm, this.2.symm⟩

theorem core_fields {j j' : Job} (h : core j = core j') :
    j.id = j'.id ∧ j.status = j'.status ∧ j.streak = j'.streak ∧ j.msg = j'.msg ∧ j.cache = j'.cache := by
  simpa [core] using h

/-- no operation looks at the ghost fields: two jobs that agree on the real fields produce the same
outputs and again agree on the real fields -/
theorem step_core (fixed : Bool) (j j' : Job) (op : Op) (h : core j = core j') :
    core (step fixed j op).1 = core (step fixed j' op).1 ∧ (step fixed j op).2 = (step fixed j' op).2 := by
  cases op with
  | execute hr =>
    obtain ⟨h1, h2, h3, h4, h5⟩ := core_fields h
    simp only [step, execute, canExecute, h1, h2]
    rcases Bool.eq_false_or_eq_true (j'.status.isWaiting && (!fixed || j'.id.isNone)) with hcx | hcx
    · simp only [hcx]; cases hr <;> simp [core, h1, h3, h4, h5]
    · simp only [hcx]; simpa using h
  | poll v r =>
    obtain ⟨hc, he⟩ := readStatus_core fixed j j' r h
    simp only [step, poll]
    generalize readStatus fixed j r = p at hc he
    generalize readStatus fixed j' r = q at hc he
    obtain ⟨j1, e, c⟩ := p
    obtain ⟨j2, e2, c2⟩ := q
    simp only [Prod.mk.injEq] at hc he
    obtain ⟨rfl, rfl⟩ := he
    obtain ⟨h1, h2, h3, h4, h5⟩ := core_fields hc
    cases e <;> simp [hc, h2]
  | cancel r hr =>
    obtain ⟨hc, he⟩ := readStatus_core fixed j j' r h
    simp only [step, cancel]
    generalize readStatus fixed j r = p at hc he
    generalize readStatus fixed j' r = q at hc he
    obtain ⟨j1, e, c⟩ := p
    obtain ⟨j2, e2, c2⟩ := q
    simp only [Prod.mk.injEq] at hc he
    obtain ⟨rfl, rfl⟩ := he
    obtain ⟨h1, h2, h3, h4, h5⟩ := core_fields hc
    cases e with
    | some e => simp [hc]
    | none =>
      simp only [h2, h1]
      split
      · cases hr <;> simp [core, h1, h2, h3, h4, h5, hc]
      · simp [hc]
  | rerun r1 r2 hr sw =>
    obtain ⟨hc, he⟩ := readStatus_core fixed j j' r1 h
    simp only [step, rerun]
    generalize readStatus fixed j r1 = p at hc he
    generalize readStatus fixed j' r1 = q at hc he
    obtain ⟨j1, e, c⟩ := p
    obtain ⟨j2, e2, c2⟩ := q
    simp only [Prod.mk.injEq] at hc he
    obtain ⟨rfl, rfl⟩ := he
    obtain ⟨h1, h2, h3, h4, h5⟩ := core_fields hc
    cases e with
    | some e => simp [hc]
    | none =>
      simp only [h2, h1]
      split
      · cases hr with
        | ok n => cases sw <;> simp [hc]
        | http c => simp [hc]
        | conn => simp [hc]
      · obtain ⟨hc', he'⟩ := readStatus_core fixed j1 j2 r2 hc
        generalize readStatus fixed j1 r2 = p' at hc' he'
        generalize readStatus fixed j2 r2 = q' at hc' he'
        obtain ⟨j3, e3, c3⟩ := p'
        obtain ⟨j4, e4, c4⟩ := q'
        simp only [Prod.mk.injEq] at hc' he'
        obtain ⟨rfl, rfl⟩ := he'
        cases e3 <;> simp [hc']
  | getResults r1 r2 hr =>
    obtain ⟨hc, he⟩ := readStatus_core fixed j j' r1 h
    simp only [step, getResults]
    generalize readStatus fixed j r1 = p at hc he
    generalize readStatus fixed j' r1 = q at hc he
    obtain ⟨j1, e, c⟩ := p
    obtain ⟨j2, e2, c2⟩ := q
    simp only [Prod.mk.injEq] at hc he
    obtain ⟨rfl, rfl⟩ := he
    obtain ⟨h1, h2, h3, h4, h5⟩ := core_fields hc
    cases e with
    | some e => simp [hc]
    | none =>
      simp only [h2, h5]
      split
      · simp [hc]
      · have hboth : core (if j2.cache.isSome then readStatus fixed j1 r2 else (j1, none, [])).1 =
              core (if j2.cache.isSome then readStatus fixed j2 r2 else (j2, none, [])).1 ∧
            (if j2.cache.isSome then readStatus fixed j1 r2 else (j1, none, [])).2 =
              (if j2.cache.isSome then readStatus fixed j2 r2 else (j2, none, [])).2 := by
          split
          · exact readStatus_core fixed j1 j2 r2 hc
          · exact ⟨hc, rfl⟩
        obtain ⟨hc', he'⟩ := hboth
        generalize (if j2.cache.isSome then readStatus fixed j1 r2 else (j1, none, [])) = p' at hc' he'
        generalize (if j2.cache.isSome then readStatus fixed j2 r2 else (j2, none, [])) = q' at hc' he'
        obtain ⟨j3, e3, c3⟩ := p'
        obtain ⟨j4, e4, c4⟩ := q'
        simp only [Prod.mk.injEq] at hc' he'
        obtain ⟨rfl, rfl⟩ := he'
        obtain ⟨g1, g2, g3, g4, g5⟩ := core_fields hc'
        cases e3 with
        | some e => simp [hc']
        | none =>
          simp only [g2, g5, g1, g4]
          split
          · simp [hc']
          · cases hr <;> simp [core, g1, g2, g3, g4, g5, hc']

/-- … hence over whole histories -/
theorem run_core (fixed : Bool) (ops : List Op) (j j' : Job) (h : core j = core j') :
    core (run (step fixed) j ops).1 = core (run (step fixed) j' ops).1 ∧
    (run (step fixed) j ops).2 = (run (step fixed) j' ops).2 :=
  refine_run (step fixed) (step fixed) (fun a b => core a = core b)
    (fun s a op hr => step_core fixed s a op hr) j j' h ops

/-! ### names, `_to_dict` / `_from_dict` -/

theorem St.ofName_name (s : St) : St.ofName s.name = some s := by cases s <;> rfl

theorem St.name_eq_success (s : St) : s.name = "SUCCESS" ↔ s = .success := by
  cases s <;> simp [St.name]

theorem setName_ne_empty (s : String) : setName s ≠ "" := by
  unfold setName
  split
  · rename_i h
    intro h0
    rw [h0] at h
    simp at h
  · decide

theorem setName_of_ne_empty {s : String} (h : s ≠ "") : setName s = s := by
  unfold setName
  have : s.length ≠ 0 := by
    intro h0
    exact h (String.length_eq_zero_iff.mp h0)
  simp [Nat.pos_of_ne_zero this]

/-- what `_from_dict(_to_dict(job))` makes of the job part -/
def restoreJ (j : Job) : Job :=
  { id := j.id, status := if j.id.isSome then j.status else .waiting, streak := 0, msg := .none,
    cache := none, sentCount := if j.id.isSome then 1 else 0, lastRead := none }

theorem toDict_fromDict (f : FJob) (now : Int)
    (hb : f.hasBody = true ∨ f.job.status.isSuccess = true)
    (hs : f.job.status.isSuccess = true → f.job.id.isSome = true) :
    ∃ d, toDict f = .ok d ∧
      fromDict d now = .ok ⟨restoreJ f.job, TS.fresh now, !f.job.status.isSuccess,
        if f.job.status.isSuccess then "unnamed" else setName f.name⟩ := by
  cases hsu : f.job.status.isSuccess
  · have hb' : f.hasBody = true := by simpa [hsu] using hb
    have hne : f.job.status.name ≠ "SUCCESS" := by
      intro h0
      have := (St.name_eq_success _).mp h0
      simp [this, St.isSuccess] at hsu
    refine ⟨⟨f.job.id, if f.job.id.isSome then some f.job.status.name else none, some f.name⟩, ?_, ?_⟩
    · simp [toDict, hsu, hb']
    · cases hid : f.job.id with
      | none => simp [fromDict, mkJob, restoreJ, hid]
      | some n => simp [fromDict, mkJob, restoreJ, hid, hne, St.ofName_name]
  · have hid := hs hsu
    have hst : f.job.status = .success := by
      cases h : f.job.status <;> simp_all [St.isSuccess]
    refine ⟨⟨f.job.id, some "SUCCESS", none⟩, ?_, ?_⟩
    · simp [toDict, hid, hst, St.name, St.isSuccess]
    · simp [fromDict, mkJob, restoreJ, hid, hst, St.ofName, setName]

theorem toDict_id {f : FJob} {d : Dict} (h : toDict f = .ok d) : d.id = f.job.id := by
  unfold toDict at h
  cases hs : f.job.status.isSuccess
  · cases hb : f.hasBody
    · simp [hs, hb] at h
    · simp only [hs, hb, Bool.false_eq_true, if_false, if_true, Except.ok.injEq] at h
      subst h; rfl
  · simp only [hs, if_true, Except.ok.injEq] at h
    subst h; rfl

theorem fromDict_id {d : Dict} {now : Int} {f : FJob} (h : fromDict d now = .ok f) : f.job.id = d.id := by
  unfold fromDict at h
  by_cases h1 : d.status = some "SUCCESS"
  · simp only [h1, if_true, St.ofName, Except.ok.injEq] at h
    subst h; rfl
  · simp only [h1, if_false] at h
    cases hb : d.body with
    | none => simp [hb] at h
    | some nm =>
      simp only [hb] at h
      cases hs : d.status with
      | none =>
        simp only [hs, Except.ok.injEq] at h
        subst h; rfl
      | some s =>
        simp only [hs] at h
        cases ho : St.ofName s with
        | none => simp [ho] at h
        | some st =>
          simp only [ho, Except.ok.injEq] at h
          subst h; rfl

/-! ### a sent job never creates -/

theorem readStatusF_id (fixed : Bool) (f : FJob) (now : Int) (r : RespF) :
    (readStatusF fixed f now r).1.job.id = f.job.id := by
  rw [readStatusF_job, readStatus_id]

theorem mem_readStatusF_calls (fixed : Bool) (f : FJob) (now : Int) (r : RespF) (c : Call)
    (h : c ∈ (readStatusF fixed f now r).2.2) : c = .status f.job.id := by
  rw [readStatusF_calls] at h
  exact mem_readStatus_calls fixed f.job r.base c h

theorem pollF_sent (fixed : Bool) (f : FJob) (now : Int) (v : View) (r : RespF) :
    (pollF fixed f now v r).1.job.id = f.job.id ∧ Call.create ∉ (pollF fixed f now v r).2.calls := by
  have hid := readStatusF_id fixed f now r
  have hm := mem_readStatusF_calls fixed f now r
  unfold pollF
  generalize readStatusF fixed f now r = p at hid hm
  obtain ⟨f1, e, c⟩ := p
  simp only at hid hm
  cases e <;> exact ⟨hid, fun h => by have := hm _ h; simp at this⟩

theorem cancelF_sent (fixed : Bool) (f : FJob) (now : Int) (r : RespF) (h : HResp) :
    (cancelF fixed f now r h).1.job.id = f.job.id ∧ Call.create ∉ (cancelF fixed f now r h).2.calls := by
  have hid := readStatusF_id fixed f now r
  have hm := mem_readStatusF_calls fixed f now r
  unfold cancelF
  generalize readStatusF fixed f now r = p at hid hm
  obtain ⟨f1, e, c⟩ := p
  simp only at hid hm
  have hnc : Call.create ∉ c := fun h => by have := hm _ h; simp at this
  cases e with
  | some e => exact ⟨hid, hnc⟩
  | none =>
    simp only
    split
    · cases h <;> simp [hid, hnc]
    · exact ⟨hid, hnc⟩

theorem getResultsF_sent (fixed : Bool) (f : FJob) (now : Int) (r1 r2 : RespF) (h : RResp) :
    (getResultsF fixed f now r1 r2 h).1.job.id = f.job.id ∧
      Call.create ∉ (getResultsF fixed f now r1 r2 h).2.calls := by
  have hid := readStatusF_id fixed f now r1
  have hm := mem_readStatusF_calls fixed f now r1
  unfold getResultsF
  generalize readStatusF fixed f now r1 = p at hid hm
  obtain ⟨f1, e, c⟩ := p
  simp only at hid hm
  have hnc : Call.create ∉ c := fun h => by have := hm _ h; simp at this
  cases e with
  | some e => exact ⟨hid, hnc⟩
  | none =>
    simp only
    split
    · exact ⟨hid, hnc⟩
    · have hid2 : (if f1.job.cache.isSome then readStatusF fixed f1 now r2 else (f1, none, [])).1.job.id = f1.job.id := by
        split
        · exact readStatusF_id fixed f1 now r2
        · rfl
      have hm2 : ∀ c' ∈ (if f1.job.cache.isSome then readStatusF fixed f1 now r2 else (f1, none, [])).2.2,
          c' = Call.status f1.job.id := by
        split
        · exact mem_readStatusF_calls fixed f1 now r2
        · simp
      generalize (if f1.job.cache.isSome then readStatusF fixed f1 now r2 else (f1, none, [])) = p2 at hid2 hm2
      obtain ⟨f2, e2, c2⟩ := p2
      simp only at hid2 hm2
      have hnc2 : Call.create ∉ c2 := fun h => by have := hm2 _ h; simp at this
      cases e2 with
      | some e => simp [hid2, hid, hnc, hnc2]
      | none =>
        simp only
        split
        · simp [hid2, hid, hnc, hnc2]
        · cases h <;> simp [hid2, hid, hnc, hnc2]

theorem rerunF_sent (fixed : Bool) (f : FJob) (now : Int) (r1 r2 : RespF) (h : HResp) (sw : Bool)
    (hs : f.job.id.isSome = true) :
    (rerunF fixed f now r1 r2 h sw).1.job.id.isSome = true ∧
      Call.create ∉ (rerunF fixed f now r1 r2 h sw).2.calls := by
  have hid := readStatusF_id fixed f now r1
  have hm := mem_readStatusF_calls fixed f now r1
  unfold rerunF
  generalize readStatusF fixed f now r1 = p at hid hm
  obtain ⟨f1, e, c⟩ := p
  simp only at hid hm
  have hnc : Call.create ∉ c := fun h => by have := hm _ h; simp at this
  have hs1 : f1.job.id.isSome = true := by rw [hid]; exact hs
  cases e with
  | some e => exact ⟨hs1, hnc⟩
  | none =>
    simp only
    split
    · cases htd : toDict f1 with
      | error e => exact ⟨hs1, hnc⟩
      | ok d =>
        cases h with
        | ok n =>
          simp only
          cases hfd : fromDict { d with id := some n, status := some St.waiting.name } now with
          | error e => simp [hs1, hnc]
          | ok child =>
            have := fromDict_id hfd
            cases sw <;> simp [hs1, hnc, this]
        | http c => simp [hs1, hnc]
        | conn => simp [hs1, hnc]
    · have hid2 := readStatusF_id fixed f1 now r2
      have hm2 := mem_readStatusF_calls fixed f1 now r2
      generalize readStatusF fixed f1 now r2 = p2 at hid2 hm2
      obtain ⟨f2, e2, c2⟩ := p2
      simp only at hid2 hm2
      have hnc2 : Call.create ∉ c2 := fun h => by have := hm2 _ h; simp at this
      cases e2 <;> simp [hid2, hs1, hnc, hnc2]

theorem executeF_sent (f : FJob) (now : Int) (h : HResp) (hs : f.job.id.isSome = true) :
    executeF true f now h = (f, ⟨.base (.raised .assertion), []⟩) := by
  have : canExecute true f.job = false := by simp [canExecute, hs]
  simp [executeF, this]

/-- the full machine, repaired code: once the job has an identifier every operation — polls, cancel,
rerun (also into the new job), get_results, _to_dict, re-creation from the dictionary or the id,
renaming, execute_sync — keeps it sent and never calls `create_job` -/
theorem fstep_sent (f : FJob) (t : TOp) (hs : f.job.id.isSome = true) :
    (fstep true f t).1.job.id.isSome = true ∧ Call.create ∉ (fstep true f t).2.calls := by
  obtain ⟨now, op⟩ := t
  cases op with
  | execute h => simp [fstep, executeF_sent f now h hs, hs]
  | poll v r =>
    have := pollF_sent true f now v r
    simp only [fstep]
    exact ⟨by rw [this.1]; exact hs, this.2⟩
  | cancel r h =>
    have := cancelF_sent true f now r h
    simp only [fstep]
    exact ⟨by rw [this.1]; exact hs, this.2⟩
  | rerun r1 r2 h sw => exact rerunF_sent true f now r1 r2 h sw hs
  | getResults r1 r2 h =>
    have := getResultsF_sent true f now r1 r2 h
    simp only [fstep]
    exact ⟨by rw [this.1]; exact hs, this.2⟩
  | toDict =>
    simp only [fstep]
    cases toDict f <;> simp [hs]
  | reopen =>
    simp only [fstep]
    cases htd : toDict f with
    | error e => simp [hs]
    | ok d =>
      simp only
      cases hfd : fromDict d now with
      | error e => simp [hs]
      | ok f' =>
        have h1 := fromDict_id hfd
        have h2 := toDict_id htd
        simp [h1, h2, hs]
  | resume r =>
    simp only [fstep]
    cases hid : f.job.id with
    | none => simp [hid] at hs
    | some n =>
      simp only [fromId]
      have hid2 := readStatusF_id true ⟨born n, TS.fresh now, false, setName "resumed"⟩ now r
      have hm2 := mem_readStatusF_calls true ⟨born n, TS.fresh now, false, setName "resumed"⟩ now r
      generalize readStatusF true ⟨born n, TS.fresh now, false, setName "resumed"⟩ now r = p at hid2 hm2
      obtain ⟨f1, e, c⟩ := p
      simp only at hid2 hm2
      have hnc : Call.create ∉ c := fun h => by have := hm2 _ h; simp at this
      cases e with
      | some e => simp [hid, hnc]
      | none => simp [hid2, born, hnc]
  | setName a => cases a <;> simp [fstep, hs]
  | sync h rs g d => simp [fstep, executeSyncF, executeF_sent f now h hs, hs, FRes.toFin]

/-! ### `execute_sync` -/

/-- the polling loop is the run of the polls over the answers it used up -/
theorem loopUntil_run {S R O : Type} (poll : S → R → S × O) (isR isD : O → Bool) (s : S) (rs : List R) :
    (loopUntil poll isR isD s rs).2.1.length ≤ rs.length ∧
    (loopUntil poll isR isD s rs).1 = exec poll s (rs.take (loopUntil poll isR isD s rs).2.1.length) ∧
    (loopUntil poll isR isD s rs).2.1 = (run poll s (rs.take (loopUntil poll isR isD s rs).2.1.length)).2 := by
  induction rs generalizing s with
  | nil => simp [loopUntil, exec, run]
  | cons r rs ih =>
    unfold loopUntil
    by_cases h1 : isR (poll s r).2 = true
    · simp [h1, exec, run]
    · by_cases h2 : isD (poll s r).2 = true
      · simp [h1, h2, exec, run]
      · obtain ⟨i1, i2, i3⟩ := ih (poll s r).1
        simp only [h1, h2, Bool.false_eq_true, if_false, List.length_cons, List.take_succ_cons, exec_cons, run_cons]
        exact ⟨by omega, i2, by rw [← i3]⟩

/-- how the loop ends: all polls but the last neither raise nor complete; the last one raises
(`raised`), completes without raising (`complete`), or does neither and the answers are used up -/
theorem loopUntil_end {S R O : Type} (poll : S → R → S × O) (isR isD : O → Bool) (s : S) (rs : List R) :
    match (loopUntil poll isR isD s rs).2.2 with
    | .pending => (loopUntil poll isR isD s rs).2.1.length = rs.length ∧
        ∀ x ∈ (loopUntil poll isR isD s rs).2.1, isR x = false ∧ isD x = false
    | .raised => ∃ pre o, (loopUntil poll isR isD s rs).2.1 = pre ++ [o] ∧ isR o = true ∧
        ∀ x ∈ pre, isR x = false ∧ isD x = false
    | .complete => ∃ pre o, (loopUntil poll isR isD s rs).2.1 = pre ++ [o] ∧ isR o = false ∧ isD o = true ∧
        ∀ x ∈ pre, isR x = false ∧ isD x = false := by
  induction rs generalizing s with
  | nil => simp [loopUntil]
  | cons r rs ih =>
    unfold loopUntil
    by_cases h1 : isR (poll s r).2 = true
    · simp only [h1, if_true]
      exact ⟨[], _, rfl, h1, by simp⟩
    · by_cases h2 : isD (poll s r).2 = true
      · simp only [h1, h2, Bool.false_eq_true, if_false, if_true]
        exact ⟨[], _, rfl, by simpa using h1, h2, by simp⟩
      · have ih' := ih (poll s r).1
        simp only [h1, h2, Bool.false_eq_true, if_false]
        have hx : isR (poll s r).2 = false ∧ isD (poll s r).2 = false := ⟨by simpa using h1, by simpa using h2⟩
        cases he : (loopUntil poll isR isD (poll s r).1 rs).2.2 with
        | pending =>
          rw [he] at ih'
          simp only at ih' ⊢
          refine ⟨by simp [ih'.1], ?_⟩
          intro x hx'
          simp only [List.mem_cons] at hx'
          rcases hx' with rfl | hx'
          · exact hx
          · exact ih'.2 x hx'
        | raised =>
          rw [he] at ih'
          simp only at ih' ⊢
          obtain ⟨pre, o, e1, e2, e3⟩ := ih'
          refine ⟨(poll s r).2 :: pre, o, by simp [e1], e2, ?_⟩
          intro x hx'
          simp only [List.mem_cons] at hx'
          rcases hx' with rfl | hx'
          · exact hx
          · exact e3 x hx'
        | complete =>
          rw [he] at ih'
          simp only at ih' ⊢
          obtain ⟨pre, o, e1, e2, e2', e3⟩ := ih'
          refine ⟨(poll s r).2 :: pre, o, by simp [e1], e2, e2', ?_⟩
          intro x hx'
          simp only [List.mem_cons] at hx'
          rcases hx' with rfl | hx'
          · exact hx
          · exact e3 x hx'

/-- the `is_complete` poll, spelled out through the status read -/
theorem poll_isComplete_eq (fixed : Bool) (j : Job) (r : Resp) :
    step fixed j (.poll .isComplete r) =
      ((readStatus fixed j r).1,
       ⟨match (readStatus fixed j r).2.1 with
        | some e => .raised e
        | none => .flag (readStatus fixed j r).1.status.completed, (readStatus fixed j r).2.2⟩) := by
  simp only [step, poll]
  generalize readStatus fixed j r = p
  obtain ⟨j1, e, c⟩ := p
  cases e <;> simp [view]

theorem syncLoop_complete (fixed : Bool) (j : Job) (rs : List Resp)
    (h : (syncLoop fixed j rs).2.2 = .complete) : (syncLoop fixed j rs).1.status.completed = true := by
  induction rs generalizing j with
  | nil => simp [syncLoop, loopUntil] at h
  | cons r rs ih =>
    unfold syncLoop loopUntil at h ⊢
    rw [poll_isComplete_eq] at h ⊢
    generalize readStatus fixed j r = p at h ⊢
    obtain ⟨j1, e, c⟩ := p
    cases e with
    | some e => simp [Out.isRaise] at h
    | none =>
      cases hc : j1.status.completed
      · simp only [hc, Out.isRaise, Out.isDone, Bool.false_eq_true, if_false] at h ⊢
        exact ih j1 h
      · simp [hc, Out.isRaise, Out.isDone]

theorem run_polls_noCreate (fixed : Bool) (rs : List Resp) (j : Job) :
    ∀ o ∈ (run (fun j r => step fixed j (.poll .isComplete r)) j rs).2, countCreate o.calls = 0 := by
  induction rs generalizing j with
  | nil => simp [run]
  | cons r rs ih =>
    intro o ho
    simp only [run_cons, List.mem_cons] at ho
    rcases ho with rfl | ho
    · rw [poll_isComplete_eq]
      exact readStatus_noCreate fixed j r
    · exact ih _ o ho

theorem syncLoop_noCreate (fixed : Bool) (j : Job) (rs : List Resp) :
    ∀ o ∈ (syncLoop fixed j rs).2.1, countCreate o.calls = 0 := by
  have h := (loopUntil_run (fun j r => step fixed j (.poll .isComplete r)) Out.isRaise Out.isDone j rs).2.2
  unfold syncLoop
  rw [h]
  exact run_polls_noCreate fixed _ j

theorem countCreate_flatten_zero (ls : List (List Call)) (h : ∀ l ∈ ls, countCreate l = 0) :
    countCreate ls.flatten = 0 := by
  induction ls with
  | nil => simp [countCreate]
  | cons l ls ih =>
    simp only [List.flatten_cons, countCreate_append]
    rw [h l (by simp), ih (fun l' hl' => h l' (by simp [hl']))]

theorem getResults_noCreate (fixed : Bool) (j : Job) (r1 r2 : Resp) (g : RResp) :
    countCreate (getResults fixed j r1 r2 g).2.calls = 0 := by
  have hc := readStatus_noCreate fixed j r1
  unfold getResults
  generalize readStatus fixed j r1 = p at hc
  obtain ⟨j1, e, c⟩ := p
  simp only at hc
  cases e with
  | some e => exact hc
  | none =>
    simp only
    split
    · exact hc
    · have hc2 : countCreate (if j1.cache.isSome then readStatus fixed j1 r2 else (j1, none, [])).2.2 = 0 := by
        split
        · exact readStatus_noCreate fixed j1 r2
        · rfl
      generalize (if j1.cache.isSome then readStatus fixed j1 r2 else (j1, none, [])) = p2 at hc2
      obtain ⟨j2, e2, c2⟩ := p2
      simp only at hc2
      cases e2 with
      | some e => simp [countCreate_append, hc, hc2]
      | none =>
        simp only
        split
        · simp [countCreate_append, hc, hc2]
        · cases g <;> simp [countCreate_append, hc, hc2, countCreate]

theorem execute_calls (fixed : Bool) (j : Job) (h : HResp) :
    (execute fixed j h).2.calls = if canExecute fixed j then [Call.create] else [] := by
  unfold execute
  cases canExecute fixed j
  · simp
  · cases h <;> simp

/-! ### the polling loop under the real throttle -/

theorem readStatusAt_due (fixed : Bool) (delay : Int) (t : TJob) (now : Int) (r : Resp)
    (hdue : statusDue t.job = true) (hnow : now - t.prev > delay) :
    readStatusAt fixed delay t now r =
      (⟨(readStatus fixed t.job r).1, now⟩, (readStatus fixed t.job r).2.1, (readStatus fixed t.job r).2.2) := by
  simp [readStatusAt, hdue, hnow]

/-- sleeping longer than the refresh delay makes every poll of the loop a request: the clocked
loop is the plain loop -/
theorem syncLoopAt_eq (fixed : Bool) (delay d : Int) (hd : delay < d) (rs : List Resp) (fuel : Nat)
    (t : TJob) (now : Int) (hdue : statusDue t.job = true) (hnow : now - t.prev > delay)
    (hf : rs.length < fuel) :
    (syncLoopAt fixed delay d fuel t now rs).1.job = (syncLoop fixed t.job rs).1 ∧
    (syncLoopAt fixed delay d fuel t now rs).2 = (syncLoop fixed t.job rs).2 := by
  induction rs generalizing fuel t now with
  | nil =>
    cases fuel with
    | zero => simp at hf
    | succ n => simp [syncLoopAt, syncLoop, loopUntil, hdue, hnow]
  | cons r rs ih =>
    cases fuel with
    | zero => simp at hf
    | succ n =>
      have hdue' : (statusDue t.job && decide (now - t.prev > delay)) = true := by simp [hdue, hnow]
      unfold syncLoopAt syncLoop loopUntil
      simp only [hdue', List.headD_cons, List.tail_cons, if_true]
      rw [readStatusAt_due fixed delay t now r hdue hnow, poll_isComplete_eq]
      have hid := readStatus_id fixed t.job r
      generalize readStatus fixed t.job r = p at hid
      obtain ⟨j1, e, c⟩ := p
      simp only at hid
      cases e with
      | some e => simp [Out.isRaise]
      | none =>
        cases hc : j1.status.completed
        · simp only [hc, Out.isRaise, Out.isDone, Bool.false_eq_true, if_false]
          have hdue1 : statusDue (⟨j1, now⟩ : TJob).job = true := by
            have : t.job.id.isSome = true := by
              simp only [statusDue, Bool.and_eq_true] at hdue; exact hdue.1
            simp [statusDue, hid, this, hc]
          have := ih n ⟨j1, now⟩ (now + d) hdue1 (by simp; omega) (by simp at hf; omega)
          simp only [syncLoop] at this
          exact ⟨this.1, by rw [this.2]⟩
        · simp [hc, Out.isRaise, Out.isDone]

/-! ### `execute_sync` on the full object projects onto `execute_sync` on the base machine -/

theorem loopUntil_refine {S S' R R' O O' : Type} (poll : S → R → S × O) (poll' : S' → R' → S' × O')
    (isR isD : O → Bool) (isR' isD' : O' → Bool) (Rel : S → S' → Prop) (P : R → Prop) (fr : R → R')
    (g : O' → O)
    (hstep : ∀ s s' r, Rel s s' → P r →
      Rel (poll s r).1 (poll' s' (fr r)).1 ∧ (poll s r).2 = g (poll' s' (fr r)).2)
    (hR : ∀ o, isR (g o) = isR' o) (hD : ∀ o, isD (g o) = isD' o)
    (rs : List R) (s : S) (s' : S') (h : Rel s s') (hrs : ∀ r ∈ rs, P r) :
    Rel (loopUntil poll isR isD s rs).1 (loopUntil poll' isR' isD' s' (rs.map fr)).1 ∧
    (loopUntil poll isR isD s rs).2.1 = (loopUntil poll' isR' isD' s' (rs.map fr)).2.1.map g ∧
    (loopUntil poll isR isD s rs).2.2 = (loopUntil poll' isR' isD' s' (rs.map fr)).2.2 := by
  induction rs generalizing s s' with
  | nil => simp [loopUntil, h]
  | cons r rs ih =>
    obtain ⟨h1, h2⟩ := hstep s s' r h (hrs r (by simp))
    simp only [List.map_cons]
    unfold loopUntil
    simp only [h2, hR, hD]
    by_cases c1 : isR' (poll' s' (fr r)).2 = true
    · simp [c1, h1]
    · by_cases c2 : isD' (poll' s' (fr r)).2 = true
      · simp [c1, c2, h1]
      · obtain ⟨i1, i2, i3⟩ := ih (poll s r).1 (poll' s' (fr r)).1 h1 (fun r' hr' => hrs r' (by simp [hr']))
        simp only [c1, c2, Bool.false_eq_true, if_false, List.map_cons]
        exact ⟨i1, by rw [i2], i3⟩

theorem syncLoopF_base (fixed : Bool) (now d : Int) (rs : List RespF) (f : FJob) (k : Nat)
    (hwf : ∀ r ∈ rs, r.WF) :
    (syncLoopF fixed now d (f, k) rs).1.1.job = (syncLoop fixed f.job (rs.map RespF.base)).1 ∧
    (syncLoopF fixed now d (f, k) rs).1.1.hasBody = f.hasBody ∧
    (syncLoopF fixed now d (f, k) rs).2.1 = (syncLoop fixed f.job (rs.map RespF.base)).2.1.map Out.lift ∧
    (syncLoopF fixed now d (f, k) rs).2.2 = (syncLoop fixed f.job (rs.map RespF.base)).2.2 := by
  have := loopUntil_refine
    (fun (s : FJob × Nat) r =>
      let p := pollF fixed s.1 (now + s.2 * d) .isComplete r
      ((p.1, s.2 + 1), p.2))
    (fun j r => step fixed j (.poll .isComplete r))
    FOut.isRaise FOut.isDone Out.isRaise Out.isDone
    (fun s j => s.1.job = j ∧ s.1.hasBody = f.hasBody) RespF.WF RespF.base Out.lift
    (by
      intro s s' r hrel hr
      obtain ⟨h1, h2, h3⟩ := pollF_base fixed s.1 (now + s.2 * d) .isComplete r hr
      simp only [step]
      rw [← hrel.1]
      exact ⟨⟨h1, by rw [h3]; exact hrel.2⟩, h2⟩)
    (by intro o; cases o with | mk res calls => cases res <;> rfl)
    (by
      intro o
      cases o with
      | mk res calls =>
        cases res with
        | flag b => cases b <;> rfl
        | _ => rfl)
    rs (f, k) f.job ⟨rfl, rfl⟩ hwf
  unfold syncLoopF syncLoop
  exact ⟨this.1.1, this.1.2, this.2.1, this.2.2⟩

/-- the outcome of `execute_sync` on the base machine in the vocabulary of the full machine -/
def SyncOut.toFRes (so : SyncOut) : FRes :=
  .sync so.polls.length so.sleeps
    (if so.pending then .pending else
      match so.fin with
      | some w => .res w.res
      | none =>
        match so.polls.getLast? with
        | some o => .res o.res
        | none => .res so.exec.res)

theorem executeSyncF_base (fixed : Bool) (f : FJob) (now : Int) (h : HResp) (rs : List RespF) (g : RResp)
    (d : Int) (hwf : ∀ r ∈ rs, r.WF) (hb : f.hasBody = true) :
    (executeSyncF fixed f now h rs g d).1.job = (executeSync fixed f.job h (rs.map RespF.base) g).1 ∧
    (executeSyncF fixed f now h rs g d).2 =
      ⟨(executeSync fixed f.job h (rs.map RespF.base) g).2.toFRes,
       (executeSync fixed f.job h (rs.map RespF.base) g).2.calls⟩ := by
  obtain ⟨hj, ho, hh⟩ := executeF_base fixed f now h hb
  unfold executeSyncF executeSync
  generalize executeF fixed f now h = pf at hj ho hh
  generalize execute fixed f.job h = pe at hj ho
  obtain ⟨f0, fo⟩ := pf
  obtain ⟨j0, eo⟩ := pe
  simp only at hj ho hh
  subst hj ho
  cases hres : eo.res with
  | ok =>
    simp only [hres]
    obtain ⟨l1, l2, l3, l4⟩ := syncLoopF_base fixed now d rs f0 0 hwf
    generalize syncLoopF fixed now d (f0, 0) rs = qf at l1 l2 l3 l4
    generalize syncLoop fixed f0.job (rs.map RespF.base) = qb at l1 l3 l4
    obtain ⟨⟨f1, k1⟩, fouts, fend⟩ := qf
    obtain ⟨j1, bouts, bend⟩ := qb
    simp only at l1 l2 l3 l4
    subst l1 l3 l4
    have hflat2 : List.map ((fun x => x.calls) ∘ Out.lift) bouts = List.map (fun x => x.calls) bouts := by
      apply List.map_congr_left
      intro a _
      rfl
    have hflat : (List.map (fun x => x.calls) (List.map Out.lift bouts)).flatten =
        (List.map (fun x => x.calls) bouts).flatten := by
      simp [List.map_map, hflat2]
    cases fend with
    | complete =>
      simp only
      obtain ⟨g1, g2, _⟩ := getResultsF_base fixed f1 (now + ((k1 - 1 : Nat) : Int) * d) .conn .conn g
        (by simp [RespF.WF]) (by simp [RespF.WF])
      simp only [RespF.base] at g1 g2
      refine ⟨g1, ?_⟩
      rw [g2]
      simp [SyncOut.toFRes, SyncOut.calls, sleepsOf, FRes.toFin, hflat2]
    | raised =>
      refine ⟨by simp, ?_⟩
      simp only [SyncOut.toFRes, SyncOut.calls, sleepsOf, hflat, List.length_map, List.append_nil,
        List.getLast?_map]
      cases bouts.getLast? <;> simp [Out.lift, FRes.toFin, hres]
    | pending =>
      refine ⟨by simp, ?_⟩
      simp [SyncOut.toFRes, SyncOut.calls, sleepsOf, hflat2]
  | st s => simp [hres, SyncOut.toFRes, SyncOut.calls, FRes.toFin]
  | flag b => simp [hres, SyncOut.toFRes, SyncOut.calls, FRes.toFin]
  | newJob n => simp [hres, SyncOut.toFRes, SyncOut.calls, FRes.toFin]
  | results t => simp [hres, SyncOut.toFRes, SyncOut.calls, FRes.toFin]
  | raised e => simp [hres, SyncOut.toFRes, SyncOut.calls, FRes.toFin]

end PM.C17
