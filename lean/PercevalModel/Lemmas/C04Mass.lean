/-
  C04 — the engine hypothesis `EngOK` discharged for the Fock-space engine of a unitary matrix
  (helper lemmas and witnesses for `Props/C04.lean`).  Uses C02's normalisation theorem.
-/
import PercevalModel.Lemmas.C04
import PercevalModel.Props.C02

open Matrix

namespace PM.C04
open PM.Fock PM.Dist PM.SimSpec

theorem mass_probsFock {m : ℕ} (U : Matrix (Fin m) (Fin m) GQ) (s : Fock) :
    mass (probsFock U s) = ((allStates m s.sum).map (prob U s)).sum := by
  simp [mass, probsFock, Function.comp_def]

theorem prob_nonneg {m : ℕ} (U : Matrix (Fin m) (Fin m) GQ) (s t : Fock) : 0 ≤ prob U s t := by
  unfold prob GQ.normSq
  apply div_nonneg
  · exact add_nonneg (mul_self_nonneg _) (mul_self_nonneg _)
  · positivity

theorem NN_probsFock {m : ℕ} (U : Matrix (Fin m) (Fin m) GQ) (s : Fock) : NN (probsFock U s) := by
  intro e he
  obtain ⟨t, _, rfl⟩ := List.mem_map.mp he
  exact prob_nonneg U s t

/-- the unconditioned distribution of a mixture has total probability one when every group's
distribution has and the weights sum to one -/
theorem mass_full_one (eng : Fock → D) (m : ℕ) (members : List Member)
    (hm : ∀ mb ∈ members, ∀ s ∈ mb.groups, mass (eng s) = 1) (hw : (members.map (·.w)).sum = 1) :
    mass (full eng m members) = 1 := by
  unfold full
  apply mass_mix_one
  · intro p hp
    obtain ⟨mb, hmb, rfl⟩ := List.mem_map.1 hp
    exact mass_fullMember eng m mb (hm mb hmb)
  · rw [List.map_map]; exact hw

/-! ### witnesses for the non-vacuity examples: a genuinely mixing unitary (`PM.C02.exU`: 3/5 on the
diagonal, 4i/5 off it), mode 1 heralded on 0 photons, filter 1, a mixture one of whose members (the
vacuum) falls below the filter -/

def uCfg : Cfg := { m := 2, heralds := [(1, 0)], ps := .tt, userFilter := 1, keepHeralds := false, pnr := true }

def uMembers : List Member := [⟨1/2, [[1, 0]]⟩, ⟨1/4, [[0, 1]]⟩, ⟨1/4, [[0, 0]]⟩]

theorem exU_isUnitary : IsUnitary PM.C02.exU := by unfold IsUnitary; decide +kernel

theorem prob_exU_a : prob PM.C02.exU [1, 0] [1, 0] = 9 / 25 := by
  unfold prob
  rw [PM.C02.pamp_single _ _ _ rfl rfl]
  simp [expand, expandFrom, entry, PM.C02.exU, GQ.normSq, prodFact]
  norm_num

theorem prob_exU_b : prob PM.C02.exU [0, 1] [1, 0] = 16 / 25 := by
  unfold prob
  rw [PM.C02.pamp_single _ _ _ rfl rfl]
  simp [expand, expandFrom, entry, PM.C02.exU, GQ.normSq, prodFact]
  norm_num

theorem uWF : HeraldsWF uCfg.m uCfg.heralds := ⟨by decide, by decide⟩

theorem uLen : ∀ mb ∈ uMembers, ∀ s ∈ mb.groups, s.length = 2 := by
  intro mb hmb s hs
  simp only [uMembers, List.mem_cons, List.not_mem_nil, or_false] at hmb
  rcases hmb with rfl | rfl | rfl <;>
  · simp only [List.mem_cons, List.not_mem_nil, or_false] at hs
    subst hs; rfl

theorem uMix : MixOK uMembers := by
  refine ⟨?_, ?_⟩
  · norm_num [uMembers]
  · intro mb hmb
    simp only [uMembers, List.mem_cons, List.not_mem_nil, or_false] at hmb
    rcases hmb with rfl | rfl | rfl <;> norm_num

/-- something is retained: the outputs `|1,0>` of the two one-photon members, total 1/2·9/25 + 1/4·16/25 -/
theorem uRet : mass (retained (cond uCfg) (full (probsFock PM.C02.exU) uCfg.m uMembers)) = 17 / 50 := by
  have e1 : allStates 2 1 = [[1, 0], [0, 1]] := by decide
  have e0 : allStates 2 0 = [[0, 0]] := by decide
  simp [retained, C04.cond, full, fullMember, convAll, uMembers, uCfg, mix, scale, conv, restrict, zeros,
    fadd, physOk, logicOk, heraldsOk, PS.eval, minFilter, nHeralds, mass, List.replicate, probsFock, e1, e0]
  rw [prob_exU_a, prob_exU_b]
  norm_num

end PM.C04
