/-
  C07 (extension 3) — helper lemmas: a loss channel's two-mode block in the presence of photons in the other
  modes (spectator factorisation of the Fock amplitudes of `twoMode N a b B`, from C02's `pamp_place`).
-/
import PercevalModel.Lemmas.C07
import PercevalModel.Lemmas.C02Embed
import PercevalModel.Model.C07Sel

open Matrix

namespace PM.C07
variable {R : Type}

theorem twoG_eq_none_iff {N a b : ℕ} (j : Fin N) : twoG N a b j = none ↔ j.val ≠ a ∧ j.val ≠ b := by
  unfold twoG
  by_cases h1 : j.val = a
  · simp [h1]
  · by_cases h2 : j.val = b
    · rw [if_neg h1, if_pos h2]; simp [h2]
    · rw [if_neg h1, if_neg h2]; simp [h1, h2]

/-- product of the factorials of the spectator modes (every mode except `a` and `b`) -/
def spectFact (N a b : ℕ) (s : List ℕ) : ℕ :=
  ∏ j : Fin N with twoG N a b j = none, (s.getD j.val 0).factorial

theorem spectFact_ne_zero (N a b : ℕ) (s : List ℕ) : spectFact N a b s ≠ 0 := by
  unfold spectFact
  exact Finset.prod_ne_zero_iff.2 fun j _ => Nat.factorial_ne_zero _

/-- **spectator factorisation for a channel block** (amplitudes): the block `B` on the modes `(a, b)` of an
`N`-mode circuit leaves every other mode alone and acts on the photons of `(a, b)` as `B` alone does. -/
theorem pamp_twoMode [CommRing R] {N a b : ℕ} (ha : a < N) (hb : b < N) (hab : a ≠ b)
    (B : Matrix (Fin 2) (Fin 2) R) (s t : List ℕ) (hs : s.length = N) (ht : t.length = N) :
    Fock.pamp (twoMode N a b B) s t =
      if ∀ j : Fin N, twoG N a b j = none → t.getD j.val 0 = s.getD j.val 0 then
        ((spectFact N a b s : ℕ) : R) *
          Fock.pamp B [s.getD a 0, s.getD b 0] [t.getD a 0, t.getD b 0]
      else 0 := by
  unfold twoMode spectFact
  rw [PM.C02.Embed.pamp_place (twoF a b ha hb) (twoG N a b) (twoG_partialInv ha hb hab) B s t hs ht]
  simp [List.ofFn_succ, twoF]

theorem prodFact_twoMode {N a b : ℕ} (ha : a < N) (hb : b < N) (hab : a ≠ b) (s : List ℕ)
    (hs : s.length = N) :
    Fock.prodFact s = spectFact N a b s * Fock.prodFact [s.getD a 0, s.getD b 0] := by
  rw [PM.C02.Embed.prodFact_split (twoF a b ha hb) (twoG N a b) (twoG_partialInv ha hb hab) s hs]
  simp [List.ofFn_succ, twoF, spectFact]

theorem spectFact_congr {N a b : ℕ} (s t : List ℕ)
    (h : ∀ j : Fin N, twoG N a b j = none → t.getD j.val 0 = s.getD j.val 0) :
    spectFact N a b t = spectFact N a b s := by
  unfold spectFact
  refine Finset.prod_congr rfl fun j hj => ?_
  rw [h j (Finset.mem_filter.1 hj).2]

theorem spectAgree_iff {N a b : ℕ} (s t : List ℕ) (hs : s.length = N) :
    spectAgree a b s t = true ↔
      ∀ j : Fin N, twoG N a b j = none → t.getD j.val 0 = s.getD j.val 0 := by
  subst hs
  unfold spectAgree
  simp only [List.all_eq_true, List.mem_range, Bool.or_eq_true, beq_iff_eq, twoG_eq_none_iff]
  constructor
  · intro h j hj
    rcases h j.val j.isLt with (h1 | h1) | h1
    · exact absurd h1 hj.1
    · exact absurd h1 hj.2
    · exact h1
  · intro h j hj
    by_cases h1 : j = a
    · exact Or.inl (Or.inl h1)
    · by_cases h2 : j = b
      · exact Or.inl (Or.inr h2)
      · exact Or.inr (h ⟨j, hj⟩ ⟨h1, h2⟩)

/-- **spectator factorisation for a channel block** (probabilities): the normalisations `∏ sᵢ!`, `∏ tⱼ!` split in
the same way, so the transition probability of the block inside an `N`-mode circuit is the transition probability
of the bare `2 × 2` block between the two-mode states, and zero when any other mode changes -/
theorem prob_twoMode {N a b : ℕ} (ha : a < N) (hb : b < N) (hab : a ≠ b)
    (B : Matrix (Fin 2) (Fin 2) GQ) (s t : List ℕ) (hs : s.length = N) (ht : t.length = N) :
    Fock.prob (twoMode N a b B) s t =
      if spectAgree a b s t then
        Fock.prob B [s.getD a 0, s.getD b 0] [t.getD a 0, t.getD b 0]
      else 0 := by
  unfold Fock.prob
  rw [pamp_twoMode ha hb hab B s t hs ht]
  by_cases h : spectAgree a b s t = true
  · have h' := (spectAgree_iff s t hs).1 h
    rw [if_pos h, if_pos h', prodFact_twoMode ha hb hab s hs, prodFact_twoMode ha hb hab t ht,
      spectFact_congr s t h', normSq_mul, normSq_natCast]
    have hF : (spectFact N a b s : ℚ) ≠ 0 := Nat.cast_ne_zero.2 (spectFact_ne_zero N a b s)
    push_cast
    rw [show ((spectFact N a b s : ℚ) * (Fock.prodFact [s.getD a 0, s.getD b 0] : ℚ)) *
        ((spectFact N a b s : ℚ) * (Fock.prodFact [t.getD a 0, t.getD b 0] : ℚ)) =
        ((spectFact N a b s : ℚ) * (spectFact N a b s : ℚ)) *
          ((Fock.prodFact [s.getD a 0, s.getD b 0] : ℚ) * (Fock.prodFact [t.getD a 0, t.getD b 0] : ℚ)) by ring,
      mul_div_mul_left _ _ (mul_ne_zero hF hF)]
  · rw [if_neg h, if_neg (mt (spectAgree_iff s t hs).2 h)]
    simp [GQ.normSq]

end PM.C07
