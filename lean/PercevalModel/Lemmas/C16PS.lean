/-
  C16 (extension 6) — lemmas about the post-selection as a predicate (`Model/C16PS.lean`).
-/
import PercevalModel.Model.C16PS
import PercevalModel.Lemmas.C16Mat

namespace PM.C16
namespace PSel

theorem sumModes_ins (st : List Nat) (a : Nat) (l : List Nat) :
    sumModes st (ins a l) = st.getD a 0 + sumModes st l := by
  induction l with
  | nil => rfl
  | cons b t ih =>
    unfold ins
    by_cases h : a ≤ b
    · rw [if_pos h]; rfl
    · rw [if_neg h]; simp only [sumModes, ih]; omega

theorem sumModes_sortNat (st : List Nat) (l : List Nat) : sumModes st (sortNat l) = sumModes st l := by
  induction l with
  | nil => rfl
  | cons a t ih => simp only [sortNat, sumModes_ins, sumModes, ih]

theorem sumModes_map (f : Nat → Nat) (s t : List Nat) (ms : List Nat)
    (h : ∀ m ∈ ms, t.getD (f m) 0 = s.getD m 0) : sumModes t (ms.map f) = sumModes s ms := by
  induction ms with
  | nil => rfl
  | cons a r ih =>
    simp only [List.map_cons, sumModes]
    rw [h a (List.mem_cons_self), ih (fun m hm => h m (List.mem_cons_of_mem _ hm))]

mutual
  /-- relabelled conditions read the relabelled state as the original conditions read the original state -/
  theorem eval_mapModes (f : Nat → Nat) (s t : List Nat) :
      ∀ x : Expr, (∀ m ∈ x.modes, t.getD (f m) 0 = s.getD m 0) → eval (mapModes f x) t = eval x s
    | .cond ms c n, h => by
      simp only [Expr.modes] at h
      simp only [mapModes, eval]
      rw [sumModes_sortNat, sumModes_map f s t ms h]
    | .not x, h => by
      simp only [Expr.modes] at h
      simp only [mapModes, eval]
      rw [eval_mapModes f s t x h]
    | .nary o as, h => by
      simp only [Expr.modes] at h
      simp only [mapModes, eval]
      rw [evalArgs_mapModes f s t as h]
  theorem evalArgs_mapModes (f : Nat → Nat) (s t : List Nat) :
      ∀ as : Args, (∀ m ∈ as.modes, t.getD (f m) 0 = s.getD m 0) →
        evalArgs (mapModesArgs f as) t = evalArgs as s
    | .nil, _ => rfl
    | .cons x r, h => by
      simp only [Args.modes] at h
      simp only [mapModesArgs, evalArgs]
      rw [eval_mapModes f s t x (fun m hm => h m (List.mem_append_left _ hm)),
        evalArgs_mapModes f s t r (fun m hm => h m (List.mem_append_right _ hm))]
end

theorem eval_mapModes_id (f : Nat → Nat) (hf : ∀ m, f m = m) (s : List Nat) (x : Expr) :
    eval (mapModes f x) s = eval x s :=
  eval_mapModes f s s x (fun m _ => by rw [hf m])

theorem invVec_length (σ : List Nat) : (invVec σ).length = σ.length := by
  simp only [invVec, List.length_map, List.length_range]

/-- the mode map of the conversion sends local mode `m` to the remote mode that carries it -/
theorem relabelState_applyPerm (n : Nat) (σ : List Nat) (hlen : σ.length = n) (hsurj : ∀ m, m < n → m ∈ σ)
    (s : List Nat) (hs : s.length = n) (m : Nat) :
    (relabelState σ s).getD (applyPermFn (invVec σ) 0 m) 0 = s.getD m 0 := by
  unfold applyPermFn
  rw [invVec_length, hlen]
  by_cases hm : m < n
  · rw [if_pos ⟨Nat.zero_le _, by omega⟩]
    have hmem := hsurj m hm
    have hidx : σ.idxOf m < σ.length := List.idxOf_lt_length_of_mem hmem
    have h1 : (invVec σ).getD (m - 0) 0 = σ.idxOf m := by
      unfold invVec
      rw [List.getD_eq_getElem?_getD, List.getElem?_map, List.getElem?_range (by rw [hlen]; omega)]
      rfl
    rw [h1, Nat.zero_add]
    unfold relabelState
    rw [List.getD_eq_getElem?_getD, List.getElem?_map, List.getElem?_eq_getElem hidx]
    simp only [Option.map_some, Option.getD_some, List.getElem_idxOf hidx]
  · rw [if_neg (by omega)]
    have h1 : (relabelState σ s).length = n := by simp only [relabelState, List.length_map, hlen]
    rw [List.getD_eq_getElem?_getD, List.getD_eq_getElem?_getD,
      List.getElem?_eq_none (by omega), List.getElem?_eq_none (by omega)]

theorem relabelState_identity (σ : List Nat) (hid : isIdentity σ = true) (s : List Nat) (hs : s.length = σ.length) :
    relabelState σ s = s := by
  have hσ : σ = List.range σ.length := by simpa [isIdentity] using hid
  unfold relabelState
  apply List.ext_getElem
  · simp only [List.length_map, hs]
  · intro i h1 h2
    have hi : i < σ.length := by simpa using h1
    have hget : σ[i] = i := by
      have : σ[i]? = (List.range σ.length)[i]? := by rw [← hσ]
      rw [List.getElem?_eq_getElem hi, List.getElem?_range hi] at this
      exact Option.some.inj this
    rw [List.getElem_map, hget, List.getD_eq_getElem?_getD, List.getElem?_eq_getElem h2]
    rfl

/-- the merged post-selection of a composition by the whole-span mapping `σ` decides, on the relabelled state, what
the added experiment's post-selection decides on the original state -/
theorem composePost_eval (n : Nat) (σ : List Nat) (hlen : σ.length = n) (hsurj : ∀ m, m < n → m ∈ σ)
    (s : List Nat) (hs : s.length = n) (x : Expr) :
    eval (composePost (if isIdentity σ then none else some σ) 0 x) (relabelState σ s) = eval x s := by
  unfold composePost
  rw [eval_mapModes_id _ (fun m => by simp [shiftFn])]
  by_cases hid : isIdentity σ = true
  · rw [if_pos hid, relabelState_identity σ hid s (by rw [hs, hlen])]
  · rw [if_neg hid]
    exact eval_mapModes _ s _ x (fun m _ => relabelState_applyPerm n σ hlen hsurj s hs m)

theorem mem_relabelOf (p : Exp) (m : Nat) (hm : m < p.size) : m ∈ relabelOf p := by
  unfold relabelOf
  by_cases h : (heraldModes p).contains m = true
  · exact List.mem_append_right _ (List.contains_iff_mem.1 h)
  · refine List.mem_append_left _ (List.mem_filter.2 ⟨List.mem_range.2 hm, ?_⟩)
    simp only [Bool.not_eq_true] at h
    simp only [h, Bool.not_false]

theorem withInput_post (e e' : Exp) (s : List Nat) (h : withInput e s = .ok e') : e'.post = e.post := by
  unfold withInput at h
  split at h
  · cases h
  · cases h; rfl

theorem fromLocal_post (fixed : Bool) (p e : Exp) (h : fromLocal fixed p = .ok e) :
    e.post = p.post.map (·.relabel (normPerm (relabelOf p))) := by
  rw [fromLocal_eq] at h
  cases hi : p.input with
  | none => rw [hi] at h; cases h; rfl
  | some s =>
    rw [hi] at h
    exact withInput_post _ _ _ h

theorem isIdentity_nil : isIdentity [] = true := rfl

end PSel
end PM.C16
