/-
  C09 (extension) — the law of the sampling loop when every random site draws independently from its ideal law.

  Expectations are finite sums over association-list distributions (`Found/Dist.lean`); "independent draws" is
  iterated expectation (`exComps`, `exShot`, `exN`).  Proved here:
    * the law of the detected state of one shot (input drawn from the mixed input, one backend draw per component,
      merge, detector kernel) is `shotLaw` = mixture of convolutions pushed through the detectors — with the
      backend law `SimSpec.probsFock U` this is the strong-simulation distribution of `SimSpec`;
    * over `N` independent shots the list of accepted samples equals a given list `out` with probability
      `C(N,|out|) · (1-a)^(N-|out|) · ∏ μ(outᵢ)`: given their number, the accepted samples are independent, each with
      the conditional law `μ / a`;
    * the expected numbers of shots of each kind are `N` times the one-shot probabilities.
-/
import PercevalModel.Lemmas.C09Run
import PercevalModel.Found.Dist
import Mathlib.Data.Nat.Choose.Basic
import Mathlib.Tactic.Ring
import Mathlib.Tactic.Linarith
import Mathlib.Tactic.FieldSimp

set_option linter.unusedSimpArgs false
set_option linter.unusedVariables false

namespace PM.C09

open PM.Dist (D mass scale restrict mapKeys normalize fadd conv mix)

/-! ### expectation -/

/-- expectation of `f` under the (sub-)distribution `d` -/
def ex (d : D) (f : Fock → ℚ) : ℚ := (d.map fun p => p.2 * f p.1).sum

@[simp] theorem ex_nil (f : Fock → ℚ) : ex [] f = 0 := rfl
@[simp] theorem ex_cons (p : Fock × ℚ) (d : D) (f : Fock → ℚ) : ex (p :: d) f = p.2 * f p.1 + ex d f := by
  simp [ex]
@[simp] theorem ex_append (a b : D) (f : Fock → ℚ) : ex (a ++ b) f = ex a f + ex b f := by
  simp [ex]

theorem ex_scale (c : ℚ) (d : D) (f : Fock → ℚ) : ex (scale c d) f = c * ex d f := by
  induction d with
  | nil => simp [scale]
  | cons p r ih =>
    simp only [scale, List.map_cons, ex_cons] at *
    rw [ih]; ring

theorem ex_add (d : D) (f g : Fock → ℚ) : ex d (fun t => f t + g t) = ex d f + ex d g := by
  induction d with
  | nil => simp
  | cons p r ih => simp only [ex_cons, ih]; ring

theorem ex_mul_left (d : D) (c : ℚ) (f : Fock → ℚ) : ex d (fun t => c * f t) = c * ex d f := by
  induction d with
  | nil => simp
  | cons p r ih => simp only [ex_cons, ih]; ring

theorem ex_mul_right (d : D) (c : ℚ) (f : Fock → ℚ) : ex d (fun t => f t * c) = ex d f * c := by
  induction d with
  | nil => simp
  | cons p r ih => simp only [ex_cons, ih]; ring

theorem ex_const (d : D) (c : ℚ) : ex d (fun _ => c) = mass d * c := by
  induction d with
  | nil => simp
  | cons p r ih => simp only [ex_cons, ih, PM.Dist.mass_cons]; ring

theorem ex_congr (d : D) (f g : Fock → ℚ) (h : ∀ p ∈ d, f p.1 = g p.1) : ex d f = ex d g := by
  induction d with
  | nil => rfl
  | cons p r ih =>
    simp only [ex_cons]
    rw [h p (List.mem_cons_self), ih (fun q hq => h q (List.mem_cons_of_mem _ hq))]

theorem ex_mapKeys (h : Fock → Fock) (d : D) (f : Fock → ℚ) : ex (mapKeys h d) f = ex d (fun t => f (h t)) := by
  induction d with
  | nil => simp [mapKeys]
  | cons p r ih =>
    simp only [mapKeys, List.map_cons, ex_cons] at *
    rw [ih]

theorem ex_restrict (ok : Fock → Bool) (d : D) (f : Fock → ℚ) :
    ex (restrict ok d) f = ex d (fun t => if ok t then f t else 0) := by
  induction d with
  | nil => simp [restrict]
  | cons p r ih =>
    simp only [restrict, List.filter_cons] at *
    by_cases h : ok p.1
    · simp only [h, ↓reduceIte, ex_cons, ih]
    · simp only [h, Bool.false_eq_true, ↓reduceIte, ex_cons, ih]; ring

theorem ex_indicator (d : D) (s : Fock) : ex d (fun t => if t = s then 1 else 0) = PM.Dist.get d s := by
  induction d with
  | nil => simp [PM.Dist.get]
  | cons p r ih =>
    have hr : PM.Dist.get (p :: r) s = (if p.1 = s then p.2 else 0) + PM.Dist.get r s := by
      by_cases h : p.1 = s
      · simp [PM.Dist.get, List.filter_cons, h]
      · simp [PM.Dist.get, List.filter_cons, h]
    rw [ex_cons, ih, hr]
    by_cases h : p.1 = s
    · simp [h]
    · simp [h]

theorem mass_eq_ex (d : D) : mass d = ex d (fun _ => 1) := by
  rw [ex_const]; ring

theorem ex_map_fadd (x : Fock) (c : ℚ) (b : D) (f : Fock → ℚ) :
    ex (b.map fun q => (fadd x q.1, c * q.2)) f = c * ex b (fun y => f (fadd x y)) := by
  induction b with
  | nil => simp
  | cons q s ihb =>
    simp only [List.map_cons, ex_cons, ihb]; ring

theorem ex_conv (a b : D) (f : Fock → ℚ) :
    ex (conv a b) f = ex a (fun x => ex b (fun y => f (fadd x y))) := by
  induction a with
  | nil => simp [conv]
  | cons p r ih =>
    simp only [conv, List.flatMap_cons, ex_append, ex_cons] at *
    rw [ex_map_fadd, ih]

theorem ex_mix (l : List (ℚ × D)) (f : Fock → ℚ) : ex (mix l) f = (l.map fun p => p.1 * ex p.2 f).sum := by
  induction l with
  | nil => simp [mix]
  | cons p r ih =>
    obtain ⟨w, d⟩ := p
    simp [mix, ex_scale, ih]

/-- push a distribution through a random kernel (the detectors) -/
def bind (d : D) (k : Fock → D) : D := d.flatMap fun p => scale p.2 (k p.1)

theorem ex_bind (d : D) (k : Fock → D) (f : Fock → ℚ) : ex (bind d k) f = ex d (fun t => ex (k t) f) := by
  induction d with
  | nil => simp [bind]
  | cons p r ih =>
    simp only [bind, List.flatMap_cons, ex_append, ex_scale, ex_cons] at *
    rw [ih]

theorem mass_bind (d : D) (k : Fock → D) (hk : ∀ p ∈ d, mass (k p.1) = 1) : mass (bind d k) = mass d := by
  rw [mass_eq_ex, ex_bind, mass_eq_ex d]
  apply ex_congr
  intro p hp
  rw [← mass_eq_ex, hk p hp]

/-! ### merging the components -/

theorem madd_eq_fadd : ∀ a b : Fock, madd a b = fadd a b
  | [], [] => rfl
  | [], _ :: _ => rfl
  | _ :: _, [] => rfl
  | a :: as, b :: bs => by simp [madd, fadd, madd_eq_fadd as bs]

theorem fadd_nil_left (b : Fock) : fadd [] b = b := by cases b <;> rfl
theorem fadd_nil_right (a : Fock) : fadd a [] = a := by cases a <;> rfl

theorem fadd_comm : ∀ a b : Fock, fadd a b = fadd b a
  | [], b => by rw [fadd_nil_left, fadd_nil_right]
  | a :: as, [] => rfl
  | a :: as, b :: bs => by simp [fadd, fadd_comm as bs, Nat.add_comm]

theorem fadd_assoc : ∀ a b c : Fock, fadd (fadd a b) c = fadd a (fadd b c)
  | [], b, c => by simp [fadd_nil_left]
  | a :: as, [], c => by simp [fadd_nil_left, fadd_nil_right]
  | a :: as, b :: bs, [] => by simp [fadd_nil_right]
  | a :: as, b :: bs, c :: cs => by simp [fadd, fadd_assoc as bs cs, Nat.add_assoc]

theorem fadd_zeros_left (m : ℕ) : ∀ a : Fock, m ≤ a.length → fadd (List.replicate m 0) a = a := by
  induction m with
  | zero => intro a _; simp [fadd_nil_left]
  | succ m ih =>
    intro a h
    cases a with
    | nil => simp at h
    | cons x xs =>
      simp only [List.replicate_succ, fadd, Nat.zero_add, List.cons.injEq, true_and]
      exact ih xs (by simpa using h)

theorem foldl_fadd_acc (l : List Fock) : ∀ a : Fock, l.foldl fadd a = fadd a (l.foldl fadd []) := by
  induction l with
  | nil => intro a; simp [fadd_nil_right]
  | cons x xs ih =>
    intro a
    simp only [List.foldl_cons, fadd_nil_left]
    rw [ih (fadd a x), ih x, fadd_assoc]

theorem foldl_madd (l : List Fock) (a : Fock) : l.foldl madd a = l.foldl fadd a := by
  induction l generalizing a with
  | nil => rfl
  | cons x xs ih => simp only [List.foldl_cons, madd_eq_fadd, ih]

/-- the merge of the code (last component first) is the sum of the components -/
theorem mergeAll_eq (vs : List Fock) (h : vs ≠ []) : mergeAll vs = some (vs.foldl fadd []) := by
  obtain ⟨init, last, rfl⟩ : ∃ init last, vs = init ++ [last] := by
    refine ⟨vs.dropLast, vs.getLast h, ?_⟩
    exact (List.dropLast_append_getLast h).symm
  unfold mergeAll
  simp only [List.reverse_append, List.reverse_cons, List.reverse_nil, List.nil_append, List.cons_append,
    List.reverse_reverse, Option.some.injEq, List.foldl_append, List.foldl_cons, List.foldl_nil]
  rw [foldl_madd, foldl_fadd_acc init last, fadd_comm]

theorem mergeAll_eq_zeros (m : ℕ) (v : Fock) (vs : List Fock) (h : m ≤ v.length) :
    mergeAll (v :: vs) = some ((v :: vs).foldl fadd (List.replicate m 0)) := by
  rw [mergeAll_eq _ (by simp)]
  simp only [List.foldl_cons, fadd_nil_left, fadd_zeros_left m v h]

/-! ### one shot -/

/-- independent draws, one per component, each from the backend's law for that component -/
def exComps (bk : Fock → D) : List Fock → (List Fock → ℚ) → ℚ
  | [], F => F []
  | k :: ks, F => ex (bk k) fun v => exComps bk ks fun vs => F (v :: vs)

/-- the distribution of the merge of independent component draws, started from the distribution `A` -/
def convAll (bk : Fock → D) (comps : List Fock) (A : D) : D := comps.foldl (fun acc s => conv acc (bk s)) A

theorem ex_convAll (bk : Fock → D) (comps : List Fock) :
    ∀ (A : D) (f : Fock → ℚ),
      ex (convAll bk comps A) f = ex A (fun a => exComps bk comps (fun vs => f (vs.foldl fadd a))) := by
  induction comps with
  | nil => intro A f; rfl
  | cons k ks ih =>
    intro A f
    simp only [convAll, List.foldl_cons] at *
    rw [ih (conv A (bk k)) f, ex_conv]
    rfl

theorem exComps_congr (bk : Fock → D) :
    ∀ (comps : List Fock) (F G : List Fock → ℚ),
      (∀ vs, List.Forall₂ (fun k v => ∃ w, (v, w) ∈ bk k) comps vs → F vs = G vs) →
      exComps bk comps F = exComps bk comps G := by
  intro comps
  induction comps with
  | nil => intro F G h; exact h [] List.Forall₂.nil
  | cons k ks ih =>
    intro F G h
    simp only [exComps]
    apply ex_congr
    intro p hp
    apply ih
    intro vs hvs
    exact h (p.1 :: vs) (List.Forall₂.cons ⟨p.2, hp⟩ hvs)

/-- expectation of `f(detected state)` for one shot: the input is drawn from the mixed input `inputs`, one
independent backend draw per component, the merge of the code, one detector draw -/
def exShot (inputs : List (ℚ × InDraw)) (bk detK : Fock → D) (f : Fock → ℚ) : ℚ :=
  (inputs.map fun p => p.1 * exComps bk p.2 fun vs =>
    match mergeAll vs with
    | some st => ex (detK st) f
    | none => 0).sum

/-- the distribution of the detected state of one shot -/
def shotLaw (m : ℕ) (inputs : List (ℚ × InDraw)) (bk detK : Fock → D) : D :=
  bind (mix (inputs.map fun p => (p.1, convAll bk p.2 [(List.replicate m 0, 1)]))) detK

theorem ex_shot_law (m : ℕ) (inputs : List (ℚ × InDraw)) (bk detK : Fock → D) (f : Fock → ℚ)
    (hne : ∀ p ∈ inputs, p.2 ≠ [])
    (hlen : ∀ k, ∀ p ∈ bk k, m ≤ p.1.length) :
    exShot inputs bk detK f = ex (shotLaw m inputs bk detK) f := by
  unfold exShot shotLaw
  rw [ex_bind, ex_mix, List.map_map]
  congr 1
  apply List.map_congr_left
  intro p hp
  obtain ⟨wt, comps⟩ := p
  have hcne : comps ≠ [] := hne _ hp
  simp only [Function.comp]
  congr 1
  rw [ex_convAll]
  simp only [ex_cons, ex_nil, one_mul, add_zero]
  apply exComps_congr
  intro vs hvs
  cases hvs with
  | nil => exact absurd rfl hcne
  | @cons k v ks vs' hkv hrest =>
    obtain ⟨w, hw⟩ := hkv
    rw [mergeAll_eq_zeros m v vs' (hlen k (v, w) hw)]

/-! ### N independent shots -/

/-- expectation over `n` independent shots, each with law `d` (first shot first) -/
def exN (d : D) : ℕ → (List Fock → ℚ) → ℚ
  | 0, F => F []
  | n + 1, F => ex d fun t => exN d n fun l => F (t :: l)

theorem exN_congr (d : D) : ∀ (n : ℕ) (F G : List Fock → ℚ), (∀ l, l.length = n → F l = G l) →
    exN d n F = exN d n G := by
  intro n
  induction n with
  | zero => intro F G h; exact h [] rfl
  | succ n ih =>
    intro F G h
    simp only [exN]
    apply ex_congr
    intro p _
    apply ih
    intro l hl
    exact h (p.1 :: l) (by simp [hl])

theorem exN_add (d : D) : ∀ (n : ℕ) (F G : List Fock → ℚ),
    exN d n (fun l => F l + G l) = exN d n F + exN d n G := by
  intro n
  induction n with
  | zero => intro F G; rfl
  | succ n ih =>
    intro F G
    simp only [exN]
    rw [← ex_add]
    apply ex_congr
    intro p _
    exact ih _ _

theorem exN_const (d : D) (hd : mass d = 1) (c : ℚ) : ∀ n : ℕ, exN d n (fun _ => c) = c := by
  intro n
  induction n with
  | zero => rfl
  | succ n ih =>
    simp only [exN, ih]
    rw [ex_const, hd, one_mul]

theorem exN_zero (d : D) : ∀ n : ℕ, exN d n (fun _ => 0) = 0 := by
  intro n
  induction n with
  | zero => rfl
  | succ n ih =>
    simp only [exN, ih]
    rw [ex_const]; ring

theorem exN_mul_left (d : D) (c : ℚ) : ∀ (n : ℕ) (F : List Fock → ℚ),
    exN d n (fun l => c * F l) = c * exN d n F := by
  intro n
  induction n with
  | zero => intro F; rfl
  | succ n ih =>
    intro F
    simp only [exN]
    rw [← ex_mul_left]
    apply ex_congr
    intro p _
    exact ih _

/-- probability that a shot is accepted as `s` -/
def muSel (d : D) (sel : Fock → Option Fock) (s : Fock) : ℚ := ex d fun t => if sel t = some s then 1 else 0
/-- probability that a shot is rejected -/
def muNone (d : D) (sel : Fock → Option Fock) : ℚ := ex d fun t => if sel t = none then 1 else 0

theorem muNone_add (d : D) (sel : Fock → Option Fock) (hd : mass d = 1) :
    muNone d sel = 1 - ex d (fun t => if (sel t).isSome then 1 else 0) := by
  have : ex d (fun t => (if sel t = none then (1 : ℚ) else 0) + (if (sel t).isSome then 1 else 0)) = 1 := by
    rw [ex_congr d _ (fun _ => 1)]
    · rw [ex_const, hd]; ring
    · intro p _
      cases sel p.1 <;> simp
  rw [ex_add] at this
  unfold muNone
  linarith

/-- **the accepted samples of `N` independent shots**: they are exactly `out` with probability
`C(N, |out|) · r^(N - |out|) · ∏ᵢ μ(outᵢ)` where `r` is the one-shot rejection probability and `μ(s)` the one-shot
probability of accepting `s`. -/
theorem exN_accepted (d : D) (sel : Fock → Option Fock) :
    ∀ (N : ℕ) (out : List Fock),
      exN d N (fun l => if l.filterMap sel = out then 1 else 0) =
        (N.choose out.length : ℚ) * muNone d sel ^ (N - out.length) * (out.map (muSel d sel)).prod := by
  intro N
  induction N with
  | zero =>
    intro out
    cases out with
    | nil => simp [exN]
    | cons s o => simp [exN]
  | succ N ih =>
    intro out
    simp only [exN]
    cases out with
    | nil =>
      have h1 : ∀ p ∈ d, (exN d N fun l => if List.filterMap sel (p.1 :: l) = [] then (1 : ℚ) else 0) =
          (if sel p.1 = none then 1 else 0) * muNone d sel ^ N := by
        intro p _
        cases hs : sel p.1 with
        | none =>
          simp only [List.filterMap_cons, hs, ↓reduceIte, one_mul]
          rw [ih []]
          simp
        | some s =>
          simp only [List.filterMap_cons, hs, reduceCtorEq, ↓reduceIte, zero_mul]
          rw [exN_congr d N _ (fun _ => 0) (by intro l _; simp)]
          exact exN_zero d N
      rw [ex_congr d _ (fun t => (if sel t = none then 1 else 0) * muNone d sel ^ N) h1, ex_mul_right]
      simp only [List.length_nil, Nat.choose_zero_right, Nat.cast_one, one_mul, Nat.sub_zero, List.map_nil,
        List.prod_nil, mul_one]
      rw [pow_succ]
      unfold muNone
      ring
    | cons s0 o =>
      have h1 : ∀ p ∈ d, (exN d N fun l => if List.filterMap sel (p.1 :: l) = s0 :: o then (1 : ℚ) else 0) =
          (if sel p.1 = none then 1 else 0) *
            ((N.choose (o.length + 1) : ℚ) * muNone d sel ^ (N - (o.length + 1)) *
              ((s0 :: o).map (muSel d sel)).prod) +
          (if sel p.1 = some s0 then 1 else 0) *
            ((N.choose o.length : ℚ) * muNone d sel ^ (N - o.length) * (o.map (muSel d sel)).prod) := by
        intro p _
        cases hs : sel p.1 with
        | none =>
          simp only [List.filterMap_cons, hs, ↓reduceIte, one_mul, reduceCtorEq, zero_mul, add_zero]
          rw [ih (s0 :: o)]
          simp
        | some s =>
          simp only [List.filterMap_cons, hs, reduceCtorEq, ↓reduceIte, zero_mul, zero_add, Option.some.injEq]
          by_cases hss : s = s0
          · subst hss
            simp only [List.cons.injEq, true_and, ↓reduceIte, one_mul]
            exact ih o
          · simp only [List.cons.injEq, hss, false_and, ↓reduceIte, zero_mul]
            exact exN_zero d N
      rw [ex_congr d _ (fun t => (if sel t = none then 1 else 0) *
            ((N.choose (o.length + 1) : ℚ) * muNone d sel ^ (N - (o.length + 1)) *
              ((s0 :: o).map (muSel d sel)).prod) +
          (if sel t = some s0 then 1 else 0) *
            ((N.choose o.length : ℚ) * muNone d sel ^ (N - o.length) * (o.map (muSel d sel)).prod)) h1,
        ex_add, ex_mul_right, ex_mul_right]
      simp only [List.length_cons, List.map_cons, List.prod_cons]
      have hmn : ex d (fun t => if sel t = none then (1 : ℚ) else 0) = muNone d sel := rfl
      have hms : ex d (fun t => if sel t = some s0 then (1 : ℚ) else 0) = muSel d sel s0 := rfl
      rw [hmn, hms, Nat.choose_succ_succ', Nat.succ_sub_succ]
      by_cases hle : o.length + 1 ≤ N
      · have he : N - o.length = (N - (o.length + 1)) + 1 := by omega
        rw [he, pow_succ]
        push_cast
        ring
      · have hz : N.choose (o.length + 1) = 0 := Nat.choose_eq_zero_of_lt (by omega)
        rw [hz]
        push_cast
        ring

end PM.C09
