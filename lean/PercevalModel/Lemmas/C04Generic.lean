/-
  C04 — lemmas for the superposed-input path (`Model/C04Generic.lean`):
  (A) the bookkeeping of `probs_svd` over abstract members whose computed distribution agrees with the unconditioned
      one after conditioning on the heralds is the specification's conditioning;
  (B) for a superposition, restricting every group's outputs to what the herald mask keeps commutes with the
      interference of the terms (`gatherAmps`) and disappears after conditioning on the heralds.
-/
import PercevalModel.Model.C04Generic
import PercevalModel.Lemmas.C04
import PercevalModel.Lemmas.C04Trim

namespace PM.C04
open PM.Fock PM.Dist PM.SimSpec

/-! ### (A) abstract members -/

structure AM.OK (c : Cfg) (ms : List AM) : Prop where
  inv : ∀ a ∈ ms, restrict (heraldsOk c.heralds) a.code = restrict (heraldsOk c.heralds) a.full
  shape : ∀ a ∈ ms, ∀ q ∈ a.full, q.1.sum = a.n
  massOne : ∀ a ∈ ms, mass a.full = 1
  nnCode : ∀ a ∈ ms, NN a.code
  wsum : (ms.map (·.w)).sum = 1
  wpos : ∀ a ∈ ms, 0 ≤ a.w

theorem mix_congr' {α : Type} : ∀ (l : List α) (f g : α → ℚ × D), (∀ a ∈ l, f a = g a) →
    mix (l.map f) = mix (l.map g)
  | [], _, _, _ => rfl
  | a :: r, f, g, h => by
    simp only [List.map_cons]
    rw [h a List.mem_cons_self, List.map_congr_left (fun x hx => h x (List.mem_cons_of_mem _ hx))]

theorem AM.mem_kept {c : Cfg} {ms : List AM} {a : AM} (h : a ∈ AM.kept c ms) : a ∈ ms := (List.mem_filter.1 h).1

theorem AM.restrict_phys (c : Cfg) : ∀ (ms : List AM), (∀ a ∈ ms, ∀ q ∈ a.full, q.1.sum = a.n) →
    restrict (physOk (cond c)) (AM.fullMix ms) = mix ((AM.kept c ms).map fun a => (a.w, a.full))
  | [], _ => rfl
  | a :: r, h => by
    have ih := AM.restrict_phys c r (fun a' ha' => h a' (List.mem_cons_of_mem _ ha'))
    have hk := h a List.mem_cons_self
    have e : AM.fullMix (a :: r) = scale a.w a.full ++ AM.fullMix r := rfl
    rw [e, restrict_append, restrict_scale, ih]
    by_cases hf : minFilter c ≤ a.n
    · have : AM.kept c (a :: r) = a :: AM.kept c r := by simp [AM.kept, hf]
      rw [this, restrict_of_all]
      · rfl
      · intro p hp
        simp [physOk, cond, hk p hp, hf]
    · have : AM.kept c (a :: r) = AM.kept c r := by simp [AM.kept, hf]
      rw [this, restrict_of_none]
      · rfl
      · intro p hp
        simp [physOk, cond, hk p hp, hf]

theorem AM.retained_eq (c : Cfg) (ms : List AM) (ok : AM.OK c ms) :
    retained (cond c) (AM.fullMix ms) = restrict (logicOk (cond c)) (AM.res c ms) := by
  have e1 : retained (cond c) (AM.fullMix ms) =
      restrict (logicOk (cond c)) (restrict (physOk (cond c)) (AM.fullMix ms)) := by
    rw [restrict_restrict]; rfl
  have split : ∀ d : D, restrict (logicOk (cond c)) d =
      restrict (fun t => c.ps.eval t) (restrict (heraldsOk c.heralds) d) := by
    intro d; rw [restrict_restrict]; rfl
  have hh : restrict (heraldsOk c.heralds) (mix ((AM.kept c ms).map fun a => (a.w, a.full))) =
      restrict (heraldsOk c.heralds) (AM.res c ms) := by
    rw [AM.res, restrict_mix, restrict_mix, List.map_map, List.map_map]
    apply mix_congr'
    intro a ha
    simp only [Function.comp]
    rw [ok.inv a (AM.mem_kept ha)]
  rw [e1, AM.restrict_phys c ms ok.shape, split, split, hh]

theorem AM.phys_eq (c : Cfg) (ms : List AM) (hw : (ms.map (·.w)).sum = 1) :
    AM.phys c ms = ((AM.kept c ms).map (·.w)).sum := by
  have := sum_filter_partition (fun a : AM => a.w) (fun a => decide (minFilter c ≤ a.n)) ms
  unfold AM.phys AM.kept
  linarith

theorem AM.physPerf_eq (c : Cfg) (ms : List AM) (ok : AM.OK c ms) :
    physPerf (cond c) (AM.fullMix ms) = AM.phys c ms := by
  rw [physPerf, AM.restrict_phys c ms ok.shape, AM.phys_eq c ms ok.wsum, mass_mix, List.map_map]
  congr 1
  apply List.map_congr_left
  intro a ha
  simp [ok.massOne a (AM.mem_kept ha)]

theorem AM.NN_res (c : Cfg) (ms : List AM) (ok : AM.OK c ms) : NN (AM.res c ms) := by
  apply NN.mix
  intro p hp
  simp only [List.mem_map] at hp
  obtain ⟨a, ha, rfl⟩ := hp
  exact ⟨ok.wpos a (AM.mem_kept ha), ok.nnCode a (AM.mem_kept ha)⟩

theorem AM.phys_pos_of_mass (c : Cfg) (ms : List AM) (ok : AM.OK c ms) (h : mass (AM.res c ms) ≠ 0) :
    0 < AM.phys c ms := by
  have hPK := AM.phys_eq c ms ok.wsum
  have hP0 : 0 ≤ AM.phys c ms := by
    rw [hPK]
    apply List.sum_nonneg
    intro x hx
    obtain ⟨a, ha, rfl⟩ := List.mem_map.1 hx
    exact ok.wpos a (AM.mem_kept ha)
  refine lt_of_le_of_ne hP0 (Ne.symm ?_)
  intro h0
  apply h
  have := sum_mul_zero_of_sum_zero (fun a : AM => a.w) (fun a => mass a.code)
    (AM.kept c ms) (fun x hx => ok.wpos x (AM.mem_kept hx)) (by rw [← hPK]; exact h0)
  rw [AM.res, mass_mix, List.map_map]
  simpa [Function.comp_def] using this

/-- the three outputs of `probs_svd` over abstract members are the specification's conditioning of the
unconditioned mixture -/
theorem AM.spec (c : Cfg) (ms : List AM) (ok : AM.OK c ms) :
    (AM.out c ms).phys = physPerf (cond c) (AM.fullMix ms) ∧
    (AM.out c ms).logical = logicalPerf (cond c) (AM.fullMix ms) ∧
    (mass (retained (cond c) (AM.fullMix ms)) ≠ 0 →
      (AM.out c ms).results = conditioned (cond c) (AM.fullMix ms)) := by
  have hNN := AM.NN_res c ms ok
  have hR := AM.retained_eq c ms ok
  have hP := AM.physPerf_eq c ms ok
  refine ⟨?_, ?_, ?_⟩
  · rw [AM.out, finishSvd_phys, hP]
  · rw [AM.out, finishSvd_logical c _ _ hNN (AM.phys_pos_of_mass c ms ok), logicalPerf, hR, hP]
    by_cases h0 : AM.phys c ms = 0
    · simp [h0]
    · simp [h0]
  · intro hret
    rw [hR] at hret
    rw [AM.out, finishSvd_results c _ _ hNN hret, conditioned, hR]

/-! ### (B) a superposition under the herald mask -/

theorem ampFilter_congr (c : Cfg) (n : ℕ) {s s' : Fock} (h : s.sum = s'.sum) :
    ampFilter c n s = ampFilter c n s' := by
  funext t
  simp only [ampFilter, h]

/-- the key-only form of the mask filter: every group output is tested with its own photon number -/
def keyOk (c : Cfg) (n : ℕ) (K : List Fock) : Bool := K.all fun t => ampFilter c n t t

theorem filter_flatMap' {α β : Type} (P : β → Bool) (f : α → List β) : ∀ l : List α,
    (l.flatMap f).filter P = l.flatMap fun a => (f a).filter P
  | [] => rfl
  | a :: r => by simp [List.flatMap_cons, List.filter_append, filter_flatMap' P f r]

theorem flatMap_filter' {α β : Type} (Q : α → Bool) (f : α → List β) : ∀ l : List α,
    (l.filter Q).flatMap f = l.flatMap fun a => if Q a then f a else []
  | [] => rfl
  | a :: r => by
    by_cases h : Q a = true
    · simp [List.filter_cons, h, flatMap_filter' Q f r]
    · simp [List.filter_cons, h, flatMap_filter' Q f r]

theorem flatMap_congr' {α β : Type} {f g : α → List β} : ∀ (l : List α), (∀ a ∈ l, f a = g a) →
    l.flatMap f = l.flatMap g
  | [], _ => rfl
  | a :: r, h => by
    simp only [List.flatMap_cons]
    rw [h a List.mem_cons_self, flatMap_congr' r (fun x hx => h x (List.mem_cons_of_mem _ hx))]

theorem tuplesMasked_eq_filter {m : ℕ} (U : Matrix (Fin m) (Fin m) GQ) (c : Cfg) (n : ℕ) : ∀ gs : List Fock,
    tuplesMasked U c n gs = (tuples U gs).filter fun p => keyOk c n p.1
  | [] => by simp only [tuplesMasked, tuples, keyOk]; rfl
  | s :: rest => by
    simp only [tuplesMasked, tuples]
    rw [filter_flatMap', flatMap_filter', tuplesMasked_eq_filter U c n rest]
    apply flatMap_congr'
    intro t ht
    have hsum : t.sum = s.sum := ((mem_allStates_iff m s.sum t).1 ht).2
    have hf : ampFilter c n s t = ampFilter c n t t := by rw [ampFilter_congr c n hsum.symm]
    rw [List.filter_map]
    by_cases hk : ampFilter c n t t = true
    · rw [hf, if_pos hk]
      congr 1
      apply List.filter_congr
      intro p _
      simp [keyOk, hk]
    · rw [hf, if_neg hk]
      have : ((tuples U rest).filter ((fun p => keyOk c n p.1) ∘ fun p => (t :: p.1, pamp U s t * p.2))) = [] := by
        rw [List.filter_eq_nil_iff]
        intro p _
        simp [keyOk, hk]
      rw [this, List.map_nil]

/-! gathering and a filter on keys -/

abbrev AL := List (List Fock × GQ)

def gstep' (acc : AL) (p : List Fock × GQ) : AL :=
  if acc.any (·.1 == p.1) then acc.map (fun q => if q.1 == p.1 then (q.1, q.2 + p.2) else q) else acc ++ [p]

theorem gatherAmps_eq' (l : AL) : gatherAmps l = l.foldl gstep' [] := rfl

theorem any_filter_key (P : List Fock → Bool) (acc : AL) (K : List Fock) (hK : P K = true) :
    (acc.filter fun q => P q.1).any (·.1 == K) = acc.any (·.1 == K) := by
  induction acc with
  | nil => rfl
  | cons x r ih =>
    by_cases hx : P x.1 = true
    · simp [List.filter_cons, hx, ih]
    · have hne : (x.1 == K) = false := by
        apply beq_false_of_ne
        intro h
        rw [h] at hx
        exact hx hK
      simp [List.filter_cons, hx, ih, hne]

theorem gstep_filter (P : List Fock → Bool) (acc : AL) (p : List Fock × GQ) :
    (gstep' acc p).filter (fun q => P q.1) =
      if P p.1 then gstep' (acc.filter fun q => P q.1) p else acc.filter fun q => P q.1 := by
  have hmapf : (acc.map (fun q => if q.1 == p.1 then (q.1, q.2 + p.2) else q)).filter (fun q => P q.1) =
      (acc.filter fun q => P q.1).map (fun q => if q.1 == p.1 then (q.1, q.2 + p.2) else q) := by
    rw [List.filter_map]
    congr 1
    apply List.filter_congr
    intro q _
    simp only [Function.comp]
    split <;> rfl
  by_cases hP : P p.1 = true
  · rw [if_pos hP]
    unfold gstep'
    rw [any_filter_key P acc p.1 hP]
    by_cases ha : acc.any (·.1 == p.1) = true
    · rw [if_pos ha, if_pos ha, hmapf]
    · rw [if_neg ha, if_neg ha, List.filter_append]
      simp [List.filter_cons, hP]
  · rw [if_neg hP]
    unfold gstep'
    by_cases ha : acc.any (·.1 == p.1) = true
    · rw [if_pos ha, hmapf]
      conv_rhs => rw [← List.map_id (acc.filter fun q => P q.1)]
      apply List.map_congr_left
      intro q hq
      have hq' : P q.1 = true := by simpa using (List.mem_filter.1 hq).2
      have hne : (q.1 == p.1) = false := by
        apply beq_false_of_ne
        intro h
        rw [h] at hq'
        exact hP hq'
      simp [hne]
    · rw [if_neg ha, List.filter_append]
      simp [List.filter_cons, hP]

theorem foldl_gstep_filter (P : List Fock → Bool) : ∀ (l acc : AL),
    (l.foldl gstep' acc).filter (fun q => P q.1) =
      (l.filter fun q => P q.1).foldl gstep' (acc.filter fun q => P q.1)
  | [], _ => rfl
  | p :: r, acc => by
    simp only [List.foldl_cons]
    rw [foldl_gstep_filter P r (gstep' acc p), gstep_filter]
    by_cases hP : P p.1 = true
    · simp [List.filter_cons, hP]
    · simp [List.filter_cons, hP]

/-- interference of the terms and a filter on the annotated outputs commute -/
theorem gatherAmps_filter (P : List Fock → Bool) (l : AL) :
    gatherAmps (l.filter fun q => P q.1) = (gatherAmps l).filter fun q => P q.1 := by
  rw [gatherAmps_eq', gatherAmps_eq', foldl_gstep_filter P l []]
  rfl

theorem gstep_keys (acc : AL) (p : List Fock × GQ) (K : List Fock) (h : K ∈ (gstep' acc p).map (·.1)) :
    K ∈ acc.map (·.1) ∨ K = p.1 := by
  unfold gstep' at h
  split at h
  · left
    simp only [List.map_map, List.mem_map, Function.comp] at h
    obtain ⟨q, hq, rfl⟩ := h
    refine List.mem_map.2 ⟨q, hq, ?_⟩
    split <;> rfl
  · simp only [List.map_append, List.map_cons, List.map_nil, List.mem_append, List.mem_singleton] at h
    exact h

theorem gather_keys : ∀ (l acc : AL) (K : List Fock), K ∈ (l.foldl gstep' acc).map (·.1) →
    K ∈ acc.map (·.1) ∨ K ∈ l.map (·.1)
  | [], _, _, h => Or.inl h
  | p :: r, acc, K, h => by
    simp only [List.foldl_cons] at h
    rcases gather_keys r (gstep' acc p) K h with h1 | h1
    · rcases gstep_keys acc p K h1 with h2 | h2
      · exact Or.inl h2
      · right; simp [h2]
    · right
      simp only [List.map_cons, List.mem_cons]
      exact Or.inr h1

/-- the keys of `tuples`: one output per group, with the group's photon number -/
theorem tuples_keys' {m : ℕ} (U : Matrix (Fin m) (Fin m) GQ) : ∀ (gs : List Fock) (p : List Fock × GQ),
    p ∈ tuples U gs → List.Forall₂ (fun s t => t.length = m ∧ t.sum = s.sum) gs p.1
  | [], p, h => by
    simp only [tuples, List.mem_singleton] at h
    subst h
    exact .nil
  | s :: rest, p, h => by
    simp only [tuples, List.mem_flatMap, List.mem_map] at h
    obtain ⟨t, ht, q, hq, rfl⟩ := h
    exact .cons ((mem_allStates_iff m s.sum t).1 ht) (tuples_keys' U rest q hq)

/-! the mask on the sum of the groups' outputs -/

theorem maskOk_foldl_acc (mask : List (Option ℕ)) : ∀ (K : List Fock) (acc : Fock) (r : ℕ),
    maskOk mask r (K.foldl fadd acc) = true → maskOk mask (r + (K.map List.sum).sum) acc = true
  | [], acc, r, h => by simpa using h
  | x :: rest, acc, r, h => by
    simp only [List.foldl_cons] at h
    have h1 := maskOk_foldl_acc mask rest (fadd acc x) r h
    have h2 := maskOk_of_fadd_left mask _ acc x h1
    simp only [List.map_cons, List.sum_cons]
    exact maskOk_mono mask acc h2 (by omega)

theorem maskOk_foldl_mem (mask : List (Option ℕ)) : ∀ (K : List Fock) (acc : Fock) (r : ℕ),
    maskOk mask r (K.foldl fadd acc) = true →
    ∀ t ∈ K, maskOk mask (r + acc.sum + (K.map List.sum).sum - t.sum) t = true
  | [], _, _, _ => by simp
  | x :: rest, acc, r, h => by
    intro t ht
    simp only [List.foldl_cons] at h
    simp only [List.map_cons, List.sum_cons]
    rcases List.mem_cons.1 ht with rfl | ht'
    · have h1 := maskOk_foldl_acc mask rest (fadd acc t) r h
      have h2 := maskOk_of_fadd_right mask _ acc t h1
      exact maskOk_mono mask t h2 (by omega)
    · have h1 := maskOk_foldl_mem mask rest (fadd acc x) r h t ht'
      rw [sum_fadd] at h1
      have hle : t.sum ≤ (rest.map List.sum).sum :=
        List.single_le_sum (fun _ _ => Nat.zero_le _) _ (List.mem_map_of_mem ht')
      exact maskOk_mono mask t h1 (by omega)

theorem length_foldl_fadd (m : ℕ) : ∀ (K : List Fock) (acc : Fock), acc.length = m → (∀ t ∈ K, t.length = m) →
    (K.foldl fadd acc).length = m
  | [], _, h, _ => h
  | x :: rest, acc, h, hK => by
    simp only [List.foldl_cons]
    apply length_foldl_fadd m rest
    · rw [length_fadd, h, hK x List.mem_cons_self, max_self]
    · exact fun t ht => hK t (List.mem_cons_of_mem _ ht)

/-- **an annotated output whose mode-wise sum satisfies the heralds passes the mask filter of every group** -/
theorem keyOk_of_heraldsOk (c : Cfg) (wf : HeraldsWF c.m c.heralds) (n : ℕ) (K : List Fock)
    (hlen : ∀ t ∈ K, t.length = c.m) (hn : (K.map List.sum).sum = n)
    (h : heraldsOk c.heralds (flattenTuple c.m K) = true) : keyOk c n K = true := by
  have hl : (flattenTuple c.m K).length = c.m := length_foldl_fadd c.m K _ (zeros_length c.m) hlen
  rw [heraldsOk_eq_maskOk wf _ hl] at h
  unfold keyOk
  rw [List.all_eq_true]
  intro t ht
  have h1 := maskOk_foldl_mem (heraldMask c.m c.heralds) K (zeros c.m) 0 h t ht
  rw [zeros_sum, hn] at h1
  have h2 := maskOk_cap _ _ (nHeralds c.heralds) t h1 (maskTotal_heraldMask_le _ _)
  have hle : t.sum ≤ n := by
    rw [← hn]
    exact List.single_le_sum (fun _ _ => Nat.zero_le _) _ (List.mem_map_of_mem ht)
  unfold ampFilter
  split
  · rfl
  · split
    · next hc =>
      have hm : canUseMask c = true := by
        simp only [Bool.and_eq_true] at hc
        exact hc.1
      apply maskOk_mono _ t h2
      simp only [slack, bestN, hm, ↓reduceIte]
      omega
    · rfl

theorem restrict_map_filter {α : Type} (hOk : Fock → Bool) (P : α → Bool) (f : α → Fock × ℚ) : ∀ (l : List α),
    (∀ p ∈ l, hOk (f p).1 = true → P p = true) →
    restrict hOk ((l.filter P).map f) = restrict hOk (l.map f)
  | [], _ => rfl
  | p :: r, h => by
    have ih := restrict_map_filter hOk P f r (fun q hq => h q (List.mem_cons_of_mem _ hq))
    by_cases hP : P p = true
    · simp only [List.filter_cons, hP, ↓reduceIte, List.map_cons, restrict] at ih ⊢
      by_cases hk : hOk (f p).1 = true
      · simp [hk, ih]
      · simp [hk, ih]
    · have hk : hOk (f p).1 = false := by
        by_contra hk
        exact hP (h p List.mem_cons_self (by simpa using hk))
      simp only [List.filter_cons, hP, Bool.false_eq_true, ↓reduceIte, List.map_cons, restrict, hk] at ih ⊢
      exact ih

/-- all terms of the superposition hold `svN` photons in `m`-mode groups -/
structure SVOK (m : ℕ) (terms : List Term) : Prop where
  len : ∀ t ∈ terms, ∀ s ∈ t.groups, s.length = m
  num : ∀ t ∈ terms, (t.groups.map List.sum).sum = svN terms

theorem svAmpsMasked_eq_filter {m : ℕ} (U : Matrix (Fin m) (Fin m) GQ) (c : Cfg) (terms : List Term) :
    svAmpsMasked U c terms = (svAmps U terms).filter fun p => keyOk c (svN terms) p.1 := by
  unfold svAmpsMasked svAmps
  rw [← gatherAmps_filter, filter_flatMap']
  congr 1
  apply flatMap_congr'
  intro t _
  rw [tuplesMasked_eq_filter, termAmps, List.filter_map]
  rfl

theorem svAmps_keys {m : ℕ} (U : Matrix (Fin m) (Fin m) GQ) (terms : List Term) (p : List Fock × GQ)
    (hp : p ∈ svAmps U terms) :
    ∃ t ∈ terms, List.Forall₂ (fun s o => o.length = m ∧ o.sum = s.sum) t.groups p.1 := by
  have hk : p.1 ∈ (svAmps U terms).map (·.1) := List.mem_map_of_mem hp
  rw [svAmps, gatherAmps_eq'] at hk
  rcases gather_keys _ [] p.1 hk with h | h
  · simp at h
  · simp only [List.mem_map, List.mem_flatMap, termAmps] at h
    obtain ⟨q, ⟨t, ht, r, hr, rfl⟩, hq⟩ := h
    refine ⟨t, ht, ?_⟩
    rw [← hq]
    exact tuples_keys' U t.groups r hr

theorem forall₂_sums {m : ℕ} : ∀ (gs K : List Fock), List.Forall₂ (fun s o => o.length = m ∧ o.sum = s.sum) gs K →
    (∀ o ∈ K, o.length = m) ∧ (K.map List.sum).sum = (gs.map List.sum).sum
  | _, _, .nil => by simp
  | _, _, .cons h r => by
    obtain ⟨a, b⟩ := forall₂_sums _ _ r
    constructor
    · intro o ho
      rcases List.mem_cons.1 ho with rfl | ho
      · exact h.1
      · exact a o ho
    · simp [h.2, b]

/-- **mask invariance for a superposed input**: conditioned on the heralds, the distribution computed from the
masked, budgeted group outputs — with the interference between the terms — is the specification's `probsSV` -/
theorem memberGen_heralds_invariance {m : ℕ} (U : Matrix (Fin m) (Fin m) GQ) (c : Cfg) (hcm : c.m = m)
    (wf : HeraldsWF c.m c.heralds) (terms : List Term) (ok : SVOK m terms) :
    restrict (heraldsOk c.heralds) (memberGen U c terms) = restrict (heraldsOk c.heralds) (probsSV U terms) := by
  subst hcm
  unfold memberGen probsSV
  rw [svAmpsMasked_eq_filter]
  apply restrict_map_filter
  intro p hp hh
  obtain ⟨t, ht, hf⟩ := svAmps_keys U terms p hp
  obtain ⟨hlen, hsum⟩ := forall₂_sums _ _ hf
  exact keyOk_of_heraldsOk c wf (svN terms) p.1 hlen (by rw [hsum, ok.num t ht]) hh

theorem probsSV_sums {m : ℕ} (U : Matrix (Fin m) (Fin m) GQ) (terms : List Term) (ok : SVOK m terms) :
    ∀ q ∈ probsSV U terms, q.1.sum = svN terms := by
  intro q hq
  simp only [probsSV, List.mem_map] at hq
  obtain ⟨p, hp, rfl⟩ := hq
  obtain ⟨t, ht, hf⟩ := svAmps_keys U terms p hp
  obtain ⟨_, hsum⟩ := forall₂_sums _ _ hf
  have : ∀ (K : List Fock) (acc : Fock), (K.foldl fadd acc).sum = acc.sum + (K.map List.sum).sum := by
    intro K
    induction K with
    | nil => intro acc; simp
    | cons x r ih => intro acc; simp only [List.foldl_cons, ih, sum_fadd, List.map_cons, List.sum_cons]; omega
  simp only [flattenTuple, this, zeros_sum, zero_add, hsum, ok.num t ht]

theorem normSq_nonneg' (z : GQ) : 0 ≤ GQ.normSq z := by
  unfold GQ.normSq
  nlinarith [mul_self_nonneg z.re, mul_self_nonneg z.im]

theorem svNorm2_nonneg (terms : List Term) : 0 ≤ svNorm2 terms := by
  unfold svNorm2
  apply List.sum_nonneg
  intro x hx
  obtain ⟨t, _, rfl⟩ := List.mem_map.1 hx
  apply mul_nonneg (normSq_nonneg' _)
  exact_mod_cast Nat.zero_le _

theorem NN_memberGen {m : ℕ} (U : Matrix (Fin m) (Fin m) GQ) (c : Cfg) (terms : List Term) :
    NN (memberGen U c terms) := by
  intro q hq
  simp only [memberGen, List.mem_map] at hq
  obtain ⟨p, _, rfl⟩ := hq
  apply div_nonneg (div_nonneg (normSq_nonneg' _) _) (svNorm2_nonneg terms)
  exact_mod_cast Nat.zero_le _

end PM.C04
