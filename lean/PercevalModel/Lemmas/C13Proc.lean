/-
  C13 — lemmas about the input bookkeeping of a `Processor` (`Model/C13Proc.lean`).
-/
import PercevalModel.Model.C13Proc

namespace PM.C13

variable {S I Z D : Type}

/-- the cache is either what the input means for the noise in force, or empty with an input that
may be re-generated through the source (never empty with a polarised input) -/
def CacheOK (env : PEnv S I Z D) (st : Proc S I Z D) : Prop :=
  st.cache = st.input.map (distOf env st.noise) ∨ (st.cache = none ∧ isCustom st.input = false)

def PTracks (env : PEnv S I Z D) (st : Proc S I Z D) (a : PSpec S I Z) : Prop :=
  st.input = a.input ∧ st.noise = a.noise ∧ st.minDet = a.minDet ∧ CacheOK env st

/-- what `source_distribution` hands out under the invariant -/
theorem served_of_cacheOK (env : PEnv S I Z D) (st : Proc S I Z D) (h : CacheOK env st) :
    served env st = st.input.map (distOf env st.noise) := by
  unfold served
  rcases h with h | ⟨h1, h2⟩
  · rw [h]
    cases st.input with
    | none => rfl
    | some inp => rfl
  · rw [h1]
    cases hi : st.input with
    | none => rfl
    | some inp =>
      cases inp with
      | plain s => rfl
      | pol i => rw [hi] at h2; simp [isCustom] at h2

theorem procStep_tracks (env : PEnv S I Z D) (st : Proc S I Z D) (a : PSpec S I Z) (op : POp S I Z)
    (h : PTracks env st a) :
    PTracks env (procStep env st op).1 (pspecStep env a op).1 ∧
      (procStep env st op).2 = (pspecStep env a op).2 := by
  obtain ⟨hi, hz, hm, hc⟩ := h
  cases op with
  | withInput s =>
    exact ⟨⟨rfl, hz, hm, Or.inl rfl⟩, rfl⟩
  | withPol i =>
    exact ⟨⟨rfl, hz, hm, Or.inl rfl⟩, rfl⟩
  | setNoise z =>
    refine ⟨⟨hi, rfl, hm, ?_⟩, rfl⟩
    simp only [procStep]
    cases hin : st.input with
    | none => exact Or.inl (by simp [isCustom])
    | some inp =>
      cases inp with
      | plain s => exact Or.inr ⟨by simp [isCustom], by simp [isCustom]⟩
      | pol i =>
        rcases hc with hc | ⟨_, h2⟩
        · left
          simp only [isCustom, if_true]
          rw [hc, hin]; rfl
        · rw [hin] at h2; simp [isCustom] at h2
  | setMin v =>
    exact ⟨⟨hi, hz, rfl, hc⟩, rfl⟩
  | clear =>
    exact ⟨⟨rfl, hz, hm, Or.inl rfl⟩, rfl⟩
  | query =>
    have hs := served_of_cacheOK env st hc
    simp only [procStep, pspecStep, ← hi, ← hz, ← hm]
    cases hk : checkMin env st.minDet st.input st.noise with
    | error e => exact ⟨⟨hi, hz, hm, hc⟩, rfl⟩
    | ok v =>
      simp only
      rw [hs]
      exact ⟨⟨rfl, rfl, rfl, Or.inl rfl⟩, rfl⟩

/-- requests that keep the input keep the specification's input -/
theorem pspec_keeps_input (env : PEnv S I Z D) (h : List (POp S I Z))
    (hk : ∀ op ∈ h, op.keepsInput = true) (a : PSpec S I Z) :
    (SM.exec (pspecStep env) a h).input = a.input := by
  induction h generalizing a with
  | nil => rfl
  | cons op ops ih =>
    rw [SM.exec_cons, ih (fun o ho => hk o (List.mem_cons_of_mem _ ho))]
    have := hk op (List.mem_cons_self ..)
    cases op with
    | withInput s => simp [POp.keepsInput] at this
    | withPol i => simp [POp.keepsInput] at this
    | clear => simp [POp.keepsInput] at this
    | setNoise z => rfl
    | setMin v => rfl
    | query =>
      simp only [pspecStep]
      cases checkMin env a.minDet a.input a.noise <;> rfl

end PM.C13
