/-
  C12 — lemmas about `decompose_triangle` with a solver function plugged in (`Model/C12Exact.lean`):
  a total solver makes every run succeed; a run of `runF` IS a run of the list-oracle model `run` on the list of the
  solver's answers (so every theorem about `run` applies), and the value a solved cell overwrites is the value of the
  cell's equation at the solver's answer for that cell's own `(a, b)`; the two closed-form solvers over ℂ and the
  unitarity of the two universal blocks.
-/
import PercevalModel.Model.C12Exact
import PercevalModel.Lemmas.C12Tri
import PercevalModel.Lemmas.C12Exist
import Mathlib.LinearAlgebra.Matrix.NonsingularInverse

open Matrix

namespace PM.C12

variable {R : Type}

/-! ### totality -/

theorem stepF_total [CommRing R] (cfg : Cfg R) (solver : R → R → Option (Sol R))
    (hs : ∀ a b, (solver a b).isSome = true) {m : ℕ} (st : St R m) (c : ℕ × ℕ) :
    (stepF cfg solver st c).isSome = true := by
  unfold stepF
  simp only
  split
  · rfl
  · split
    · rfl
    · split
      · rename_i h
        have := hs (getN st.u.toMatrix c.2 c.1) (getN st.u.toMatrix (c.2 + 1) c.1)
        rw [h] at this
        cases this
      · rfl

theorem runF_total [CommRing R] (cfg : Cfg R) (solver : R → R → Option (Sol R))
    (hs : ∀ a b, (solver a b).isSome = true) {m : ℕ} (cs : List (ℕ × ℕ)) :
    ∀ st : St R m, (runF cfg solver st cs).isSome = true := by
  induction cs with
  | nil => intro st; rfl
  | cons c cs ih =>
    intro st
    obtain ⟨st1, h1⟩ := Option.isSome_iff_exists.1 (stepF_total cfg solver hs st c)
    simp only [runF, h1, Option.bind_some]
    exact ih st1

/-! ### `rest` is not touched -/

theorem stepF_rest [CommRing R] (cfg : Cfg R) (solver : R → R → Option (Sol R)) {m : ℕ} {st st1 : St R m}
    {c : ℕ × ℕ} (h : stepF cfg solver st c = some st1) : st1.rest = st.rest := by
  unfold stepF at h
  simp only at h
  split at h
  · cases h; rfl
  · split at h
    · cases h; rfl
    · split at h
      · cases h
      · cases h; rfl

theorem runF_rest [CommRing R] (cfg : Cfg R) (solver : R → R → Option (Sol R)) {m : ℕ} (cs : List (ℕ × ℕ)) :
    ∀ {st st' : St R m}, runF cfg solver st cs = some st' → st'.rest = st.rest := by
  induction cs with
  | nil => intro st st' h; simp only [runF, Option.some.injEq] at h; rw [h]
  | cons c cs ih =>
    intro st st' h
    simp only [runF] at h
    cases hst : stepF cfg solver st c with
    | none => simp [hst] at h
    | some st1 =>
      simp only [hst, Option.bind_some] at h
      rw [ih h, stepF_rest cfg solver hst]

/-! ### a cell of `stepF` is a cell of `step` on the right list of answers -/

theorem step_of_stepF [CommRing R] (cfg : Cfg R) (solver : R → R → Option (Sol R)) {m : ℕ} {st st1 : St R m}
    {c : ℕ × ℕ} (h : stepF cfg solver st c = some st1) :
    (∀ tail, step cfg (setRest st tail) c = some (setRest st1 tail) ∧
        ∃ M', preZero cfg (setRest st tail) c = some (M', false)) ∨
    (∃ s, solver (getN st.u.toMatrix c.2 c.1) (getN st.u.toMatrix (c.2 + 1) c.1) = some s ∧
      ∀ tail, step cfg (setRest st (s :: tail)) c = some (setRest st1 tail) ∧
        preZero cfg (setRest st (s :: tail)) c = some (embed m c.2 s.2 * st.u.toMatrix, true)) := by
  unfold stepF at h
  simp only at h
  by_cases h1 : (cfg.small (getN st.u.toMatrix c.2 c.1) && cfg.ignoreId) = true
  · rw [if_pos h1] at h
    cases h
    left
    intro tail
    have hu : (setRest st tail).u = st.u := rfl
    refine ⟨?_, st.u.toMatrix, ?_⟩
    · unfold step
      simp only [hu]
      rw [if_pos h1]
      rfl
    · unfold preZero
      simp only [hu]
      rw [if_pos h1]
  · rw [if_neg h1] at h
    split at h
    · rename_i k hk
      cases h
      left
      intro tail
      have hu : (setRest st tail).u = st.u := rfl
      refine ⟨?_, swapMat m c.2 k * st.u.toMatrix, ?_⟩
      · unfold step
        simp only [hu]
        rw [if_neg h1]
        simp only [hk]
        rfl
      · unfold preZero
        simp only [hu]
        rw [if_neg h1]
        simp only [hk]
    · rename_i hk
      split at h
      · cases h
      · rename_i B Binv hsol
        cases h
        right
        refine ⟨(B, Binv), hsol, ?_⟩
        intro tail
        have hu : (setRest st ((B, Binv) :: tail)).u = st.u := rfl
        have hr : (setRest st ((B, Binv) :: tail)).rest = (B, Binv) :: tail := rfl
        refine ⟨?_, ?_⟩
        · unfold step
          simp only [hu, hr]
          rw [if_neg h1]
          simp only [hk]
          rfl
        · unfold preZero
          simp only [hu, hr]
          rw [if_neg h1]
          simp only [hk]

/-- a run with the solver plugged in is a run of the list-oracle model on the list of the solver's answers; in every
solved cell the overwritten value is the value of that cell's equation at the solver's answer for that cell -/
theorem runF_run [CommRing R] (cfg : Cfg R) (solver : R → R → Option (Sol R)) {m : ℕ} (cs : List (ℕ × ℕ))
    (hcs : ∀ c ∈ cs, c.2 < c.1 ∧ c.1 < m) :
    ∀ (st st' : St R m), runF cfg solver st cs = some st' →
      ∃ sols : List (Sol R),
        (∀ s ∈ sols, ∃ a b, solver a b = some s) ∧
        run cfg (setRest st sols) cs = some (setRest st' []) ∧
        ∀ r ∈ trace cfg (setRest st sols) cs, r.solved = true →
          ∃ s, solver r.a r.b = some s ∧ r.z = nullEq s.2 r.a r.b := by
  induction cs with
  | nil =>
    intro st st' h
    simp only [runF, Option.some.injEq] at h
    subst h
    exact ⟨[], by simp, rfl, by simp [trace]⟩
  | cons c cs ih =>
    intro st st' h
    simp only [runF] at h
    cases hst : stepF cfg solver st c with
    | none => simp [hst] at h
    | some st1 =>
      simp only [hst, Option.bind_some] at h
      have hc := hcs c List.mem_cons_self
      obtain ⟨sols1, hmem1, hrun1, htr1⟩ := ih (fun c' hc' => hcs c' (List.mem_cons_of_mem _ hc')) st1 st' h
      rcases step_of_stepF cfg solver hst with hL | ⟨s, hsol, hR⟩
      · obtain ⟨hstep, M', hpre⟩ := hL sols1
        refine ⟨sols1, hmem1, ?_, ?_⟩
        · simp only [run, hstep, Option.bind_some]
          exact hrun1
        · intro r hr hsv
          rw [trace_cons_of_step cfg cs hstep hpre, List.mem_cons] at hr
          rcases hr with rfl | hr
          · simp at hsv
          · exact htr1 r hr hsv
      · obtain ⟨hstep, hpre⟩ := hR sols1
        refine ⟨s :: sols1, ?_, ?_, ?_⟩
        · intro s' hs'
          rcases List.mem_cons.1 hs' with rfl | hs'
          · exact ⟨_, _, hsol⟩
          · exact hmem1 s' hs'
        · simp only [run, hstep, Option.bind_some]
          exact hrun1
        · intro r hr hsv
          rw [trace_cons_of_step cfg cs hstep hpre, List.mem_cons] at hr
          rcases hr with rfl | hr
          · refine ⟨s, hsol, ?_⟩
            have hn1 : c.2 + 1 < m := by omega
            have hn : c.2 < m := by omega
            have hu : (setRest st (s :: sols1)).u = st.u := rfl
            simp only [hu, getN, dif_pos (And.intro hn hc.2), dif_pos (And.intro hn1 hc.2), nullEq]
            exact embed2_mul_row hn1 s.2 _ _
          · exact htr1 r hr hsv

theorem decomposeExact_spec [CommRing R] (cfg : Cfg R) (solver : R → R → Option (Sol R)) {m : ℕ}
    (U : Matrix (Fin m) (Fin m) R) (st : St R m) (h : decomposeExact cfg solver U = some st) :
    ∃ sols : List (Sol R),
      (∀ s ∈ sols, ∃ a b, solver a b = some s) ∧
      decomposeTriangle cfg U sols = some st ∧
      ∀ r ∈ trace cfg (initSt U sols) (cells m), r.solved = true →
        ∃ s, solver r.a r.b = some s ∧ r.z = nullEq s.2 r.a r.b := by
  obtain ⟨sols, h1, h2, h3⟩ := runF_run cfg solver (cells m) (cells_ok m) _ _ h
  have hrest : st.rest = [] := runF_rest cfg solver (cells m) h
  have e : setRest st [] = st := by
    cases st with
    | mk u comps rest err nskip =>
      have hr : rest = [] := hrest
      subst hr
      rfl
  rw [e] at h2
  exact ⟨sols, h1, h2, h3⟩

/-! ### over ℂ: the two closed-form solvers, unitarity of the two blocks -/

section complex
open Complex

theorem conj_exp_mul_I (φ : ℝ) : (starRingEnd ℂ) (exp ((φ : ℂ) * I)) = exp (-((φ : ℂ) * I)) := by
  rw [← Complex.exp_conj]
  congr 1
  simp [Complex.conj_ofReal]

theorem mziMat_conjTranspose {h ea eb fa fb : ℂ} (hh : (starRingEnd ℂ) h = h) (ha : (starRingEnd ℂ) ea = fa)
    (hb : (starRingEnd ℂ) eb = fb) : (mziMat I h ea eb)ᴴ = mziInv I h fa fb := by
  ext i j
  fin_cases i <;> fin_cases j <;>
    simp [mziMat, mziInv, conjTranspose_apply, ha, hb, hh] <;> ring

/-- `mziInv` at the conjugate phases is the conjugate transpose of the MZI's matrix -/
theorem mziC_conjTranspose (φa φb : ℝ) : (mziC φa φb)ᴴ = mziInvC φa φb := by
  rw [mziC_eq_mziMat]
  unfold mziInvC
  exact mziMat_conjTranspose (by simp [map_ofNat]) (conj_exp_mul_I φa) (conj_exp_mul_I φb)

theorem mziC_mul_mziInvC (φa φb : ℝ) : mziC φa φb * mziInvC φa φb = 1 :=
  mul_eq_one_comm.1 (mziInvC_mul_mziC φa φb)

theorem mziC_isUnitary (φa φb : ℝ) : IsUnitary (mziC φa φb) := by
  refine ⟨?_, ?_⟩
  · rw [mziC_conjTranspose]; exact mziC_mul_mziInvC φa φb
  · rw [mziC_conjTranspose]; exact mziInvC_mul_mziC φa φb

theorem bsPsMat_conjTranspose {c s p q : ℂ} (hc : (starRingEnd ℂ) c = c) (hs : (starRingEnd ℂ) s = s)
    (hp : (starRingEnd ℂ) p = q) : (bsPsMat I c s p)ᴴ = bsPsInv I c s q := by
  ext i j
  fin_cases i <;> fin_cases j <;>
    simp [bsPsMat, bsPsInv, conjTranspose_apply, hc, hs, hp] <;> ring

theorem bsPsC_conjTranspose (θ φ : ℝ) : (bsPsC θ φ)ᴴ = bsPsInvC θ φ := by
  unfold bsPsC bsPsInvC
  rw [bsPs_eq_bsPsMat]
  exact bsPsMat_conjTranspose (Complex.conj_ofReal _) (Complex.conj_ofReal _) (conj_exp_mul_I φ)

theorem bsPsC_isUnitary (θ φ : ℝ) : IsUnitary (bsPsC θ φ) := by
  refine ⟨?_, ?_⟩
  · rw [bsPsC_conjTranspose]; exact bsPsC_mul_bsPsInvC θ φ
  · rw [bsPsC_conjTranspose]; exact bsPsInvC_mul_bsPsC θ φ

/-- the exact solver of `catalog['mzi phase last']`: the closed form of `mzi_nulls'` -/
noncomputable def mziSolver (a b : ℂ) : Option (Sol ℂ) :=
  some (mziC (mziPhiA a b) (mziPhiB a b), mziInvC (mziPhiA a b) (mziPhiB a b))

/-- the exact solver of `BS(theta) // PS(phi)`: the closed form of `bsPs_nulls'` -/
noncomputable def bsPsSolver (a b : ℂ) : Option (Sol ℂ) :=
  some (bsPsC (bsPsTheta a b) (bsPsPhi a b), bsPsInvC (bsPsTheta a b) (bsPsPhi a b))

open scoped Matrix.Norms.Frobenius in
theorem frob_eq_zero {m n : ℕ} {M : Matrix (Fin m) (Fin n) ℂ} (h : frob M = 0) : M = 0 := by
  rw [frob_eq_norm] at h
  exact norm_eq_zero.1 h

end complex

end PM.C12
