/-
  C07 (extension 5) — helper lemmas for detectors below a loss layer (`Model/C07Det.lean`).
-/
import PercevalModel.Model.C07Det
import PercevalModel.Lemmas.C07Sel

namespace PM.C07
open PM.SimSpec PM.Dist

/-- a detection kernel whose every row is a probability distribution -/
def Stoch (k : Kern) : Prop := ∀ n, ((k n).map (·.2)).sum = 1

theorem detState_nil_right (ks : List Kern) : detState ks [] = [([], 1)] := by
  cases ks <;> simp [detState]

theorem detState_nil_left (s : List ℕ) : detState [] s = [([], 1)] := by
  cases s <;> simp [detState]

theorem detState_replicate_id (k : ℕ) (s : List ℕ) (h : s.length = k) :
    detState (List.replicate k DetK.none.kern) s = [(s, 1)] := by
  induction k generalizing s with
  | zero =>
    cases s with
    | nil => simp [detState]
    | cons a s => simp at h
  | succ k ih =>
    cases s with
    | nil => simp at h
    | cons n s =>
      simp only [List.replicate_succ, detState, DetK.kern]
      rw [ih s (by simpa using h)]
      simp

theorem detState_length (ks : List Kern) (s : List ℕ) (h : ks.length = s.length) :
    ∀ tr ∈ detState ks s, tr.1.length = s.length := by
  induction ks generalizing s with
  | nil =>
    cases s with
    | nil => simp [detState]
    | cons a s => simp at h
  | cons k ks ih =>
    cases s with
    | nil => simp at h
    | cons n s =>
      intro tr htr
      simp only [detState, List.mem_flatMap, List.mem_map] at htr
      obtain ⟨cq, _, tr', htr', rfl⟩ := htr
      simp [ih s (by simpa using h) tr' htr']

/-- the padded detector list acts on the original modes only: the virtual modes are copied -/
theorem detState_pad (ks : List Kern) (k : ℕ) (s1 s2 : List ℕ) (h1 : ks.length = s1.length)
    (h2 : s2.length = k) :
    detState (ks ++ List.replicate k DetK.none.kern) (s1 ++ s2) =
      (detState ks s1).map fun tr => (tr.1 ++ s2, tr.2) := by
  induction ks generalizing s1 with
  | nil =>
    cases s1 with
    | nil => simp [detState_replicate_id k s2 h2, detState]
    | cons a s => simp at h1
  | cons k0 ks ih =>
    cases s1 with
    | nil => simp at h1
    | cons n s1 =>
      simp only [List.cons_append, detState]
      rw [ih s1 (by simpa using h1)]
      simp [List.map_flatMap, List.map_map, Function.comp_def]

theorem postprocess_scale_detState_pad (ks : List Kern) (M k : ℕ) (hk : ks.length = M) (p : Fock × ℚ)
    (hp : p.1.length = M + k) :
    postprocess M (scale p.2 (detState (ks ++ List.replicate k DetK.none.kern) p.1)) =
      scale p.2 (detState ks (p.1.take M)) := by
  have h1 : ks.length = (p.1.take M).length := by simp [hk, hp]
  have h := detState_pad ks k (p.1.take M) (p.1.drop M) h1 (by simp [hp])
  rw [List.take_append_drop] at h
  rw [h]
  unfold postprocess
  rw [mapKeys_scale]
  congr 1
  simp only [mapKeys, List.map_map]
  conv_rhs => rw [← List.map_id (detState ks (List.take M p.1))]
  apply List.map_congr_left
  intro tr htr
  have hl := detState_length ks _ h1 tr htr
  have hl' : tr.1.length = M := by simpa [hp] using hl
  simp [hl']

theorem postprocess_append (M : ℕ) (a b : D) : postprocess M (a ++ b) = postprocess M a ++ postprocess M b := by
  simp [postprocess, mapKeys]

theorem postprocess_detectAll_pad (ks : List Kern) (M k : ℕ) (hk : ks.length = M) (d : D)
    (hd : ∀ p ∈ d, p.1.length = M + k) :
    postprocess M (detectAll (ks ++ List.replicate k DetK.none.kern) d) = detectAll ks (postprocess M d) := by
  induction d with
  | nil => simp [detectAll, postprocess, mapKeys]
  | cons p r ih =>
    have e1 : detectAll (ks ++ List.replicate k DetK.none.kern) (p :: r) =
        scale p.2 (detState (ks ++ List.replicate k DetK.none.kern) p.1) ++
          detectAll (ks ++ List.replicate k DetK.none.kern) r := by simp [detectAll]
    have e2 : detectAll ks (postprocess M (p :: r)) =
        scale p.2 (detState ks (p.1.take M)) ++ detectAll ks (postprocess M r) := by
      simp [detectAll, postprocess, mapKeys]
    rw [e1, e2, postprocess_append, ih fun q hq => hd q (List.mem_cons_of_mem _ hq),
      postprocess_scale_detState_pad ks M k hk p (hd p List.mem_cons_self)]

theorem mass_flatMap_row (row : List (ℕ × ℚ)) (x : D) :
    mass (row.flatMap fun cq => x.map fun tr => (cq.1 :: tr.1, cq.2 * tr.2)) =
      (row.map (·.2)).sum * mass x := by
  induction row with
  | nil => simp
  | cons cq r ih =>
    have h : mass (x.map fun tr => (cq.1 :: tr.1, cq.2 * tr.2)) = cq.2 * mass x := by
      have := mass_scale cq.2 (mapKeys (fun t => cq.1 :: t) x)
      simpa [scale, mapKeys, mass, Function.comp_def] using this
    simp only [List.flatMap_cons, mass_append, List.map_cons, List.sum_cons]
    rw [h, ih]; ring

theorem mass_detState (ks : List Kern) (s : List ℕ) (h : ∀ k ∈ ks, Stoch k) : mass (detState ks s) = 1 := by
  induction ks generalizing s with
  | nil => rw [detState_nil_left]; simp [mass]
  | cons k ks ih =>
    cases s with
    | nil => rw [detState_nil_right]; simp [mass]
    | cons n s =>
      simp only [detState]
      rw [mass_flatMap_row, ih s fun k' hk' => h k' (List.mem_cons_of_mem _ hk'),
        h k List.mem_cons_self n]
      ring

theorem mass_detectAll (ks : List Kern) (d : D) (h : ∀ k ∈ ks, Stoch k) : mass (detectAll ks d) = mass d := by
  induction d with
  | nil => simp [detectAll]
  | cons p r ih =>
    have e : detectAll ks (p :: r) = scale p.2 (detState ks p.1) ++ detectAll ks r := by simp [detectAll]
    rw [e, mass_append, mass_scale, mass_detState ks p.1 h, ih]
    simp

theorem stoch_none : Stoch DetK.none.kern := fun n => by simp [DetK.kern]
theorem stoch_pnr : Stoch DetK.pnr.kern := fun n => by simp [DetK.kern]
theorem stoch_thr : Stoch DetK.thr.kern := fun n => by simp [DetK.kern]

theorem map_kern_pad (M N : ℕ) (ds : List DetK) :
    (padDetectors M N ds).map DetK.kern = ds.map DetK.kern ++ List.replicate (N - M) DetK.none.kern := by
  simp [padDetectors]

theorem detType_pad (ds : List DetK) (k : ℕ) :
    detType (ds ++ List.replicate (k + 1) DetK.none) = .pnr ∨
      detType (ds ++ List.replicate (k + 1) DetK.none) = .mixed := by
  cases ds with
  | nil =>
    left
    simp [detType, List.replicate_succ, DetK.type]
  | cons d ds =>
    simp only [List.cons_append, detType]
    split
    · rename_i h
      left
      rw [List.all_append] at h
      have h2 := (Bool.and_eq_true_iff.1 h).2
      rw [List.all_eq_true] at h2
      have h3 := of_decide_eq_true (h2 DetK.none (by simp [List.replicate_succ]))
      exact h3.symm
    · right; rfl

/-- the filter the inner simulator applies to the enlarged detected state never removes what the outer filter
(on the original modes, at least as demanding) keeps -/
theorem restrict_outer_inner (M f g : ℕ) (hfg : f ≤ g) (x : D) :
    restrict (fun t => decide (g ≤ (t.take M).sum)) (restrict (fun t => decide (f ≤ t.sum)) x) =
      restrict (fun t => decide (g ≤ (t.take M).sum)) x := by
  simp only [restrict, List.filter_filter]
  apply List.filter_congr
  intro p _
  have := sum_take_le M p.1
  by_cases hg : g ≤ (List.take M p.1).sum
  · have : f ≤ p.1.sum := by omega
    simp [hg, this]
  · simp [hg]


/-! ### the whole detector stage followed by the selection of the loss layer -/

theorem physPerf_scale (c : Cond) (k : ℚ) (z : D) : physPerf c (scale k z) = k * physPerf c z := by
  unfold physPerf
  rw [restrict_scale, mass_scale]

theorem retained_scale (c : Cond) (k : ℚ) (z : D) : retained c (scale k z) = scale k (retained c z) := by
  unfold retained
  rw [restrict_scale]

theorem conditioned_scale (c : Cond) (k : ℚ) (hk : k ≠ 0) (z : D) (hz : mass (retained c z) ≠ 0) :
    conditioned c (scale k z) = conditioned c z := by
  unfold conditioned
  rw [retained_scale, mapKeys_scale, normalize_scale _ hk _ (by rwa [mass_mapKeys])]

theorem logicalPerf_scale (c : Cond) (k : ℚ) (hk : k ≠ 0) (z : D) :
    logicalPerf c (scale k z) = logicalPerf c z := by
  unfold logicalPerf
  rw [physPerf_scale, retained_scale, mass_scale]
  by_cases h : physPerf c z = 0
  · simp [h]
  · rw [if_neg h, if_neg (mul_ne_zero hk h)]
    field_simp

theorem retained_split (c : Cond) (z : D) : retained c z = restrict (logicOk c) (restrict (physOk c) z) := by
  rw [restrict_restrict]; rfl

theorem physOk_sel (σ : Sel) : physOk σ.cond = fun t : Fock => decide (σ.filter ≤ t.sum) := by
  funext t
  rfl

/-- what passes the outer filter is the same with or without the inner filter of `simulate_detectors` -/
theorem restrict_physOk_inner (σ : Sel) (M : ℕ) (x : D) :
    restrict (physOk σ.cond) (postprocess M (restrict (fun t => decide (σ.minDet ≤ t.sum)) x)) =
      restrict (physOk σ.cond) (postprocess M x) := by
  rw [physOk_sel, restrict_postprocess, restrict_postprocess,
    restrict_outer_inner M σ.minDet σ.filter (by unfold Sel.filter; omega) x]

theorem mass_restrict_le (ok : Fock → Bool) (d : D) (h : Nonneg d) : mass (restrict ok d) ≤ mass d := by
  have := mass_restrict_add ok d
  have h2 := mass_nonneg _ (nonneg_restrict (fun t => !ok t) d h)
  linarith

/-- an inner stage that hands on a sub-distribution `y` of the normalised enlarged distribution `x` which still
contains everything the outer photon filter accepts, reports its mass as a physical performance and normalises
(twice): followed by `_postprocess_bsd` of the loss layer, the run reports the specification on the marginal of `x` -/
theorem inner_drop_post_spec (σ : Sel) (M : ℕ) (x y : D) (hny : Nonneg y)
    (hA : restrict (physOk σ.cond) (postprocess M y) = restrict (physOk σ.cond) (postprocess M x))
    (hp : physPerf σ.cond (postprocess M x) ≠ 0) :
    let r := lossPost σ M (normalize (normalize y))
    mass y ≠ 0 ∧
    (mass (retained σ.cond (postprocess M x)) ≠ 0 → r.1 = conditioned σ.cond (postprocess M x)) ∧
      r.2.1 = logicalPerf σ.cond (postprocess M x) ∧
      mass y * r.2.2 = physPerf σ.cond (postprocess M x) := by
  intro r
  have hphys : physPerf σ.cond (postprocess M y) = physPerf σ.cond (postprocess M x) := by
    unfold physPerf; rw [hA]
  have hret : retained σ.cond (postprocess M y) = retained σ.cond (postprocess M x) := by
    rw [retained_split, retained_split, hA]
  have hW : mass y ≠ 0 := by
    have h1 : mass (restrict (physOk σ.cond) (postprocess M y)) ≤ mass (postprocess M y) :=
      mass_restrict_le _ _ (nonneg_postprocess M y hny)
    have h2 : 0 ≤ mass (restrict (physOk σ.cond) (postprocess M y)) :=
      mass_nonneg _ (nonneg_restrict _ _ (nonneg_postprocess M y hny))
    have h3 : mass (restrict (physOk σ.cond) (postprocess M y)) ≠ 0 := by
      have := hp; unfold physPerf at this; rwa [← hA] at this
    have h4 : mass (postprocess M y) = mass y := by unfold postprocess; rw [mass_mapKeys]
    intro h0
    rw [h4, h0] at h1
    exact h3 (le_antisymm h1 h2)
  have hk : (mass y)⁻¹ ≠ 0 := inv_ne_zero hW
  have hny1 : normalize y = scale (mass y)⁻¹ y := by unfold normalize; rw [if_neg hW]
  have hm1 : mass (normalize y) = 1 := mass_normalize y hW
  have hd' : normalize (normalize y) = scale (mass y)⁻¹ y := by rw [normalize_of_mass_one _ hm1, hny1]
  have hpp : postprocess M (scale (mass y)⁻¹ y) = scale (mass y)⁻¹ (postprocess M y) := by
    unfold postprocess; rw [mapKeys_scale]
  have hp' : physPerf σ.cond (postprocess M (scale (mass y)⁻¹ y)) ≠ 0 := by
    rw [hpp, physPerf_scale, hphys]; exact mul_ne_zero hk hp
  have hspec := lossPost_spec σ M (scale (mass y)⁻¹ y) (by rw [← hny1]; exact hm1) hp'
  obtain ⟨⟨h1, h2⟩, h3⟩ := hspec
  show mass y ≠ 0 ∧ (_ → (lossPost σ M (normalize (normalize y))).1 = _) ∧
    (lossPost σ M (normalize (normalize y))).2.1 = _ ∧
    mass y * (lossPost σ M (normalize (normalize y))).2.2 = _
  rw [hd']
  refine ⟨hW, ?_, ?_, ?_⟩
  · intro hr
    have hr' : mass (retained σ.cond (postprocess M y)) ≠ 0 := by rw [hret]; exact hr
    rw [h1 (by rw [hpp, retained_scale, mass_scale]; exact mul_ne_zero hk hr'), hpp,
      conditioned_scale _ _ hk _ hr']
    unfold conditioned
    rw [hret]
  · rw [h2, hpp, logicalPerf_scale _ _ hk]
    unfold logicalPerf
    rw [hphys, hret]
  · rw [h3, hpp, physPerf_scale, hphys]
    field_simp

/-- `simulate_detectors` (general branch: inner filter on the enlarged detected state, normalisation), the inner
`post_select_distribution` (normalisation) and `_postprocess_bsd` of the loss layer — against the specification on
the marginal of the detected distribution `x` -/
theorem simDet_post_spec (σ : Sel) (M : ℕ) (x : D) (hx : mass x = 1) (hn : Nonneg x)
    (hp : physPerf σ.cond (postprocess M x) ≠ 0) :
    let y := restrict (fun t => decide (σ.minDet ≤ t.sum)) x
    let w := 1 - mass (restrict (fun t => decide (t.sum < σ.minDet)) x)
    let r := lossPost σ M (normalize (normalize y))
    (mass (retained σ.cond (postprocess M x)) ≠ 0 → r.1 = conditioned σ.cond (postprocess M x)) ∧
      r.2.1 = logicalPerf σ.cond (postprocess M x) ∧
      w * r.2.2 = physPerf σ.cond (postprocess M x) := by
  intro y w r
  have hw : w = mass y := by
    have hadd := mass_restrict_add (fun t => decide (σ.minDet ≤ t.sum)) x
    have hfun : (fun t : Fock => !decide (σ.minDet ≤ t.sum)) = fun t : Fock => decide (t.sum < σ.minDet) := by
      funext t; by_cases h : σ.minDet ≤ t.sum <;> simp [h] <;> omega
    rw [hfun, hx] at hadd
    show 1 - mass (restrict (fun t => decide (t.sum < σ.minDet)) x) = mass y
    linarith
  obtain ⟨_, h1, h2, h3⟩ := inner_drop_post_spec σ M x y (nonneg_restrict _ x hn)
    (restrict_physOk_inner σ M x) hp
  exact ⟨h1, h2, by rw [hw]; exact h3⟩

theorem nonneg_detState (ks : List Kern) (s : List ℕ) (h : ∀ k ∈ ks, ∀ n, ∀ e ∈ k n, (0 : ℚ) ≤ e.2) :
    Nonneg (detState ks s) := by
  induction ks generalizing s with
  | nil => rw [detState_nil_left]; intro p hp; simp at hp; rw [hp]; norm_num
  | cons k ks ih =>
    cases s with
    | nil => rw [detState_nil_right]; intro p hp; simp at hp; rw [hp]; norm_num
    | cons n s =>
      intro p hp
      simp only [detState, List.mem_flatMap, List.mem_map] at hp
      obtain ⟨cq, hcq, tr, htr, rfl⟩ := hp
      exact mul_nonneg (h k List.mem_cons_self n cq hcq)
        (ih s (fun k' hk' => h k' (List.mem_cons_of_mem _ hk')) tr htr)

theorem nonneg_detectAll (ks : List Kern) (d : D) (h : ∀ k ∈ ks, ∀ n, ∀ e ∈ k n, (0 : ℚ) ≤ e.2)
    (hd : Nonneg d) : Nonneg (detectAll ks d) := by
  intro p hp
  simp only [detectAll, List.mem_flatMap, scale, List.mem_map] at hp
  obtain ⟨sp, hsp, tr, htr, rfl⟩ := hp
  exact mul_nonneg (hd sp hsp) (nonneg_detState ks sp.1 h tr htr)


end PM.C07
