/-
  C20 — the Python DFS `_is_cyclic` (perceval/converters/converter_utils.py) modelled as the code is,
  and its equivalence with the extensional criterion `Forest` / `forestB` of `Model/C20.lean`.
-/
import PercevalModel.Lemmas.C20

namespace PM.C20

/-! ### (1) executable model of `_is_cyclic` -/

/-- `adj_list[u].append(v)` -/
def adjAdd (adj : List (List ℕ)) (u v : ℕ) : List (List ℕ) := adj.modify u (· ++ [v])

/-- the adjacency lists built by `_find_max_ralph_pairs` (vertices already renumbered `0..n-1`):
`for u, v in E: adj[u].append(v); adj[v].append(u)` -/
def adjList (n : ℕ) (E : List Edge) : List (List ℕ) :=
  E.foldl (fun adj e => adjAdd (adjAdd adj e.1 e.2) e.2 e.1) (List.replicate n [])

/-- the `for i in adj_list[v]` loop of `_is_cyclic_util`; `call i vis` is the recursive call
`_is_cyclic_util(i, visited, v, adj_list)`; the result is (returned Boolean, `visited` afterwards) -/
def dfsLoop (call : ℕ → List Bool → Bool × List Bool) (parent : Option ℕ) :
    List ℕ → List Bool → Bool × List Bool
  | [], vis => (false, vis)
  | i :: rest, vis =>
    if vis.getD i false = false then
      (let r := call i vis
       if r.1 then (true, r.2) else dfsLoop call parent rest r.2)
    else if parent ≠ some i then (true, vis)
    else dfsLoop call parent rest vis

/-- `_is_cyclic_util(v, visited, parent, adj_list)` (`parent = -1` is `none`); first argument: fuel -/
def dfsUtil (adj : List (List ℕ)) : ℕ → ℕ → Option ℕ → List Bool → Bool × List Bool
  | 0, _, _, vis => (false, vis)
  | f + 1, v, parent, vis =>
    dfsLoop (fun i vis' => dfsUtil adj f i (some v) vis') parent (adj.getD v []) (vis.set v true)

/-- the `for i in range(cnot_node_count)` loop of `_is_cyclic` -/
def isCyclicLoop (adj : List (List ℕ)) (n : ℕ) : List ℕ → List Bool → Bool
  | [], _ => false
  | i :: rest, vis =>
    if vis.getD i false = false then
      (let r := dfsUtil adj n i none vis
       if r.1 then true else isCyclicLoop adj n rest r.2)
    else isCyclicLoop adj n rest vis

/-- `_is_cyclic(adj_list, cnot_node_count)` -/
def isCyclic (adj : List (List ℕ)) (n : ℕ) : Bool :=
  isCyclicLoop adj n (List.range n) (List.replicate n false)

example : isCyclic (adjList 3 [(0, 1), (1, 2), (2, 0)]) 3 = true := by decide +kernel
example : isCyclic (adjList 3 [(0, 1), (1, 2)]) 3 = false := by decide +kernel
example : isCyclic (adjList 2 [(0, 1), (1, 0)]) 2 = true := by decide +kernel
example : isCyclic (adjList 2 [(0, 1), (0, 1)]) 2 = true := by decide +kernel
example : isCyclic (adjList 1 [(0, 0)]) 1 = true := by decide +kernel
example : isCyclic (adjList 0 []) 0 = false := by decide +kernel
example : isCyclic (adjList 3 []) 3 = false := by decide +kernel
example : isCyclic (adjList 4 [(0, 1), (2, 3)]) 4 = false := by decide +kernel
example : isCyclic (adjList 5 [(0, 1), (2, 3), (3, 4), (4, 2)]) 5 = true := by decide +kernel
example : adjList 3 [(0, 1), (1, 2), (2, 0)] = [[1, 2], [0, 2], [1, 0]] := by decide +kernel
example : adjList 1 [(0, 0)] = [[0, 0]] := by decide +kernel
example : ∀ E ∈ [[(0, 1), (1, 2), (2, 0)], [(0, 1), (1, 2)], [(0, 1), (1, 0)], [(0, 1), (0, 1)],
    [(0, 0)], [], [(0, 1), (2, 3)], [(0, 1), (2, 3), (3, 4), (4, 2)], [(4, 0), (0, 3), (3, 1)]],
    isCyclic (adjList 5 E) 5 = !forestB E := by decide +kernel

/-! ### (2) `Forest` is invariant under injective renaming of the vertices and under re-orientation -/

theorem mem_verts {a : ℕ} {S : List Edge} : a ∈ verts S ↔ ∃ e ∈ S, a = e.1 ∨ a = e.2 := by
  simp only [verts, List.mem_flatMap, List.mem_cons, List.not_mem_nil, or_false]

theorem verts_subset_of_subperm {S E : List Edge} (h : S.Subperm E) : verts S ⊆ verts E := by
  intro a ha
  obtain ⟨e, he, h1⟩ := mem_verts.mp ha
  exact mem_verts.mpr ⟨e, h.subset he, h1⟩

/-- transport of the leaf criterion along a map of edges that transports degrees -/
theorem forest_map_core (g : Edge → Edge) (E : List Edge)
    (h1 : ∀ S : List Edge, S.Subperm E → ∀ v, deg v S = 1 → ∃ w, deg w (S.map g) = 1)
    (h2 : ∀ S : List Edge, S.Subperm E → ∀ w, deg w (S.map g) = 1 → ∃ v, deg v S = 1) :
    Forest (E.map g) ↔ Forest E := by
  constructor
  · intro hF S hS hne
    have hS' : (S.map g).Subperm (E.map g) := by
      obtain ⟨l, hl, hsub⟩ := hS
      exact ⟨l.map g, hl.map g, hsub.map g⟩
    obtain ⟨w, hw⟩ := hF (S.map g) hS' (by simpa using hne)
    exact h2 S hS w hw
  · intro hF S' hS' hne
    obtain ⟨l, hl, hsub⟩ := hS'
    obtain ⟨l0, hl0, rfl⟩ := List.sublist_map_iff.mp hsub
    have hne0 : l0 ≠ [] := by
      rintro rfl
      exact hne (List.Perm.eq_nil (by simpa using hl.symm))
    obtain ⟨v, hv⟩ := hF l0 hl0.subperm hne0
    obtain ⟨w, hw⟩ := h1 l0 hl0.subperm v hv
    exact ⟨w, by rw [← deg_perm hl w]; exact hw⟩

theorem deg_map_inj (φ : ℕ → ℕ) (v : ℕ) : ∀ (S : List Edge),
    (∀ a ∈ verts S, φ a = φ v → a = v) →
    deg (φ v) (S.map fun e => (φ e.1, φ e.2)) = deg v S
  | [], _ => rfl
  | e :: S, h => by
    have h1 : (φ e.1 = φ v) ↔ (e.1 = v) :=
      ⟨h _ (mem_verts.mpr ⟨e, List.mem_cons_self, Or.inl rfl⟩), fun h => by rw [h]⟩
    have h2 : (φ e.2 = φ v) ↔ (e.2 = v) :=
      ⟨h _ (mem_verts.mpr ⟨e, List.mem_cons_self, Or.inr rfl⟩), fun h => by rw [h]⟩
    have ih := deg_map_inj φ v S (fun a ha => h a (by
      obtain ⟨e', he', h'⟩ := mem_verts.mp ha
      exact mem_verts.mpr ⟨e', List.mem_cons_of_mem _ he', h'⟩))
    rw [List.map_cons, deg_cons, deg_cons, ih]
    simp only [h1, h2]

theorem verts_map (φ : ℕ → ℕ) (S : List Edge) :
    verts (S.map fun e => (φ e.1, φ e.2)) = (verts S).map φ := by
  induction S with
  | nil => rfl
  | cons e S ih =>
    simp only [verts, List.map_cons, List.flatMap_cons, List.map_append, List.map_nil] at ih ⊢
    rw [ih]

/-- the renumbering `node_map` of `_find_max_ralph_pairs` is irrelevant -/
theorem forest_map_iff (φ : ℕ → ℕ) (E : List Edge)
    (hφ : ∀ a ∈ verts E, ∀ b ∈ verts E, φ a = φ b → a = b) :
    Forest (E.map fun e => (φ e.1, φ e.2)) ↔ Forest E := by
  apply forest_map_core
  · intro S hS v hv
    have hvS : v ∈ verts S := deg_pos_mem_verts (by omega)
    have hsub := verts_subset_of_subperm hS
    exact ⟨φ v, by rw [deg_map_inj φ v S (fun a ha => hφ a (hsub ha) v (hsub hvS))]; exact hv⟩
  · intro S hS w hw
    have hwS : w ∈ verts (S.map fun e => (φ e.1, φ e.2)) := deg_pos_mem_verts (by omega)
    rw [verts_map, List.mem_map] at hwS
    obtain ⟨v, hvS, rfl⟩ := hwS
    have hsub := verts_subset_of_subperm hS
    exact ⟨v, by rw [← deg_map_inj φ v S (fun a ha => hφ a (hsub ha) v (hsub hvS))]; exact hw⟩

theorem deg_map_unordered (g : Edge → Edge) (hg : ∀ e, sameUnordered (g e) e) (v : ℕ) :
    ∀ S : List Edge, deg v (S.map g) = deg v S
  | [] => rfl
  | e :: S => by
    rw [List.map_cons, deg_cons, deg_cons, deg_map_unordered g hg v S]
    rcases hg e with ⟨h1, h2⟩ | ⟨h1, h2⟩
    · rw [h1, h2]
    · rw [h1, h2, Nat.add_comm (if e.2 = v then 1 else 0)]

/-- re-orienting edges (any choice `g` that keeps every unordered pair) does not change `Forest` -/
theorem forest_reorient (g : Edge → Edge) (hg : ∀ e, sameUnordered (g e) e) (E : List Edge) :
    Forest (E.map g) ↔ Forest E := by
  apply forest_map_core
  · intro S _ v hv
    exact ⟨v, by rw [deg_map_unordered g hg]; exact hv⟩
  · intro S _ w hw
    exact ⟨w, by rw [← deg_map_unordered g hg w S]; exact hw⟩

theorem forest_swap (E : List Edge) : Forest (E.map Prod.swap) ↔ Forest E :=
  forest_reorient Prod.swap (fun _ => Or.inr ⟨rfl, rfl⟩) E

/-! ### a rank criterion for forests -/

/-- without self-loops the degree of `c` is the number of edges incident to `c` -/
theorem deg_eq_length_filter (c : ℕ) : ∀ S : List Edge, (∀ e ∈ S, e.1 ≠ e.2) →
    deg c S = (S.filter fun e => decide (e.1 = c ∨ e.2 = c)).length
  | [], _ => rfl
  | e :: S, h => by
    have ih := deg_eq_length_filter c S (fun e he => h e (List.mem_cons_of_mem _ he))
    have hne := h e List.mem_cons_self
    rw [deg_cons, ih, List.filter_cons]
    by_cases h1 : e.1 = c
    · have h2 : ¬ e.2 = c := fun h2 => hne (h1.trans h2.symm)
      simp [h1, h2]; omega
    · by_cases h2 : e.2 = c
      · simp [h1, h2]; omega
      · simp [h1, h2]

theorem exists_max_rank (rank : ℕ → ℕ) : ∀ l : List ℕ, l ≠ [] → ∃ c ∈ l, ∀ x ∈ l, rank x ≤ rank c
  | [], h => absurd rfl h
  | [a], _ => ⟨a, List.mem_cons_self, fun x hx => by simp at hx; rw [hx]⟩
  | a :: b :: l, _ => by
    obtain ⟨c, hc, hmax⟩ := exists_max_rank rank (b :: l) (by simp)
    by_cases h : rank a ≤ rank c
    · refine ⟨c, List.mem_cons_of_mem _ hc, fun x hx => ?_⟩
      rcases List.mem_cons.mp hx with rfl | hx
      · exact h
      · exact hmax x hx
    · refine ⟨a, List.mem_cons_self, fun x hx => ?_⟩
      rcases List.mem_cons.mp hx with rfl | hx
      · exact le_refl _
      · exact le_trans (hmax x hx) (by omega)

/-- `e` joins `c` to a vertex of smaller rank -/
def downEdge (rank : ℕ → ℕ) (c : ℕ) (e : Edge) : Bool :=
  decide ((e.1 = c ∧ rank e.2 < rank c) ∨ (e.2 = c ∧ rank e.1 < rank c))

/-- rank criterion: if the two ends of every edge have different ranks and every vertex has at most one
edge to a vertex of smaller rank, the multigraph is a forest (the vertex of largest rank of a
sub-multiset is a leaf of it) -/
theorem forest_of_rank (rank : ℕ → ℕ) (E : List Edge) (h1 : ∀ e ∈ E, rank e.1 ≠ rank e.2)
    (h2 : ∀ c, (E.filter (downEdge rank c)).length ≤ 1) : Forest E := by
  intro S hS hne
  have hvne : verts S ≠ [] := by
    cases S with
    | nil => exact absurd rfl hne
    | cons e S => simp [verts]
  obtain ⟨c, hc, hmax⟩ := exists_max_rank rank (verts S) hvne
  refine ⟨c, ?_⟩
  have hloop : ∀ e ∈ S, e.1 ≠ e.2 := fun e he h => h1 e (hS.subset he) (by rw [h])
  rw [deg_eq_length_filter c S hloop]
  have hcongr : (S.filter fun e => decide (e.1 = c ∨ e.2 = c)) = S.filter (downEdge rank c) := by
    apply List.filter_congr
    intro e he
    have hr := h1 e (hS.subset he)
    have hr1 := hmax e.1 (mem_verts.mpr ⟨e, he, Or.inl rfl⟩)
    have hr2 := hmax e.2 (mem_verts.mpr ⟨e, he, Or.inr rfl⟩)
    unfold downEdge
    by_cases a : e.1 = c
    · have : rank e.2 < rank c := by rw [a] at hr; omega
      simp [a, this]
    · by_cases b : e.2 = c
      · have : rank e.1 < rank c := by rw [b] at hr; omega
        simp [b, this]
      · simp [a, b]
  have hle : (S.filter (downEdge rank c)).length ≤ 1 :=
    le_trans (hS.filter _).length_le (h2 c)
  have hpos : 0 < (S.filter fun e => decide (e.1 = c ∨ e.2 = c)).length := by
    obtain ⟨e, he, hce⟩ := mem_verts.mp hc
    apply List.length_pos_of_mem (a := e)
    rw [List.mem_filter]
    refine ⟨he, ?_⟩
    rcases hce with h | h <;> simp [h]
  rw [hcongr] at hpos ⊢
  omega

/-! ### the adjacency lists -/

/-- the entries of `adj_list[v]`, in order -/
def nbrs (E : List Edge) (v : ℕ) : List ℕ :=
  E.flatMap fun e => (if e.1 = v then [e.2] else []) ++ (if e.2 = v then [e.1] else [])

theorem adjAdd_length (adj : List (List ℕ)) (u w : ℕ) : (adjAdd adj u w).length = adj.length := by
  simp [adjAdd]

theorem adjAdd_getD (adj : List (List ℕ)) (u w v : ℕ) (hu : u < adj.length) :
    (adjAdd adj u w).getD v [] = adj.getD v [] ++ (if u = v then [w] else []) := by
  unfold adjAdd
  rw [List.getD_eq_getElem?_getD, List.getD_eq_getElem?_getD, List.getElem?_modify]
  by_cases h : u = v
  · subst h
    rw [List.getElem?_eq_getElem hu]
    simp
  · cases hv : adj[v]? <;> simp [h]

theorem adjList_aux (v : ℕ) : ∀ (E : List Edge) (adj : List (List ℕ)),
    (∀ e ∈ E, e.1 < adj.length ∧ e.2 < adj.length) →
    (E.foldl (fun adj e => adjAdd (adjAdd adj e.1 e.2) e.2 e.1) adj).getD v []
      = adj.getD v [] ++ nbrs E v
  | [], adj, _ => by simp [nbrs]
  | e :: E, adj, h => by
    have he := h e List.mem_cons_self
    rw [List.foldl_cons, adjList_aux v E _ (fun e' he' => by
      rw [adjAdd_length, adjAdd_length]; exact h e' (List.mem_cons_of_mem _ he'))]
    rw [adjAdd_getD _ _ _ _ (by rw [adjAdd_length]; exact he.2), adjAdd_getD _ _ _ _ he.1]
    simp [nbrs, List.append_assoc]

theorem adjList_getD (n : ℕ) (E : List Edge) (hE : ∀ e ∈ E, e.1 < n ∧ e.2 < n) (v : ℕ) :
    (adjList n E).getD v [] = nbrs E v := by
  unfold adjList
  rw [adjList_aux v E _ (by simpa using hE)]
  simp [List.getD_eq_getElem?_getD, List.getElem?_replicate]
  split <;> rfl

theorem mem_nbrs {E : List Edge} {x y : ℕ} :
    y ∈ nbrs E x ↔ ∃ e ∈ E, (e.1 = x ∧ e.2 = y) ∨ (e.2 = x ∧ e.1 = y) := by
  unfold nbrs
  rw [List.mem_flatMap]
  constructor
  · rintro ⟨e, he, h⟩
    refine ⟨e, he, ?_⟩
    rw [List.mem_append] at h
    rcases h with h | h
    · by_cases a : e.1 = x
      · simp [a] at h; exact Or.inl ⟨a, h.symm⟩
      · simp [a] at h
    · by_cases a : e.2 = x
      · simp [a] at h; exact Or.inr ⟨a, h.symm⟩
      · simp [a] at h
  · rintro ⟨e, he, h⟩
    refine ⟨e, he, ?_⟩
    rcases h with ⟨a, b⟩ | ⟨a, b⟩
    · simp [a, b]
    · simp [a, b]

/-- `e` joins `x` and `y` -/
def btw (x y : ℕ) (e : Edge) : Bool := decide ((e.1 = x ∧ e.2 = y) ∨ (e.1 = y ∧ e.2 = x))

theorem count_nbrs_one {x y : ℕ} (hxy : x ≠ y) (e : Edge) :
    ((if e.1 = x then [e.2] else []) ++ (if e.2 = x then [e.1] else [])).count y
      = if btw x y e then 1 else 0 := by
  have hyx : ¬ y = x := fun h => hxy h.symm
  unfold btw
  by_cases a : e.1 = x <;> by_cases b : e.2 = x <;> by_cases c : e.1 = y <;> by_cases d : e.2 = y <;>
    simp [a, b, c, d, hxy, hyx, List.count_nil]

theorem count_nbrs {x y : ℕ} (hxy : x ≠ y) : ∀ E : List Edge,
    (nbrs E x).count y = (E.filter (btw x y)).length
  | [] => rfl
  | e :: E => by
    have ih := count_nbrs hxy E
    unfold nbrs at ih ⊢
    rw [List.flatMap_cons, List.count_append, ih, count_nbrs_one hxy, List.filter_cons]
    split <;> simp; omega

theorem mem_verts_of_mem_nbrs {E : List Edge} {x y : ℕ} (h : y ∈ nbrs E x) :
    x ∈ verts E ∧ y ∈ verts E := by
  obtain ⟨e, he, h⟩ := mem_nbrs.mp h
  rcases h with ⟨a, b⟩ | ⟨a, b⟩
  · exact ⟨mem_verts.mpr ⟨e, he, Or.inl a.symm⟩, mem_verts.mpr ⟨e, he, Or.inr b.symm⟩⟩
  · exact ⟨mem_verts.mpr ⟨e, he, Or.inr a.symm⟩, mem_verts.mpr ⟨e, he, Or.inl b.symm⟩⟩

/-- local shape of a vertex `x` with parent `q` in a DFS forest with depths `r`: every entry of
`adj[x]` is the parent, or a child (one level deeper) that occurs exactly once in `adj[x]` -/
def NodeG (E : List Edge) (r : ℕ → ℕ) (x : ℕ) (q : Option ℕ) : Prop :=
  (∀ q', q = some q' → r q' + 1 = r x) ∧
  ∀ y ∈ nbrs E x, q = some y ∨ (r y = r x + 1 ∧ (nbrs E x).count y = 1)

theorem forest_of_nodes (E : List Edge) (r : ℕ → ℕ) (h : ∀ x ∈ verts E, ∃ q, NodeG E r x q) :
    Forest E := by
  -- the two ends of an edge are on adjacent levels
  have hlev : ∀ x y, y ∈ nbrs E x → r y + 1 = r x ∨ r y = r x + 1 := by
    intro x y hy
    obtain ⟨q, hq1, hq2⟩ := h x (mem_verts_of_mem_nbrs hy).1
    rcases hq2 y hy with hq | ⟨hr, _⟩
    · exact Or.inl (hq1 y hq)
    · exact Or.inr hr
  apply forest_of_rank r
  · intro e he
    have : e.2 ∈ nbrs E e.1 := mem_nbrs.mpr ⟨e, he, Or.inl ⟨rfl, rfl⟩⟩
    rcases hlev _ _ this with h | h <;> omega
  · intro c
    by_cases hc : c ∈ verts E
    swap
    · have : E.filter (downEdge r c) = [] := by
        rw [List.filter_eq_nil_iff]
        intro e he hd
        unfold downEdge at hd
        rw [decide_eq_true_eq] at hd
        rcases hd with ⟨a, _⟩ | ⟨a, _⟩
        · exact hc (mem_verts.mpr ⟨e, he, Or.inl a.symm⟩)
        · exact hc (mem_verts.mpr ⟨e, he, Or.inr a.symm⟩)
      rw [this]; exact Nat.zero_le _
    obtain ⟨q, hq1, hq2⟩ := h c hc
    -- a lower neighbour of `c` is its parent
    have hdown : ∀ y, y ∈ nbrs E c → r y < r c → q = some y := by
      intro y hy hlt
      rcases hq2 y hy with hq | ⟨hr, _⟩
      · exact hq
      · omega
    cases q with
    | none =>
      have : E.filter (downEdge r c) = [] := by
        rw [List.filter_eq_nil_iff]
        intro e he hd
        unfold downEdge at hd
        rw [decide_eq_true_eq] at hd
        rcases hd with ⟨a, hlt⟩ | ⟨a, hlt⟩
        · exact absurd (hdown e.2 (mem_nbrs.mpr ⟨e, he, Or.inl ⟨a, rfl⟩⟩) hlt) (by simp)
        · exact absurd (hdown e.1 (mem_nbrs.mpr ⟨e, he, Or.inr ⟨a, rfl⟩⟩) hlt) (by simp)
      rw [this]; exact Nat.zero_le _
    | some y0 =>
      have hr0 : r y0 + 1 = r c := hq1 y0 rfl
      have hne : y0 ≠ c := fun h => by rw [h] at hr0; omega
      have hcongr : E.filter (downEdge r c) = E.filter (btw y0 c) := by
        apply List.filter_congr
        intro e he
        unfold downEdge btw
        rw [decide_eq_decide]
        constructor
        · rintro (⟨a, hlt⟩ | ⟨a, hlt⟩)
          · have := hdown e.2 (mem_nbrs.mpr ⟨e, he, Or.inl ⟨a, rfl⟩⟩) hlt
            exact Or.inr ⟨a, (Option.some.inj this).symm⟩
          · have := hdown e.1 (mem_nbrs.mpr ⟨e, he, Or.inr ⟨a, rfl⟩⟩) hlt
            exact Or.inl ⟨(Option.some.inj this).symm, a⟩
        · rintro (⟨a, b⟩ | ⟨a, b⟩)
          · exact Or.inr ⟨b, by rw [a]; omega⟩
          · exact Or.inl ⟨a, by rw [b]; omega⟩
      rw [hcongr, ← count_nbrs hne]
      by_cases hmem : c ∈ nbrs E y0
      · obtain ⟨q0, hq01, hq02⟩ := h y0 (mem_verts_of_mem_nbrs hmem).1
        rcases hq02 c hmem with hq | ⟨_, hcnt⟩
        · have := hq01 c hq; omega
        · exact le_of_eq hcnt
      · rw [List.count_eq_zero_of_not_mem hmem]; exact Nat.zero_le _

/-! ### the `visited` array -/

/-- `W'` has (weakly) more visited vertices than `W` -/
def VLe (W W' : List Bool) : Prop :=
  W.length = W'.length ∧ ∀ x, W.getD x false = true → W'.getD x false = true

theorem VLe.refl (W : List Bool) : VLe W W := ⟨rfl, fun _ h => h⟩

theorem VLe.trans {W₁ W₂ W₃ : List Bool} (h₁ : VLe W₁ W₂) (h₂ : VLe W₂ W₃) : VLe W₁ W₃ :=
  ⟨h₁.1.trans h₂.1, fun x h => h₂.2 x (h₁.2 x h)⟩

theorem getD_set_true (W : List Bool) (v x : ℕ) :
    (W.set v true).getD x false = true ↔ (x = v ∧ v < W.length) ∨ W.getD x false = true := by
  rw [List.getD_eq_getElem?_getD, List.getD_eq_getElem?_getD, List.getElem?_set]
  by_cases h : v = x
  · subst h
    by_cases hl : v < W.length
    · simp [hl]
    · simp [hl]
  · have h' : ¬ x = v := fun e => h e.symm
    simp [h, h']

theorem VLe_set (W : List Bool) (v : ℕ) : VLe W (W.set v true) :=
  ⟨by simp, fun x h => (getD_set_true W v x).mpr (Or.inr h)⟩

theorem lt_of_getD_true {W : List Bool} {x : ℕ} (h : W.getD x false = true) : x < W.length := by
  by_contra hx
  rw [List.getD_eq_getElem?_getD, List.getElem?_eq_none (by omega)] at h
  simp at h

theorem count_false_le : ∀ (W W' : List Bool), VLe W W' → W'.count false ≤ W.count false
  | [], W', h => by
    have : W' = [] := List.length_eq_zero_iff.mp h.1.symm
    rw [this]
  | a :: W, [], h => absurd h.1 (by simp)
  | a :: W, b :: W', h => by
    have ih := count_false_le W W' ⟨by simpa using h.1, fun x hx => by
      have := h.2 (x + 1); simpa using this hx⟩
    have h0 := h.2 0
    simp only [List.getD_cons_zero] at h0
    rw [List.count_cons, List.count_cons]
    cases a <;> cases b <;> simp_all
    omega

theorem count_false_set : ∀ (W : List Bool) (v : ℕ), v < W.length → W.getD v false = false →
    (W.set v true).count false + 1 = W.count false
  | [], v, h, _ => by simp at h
  | a :: W, 0, _, h => by
    simp only [List.getD_cons_zero] at h
    subst h
    simp
  | a :: W, v + 1, hl, h => by
    have ih := count_false_set W v (by simpa using hl) (by simpa using h)
    rw [List.set_cons_succ, List.count_cons, List.count_cons, ← ih]
    omega

theorem count_false_pos {W : List Bool} {v : ℕ} (hv : v < W.length) (h : W.getD v false = false) :
    0 < W.count false := by
  have := count_false_set W v hv h
  omega

/-! ### (3) soundness: invariants of a run that returns `False` -/

/-- `x` is visited in `W'` but not in `W` -/
def NewIn (W W' : List Bool) (x : ℕ) : Prop := W'.getD x false = true ∧ W.getD x false = false

/-- local shape at a discovered vertex `x` with parent `q`, depths `r`, inside the region `D` -/
def Node (adj : List (List ℕ)) (r : ℕ → ℕ) (D : ℕ → Prop) (x : ℕ) (q : Option ℕ) : Prop :=
  (∀ q', q = some q' → D q' ∧ r q' + 1 = r x) ∧
  ∀ y ∈ adj.getD x [], q = some y ∨ (D y ∧ r y = r x + 1 ∧ (adj.getD x []).count y = 1)

theorem Node.mono {adj : List (List ℕ)} {r r' : ℕ → ℕ} {D D' : ℕ → Prop} {x : ℕ} {q : Option ℕ}
    (h : Node adj r D x q) (hD : ∀ z, D z → D' z) (hr : ∀ z, D z → r' z = r z) (hx : r' x = r x) :
    Node adj r' D' x q := by
  refine ⟨fun q' hq => ?_, fun y hy => ?_⟩
  · obtain ⟨h1, h2⟩ := h.1 q' hq
    exact ⟨hD _ h1, by rw [hr _ h1, hx]; exact h2⟩
  · rcases h.2 y hy with h1 | ⟨h1, h2, h3⟩
    · exact Or.inl h1
    · exact Or.inr ⟨hD _ h1, by rw [hr _ h1, hx]; exact h2, h3⟩

/-- what a call `_is_cyclic_util(v, W, p)` that returns `False` with `visited = W'` has established -/
def UtilSpec (adj : List (List ℕ)) (v : ℕ) (p : Option ℕ) (dv : ℕ) (W W' : List Bool) : Prop :=
  VLe W W' ∧ W'.getD v false = true ∧ ∃ r : ℕ → ℕ, r v = dv ∧
    (∀ y ∈ adj.getD v [], p = some y ∨
      (NewIn W W' y ∧ r y = dv + 1 ∧ (adj.getD v []).count y = 1)) ∧
    (∀ x, NewIn W W' x → x ≠ v → ∃ q, Node adj r (NewIn W W') x q)

/-- what the loop over the entries `rest` of `adj[v]` that ends without `return True` has established -/
def LoopSpec (adj : List (List ℕ)) (v : ℕ) (p : Option ℕ) (dv : ℕ) (rest : List ℕ)
    (vis vis' : List Bool) : Prop :=
  VLe vis vis' ∧ ∃ r : ℕ → ℕ, r v = dv ∧
    (∀ i ∈ rest, (vis.getD i false = true → p = some i) ∧
      (vis.getD i false = false → NewIn vis vis' i ∧ r i = dv + 1 ∧ rest.count i = 1)) ∧
    (∀ x, NewIn vis vis' x → ∃ q, Node adj r (fun z => NewIn vis vis' z ∨ z = v) x q)

theorem LoopSpec.nil (adj : List (List ℕ)) (v : ℕ) (p : Option ℕ) (dv : ℕ) (vis : List Bool) :
    LoopSpec adj v p dv [] vis vis := by
  refine ⟨VLe.refl _, fun _ => dv, rfl, fun i hi => absurd hi (by simp), fun x hx => ?_⟩
  obtain ⟨h1, h2⟩ := hx
  rw [h1] at h2
  exact absurd h2 (by simp)

theorem LoopSpec.cons_old {adj : List (List ℕ)} {v : ℕ} {p : Option ℕ} {dv i : ℕ} {rest : List ℕ}
    {vis vis' : List Bool} (hi : vis.getD i false = true) (hp : p = some i)
    (h : LoopSpec adj v p dv rest vis vis') : LoopSpec adj v p dv (i :: rest) vis vis' := by
  obtain ⟨hle, r, hrv, hent, hnode⟩ := h
  refine ⟨hle, r, hrv, fun j hj => ?_, hnode⟩
  rcases List.mem_cons.mp hj with rfl | hj
  · exact ⟨fun _ => hp, fun h0 => by rw [hi] at h0; exact absurd h0 (by simp)⟩
  · refine ⟨(hent j hj).1, fun h0 => ?_⟩
    obtain ⟨a, b, c⟩ := (hent j hj).2 h0
    refine ⟨a, b, ?_⟩
    have hne : i ≠ j := fun e => by rw [e, h0] at hi; exact absurd hi (by simp)
    rw [List.count_cons_of_ne hne]; exact c

theorem LoopSpec.cons_new {adj : List (List ℕ)} {v : ℕ} {p : Option ℕ} {dv i : ℕ} {rest : List ℕ}
    {vis W1 vis' : List Bool} (hi : vis.getD i false = false) (hv : vis.getD v false = true)
    (hp : ∀ q, p = some q → vis.getD q false = true)
    (h1 : UtilSpec adj i (some v) (dv + 1) vis W1) (h2 : LoopSpec adj v p dv rest W1 vis') :
    LoopSpec adj v p dv (i :: rest) vis vis' := by
  obtain ⟨hle1, hi1, r1, hr1i, hroot1, hnode1⟩ := h1
  obtain ⟨hle2, r2, hr2v, hent2, hnode2⟩ := h2
  obtain ⟨r, hrA, hrB⟩ : ∃ r : ℕ → ℕ, (∀ x, NewIn vis W1 x → r x = r1 x) ∧
      (∀ x, ¬ NewIn vis W1 x → r x = r2 x) := by
    classical
    exact ⟨fun x => if NewIn vis W1 x then r1 x else r2 x, fun x hx => if_pos hx,
      fun x hx => if_neg hx⟩
  have hv1 : ¬ NewIn vis W1 v := fun h => by
    have := h.2; rw [hv] at this; exact absurd this (by simp)
  have hnewA : ∀ x, NewIn vis W1 x → NewIn vis vis' x := fun x hx => ⟨hle2.2 x hx.1, hx.2⟩
  have hnewB : ∀ x, NewIn W1 vis' x → NewIn vis vis' x ∧ ¬ NewIn vis W1 x := fun x hx =>
    ⟨⟨hx.1, by
      cases h : vis.getD x false with
      | false => rfl
      | true => have := hle1.2 x h; rw [hx.2] at this; exact absurd this (by simp)⟩,
     fun h => by have := hx.2; rw [h.1] at this; exact absurd this (by simp)⟩
  -- an entry of `rest` that is visited after the call on `i` was visited before it
  have hW1 : ∀ j ∈ rest, W1.getD j false = true → vis.getD j false = true := fun j hj h =>
    hp j ((hent2 j hj).1 h)
  refine ⟨hle1.trans hle2, r, ?_, ?_, ?_⟩
  · rw [hrB v hv1]; exact hr2v
  · intro j hj
    rcases List.mem_cons.mp hj with rfl | hj
    · refine ⟨fun h => by rw [hi] at h; exact absurd h (by simp), fun _ => ?_⟩
      have hnew : NewIn vis W1 j := ⟨hi1, hi⟩
      refine ⟨hnewA j hnew, by rw [hrA j hnew]; exact hr1i, ?_⟩
      have : j ∉ rest := fun hmem => by
        have := hW1 j hmem hi1; rw [hi] at this; exact absurd this (by simp)
      rw [List.count_cons_self, List.count_eq_zero_of_not_mem this]
    · refine ⟨fun h => (hent2 j hj).1 (hle1.2 j h), fun h0 => ?_⟩
      have hj1 : W1.getD j false = false := by
        cases h : W1.getD j false with
        | false => rfl
        | true => have := hW1 j hj h; rw [h0] at this; exact absurd this (by simp)
      obtain ⟨a, b, c⟩ := (hent2 j hj).2 hj1
      obtain ⟨a1, a2⟩ := hnewB j a
      refine ⟨a1, by rw [hrB j a2]; exact b, ?_⟩
      have hne : i ≠ j := fun e => by rw [e, hj1] at hi1; exact absurd hi1 (by simp)
      rw [List.count_cons_of_ne hne]; exact c
  · intro x hx
    by_cases hx1 : W1.getD x false = true
    · have hnew : NewIn vis W1 x := ⟨hx1, hx.2⟩
      by_cases hxi : x = i
      · subst hxi
        refine ⟨some v, fun q' hq => ?_, fun y hy => ?_⟩
        · obtain rfl : v = q' := Option.some.inj hq
          exact ⟨Or.inr rfl, by rw [hrB _ hv1, hrA _ hnew, hr2v, hr1i]⟩
        · rcases hroot1 y hy with h | ⟨a, b, c⟩
          · exact Or.inl h
          · exact Or.inr ⟨Or.inl (hnewA y a), by rw [hrA y a, hrA _ hnew, b, hr1i], c⟩
      · obtain ⟨q, hq⟩ := hnode1 x hnew hxi
        exact ⟨q, hq.mono (fun z hz => Or.inl (hnewA z hz)) (fun z hz => hrA z hz) (hrA x hnew)⟩
    · have hx1' : W1.getD x false = false := by simpa using hx1
      have hnew : NewIn W1 vis' x := ⟨hx.1, hx1'⟩
      obtain ⟨q, hq⟩ := hnode2 x hnew
      refine ⟨q, hq.mono (fun z hz => ?_) (fun z hz => ?_) (hrB x (hnewB x hnew).2)⟩
      · rcases hz with hz | hz
        · exact Or.inl (hnewB z hz).1
        · exact Or.inr hz
      · rcases hz with hz | hz
        · exact hrB z (hnewB z hz).2
        · rw [hz]; exact hrB v hv1

theorem UtilSpec.of_loop {adj : List (List ℕ)} {v : ℕ} {p : Option ℕ} {dv : ℕ} {W W' : List Bool}
    (hv : v < W.length) (hW : W.getD v false = false)
    (h : LoopSpec adj v p dv (adj.getD v []) (W.set v true) W') : UtilSpec adj v p dv W W' := by
  obtain ⟨hle, r, hrv, hent, hnode⟩ := h
  have hset : ∀ x, (W.set v true).getD x false = true ↔ x = v ∨ W.getD x false = true := fun x => by
    rw [getD_set_true]
    constructor
    · rintro (⟨a, _⟩ | a)
      · exact Or.inl a
      · exact Or.inr a
    · rintro (a | a)
      · exact Or.inl ⟨a, hv⟩
      · exact Or.inr a
  have hvv : (W.set v true).getD v false = true := (hset v).mpr (Or.inl rfl)
  have hnew1 : ∀ x, NewIn (W.set v true) W' x → NewIn W W' x := fun x hx => ⟨hx.1, by
    cases h : W.getD x false with
    | false => rfl
    | true => have := (hset x).mpr (Or.inr h); rw [hx.2] at this; exact absurd this (by simp)⟩
  have hnew2 : ∀ x, NewIn W W' x → x ≠ v → NewIn (W.set v true) W' x := fun x hx hne => ⟨hx.1, by
    cases h : (W.set v true).getD x false with
    | false => rfl
    | true =>
      rcases (hset x).mp h with a | a
      · exact absurd a hne
      · rw [hx.2] at a; exact absurd a (by simp)⟩
  refine ⟨(VLe_set W v).trans hle, hle.2 v hvv, r, hrv, fun y hy => ?_, fun x hx hne => ?_⟩
  · by_cases hy1 : (W.set v true).getD y false = true
    · exact Or.inl ((hent y hy).1 hy1)
    · obtain ⟨a, b, c⟩ := (hent y hy).2 (by simpa using hy1)
      exact Or.inr ⟨hnew1 y a, b, c⟩
  · obtain ⟨q, hq⟩ := hnode x (hnew2 x hx hne)
    refine ⟨q, hq.mono (fun z hz => ?_) (fun _ _ => rfl) rfl⟩
    rcases hz with hz | hz
    · exact hnew1 z hz
    · rw [hz]; exact ⟨hle.2 v hvv, hW⟩

theorem dfsLoop_sound (adj : List (List ℕ)) (n f v : ℕ) (p : Option ℕ) (dv : ℕ)
    (IH : ∀ i W W', i < n → W.length = n → W.getD i false = false → W.getD v false = true →
      W.count false ≤ f → dfsUtil adj f i (some v) W = (false, W') →
      UtilSpec adj i (some v) (dv + 1) W W') :
    ∀ (rest : List ℕ) (vis vis' : List Bool), (∀ i ∈ rest, i < n) → vis.length = n →
      vis.getD v false = true → (∀ q, p = some q → vis.getD q false = true) → vis.count false ≤ f →
      dfsLoop (fun i vis' => dfsUtil adj f i (some v) vis') p rest vis = (false, vis') →
      LoopSpec adj v p dv rest vis vis'
  | [], vis, vis', _, _, _, _, _, h => by
    simp only [dfsLoop] at h
    obtain rfl := (Prod.mk.inj h).2
    exact LoopSpec.nil ..
  | i :: rest, vis, vis', hr, hl, hv, hp, hc, h => by
    rw [dfsLoop] at h
    by_cases hi : vis.getD i false = false
    · rw [if_pos hi] at h
      cases hcall : dfsUtil adj f i (some v) vis with
      | mk b W1 =>
        simp only [hcall] at h
        cases b with
        | true => simp at h
        | false =>
          simp only [Bool.false_eq_true, if_false] at h
          have h1 := IH i vis W1 (hr i List.mem_cons_self) hl hi hv hc hcall
          have h2 := dfsLoop_sound adj n f v p dv IH rest W1 vis'
            (fun j hj => hr j (List.mem_cons_of_mem _ hj)) (h1.1.1 ▸ hl) (h1.1.2 v hv)
            (fun q hq => h1.1.2 q (hp q hq)) (le_trans (count_false_le _ _ h1.1) hc) h
          exact LoopSpec.cons_new hi hv hp h1 h2
    · rw [if_neg hi] at h
      by_cases hpi : p = some i
      · rw [if_neg (not_not.mpr hpi)] at h
        exact LoopSpec.cons_old (by simpa using hi) hpi
          (dfsLoop_sound adj n f v p dv IH rest vis vis'
            (fun j hj => hr j (List.mem_cons_of_mem _ hj)) hl hv hp hc h)
      · rw [if_pos hpi] at h
        simp at h

theorem dfsUtil_sound (adj : List (List ℕ)) (n : ℕ) (hadj : ∀ x, ∀ y ∈ adj.getD x [], y < n) :
    ∀ (f v : ℕ) (p : Option ℕ) (dv : ℕ) (W W' : List Bool), v < n → W.length = n →
      W.getD v false = false → (∀ q, p = some q → W.getD q false = true) → W.count false ≤ f →
      dfsUtil adj f v p W = (false, W') → UtilSpec adj v p dv W W'
  | 0, v, p, dv, W, W', hv, hl, hW, _, hc, _ => by
    have := count_false_pos (hl ▸ hv) hW
    omega
  | f + 1, v, p, dv, W, W', hv, hl, hW, hp, hc, h => by
    rw [dfsUtil] at h
    have hv' : v < W.length := hl ▸ hv
    apply UtilSpec.of_loop hv' hW
    have hcs := count_false_set W v hv' hW
    exact dfsLoop_sound adj n f v p dv
      (fun i W0 W0' hi hl0 hW0 hv0 hc0 hcall =>
        dfsUtil_sound adj n hadj f i (some v) (dv + 1) W0 W0' hi hl0 hW0
          (fun q hq => by obtain rfl := Option.some.inj hq; exact hv0) hc0 hcall)
      (adj.getD v []) (W.set v true) W' (hadj v) (by simp [hl])
      ((getD_set_true _ _ _).mpr (Or.inl ⟨rfl, hv'⟩))
      (fun q hq => (getD_set_true _ _ _).mpr (Or.inr (hp q hq))) (by omega) h

theorem nodes_merge {adj : List (List ℕ)} {W0 W1 W2 : List Bool} {r1 r2 : ℕ → ℕ}
    (h01 : VLe W0 W1) (h12 : VLe W1 W2)
    (hA : ∀ x, NewIn W0 W1 x → ∃ q, Node adj r1 (NewIn W0 W1) x q)
    (hB : ∀ x, NewIn W1 W2 x → ∃ q, Node adj r2 (NewIn W1 W2) x q) :
    ∃ r : ℕ → ℕ, ∀ x, NewIn W0 W2 x → ∃ q, Node adj r (NewIn W0 W2) x q := by
  obtain ⟨r, hrA, hrB⟩ : ∃ r : ℕ → ℕ, (∀ x, NewIn W0 W1 x → r x = r1 x) ∧
      (∀ x, ¬ NewIn W0 W1 x → r x = r2 x) := by
    classical
    exact ⟨fun x => if NewIn W0 W1 x then r1 x else r2 x, fun x hx => if_pos hx,
      fun x hx => if_neg hx⟩
  have hnewA : ∀ x, NewIn W0 W1 x → NewIn W0 W2 x := fun x hx => ⟨h12.2 x hx.1, hx.2⟩
  have hnewB : ∀ x, NewIn W1 W2 x → NewIn W0 W2 x ∧ ¬ NewIn W0 W1 x := fun x hx =>
    ⟨⟨hx.1, by
      cases h : W0.getD x false with
      | false => rfl
      | true => have := h01.2 x h; rw [hx.2] at this; exact absurd this (by simp)⟩,
     fun h => by have := hx.2; rw [h.1] at this; exact absurd this (by simp)⟩
  refine ⟨r, fun x hx => ?_⟩
  by_cases hx1 : W1.getD x false = true
  · have hnew : NewIn W0 W1 x := ⟨hx1, hx.2⟩
    obtain ⟨q, hq⟩ := hA x hnew
    exact ⟨q, hq.mono hnewA hrA (hrA x hnew)⟩
  · have hnew : NewIn W1 W2 x := ⟨hx.1, by simpa using hx1⟩
    obtain ⟨q, hq⟩ := hB x hnew
    exact ⟨q, hq.mono (fun z hz => (hnewB z hz).1) (fun z hz => hrB z (hnewB z hz).2)
      (hrB x (hnewB x hnew).2)⟩

/-- a root call: all discovered vertices, the root included, have the local tree shape -/
theorem UtilSpec.root {adj : List (List ℕ)} {v dv : ℕ} {W W' : List Bool}
    (h : UtilSpec adj v none dv W W') :
    ∃ r : ℕ → ℕ, ∀ x, NewIn W W' x → ∃ q, Node adj r (NewIn W W') x q := by
  obtain ⟨_, _, r, hrv, hroot, hnode⟩ := h
  refine ⟨r, fun x hx => ?_⟩
  by_cases hxv : x = v
  · subst hxv
    refine ⟨none, fun q' hq => absurd hq (by simp), fun y hy => ?_⟩
    rcases hroot y hy with h | ⟨a, b, c⟩
    · exact Or.inl h
    · exact Or.inr ⟨a, by rw [b, hrv], c⟩
  · exact hnode x hx hxv

theorem isCyclicLoop_sound (adj : List (List ℕ)) (n : ℕ) (hadj : ∀ x, ∀ y ∈ adj.getD x [], y < n) :
    ∀ (l : List ℕ) (vis : List Bool), (∀ i ∈ l, i < n) → vis.length = n →
      isCyclicLoop adj n l vis = false →
      ∃ vis', VLe vis vis' ∧ (∀ i ∈ l, vis'.getD i false = true) ∧
        ∃ r : ℕ → ℕ, ∀ x, NewIn vis vis' x → ∃ q, Node adj r (NewIn vis vis') x q
  | [], vis, _, _, _ => by
    refine ⟨vis, VLe.refl _, fun i hi => absurd hi (by simp), fun _ => 0, fun x hx => ?_⟩
    have := hx.2; rw [hx.1] at this; exact absurd this (by simp)
  | i :: l, vis, hl, hlen, h => by
    rw [isCyclicLoop] at h
    by_cases hi : vis.getD i false = false
    · rw [if_pos hi] at h
      cases hcall : dfsUtil adj n i none vis with
      | mk b W1 =>
        simp only [hcall] at h
        cases b with
        | true => simp at h
        | false =>
          simp only [Bool.false_eq_true, if_false] at h
          have h1 := dfsUtil_sound adj n hadj n i none 0 vis W1 (hl i List.mem_cons_self) hlen hi
            (fun q hq => absurd hq (by simp)) (hlen ▸ List.count_le_length) hcall
          obtain ⟨vis', hle, hall, r2, hB⟩ := isCyclicLoop_sound adj n hadj l W1
            (fun j hj => hl j (List.mem_cons_of_mem _ hj)) (h1.1.1 ▸ hlen) h
          obtain ⟨r1, hA⟩ := h1.root
          refine ⟨vis', h1.1.trans hle, fun j hj => ?_, nodes_merge h1.1 hle hA hB⟩
          rcases List.mem_cons.mp hj with rfl | hj
          · exact hle.2 _ h1.2.1
          · exact hall j hj
    · rw [if_neg hi] at h
      obtain ⟨vis', hle, hall, r, hB⟩ := isCyclicLoop_sound adj n hadj l vis
        (fun j hj => hl j (List.mem_cons_of_mem _ hj)) hlen h
      refine ⟨vis', hle, fun j hj => ?_, r, hB⟩
      rcases List.mem_cons.mp hj with rfl | hj
      · exact hle.2 _ (by simpa using hi)
      · exact hall j hj

/-- SOUNDNESS: if the Python DFS `_is_cyclic` answers `False`, the multigraph is a forest -/
theorem isCyclic_false_forest (n : ℕ) (E : List Edge) (hE : ∀ e ∈ E, e.1 < n ∧ e.2 < n) :
    isCyclic (adjList n E) n = false → Forest E := by
  intro h
  have hadj : ∀ x, ∀ y ∈ (adjList n E).getD x [], y < n := by
    intro x y hy
    rw [adjList_getD n E hE] at hy
    obtain ⟨e, he, h⟩ := mem_nbrs.mp hy
    rcases h with ⟨_, b⟩ | ⟨_, b⟩
    · rw [← b]; exact (hE e he).2
    · rw [← b]; exact (hE e he).1
  obtain ⟨vis', hle, hall, r, hnode⟩ := isCyclicLoop_sound (adjList n E) n hadj (List.range n)
    (List.replicate n false) (fun i hi => List.mem_range.mp hi) (by simp) h
  apply forest_of_nodes E r
  intro x hx
  have hxn : x < n := by
    obtain ⟨e, he, h⟩ := mem_verts.mp hx
    rcases h with h | h
    · rw [h]; exact (hE e he).1
    · rw [h]; exact (hE e he).2
  have hnew : NewIn (List.replicate n false) vis' x :=
    ⟨hall x (List.mem_range.mpr hxn), by simp [List.getD_eq_getElem?_getD, hxn]⟩
  obtain ⟨q, hq1, hq2⟩ := hnode x hnew
  rw [adjList_getD n E hE] at hq2
  exact ⟨q, fun q' hq => (hq1 q' hq).2, fun y hy => by
    rcases hq2 y hy with a | ⟨_, b, c⟩
    · exact Or.inl a
    · exact Or.inr ⟨b, c⟩⟩

/-! ### (4) completeness: certificates that a multigraph is not a forest -/

theorem nbrs_symm {E : List Edge} {x y : ℕ} (h : y ∈ nbrs E x) : x ∈ nbrs E y := by
  obtain ⟨e, he, h⟩ := mem_nbrs.mp h
  refine mem_nbrs.mpr ⟨e, he, ?_⟩
  rcases h with ⟨a, b⟩ | ⟨a, b⟩
  · exact Or.inr ⟨b, a⟩
  · exact Or.inl ⟨b, a⟩

theorem not_forest_of_loop {E : List Edge} {v : ℕ} (h : v ∈ nbrs E v) : ¬ Forest E := by
  intro hF
  obtain ⟨e, he, h⟩ := mem_nbrs.mp h
  apply hF.no_loop he
  rcases h with ⟨a, b⟩ | ⟨a, b⟩
  · rw [a, b]
  · rw [a, b]

theorem not_forest_of_parallel {E : List Edge} {v i : ℕ} (hne : v ≠ i)
    (h : 2 ≤ (nbrs E v).count i) : ¬ Forest E := by
  intro hF
  rw [count_nbrs hne] at h
  have hsub : (E.filter (btw v i)).Sublist E := List.filter_sublist
  have hmem : ∀ e ∈ E.filter (btw v i), (e.1 = v ∧ e.2 = i) ∨ (e.1 = i ∧ e.2 = v) := by
    intro e he
    have := (List.mem_filter.mp he).2
    unfold btw at this
    exact of_decide_eq_true this
  match hL : E.filter (btw v i), h with
  | [], h => simp at h
  | [_], h => simp at h
  | e :: f :: L, _ =>
    rw [hL] at hsub hmem
    have h2 : [e, f].Subperm E :=
      ((List.Sublist.cons_cons e (List.Sublist.cons_cons f (List.nil_sublist L))).trans hsub).subperm
    apply hF.no_parallel h2
    have he := hmem e List.mem_cons_self
    have hf := hmem f (List.mem_cons_of_mem _ List.mem_cons_self)
    rcases he with ⟨a, b⟩ | ⟨a, b⟩ <;> rcases hf with ⟨c, d⟩ | ⟨c, d⟩
    · exact Or.inl ⟨a.trans c.symm, b.trans d.symm⟩
    · exact Or.inr ⟨a.trans d.symm, b.trans c.symm⟩
    · exact Or.inr ⟨a.trans d.symm, b.trans c.symm⟩
    · exact Or.inl ⟨a.trans c.symm, b.trans d.symm⟩

theorem deg_le_of_sublist (w : ℕ) {S S' : List Edge} (h : S.Sublist S') : deg w S ≤ deg w S' := by
  induction h with
  | slnil => exact le_refl _
  | cons e _ ih => rw [deg_cons]; omega
  | cons_cons e _ ih => rw [deg_cons, deg_cons]; omega

theorem deg_le_of_subperm (w : ℕ) {S S' : List Edge} (h : S.Subperm S') : deg w S ≤ deg w S' := by
  obtain ⟨l, hl, hsub⟩ := h
  rw [← deg_perm hl w]
  exact deg_le_of_sublist w hsub

theorem deg_eq_zero {w : ℕ} : ∀ {S : List Edge}, (∀ e ∈ S, e.1 ≠ w ∧ e.2 ≠ w) → deg w S = 0
  | [], _ => rfl
  | e :: S, h => by
    have he := h e List.mem_cons_self
    rw [deg_cons, deg_eq_zero (fun e' he' => h e' (List.mem_cons_of_mem _ he'))]
    simp [he.1, he.2]

/-- a non-empty set `P` of vertices each of which has two different neighbours in `P` spans a
sub-multigraph without leaves -/
theorem not_forest_of_two_nbrs {E : List Edge} (P : List ℕ) (hne : P ≠ [])
    (h : ∀ x ∈ P, ∃ y ∈ P, ∃ z ∈ P, y ≠ z ∧ y ∈ nbrs E x ∧ z ∈ nbrs E x) : ¬ Forest E := by
  intro hF
  obtain ⟨S, hSdef⟩ : ∃ S, S = E.filter (fun e => decide (e.1 ∈ P ∧ e.2 ∈ P)) := ⟨_, rfl⟩
  have hS : S.Subperm E := by rw [hSdef]; exact List.filter_sublist.subperm
  have hedge : ∀ x ∈ P, ∀ y ∈ P, y ∈ nbrs E x →
      ∃ e ∈ S, (e.1 = x ∧ e.2 = y) ∨ (e.2 = x ∧ e.1 = y) := by
    intro x hx y hy hxy
    obtain ⟨e, he, h⟩ := mem_nbrs.mp hxy
    refine ⟨e, ?_, h⟩
    rw [hSdef, List.mem_filter]
    refine ⟨he, ?_⟩
    rcases h with ⟨a, b⟩ | ⟨a, b⟩ <;> simp [a, b, hx, hy]
  have hSne : S ≠ [] := by
    obtain ⟨x, hx⟩ := List.exists_mem_of_ne_nil P hne
    obtain ⟨y, hy, _, _, _, hxy, _⟩ := h x hx
    obtain ⟨e, he, _⟩ := hedge x hx y hy hxy
    exact List.ne_nil_of_mem he
  obtain ⟨w, hw⟩ := hF S hS hSne
  by_cases hwP : w ∈ P
  · obtain ⟨y, hy, z, hz, hyz, hxy, hxz⟩ := h w hwP
    obtain ⟨e, he, hey⟩ := hedge w hwP y hy hxy
    obtain ⟨f, hf, hfz⟩ := hedge w hwP z hz hxz
    have hef : e ≠ f := by
      rintro rfl
      rcases hey with ⟨a, b⟩ | ⟨a, b⟩ <;> rcases hfz with ⟨c, d⟩ | ⟨c, d⟩
      · exact hyz (b.symm.trans d)
      · exact hyz (b.symm.trans (c.trans (a.symm.trans d)))
      · exact hyz (b.symm.trans (c.trans (a.symm.trans d)))
      · exact hyz (b.symm.trans d)
    have h2 : [e, f].Subperm S := List.subperm_of_subset (by simp [hef]) (by
      intro g hg
      simp only [List.mem_cons, List.not_mem_nil, or_false] at hg
      rcases hg with rfl | rfl <;> assumption)
    have hle := deg_le_of_subperm w h2
    rw [deg_cons, deg_cons, deg_nil] at hle
    have h1 : 1 ≤ (if e.1 = w then 1 else 0) + (if e.2 = w then 1 else 0) := by
      rcases hey with ⟨a, _⟩ | ⟨a, _⟩ <;> simp [a]
    have h1' : 1 ≤ (if f.1 = w then 1 else 0) + (if f.2 = w then 1 else 0) := by
      rcases hfz with ⟨a, _⟩ | ⟨a, _⟩ <;> simp [a]
    omega
  · have h0 : deg w S = 0 := by
      apply deg_eq_zero
      intro e he
      rw [hSdef, List.mem_filter, decide_eq_true_eq] at he
      exact ⟨fun a => hwP (a ▸ he.2.1), fun a => hwP (a ▸ he.2.2)⟩
    omega

/-- a cycle `a, …, last, a` on at least three different vertices -/
theorem not_forest_of_cycle {E : List Edge} (a : ℕ) (l : List ℕ) (hlen : 2 ≤ l.length)
    (hnd : (a :: l).Nodup) (hch : List.IsChain (fun x y => x ∈ nbrs E y) (a :: l))
    (hclose : (a :: l).getLast (by simp) ∈ nbrs E a) : ¬ Forest E := by
  obtain ⟨P, hP⟩ : ∃ P, P = a :: l := ⟨_, rfl⟩
  have hm : 3 ≤ P.length := by rw [hP]; simp; omega
  have hne : P ≠ [] := by rw [hP]; simp
  have hP0 : P[0]'(by omega) = a := by subst hP; rfl
  have hlast : ∀ (j : ℕ) (hj : j < P.length), j + 1 = P.length → P[j] = (a :: l).getLast (by simp) := by
    intro j hj e
    subst hP
    rw [List.getLast_eq_getElem]
    congr 1
    omega
  rw [← hP] at hnd hch
  have hstep : ∀ (k : ℕ) (hk : k + 1 < P.length), P[k] ∈ nbrs E P[k + 1] :=
    fun k hk => hch.getElem k hk
  apply not_forest_of_two_nbrs P hne
  intro x hx
  obtain ⟨k, hk, rfl⟩ := List.getElem_of_mem hx
  have hneq : ∀ (i j : ℕ) (hi : i < P.length) (hj : j < P.length), i ≠ j → P[i] ≠ P[j] :=
    fun i j hi hj hij e => hij (hnd.getElem_inj_iff.mp e)
  rcases Nat.eq_zero_or_pos k with rfl | hkpos
  · -- the first vertex: neighbours `P[1]` and the last one
    refine ⟨P[1], List.getElem_mem _, P[P.length - 1], List.getElem_mem _,
      hneq _ _ _ _ (by omega), nbrs_symm (hstep 0 (by omega)), ?_⟩
    rw [hlast (P.length - 1) (by omega) (by omega), hP0]
    exact hclose
  · obtain ⟨k', rfl⟩ : ∃ k', k = k' + 1 := ⟨k - 1, by omega⟩
    by_cases hend : k' + 1 + 1 < P.length
    · exact ⟨P[k'], List.getElem_mem _, P[k' + 1 + 1], List.getElem_mem _,
        hneq _ _ _ _ (by omega), hstep k' hk, nbrs_symm (hstep (k' + 1) hend)⟩
    · refine ⟨P[k'], List.getElem_mem _, P[0], List.getElem_mem _,
        hneq _ _ _ _ (by omega), hstep k' hk, ?_⟩
      rw [hlast (k' + 1) hk (by omega), hP0]
      exact nbrs_symm hclose

/-- a back edge from `v` to a proper ancestor `i` other than the parent `p0` closes a cycle -/
theorem not_forest_of_back_edge {E : List Edge} (v i p0 : ℕ) (S' : List ℕ)
    (hnd : (v :: p0 :: S').Nodup) (hch : List.IsChain (fun x y => x ∈ nbrs E y) (v :: p0 :: S'))
    (hi : i ∈ S') (hclose : i ∈ nbrs E v) : ¬ Forest E := by
  obtain ⟨l1, l2, rfl⟩ := List.append_of_mem hi
  have heq : v :: p0 :: (l1 ++ i :: l2) = (v :: (p0 :: l1 ++ [i])) ++ l2 := by simp
  rw [heq] at hnd hch
  apply not_forest_of_cycle v (p0 :: l1 ++ [i]) (by simp) hnd.of_append_left hch.left_of_append
  have : (v :: (p0 :: l1 ++ [i])).getLast (by simp) = i := by simp
  rw [this]
  exact hclose

/-- after a call that returns `False`: the neighbours of a newly visited vertex other than the root
are newly visited; those of the root are the parent or newly visited -/
theorem UtilSpec.closed {adj : List (List ℕ)} {v : ℕ} {p : Option ℕ} {dv : ℕ} {W W' : List Bool}
    (h : UtilSpec adj v p dv W W') :
    (∀ x, NewIn W W' x → x ≠ v → ∀ y ∈ adj.getD x [], NewIn W W' y) ∧
    (∀ y ∈ adj.getD v [], p = some y ∨ NewIn W W' y) := by
  obtain ⟨_, _, r, _, hroot, hnode⟩ := h
  refine ⟨fun x hx hxv y hy => ?_, fun y hy => ?_⟩
  · obtain ⟨q, hq1, hq2⟩ := hnode x hx hxv
    rcases hq2 y hy with a | ⟨a, _, _⟩
    · exact (hq1 y a).1
    · exact a
  · rcases hroot y hy with a | ⟨a, _, _⟩
    · exact Or.inl a
    · exact Or.inr a

/-- state of the run when `_is_cyclic_util(v, W, p)` is called; `S` = the ancestors of `v` (the active
calls), parent first; every other visited vertex is finished: all its neighbours are visited -/
structure CallPre (E : List Edge) (n v : ℕ) (p : Option ℕ) (S : List ℕ) (W : List Bool) : Prop where
  lt : v < n
  len : W.length = n
  unv : W.getD v false = false
  par : p = S.head?
  stk : ∀ s ∈ S, W.getD s false = true
  nd : S.Nodup
  ch : List.IsChain (fun x y => x ∈ nbrs E y) (v :: S)
  fin : ∀ x, W.getD x false = true → x ∉ S → ∀ y ∈ nbrs E x, W.getD y false = true

/-- state of the run inside the loop of `v`, the entries `pre` of `adj[v]` being already processed:
a finished vertex adjacent to `v` is one of `pre` -/
structure LoopPre (E : List Edge) (n v : ℕ) (p : Option ℕ) (S pre : List ℕ) (vis : List Bool) :
    Prop where
  len : vis.length = n
  vv : vis.getD v false = true
  par : p = S.head?
  stk : ∀ s ∈ S, vis.getD s false = true
  nd : (v :: S).Nodup
  ch : List.IsChain (fun x y => x ∈ nbrs E y) (v :: S)
  fin : ∀ x, vis.getD x false = true → x ∉ v :: S →
    (∀ y ∈ nbrs E x, vis.getD y false = true) ∧ (v ∈ nbrs E x → x ∈ pre)

theorem LoopPre.extend {E : List Edge} {n v : ℕ} {p : Option ℕ} {S pre : List ℕ} {vis : List Bool}
    (h : LoopPre E n v p S pre vis) (i : ℕ) : LoopPre E n v p S (pre ++ [i]) vis :=
  { h with fin := fun x hx hxs => ⟨(h.fin x hx hxs).1, fun hv =>
      List.mem_append_left _ ((h.fin x hx hxs).2 hv)⟩ }

theorem LoopPre.child {E : List Edge} {n v i : ℕ} {p : Option ℕ} {S pre : List ℕ} {vis : List Bool}
    (h : LoopPre E n v p S pre vis) (hin : i < n) (hi : vis.getD i false = false)
    (hiv : i ∈ nbrs E v) : CallPre E n i (some v) (v :: S) vis where
  lt := hin
  len := h.len
  unv := hi
  par := rfl
  stk := fun s hs => by
    rcases List.mem_cons.mp hs with rfl | hs
    · exact h.vv
    · exact h.stk s hs
  nd := h.nd
  ch := List.isChain_cons_cons.mpr ⟨hiv, h.ch⟩
  fin := fun x hx hxs => (h.fin x hx hxs).1

theorem CallPre.loop {E : List Edge} {n v : ℕ} {p : Option ℕ} {S : List ℕ} {W : List Bool}
    (h : CallPre E n v p S W) : LoopPre E n v p S [] (W.set v true) where
  len := by simp [h.len]
  vv := (getD_set_true _ _ _).mpr (Or.inl ⟨rfl, h.len ▸ h.lt⟩)
  par := h.par
  stk := fun s hs => (getD_set_true _ _ _).mpr (Or.inr (h.stk s hs))
  nd := List.nodup_cons.mpr ⟨fun hv => by
    have := h.stk v hv; rw [h.unv] at this; exact absurd this (by simp), h.nd⟩
  ch := h.ch
  fin := fun x hx hxs => by
    have hxv : x ≠ v := fun e => hxs (e ▸ List.mem_cons_self)
    have hxS : x ∉ S := fun e => hxs (List.mem_cons_of_mem _ e)
    have hxW : W.getD x false = true := by
      rcases (getD_set_true _ _ _).mp hx with ⟨a, _⟩ | a
      · exact absurd a hxv
      · exact a
    refine ⟨fun y hy => (getD_set_true _ _ _).mpr (Or.inr (h.fin x hxW hxS y hy)), fun hv => ?_⟩
    have := h.fin x hxW hxS v hv
    rw [h.unv] at this
    exact absurd this (by simp)

theorem LoopPre.after_child {E : List Edge} {adj : List (List ℕ)} {n v i dv : ℕ} {p : Option ℕ}
    {S pre : List ℕ} {vis W1 : List Bool} (hadjE : ∀ x, adj.getD x [] = nbrs E x)
    (h : LoopPre E n v p S pre vis) (h1 : UtilSpec adj i (some v) dv vis W1) :
    LoopPre E n v p S (pre ++ [i]) W1 where
  len := h1.1.1 ▸ h.len
  vv := h1.1.2 v h.vv
  par := h.par
  stk := fun s hs => h1.1.2 s (h.stk s hs)
  nd := h.nd
  ch := h.ch
  fin := fun x hx hxs => by
    obtain ⟨hc1, hc2⟩ := h1.closed
    by_cases hxv : vis.getD x false = true
    · obtain ⟨a, b⟩ := h.fin x hxv hxs
      exact ⟨fun y hy => h1.1.2 y (a y hy), fun hv => List.mem_append_left _ (b hv)⟩
    · have hnew : NewIn vis W1 x := ⟨hx, by simpa using hxv⟩
      by_cases hxi : x = i
      · subst hxi
        refine ⟨fun y hy => ?_, fun _ => by simp⟩
        rcases hc2 y (by rw [hadjE]; exact hy) with a | a
        · obtain rfl := Option.some.inj a
          exact h1.1.2 _ h.vv
        · exact a.1
      · refine ⟨fun y hy => (hc1 x hnew hxi y (by rw [hadjE]; exact hy)).1, fun hv => ?_⟩
        have := (hc1 x hnew hxi v (by rw [hadjE]; exact hv)).2
        rw [h.vv] at this
        exact absurd this (by simp)

/-- the `return True` of the `elif parent != i` branch is justified -/
theorem LoopPre.back {E : List Edge} {n v i : ℕ} {p : Option ℕ} {S pre rest : List ℕ}
    {vis : List Bool} (h : LoopPre E n v p S pre vis) (hsplit : nbrs E v = pre ++ i :: rest)
    (hi : vis.getD i false = true) (hpi : p ≠ some i) : ¬ Forest E := by
  have hiv : i ∈ nbrs E v := by rw [hsplit]; simp
  by_cases hiv' : i = v
  · subst hiv'; exact not_forest_of_loop hiv
  by_cases hiS : i ∈ S
  · cases S with
    | nil => simp at hiS
    | cons p0 S' =>
      have hp : p = some p0 := h.par
      have hi' : i ∈ S' := by
        rcases List.mem_cons.mp hiS with rfl | h'
        · exact absurd hp hpi
        · exact h'
      exact not_forest_of_back_edge v i p0 S' h.nd h.ch hi' hiv
  · have hmem : i ∈ pre := (h.fin i hi (by
      intro hc
      rcases List.mem_cons.mp hc with a | a
      · exact hiv' a
      · exact hiS a)).2 (nbrs_symm hiv)
    apply not_forest_of_parallel (v := v) (i := i) (fun e => hiv' e.symm)
    rw [hsplit, List.count_append, List.count_cons_self]
    have := List.count_pos_iff.mpr hmem
    omega

theorem dfsLoop_complete (E : List Edge) (adj : List (List ℕ)) (n f v : ℕ) (p : Option ℕ)
    (S : List ℕ) (hadjE : ∀ x, adj.getD x [] = nbrs E x) (hlt : ∀ x, ∀ y ∈ nbrs E x, y < n)
    (IH : ∀ i W W', CallPre E n i (some v) (v :: S) W → W.count false ≤ f →
      dfsUtil adj f i (some v) W = (true, W') → ¬ Forest E) :
    ∀ (rest pre : List ℕ) (vis vis' : List Bool), nbrs E v = pre ++ rest →
      LoopPre E n v p S pre vis → vis.count false ≤ f →
      dfsLoop (fun i vis' => dfsUtil adj f i (some v) vis') p rest vis = (true, vis') → ¬ Forest E
  | [], pre, vis, vis', _, _, _, h => by simp [dfsLoop] at h
  | i :: rest, pre, vis, vis', hsplit, hpre, hc, h => by
    have hiv : i ∈ nbrs E v := by rw [hsplit]; simp
    have hsplit' : nbrs E v = (pre ++ [i]) ++ rest := by rw [hsplit]; simp
    rw [dfsLoop] at h
    by_cases hi : vis.getD i false = false
    · rw [if_pos hi] at h
      have hcp := hpre.child (hlt v i hiv) hi hiv
      cases hcall : dfsUtil adj f i (some v) vis with
      | mk b W1 =>
        simp only [hcall] at h
        cases b with
        | true => exact IH i vis W1 hcp hc hcall
        | false =>
          simp only [Bool.false_eq_true, if_false] at h
          have hadj : ∀ x, ∀ y ∈ adj.getD x [], y < n :=
            fun x y hy => hlt x y (by rw [← hadjE]; exact hy)
          have h1 := dfsUtil_sound adj n hadj f i (some v) 0 vis W1 hcp.lt hcp.len hi
            (fun q hq => by obtain rfl := Option.some.inj hq; exact hpre.vv) hc hcall
          exact dfsLoop_complete E adj n f v p S hadjE hlt IH rest (pre ++ [i]) W1 vis' hsplit'
            (hpre.after_child hadjE h1) (le_trans (count_false_le _ _ h1.1) hc) h
    · rw [if_neg hi] at h
      have hi' : vis.getD i false = true := by simpa using hi
      by_cases hpi : p = some i
      · rw [if_neg (not_not.mpr hpi)] at h
        exact dfsLoop_complete E adj n f v p S hadjE hlt IH rest (pre ++ [i]) vis vis' hsplit'
          (hpre.extend i) hc h
      · exact hpre.back hsplit hi' hpi

theorem dfsUtil_complete (E : List Edge) (adj : List (List ℕ)) (n : ℕ)
    (hadjE : ∀ x, adj.getD x [] = nbrs E x) (hlt : ∀ x, ∀ y ∈ nbrs E x, y < n) :
    ∀ (f v : ℕ) (p : Option ℕ) (S : List ℕ) (W W' : List Bool), CallPre E n v p S W →
      W.count false ≤ f → dfsUtil adj f v p W = (true, W') → ¬ Forest E
  | 0, v, p, S, W, W', _, _, h => by simp [dfsUtil] at h
  | f + 1, v, p, S, W, W', hpre, hc, h => by
    rw [dfsUtil, hadjE] at h
    have hcs := count_false_set W v (hpre.len ▸ hpre.lt) hpre.unv
    exact dfsLoop_complete E adj n f v p S hadjE hlt
      (fun i W0 W0' hp0 hc0 hcall => dfsUtil_complete E adj n hadjE hlt f i (some v) (v :: S) W0 W0'
        hp0 hc0 hcall)
      (nbrs E v) [] (W.set v true) W' rfl hpre.loop (by omega) h

theorem isCyclicLoop_complete (E : List Edge) (adj : List (List ℕ)) (n : ℕ)
    (hadjE : ∀ x, adj.getD x [] = nbrs E x) (hlt : ∀ x, ∀ y ∈ nbrs E x, y < n) :
    ∀ (l : List ℕ) (vis : List Bool), (∀ i ∈ l, i < n) → vis.length = n →
      (∀ x, vis.getD x false = true → ∀ y ∈ nbrs E x, vis.getD y false = true) →
      isCyclicLoop adj n l vis = true → ¬ Forest E
  | [], vis, _, _, _, h => by simp [isCyclicLoop] at h
  | i :: l, vis, hl, hlen, hfin, h => by
    rw [isCyclicLoop] at h
    have hl' : ∀ j ∈ l, j < n := fun j hj => hl j (List.mem_cons_of_mem _ hj)
    by_cases hi : vis.getD i false = false
    · rw [if_pos hi] at h
      have hcp : CallPre E n i none [] vis :=
        { lt := hl i List.mem_cons_self, len := hlen, unv := hi, par := rfl,
          stk := fun s hs => absurd hs (by simp), nd := List.nodup_nil,
          ch := List.isChain_singleton _, fin := fun x hx _ => hfin x hx }
      have hfuel : vis.count false ≤ n := hlen ▸ List.count_le_length
      cases hcall : dfsUtil adj n i none vis with
      | mk b W1 =>
        simp only [hcall] at h
        cases b with
        | true => exact dfsUtil_complete E adj n hadjE hlt n i none [] vis W1 hcp hfuel hcall
        | false =>
          simp only [Bool.false_eq_true, if_false] at h
          have hadj : ∀ x, ∀ y ∈ adj.getD x [], y < n :=
            fun x y hy => hlt x y (by rw [← hadjE]; exact hy)
          have h1 := dfsUtil_sound adj n hadj n i none 0 vis W1 hcp.lt hlen hi
            (fun q hq => absurd hq (by simp)) hfuel hcall
          obtain ⟨hc1, hc2⟩ := h1.closed
          refine isCyclicLoop_complete E adj n hadjE hlt l W1 hl' (h1.1.1 ▸ hlen) ?_ h
          intro x hx y hy
          by_cases hxv : vis.getD x false = true
          · exact h1.1.2 y (hfin x hxv y hy)
          · have hnew : NewIn vis W1 x := ⟨hx, by simpa using hxv⟩
            by_cases hxi : x = i
            · subst hxi
              rcases hc2 y (by rw [hadjE]; exact hy) with a | a
              · exact absurd a (by simp)
              · exact a.1
            · exact (hc1 x hnew hxi y (by rw [hadjE]; exact hy)).1
    · rw [if_neg hi] at h
      exact isCyclicLoop_complete E adj n hadjE hlt l vis hl' hlen hfin h

/-- COMPLETENESS: on a forest the Python DFS `_is_cyclic` answers `False` -/
theorem forest_isCyclic_false (n : ℕ) (E : List Edge) (hE : ∀ e ∈ E, e.1 < n ∧ e.2 < n) :
    Forest E → isCyclic (adjList n E) n = false := by
  intro hF
  cases h : isCyclic (adjList n E) n with
  | false => rfl
  | true =>
    exfalso
    have hlt : ∀ x, ∀ y ∈ nbrs E x, y < n := by
      intro x y hy
      obtain ⟨e, he, h⟩ := mem_nbrs.mp hy
      rcases h with ⟨_, b⟩ | ⟨_, b⟩
      · rw [← b]; exact (hE e he).2
      · rw [← b]; exact (hE e he).1
    refine isCyclicLoop_complete E (adjList n E) n (adjList_getD n E hE) hlt (List.range n)
      (List.replicate n false) (fun i hi => List.mem_range.mp hi) (by simp) ?_ h hF
    intro x hx
    have := lt_of_getD_true hx
    rw [List.length_replicate] at this
    simp [List.getD_eq_getElem?_getD, this] at hx

/-- the DFS of the converter decides exactly the extensional acyclicity criterion of the model -/
theorem isCyclic_eq_not_forest (n : ℕ) (E : List Edge) (hE : ∀ e ∈ E, e.1 < n ∧ e.2 < n) :
    isCyclic (adjList n E) n = !forestB E := by
  cases hB : forestB E with
  | true => exact forest_isCyclic_false n E hE ((forestB_iff E).mp hB)
  | false =>
    cases h : isCyclic (adjList n E) n with
    | true => rfl
    | false =>
      have := (forestB_iff E).mpr (isCyclic_false_forest n E hE h)
      rw [hB] at this
      exact absurd this (by simp)

/-- with the renumbering `node_map` of `_find_max_ralph_pairs` (any `φ` injective on the vertices
that maps them below `n`): the DFS on the renumbered graph decides `forestB` of the original one -/
theorem isCyclic_map_eq_not_forest (n : ℕ) (φ : ℕ → ℕ) (E : List Edge)
    (hφ : ∀ a ∈ verts E, ∀ b ∈ verts E, φ a = φ b → a = b) (hn : ∀ a ∈ verts E, φ a < n) :
    isCyclic (adjList n (E.map fun e => (φ e.1, φ e.2))) n = !forestB E := by
  rw [isCyclic_eq_not_forest n _ (by
    intro e he
    obtain ⟨e0, he0, rfl⟩ := List.mem_map.mp he
    exact ⟨hn _ (mem_verts.mpr ⟨e0, he0, Or.inl rfl⟩), hn _ (mem_verts.mpr ⟨e0, he0, Or.inr rfl⟩)⟩)]
  congr 1
  rw [Bool.eq_iff_iff, forestB_iff, forestB_iff]
  exact forest_map_iff φ E hφ

end PM.C20
