/-
  C10 — helper lemmas of the model extension: Python-dictionary semantics of the stores of `resolve`,
  the port loops (non-herald ports, input ports, port names), the merged post-selection, the end-to-end
  matrix statement.
-/
import PercevalModel.Lemmas.C10More

namespace PM.C10

/-! ### later stores overwrite earlier ones -/

/-- the last value given to left mode `k` in a list of pairs -/
def lastVal (ps : List (Int × Int)) (k : Int) : Option Int :=
  (ps.reverse.find? fun p => p.1 == k).map (·.2)

theorem lastVal_nil (k : Int) : lastVal [] k = none := rfl

theorem lastVal_cons (p : Int × Int) (rest : List (Int × Int)) (k : Int) :
    lastVal (p :: rest) k =
      match lastVal rest k with
      | some x => some x
      | none => if p.1 = k then some p.2 else none := by
  unfold lastVal
  rw [List.reverse_cons, List.find?_append]
  cases h : rest.reverse.find? fun q => q.1 == k with
  | some x => simp
  | none =>
    by_cases e : p.1 = k
    · simp [e]
    · simp [e]

theorem mem_dictSet_iff (d : Dict) (k' v' k v : Int) :
    (k, v) ∈ dictSet d k' v' ↔ (k = k' ∧ v = v') ∨ (k ≠ k' ∧ (k, v) ∈ d) := by
  unfold dictSet
  split_ifs with hc
  · simp only [List.mem_map]
    constructor
    · rintro ⟨p, hp, e⟩
      by_cases hk : p.1 = k'
      · simp only [hk, beq_self_eq_true, if_true, Prod.mk.injEq] at e
        exact Or.inl ⟨e.1.symm, e.2.symm⟩
      · have : (p.1 == k') = false := by simpa using hk
        simp only [this, Bool.false_eq_true, if_false] at e
        subst e
        exact Or.inr ⟨hk, hp⟩
    · rintro (⟨rfl, rfl⟩ | ⟨hne, hm⟩)
      · obtain ⟨p, hp, e⟩ := List.any_eq_true.1 hc
        exact ⟨p, hp, by simp [e]⟩
      · exact ⟨(k, v), hm, by simp [hne]⟩
  · simp only [List.mem_append, List.mem_singleton, Prod.mk.injEq]
    constructor
    · rintro (hm | ⟨rfl, rfl⟩)
      · refine Or.inr ⟨?_, hm⟩
        rintro rfl
        exact hc (List.any_eq_true.2 ⟨(k, v), hm, by simp⟩)
      · exact Or.inl ⟨rfl, rfl⟩
    · rintro (⟨rfl, rfl⟩ | ⟨-, hm⟩)
      · exact Or.inr ⟨rfl, rfl⟩
      · exact Or.inl hm

theorem dictSetAll_mem_iff (ps : List (Int × Int)) (d : Dict) (k v : Int) :
    (k, v) ∈ dictSetAll d ps ↔ lastVal ps k = some v ∨ (lastVal ps k = none ∧ (k, v) ∈ d) := by
  induction ps generalizing d with
  | nil => simp [dictSetAll_nil, lastVal_nil]
  | cons p rest ih =>
    show (k, v) ∈ dictSetAll (dictSet d p.1 p.2) rest ↔ _
    rw [ih, lastVal_cons, mem_dictSet_iff]
    cases hl : lastVal rest k with
    | some x => simp
    | none =>
      simp only [reduceCtorEq, true_and, false_or]
      by_cases e : p.1 = k
      · rw [if_pos e]
        constructor
        · rintro (⟨-, hv⟩ | ⟨hne, -⟩)
          · exact Or.inl (by rw [hv])
          · exact absurd e.symm hne
        · rintro (h | ⟨h, -⟩)
          · exact Or.inl ⟨e.symm, (Option.some.inj h).symm⟩
          · cases h
      · rw [if_neg e]
        constructor
        · rintro (⟨hk, -⟩ | ⟨-, hm⟩)
          · exact absurd hk.symm e
          · exact Or.inr ⟨rfl, hm⟩
        · rintro (h | ⟨-, hm⟩)
          · cases h
          · exact Or.inr ⟨fun h => e h.symm, hm⟩

theorem lastVal_isSome_of_mem (ps : List (Int × Int)) {k v : Int} (h : (k, v) ∈ ps) :
    ∃ v', lastVal ps k = some v' := by
  induction ps with
  | nil => simp at h
  | cons p rest ih =>
    rw [lastVal_cons]
    cases hl : lastVal rest k with
    | some x => exact ⟨x, rfl⟩
    | none =>
      rcases List.mem_cons.1 h with e | h'
      · subst e; exact ⟨v, by simp⟩
      · obtain ⟨v', hv'⟩ := ih h'
        rw [hl] at hv'; cases hv'

/-! ### `generate_permutation` succeeds only on values that are modes of interest -/

theorem vals_moi_of_genPerm_ok (fixed : RFlags) (l r : Side) (raw : RawMap) (d : Dict) (mp : NMap)
    (h : resolve fixed l r raw = .ok d) (hm : toNMap d = some mp) (hwf : RightWF r)
    (σ : Option (List Nat)) (hσ : genPerm (permInput l r mp) = .ok σ) :
    ∀ v ∈ mp.vals, v ∈ orderedRModes r := by
  obtain ⟨-, hlen, hk, -, hlt, -⟩ := resolved_nmap_facts fixed l r raw d mp h hm
  cases hr : r.comp with
  | true =>
    simp only [permInput, hr, if_true] at hσ
    obtain ⟨-, hb⟩ := legal_of_genPerm_ok mp hk σ hσ
    intro v hv
    rw [mem_orderedRModes_comp hr, ← hlen]
    exact hb v hv
  | false =>
    obtain ⟨-, -, hmm⟩ := hwf hr
    simp only [permInput, hr, Bool.false_eq_true, if_false] at hσ
    have hkH := addHeraldedModes_keys_nodup l.cs mp (r.heralds.map (·.1)) hk hlt
    obtain ⟨hnd, hb⟩ := legal_of_genPerm_ok _ hkH σ hσ
    rw [addHeraldedModes_vals] at hnd hb
    have hL : (addHeraldedModes l.cs mp (r.heralds.map (·.1))).length = r.cs := by
      simp [addHeraldedModes, hlen, hmm]
    intro v hv
    rw [mem_orderedRModes_proc hr]
    refine ⟨by rw [← hL]; exact hb v (List.mem_append_left _ hv), ?_⟩
    intro hv'
    exact (List.nodup_append.1 hnd).2.2 v hv v hv' rfl

/-! ### ports: covering, freedom, disjointness -/

/-- port `p` sits on mode `m` -/
def covers (p : Port) (m : Nat) : Prop := p.start ≤ m ∧ m < p.start + p.size

/-- no two ports of the list sit on a common mode -/
def PortsDisjoint (ports : List Port) : Prop :=
  ports.Pairwise fun p q => ∀ m, ¬ (covers p m ∧ covers q m)

theorem portAt_eq_none_iff (ports : List Port) (m : Nat) :
    portAt ports m = none ↔ ∀ p ∈ ports, ¬ covers p m := by
  unfold portAt covers
  rw [List.find?_eq_none]
  constructor
  · intro h p hp hc; exact h p hp (by simpa using hc)
  · intro h p hp hc; exact h p hp (by simpa using hc)

theorem portAt_some {ports : List Port} {m : Nat} {p : Port} (h : portAt ports m = some p) :
    p ∈ ports ∧ covers p m := by
  unfold portAt at h
  have h1 := List.find?_some h
  exact ⟨List.mem_of_find?_eq_some h, by simpa [covers] using h1⟩

theorem modesFree_iff (ports : List Port) (s n : Nat) :
    modesFree ports s n = true ↔ ∀ m, s ≤ m → m < s + n → ∀ p ∈ ports, ¬ covers p m := by
  unfold modesFree
  rw [List.all_eq_true]
  constructor
  · intro h m h1 h2
    have := h m (by rw [List.mem_range'_1]; omega)
    rw [Option.isNone_iff_eq_none] at this
    exact (portAt_eq_none_iff ports m).1 this
  · intro h m hm
    rw [List.mem_range'_1] at hm
    rw [Option.isNone_iff_eq_none]
    exact (portAt_eq_none_iff ports m).2 (h m hm.1 hm.2)

theorem modesFree_append_false (a b : List Port) (s n : Nat) (h : modesFree a s n = false) :
    modesFree (a ++ b) s n = false := by
  by_contra hc
  have hc' : modesFree (a ++ b) s n = true := by simpa using hc
  have : modesFree a s n = true := by
    rw [modesFree_iff] at hc' ⊢
    intro m h1 h2 p hp
    exact hc' m h1 h2 p (List.mem_append_left _ hp)
  rw [this] at h; cases h

theorem portsDisjoint_append_single (ports : List Port) (q : Port)
    (hd : PortsDisjoint ports) (hf : modesFree ports q.start q.size = true) :
    PortsDisjoint (ports ++ [q]) := by
  unfold PortsDisjoint
  rw [List.pairwise_append]
  refine ⟨hd, List.pairwise_singleton _ _, ?_⟩
  intro p hp q' hq' m ⟨h1, h2⟩
  rw [List.mem_singleton] at hq'
  subst hq'
  exact (modesFree_iff ports q'.start q'.size).1 hf m h2.1 h2.2 p hp h1

/-! ### the port loops: which ports are re-attached, where, and what is dropped -/

theorem keyOfVal_mem {fl : NMap} {v k : Nat} (h : keyOfVal fl v = some k) : (k, v) ∈ fl := by
  unfold keyOfVal at h
  cases hf : fl.find? (fun p => p.2 == v) with
  | none => rw [hf] at h; cases h
  | some p =>
    rw [hf] at h
    simp only [Option.map_some, Option.some.injEq] at h
    have h1 := List.find?_some hf
    have h2 := List.mem_of_find?_eq_some hf
    have : p = (k, v) := by
      obtain ⟨a, b⟩ := p
      simp only at h h1
      simp only [beq_iff_eq] at h1
      rw [h, h1]
    rw [← this]; exact h2

theorem consecutive_iff (fl : NMap) (p : Port) (k : Nat) :
    consecutive fl p k = true ↔ ∀ j, j < p.size → keyOfVal fl (p.start + j) = some (k + j) := by
  unfold consecutive
  rw [List.all_eq_true]
  constructor
  · intro h j hj
    have := h j (List.mem_range.2 hj)
    simpa using this
  · intro h j hj
    simp [h j (List.mem_range.1 hj)]

/-- where a port of the added processor comes from and where it lands (output-port loop) -/
def OutOrigin (fp : Bool) (fl : NMap) (ports : List Port) (q : Port) : Prop :=
  ∃ p ∈ ports, ∃ k, keyOfVal fl p.start = some k ∧
    ((p.herald = true ∧ q = { p with start := k, size := 1, name := heraldName p }) ∨
     (p.herald = false ∧ q = { p with start := k } ∧ (fp = true → consecutive fl p k = true)))

theorem OutOrigin.mono {fp : Bool} {fl : NMap} {ports : List Port} {q : Port} (a : Port)
    (h : OutOrigin fp fl ports q) : OutOrigin fp fl (a :: ports) q := by
  obtain ⟨p, hp, k, hk, h⟩ := h
  exact ⟨p, List.mem_cons_of_mem _ hp, k, hk, h⟩

/-- the output-port loop: the old lists are kept, ports are only appended; the heralds go to both lists -/
theorem transferOut_shape (fp : Bool) (fl : NMap) (ports : List Port) (inp outp inp' outp' : List Port)
    (h : transferOut fp fl (inp, outp) ports = .ok (inp', outp')) :
    ∃ new, outp' = outp ++ new ∧ inp' = inp ++ new.filter (·.herald) ∧
      ∀ q ∈ new, OutOrigin fp fl ports q := by
  induction ports generalizing inp outp with
  | nil =>
    simp only [transferOut] at h
    cases h
    exact ⟨[], by simp, by simp, by simp⟩
  | cons p rest ih =>
    simp only [transferOut] at h
    split at h
    · cases h
    · rename_i pm hpm
      by_cases hh : p.herald = true
      · rw [if_pos hh] at h
        split_ifs at h
        obtain ⟨new, e1, e2, ho⟩ := ih _ _ h
        refine ⟨{ p with start := pm, size := 1, name := heraldName p } :: new, by rw [e1]; simp,
          by rw [e2]; simp [hh], ?_⟩
        intro q hq
        rcases List.mem_cons.1 hq with rfl | hq
        · exact ⟨p, by simp, pm, hpm, Or.inl ⟨hh, rfl⟩⟩
        · exact (ho q hq).mono p
      · rw [if_neg hh] at h
        have hf : p.herald = false := by simpa using hh
        split_ifs at h with hc
        · obtain ⟨new, e1, e2, ho⟩ := ih _ _ h
          refine ⟨{ p with start := pm } :: new, by rw [e1]; simp, by rw [e2]; simp [hf], ?_⟩
          intro q hq
          rcases List.mem_cons.1 hq with rfl | hq
          · refine ⟨p, by simp, pm, hpm, Or.inr ⟨hf, rfl, fun hfp => ?_⟩⟩
            simp only [Bool.and_eq_true, Bool.or_eq_true, Bool.not_eq_true'] at hc
            rcases hc.1 with h1 | h1
            · rw [hfp] at h1; cases h1
            · exact h1
          · exact (ho q hq).mono p
        · obtain ⟨new, e1, e2, ho⟩ := ih _ _ h
          exact ⟨new, e1, e2, fun q hq => (ho q hq).mono p⟩

/-- the output-port loop never creates an overlap -/
theorem transferOut_disjoint (fp : Bool) (fl : NMap) (ports : List Port) (inp outp inp' outp' : List Port)
    (h : transferOut fp fl (inp, outp) ports = .ok (inp', outp'))
    (hi : PortsDisjoint inp) (ho : PortsDisjoint outp) : PortsDisjoint inp' ∧ PortsDisjoint outp' := by
  induction ports generalizing inp outp with
  | nil =>
    simp only [transferOut] at h
    cases h
    exact ⟨hi, ho⟩
  | cons p rest ih =>
    simp only [transferOut] at h
    split at h
    · cases h
    · rename_i pm hpm
      by_cases hh : p.herald = true
      · rw [if_pos hh] at h
        split_ifs at h with hc
        simp only [Bool.and_eq_true] at hc
        exact ih _ _ h (portsDisjoint_append_single inp _ hi hc.1)
          (portsDisjoint_append_single outp _ ho hc.2)
      · rw [if_neg hh] at h
        split_ifs at h with hc
        · simp only [Bool.and_eq_true] at hc
          exact ih _ _ h hi (portsDisjoint_append_single outp { p with start := pm } ho hc.2)
        · exact ih _ _ h hi ho

theorem transferOut_outp_prefix (fp : Bool) (fl : NMap) (ports : List Port) (st st' : List Port × List Port)
    (h : transferOut fp fl st ports = .ok st') : ∃ t, st'.2 = st.2 ++ t := by
  obtain ⟨inp, outp⟩ := st
  obtain ⟨inp', outp'⟩ := st'
  obtain ⟨new, e, -, -⟩ := transferOut_shape fp fl ports inp outp inp' outp' h
  exact ⟨new, e⟩

/-- a non-herald output port is dropped only for one of the two documented reasons: the mapping does not
send its modes onto consecutive modes in order, or one of those modes is already under a port -/
theorem transferOut_complete (fp : Bool) (fl : NMap) (ports : List Port) (inp outp inp' outp' : List Port)
    (h : transferOut fp fl (inp, outp) ports = .ok (inp', outp')) :
    ∀ p ∈ ports, p.herald = false → ∀ k, keyOfVal fl p.start = some k →
      (fp = true → consecutive fl p k = true) →
      { p with start := k } ∈ outp' ∨ modesFree outp' k p.size = false := by
  induction ports generalizing inp outp with
  | nil => intro p hp; simp at hp
  | cons a rest ih =>
    simp only [transferOut] at h
    split at h
    · cases h
    · rename_i pm hpm
      intro p hp hph k hk hcons
      have tail : ∀ (i o : List Port), transferOut fp fl (i, o) rest = .ok (inp', outp') → p ∈ rest →
          { p with start := k } ∈ outp' ∨ modesFree outp' k p.size = false :=
        fun i o hio hpr => ih i o hio p hpr hph k hk hcons
      by_cases hh : a.herald = true
      · rw [if_pos hh] at h
        split_ifs at h
        rcases List.mem_cons.1 hp with rfl | hp
        · rw [hh] at hph; cases hph
        · exact tail _ _ h hp
      · rw [if_neg hh] at h
        split_ifs at h with hc
        · rcases List.mem_cons.1 hp with rfl | hp
          · left
            rw [hpm] at hk; cases hk
            obtain ⟨t, ht⟩ := transferOut_outp_prefix fp fl rest _ _ h
            simp only at ht
            rw [ht]
            simp
          · exact tail _ _ h hp
        · rcases List.mem_cons.1 hp with rfl | hp
          · right
            rw [hpm] at hk; cases hk
            have hfree : modesFree outp pm p.size = false := by
              simp only [Bool.and_eq_true, Bool.or_eq_true, Bool.not_eq_true', not_and,
                Bool.not_eq_true] at hc
              apply hc
              cases hfp : fp with
              | false => exact Or.inl rfl
              | true => exact Or.inr (hcons hfp)
            obtain ⟨t, ht⟩ := transferOut_outp_prefix fp fl rest _ _ h
            simp only at ht
            rw [ht]
            exact modesFree_append_false _ _ _ _ hfree
          · exact tail _ _ h hp

/-- where an input port of the added processor comes from and where it lands -/
def InOrigin (fp : Bool) (fl : NMap) (ports : List Port) (q : Port) : Prop :=
  ∃ p ∈ ports, ∃ k, keyOfVal fl p.start = some k ∧ q = { p with start := k } ∧
    (fp = true → consecutive fl p k = true)

theorem InOrigin.mono {fp : Bool} {fl : NMap} {ports : List Port} {q : Port} (a : Port)
    (h : InOrigin fp fl ports q) : InOrigin fp fl (a :: ports) q := by
  obtain ⟨p, hp, k, hk, h⟩ := h
  exact ⟨p, List.mem_cons_of_mem _ hp, k, hk, h⟩

/-- the input-port loop: every port of the added processor (heralds included: the herald the output loop
already attached makes `are_modes_free` fail, so it is not attached twice) is appended or dropped -/
theorem transferIn_shape (fp : Bool) (fl : NMap) (ports : List Port) (inp inp' : List Port)
    (h : transferIn fp fl inp ports = .ok inp') :
    ∃ new, inp' = inp ++ new ∧ ∀ q ∈ new, InOrigin fp fl ports q := by
  induction ports generalizing inp with
  | nil =>
    simp only [transferIn] at h
    cases h
    exact ⟨[], by simp, by simp⟩
  | cons p rest ih =>
    simp only [transferIn] at h
    split at h
    · cases h
    · rename_i pm hpm
      split_ifs at h with hc
      · obtain ⟨new, e, ho⟩ := ih _ h
        refine ⟨{ p with start := pm } :: new, by rw [e]; simp, ?_⟩
        intro q hq
        rcases List.mem_cons.1 hq with rfl | hq
        · refine ⟨p, by simp, pm, hpm, rfl, fun hfp => ?_⟩
          simp only [Bool.and_eq_true, Bool.or_eq_true, Bool.not_eq_true'] at hc
          rcases hc.1 with h1 | h1
          · rw [hfp] at h1; cases h1
          · exact h1
        · exact (ho q hq).mono p
      · obtain ⟨new, e, ho⟩ := ih _ h
        exact ⟨new, e, fun q hq => (ho q hq).mono p⟩

theorem transferIn_disjoint (fp : Bool) (fl : NMap) (ports : List Port) (inp inp' : List Port)
    (h : transferIn fp fl inp ports = .ok inp') (hi : PortsDisjoint inp) : PortsDisjoint inp' := by
  induction ports generalizing inp with
  | nil => simp only [transferIn] at h; cases h; exact hi
  | cons p rest ih =>
    simp only [transferIn] at h
    split at h
    · cases h
    · rename_i pm hpm
      split_ifs at h with hc
      · simp only [Bool.and_eq_true] at hc
        exact ih _ h (portsDisjoint_append_single inp { p with start := pm } hi hc.2)
      · exact ih _ h hi

theorem transferIn_complete (fp : Bool) (fl : NMap) (ports : List Port) (inp inp' : List Port)
    (h : transferIn fp fl inp ports = .ok inp') :
    ∀ p ∈ ports, ∀ k, keyOfVal fl p.start = some k → (fp = true → consecutive fl p k = true) →
      { p with start := k } ∈ inp' ∨ modesFree inp' k p.size = false := by
  induction ports generalizing inp with
  | nil => intro p hp; simp at hp
  | cons a rest ih =>
    simp only [transferIn] at h
    split at h
    · cases h
    · rename_i pm hpm
      intro p hp k hk hcons
      split_ifs at h with hc
      · rcases List.mem_cons.1 hp with rfl | hp
        · left
          rw [hpm] at hk; cases hk
          obtain ⟨t, ht, -⟩ := transferIn_shape fp fl rest _ _ h
          rw [ht]; simp
        · exact ih _ h p hp k hk hcons
      · rcases List.mem_cons.1 hp with rfl | hp
        · right
          rw [hpm] at hk; cases hk
          have hfree : modesFree inp pm p.size = false := by
            simp only [Bool.and_eq_true, Bool.or_eq_true, Bool.not_eq_true', not_and,
              Bool.not_eq_true] at hc
            apply hc
            cases hfp : fp with
            | false => exact Or.inl rfl
            | true => exact Or.inr (hcons hfp)
          obtain ⟨t, ht, -⟩ := transferIn_shape fp fl rest _ _ h
          rw [ht]
          exact modesFree_append_false _ _ _ _ hfree
        · exact ih _ h p hp k hk hcons

theorem removePorts_disjoint (keep : Bool) (outp : List Port) (keys : List Nat)
    (h : PortsDisjoint outp) : PortsDisjoint (removePorts keep outp keys) := by
  unfold removePorts
  split_ifs
  · exact h
  · exact List.Pairwise.filter _ h

/-! ### `in_port_names` / `out_port_names` -/

/-- the name mode `i` ends up with: every port sitting on `i` writes its name, in list order, over `d` -/
def nameAt (ports : List Port) (i : Nat) (d : String) : String :=
  ports.foldl (fun n p => if p.start ≤ i && i < p.start + p.size then p.name else n) d

theorem nameAt_cons (p : Port) (rest : List Port) (i : Nat) (d : String) :
    nameAt (p :: rest) i d =
      nameAt rest i (if p.start ≤ i && i < p.start + p.size then p.name else d) := rfl

theorem nameAt_of_uncovered (ports : List Port) (i : Nat) (d : String)
    (h : ∀ p ∈ ports, ¬ covers p i) : nameAt ports i d = d := by
  induction ports generalizing d with
  | nil => rfl
  | cons p rest ih =>
    rw [nameAt_cons]
    have hp : ¬ covers p i := h p (by simp)
    have : (decide (p.start ≤ i) && decide (i < p.start + p.size)) = false := by
      simpa [covers] using hp
    rw [this]
    exact ih d fun q hq => h q (by simp [hq])

/-- on disjoint ports the name of a mode is the name of the one port sitting on it (`""` when there is none) -/
theorem nameAt_of_disjoint (ports : List Port) (hd : PortsDisjoint ports) (i : Nat) (d : String) :
    nameAt ports i d = ((portAt ports i).map (·.name)).getD d := by
  induction ports generalizing d with
  | nil => rfl
  | cons p rest ih =>
    rw [nameAt_cons]
    have hd' := List.pairwise_cons.1 hd
    unfold portAt
    rw [List.find?_cons]
    by_cases hc : (decide (p.start ≤ i) && decide (i < p.start + p.size)) = true
    · rw [hc]
      simp only [if_true, Option.map_some, Option.getD_some]
      apply nameAt_of_uncovered
      intro q hq hcq
      exact hd'.1 q hq i ⟨by simpa [covers] using hc, hcq⟩
    · have hc' : (decide (p.start ≤ i) && decide (i < p.start + p.size)) = false := by simpa using hc
      rw [hc']
      simp only [Bool.false_eq_true, if_false]
      exact ih hd'.2 d

theorem foldl_names_none (cs : Nat) (ports : List Port) :
    ports.foldl (fun acc p => acc.bind fun names =>
      if p.start + p.size ≤ cs then
        some ((List.range cs).zipWith
          (fun i n => if p.start ≤ i && i < p.start + p.size then p.name else n) names)
      else none) (none : Option (List String)) = none := by
  induction ports with
  | nil => rfl
  | cons p rest ih => simpa using ih

theorem foldl_names (cs : Nat) (ports : List Port) (names0 : List String) (hl : names0.length = cs) :
    ports.foldl (fun acc p => acc.bind fun names =>
      if p.start + p.size ≤ cs then
        some ((List.range cs).zipWith
          (fun i n => if p.start ≤ i && i < p.start + p.size then p.name else n) names)
      else none) (some names0) =
    if ∀ p ∈ ports, p.start + p.size ≤ cs then
      some ((List.range cs).map fun i => nameAt ports i (names0.getD i ""))
    else none := by
  induction ports generalizing names0 with
  | nil =>
    simp only [List.foldl_nil, List.not_mem_nil, false_implies, implies_true, if_true, nameAt]
    congr 1
    apply List.ext_getElem
    · simp [hl]
    · intro i h1 h2
      simp [List.getD_eq_getElem?_getD, List.getElem?_eq_getElem h1]
  | cons p rest ih =>
    rw [List.foldl_cons]
    by_cases hfit : p.start + p.size ≤ cs
    · simp only [Option.bind_some, hfit, if_true]
      rw [ih _ (by simp [hl])]
      have e : (∀ q ∈ p :: rest, q.start + q.size ≤ cs) ↔ ∀ q ∈ rest, q.start + q.size ≤ cs := by
        simp [hfit]
      simp only [e]
      split_ifs
      · congr 1
        apply List.map_congr_left
        intro i hi
        rw [List.mem_range] at hi
        rw [nameAt_cons]
        congr 1
        rw [List.getD_eq_getElem?_getD, List.getElem?_zipWith]
        simp [List.getElem?_range hi, List.getElem?_eq_getElem (by omega : i < names0.length),
          List.getD_eq_getElem?_getD]
      · rfl
    · simp only [Option.bind_some, hfit, if_false]
      rw [foldl_names_none]
      rw [if_neg]
      intro h
      exact hfit (h p (by simp))

/-- **port names**: `in_port_names` / `out_port_names` raise (`IndexError`) iff a port reaches past the last
mode; otherwise mode `i` carries the name of the last port (in dictionary order) that sits on it -/
theorem portNames_eq (cs : Nat) (ports : List Port) :
    portNames cs ports =
      if ∀ p ∈ ports, p.start + p.size ≤ cs then
        some ((List.range cs).map fun i => nameAt ports i "")
      else none := by
  unfold portNames
  rw [foldl_names cs ports (List.replicate cs "") (by simp)]
  split_ifs
  · congr 1
    apply List.map_congr_left
    intro i hi
    rw [List.mem_range] at hi
    simp [List.getD_eq_getElem?_getD, hi]
  · rfl

/-! ### every port of the result lies inside the enlarged circuit -/

theorem filled_keys_lt (mp : NMap) (hk : mp.keys.Nodup) (N : Nat) (hN : 0 < N)
    (h : ∀ k ∈ mp.keys, k < N) : ∀ k ∈ (filled mp).keys, k < N := by
  intro k hk'
  have hmem := (filled_keys_perm mp hk).subset hk'
  rw [List.mem_range'_1] at hmem
  have := maxN_lt hN h
  omega

theorem mem_keys_of_mem {fl : NMap} {k v : Nat} (h : (k, v) ∈ fl) : k ∈ fl.keys :=
  List.mem_map.2 ⟨(k, v), h, rfl⟩

theorem result_ports_inside (f1 : RFlags) (f2 : Bool) (l r : Side) (raw : RawMap) (keep : Bool)
    (res : Result)
    (hli : ∀ p ∈ l.inp, p.start + p.size ≤ l.cs) (hlo : ∀ p ∈ l.outp, p.start + p.size ≤ l.cs)
    (h : compose f1 f2 true l r raw keep = .ok res) :
    (∀ p ∈ res.inp, p.start + p.size ≤ res.cs) ∧ (∀ p ∈ res.outp, p.start + p.size ≤ res.cs) := by
  cases hr : r.comp with
  | true =>
    obtain ⟨d, mp, perm, -, -, -, -, -, -, -, -, hcs, -, -, -, hinp, houtp, -⟩ :=
      compose_comp_inv f1 f2 true l r raw keep res hr h
    rw [hinp, houtp, hcs]
    exact ⟨hli, fun p hp => hlo p (removePorts_subset _ _ _ p hp)⟩
  | false =>
    obtain ⟨d, mp, perm, inp1, outp1, inp2, hd, hmp, -, hout, hin, -, -, -, -, -, hcs, -, -, -, hi', ho'⟩ :=
      compose_proc_inv f1 f2 true l r raw keep res hr h
    obtain ⟨hne, -, hk, -, hlt, -⟩ := resolved_nmap_facts f1 l r raw d mp hd hmp
    have hkH := addHeraldedModes_keys_nodup l.cs mp (r.heralds.map (·.1)) hk hlt
    have hpos : 0 < res.cs := by
      cases mp with
      | nil => exact absurd rfl hne
      | cons a t => have := hlt a.1 (by simp [NMap.keys]); omega
    have hkeys : ∀ k ∈ (addHeraldedModes l.cs mp (r.heralds.map (·.1))).keys, k < res.cs := by
      intro k hk'
      rw [addHeraldedModes_keys, List.mem_append] at hk'
      rcases hk' with hk' | hk'
      · have := hlt k hk'; omega
      · obtain ⟨i, hi, rfl⟩ := List.mem_map.1 hk'
        rw [List.mem_range, List.length_map] at hi
        omega
    have hfl := filled_keys_lt _ hkH res.cs hpos hkeys
    obtain ⟨newOut, e1, e2, o1⟩ := transferOut_shape true _ _ _ _ _ _ hout
    obtain ⟨newIn, e3, o2⟩ := transferIn_shape true _ _ _ _ hin
    have hold : l.cs ≤ res.cs := by omega
    have hnewOut : ∀ q ∈ newOut, q.start + q.size ≤ res.cs := by
      intro q hq
      obtain ⟨p, -, k, hk', hcase⟩ := o1 q hq
      have hk0 := hfl k (mem_keys_of_mem (keyOfVal_mem hk'))
      rcases hcase with ⟨-, rfl⟩ | ⟨-, rfl, hc⟩
      · show k + 1 ≤ res.cs; omega
      · show k + p.size ≤ res.cs
        by_cases hs : p.size = 0
        · omega
        · have := hfl _ (mem_keys_of_mem (keyOfVal_mem
            ((consecutive_iff _ p k).1 (hc rfl) (p.size - 1) (by omega))))
          omega
    have hnewIn : ∀ q ∈ newIn, q.start + q.size ≤ res.cs := by
      intro q hq
      obtain ⟨p, -, k, hk', rfl, hc⟩ := o2 q hq
      have hk0 := hfl k (mem_keys_of_mem (keyOfVal_mem hk'))
      show k + p.size ≤ res.cs
      by_cases hs : p.size = 0
      · omega
      · have := hfl _ (mem_keys_of_mem (keyOfVal_mem
          ((consecutive_iff _ p k).1 (hc rfl) (p.size - 1) (by omega))))
        omega
    rw [hi', ho', e3, e2, e1]
    constructor
    · intro p hp
      rcases List.mem_append.1 hp with hp | hp
      · rcases List.mem_append.1 hp with hp | hp
        · have := hli p hp; omega
        · exact hnewOut p (List.mem_filter.1 hp).1
      · exact hnewIn p hp
    · intro p hp
      rcases List.mem_append.1 hp with hp | hp
      · have := hlo p (removePorts_subset _ _ _ p hp); omega
      · exact hnewOut p hp

/-! ### the merged post-selection -/

/-- all the modes a post-selection mentions -/
def PS.modes (ps : PS) : List Nat := ps.conds.flatten

/-- evaluation of an optional post-selection (`None` = no condition) -/
def evalO (o : Option PS) (s : Nat → Nat) : Bool :=
  match o with
  | none => true
  | some p => p.eval s

/-- the left mode a right-hand mode `v` is read back from: `first + inv[v]` (or `first + v` without PERM) -/
def pullMode (inv : Option (List Nat)) (first v : Nat) : Nat :=
  match inv with
  | none => v + first
  | some τ => applyPermFn τ 0 v + first

theorem independent_iff (a b : PS) :
    a.independent b = true ↔ ∀ m ∈ a.modes, m ∉ b.modes := by
  simp only [PS.independent, PS.modes, List.all_eq_true, List.mem_flatten, Bool.not_eq_true',
    List.contains_eq_mem, decide_eq_false_iff_not]
  constructor
  · rintro h m ⟨c, hc, hm⟩ ⟨c', hc', hm'⟩
    exact h c hc c' hc' m hm hm'
  · intro h c hc c' hc' m hm hm'
    exact h m ⟨c, hc, hm⟩ ⟨c', hc', hm'⟩

theorem canCompose_iff (ps : PS) (keys : List Nat) :
    ps.canCompose keys = true ↔
      ∀ c ∈ ps.conds, (∀ k ∈ keys, k ∈ c) ∨ (∀ k ∈ keys, k ∉ c) := by
  simp [PS.canCompose, List.all_eq_true]

theorem conds_mapModes (f : Nat → Nat) (ps : PS) : (ps.mapModes f).conds = ps.conds.map (·.map f) := by
  induction ps with
  | cond ms op v => rfl
  | and a b iha ihb => simp [PS.mapModes, PS.conds, iha, ihb]
  | or a b iha ihb => simp [PS.mapModes, PS.conds, iha, ihb]
  | xor a b iha ihb => simp [PS.mapModes, PS.conds, iha, ihb]
  | not a iha => simp [PS.mapModes, PS.conds, iha]

theorem modes_mapModes (f : Nat → Nat) (ps : PS) : (ps.mapModes f).modes = ps.modes.map f := by
  simp [PS.modes, conds_mapModes, List.map_flatten]

/-- the carried-over condition mentions exactly the read-back modes of the original one -/
theorem renamePS_modes (inv : Option (List Nat)) (first : Nat) (q : PS) :
    (renamePS true inv first q).modes = q.modes.map (pullMode inv first) := by
  cases inv with
  | none => simp [renamePS, modes_mapModes, pullMode]
  | some τ =>
    simp only [renamePS, if_true, modes_mapModes, List.map_map, pullMode]
    rfl

/-- inversion of `compose` for the post-selection of an added processor -/
theorem compose_proc_ps_inv (f1 : RFlags) (f2 f3 : Bool) (l r : Side) (raw : RawMap) (keep : Bool)
    (res : Result) (hr : r.comp = false) (h : compose f1 f2 f3 l r raw keep = .ok res) :
    ∃ d, resolve f1 l r raw = .ok d ∧ validatePS l (d.keys.map Int.toNat) = .ok () ∧
      (match r.ps with
        | none => Except.ok l.ps
        | some q =>
          match l.ps with
          | none => Except.ok (some (renamePS f2 res.inv res.first q))
          | some p =>
            if p.independent (renamePS f2 res.inv res.first q) = true
            then Except.ok (some (PS.and p (renamePS f2 res.inv res.first q)))
            else Except.error Err.runtime) = Except.ok res.ps := by
  unfold compose at h
  simp only [bind, Except.bind, pure, Except.pure, throw, throwThe, MonadExceptOf.throw, hr,
    Bool.false_eq_true, if_false] at h
  split at h
  · cases h
  · rename_i d hd
    split at h
    · cases h
    · rename_i u hval
      split at h
      · cases h
      · rename_i mp hmp
        split at h
        · cases h
        · rename_i perm hperm
          split at h
          · cases h
          · rename_i pr hpr
            obtain ⟨inp1, outp1⟩ := pr
            simp only at h
            split at h
            · cases h
            · rename_i inp2 hin
              split at h
              · cases h
              · rename_i ps hps
                cases h
                cases u
                exact ⟨d, hd, hval, hps⟩

/-! ### the appended block, entry by entry -/

section matrices
open Matrix
variable {R : Type} [CommRing R] [StarRing R]

theorem nodup_getElem?_eq {σ : List Nat} (hn : σ.Nodup) {a b w : Nat}
    (ha : σ[a]? = some w) (hb : σ[b]? = some w) : a = b := by
  have ha' : a < σ.length := by
    by_contra hc; rw [List.getElem?_eq_none (by omega)] at ha; cases ha
  have hb' : b < σ.length := by
    by_contra hc; rw [List.getElem?_eq_none (by omega)] at hb; cases hb
  rw [List.getElem?_eq_getElem ha'] at ha
  rw [List.getElem?_eq_getElem hb'] at hb
  exact (List.Nodup.getElem_inj_iff hn).1 (by rw [Option.some.inj ha, Option.some.inj hb])

theorem permFn_getElem {L : ℕ} {σ : List ℕ} (hσ : IsPermList L σ) (a : Fin L) :
    σ[a.val]? = some (permFn L σ a).val := by
  have ha : a.val < σ.length := by rw [hσ.1]; exact a.isLt
  have hlt : σ.getD a.val L < L := by
    rw [List.getD_eq_getElem?_getD, List.getElem?_eq_getElem ha]
    exact hσ.2.2 _ (List.getElem_mem ha)
  unfold permFn
  rw [dif_pos hlt]
  simp only [List.getD_eq_getElem?_getD, List.getElem?_eq_getElem ha, Option.getD_some]

theorem permFn_eq_of_getElem {L : ℕ} {σ : List ℕ} (hσ : IsPermList L σ) (a : Fin L) {w : Nat}
    (h : σ[a.val]? = some w) : (permFn L σ a).val = w := by
  rw [permFn_getElem hσ a] at h
  exact Option.some.inj h

theorem permFn_injective {L : ℕ} {σ : List ℕ} (hσ : IsPermList L σ) :
    Function.Injective (permFn L σ) := by
  intro a b e
  apply Fin.ext
  exact nodup_getElem?_eq hσ.2.1 (permFn_getElem hσ a) (by rw [e]; exact permFn_getElem hσ b)

theorem block_apply {L k : ℕ} (σ : List ℕ) (C : Matrix (Fin k) (Fin k) R) (a b : Fin L) :
    ((permMatF (permFn L σ))ᴴ * embed L 0 C * permMatF (permFn L σ) : Matrix (Fin L) (Fin L) R) a b =
      embed L 0 C (permFn L σ a) (permFn L σ b) := by
  rw [mul_permMatF_apply, permMatF_conjTranspose_mul_apply]

theorem embed_apply_in_gen {N o k : ℕ} (B : Matrix (Fin k) (Fin k) R) (i j : Fin N)
    (hi : o ≤ i.val ∧ i.val < o + k) (hj : o ≤ j.val ∧ j.val < o + k) :
    embed N o B i j = B ⟨i.val - o, by omega⟩ ⟨j.val - o, by omega⟩ := by
  simp [embed, place, unshift, hi, hj]

theorem embed_apply_out {N o k : ℕ} (B : Matrix (Fin k) (Fin k) R) (i j : Fin N)
    (h : ¬ (o ≤ i.val ∧ i.val < o + k) ∨ ¬ (o ≤ j.val ∧ j.val < o + k)) :
    embed N o B i j = if i = j then 1 else 0 := by
  by_cases h1 : o ≤ i.val ∧ i.val < o + k
  · have h2 : ¬ (o ≤ j.val ∧ j.val < o + k) := by
      rcases h with h | h
      · exact absurd h1 h
      · exact h
    have hne : i ≠ j := by rintro rfl; exact h2 h1
    simp [embed, place, unshift, h1, h2, hne]
  · by_cases h2 : o ≤ j.val ∧ j.val < o + k
    · have hne : i ≠ j := by rintro rfl; exact h1 h2
      simp [embed, place, unshift, h1, h2, hne]
    · simp [embed, place, unshift, h1, h2]

end matrices

end PM.C10
