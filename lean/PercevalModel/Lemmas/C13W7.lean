/-
  C13 — wave 7 helper lemmas: the scan keeps at most two vectors and the second one passed the
  orthogonality test; the Gram–Schmidt norm in closed form; the exact inverse norm over `ℂ`;
  doubling is injective.
-/
import PercevalModel.Lemmas.C13More
import PercevalModel.Lemmas.C13Complex
import Mathlib.Analysis.Real.Sqrt

open Matrix

namespace PM.C13
variable {R : Type}

/-! ### the scan: at most two vectors, the second accepted by `orth` -/

/-- what `convert_polarized_state`'s scan maintains about the vectors it keeps -/
def ScanInv (orth : R × R → R × R → Bool) (st : Scan R) : Prop :=
  st.vectors.length ≤ 2 ∧
    ∀ v1 v2 rest, st.vectors = v1 :: v2 :: rest → orth v1 v2 = true ∧ v1 ≠ v2 ∧ rest = []

theorem scanStep_inv [DecidableEq R] (orth : R × R → R × R → Bool) (st st' : Scan R) (v : R × R)
    (hi : ScanInv orth st) (h : scanStep orth st v = .ok st') : ScanInv orth st' := by
  unfold scanStep at h
  obtain ⟨vs, n0, n1⟩ := st
  match vs, hi with
  | [], _ =>
    simp only [Except.ok.injEq] at h; subst h
    exact ⟨by simp, by intro v1 v2 rest hv; simp at hv⟩
  | [w], _ =>
    simp only at h
    split at h
    · simp only [Except.ok.injEq] at h; subst h
      exact ⟨by simp, by intro v1 v2 rest hv; simp at hv⟩
    · rename_i hne
      split at h
      · rename_i ho
        simp only [Except.ok.injEq] at h; subst h
        refine ⟨by simp, ?_⟩
        intro v1 v2 rest hv
        simp only [List.cons.injEq] at hv
        obtain ⟨rfl, rfl, rfl⟩ := hv
        exact ⟨ho, hne, rfl⟩
      · cases h
  | w1 :: w2 :: r, hi =>
    simp only at h
    split at h
    · simp only [Except.ok.injEq] at h; subst h; exact hi
    · split at h
      · simp only [Except.ok.injEq] at h; subst h; exact hi
      · cases h

theorem scanMode_inv [DecidableEq R] (orth : R × R → R × R → Bool) :
    ∀ (phs : List (R × R)) (st st' : Scan R), ScanInv orth st → scanMode orth phs st = .ok st' →
      ScanInv orth st'
  | [], st, st', hi, h => by
    simp only [scanMode, Except.ok.injEq] at h; subst h; exact hi
  | v :: rest, st, st', hi, h => by
    simp only [scanMode] at h
    cases hs : scanStep orth st v with
    | error e => simp [hs] at h
    | ok st1 =>
      simp only [hs] at h
      exact scanMode_inv orth rest st1 st' (scanStep_inv orth st st1 v hi hs) h

theorem scanInv_init (orth : R × R → R × R → Bool) : ScanInv orth (⟨[], 0, 0⟩ : Scan R) :=
  ⟨by simp, by intro v1 v2 rest hv; simp at hv⟩

/-- every scan of a successful `scanAll` satisfies the invariant -/
theorem scanAll_inv [DecidableEq R] (orth : R × R → R × R → Bool) :
    ∀ (modes : List (List (R × R))) (scans : List (Scan R)), scanAll orth modes = .ok scans →
      ∀ sc ∈ scans, ScanInv orth sc
  | [], scans, h => by simp [scanAll] at h; subst h; simp
  | phs :: rest, scans, h => by
    simp only [scanAll] at h
    cases hs : scanMode orth phs ⟨[], 0, 0⟩ with
    | error e => simp [hs] at h
    | ok sc =>
      simp only [hs] at h
      cases hr : scanAll orth rest with
      | error e => simp [hr] at h
      | ok scs =>
        simp only [hr] at h
        cases h
        intro s hsm
        rcases List.mem_cons.1 hsm with rfl | hsm
        · exact scanMode_inv orth phs _ _ (scanInv_init orth) hs
        · exact scanAll_inv orth rest scs hr s hsm

/-! ### Gram–Schmidt in closed form -/

/-- `‖v2 − ⟨v1,v2⟩v1‖² = ⟨v2,v2⟩ − ⟨v1,v2⟩·conj⟨v1,v2⟩` for a normalised `v1` -/
theorem gsNorm2_closed [CommRing R] [StarRing R] (v1 v2 : R × R) (h1 : inner v1 v1 = 1) :
    gsNorm2 v1 v2 = inner v2 v2 - inner v1 v2 * star (inner v1 v2) := by
  simp only [gsNorm2, gs, inner, one_mul, star_sub, star_mul', star_add, star_star] at h1 ⊢
  linear_combination
    (star v1.1 * v2.1 + star v1.2 * v2.2) * (v1.1 * star v2.1 + v1.2 * star v2.2) * h1

/-- an exactly orthogonal second vector is left alone by the Gram–Schmidt step with `ρ = 1` -/
theorem gs_one_of_orth [CommRing R] [StarRing R] (v1 v2 : R × R) (h : inner v1 v2 = 0) :
    gs 1 v1 v2 = v2 := by
  simp [gs, h]

theorem gsNorm2_of_orthonormal [CommRing R] [StarRing R] (v1 v2 : R × R) (h2 : inner v2 v2 = 1)
    (h : inner v1 v2 = 0) : gsNorm2 v1 v2 = 1 := by
  rw [gsNorm2, gs_one_of_orth v1 v2 h, h2]

/-! ### the exact inverse norm over `ℂ` -/

theorem inner_self_complex (w : ℂ × ℂ) :
    inner w w = ((Complex.normSq w.1 + Complex.normSq w.2 : ℝ) : ℂ) := by
  simp only [inner, Complex.star_def, Complex.ofReal_add, Complex.normSq_eq_conj_mul_self]

/-- `1/‖v2 − ⟨v1,v2⟩v1‖` over `ℂ` (1 where no Gram–Schmidt step is taken) -/
noncomputable def rhoC : List (ℂ × ℂ) → ℂ
  | v1 :: v2 :: _ => (((Real.sqrt (gsNorm2 v1 v2).re)⁻¹ : ℝ) : ℂ)
  | _ => 1

theorem rhoC_star (vs : List (ℂ × ℂ)) : star (rhoC vs) = rhoC vs := by
  unfold rhoC
  split
  · rw [Complex.star_def, Complex.conj_ofReal]
  · simp

theorem rhoC_spec (v1 v2 : ℂ × ℂ) (rest : List (ℂ × ℂ)) (h : gsNorm2 v1 v2 ≠ 0) :
    rhoC (v1 :: v2 :: rest) * rhoC (v1 :: v2 :: rest) * gsNorm2 v1 v2 = 1 := by
  have hx : gsNorm2 v1 v2 =
      ((Complex.normSq (gs 1 v1 v2).1 + Complex.normSq (gs 1 v1 v2).2 : ℝ) : ℂ) := by
    rw [gsNorm2, inner_self_complex]
  set x : ℝ := Complex.normSq (gs 1 v1 v2).1 + Complex.normSq (gs 1 v1 v2).2 with hxdef
  have hx0 : 0 ≤ x := add_nonneg (Complex.normSq_nonneg _) (Complex.normSq_nonneg _)
  have hxne : x ≠ 0 := by
    intro h0; apply h; rw [hx, h0]; simp
  have hpos : 0 < x := lt_of_le_of_ne hx0 (Ne.symm hxne)
  have hs : Real.sqrt x ≠ 0 := (Real.sqrt_pos.2 hpos).ne'
  simp only [rhoC]
  rw [hx, Complex.ofReal_re, ← Complex.ofReal_mul, ← Complex.ofReal_mul]
  rw [show (Real.sqrt x)⁻¹ * (Real.sqrt x)⁻¹ * x = 1 by
    rw [← mul_inv, Real.mul_self_sqrt hx0, inv_mul_cancel₀ hxne]]
  simp

/-! ### doubling is injective -/

theorem double_injective [Zero R] {m : ℕ} {A B : Matrix (Fin m) (Fin m) R}
    (h : double A = double B) : A = B := by
  ext a b
  have := congrFun (congrFun h (finProdFinEquiv (a, 0))) (finProdFinEquiv (b, 0))
  simpa [double, divNat_pair, modNat_pair] using this

end PM.C13
