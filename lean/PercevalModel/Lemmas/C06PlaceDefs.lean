/-
  C06 — definitions for the PLACEMENT theorem of the event-table route of `generate_samples`
  (`sampler_filtered_law`): the per-mode class profile of a state, the class ("kind") of one slot of the list
  `photons` of `_events_to_samples`, the canonical slot list of an event, the law of the kind of a slot given its
  category, the sums over the consecutive blocks of slots the modes take.
-/
import PercevalModel.Lemmas.C06SampF

namespace PM.C06

/-- class of the photons of one mode / of one slot: (photons with the common tag, photons with a fresh tag) -/
def cls (m : Mode) : ℕ × ℕ := (mCommon m, mFresh m)

/-- the per-mode class profile of a state — the state up to renaming of the fresh tags (every fresh tag occurs once) -/
def profile (s : State) : List (ℕ × ℕ) := s.map cls

/-- componentwise sum of classes -/
def clsSum (l : List (ℕ × ℕ)) : ℕ × ℕ := ((l.map Prod.fst).sum, (l.map Prod.snd).sum)

/-- mode `m` takes the next `ns[m]` slots: the classes add up (`distribute` at the level of classes) -/
def blockSum : List ℕ → List (ℕ × ℕ) → List (ℕ × ℕ)
  | [], _ => []
  | n :: ns, l => clsSum (l.take n) :: blockSum ns (l.drop n)

/-- class of a signal photon according to its boolean -/
def bcls (b : Bool) : ℕ × ℕ := if b then (1, 0) else (0, 1)

/-- class of the extra photon according to the model -/
def xK (dm : Bool) : ℕ × ℕ := if dm then (0, 1) else (1, 0)

/-- class of a pair (signal + extra) -/
def duoK (dm : Bool) (b : Bool) : ℕ × ℕ := ((bcls b).1 + (xK dm).1, (bcls b).2 + (xK dm).2)

/-- the slot categories of the event `(i, j, k)` in the order `_events_to_samples` builds `photons` -/
def canon (n : ℕ) (e : ℕ × ℕ × ℕ) : List Cat :=
  List.replicate e.1 Cat.sig ++ List.replicate e.2.1 Cat.g2 ++ List.replicate e.2.2 Cat.duo ++
    List.replicate (n - (e.1 + e.2.1 + e.2.2)) Cat.none

/-- the law of the class of a slot given its category -/
def kindLaw (P : Params) : Cat → Dist (ℕ × ℕ)
  | .sig => [(bcls true, P.r), (bcls false, 1 - P.r)]
  | .g2 => [(xK P.dm, 1)]
  | .duo => [(duoK P.dm true, P.r), (duoK P.dm false, 1 - P.r)]
  | .none => [((0, 0), 1)]

/-- the classes of the slots of the list `photons` of one event, before the shuffle -/
def evKinds (dm : Bool) (n : ℕ) (e : ℕ × ℕ × ℕ) (bs : List Bool) (t : ℕ) : List (ℕ × ℕ) :=
  (evItems dm n e bs t).1.map cls

/-- a list after `random.shuffle` effected the permutation `perm` (any element type) -/
def permute {α : Type} (dflt : α) (l : List α) (perm : List ℕ) : List α := perm.map fun p => l.getD p dflt

end PM.C06
