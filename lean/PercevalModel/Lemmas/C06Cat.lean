/-
  C06 — the event table of `_compute_prob_table` as the law of the categorical counts of independent
  requested photons (DESIGN's `prob_table_eq_counts`): generating functions in three marks agree
  (`E_tableRawOf_weight` vs the product formula for independent draws), hence the individual weights
  agree (`law_of_gf3`); explicit multinomial value of every key; keys pairwise different.
-/
import PercevalModel.Lemmas.C06Coeff
import Mathlib.Data.List.Nodup
set_option linter.unusedSimpArgs false
namespace PM.C06


/-! ### the event table is the law of the categorical counts of independent requested photons -/

/-- what happens to one requested photon, as `_compute_prob_table` classifies it -/
inductive Cat
  | sig   -- the signal photon alone
  | g2    -- the extra photon alone
  | duo   -- both
  | none  -- nothing
deriving DecidableEq, Repr

/-- the law of the category of one requested photon: the four numbers of `_compute_prob_table` -/
def catDist (P : Params) : Dist Cat :=
  [(.sig, pSignal P), (.g2, pG2 P), (.duo, pDuo P), (.none, pNone P)]

/-- the event `(i, j, k)` of a sequence of categories -/
def catCounts (l : List Cat) : ℕ × ℕ × ℕ := (l.count .sig, l.count .g2, l.count .duo)

def catWeight (u v w : ℚ) : Cat → ℚ
  | .sig => u
  | .g2 => v
  | .duo => w
  | .none => 1

theorem cat_prod (u v w : ℚ) (l : List Cat) :
    (l.map (catWeight u v w)).prod =
      u ^ (catCounts l).1 * v ^ (catCounts l).2.1 * w ^ (catCounts l).2.2 := by
  induction l with
  | nil => simp [catCounts]
  | cons c l ih =>
    simp only [List.map_cons, List.prod_cons, ih, catCounts]
    cases c <;> simp [catWeight, List.count_cons, pow_succ] <;> ring

theorem E_catDist (P : Params) (u v w : ℚ) :
    E (catWeight u v w) (catDist P) = pSignal P * u + pG2 P * v + pDuo P * w + pNone P := by
  simp [catDist, catWeight, E]; ring

/-- generating function of the categorical counts of `n` independent requested photons -/
theorem E_iid_cat (P : Params) (u v w : ℚ) (n : ℕ) :
    E (fun l => u ^ (catCounts l).1 * v ^ (catCounts l).2.1 * w ^ (catCounts l).2.2)
        (iid (catDist P) n) =
      (pSignal P * u + pG2 P * v + pDuo P * w + pNone P) ^ n := by
  rw [E_congr (g' := fun l => (l.map (catWeight u v w)).prod) (fun l => (cat_prod u v w l).symm),
    E_iid_prod, E_catDist]

/-- the weight the unfiltered table gives to the key `(i, j, k)` is the probability that `n`
independent categorical draws give these counts -/
theorem table_eq_cat_counts (P : Params) (n i j k : ℕ) :
    massP (fun e => decide (e = (i, j, k))) (table P n 0) =
      massP (fun l => decide (catCounts l = (i, j, k))) (iid (catDist P) n) := by
  have := law_of_gf3 (fun e : ℕ × ℕ × ℕ => e.1) (fun e => e.2.1) (fun e => e.2.2) (table P n 0)
    (fun l : List Cat => (catCounts l).1) (fun l => (catCounts l).2.1) (fun l => (catCounts l).2.2)
    (iid (catDist P) n)
    (fun u v w => by
      rw [E_iid_cat]
      simp only [table, if_true, tableRaw]
      exact E_tableRawOf_weight _ _ _ _ u v w n) i j k
  simpa [massP, Prod.ext_iff] using this

/-- … and it is the multinomial probability (`0` outside the simplex `i + j + k ≤ n`). -/
theorem table_point (a b c z : ℚ) (n i j k : ℕ) :
    E (fun e => if e = (i, j, k) then 1 else 0) (tableRawOf a b c z n 0) =
      if i + j + k ≤ n then coef a b c z n i j k else 0 := by
  rw [E_tableRawOf_full]
  simp only [Nat.zero_le, if_true, Prod.mk.injEq]
  by_cases h : i + j + k ≤ n
  · rw [if_pos h, Finset.sum_eq_single_of_mem i (Finset.mem_range.mpr (by omega)),
      Finset.sum_eq_single_of_mem j (Finset.mem_range.mpr (by omega)),
      Finset.sum_eq_single_of_mem k (Finset.mem_range.mpr (by omega))]
    · simp
    · intro k' _ hk'; simp [hk']
    · intro j' _ hj'
      apply Finset.sum_eq_zero
      intro k' _; simp [hj']
    · intro i' _ hi'
      apply Finset.sum_eq_zero
      intro j' _
      apply Finset.sum_eq_zero
      intro k' _; simp [hi']
  · rw [if_neg h]
    apply Finset.sum_eq_zero
    intro i' hi'
    apply Finset.sum_eq_zero
    intro j' hj'
    apply Finset.sum_eq_zero
    intro k' hk'
    simp only [Finset.mem_range] at hi' hj' hk'
    have : ¬ (i' = i ∧ j' = j ∧ k' = k) := by omega
    simp [this]



theorem nodup_flatMap_range {β : Type} (n : ℕ) (f : ℕ → List β) (tag : β → ℕ)
    (h1 : ∀ i, (f i).Nodup) (h2 : ∀ i, ∀ x ∈ f i, tag x = i) :
    ((List.range n).flatMap f).Nodup := by
  rw [List.nodup_flatMap]
  refine ⟨fun i _ => h1 i, List.nodup_range.pairwise_of_forall_ne ?_⟩
  intro i _ j _ hij x hx hy
  exact hij ((h2 i x hx).symm.trans (h2 j x hy))

/-- the keys of the event table are pairwise different: the list is a faithful picture of the dict
(`prob_table[(i, j, k)] = …` never overwrites) -/
theorem tableRawOf_keys_nodup (a b c z : ℚ) (n f : ℕ) :
    ((tableRawOf a b c z n f).map Prod.fst).Nodup := by
  unfold tableRawOf
  simp only [List.map_flatMap]
  apply nodup_flatMap_range _ _ (fun e => e.1)
  · intro i
    apply nodup_flatMap_range _ _ (fun e => e.2.1)
    · intro j
      apply nodup_flatMap_range _ _ (fun e => e.2.2)
      · intro k; split <;> simp
      · intro k x hx
        split at hx <;> simp at hx
        rw [hx]
    · intro j x hx
      simp only [List.mem_flatMap] at hx
      obtain ⟨k, _, hx⟩ := hx
      split at hx <;> simp at hx
      rw [hx]
  · intro i x hx
    simp only [List.mem_flatMap] at hx
    obtain ⟨j, _, k, _, hx⟩ := hx
    split at hx <;> simp at hx
    rw [hx]


section
variable {α : Type} [DecidableEq α]

/-- in a list distribution with pairwise different keys the weight of a key is its entry -/
theorem massP_key_of_nodup (d : Dist α) (h : (d.map Prod.fst).Nodup) (e : α × ℚ) (he : e ∈ d) :
    massP (fun x => decide (x = e.1)) d = e.2 := by
  induction d with
  | nil => simp at he
  | cons x d ih =>
    simp only [List.map_cons, List.nodup_cons, List.mem_map, not_exists, not_and] at h
    simp only [massP, E_cons] at ih ⊢
    rcases List.mem_cons.mp he with rfl | he'
    · have : E (fun a => if decide (a = e.1) = true then (1 : ℚ) else 0) d = 0 := by
        rw [E_congr_mem (g' := fun _ => 0) d (fun y hy => by
          have : y.1 ≠ e.1 := fun hh => h.1 y hy hh
          simp [this])]
        simp [E]
      rw [this]; simp
    · have hne : x.1 ≠ e.1 := fun hh => h.1 e he' hh.symm
      rw [ih h.2 he']
      simp [hne]
end

theorem catDist_NonNeg {P : Params} (hP : P.WF) : NonNeg (catDist P) := by
  have h11 := p11_nonneg hP
  have h21 := p21_nonneg hP
  have h22 := p22_nonneg hP
  have h0 := p0_nonneg hP
  intro e he
  simp only [catDist, List.mem_cons, List.not_mem_nil, or_false] at he
  rcases he with rfl | rfl | rfl | rfl <;> simp only [pSignal, pG2, pDuo, pNone]
  · exact add_nonneg h11 h21
  · exact h21
  · exact h22
  · unfold p0 at h0; linarith

theorem catDist_mass (P : Params) : mass (catDist P) = 1 := by
  simp only [catDist, mass, pNone, List.map_cons, List.map_nil, List.sum_cons, List.sum_nil]; ring

/-- the category fixes the number of photons delivered, with the law `(p0, π1, π2)` of
`generate_distribution` -/
def catPhotons : Cat → ℕ
  | .sig => 1
  | .g2 => 1
  | .duo => 2
  | .none => 0

theorem catDist_count_gf (P : Params) (y : ℚ) : E (fun c => y ^ catPhotons c) (catDist P) = poly P y := by
  simp [catDist, catPhotons, E, poly, pSignal, pG2, pDuo, pNone, p0, pi1, pi2]; ring

/-! ### the reference laws are probability laws; one requested photon explicitly -/


theorem mass_iid {α : Type} (d : Dist α) (n : ℕ) : mass (iid d n) = mass d ^ n := by
  have h := E_iid_prod (fun _ => (1 : ℚ)) d n
  rw [← mass_eq_E] at h
  rw [mass_eq_E, ← h]
  apply E_congr
  intro l
  simp

theorem scaleD_NonNeg {α : Type} {c : ℚ} (hc : 0 ≤ c) {d : Dist α} (hd : NonNeg d) :
    NonNeg (scaleD c d) := by
  intro e he
  simp only [scaleD, List.mem_map] at he
  obtain ⟨x, hx, rfl⟩ := he
  exact mul_nonneg hc (hd x hx)

theorem survive_NonNeg {η : ℚ} (h0 : 0 ≤ η) (h1 : η ≤ 1) {d : Dist (ℕ × ℕ)} (hd : NonNeg d) :
    NonNeg (survive η d) := by
  intro e he
  simp only [survive, List.mem_cons, List.mem_map] at he
  rcases he with rfl | ⟨x, hx, rfl⟩
  · simp only; linarith
  · exact mul_nonneg h0 (hd x hx)

theorem convPair_NonNeg {d₁ d₂ : Dist (ℕ × ℕ)} (h₁ : NonNeg d₁) (h₂ : NonNeg d₂) :
    NonNeg (convPair d₁ d₂) := by
  intro e he
  simp only [convPair, List.mem_flatMap, List.mem_map] at he
  obtain ⟨x, hx, y, hy, rfl⟩ := he
  exact mul_nonneg (h₁ x hx) (h₂ y hy)

theorem append_NonNeg {α : Type} {d₁ d₂ : Dist α} (h₁ : NonNeg d₁) (h₂ : NonNeg d₂) :
    NonNeg (d₁ ++ d₂) := by
  intro e he
  rcases List.mem_append.mp he with h | h
  · exact h₁ e h
  · exact h₂ e h

theorem sigClass_NonNeg {P : Params} (hP : P.WF) : NonNeg (sigClass P) := by
  intro e he
  simp only [sigClass, List.mem_cons, List.not_mem_nil, or_false] at he
  rcases he with rfl | rfl
  · exact hP.r_nonneg
  · exact d_nonneg hP

theorem extraClass_NonNeg (P : Params) : NonNeg (extraClass P) := by
  intro e he
  simp only [extraClass, List.mem_singleton] at he
  subst he
  exact zero_le_one

theorem physOne_NonNeg {P : Params} (hP : P.WF) : NonNeg (physOne P) := by
  have hs := survive_NonNeg hP.eta_nonneg hP.eta_le (sigClass_NonNeg hP)
  have hx := survive_NonNeg hP.eta_nonneg hP.eta_le (extraClass_NonNeg P)
  intro e he
  simp only [physOne, List.mem_cons] at he
  rcases he with rfl | he
  · simp only; linarith [hP.beta_le]
  · exact append_NonNeg (scaleD_NonNeg (p1_nonneg hP) hs)
      (scaleD_NonNeg (p2_nonneg hP) (convPair_NonNeg hs hx)) e he

theorem tagGF_one (P : Params) : tagGF P 1 1 = 1 := by
  simp only [tagGF, sigS, p1]
  split <;> ring

theorem physOne_mass (P : Params) : mass (physOne P) = 1 := by
  have h := physOne_gf P 1 1
  rw [tagGF_one] at h
  rw [mass_eq_E]
  simpa using h

theorem pNone_nonneg {P : Params} (hP : P.WF) : 0 ≤ pNone P := by
  have h0 := p0_nonneg hP
  unfold p0 at h0
  unfold pNone pSignal pG2 pDuo
  linarith

theorem catTag_NonNeg {P : Params} (hP : P.WF) : NonNeg (catTag P) := by
  have hs := sigClass_NonNeg hP
  have hx := extraClass_NonNeg P
  have h11 := p11_nonneg hP
  have h21 := p21_nonneg hP
  have h22 := p22_nonneg hP
  unfold catTag
  refine append_NonNeg (append_NonNeg (append_NonNeg
    (scaleD_NonNeg (by unfold pSignal; linarith) hs) (scaleD_NonNeg h21 hx))
    (scaleD_NonNeg h22 (convPair_NonNeg hs hx))) ?_
  intro e he
  simp only [List.mem_singleton] at he
  subst he
  exact pNone_nonneg hP

theorem catTag_mass (P : Params) : mass (catTag P) = 1 := by
  have h := catTag_gf P 1 1
  rw [tagGF_one] at h
  rw [mass_eq_E]
  simpa using h

/-- classes of the photons of one mode -/
def mCommon (m : Mode) : ℕ := (m.filter commonTag).length
def mFresh (m : Mode) : ℕ := (freshTags m).length

/-- one requested photon, probability by probability, with the class of the tags -/
theorem onePhoton_class {P : Params} (hP : P.WF) (t : ℕ) (u v : ℕ) :
    massP (fun m => decide (mCommon m = u ∧ mFresh m = v)) (onePhoton P t) =
      massP (fun x => decide (x = (u, v))) (physOne P) := by
  have := law_of_gf2 (fun _ => 1) mCommon mFresh (onePhoton P t) (fun _ => 1)
    (fun x : ℕ × ℕ => x.1) (fun x => x.2) (physOne P)
    (fun a b => by
      simp only [one_mul]
      rw [physOne_gf, ← tag_onePhoton hP t a b]
      apply E_congr
      intro m
      rw [tagProd_counts]; rfl) u v
  simpa [massP, Prod.ext_iff] using this



/-- the physical description of one requested photon, probability by probability -/
theorem physOne_point (P : Params) :
    massP (fun x => decide (x = (0, 0))) (physOne P) = p0 P ∧
    massP (fun x => decide (x = (1, 0))) (physOne P) =
      P.r * (p11 P + p21 P) + (if P.dm then 0 else p21 P) ∧
    massP (fun x => decide (x = (0, 1))) (physOne P) =
      (1 - P.r) * (p11 P + p21 P) + (if P.dm then p21 P else 0) ∧
    massP (fun x => decide (x = (2, 0))) (physOne P) = (if P.dm then 0 else P.r * p22 P) ∧
    massP (fun x => decide (x = (1, 1))) (physOne P) =
      (if P.dm then P.r * p22 P else (1 - P.r) * p22 P) ∧
    massP (fun x => decide (x = (0, 2))) (physOne P) = (if P.dm then (1 - P.r) * p22 P else 0) := by
  unfold physOne
  by_cases hdm : P.dm = true
  · simp [hdm, massP, scaleD, survive, convPair, sigClass, extraClass, E, E_append, p0, p11, p21, p22, p1]
    refine ⟨?_, ?_, ?_, ?_, ?_⟩ <;> ring
  · simp [hdm, massP, scaleD, survive, convPair, sigClass, extraClass, E, E_append, p0, p11, p21, p22, p1]
    refine ⟨?_, ?_, ?_, ?_, ?_⟩ <;> ring



/-! ### joint law of any per-mode observable -/

section
variable {K : Type} [DecidableEq K]

/-- indicator test functions of "the observable `κ` of mode `i` is `cs[i]`" -/
def keyW (κ : Mode → K) (cs : List K) : ℕ → Mode → ℚ :=
  fun i m => if cs[i]? = some (κ m) then 1 else 0

theorem keyW_succ (κ : Mode → K) (c : K) (cs : List K) :
    (fun i => keyW κ (c :: cs) (i + 1)) = keyW κ cs := by
  funext i m; simp [keyW]

theorem W_keyW (κ : Mode → K) (cs : List K) (s : State) (h : s.length = cs.length) :
    W (keyW κ cs) 0 s = if s.map κ = cs then 1 else 0 := by
  induction s generalizing cs with
  | nil =>
    cases cs with
    | nil => simp [W]
    | cons k ks => simp at h
  | cons m s ih =>
    cases cs with
    | nil => simp at h
    | cons c cs =>
      simp only [List.length_cons, Nat.add_right_cancel_iff] at h
      simp only [W, zero_add, W_shift, keyW_succ, ih cs h]
      by_cases h1 : c = κ m
      · subst h1
        by_cases h2 : s.map κ = cs <;> simp [keyW, h2]
      · have h1' : ¬ κ m = c := fun e => h1 e.symm
        simp [keyW, h1, h1']

theorem prodFrom_keyW (P : Params) (κ : Mode → K) (F : ℕ → K → ℚ)
    (hF : ∀ n t c, massP (fun m => decide (κ m = c)) (probDist P 0 n t) = F n c)
    (ns : List ℕ) (cs : List K) (h : cs.length = ns.length) (t : ℕ) :
    prodFrom (keyW κ cs) 0 (modeDists P 0 ns t) = (List.zipWith F ns cs).prod := by
  induction ns generalizing cs t with
  | nil => simp [modeDists, prodFrom]
  | cons n ns ih =>
    cases cs with
    | nil => simp at h
    | cons c cs =>
      simp only [List.length_cons, Nat.add_right_cancel_iff] at h
      simp only [modeDists, prodFrom, zero_add, prodFrom_shift, keyW_succ, ih cs h,
        List.zipWith_cons_cons, List.prod_cons]
      congr 1
      rw [← hF n t c, massP]
      apply E_congr
      intro m
      simp [keyW, eq_comm]

/-- independence across modes, probability by probability: the joint law of any per-mode observable is the
product of its laws under `probability_distribution(nᵢ)` -/
theorem generateAt_key_point {P : Params} (hP : P.WF) (κ : Mode → K) (F : ℕ → K → ℚ)
    (hF : ∀ n t c, massP (fun m => decide (κ m = c)) (probDist P 0 n t) = F n c)
    {ns : List ℕ} (hne : ns ≠ []) (t : ℕ) (cs : List K) :
    massP (fun s => decide (s.map κ = cs)) (generateAt P 0 ns t) =
      if cs.length = ns.length then (List.zipWith F ns cs).prod else 0 := by
  by_cases h : cs.length = ns.length
  · rw [if_pos h, ← prodFrom_keyW P κ F hF ns cs h t, ← E_generateRaw_zero P _ hne,
      ← E_generateAt_zero hP _ hne, massP]
    apply E_congr_mem
    intro e he
    rw [W_keyW κ cs e.1 (by rw [generateAt_length P 0 ns t e he, h])]
    simp
  · rw [if_neg h, massP]
    rw [E_congr_mem (g' := fun _ => 0) _ (fun e he => by
      have hl := generateAt_length P 0 ns t e he
      have : e.1.map κ ≠ cs := fun hk => h (by rw [← hk, List.length_map, hl])
      simp [this])]
    simp [E]
end

/-- one mode: the classes of the tags of `probability_distribution(n)` follow the `n`-fold sum of the
physical one-photon description -/
theorem probDist_class_point {P : Params} (hP : P.WF) (n t : ℕ) (c : ℕ × ℕ) :
    massP (fun m => decide ((mCommon m, mFresh m) = c)) (probDist P 0 n t) =
      massP (fun l => decide (((l.map Prod.fst).sum, (l.map Prod.snd).sum) = c))
        (iid (physOne P) n) := by
  have := law_of_gf2 (fun _ => 1) mCommon mFresh (probDist P 0 n t) (fun _ => 1)
    (fun l : List (ℕ × ℕ) => (l.map Prod.fst).sum) (fun l => (l.map Prod.snd).sum) (iid (physOne P) n)
    (fun a b => by
      simp only [one_mul]
      rw [E_congr (g' := fun l => (l.map fun x => a ^ x.1 * b ^ x.2).prod)
        (fun l => (pair_prod a b l).symm), E_iid_prod, physOne_gf, ← tag_probDist hP n t a b]
      apply E_congr
      intro m
      rw [tagProd_counts]; rfl) c.1 c.2
  simpa [massP, Prod.ext_iff] using this

end PM.C06
