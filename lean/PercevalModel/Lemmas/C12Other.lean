/-
  C12 — which pairs `(a, b)` the non-universal blocks of `Model/C12Other.lean` can null: `BS(theta)` alone nulls
  exactly the pairs with `Re(a·conj b) = 0`, `catalog['mzi phase first']` exactly those with `Im(a·conj b) = 0`.
-/
import PercevalModel.Model.C12Other
import PercevalModel.Lemmas.C12Exist

open Matrix

namespace PM.C12

variable {R : Type} [CommRing R]

theorem bsRxInv_mul_bsRx {i c s : R} (hi : i * i = -1) (hcs : c * c + s * s = 1) :
    bsRxInv i c s * bsRx i c s = 1 := by
  ext a b
  fin_cases a <;> fin_cases b <;>
    simp [bsRxInv, bsRx, Matrix.mul_apply, Fin.sum_univ_two]
  · linear_combination hcs - (s * s) * hi
  · ring
  · ring
  · linear_combination hcs - (s * s) * hi

theorem nullEq_bsRxInv (i c s a b : R) : nullEq (bsRxInv i c s) a b = c * a - i * s * b := by
  simp [nullEq, bsRxInv]
  ring

theorem mziFirst_eq_mziFirstMat {i r h ea eb : R} (hi : i * i = -1) (hh : h = r * r) :
    mziFirst i r ea eb = mziFirstMat i h ea eb := by
  subst hh
  ext a b
  fin_cases a <;> fin_cases b <;>
    simp [mziFirst, mziFirstMat, psTop, bsRx, Matrix.mul_apply, Fin.sum_univ_two]
  · linear_combination (r * r * ea) * hi
  · ring
  · ring
  · linear_combination (r * r * eb) * hi

theorem mziFirstInv_mul_mziFirstMat {i h ea eb fa fb : R} (hi : i * i = -1) (h2 : 2 * h = 1) (ha : ea * fa = 1)
    (hb : eb * fb = 1) : mziFirstInv i h fa fb * mziFirstMat i h ea eb = 1 := by
  have h4 : 4 * (h * h) = 1 := by linear_combination (2 * h + 1) * h2
  ext a b
  fin_cases a <;> fin_cases b <;>
    simp [mziFirstInv, mziFirstMat, Matrix.mul_apply, Fin.sum_univ_two]
  · linear_combination (-(h * h * fa * ea * (fb + 1) * (eb + 1))) * hi +
      (h * h * (fb - 1) * (eb - 1) + h * h * (fb + 1) * (eb + 1)) * ha + (2 * (h * h)) * hb + h4
  · linear_combination (2 * i * h * h * fa) * hb
  · linear_combination (-(2 * i * h * h * ea)) * hb
  · linear_combination (-(h * h * (fb + 1) * (eb + 1))) * hi + (2 * (h * h)) * hb + h4

theorem nullEq_mziFirstInv (i h fa fb a b : R) :
    nullEq (mziFirstInv i h fa fb) a b = fa * h * ((fb - 1) * a - i * (fb + 1) * b) := by
  simp [nullEq, mziFirstInv]
  ring

/-! ### over ℂ -/

section complex
open Complex

/-- `BS(theta)` alone at a real parameter value -/
noncomputable def bsC (θ : ℝ) : Matrix (Fin 2) (Fin 2) ℂ :=
  bsRx I ((Real.cos (θ / 2) : ℝ) : ℂ) ((Real.sin (θ / 2) : ℝ) : ℂ)

/-- its `cU_inv` -/
noncomputable def bsInvC (θ : ℝ) : Matrix (Fin 2) (Fin 2) ℂ :=
  bsRxInv I ((Real.cos (θ / 2) : ℝ) : ℂ) ((Real.sin (θ / 2) : ℝ) : ℂ)

theorem bsInvC_mul_bsC (θ : ℝ) : bsInvC θ * bsC θ = 1 :=
  bsRxInv_mul_bsRx Complex.I_mul_I (cos_sin_cast _)

/-- the equation of `BS(theta)` in real and imaginary parts -/
theorem nullEq_bsInvC_iff (θ : ℝ) (a b : ℂ) :
    nullEq (bsInvC θ) a b = 0 ↔
      Real.cos (θ / 2) * a.re + Real.sin (θ / 2) * b.im = 0 ∧
      Real.cos (θ / 2) * a.im - Real.sin (θ / 2) * b.re = 0 := by
  unfold bsInvC
  rw [nullEq_bsRxInv, Complex.ext_iff]
  simp only [Complex.sub_re, Complex.sub_im, Complex.mul_re, Complex.mul_im, Complex.ofReal_re, Complex.ofReal_im,
    Complex.I_re, Complex.I_im, Complex.zero_re, Complex.zero_im]
  constructor
  · rintro ⟨h1, h2⟩
    exact ⟨by linarith, by linarith⟩
  · rintro ⟨h1, h2⟩
    exact ⟨by linarith, by linarith⟩

theorem re_mul_conj (a b : ℂ) : (a * (starRingEnd ℂ) b).re = a.re * b.re + a.im * b.im := by
  simp [Complex.mul_re]

theorem im_mul_conj (a b : ℂ) : (a * (starRingEnd ℂ) b).im = a.im * b.re - a.re * b.im := by
  simp [Complex.mul_im]
  ring

/-- `BS(theta)` alone can null the pair `(a, b)` iff `Re(a·conj b) = 0` -/
theorem bs_nullable_iff' (a b : ℂ) :
    (∃ θ : ℝ, nullEq (bsInvC θ) a b = 0) ↔ (a * (starRingEnd ℂ) b).re = 0 := by
  rw [re_mul_conj]
  constructor
  · rintro ⟨θ, h⟩
    rw [nullEq_bsInvC_iff] at h
    obtain ⟨e1, e2⟩ := h
    have hcs : Real.cos (θ / 2) ^ 2 + Real.sin (θ / 2) ^ 2 = 1 := Real.cos_sq_add_sin_sq _
    linear_combination (Real.cos (θ / 2) * b.re + Real.sin (θ / 2) * a.im) * e1 +
      (Real.cos (θ / 2) * b.im - Real.sin (θ / 2) * a.re) * e2 - (a.re * b.re + a.im * b.im) * hcs
  · intro h
    by_cases hb : b = 0
    · refine ⟨Real.pi, ?_⟩
      rw [nullEq_bsInvC_iff]
      subst hb
      simp [Real.cos_pi_div_two]
    · have hy : b.re ^ 2 + b.im ^ 2 ≠ 0 := by
        intro h0
        apply hb
        have h1 : b.re = 0 := by nlinarith [sq_nonneg b.re, sq_nonneg b.im]
        have h2 : b.im = 0 := by nlinarith [sq_nonneg b.re, sq_nonneg b.im]
        exact Complex.ext h1 h2
      refine ⟨2 * Real.arctan ((a.im * b.re - a.re * b.im) / (b.re ^ 2 + b.im ^ 2)), ?_⟩
      rw [nullEq_bsInvC_iff]
      have e : 2 * Real.arctan ((a.im * b.re - a.re * b.im) / (b.re ^ 2 + b.im ^ 2)) / 2 =
          Real.arctan ((a.im * b.re - a.re * b.im) / (b.re ^ 2 + b.im ^ 2)) := by ring
      rw [e]
      have hm := arctan_modulus (x := a.im * b.re - a.re * b.im) hy
      set c := Real.cos (Real.arctan ((a.im * b.re - a.re * b.im) / (b.re ^ 2 + b.im ^ 2)))
      set s := Real.sin (Real.arctan ((a.im * b.re - a.re * b.im) / (b.re ^ 2 + b.im ^ 2)))
      constructor
      · apply mul_left_cancel₀ hy
        linear_combination (-b.im) * hm + (c * b.re) * h
      · apply mul_left_cancel₀ hy
        linear_combination (b.re) * hm + (c * b.im) * h

/-- `catalog['mzi phase first']` at real parameter values -/
noncomputable def mziFirstC (φa φb : ℝ) : Matrix (Fin 2) (Fin 2) ℂ :=
  mziFirst I ((Real.cos (Real.pi / 4) : ℝ) : ℂ) (exp ((φa : ℂ) * I)) (exp ((φb : ℂ) * I))

/-- its `cU_inv` -/
noncomputable def mziFirstInvC (φa φb : ℝ) : Matrix (Fin 2) (Fin 2) ℂ :=
  mziFirstInv I (1 / 2) (exp (-((φa : ℂ) * I))) (exp (-((φb : ℂ) * I)))

theorem mziFirstC_eq_mziFirstMat (φa φb : ℝ) :
    mziFirstC φa φb = mziFirstMat I (1 / 2) (exp ((φa : ℂ) * I)) (exp ((φb : ℂ) * I)) :=
  mziFirst_eq_mziFirstMat Complex.I_mul_I cos_pi_div_four_sq

theorem mziFirstInvC_mul_mziFirstC (φa φb : ℝ) : mziFirstInvC φa φb * mziFirstC φa φb = 1 := by
  rw [mziFirstC_eq_mziFirstMat]
  unfold mziFirstInvC
  exact mziFirstInv_mul_mziFirstMat Complex.I_mul_I (by norm_num) (exp_mul_exp_neg _) (exp_mul_exp_neg _)

/-- the equation of the phase-first MZI: the outer phase is a common factor, the inner one has to turn `a − i·b` onto
`a + i·b` -/
theorem nullEq_mziFirstInvC_iff (φa φb : ℝ) (a b : ℂ) :
    nullEq (mziFirstInvC φa φb) a b = 0 ↔ exp (-((φb : ℂ) * I)) * (a - I * b) = a + I * b := by
  unfold mziFirstInvC
  rw [nullEq_mziFirstInv]
  have hfa : exp (-((φa : ℂ) * I)) ≠ 0 := Complex.exp_ne_zero _
  have hh : (1 / 2 : ℂ) ≠ 0 := by norm_num
  rw [mul_eq_zero, mul_eq_zero]
  constructor
  · rintro ((h | h) | h)
    · exact absurd h hfa
    · exact absurd h hh
    · linear_combination h
  · intro h
    right
    linear_combination h

theorem norm_exp_neg_mul_I (φ : ℝ) : ‖exp (-((φ : ℂ) * I))‖ = 1 := by
  have : -((φ : ℂ) * I) = ((-φ : ℝ) : ℂ) * I := by push_cast; ring
  rw [this, Complex.norm_exp_ofReal_mul_I]

/-- `catalog['mzi phase first']` can null the pair `(a, b)` iff `Im(a·conj b) = 0` -/
theorem mziFirst_nullable_iff' (a b : ℂ) :
    (∃ φa φb : ℝ, nullEq (mziFirstInvC φa φb) a b = 0) ↔ (a * (starRingEnd ℂ) b).im = 0 := by
  rw [im_mul_conj]
  have key : Complex.normSq (a - I * b) - Complex.normSq (a + I * b) = -4 * (a.im * b.re - a.re * b.im) := by
    simp only [Complex.normSq_apply, Complex.sub_re, Complex.sub_im, Complex.add_re, Complex.add_im, Complex.mul_re,
      Complex.mul_im, Complex.I_re, Complex.I_im]
    ring
  constructor
  · rintro ⟨φa, φb, h⟩
    rw [nullEq_mziFirstInvC_iff] at h
    have hn := congrArg (fun z : ℂ => ‖z‖) h
    simp only [norm_mul, norm_exp_neg_mul_I, one_mul] at hn
    have hsq : Complex.normSq (a - I * b) = Complex.normSq (a + I * b) := by
      rw [Complex.normSq_eq_norm_sq, Complex.normSq_eq_norm_sq, hn]
    linarith
  · intro h
    have hsq : Complex.normSq (a - I * b) = Complex.normSq (a + I * b) := by linarith
    have hn : ‖a - I * b‖ = ‖a + I * b‖ := by
      have h1 := Complex.normSq_eq_norm_sq (a - I * b)
      have h2 := Complex.normSq_eq_norm_sq (a + I * b)
      have h3 : ‖a - I * b‖ ^ 2 = ‖a + I * b‖ ^ 2 := by rw [← h1, ← h2, hsq]
      exact (sq_eq_sq₀ (norm_nonneg _) (norm_nonneg _)).1 h3
    refine ⟨0, arg (a - I * b) - arg (a + I * b), ?_⟩
    rw [nullEq_mziFirstInvC_iff]
    have hp := norm_mul_exp_arg_mul_I (a - I * b)
    have hq := norm_mul_exp_arg_mul_I (a + I * b)
    have e : exp (-(((arg (a - I * b) - arg (a + I * b) : ℝ) : ℂ) * I)) * exp ((arg (a - I * b) : ℂ) * I) =
        exp ((arg (a + I * b) : ℂ) * I) := by
      rw [← Complex.exp_add]
      congr 1
      push_cast
      ring
    calc exp (-(((arg (a - I * b) - arg (a + I * b) : ℝ) : ℂ) * I)) * (a - I * b)
        = exp (-(((arg (a - I * b) - arg (a + I * b) : ℝ) : ℂ) * I)) *
            (((‖a - I * b‖ : ℝ) : ℂ) * exp ((arg (a - I * b) : ℂ) * I)) := by rw [hp]
      _ = ((‖a - I * b‖ : ℝ) : ℂ) * exp ((arg (a + I * b) : ℂ) * I) := by rw [← e]; ring
      _ = a + I * b := by rw [hn, hq]

end complex

end PM.C12
