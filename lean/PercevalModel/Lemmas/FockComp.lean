/-
  Fock-space composition law (permanent Cauchy–Binet) and its corollaries, for every number of
  modes `m`, every photon number `n`, all matrices.  Everything stated here is proved.

  Abstract part (`κ` photons, `ι` modes, any `CommRing`):
  * `permanent_mul_submatrix`   T1  perm((A·B)[r|c]) = ∑_f (∏ᵢ B (f i) (c i)) · perm(A[r|f])
  * `card_perm_comp_eq`, `sum_perm_comp`   the fibre count: `σ ↦ u ∘ σ` hits every `f` with the
    occupation of `u` exactly `∏ₐ (occ u a)!` times (via `DomMulAct.stabilizer_card`)
  * `stab_smul_sum_eq_permanent`, `permanent_submatrix_of_occ_eq`   T2
  Concrete part (`Fock.pamp`, states = `List ℕ`; `modes s` is `expand s` typed `Fin n → Fin m`):
  * `pamp_eq`                    pamp U s t = perm(U[modes t | modes s])
  * `pamp_mul_eq_sum_fun`        T1 for `pamp`
  * `prodFact_mul_fibreSum`, `pamp_mul_eq_sum_fibreSum`   T2/T3 division-free (any CommRing)
  * `factorial_mul_pamp_mul`     T3 division-free with multinomial coefficients (any CommRing)
  * `pamp_mul_of_inv`            T3 in a CommRing where the factorials have inverses `c u`
  * `pamp_mul`, `pamp_mul_list`  T3 over a field of characteristic zero
  * `pamp_one`, `pamp_one_self`, `pamp_one_of_ne`, `pamp_conjTranspose`   T4
  * `sum_prob_eq_one`, `sum_prob_eq_one_list`   T5 (field, char 0, star ring; needs only Uᴴ U = 1)
  * `pamp_permMatF`, `pamp_permMatF_of_inverse`  T6 (relabelling)
  * `pamp_mul_GQ`, `sum_prob_GQ`   T3 and T5 at the executable ring `GQ` (`Fock.prob` sums to 1)
-/
import Mathlib.LinearAlgebra.Matrix.Permanent
import Mathlib.GroupTheory.Perm.DomMulAct
import Mathlib.Algebra.BigOperators.Ring.Finset
import Mathlib.Algebra.BigOperators.GroupWithZero.Finset
import Mathlib.Algebra.BigOperators.Fin
import Mathlib.Algebra.Star.BigOperators
import Mathlib.LinearAlgebra.Matrix.ConjTranspose
import Mathlib.Data.Fintype.Fin
import Mathlib.Algebra.CharZero.Defs
import Mathlib.Algebra.Field.Basic
import PercevalModel.Found.Fock
import PercevalModel.Found.LinAlg
import PercevalModel.Found.Perm
import PercevalModel.Lemmas.Permanent
import Mathlib.Tactic.LinearCombination

open Matrix Finset Equiv

namespace PM.FockComp

set_option linter.unusedSectionVars false

section abstract
variable {κ ι α β : Type*} [Fintype κ] [DecidableEq κ] [Fintype ι] [DecidableEq ι]
variable {R : Type*} [CommRing R]

/-- **T1.** -/
theorem permanent_mul_submatrix (A : Matrix α ι R) (B : Matrix ι β R) (r : κ → α) (c : κ → β) :
    permanent ((A * B).submatrix r c) =
      ∑ f : κ → ι, (∏ i, B (f i) (c i)) * permanent (A.submatrix r f) := by
  simp only [permanent, submatrix_apply, Matrix.mul_apply]
  simp only [Finset.prod_univ_sum, Fintype.piFinset_univ]
  rw [Finset.sum_comm]
  refine Finset.sum_congr rfl fun f _ => ?_
  simp only [Finset.prod_mul_distrib, Finset.mul_sum]
  refine Finset.sum_congr rfl fun σ _ => ?_
  rw [mul_comm]

/-- occupation number -/
def occ (f : κ → ι) (a : ι) : ℕ := Fintype.card {i // f i = a}

theorem occ_comp_perm (f : κ → ι) (σ : Perm κ) : occ (f ∘ σ) = occ f := by
  funext a
  exact Fintype.card_congr (σ.subtypeEquiv fun i => Iff.rfl)

theorem exists_perm_of_occ_eq {f f' : κ → ι} (h : occ f = occ f') :
    ∃ σ : Perm κ, f' ∘ σ = f := by
  have e : ∀ a, {i // f i = a} ≃ {i // f' i = a} := fun a =>
    Classical.choice (Fintype.card_eq.1 (congrFun h a))
  exact ⟨Equiv.ofFiberEquiv e, funext fun i => Equiv.ofFiberEquiv_map e i⟩

/-- `∏ₐ (occ f a)!` -/
def stab (f : κ → ι) : ℕ := ∏ a, (occ f a).factorial

theorem card_perm_comp_eq (f0 h : κ → ι) :
    #{σ : Perm κ | f0 ∘ σ = h} = if occ h = occ f0 then stab f0 else 0 := by
  split_ifs with hh
  · obtain ⟨τ, rfl⟩ := exists_perm_of_occ_eq hh
    unfold stab occ
    rw [← DomMulAct.stabilizer_card f0, Fintype.card_subtype]
    refine Finset.card_equiv (Equiv.mulRight τ⁻¹) fun σ => ?_
    simp only [mem_filter, mem_univ, true_and, Equiv.coe_mulRight]
    constructor
    · intro e
      funext i
      have := congrFun e (τ⁻¹ i)
      simpa using this
    · intro e
      funext i
      have := congrFun e (τ i)
      simpa using this
  · rw [Finset.card_eq_zero, Finset.filter_eq_empty_iff]
    intro σ _ e
    exact hh (by rw [← e, occ_comp_perm])

/-- fibre count -/
theorem sum_perm_comp {M : Type*} [AddCommMonoid M] (f0 : κ → ι) (g : (κ → ι) → M) :
    ∑ σ : Perm κ, g (f0 ∘ σ) = stab f0 • ∑ f : κ → ι with occ f = occ f0, g f := by
  rw [Finset.sum_comp g (fun σ : Perm κ => f0 ∘ σ), Finset.smul_sum]
  have himg : (univ : Finset (Perm κ)).image (fun σ : Perm κ => f0 ∘ σ) =
      ({f : κ → ι | occ f = occ f0} : Finset (κ → ι)) := by
    ext f
    simp only [mem_image, mem_univ, true_and, mem_filter]
    constructor
    · rintro ⟨σ, rfl⟩; exact occ_comp_perm f0 σ
    · intro h; exact exists_perm_of_occ_eq h
  rw [himg]
  refine Finset.sum_congr rfl fun f hf => ?_
  rw [card_perm_comp_eq, if_pos (by simpa using hf)]


theorem permanent_submatrix_comp_perm (A : Matrix α ι R) (r : κ → α) (f : κ → ι) (σ : Perm κ) :
    permanent (A.submatrix r (f ∘ σ)) = permanent (A.submatrix r f) :=
  permanent_permute_rows σ (A.submatrix r f)

theorem permanent_submatrix_of_occ_eq (A : Matrix α ι R) (r : κ → α) {f f' : κ → ι}
    (h : occ f = occ f') : permanent (A.submatrix r f) = permanent (A.submatrix r f') := by
  obtain ⟨σ, rfl⟩ := exists_perm_of_occ_eq h
  exact permanent_submatrix_comp_perm A r f' σ

theorem stab_smul_sum_eq_permanent (B : Matrix ι β R) (u : κ → ι) (c : κ → β) :
    stab u • ∑ f : κ → ι with occ f = occ u, ∏ i, B (f i) (c i) =
      permanent (B.submatrix u c) := by
  rw [← sum_perm_comp u (fun f => ∏ i, B (f i) (c i))]
  rfl

end abstract

section concrete
open PM.Fock
variable {m n : ℕ} {R : Type*}

theorem mem_expandFrom : ∀ (s : List ℕ) (k x : ℕ), x ∈ expandFrom k s → k ≤ x ∧ x < k + s.length
  | [], k, x, h => by simp [expandFrom] at h
  | c :: r, k, x, h => by
    simp only [expandFrom, List.mem_append, List.mem_replicate] at h
    rcases h with ⟨_, rfl⟩ | h
    · simp
    · have := mem_expandFrom r (k + 1) x h
      simp only [List.length_cons]; omega

theorem count_expandFrom : ∀ (s : List ℕ) (k p : ℕ), (expandFrom k s).count (k + p) = s.getD p 0
  | [], k, p => by simp [expandFrom]
  | c :: r, k, 0 => by
    have h0 : (expandFrom (k + 1) r).count k = 0 := by
      rw [List.count_eq_zero]
      intro h
      have := mem_expandFrom r (k + 1) k h
      omega
    simp [expandFrom, h0]
  | c :: r, k, p + 1 => by
    have := count_expandFrom r (k + 1) p
    have e : k + (p + 1) = k + 1 + p := by omega
    simp only [expandFrom, List.count_append, List.count_replicate, e, this,
      List.getD_cons_succ]
    simp only [beq_iff_eq, Nat.add_eq_right, ite_eq_right_iff]
    omega

theorem card_getD_eq (l : List ℕ) (a : ℕ) :
    Fintype.card {i : Fin l.length // l.getD i.val 0 = a} = l.count a := by
  have hl : l = List.ofFn (fun i : Fin l.length => l.getD i.val 0) := by
    apply List.ext_getElem
    · simp
    · intro i h1 h2
      simp [List.getD_eq_getElem?_getD]
  rw [Fintype.card_subtype]
  conv_rhs => rw [hl]
  rw [← Multiset.coe_count, ← Fin.univ_val_map, Multiset.count_map]
  simp only [eq_comm (a := a)]
  rfl


theorem expand_getD_lt (s : List ℕ) {i : ℕ} (hi : i < s.sum) :
    (expand s).getD i 0 < s.length := by
  have h : i < (expand s).length := by rw [expand_length]; exact hi
  rw [List.getD_eq_getElem?_getD, List.getElem?_eq_getElem h, Option.getD_some]
  have := mem_expandFrom s 0 _ (List.getElem_mem h)
  omega

/-- mode of the `i`-th photon of the `n`-photon, `m`-mode state `s` -/
def modes (s : List ℕ) (hl : s.length = m) (hn : s.sum = n) (i : Fin n) : Fin m :=
  ⟨(expand s).getD i.val 0, by rw [← hl]; exact expand_getD_lt s (by rw [hn]; exact i.isLt)⟩

theorem occ_modes (s : List ℕ) (hl : s.length = m) (hn : s.sum = n) (a : Fin m) :
    occ (modes s hl hn) a = s.getD a.val 0 := by
  subst hn
  have e : {i : Fin s.sum // modes s hl rfl i = a} ≃
      {i : Fin (expand s).length // (expand s).getD i.val 0 = a.val} :=
    (finCongr (expand_length s).symm).subtypeEquiv (fun i => by simp [modes, Fin.ext_iff])
  unfold occ
  rw [Fintype.card_congr e, card_getD_eq, expand]
  have := count_expandFrom s 0 a.val
  rwa [Nat.zero_add] at this

/-- occupation list of an assignment of photons to modes -/
def occL (f : Fin n → Fin m) : List ℕ := List.ofFn (occ f)

@[simp] theorem occL_length (f : Fin n → Fin m) : (occL f).length = m := by simp [occL]

theorem occL_sum (f : Fin n → Fin m) : (occL f).sum = n := by
  unfold occL occ
  rw [List.sum_ofFn, ← Fintype.card_sigma, Fintype.card_congr (Equiv.sigmaFiberEquiv f),
    Fintype.card_fin]

theorem occL_mem (f : Fin n → Fin m) : occL f ∈ allStates m n :=
  (mem_allStates_iff m n _).2 ⟨occL_length f, occL_sum f⟩

theorem occL_modes (s : List ℕ) (hl : s.length = m) (hn : s.sum = n) :
    occL (modes s hl hn) = s := by
  apply List.ext_getElem
  · simp [hl]
  · intro i h1 h2
    simp only [occL, List.getElem_ofFn]
    rw [occ_modes, List.getD_eq_getElem?_getD, List.getElem?_eq_getElem h2, Option.getD_some]

theorem occL_eq_iff (f : Fin n → Fin m) (u : List ℕ) (hl : u.length = m) (hn : u.sum = n) :
    occL f = u ↔ occ f = occ (modes u hl hn) := by
  conv_lhs => rw [← occL_modes u hl hn]
  exact List.ofFn_injective.eq_iff

theorem stab_modes (s : List ℕ) (hl : s.length = m) (hn : s.sum = n) :
    stab (modes s hl hn) = prodFact s := by
  subst hl
  unfold stab prodFact
  simp only [occ_modes]
  rw [← Fin.prod_univ_fun_getElem s Nat.factorial]
  refine Finset.prod_congr rfl fun a _ => ?_
  rw [List.getD_eq_getElem?_getD, List.getElem?_eq_getElem a.isLt, Option.getD_some]

theorem pamp_eq [CommRing R] (U : Matrix (Fin m) (Fin m) R) (s t : List ℕ)
    (hs : s.length = m) (ht : t.length = m) (hsn : s.sum = n) (htn : t.sum = n) :
    pamp U s t = permanent (U.submatrix (modes t ht htn) (modes s hs hsn)) := by
  subst hsn
  unfold pamp
  rw [if_pos htn.symm]
  congr 1
  ext i j
  have hi := (modes t ht htn i).isLt
  have hj := (modes s hs rfl j).isLt
  show entry U _ _ = _
  unfold entry
  rw [dif_pos ⟨hi, hj⟩]
  rfl

/-! ### the composition law -/

/-- weight of the intermediate state `u`: sum over the assignments of photons to modes with
occupation `u` of the products of entries of `B` -/
def fibreSum [CommRing R] (B : Matrix (Fin m) (Fin m) R) (c : Fin n → Fin m) (u : List ℕ) : R :=
  ∑ f : Fin n → Fin m with occL f = u, ∏ i, B (f i) (c i)

/-- **T1** (division-free composition, any commutative ring) -/
theorem pamp_mul_eq_sum_fun [CommRing R] (A B : Matrix (Fin m) (Fin m) R) (s t : List ℕ)
    (hs : s.length = m) (ht : t.length = m) (hsn : s.sum = n) (htn : t.sum = n) :
    pamp (A * B) s t = ∑ f : Fin n → Fin m,
      (∏ i, B (f i) (modes s hs hsn i)) * permanent (A.submatrix (modes t ht htn) f) := by
  rw [pamp_eq (A * B) s t hs ht hsn htn, permanent_mul_submatrix]

/-- **T2** (fibre count) -/
theorem prodFact_smul_fibreSum [CommRing R] (B : Matrix (Fin m) (Fin m) R) (c : Fin n → Fin m)
    (u : List ℕ) (hl : u.length = m) (hn : u.sum = n) :
    prodFact u • fibreSum B c u = permanent (B.submatrix (modes u hl hn) c) := by
  rw [← stab_modes u hl hn, ← stab_smul_sum_eq_permanent]
  unfold fibreSum
  rw [Finset.filter_congr (fun f _ => occL_eq_iff f u hl hn)]

theorem prodFact_mul_fibreSum [CommRing R] (B : Matrix (Fin m) (Fin m) R) (s u : List ℕ)
    (hs : s.length = m) (hsn : s.sum = n) (hl : u.length = m) (hn : u.sum = n) :
    (prodFact u : R) * fibreSum B (modes s hs hsn) u = pamp B s u := by
  rw [pamp_eq B s u hs hl hsn hn, ← prodFact_smul_fibreSum B _ u hl hn, nsmul_eq_mul]

/-- **T3, division-free**: composition through the intermediate states, with the weights
`fibreSum` (which satisfy `prodFact u * fibreSum B s u = pamp B s u`) -/
theorem pamp_mul_eq_sum_fibreSum [CommRing R] (A B : Matrix (Fin m) (Fin m) R) (s t : List ℕ)
    (hs : s.length = m) (ht : t.length = m) (hsn : s.sum = n) (htn : t.sum = n) :
    pamp (A * B) s t =
      ∑ u ∈ (allStates m n).toFinset, pamp A u t * fibreSum B (modes s hs hsn) u := by
  rw [pamp_mul_eq_sum_fun A B s t hs ht hsn htn,
    ← Finset.sum_fiberwise_of_maps_to (g := occL) (t := (allStates m n).toFinset)
      (fun f _ => List.mem_toFinset.2 (occL_mem f))]
  refine Finset.sum_congr rfl fun u hu => ?_
  obtain ⟨hl, hn⟩ := (mem_allStates_iff m n u).1 (List.mem_toFinset.1 hu)
  unfold fibreSum
  rw [Finset.mul_sum]
  refine Finset.sum_congr rfl fun f hf => ?_
  have hf' : occ f = occ (modes u hl hn) := (occL_eq_iff f u hl hn).1 (by simpa using hf)
  rw [pamp_eq A u t hl ht hn htn, permanent_submatrix_of_occ_eq A _ hf', mul_comm]

/-- **T3** in any commutative ring in which the factorials are invertible, the inverses being
given by `c` -/
theorem pamp_mul_of_inv [CommRing R] (c : List ℕ → R)
    (hc : ∀ u ∈ allStates m n, c u * (prodFact u : R) = 1)
    (A B : Matrix (Fin m) (Fin m) R) (s t : List ℕ)
    (hs : s.length = m) (ht : t.length = m) (hsn : s.sum = n) (htn : t.sum = n) :
    pamp (A * B) s t = ∑ u ∈ (allStates m n).toFinset, pamp A u t * pamp B s u * c u := by
  rw [pamp_mul_eq_sum_fibreSum A B s t hs ht hsn htn]
  refine Finset.sum_congr rfl fun u hu => ?_
  have hu' := List.mem_toFinset.1 hu
  obtain ⟨hl, hn⟩ := (mem_allStates_iff m n u).1 hu'
  rw [← prodFact_mul_fibreSum B s u hs hsn hl hn]
  linear_combination (-(pamp A u t * fibreSum B (modes s hs hsn) u)) * hc u hu'

theorem prodFact_ne_zero (u : List ℕ) : prodFact u ≠ 0 := by
  induction u with
  | nil => simp [prodFact]
  | cons c r ih =>
    simp only [prodFact, List.map_cons, List.prod_cons] at ih ⊢
    exact Nat.mul_ne_zero (Nat.factorial_ne_zero c) ih

/-- **T3** (Fock-space composition law) over a field of characteristic zero -/
theorem pamp_mul [Field R] [CharZero R] (A B : Matrix (Fin m) (Fin m) R) (s t : List ℕ)
    (hs : s.length = m) (ht : t.length = m) (hsn : s.sum = n) (htn : t.sum = n) :
    pamp (A * B) s t =
      ∑ u ∈ (allStates m n).toFinset, pamp A u t * pamp B s u / (prodFact u : R) := by
  rw [pamp_mul_of_inv (fun u => (prodFact u : R)⁻¹)
    (fun u _ => inv_mul_cancel₀ (Nat.cast_ne_zero.2 (prodFact_ne_zero u))) A B s t hs ht hsn htn]
  simp only [div_eq_mul_inv]

/-- **T3**, as a sum over the enumeration `allStates` -/
theorem pamp_mul_list [Field R] [CharZero R] (A B : Matrix (Fin m) (Fin m) R) (s t : List ℕ)
    (hs : s.length = m) (ht : t.length = m) (hst : s.sum = t.sum) :
    pamp (A * B) s t =
      ((allStates m s.sum).map fun u => pamp A u t * pamp B s u / (prodFact u : R)).sum := by
  rw [pamp_mul A B s t hs ht rfl hst.symm, List.sum_toFinset _ (allStates_nodup m s.sum)]

/-! ### identity, permutation matrices, adjoint -/

theorem permanent_permMatF_submatrix [CommRing R] (φ : Fin m → Fin m) (r c : Fin n → Fin m) :
    permanent ((permMatF (R := R) φ).submatrix r c) =
      if occ (φ ∘ c) = occ r then (stab r : R) else 0 := by
  have key := card_perm_comp_eq r (φ ∘ c)
  have h2 : ((#{σ : Perm (Fin n) | r ∘ σ = φ ∘ c} : ℕ) : R) =
      if occ (φ ∘ c) = occ r then (stab r : R) else 0 := by
    rw [key]; split_ifs <;> simp
  rw [← h2]
  unfold permanent
  simp only [submatrix_apply, permMatF, Finset.prod_ite_zero, Finset.prod_const_one]
  rw [Finset.sum_boole]
  congr 2
  refine Finset.filter_congr fun σ _ => ?_
  constructor
  · intro h; funext i; exact (h i (mem_univ i)).symm
  · intro h i _; exact (congrFun h i).symm

/-- **T4** -/
theorem pamp_one [CommRing R] (s t : List ℕ)
    (hs : s.length = m) (ht : t.length = m) (hst : s.sum = t.sum) :
    pamp (1 : Matrix (Fin m) (Fin m) R) s t = if t = s then (prodFact s : R) else 0 := by
  rw [← permMatF_id, pamp_eq _ s t hs ht rfl hst.symm, permanent_permMatF_submatrix,
    Function.id_comp]
  by_cases h : t = s
  · subst h
    rw [if_pos rfl, if_pos rfl, stab_modes]
  · rw [if_neg h, if_neg]
    intro e
    apply h
    have := congrArg List.ofFn e
    change occL _ = occL _ at this
    rw [occL_modes, occL_modes] at this
    exact this.symm

theorem pamp_one_self [CommRing R] (s : List ℕ) (hs : s.length = m) :
    pamp (1 : Matrix (Fin m) (Fin m) R) s s = (prodFact s : R) := by
  rw [pamp_one s s hs hs rfl, if_pos rfl]

theorem pamp_one_of_ne [CommRing R] (s t : List ℕ) (hs : s.length = m) (ht : t.length = m)
    (h : t ≠ s) : pamp (1 : Matrix (Fin m) (Fin m) R) s t = 0 := by
  by_cases hst : s.sum = t.sum
  · rw [pamp_one s t hs ht hst, if_neg h]
  · simp [pamp, hst]

theorem entry_conjTranspose [CommRing R] [StarRing R] (U : Matrix (Fin m) (Fin m) R) (a b : ℕ) :
    entry Uᴴ a b = star (entry U b a) := by
  unfold entry
  by_cases h : a < m ∧ b < m
  · rw [dif_pos h, dif_pos h.symm]; rfl
  · rw [dif_neg h, dif_neg (fun h' => h h'.symm), star_zero]

theorem permanent_conjTranspose [CommRing R] [StarRing R] {κ : Type*} [Fintype κ] [DecidableEq κ]
    (M : Matrix κ κ R) : permanent Mᴴ = star (permanent M) := by
  rw [← permanent_transpose M]
  unfold permanent
  rw [star_sum]
  refine Finset.sum_congr rfl fun σ _ => ?_
  rw [star_prod]
  rfl

/-- **T4** the amplitudes of the adjoint are the conjugates of the reversed amplitudes -/
theorem pamp_conjTranspose [CommRing R] [StarRing R] (U : Matrix (Fin m) (Fin m) R)
    (s t : List ℕ) : pamp Uᴴ t s = star (pamp U s t) := by
  unfold pamp
  by_cases h : s.sum = t.sum
  · rw [if_pos h, if_pos h.symm, ← permanent_conjTranspose,
      ← permanent_submatrix_equiv_self (finCongr h.symm) ((subMat U s t)ᴴ)]
    congr 1
    ext i j
    simp [subMat, entry_conjTranspose]
  · rw [if_neg h, if_neg (Ne.symm h), star_zero]

/-! ### normalisation -/

theorem sum_star_pamp_mul_pamp_of_inv [CommRing R] [StarRing R] (c : List ℕ → R)
    (hc : ∀ u ∈ allStates m n, c u * (prodFact u : R) = 1)
    (U : Matrix (Fin m) (Fin m) R) (hU : Uᴴ * U = 1) (s : List ℕ)
    (hs : s.length = m) (hsn : s.sum = n) :
    ∑ t ∈ (allStates m n).toFinset, star (pamp U s t) * pamp U s t * c t = (prodFact s : R) := by
  have h := pamp_mul_of_inv c hc Uᴴ U s s hs hs hsn hsn
  rw [hU, pamp_one_self s hs] at h
  rw [h]
  refine Finset.sum_congr rfl fun t _ => ?_
  rw [pamp_conjTranspose]

/-- **T5** a full output distribution sums to one over exactly the states with the input
photon number -/
theorem sum_prob_eq_one [Field R] [CharZero R] [StarRing R]
    (U : Matrix (Fin m) (Fin m) R) (hU : Uᴴ * U = 1) (s : List ℕ)
    (hs : s.length = m) (hsn : s.sum = n) :
    ∑ t ∈ (allStates m n).toFinset,
      pamp U s t * star (pamp U s t) / ((prodFact s : R) * (prodFact t : R)) = 1 := by
  have h := sum_star_pamp_mul_pamp_of_inv (fun u => (prodFact u : R)⁻¹)
    (fun u _ => inv_mul_cancel₀ (Nat.cast_ne_zero.2 (prodFact_ne_zero u))) U hU s hs hsn
  have hne : (prodFact s : R) ≠ 0 := Nat.cast_ne_zero.2 (prodFact_ne_zero s)
  rw [← mul_inv_cancel₀ hne, ← h, Finset.sum_mul]
  refine Finset.sum_congr rfl fun t _ => ?_
  rw [div_eq_mul_inv, mul_inv]
  ring

theorem sum_prob_eq_one_list [Field R] [CharZero R] [StarRing R]
    (U : Matrix (Fin m) (Fin m) R) (hU : IsUnitary U) (s : List ℕ) (hs : s.length = m) :
    ((allStates m s.sum).map fun t =>
      pamp U s t * star (pamp U s t) / ((prodFact s : R) * (prodFact t : R))).sum = 1 := by
  rw [← List.sum_toFinset _ (allStates_nodup m s.sum)]
  exact sum_prob_eq_one U hU.2 s hs rfl

/-! ### division-free composition with multinomial coefficients -/

/-- number of assignments of `n` photons to `m` modes with occupation `u`
(the multinomial coefficient `n! / ∏ uᵢ!`) -/
def mult (m n : ℕ) (u : List ℕ) : ℕ := #{f : Fin n → Fin m | occL f = u}

theorem prodFact_mul_mult (u : List ℕ) (hl : u.length = m) (hn : u.sum = n) :
    prodFact u * mult m n u = n.factorial := by
  have h := sum_perm_comp (modes u hl hn) (fun _ : Fin n → Fin m => (1 : ℕ))
  rw [Finset.sum_const, Finset.card_univ, Fintype.card_perm, Fintype.card_fin, smul_eq_mul,
    mul_one, Finset.sum_const, smul_eq_mul, smul_eq_mul, mul_one, stab_modes] at h
  rw [h, mult, Finset.filter_congr (fun f _ => occL_eq_iff f u hl hn)]

theorem mult_eq_div (u : List ℕ) (hl : u.length = m) (hn : u.sum = n) :
    mult m n u = n.factorial / prodFact u :=
  (Nat.div_eq_of_eq_mul_right (Nat.pos_of_ne_zero (prodFact_ne_zero u))
    (prodFact_mul_mult u hl hn).symm).symm

/-- **T3, division-free, any commutative ring**:
`n! · ⟨t|A B|s⟩ = ∑ᵤ (n!/∏uᵢ!) · ⟨t|A|u⟩⟨u|B|s⟩` -/
theorem factorial_mul_pamp_mul [CommRing R] (A B : Matrix (Fin m) (Fin m) R) (s t : List ℕ)
    (hs : s.length = m) (ht : t.length = m) (hsn : s.sum = n) (htn : t.sum = n) :
    (n.factorial : R) * pamp (A * B) s t =
      ∑ u ∈ (allStates m n).toFinset, (mult m n u : R) * (pamp A u t * pamp B s u) := by
  rw [pamp_mul_eq_sum_fibreSum A B s t hs ht hsn htn, Finset.mul_sum]
  refine Finset.sum_congr rfl fun u hu => ?_
  obtain ⟨hl, hn⟩ := (mem_allStates_iff m n u).1 (List.mem_toFinset.1 hu)
  rw [← prodFact_mul_fibreSum B s u hs hsn hl hn, ← prodFact_mul_mult u hl hn]
  push_cast
  ring

/-! ### relabelling -/

theorem occ_comp_left {κ : Type*} [Fintype κ] [DecidableEq κ] (φ : Fin m → Fin m)
    (c : κ → Fin m) (a : Fin m) : occ (φ ∘ c) a = ∑ b with φ b = a, occ c b := by
  unfold occ
  simp only [Fintype.card_subtype, Function.comp_apply]
  rw [Finset.card_eq_sum_card_fiberwise (f := c) (t := ({b | φ b = a} : Finset (Fin m)))
    (fun i hi => by simpa using hi)]
  refine Finset.sum_congr rfl fun b hb => ?_
  rw [Finset.filter_filter]
  congr 1
  refine Finset.filter_congr fun i _ => ?_
  have hb' : φ b = a := by simpa using hb
  constructor
  · exact fun h => h.2
  · intro h; exact ⟨by rw [h, hb'], h⟩

/-- the state `s` with every mode `b` relabelled `φ b` (photons of merged modes add up) -/
def pushL (φ : Fin m → Fin m) (s : List ℕ) : List ℕ :=
  List.ofFn fun a : Fin m => ∑ b with φ b = a, s.getD b.val 0

theorem occL_comp_modes (φ : Fin m → Fin m) (s : List ℕ) (hl : s.length = m) (hn : s.sum = n) :
    occL (φ ∘ modes s hl hn) = pushL φ s := by
  unfold occL pushL
  congr 1
  funext a
  rw [occ_comp_left]
  simp only [occ_modes]

/-- **T6** (relabelling) for any map on modes `φ` -/
theorem pamp_permMatF [CommRing R] (φ : Fin m → Fin m) (s t : List ℕ)
    (hs : s.length = m) (ht : t.length = m) (hst : s.sum = t.sum) :
    pamp (permMatF (R := R) φ) s t = if t = pushL φ s then (prodFact t : R) else 0 := by
  rw [pamp_eq _ s t hs ht rfl hst.symm, permanent_permMatF_submatrix, stab_modes]
  have : occ (φ ∘ modes s hs rfl) = occ (modes t ht hst.symm) ↔ t = pushL φ s := by
    rw [← occL_comp_modes φ s hs rfl, ← occL_eq_iff]
    exact eq_comm
  simp only [this]

theorem prodFact_eq_prod (s : List ℕ) (hl : s.length = m) :
    prodFact s = ∏ a : Fin m, (s.getD a.val 0).factorial := by
  rw [← stab_modes s hl rfl]
  unfold stab
  simp only [occ_modes]

theorem pushL_of_inverse (φ ψ : Fin m → Fin m) (hφψ : ∀ x, φ (ψ x) = x) (hψφ : ∀ x, ψ (φ x) = x)
    (s : List ℕ) : pushL φ s = List.ofFn fun a : Fin m => s.getD (ψ a).val 0 := by
  unfold pushL
  congr 1
  funext a
  rw [Finset.sum_eq_single (ψ a)]
  · intro b hb hne
    exact absurd (by rw [← (Finset.mem_filter.1 hb).2, hψφ]) hne
  · intro h
    exact absurd (by simp [hφψ]) h

theorem prodFact_pushL_of_inverse (φ ψ : Fin m → Fin m) (hφψ : ∀ x, φ (ψ x) = x)
    (hψφ : ∀ x, ψ (φ x) = x) (s : List ℕ) (hl : s.length = m) :
    prodFact (pushL φ s) = prodFact s := by
  rw [pushL_of_inverse φ ψ hφψ hψφ, prodFact_eq_prod s hl, prodFact_eq_prod (m := m) _ (by simp)]
  let e : Fin m ≃ Fin m := ⟨ψ, φ, hφψ, hψφ⟩
  refine Fintype.prod_equiv e _ _ fun a => ?_
  simp [e]

/-- **T6** (relabelling) for a permutation `φ` of the modes with inverse `ψ`:
the only output of `s` is `s` relabelled, with un-normalised amplitude `∏ sᵢ!` -/
theorem pamp_permMatF_of_inverse [CommRing R] (φ ψ : Fin m → Fin m) (hφψ : ∀ x, φ (ψ x) = x)
    (hψφ : ∀ x, ψ (φ x) = x) (s t : List ℕ)
    (hs : s.length = m) (ht : t.length = m) (hst : s.sum = t.sum) :
    pamp (permMatF (R := R) φ) s t =
      if t = List.ofFn (fun a : Fin m => s.getD (ψ a).val 0) then (prodFact s : R) else 0 := by
  rw [pamp_permMatF φ s t hs ht hst, ← pushL_of_inverse φ ψ hφψ hψφ]
  by_cases h : t = pushL φ s
  · rw [if_pos h, if_pos h, h, prodFact_pushL_of_inverse φ ψ hφψ hψφ s hs]
  · rw [if_neg h, if_neg h]

end concrete

/-! ### the executable ring `GQ = ℚ[i]` (only a `CommRing` in this project) -/

section GQ
open PM.Fock
variable {m : ℕ}

theorem GQ_natCast (k : ℕ) : (k : GQ) = GQ.ofRat k := by
  induction k with
  | zero => rw [Nat.cast_zero, Nat.cast_zero]; rfl
  | succ k ih => rw [Nat.cast_succ, ih]; ext <;> simp [GQ.ofRat]

/-- `1 / ∏ uᵢ!` in `GQ` -/
def gqInv (u : List ℕ) : GQ := GQ.ofRat (1 / (prodFact u : ℚ))

theorem gqInv_mul (u : List ℕ) : gqInv u * (prodFact u : GQ) = 1 := by
  have hne : (prodFact u : ℚ) ≠ 0 := Nat.cast_ne_zero.2 (prodFact_ne_zero u)
  rw [GQ_natCast]
  ext
  · simp [gqInv, GQ.ofRat, hne]
  · simp [gqInv, GQ.ofRat]

/-- **T3 at `GQ`** -/
theorem pamp_mul_GQ (A B : Matrix (Fin m) (Fin m) GQ) (s t : List ℕ)
    (hs : s.length = m) (ht : t.length = m) (hst : s.sum = t.sum) :
    pamp (A * B) s t =
      ((allStates m s.sum).map fun u =>
        pamp A u t * pamp B s u * GQ.ofRat (1 / (prodFact u : ℚ))).sum := by
  rw [pamp_mul_of_inv gqInv (fun u _ => gqInv_mul u) A B s t hs ht rfl hst.symm,
    List.sum_toFinset _ (allStates_nodup m s.sum)]
  rfl

/-- real part as an additive map -/
def reHom : GQ →+ ℚ where
  toFun := GQ.re
  map_zero' := rfl
  map_add' _ _ := rfl

/-- **T5 at `GQ`**: for a unitary, the probabilities `Fock.prob U s t` over all `t` with the
photon number of `s` sum to one (in `ℚ`) -/
theorem sum_prob_GQ (U : Matrix (Fin m) (Fin m) GQ) (hU : IsUnitary U) (s : List ℕ)
    (hs : s.length = m) : ((allStates m s.sum).map (prob U s)).sum = 1 := by
  have h := sum_star_pamp_mul_pamp_of_inv gqInv (fun u _ => gqInv_mul u) U hU.2 s hs rfl
  have h2 := congrArg reHom h
  rw [map_sum] at h2
  have hne : (prodFact s : ℚ) ≠ 0 := Nat.cast_ne_zero.2 (prodFact_ne_zero s)
  have h3 : reHom (prodFact s : GQ) = (prodFact s : ℚ) := by rw [GQ_natCast]; rfl
  have h4 := h2.trans h3
  rw [← List.sum_toFinset _ (allStates_nodup m s.sum)]
  calc ∑ t ∈ (allStates m s.sum).toFinset, prob U s t
      = ∑ t ∈ (allStates m s.sum).toFinset,
          reHom (star (pamp U s t) * pamp U s t * gqInv t) * (prodFact s : ℚ)⁻¹ := by
        refine Finset.sum_congr rfl fun t _ => ?_
        show GQ.normSq (pamp U s t) / ((prodFact s : ℚ) * (prodFact t : ℚ)) =
          (star (pamp U s t) * pamp U s t * gqInv t).re * (prodFact s : ℚ)⁻¹
        simp only [gqInv, GQ.ofRat, GQ.normSq, GQ.mul_re, GQ.mul_im, GQ.star_re, GQ.star_im]
        rw [div_eq_mul_inv, mul_inv]
        ring
    _ = 1 := by rw [← Finset.sum_mul, h4, mul_inv_cancel₀ hne]

end GQ

end PM.FockComp
