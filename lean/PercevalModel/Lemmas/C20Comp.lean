/-
  C20 — Fock-space composition of gate implementations WITH heralds and post-selection.

  `gateTable U L ps` is the table of (un-normalised) amplitudes between encoded logical basis states of the
  layout `L` (heralds at their values), with the post-selection `ps` applied to the output.  For two circuits
  `A` (first) and `B` on the same `L.m` modes, `PM.C02.fock_comp` gives
      ⟨t|B·A|s⟩ = ∑_u ⟨t|B|u⟩⟨u|A|s⟩ / ∏ uᵢ!      over ALL intermediate Fock states u of the same photon number,
  while the product of the logical tables only sums over the encoded logical states.  The difference is the
  *leak-and-return* term: intermediate states that are not logical (or violate a herald).  The theorems below
  say exactly when it vanishes.

  * `gateAmp_comp`, `gateTable_comp`: general statement, hypothesis `NoLeakReturn` (every non-encoded
    intermediate state has `⟨t|B|u⟩⟨u|A|s⟩ = 0` for selected logical `t`).
  * `LocalOn S A`: `A` is the identity outside the modes `S`;  `pamp_local_eq`: then an amplitude of `A` is
    non-zero only between states that agree outside `S` (spectator modes keep their photons).
  * `heraldsOk_mid`: if every herald mode is outside the support of `A` or outside the support of `B` (the
    converter gives every heralded gate its own fresh herald modes) every contributing intermediate state
    satisfies ALL heralds — so `A`'s heralds are enforced at the intermediate step although they are only
    measured at the end.
  * `NoLeak L A`: `A` sends no logical state into a herald-satisfying non-logical state (a *heralded* gate).
    `noLeakReturn_of_noLeak`, `NoLeak.comp`: heralded gates compose, and the composition is again heralded.
-/
import PercevalModel.Lemmas.C20Encode
import Mathlib.Algebra.BigOperators.Group.Finset.Basic

open Matrix Finset

namespace PM.C20
open PM.Fock PM.SimSpec

variable {R : Type*}

/-- `u` is the encoding of a logical basis state of the layout -/
def IsEnc (L : Layout) (u : List ℕ) : Prop := ∃ b : List Bool, b.length = L.qubits.length ∧ u = encode L b

/-- the side condition of the composition law, for the logical input `bi` and the logical output `bo`: no
intermediate state outside the encoded logical space contributes — what `A` leaks there, `B` does not bring
back to `bo` -/
def NoLeakReturn [CommRing R] (L : Layout) (A B : Matrix (Fin L.m) (Fin L.m) R) (bo bi : List Bool) : Prop :=
  ∀ u ∈ allStates L.m (L.qubits.length + heraldSum L), ¬ IsEnc L u →
    pamp B u (encode L bo) * pamp A (encode L bi) u = 0

theorem isEnc_iff (L : Layout) (hok : L.ok = true) (u : List ℕ) :
    IsEnc L u ↔ u.length = L.m ∧ heraldsOk L.heralds u = true ∧ isLogical L u = true := by
  constructor
  · rintro ⟨b, hb, rfl⟩
    exact ⟨encode_length L b, encode_heraldsOk L hok b hb, encode_isLogical L hok b hb⟩
  · rintro ⟨h1, h2, h3⟩
    exact exists_bits_of_logical L hok u h1 h2 h3

theorem isEnc_iff_mem (L : Layout) (u : List ℕ) :
    IsEnc L u ↔ u ∈ (basis L.qubits.length).map (encode L) := by
  rw [List.mem_map]
  constructor
  · rintro ⟨b, hb, rfl⟩
    exact ⟨b, (mem_basis_iff _ _).2 hb, rfl⟩
  · rintro ⟨b, hb, rfl⟩
    exact ⟨b, (mem_basis_iff _ _).1 hb, rfl⟩

/-! ### the general composition law for logical tables -/

/-- a sum over all Fock states of a function that vanishes outside the encoded logical states is the sum
over the logical basis -/
theorem sum_allStates_eq_sum_basis [AddCommMonoid R] (L : Layout) (hok : L.ok = true) (F : List ℕ → R)
    (hF : ∀ u ∈ allStates L.m (L.qubits.length + heraldSum L), ¬ IsEnc L u → F u = 0) :
    ((allStates L.m (L.qubits.length + heraldSum L)).map F).sum =
      ((basis L.qubits.length).map fun b => F (encode L b)).sum := by
  have hnd := basis_map_encode_nodup L hok
  rw [← List.sum_toFinset F (allStates_nodup _ _)]
  have hmap : ((basis L.qubits.length).map fun b => F (encode L b)) =
      ((basis L.qubits.length).map (encode L)).map F := by rw [List.map_map]; rfl
  rw [hmap, ← List.sum_toFinset F hnd]
  symm
  apply Finset.sum_subset
  · intro u hu
    rw [List.mem_toFinset, List.mem_map] at hu
    obtain ⟨b, hb, rfl⟩ := hu
    exact List.mem_toFinset.2 (encode_mem_allStates L hok b ((mem_basis_iff _ _).1 hb))
  · intro u hu hnu
    apply hF u (List.mem_toFinset.1 hu)
    intro henc
    exact hnu (List.mem_toFinset.2 ((isEnc_iff_mem L u).1 henc))

theorem list_sum_map_div [DivisionRing R] {α : Type*} (l : List α) (f : α → R) (c : R) :
    (l.map fun a => f a / c).sum = (l.map f).sum / c := by
  induction l with
  | nil => simp
  | cons a l ih => simp only [List.map_cons, List.sum_cons, ih, add_div]

/-- **composition of logical amplitudes with heralds and post-selection**: under `NoLeakReturn`, the
amplitude of `B·A` between two logical states is the sum over the *logical* intermediate states of the product
of the amplitudes, divided by the herald factorial `∏ hᵢ!` (`= 1` for the catalog's herald values `0, 1`).
The post-selection is applied to the final output only. -/
theorem gateAmp_comp [Field R] [CharZero R] (L : Layout) (hok : L.ok = true)
    (A B : Matrix (Fin L.m) (Fin L.m) R) (ps : PS) (bo bi : List Bool)
    (hbo : bo.length = L.qubits.length) (hbi : bi.length = L.qubits.length)
    (hleak : NoLeakReturn L A B bo bi) :
    gateAmp (B * A) L ps bo bi =
      ((basis L.qubits.length).map fun bu => gateAmp B L ps bo bu * gateAmp A L PS.tt bu bi).sum /
        (heraldFact L : R) := by
  unfold gateAmp
  by_cases hps : ps.eval (encode L bo) = true
  · simp only [hps, if_true, PS.eval]
    rw [PM.C02.fock_comp B A (encode L bi) (encode L bo) (encode_length L bi) (encode_length L bo)
      (by rw [encode_sum L hok bi hbi, encode_sum L hok bo hbo]), encode_sum L hok bi hbi]
    rw [sum_allStates_eq_sum_basis L hok
      (fun u => pamp B u (encode L bo) * pamp A (encode L bi) u / (prodFact u : R))]
    · rw [← list_sum_map_div]
      apply congrArg
      apply List.map_congr_left
      intro b hb
      rw [encode_prodFact L hok b ((mem_basis_iff _ _).1 hb)]
    · intro u hu hnu
      rw [hleak u hu hnu, zero_div]
  · have hps' : ps.eval (encode L bo) = false := by simpa using hps
    simp only [hps', Bool.false_eq_true, if_false, zero_mul]
    rw [List.map_const', List.sum_replicate, smul_zero, zero_div]

theorem sum_fin_basis [AddCommMonoid R] (q : ℕ) (g : List Bool → R) :
    ∑ k : Fin (basis q).length, g ((basis q).getD k.val []) = ((basis q).map g).sum := by
  rw [← Fin.sum_univ_fun_getElem (basis q) g]
  refine Finset.sum_congr rfl fun k _ => ?_
  rw [List.getD_eq_getElem?_getD, List.getElem?_eq_getElem k.isLt, Option.getD_some]

theorem getD_basis_length (q : ℕ) (k : Fin (basis q).length) : ((basis q).getD k.val []).length = q := by
  rw [List.getD_eq_getElem?_getD, List.getElem?_eq_getElem k.isLt, Option.getD_some]
  exact (mem_basis_iff q _).1 (List.getElem_mem k.isLt)

/-- **composition of logical tables**: `table(B·A) = (∏hᵢ!)⁻¹ • table(B) · table(A)`; the table of the first
circuit is taken without post-selection (its conditions are part of the final `ps`) -/
theorem gateTable_comp [Field R] [CharZero R] (L : Layout) (hok : L.ok = true)
    (A B : Matrix (Fin L.m) (Fin L.m) R) (ps : PS)
    (hleak : ∀ bo bi : List Bool, bo.length = L.qubits.length → bi.length = L.qubits.length →
      ps.eval (encode L bo) = true → NoLeakReturn L A B bo bi) :
    gateTable (B * A) L ps = (heraldFact L : R)⁻¹ • (gateTable B L ps * gateTable A L PS.tt) := by
  ext i j
  rw [Matrix.smul_apply, Matrix.mul_apply, smul_eq_mul]
  simp only [gateTable]
  rw [sum_fin_basis L.qubits.length (fun bu =>
    gateAmp B L ps ((basis L.qubits.length).getD i.val []) bu *
      gateAmp A L PS.tt bu ((basis L.qubits.length).getD j.val []))]
  by_cases hps : ps.eval (encode L ((basis L.qubits.length).getD i.val [])) = true
  · rw [gateAmp_comp L hok A B ps _ _ (getD_basis_length _ i) (getD_basis_length _ j)
      (hleak _ _ (getD_basis_length _ i) (getD_basis_length _ j) hps), div_eq_inv_mul]
  · have hps' : ps.eval (encode L ((basis L.qubits.length).getD i.val [])) = false := by simpa using hps
    simp only [gateAmp, hps', Bool.false_eq_true, if_false, zero_mul]
    rw [List.map_const', List.sum_replicate, smul_zero, mul_zero]

/-- a post-selection that accepts every logical state does not change the logical table (it only matters for
the non-logical outputs, i.e. in `NoLeakReturn` and in the leakage) -/
theorem gateTable_ps_irrelevant [CommRing R] (L : Layout) (A : Matrix (Fin L.m) (Fin L.m) R) (ps : PS)
    (hps : ∀ b : List Bool, b.length = L.qubits.length → ps.eval (encode L b) = true) :
    gateTable A L ps = gateTable A L PS.tt := by
  ext i j
  simp only [gateTable, gateAmp, hps _ (getD_basis_length _ i), if_true, PS.eval]

/-- herald values `0` and `1` (all catalog gates): the herald factorial is one -/
theorem heraldFact_eq_one (L : Layout) (h : ∀ p ∈ L.heralds, p.2 ≤ 1) : heraldFact L = 1 := by
  unfold heraldFact
  apply List.prod_eq_one
  intro x hx
  obtain ⟨p, hp, rfl⟩ := List.mem_map.1 hx
  have := h p hp
  rcases Nat.le_one_iff_eq_zero_or_eq_one.1 this with h0 | h1
  · rw [h0]; rfl
  · rw [h1]; rfl

/-! ### locality: spectator modes keep their photons -/

/-- `A` is the identity outside the modes listed in `S` (a component placed on the modes `S` of a larger
circuit: `nU = eye(m); nU[S, S] = cU`) -/
def LocalOn [Zero R] [One R] {m : ℕ} (S : List ℕ) (A : Matrix (Fin m) (Fin m) R) : Prop :=
  ∀ i j : Fin m, (i.val ∉ S ∨ j.val ∉ S) → A i j = if i = j then 1 else 0

theorem LocalOn.mono [Zero R] [One R] {m : ℕ} {S S' : List ℕ} {A : Matrix (Fin m) (Fin m) R}
    (h : LocalOn S A) (hs : S ⊆ S') : LocalOn S' A := by
  intro i j hij
  apply h i j
  rcases hij with hi | hj
  · exact Or.inl fun hm => hi (hs hm)
  · exact Or.inr fun hm => hj (hs hm)

theorem localOn_one [Zero R] [One R] {m : ℕ} (S : List ℕ) : LocalOn S (1 : Matrix (Fin m) (Fin m) R) :=
  fun _ _ _ => Matrix.one_apply

/-- the product of two local circuits is local on the union of the supports -/
theorem LocalOn.mul [CommRing R] {m : ℕ} {SA SB : List ℕ} {A B : Matrix (Fin m) (Fin m) R}
    (hA : LocalOn SA A) (hB : LocalOn SB B) : LocalOn (SA ++ SB) (B * A) := by
  intro i j hij
  rw [Matrix.mul_apply]
  rcases hij with hi | hj
  · have hiA : i.val ∉ SA := fun h => hi (List.mem_append_left _ h)
    have hiB : i.val ∉ SB := fun h => hi (List.mem_append_right _ h)
    rw [Finset.sum_eq_single i]
    · rw [hB i i (Or.inl hiB), if_pos rfl, one_mul, hA i j (Or.inl hiA)]
    · intro k _ hk
      rw [hB i k (Or.inl hiB), if_neg (Ne.symm hk), zero_mul]
    · intro h; exact absurd (Finset.mem_univ i) h
  · have hjA : j.val ∉ SA := fun h => hj (List.mem_append_left _ h)
    have hjB : j.val ∉ SB := fun h => hj (List.mem_append_right _ h)
    rw [Finset.sum_eq_single j]
    · rw [hA j j (Or.inr hjA), if_pos rfl, mul_one, hB i j (Or.inr hjB)]
    · intro k _ hk
      rw [hA k j (Or.inr hjA), if_neg hk, mul_zero]
    · intro h; exact absurd (Finset.mem_univ j) h

open PM.FockComp in
/-- **spectators**: an amplitude of a circuit that is the identity outside `S` is non-zero only between
states with the same photon count on every mode outside `S` -/
theorem pamp_local_eq [CommRing R] {m : ℕ} {S : List ℕ} {A : Matrix (Fin m) (Fin m) R}
    (hA : LocalOn S A) (s t : List ℕ) (hs : s.length = m) (ht : t.length = m)
    (hne : pamp A s t ≠ 0) (k : ℕ) (hk : k ∉ S) : t.getD k 0 = s.getD k 0 := by
  by_cases hkm : k < m
  · have hst : s.sum = t.sum := by
      by_contra h
      exact hne (PM.C02.pamp_zero_of_sum_ne A s t h)
    rw [pamp_eq A s t hs ht rfl hst.symm] at hne
    unfold Matrix.permanent at hne
    obtain ⟨σ, _, hσ⟩ := Finset.exists_ne_zero_of_sum_ne_zero hne
    have hfac : ∀ i, A (modes t ht hst.symm (σ i)) (modes s hs rfl i) ≠ 0 := by
      intro i h0
      apply hσ
      exact Finset.prod_eq_zero (Finset.mem_univ i) (by simpa [Matrix.submatrix_apply] using h0)
    have hocc : occ (modes s hs rfl) ⟨k, hkm⟩ = occ (modes t ht hst.symm) ⟨k, hkm⟩ := by
      unfold occ
      apply Fintype.card_congr
      refine σ.subtypeEquiv fun i => ?_
      have h1 := hfac i
      constructor
      · intro hi
        by_contra hcon
        apply h1
        rw [hA _ _ (Or.inr (by rw [hi]; exact hk)), if_neg]
        intro heq
        exact hcon (by rw [heq, hi])
      · intro hi
        by_contra hcon
        apply h1
        rw [hA _ _ (Or.inl (by rw [hi]; exact hk)), if_neg]
        intro heq
        exact hcon (by rw [← heq, hi])
    rw [occ_modes, occ_modes] at hocc
    exact hocc.symm
  · rw [List.getD_eq_default _ _ (by omega), List.getD_eq_default _ _ (by omega)]

theorem heraldsOk_iff (hs : List (ℕ × ℕ)) (t : List ℕ) :
    heraldsOk hs t = true ↔ ∀ h ∈ hs, t.getD h.1 0 = h.2 := by
  unfold heraldsOk
  rw [List.all_eq_true]
  exact forall₂_congr fun _ _ => beq_iff_eq

/-- **heralds are enforced at the intermediate step**: if every herald mode is outside the support of `A`
or outside the support of `B`, an intermediate state that contributes to `⟨t|B·A|s⟩` between two
herald-satisfying states satisfies every herald -/
theorem heraldsOk_mid [CommRing R] {m : ℕ} {SA SB : List ℕ} {A B : Matrix (Fin m) (Fin m) R}
    (hA : LocalOn SA A) (hB : LocalOn SB B) (hs : List (ℕ × ℕ))
    (hher : ∀ h ∈ hs, h.1 ∉ SA ∨ h.1 ∉ SB) (s t u : List ℕ)
    (hsl : s.length = m) (htl : t.length = m) (hul : u.length = m)
    (hsok : heraldsOk hs s = true) (htok : heraldsOk hs t = true)
    (hne : pamp B u t * pamp A s u ≠ 0) : heraldsOk hs u = true := by
  rw [heraldsOk_iff] at hsok htok ⊢
  intro h hh
  rcases hher h hh with hnA | hnB
  · rw [pamp_local_eq hA s u hsl hul (right_ne_zero_of_mul hne) h.1 hnA]
    exact hsok h hh
  · rw [← pamp_local_eq hB u t hul htl (left_ne_zero_of_mul hne) h.1 hnB]
    exact htok h hh

/-! ### heralded gates (zero leakage given the heralds) compose -/

/-- `A` is a *heralded* implementation on the layout: from a logical state it reaches no herald-satisfying
state that is not logical (the model's `leak` with no post-selection is zero) -/
def NoLeak [CommRing R] (L : Layout) (A : Matrix (Fin L.m) (Fin L.m) R) : Prop :=
  ∀ bi : List Bool, bi.length = L.qubits.length → ∀ u : List ℕ, u.length = L.m →
    heraldsOk L.heralds u = true → isLogical L u = false → pamp A (encode L bi) u = 0

/-- the side condition the converter relies on for heralded gates: supports `SA`, `SB` outside which the
circuits are the identity, and no herald mode shared by the two supports -/
structure Separated [CommRing R] (L : Layout) (SA SB : List ℕ) (A B : Matrix (Fin L.m) (Fin L.m) R) : Prop where
  localA : LocalOn SA A
  localB : LocalOn SB B
  heralds : ∀ h ∈ L.heralds, h.1 ∉ SA ∨ h.1 ∉ SB

/-- with separated heralds, the only intermediate states that matter are the herald-satisfying ones; if the
first circuit is heralded (`NoLeak`) the leak-and-return term vanishes whatever the second circuit is -/
theorem noLeakReturn_of_noLeak [CommRing R] [NoZeroDivisors R] (L : Layout) (hok : L.ok = true) {SA SB : List ℕ}
    {A B : Matrix (Fin L.m) (Fin L.m) R} (hsep : Separated L SA SB A B) (hA : NoLeak L A)
    (bo bi : List Bool) (hbo : bo.length = L.qubits.length) (hbi : bi.length = L.qubits.length) :
    NoLeakReturn L A B bo bi := by
  intro u hu hnu
  by_contra hne
  obtain ⟨hul, _⟩ := (mem_allStates_iff _ _ u).1 hu
  have hmid := heraldsOk_mid hsep.localA hsep.localB L.heralds hsep.heralds (encode L bi) (encode L bo) u
    (encode_length L bi) (encode_length L bo) hul (encode_heraldsOk L hok bi hbi)
    (encode_heraldsOk L hok bo hbo) hne
  have hlog : isLogical L u = false := by
    by_contra hl
    exact hnu ((isEnc_iff L hok u).2 ⟨hul, hmid, by simpa using hl⟩)
  exact hne (by rw [hA bi hbi u hul hmid hlog, mul_zero])

/-- the general form: it is enough to check the leak-and-return condition on the herald-satisfying
non-logical intermediate states (this is the condition a *post-processed* gate followed by `B` must meet:
what it leaks into states with two photons in one qubit pair must not be brought back by `B`) -/
theorem noLeakReturn_of_separated [CommRing R] [NoZeroDivisors R] (L : Layout) (hok : L.ok = true)
    {SA SB : List ℕ} {A B : Matrix (Fin L.m) (Fin L.m) R} (hsep : Separated L SA SB A B)
    (bo bi : List Bool) (hbo : bo.length = L.qubits.length) (hbi : bi.length = L.qubits.length)
    (h : ∀ u : List ℕ, u.length = L.m → heraldsOk L.heralds u = true → isLogical L u = false →
      pamp B u (encode L bo) * pamp A (encode L bi) u = 0) :
    NoLeakReturn L A B bo bi := by
  intro u hu hnu
  by_contra hne
  obtain ⟨hul, _⟩ := (mem_allStates_iff _ _ u).1 hu
  have hmid := heraldsOk_mid hsep.localA hsep.localB L.heralds hsep.heralds (encode L bi) (encode L bo) u
    (encode_length L bi) (encode_length L bo) hul (encode_heraldsOk L hok bi hbi)
    (encode_heraldsOk L hok bo hbo) hne
  have hlog : isLogical L u = false := by
    by_contra hl
    exact hnu ((isEnc_iff L hok u).2 ⟨hul, hmid, by simpa using hl⟩)
  exact hne (h u hul hmid hlog)

/-- **heralded gates compose to a heralded gate**: zero leakage is inherited by the product -/
theorem NoLeak.comp [Field R] [CharZero R] (L : Layout) (hok : L.ok = true) {SA SB : List ℕ}
    {A B : Matrix (Fin L.m) (Fin L.m) R} (hsep : Separated L SA SB A B) (hA : NoLeak L A)
    (hB : NoLeak L B) : NoLeak L (B * A) := by
  intro bi hbi t htl htok htlog
  by_cases hsum : (encode L bi).sum = t.sum
  · rw [PM.C02.fock_comp B A (encode L bi) t (encode_length L bi) htl hsum]
    apply List.sum_eq_zero
    intro x hx
    obtain ⟨u, hu, rfl⟩ := List.mem_map.1 hx
    obtain ⟨hul, _⟩ := (mem_allStates_iff _ _ u).1 hu
    by_contra hne
    have hne' : pamp B u t * pamp A (encode L bi) u ≠ 0 := by
      intro h0; exact hne (by rw [h0, zero_div])
    have hmid := heraldsOk_mid hsep.localA hsep.localB L.heralds hsep.heralds (encode L bi) t u
      (encode_length L bi) htl hul (encode_heraldsOk L hok bi hbi) htok hne'
    by_cases hl : isLogical L u = true
    · obtain ⟨bu, hbu, rfl⟩ := exists_bits_of_logical L hok u hul hmid hl
      exact hne' (by rw [hB bu hbu t htl htok htlog, zero_mul])
    · exact hne' (by rw [hA bi hbi u hul hmid (by simpa using hl), mul_zero])
  · exact PM.C02.pamp_zero_of_sum_ne _ _ _ hsum

/-! ### implementations compose: the scalars multiply -/

/-- **Fock-space composition of implementations**: if `A` implements `G` with scalar `c` (its own
post-selection `psA` accepting every logical state) and `B` implements `H` with scalar `d`, and nothing leaks
and returns, then `B·A` implements `H·G` with scalar `d·c / ∏hᵢ!` -/
theorem implements_fock_comp [Field R] [CharZero R] (L : Layout) (hok : L.ok = true)
    (A B : Matrix (Fin L.m) (Fin L.m) R) (ps psA : PS)
    {G H : Matrix (Fin (basis L.qubits.length).length) (Fin (basis L.qubits.length).length) R} {c d : R}
    (hA : gateTable A L psA = c • G) (hB : gateTable B L ps = d • H)
    (hpsA : ∀ b : List Bool, b.length = L.qubits.length → psA.eval (encode L b) = true)
    (hleak : ∀ bo bi : List Bool, bo.length = L.qubits.length → bi.length = L.qubits.length →
      ps.eval (encode L bo) = true → NoLeakReturn L A B bo bi) :
    gateTable (B * A) L ps = ((heraldFact L : R)⁻¹ * (d * c)) • (H * G) := by
  rw [gateTable_comp L hok A B ps hleak, ← gateTable_ps_irrelevant L A psA hpsA, hA, hB,
    Matrix.smul_mul, Matrix.mul_smul, smul_smul, smul_smul, mul_assoc]

/-- the identity circuit: logical table `∏hᵢ! • 1` -/
theorem gateTable_one [CommRing R] (L : Layout) (hok : L.ok = true) (ps : PS)
    (hps : ∀ b : List Bool, b.length = L.qubits.length → ps.eval (encode L b) = true) :
    gateTable (1 : Matrix (Fin L.m) (Fin L.m) R) L ps = (heraldFact L : R) • 1 := by
  ext i j
  have hi := getD_basis_length _ i
  have hj := getD_basis_length _ j
  simp only [gateTable, gateAmp, hps _ hi, if_true, Matrix.smul_apply, Matrix.one_apply, smul_eq_mul]
  rw [PM.C02.pamp_identity _ _ (encode_length L _) (encode_length L _)
    (by rw [encode_sum L hok _ hi, encode_sum L hok _ hj])]
  by_cases hij : i = j
  · subst hij
    rw [if_pos rfl, if_pos rfl, mul_one, encode_prodFact L hok _ hi]
  · rw [if_neg hij, mul_zero, if_neg]
    intro he
    apply hij
    have hb := encode_injective L hok _ _ hi hj he
    rw [List.getD_eq_getElem?_getD, List.getD_eq_getElem?_getD, List.getElem?_eq_getElem i.isLt,
      List.getElem?_eq_getElem j.isLt, Option.getD_some, Option.getD_some] at hb
    exact Fin.ext ((basis_nodup _).getElem_inj_iff.1 hb)

theorem noLeak_one [CommRing R] (L : Layout) (hok : L.ok = true) :
    NoLeak L (1 : Matrix (Fin L.m) (Fin L.m) R) := by
  intro bi hbi u hul _ hlog
  apply PM.FockComp.pamp_one_of_ne _ _ (encode_length L bi) hul
  intro he
  rw [he, encode_isLogical L hok bi hbi] at hlog
  exact absurd hlog (by simp)

/-- one heralded gate of a converted circuit: its support, its matrix on all the modes, the logical gate it
implements and the scalar -/
structure GateImpl (L : Layout) (R : Type*) where
  S : List ℕ
  U : Matrix (Fin L.m) (Fin L.m) R
  G : Matrix (Fin (basis L.qubits.length).length) (Fin (basis L.qubits.length).length) R
  c : R

/-- local on its support, heralded (no leakage), and its logical table is `c • G` -/
def GateImpl.Ok [CommRing R] {L : Layout} (g : GateImpl L R) (ps : PS) : Prop :=
  LocalOn g.S g.U ∧ NoLeak L g.U ∧ gateTable g.U L ps = g.c • g.G

theorem heralded_circuit_aux [Field R] [CharZero R] (L : Layout) (hok : L.ok = true)
    (hh : ∀ p ∈ L.heralds, p.2 ≤ 1) (ps : PS)
    (hps : ∀ b : List Bool, b.length = L.qubits.length → ps.eval (encode L b) = true) :
    ∀ (gs : List (GateImpl L R)) (SM : List ℕ) (M : Matrix (Fin L.m) (Fin L.m) R)
      (GM : Matrix (Fin (basis L.qubits.length).length) (Fin (basis L.qubits.length).length) R) (cM : R),
      LocalOn SM M → NoLeak L M → gateTable M L ps = cM • GM →
      (∀ g ∈ gs, g.Ok ps) →
      gs.Pairwise (fun g g' => ∀ h ∈ L.heralds, h.1 ∉ g.S ∨ h.1 ∉ g'.S) →
      (∀ g ∈ gs, ∀ h ∈ L.heralds, h.1 ∉ SM ∨ h.1 ∉ g.S) →
      gateTable ((gs.map (·.U)).foldl (fun M A => A * M) M) L ps =
          (cM * (gs.map (·.c)).prod) • gs.foldl (fun M g => g.G * M) GM ∧
        NoLeak L ((gs.map (·.U)).foldl (fun M A => A * M) M)
  | [], SM, M, GM, cM, _, hN, hT, _, _, _ => by
    simp only [List.map_nil, List.foldl_nil, List.prod_nil, mul_one]
    exact ⟨hT, hN⟩
  | g :: gs, SM, M, GM, cM, hL, hN, hT, hg, hp, hM => by
    obtain ⟨gL, gN, gT⟩ := hg g List.mem_cons_self
    have hsep : Separated L SM g.S M g.U := ⟨hL, gL, hM g List.mem_cons_self⟩
    have hT' : gateTable (g.U * M) L ps = (g.c * cM) • (g.G * GM) := by
      have := implements_fock_comp L hok M g.U ps ps hT gT hps
        (fun bo bi hbo hbi _ => noLeakReturn_of_noLeak L hok hsep hN bo bi hbo hbi)
      rw [this, heraldFact_eq_one L hh, Nat.cast_one, inv_one, one_mul]
    have hp' := List.pairwise_cons.1 hp
    have := heralded_circuit_aux L hok hh ps hps gs (SM ++ g.S) (g.U * M) (g.G * GM) (g.c * cM)
      (hL.mul gL) (NoLeak.comp L hok hsep hN gN) hT'
      (fun g' hg' => hg g' (List.mem_cons_of_mem _ hg')) hp'.2
      (fun g' hg' h hh' => by
        rcases hM g' (List.mem_cons_of_mem _ hg') h hh' with h1 | h2
        · rcases hp'.1 g' hg' h hh' with h3 | h4
          · exact Or.inl fun hm => (List.mem_append.1 hm).elim h1 h3
          · exact Or.inr h4
        · exact Or.inr h2)
    simp only [List.map_cons, List.foldl_cons, List.prod_cons]
    rw [show cM * (g.c * (gs.map (·.c)).prod) = g.c * cM * (gs.map (·.c)).prod by ring]
    exact this

/-- **a circuit of heralded gates implements the product of its gates**: every gate local on its support,
heralded (zero leakage given the heralds), implementing `Gₖ` with scalar `cₖ`; no herald mode shared by two
supports; herald values `0`/`1`.  Then the whole circuit (`PM.C02.circuitMatrix`: each component multiplies on
the left) has the logical table `(∏ cₖ) • (Gₙ ⋯ G₁)` and is again heralded. -/
theorem heralded_circuit_implements [Field R] [CharZero R] (L : Layout) (hok : L.ok = true)
    (hh : ∀ p ∈ L.heralds, p.2 ≤ 1) (ps : PS)
    (hps : ∀ b : List Bool, b.length = L.qubits.length → ps.eval (encode L b) = true)
    (gs : List (GateImpl L R)) (hg : ∀ g ∈ gs, g.Ok ps)
    (hp : gs.Pairwise (fun g g' => ∀ h ∈ L.heralds, h.1 ∉ g.S ∨ h.1 ∉ g'.S)) :
    gateTable (PM.C02.circuitMatrix (gs.map (·.U))) L ps =
        ((gs.map (·.c)).prod) • gs.foldl (fun M g => g.G * M) 1 ∧
      NoLeak L (PM.C02.circuitMatrix (gs.map (·.U))) := by
  have h1 : gateTable (1 : Matrix (Fin L.m) (Fin L.m) R) L ps = (1 : R) • 1 := by
    rw [gateTable_one L hok ps hps, heraldFact_eq_one L hh, Nat.cast_one]
  have := heralded_circuit_aux L hok hh ps hps gs [] 1 1 1 (localOn_one []) (noLeak_one L hok) h1 hg hp
    (fun _ _ _ _ => Or.inl (by simp))
  rw [one_mul] at this
  exact this

/-! ### the two photon-number facts behind "what a post-processed CNOT leaks is not brought back"
    (one step of the argument; the global statement for a forest of post-processed CNOTs is NOT proved) -/

theorem sum_fin_getD (t : List ℕ) {m : ℕ} (ht : t.length = m) : ∑ k : Fin m, t.getD k.val 0 = t.sum := by
  subst ht
  have h := Fin.sum_univ_fun_getElem t id
  rw [List.map_id] at h
  rw [← h]
  refine Finset.sum_congr rfl fun k _ => ?_
  rw [List.getD_eq_getElem?_getD, List.getElem?_eq_getElem k.isLt, Option.getD_some]
  rfl

/-- a circuit that is the identity outside `S` conserves the number of photons on the modes of `S` -/
theorem pamp_local_count [CommRing R] {m : ℕ} {S : List ℕ} {B : Matrix (Fin m) (Fin m) R}
    (hB : LocalOn S B) (u t : List ℕ) (hu : u.length = m) (ht : t.length = m) (hne : pamp B u t ≠ 0) :
    ∑ k : Fin m with k.val ∈ S, t.getD k.val 0 = ∑ k : Fin m with k.val ∈ S, u.getD k.val 0 := by
  have hsum : u.sum = t.sum := by
    by_contra h
    exact hne (PM.C02.pamp_zero_of_sum_ne B u t h)
  have hout : ∑ k : Fin m with ¬ k.val ∈ S, t.getD k.val 0 = ∑ k : Fin m with ¬ k.val ∈ S, u.getD k.val 0 := by
    refine Finset.sum_congr rfl fun k hk => ?_
    exact pamp_local_eq hB u t hu ht hne k.val (Finset.mem_filter.1 hk).2
  have h1 := Finset.sum_filter_add_sum_filter_not (Finset.univ : Finset (Fin m)) (fun k => k.val ∈ S)
    (fun k => t.getD k.val 0)
  have h2 := Finset.sum_filter_add_sum_filter_not (Finset.univ : Finset (Fin m)) (fun k => k.val ∈ S)
    (fun k => u.getD k.val 0)
  rw [sum_fin_getD t ht] at h1
  rw [sum_fin_getD u hu] at h2
  omega

/-- a non-logical qubit pair that the second circuit does not touch stays non-logical: such an intermediate
state is never brought back to a logical output -/
theorem pamp_zero_of_spectator_pair [CommRing R] (L : Layout) {S : List ℕ} {B : Matrix (Fin L.m) (Fin L.m) R}
    (hB : LocalOn S B) (u t : List ℕ) (hu : u.length = L.m) (ht : t.length = L.m)
    (htl : isLogical L t = true) (p : ℕ) (hp : p ∈ L.qubits) (h1 : p ∉ S) (h2 : p + 1 ∉ S)
    (hbad : u.getD p 0 + u.getD (p + 1) 0 ≠ 1) : pamp B u t = 0 := by
  by_contra hne
  apply hbad
  rw [← pamp_local_eq hB u t hu ht hne p h1, ← pamp_local_eq hB u t hu ht hne (p + 1) h2]
  unfold isLogical pairCounts at htl
  rw [List.all_eq_true] at htl
  exact beq_iff_eq.1 (htl _ (List.mem_map_of_mem hp))

end PM.C20
