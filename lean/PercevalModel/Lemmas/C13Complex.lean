/-
  C13 — the one analytic fact needed to instantiate the generic-ring theorems at `ℂ`.
-/
import Mathlib.Analysis.SpecialFunctions.Trigonometric.Basic

namespace PM.C13

theorem cos_sq_add_sin_sq_C (x : ℝ) :
    (Real.cos x : ℂ) * (Real.cos x : ℂ) + (Real.sin x : ℂ) * (Real.sin x : ℂ) = 1 := by
  have := Real.cos_sq_add_sin_sq x
  exact_mod_cast (by nlinarith : Real.cos x * Real.cos x + Real.sin x * Real.sin x = 1)

end PM.C13
