/-
  C16 — more helper lemmas (model: `Model/C16.lean`).  Core Lean only.

  * photon number of a full-size state = photons on the modes of interest + photons on the herald modes;
  * `InputFresh`: the stored input carries every herald's photon count on the herald's mode — who
    establishes it, who keeps it;
  * `_handle_params`: which of the two loops takes a keyword, and what the other loop leaves alone.
-/
import PercevalModel.Lemmas.C16

namespace PM.C16
open PM.SM

/-! ### photons on the herald modes of a full-size state -/

/-- photons of `t` (its head is mode `k`) sitting on the modes listed in `L` -/
def onModes (L : List Nat) : Nat → List Nat → Nat
  | _, [] => 0
  | k, x :: xs => (if L.contains k then x else 0) + onModes L (k + 1) xs

/-- `remove_modes` splits the photon number: what is kept + what sat on the removed modes -/
theorem removeModes_sum (L : List Nat) (k : Nat) (t : List Nat) :
    (removeModes L k t).sum + onModes L k t = t.sum := by
  induction t generalizing k with
  | nil => rfl
  | cons x xs ih =>
    have := ih (k + 1)
    simp only [removeModes, onModes]
    by_cases hc : L.contains k = true
    · simp only [hc, if_true, List.sum_cons]; omega
    · simp only [hc, Bool.false_eq_true, if_false, List.sum_cons]; omega

theorem onModes_nil (k : Nat) (t : List Nat) : onModes [] k t = 0 := by
  induction t generalizing k with
  | nil => rfl
  | cons x xs ih => simp [onModes, ih]

/-- one more mode in the list: its photons are added, once -/
theorem onModes_cons (a : Nat) (L : List Nat) (k : Nat) (t : List Nat) :
    onModes (a :: L) k t =
      (if L.contains a then 0 else if k ≤ a then (t[a - k]?).getD 0 else 0) + onModes L k t := by
  induction t generalizing k with
  | nil =>
    simp only [onModes, List.getElem?_nil, Option.getD_none]
    split
    · rfl
    · split <;> rfl
  | cons x xs ih =>
    have ih' := ih (k + 1)
    simp only [onModes]
    rw [ih']
    simp only [List.contains_iff_mem, List.mem_cons]
    by_cases hka : k = a
    · subst hka
      have h0 : ¬ (k + 1 ≤ k) := by omega
      by_cases hL : k ∈ L <;> simp [hL, h0]
    · by_cases hL : a ∈ L
      · simp [hL, hka]
      · by_cases hle : k ≤ a
        · have h1 : k + 1 ≤ a := by omega
          have h2 : a - k = (a - (k + 1)) + 1 := by omega
          simp only [hL, if_false, hle, h1, if_true, h2, List.getElem?_cons_succ, hka, false_or]
          omega
        · have h1 : ¬ (k + 1 ≤ a) := by omega
          simp only [hL, if_false, hle, h1, hka, false_or]
          omega

/-- a state that carries every herald's value on the herald's mode has exactly the herald photons on
the herald modes (herald modes distinct) -/
theorem onModes_heralds (h : List (Nat × Nat)) (k : Nat) (t : List Nat) (hn : (h.map (·.1)).Nodup)
    (hk : ∀ a v, (a, v) ∈ h → k ≤ a ∧ t[a - k]? = some v) :
    onModes (h.map (·.1)) k t = (h.map (·.2)).sum := by
  induction h with
  | nil => exact onModes_nil k t
  | cons hd tl ih =>
    obtain ⟨a, v⟩ := hd
    simp only [List.map_cons, List.nodup_cons] at hn
    obtain ⟨h1, h2⟩ := hk a v (by simp)
    have hc : (tl.map (·.1)).contains a = false := by simpa using hn.1
    simp only [List.map_cons, onModes_cons, hc, Bool.false_eq_true, if_false, h1, if_true, h2,
      Option.getD_some, List.sum_cons]
    rw [ih hn.2 (fun a' v' hm => hk a' v' (List.mem_cons_of_mem _ hm))]

/-- `n_user + n_heralds` is the photon number of the full-size state, as soon as that state carries the
heralds' values on the heralds' modes -/
theorem user_plus_heralds (h : List (Nat × Nat)) (t : List Nat) (hn : (h.map (·.1)).Nodup)
    (hh : ∀ k v, (k, v) ∈ h → t[k]? = some v) :
    (removeModes (h.map (·.1)) 0 t).sum + (h.map (·.2)).sum = t.sum := by
  rw [← onModes_heralds h 0 t hn (fun a v hm => ⟨Nat.zero_le _, by simpa using hh a v hm⟩)]
  exact removeModes_sum _ 0 t

/-! ### `InputFresh`: the stored input state is up to date with the heralds -/

/-- the stored input state (if any) carries every herald's expected photon count on the herald's mode -/
def InputFresh (e : Exp) : Prop :=
  ∀ t, e.input = some t → ∀ k v, (k, v) ∈ e.heralds → t[k]? = some v

instance (e : Exp) : Decidable (InputFresh e) := by
  unfold InputFresh
  cases h : e.input with
  | none => exact isTrue (fun t ht => by cases ht)
  | some t0 =>
    exact decidable_of_iff (∀ kv ∈ e.heralds, t0[kv.1]? = some kv.2)
      ⟨fun hh t ht k v hkv => by cases ht; exact hh (k, v) hkv,
       fun hh kv hkv => hh t0 rfl kv.1 kv.2 hkv⟩

def World.FreshInv (w : World) : Prop := ∀ e, w.exp = some e → InputFresh e

/-- `add_herald` — the one operation that can leave a stored input state behind the heralds -/
def Op.isAddHerald : Op → Bool
  | .addHerald _ _ => true
  | _ => false

theorem inputField_some (e : Exp) (il : Bool) (t : List Nat) (h : inputField e il = some t) : e.input = some t := by
  unfold inputField at h
  split at h
  · split at h
    · cases h; assumption
    · cases h
  · cases h

/-- `with_input` on a well-formed experiment stores a state that is up to date with the heralds -/
theorem withInput_fresh (e e' : Exp) (h : e.WF) (s : List Nat) (hw : withInput e s = .ok e') : InputFresh e' := by
  by_cases hs : s.length = e.m
  · rw [withInput_ok e s hs] at hw
    cases hw
    intro t ht k v hkv
    simp only [Option.some.injEq] at ht
    subst ht
    exact (merge_spec e h s hs).2.2 k v hkv
  · rw [withInput_err e s hs] at hw; cases hw

theorem fromLocal_fresh (fixed : Bool) (p e : Exp) (h : fromLocal fixed p = .ok e) : InputFresh e := by
  rw [fromLocal_eq] at h
  split at h
  · cases h; intro t ht; cases ht
  · exact withInput_fresh _ _ (convBase_wf p) _ h

theorem onExp_fresh (w : World) (f : Exp → Res Exp)
    (hf : ∀ e e', e.WF → InputFresh e → f e = .ok e' → InputFresh e') (hw : w.WFInv) (hfr : w.FreshInv) :
    (onExp w f).1.FreshInv := by
  unfold onExp
  split
  · exact hfr
  · rename_i e he
    split
    · exact hfr
    · rename_i e' hfe
      intro e2 h2
      simp only [Option.some.injEq] at h2
      subst h2
      exact hf e e' (hw e he) (hfr e he) hfe

/-- every operation other than `add_herald` keeps the stored input up to date with the heralds -/
theorem step_fresh (w : World) (op : Op) (hop : op.isAddHerald = false) (hw : w.WFInv) (hfr : w.FreshInv) :
    (step w op).1.FreshInv := by
  cases op with
  | addHerald mode ex => simp [Op.isAddHerald] at hop
  | newRemote via m circ cps noise =>
    simp only [step]
    split
    · exact hfr
    · rename_i e he
      intro e2 h2
      simp only [Option.some.injEq] at h2
      subst h2
      unfold newRemote at he
      simp only at he
      split at he
      · cases he
      · split at he
        · split at he
          · cases he
          · cases he; intro t ht; cases ht
        · cases he; intro t ht; cases ht
  | convert fixed p =>
    simp only [step]
    split
    · exact hfr
    · split
      · exact hfr
      · rename_i e he
        intro e2 h2
        simp only [Option.some.injEq] at h2
        subst h2
        exact fromLocal_fresh fixed p _ he
  | withInput s => simp only [step]; exact onExp_fresh _ _ (fun e e' he _ hf => withInput_fresh e e' he s hf) hw hfr
  | setFilter n =>
    simp only [step]; apply onExp_fresh _ _ _ hw hfr
    intro e e' _ hfe hf; cases hf; exact hfe
  | setPost p =>
    simp only [step]; apply onExp_fresh _ _ _ hw hfr
    intro e e' _ hfe hf; cases hf; exact hfe
  | setNoise n =>
    simp only [step]; apply onExp_fresh _ _ _ hw hfr
    intro e e' _ hfe hf; cases hf; exact hfe
  | setParam k v =>
    simp only [step]; apply onExp_fresh _ _ _ hw hfr
    intro e e' _ hfe hf; cases hf; exact hfe
  | clearParams =>
    simp only [step]; apply onExp_fresh _ _ _ hw hfr
    intro e e' _ hfe hf; cases hf; exact hfe
  | setCircuit checked sz circ cps =>
    simp only [step]; apply onExp_fresh _ _ _ hw hfr
    intro e e' _ hfe hf
    split at hf
    · cases hf
    · unfold setCircuit at hf
      split at hf
      · cases hf
      · split at hf
        · cases hf
        · cases hf; exact hfe
  | retune circ =>
    simp only [step]; apply onExp_fresh _ _ _ hw hfr
    intro e e' _ hfe hf; cases hf; exact hfe
  | addComponent circ cps =>
    simp only [step]; apply onExp_fresh _ _ _ hw hfr
    intro e e' _ hfe hf
    split at hf
    · cases hf
    · cases hf; exact hfe
  | prepare cmd cl il kw =>
    simp only [step]
    split
    · exact hfr
    · rename_i e he
      have h1 := preparePayload_fst w.pf e cmd cl il kw
      have hfresh : InputFresh (preparePayload w.pf e cmd cl il kw).1 := by
        rcases h1 with h1 | h1 <;> rw [h1]
        · exact hfr e he
        · exact hfr e he
      split <;> (rename_i e' _ hp; rw [hp] at hfresh; intro e2 h2; simp only [Option.some.injEq] at h2; subst h2; exact hfresh)
  | newSampler ms =>
    simp only [step]
    split
    · exact hfr
    · split <;> exact hfr
  | addIterations its =>
    simp only [step]
    split
    · split <;> exact hfr
    · exact hfr
  | clearIterations => simp only [step]; split <;> exact hfr
  | createJob method =>
    simp only [step]
    split
    · rename_i e s he hs
      have h1 := createJob_fst w.pf e s method
      have hfresh : InputFresh (createJob w.pf e s method).1 := by
        rcases h1 with h1 | h1 <;> rw [h1]
        · exact hfr e he
        · exact hfr e he
      split <;> (rename_i e' _ hp; rw [hp] at hfresh; intro e2 h2; simp only [Option.some.injEq] at h2; subst h2; exact hfresh)
    · exact hfr
  | execute idx args kw net =>
    rcases step_execute w idx args kw net with ⟨-, h⟩ | ⟨j, its, -, -, h⟩ | ⟨j, its, err, -, -, -, h⟩ | ⟨j, its, pl, -, -, -, h⟩ <;>
      (rw [h]; exact hfr)

/-- well-formedness and freshness together, over every history without `add_herald` -/
theorem exec_fresh (w : World) (ops : List Op) (hops : ∀ op ∈ ops, op.isAddHerald = false)
    (hw : w.WFInv) (hfr : w.FreshInv) : (exec step w ops).WFInv ∧ (exec step w ops).FreshInv := by
  induction ops generalizing w with
  | nil => exact ⟨hw, hfr⟩
  | cons op ops ih =>
    rw [exec_cons]
    exact ih _ (fun o ho => hops o (List.mem_cons_of_mem _ ho)) (step_wf w op hw)
      (step_fresh w op (hops op (by simp)) hw hfr)

/-- a successful `with_input` makes the stored input fresh, whatever it was before -/
theorem step_withInput_fresh (w : World) (s : List Nat) (hw : w.WFInv)
    (hd : (step w (.withInput s)).2 = .done) : (step w (.withInput s)).1.FreshInv := by
  simp only [step, onExp] at hd ⊢
  split at hd
  · cases hd
  · rename_i e he
    split at hd
    · cases hd
    · rename_i e' hfe
      intro e2 h2
      simp only [Option.some.injEq] at h2
      subst h2
      exact withInput_fresh e e' (hw e he) s hfe

/-- the platform of a session never changes -/
theorem step_pf (w : World) (op : Op) : (step w op).1.pf = w.pf := by
  cases hx : op.isExecute with
  | false => exact (step_frame w op hx).2.2.1
  | true =>
    cases op with
    | execute idx args kw net =>
      rcases step_execute w idx args kw net with ⟨-, h⟩ | ⟨j, its, -, -, h⟩ | ⟨j, its, err, -, -, -, h⟩ |
          ⟨j, its, pl, -, -, -, h⟩ <;> rw [h]
    | _ => cases hx

theorem exec_pf (w : World) (ops : List Op) : (exec step w ops).pf = w.pf :=
  inv_exec step (fun x => x.pf = w.pf) (fun s op hs => by rw [step_pf]; exact hs) w rfl ops

theorem exec_wf (w : World) (ops : List Op) (hw : w.WFInv) : (exec step w ops).WFInv :=
  inv_exec step World.WFInv step_wf w hw ops

/-! ### `_handle_params`: who takes a keyword -/

/-- the entries of a dictionary under the key `k`, in order -/
def atKey {α : Type} (d : Dict α) (k : String) : Dict α := d.filter (fun e => decide (e.1 = k))

theorem mem_atKey {α : Type} (d : Dict α) (k : String) (x : α) : (k, x) ∈ atKey d k ↔ (k, x) ∈ d := by
  simp [atKey, List.mem_filter]

theorem mem_of_atKey_eq {α : Type} (d d' : Dict α) (k : String) (h : atKey d k = atKey d' k) (x : α) :
    (k, x) ∈ d ↔ (k, x) ∈ d' := by
  rw [← mem_atKey d, ← mem_atKey d', h]

theorem dget_atKey {α : Type} (d : Dict α) (k : String) : dget (atKey d k) k = dget d k := by
  induction d with
  | nil => rfl
  | cons hd t ih =>
    obtain ⟨a, b⟩ := hd
    by_cases h : a = k
    · simp [atKey, dget, h]
    · simp only [atKey, List.filter_cons, h, decide_false, Bool.false_eq_true, if_false, dget]
      exact ih

theorem dget_of_atKey_eq {α : Type} (d d' : Dict α) (k : String) (h : atKey d k = atKey d' k) :
    dget d k = dget d' k := by
  rw [← dget_atKey d, ← dget_atKey d', h]

/-- `d[n] = a` leaves the entries under every other key alone -/
theorem atKey_dset_ne {α : Type} (d : Dict α) (n k : String) (a : α) (h : n ≠ k) :
    atKey (dset d n a) k = atKey d k := by
  induction d with
  | nil => simp [dset, atKey, h]
  | cons hd t ih =>
    obtain ⟨x, y⟩ := hd
    by_cases hx : x = n
    · subst hx; simp [dset, atKey, h]
    · simp only [dset, hx, if_false]
      simp only [atKey, List.filter_cons] at ih ⊢
      rw [ih]

/-- `fill` only ever deletes keywords -/
theorem fill_sub (d kw : Dict PV) (k : String) (v : PV) (h : dget (fill d kw).2 k = some v) : dget kw k = some v := by
  induction d generalizing kw with
  | nil => exact h
  | cons hd t ih =>
    obtain ⟨k0, v0⟩ := hd
    simp only [fill] at h
    split at h
    · have := ih _ h
      by_cases hk : k0 = k
      · subst hk; rw [dget_derase_self] at this; cases this
      · rwa [dget_derase_ne _ _ _ hk] at this
    · exact ih _ h

theorem fill_none_stays (d kw : Dict PV) (k : String) (h : dget kw k = none) : dget (fill d kw).2 k = none := by
  cases hh : dget (fill d kw).2 k with
  | none => rfl
  | some v => rw [fill_sub d kw k v hh] at h; cases h

/-- a keyword `k = v` is deleted by the loop over `d` exactly when `d` has an entry `k: None` -/
theorem fill_snd_dget (d kw : Dict PV) (k : String) (v : PV) (h : dget kw k = some v) :
    dget (fill d kw).2 k = if (k, PV.none) ∈ d then none else some v := by
  induction d generalizing kw with
  | nil => simpa [fill] using h
  | cons hd t ih =>
    obtain ⟨k0, v0⟩ := hd
    simp only [fill]
    split
    · rename_i x hv hx
      by_cases hk : k0 = k
      · subst hk
        simp only [List.mem_cons, true_or, if_true]
        exact fill_none_stays _ _ _ (dget_derase_self _ _)
      · rw [ih (derase kw k0) (by rw [dget_derase_ne _ _ _ hk]; exact h)]
        have : ((k, PV.none) ∈ (k0, PV.none) :: t) ↔ (k, PV.none) ∈ t := by
          simp [List.mem_cons, Ne.symm hk]
        simp only [this]
    · rename_i v1 _ _ hno
      show dget (fill t kw).2 k = _
      rw [ih kw h]
      have : ((k, PV.none) ∈ (k0, v1) :: t) ↔ (k, PV.none) ∈ t := by
        simp only [List.mem_cons, Prod.mk.injEq]
        constructor
        · intro hm
          rcases hm with ⟨h1, h2⟩ | hm
          · subst h1; subst h2
            exact absurd h (by intro h'; exact hno v rfl h')
          · exact hm
        · intro hm; exact Or.inr hm
      simp only [this]

/-- the loop over `d` leaves the entries under `k` alone when `k` is not a keyword (any more) or when
`d` has no entry `k: None` -/
theorem fill_atKey (d kw : Dict PV) (k : String) (h : (k, PV.none) ∉ d ∨ dget kw k = none) :
    atKey (fill d kw).1 k = atKey d k := by
  induction d generalizing kw with
  | nil => rfl
  | cons hd t ih =>
    obtain ⟨k0, v0⟩ := hd
    simp only [fill]
    split
    · rename_i x hv hx
      have hk : k0 ≠ k := by
        intro e; subst e
        rcases h with h | h
        · exact h (by simp)
        · rw [h] at hx; cases hx
      have ih' := ih (derase kw k0) (by
        rcases h with h | h
        · exact Or.inl (fun hm => h (List.mem_cons_of_mem _ hm))
        · exact Or.inr (by rw [dget_derase_ne _ _ _ hk]; exact h))
      simp only [atKey, List.filter_cons, hk, decide_false, Bool.false_eq_true, if_false] at ih' ⊢
      exact ih'
    · have ih' := ih kw (by
        rcases h with h | h
        · exact Or.inl (fun hm => h (List.mem_cons_of_mem _ hm))
        · exact Or.inr h)
      simp only [atKey, List.filter_cons] at ih' ⊢
      rw [ih']

/-- the positional loop never writes under a name that is also a keyword (it raises instead) -/
theorem bindPositional_atKey_kw (kw : Dict PV) (args : List PV) (names : List String) (cmd c : Dict PV)
    (h : bindPositional kw args names cmd = .ok c) (k : String) (hk : dget kw k ≠ none) :
    atKey c k = atKey cmd k := by
  induction args generalizing names cmd with
  | nil => simp only [bindPositional, pure, Except.pure, Except.ok.injEq] at h; subst h; rfl
  | cons a as ih =>
    cases names with
    | nil => simp [bindPositional, throw, throwThe, MonadExceptOf.throw] at h
    | cons n ns =>
      simp only [bindPositional] at h
      split at h
      · simp [throw, throwThe, MonadExceptOf.throw] at h
      · rename_i hkw
        have hn : n ≠ k := by
          intro e; subst e
          apply hk
          cases hd : dget kw n with
          | none => rfl
          | some _ => rw [hd] at hkw; simp at hkw
        rw [ih ns _ h, atKey_dset_ne _ _ _ _ hn]

/-- … nor under a name it does not bind -/
theorem bindPositional_atKey_other (kw : Dict PV) (args : List PV) (names : List String) (cmd c : Dict PV)
    (h : bindPositional kw args names cmd = .ok c) (k : String) (hk : k ∉ names.take args.length) :
    atKey c k = atKey cmd k := by
  induction args generalizing names cmd with
  | nil => simp only [bindPositional, pure, Except.pure, Except.ok.injEq] at h; subst h; rfl
  | cons a as ih =>
    cases names with
    | nil => simp [bindPositional, throw, throwThe, MonadExceptOf.throw] at h
    | cons n ns =>
      simp only [bindPositional] at h
      split at h
      · simp [throw, throwThe, MonadExceptOf.throw] at h
      · simp only [List.length_cons, List.take_succ_cons, List.mem_cons, not_or] at hk
        rw [ih ns _ h hk.2, atKey_dset_ne _ _ _ _ (Ne.symm hk.1)]

/-- a name bound positionally is not among the keywords (no distinctness of names needed) -/
theorem bindPositional_kw_none (kw : Dict PV) (args : List PV) (names : List String) (cmd c : Dict PV)
    (h : bindPositional kw args names cmd = .ok c) :
    ∀ i (_ : i < args.length) (h2 : i < names.length), dget kw names[i] = none := by
  induction args generalizing names cmd with
  | nil => intro i h1; exact absurd h1 (Nat.not_lt_zero _)
  | cons a as ih =>
    cases names with
    | nil => simp [bindPositional, throw, throwThe, MonadExceptOf.throw] at h
    | cons n ns =>
      simp only [bindPositional] at h
      split at h
      · simp [throw, throwThe, MonadExceptOf.throw] at h
      · rename_i hkw
        intro i h1 h2
        cases i with
        | zero => simpa using hkw
        | succ i =>
          simp only [List.length_cons] at h1 h2
          simpa using ih ns _ h i (by omega) (by omega)

/-- the extra positional argument is the only thing `splitArgs` writes, under `max_samples` -/
theorem splitArgs_atKey (names : List String) (args : List PV) (mapping : Dict PV) (k : String)
    (hk : k ≠ "max_samples") : atKey (splitArgs names args mapping).2 k = atKey mapping k := by
  unfold splitArgs
  split
  · split
    · exact atKey_dset_ne _ _ _ _ (Ne.symm hk)
    · rfl
  · rfl

theorem splitArgs_no_extra (names : List String) (args : List PV) (mapping : Dict PV)
    (h : args.length ≤ names.length) : splitArgs names args mapping = (args, mapping) := by
  unfold splitArgs
  have : ¬ names.length < args.length := by omega
  simp [this]

/-! ### dictionaries with distinct keys (what Python dictionaries are) -/

/-- in a dictionary with distinct keys, membership is what `d.get` answers -/
theorem mem_iff_dget {α : Type} (d : Dict α) (hn : (dkeys d).Nodup) (k : String) (x : α) :
    (k, x) ∈ d ↔ dget d k = some x := by
  induction d with
  | nil => simp [dget]
  | cons hd t ih =>
    obtain ⟨a, b⟩ := hd
    simp only [dkeys, List.map_cons, List.nodup_cons] at hn
    have ih' := ih hn.2
    by_cases hak : a = k
    · subst hak
      simp only [List.mem_cons, Prod.mk.injEq, true_and, dget, if_true, Option.some.injEq]
      constructor
      · intro h
        rcases h with h | h
        · exact h.symm
        · exact absurd (List.mem_map.mpr ⟨(a, x), h, rfl⟩) hn.1
      · intro h; exact Or.inl h.symm
    · simp only [List.mem_cons, Prod.mk.injEq, dget, hak, if_false, ← ih']
      constructor
      · intro h
        rcases h with h | h
        · exact absurd h.1.symm hak
        · exact h
      · intro h; exact Or.inr h

theorem dkeys_dset_nodup {α : Type} (d : Dict α) (k : String) (v : α) (hn : (dkeys d).Nodup) :
    (dkeys (dset d k v)).Nodup := by
  induction d with
  | nil => simp [dset, dkeys]
  | cons hd t ih =>
    obtain ⟨a, b⟩ := hd
    simp only [dkeys, List.map_cons, List.nodup_cons] at hn
    by_cases hak : a = k
    · simp only [dset, hak, if_true, dkeys, List.map_cons, List.nodup_cons]
      rw [← hak]; exact hn
    · simp only [dset, hak, if_false, dkeys, List.map_cons, List.nodup_cons]
      refine ⟨?_, ih hn.2⟩
      intro hm
      rcases (dkeys_dset t k v a).mp hm with h | h
      · exact hak h
      · exact hn.1 h

theorem bindPositional_nodup (kw : Dict PV) (args : List PV) (names : List String) (cmd c : Dict PV)
    (h : bindPositional kw args names cmd = .ok c) (hn : (dkeys cmd).Nodup) : (dkeys c).Nodup := by
  induction args generalizing names cmd with
  | nil => simp only [bindPositional, pure, Except.pure, Except.ok.injEq] at h; subst h; exact hn
  | cons a as ih =>
    cases names with
    | nil => simp [bindPositional, throw, throwThe, MonadExceptOf.throw] at h
    | cons n ns =>
      simp only [bindPositional] at h
      split at h
      · simp [throw, throwThe, MonadExceptOf.throw] at h
      · exact ih ns _ h (dkeys_dset_nodup _ _ _ hn)

theorem splitArgs_nodup (names : List String) (args : List PV) (mapping : Dict PV)
    (hn : (dkeys mapping).Nodup) : (dkeys (splitArgs names args mapping).2).Nodup := by
  unfold splitArgs
  split
  · split
    · exact dkeys_dset_nodup _ _ _ hn
    · exact hn
  · exact hn

/-! ### iterations: checked against a state the session's processor really was in -/

/-- every iteration the session holds anywhere — in the sampler, captured by a job, received by the
platform — satisfies `Q` -/
structure World.ItersSat (Q : Dict IV → Prop) (w : World) : Prop where
  sampler : ∀ s, w.sampler = some s → ∀ it ∈ s.iterator, Q it
  jobs : ∀ ji ∈ w.jobs, ∀ it ∈ ji.2, Q it
  log : ∀ s ∈ w.log, ∀ it ∈ s.iterator, Q it

/-- one step keeps `ItersSat Q` as soon as `Q` holds of whatever `_check_iteration` accepts against the
processor of this very state -/
theorem itersSat_step (Q : Dict IV → Prop) (w : World) (op : Op)
    (hQ : ∀ e, w.exp = some e → ∀ it, checkIteration w.pf e it = none → Q it) (h : w.ItersSat Q) :
    (step w op).1.ItersSat Q := by
  have onE : ∀ f, (onExp w f).1.ItersSat Q := fun f =>
    ⟨by rw [(onExp_same w f).2.1]; exact h.sampler, by rw [(onExp_same w f).2.2.1]; exact h.jobs,
     by rw [(onExp_same w f).2.2.2]; exact h.log⟩
  have noSampler : ∀ e : Option Exp, World.ItersSat Q { w with exp := e, sampler := none } := fun e =>
    ⟨fun s hs => (by cases hs), h.jobs, h.log⟩
  have sameExp : ∀ e : Option Exp, World.ItersSat Q { w with exp := e } := fun e =>
    ⟨h.sampler, h.jobs, h.log⟩
  cases op with
  | newRemote via m circ cps noise =>
    simp only [step]; split
    · exact h
    · exact noSampler _
  | convert fixed p =>
    simp only [step]; split
    · exact h
    · split
      · exact h
      · exact noSampler _
  | addHerald mode ex => exact onE _
  | withInput s => exact onE _
  | setFilter n => exact onE _
  | setPost p => exact onE _
  | setNoise n => exact onE _
  | setParam k v => exact onE _
  | clearParams => exact onE _
  | setCircuit checked sz circ cps => exact onE _
  | retune circ => exact onE _
  | addComponent circ cps => exact onE _
  | prepare cmd cl il kw =>
    simp only [step]; split
    · exact h
    · split <;> exact sameExp _
  | newSampler ms =>
    simp only [step]; split
    · exact h
    · split
      · exact h
      · exact ⟨fun s hs it hit => (by
          simp only [Option.some.injEq] at hs; subst hs; cases hit), h.jobs, h.log⟩
  | addIterations its =>
    simp only [step]; split
    · rename_i e s he hs
      have key : ∀ it ∈ (addIterations w.pf e s its).1.iterator, Q it := by
        intro it hit
        rcases addIterations_mem w.pf e s its it hit with h1 | h1
        · exact h.sampler s hs it h1
        · exact hQ e he it h1
      split <;> (rename_i s' _ hp; rw [hp] at key
                 exact ⟨fun s2 hs2 it hit => (by
                   simp only [Option.some.injEq] at hs2; subst hs2; exact key it hit), h.jobs, h.log⟩)
    · exact h
  | clearIterations =>
    simp only [step]; split
    · exact ⟨fun s2 hs2 it hit => (by simp only [Option.some.injEq] at hs2; subst hs2; cases hit), h.jobs, h.log⟩
    · exact h
  | createJob method =>
    simp only [step]; split
    · rename_i e s he hs
      split
      · exact sameExp _
      · refine ⟨h.sampler, ?_, h.log⟩
        intro ji hji it hit
        simp only [List.mem_append, List.mem_cons, List.not_mem_nil, or_false] at hji
        rcases hji with hji | rfl
        · exact h.jobs ji hji it hit
        · exact h.sampler s hs it hit
    · exact h
  | execute idx args kw net =>
    rcases step_execute w idx args kw net with ⟨-, hst⟩ | ⟨j, its, -, -, hst⟩ | ⟨j, its, err, hj, -, -, hst⟩ |
        ⟨j, its, pl, hj, -, -, hst⟩ <;> rw [hst]
    · exact h
    · exact h
    · have hmem : (j, its) ∈ w.jobs := List.mem_of_getElem? hj
      refine ⟨h.sampler, ?_, h.log⟩
      intro ji hji it hit
      rcases List.mem_or_eq_of_mem_set hji with hji | rfl
      · exact h.jobs ji hji it hit
      · exact h.jobs _ hmem it hit
    · have hmem : (j, its) ∈ w.jobs := List.mem_of_getElem? hj
      refine ⟨h.sampler, ?_, ?_⟩
      · intro ji hji it hit
        rcases List.mem_or_eq_of_mem_set hji with hji | rfl
        · exact h.jobs ji hji it hit
        · exact h.jobs _ hmem it hit
      · intro s hs it hit
        simp only [List.mem_append] at hs
        rcases hs with hs | hs
        · exact h.log s hs it hit
        · cases net <;> simp only [received, List.mem_cons, List.not_mem_nil, or_false] at hs
          · subst hs; exact h.jobs _ hmem it hit
          · subst hs; exact h.jobs _ hmem it hit

/-- the iteration was accepted by `_check_iteration` against the processor the session had after some
prefix of the history `all` -/
def IterCheckedIn (pf : Platform) (all : List Op) (it : Dict IV) : Prop :=
  ∃ pre post e, pre ++ post = all ∧ (exec step (World.init pf) pre).exp = some e ∧ checkIteration pf e it = none

theorem itersSat_exec (pf : Platform) (all : List Op) :
    ∀ rest done, done ++ rest = all →
      (exec step (World.init pf) done).ItersSat (IterCheckedIn pf all) →
      (exec step (World.init pf) all).ItersSat (IterCheckedIn pf all) := by
  intro rest
  induction rest with
  | nil => intro done hd h; rw [List.append_nil] at hd; subst hd; exact h
  | cons op rest ih =>
    intro done hd h
    apply ih (done ++ [op]) (by rw [List.append_assoc]; exact hd)
    rw [exec_append, exec_cons, exec_nil]
    apply itersSat_step _ _ _ _ h
    intro e he it hit
    rw [exec_pf] at hit
    exact ⟨done, op :: rest, e, hd, he, hit⟩

end PM.C16
