/-
  C13 — lemmas about components known by kind (`Model/C13Kinds.lean`).
-/
import PercevalModel.Model.C13Kinds
import PercevalModel.Lemmas.C13

open Matrix

namespace PM.C13

variable {R : Type}

theorem Kind.toP_size [CommRing R] (i : R) (k : Kind R) : (k.toP i).size = k.m := by
  cases k <;> rfl

theorem Kind.toP_requires [CommRing R] (i : R) (k : Kind R) : (k.toP i).requires = k.supports := by
  cases k <;> rfl

theorem Kind.toP_WF [CommRing R] (i : R) (k : Kind R) : (k.toP i).WF := by
  cases k <;> trivial

mutual
  theorem KComp.toP_requires [CommRing R] (i : R) : (c : KComp R) → (c.toP i).requires = c.requires
    | .leaf k => by simp only [KComp.toP, KComp.requires]; exact Kind.toP_requires i k
    | .circ _ items => by simp only [KComp.toP, KComp.requires, PComp.requires]; exact KItems.toP_requires i items
  theorem KItems.toP_requires [CommRing R] (i : R) : (items : KItems R) →
      (items.toP i).requires = items.requires
    | .nil => rfl
    | .cons _ c rest => by
      simp only [KItems.toP, KItems.requires, PItems.requires]
      rw [KComp.toP_requires i c, KItems.toP_requires i rest]
end

mutual
  /-- a circuit of valid components is a tree of unitary leaves, given that every single valid
  component is -/
  theorem KComp.toP_allUnitary [CommRing R] [StarRing R] (i : R)
      (hleaf : ∀ k : Kind R, k.Valid → (k.toP i).AllUnitary) :
      (c : KComp R) → c.Valid → (c.toP i).AllUnitary
    | .leaf k, h => by simp only [KComp.toP]; exact hleaf k h
    | .circ _ items, h => by
      simp only [KComp.toP, PComp.AllUnitary]
      exact KItems.toP_allUnitary i hleaf items h
  theorem KItems.toP_allUnitary [CommRing R] [StarRing R] (i : R)
      (hleaf : ∀ k : Kind R, k.Valid → (k.toP i).AllUnitary) :
      (items : KItems R) → items.Valid → (items.toP i).AllUnitary
    | .nil, _ => trivial
    | .cons _ c rest, h => by
      simp only [KItems.toP, PItems.AllUnitary]
      exact ⟨KComp.toP_allUnitary i hleaf c h.1, KItems.toP_allUnitary i hleaf rest h.2⟩
end

/-- the matrix `compute_unitary(use_polarization=True)` of the model's leaf is the component's own
matrix for a polarising class and `matrix_double` of it for every other class -/
theorem unitaryOfPol_kind [CommRing R] (i : R) (k : Kind R) :
    (⟨(dbl (k.toP i)).size, unitaryOfPol (k.toP i)⟩ : SqM R) =
      if k.supports then k.own i else ⟨(k.own i).1 * 2, double (k.own i).2⟩ := by
  cases k with
  | ordinary n U =>
    show (⟨n * 2, C01.unitaryOf (.leaf (n * 2) (double U))⟩ : SqM R) = ⟨n * 2, double U⟩
    rw [C01.unitaryOf_leaf]
  | wp c s c2 s2 =>
    show (⟨1 * 2, C01.unitaryOf (.leaf (1 * 2) (PM.C13.wp i c s c2 s2))⟩ : SqM R) = _
    rw [C01.unitaryOf_leaf]; rfl
  | pr c s =>
    show (⟨1 * 2, C01.unitaryOf (.leaf (1 * 2) (PM.C13.pr c s))⟩ : SqM R) = _
    rw [C01.unitaryOf_leaf]; rfl
  | pbs =>
    show (⟨2 * 2, C01.unitaryOf (.leaf (2 * 2) PM.C13.pbs)⟩ : SqM R) = _
    rw [C01.unitaryOf_leaf]; rfl
  | polU n U =>
    show (⟨n * 2, C01.unitaryOf (.leaf (n * 2) U)⟩ : SqM R) = ⟨n * 2, U⟩
    rw [C01.unitaryOf_leaf]

/-- `ACircuit.compute_unitary(use_polarization=flag)` on one component: the flag is resolved as
`resolve` says (`AssertionError` exactly for a polarising class asked `False`), a doubled answer is
the model's `unitaryOfPol` of the leaf and a plain answer is the component's own matrix -/
theorem leafUnitary_resolve [CommRing R] (i : R) (k : Kind R) (flag : Option Bool) :
    leafUnitary i k flag =
      match resolve k.supports flag with
      | .error e => .error e
      | .ok true => .ok ⟨(dbl (k.toP i)).size, unitaryOfPol (k.toP i)⟩
      | .ok false => .ok (k.own i) := by
  rw [unitaryOfPol_kind]
  cases hs : k.supports <;> rcases flag with _ | _ | _ <;> simp [leafUnitary, resolve, hs]

end PM.C13
