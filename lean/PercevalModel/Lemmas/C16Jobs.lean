/-
  C16 (wave 6) — a job stays in the session's list as it was created until it is executed.
-/
import PercevalModel.Lemmas.C16Rpc
import PercevalModel.Lemmas.C16Add
import PercevalModel.Lemmas.C16Relabel

namespace PM.C16
open PM.SM

/-- the session holds the job `j` (with its iterations) under `idx`, as created or marked "executed" -/
def HoldsJob (idx : Nat) (j : Job) (its : List (Dict IV)) (w : World) : Prop :=
  w.jobs[idx]? = some (j, its) ∨ w.jobs[idx]? = some ({ j with fresh := false }, its)

theorem step_job_kept (w : World) (op : Op) (idx : Nat) (j : Job) (its : List (Dict IV))
    (h : w.jobs[idx]? = some (j, its)) :
    (step w op).1.jobs[idx]? = some (j, its) ∨ (step w op).1.jobs[idx]? = some ({ j with fresh := false }, its) := by
  have hlt : idx < w.jobs.length := by
    rcases Nat.lt_or_ge idx w.jobs.length with h' | h'
    · exact h'
    · rw [List.getElem?_eq_none h'] at h; cases h
  cases hx : op.isExecute with
  | false =>
    left
    rw [(step_frame w op hx).2.2.2 idx hlt, h]
  | true =>
    cases op with
    | execute idx' args kw net =>
      rcases step_execute w idx' args kw net with ⟨-, hs⟩ | ⟨j', its', -, -, hs⟩ | ⟨j', its', err, hj', -, -, hs⟩ |
        ⟨j', its', pl, hj', -, -, hs⟩
      · left; rw [hs]; exact h
      · left; rw [hs]; exact h
      · rw [hs]
        by_cases hi : idx' = idx
        · subst hi
          rw [h] at hj'; cases hj'
          right
          simp only [List.getElem?_set_self hlt]
        · left
          simp only [List.getElem?_set_ne hi]
          exact h
      · rw [hs]
        by_cases hi : idx' = idx
        · subst hi
          rw [h] at hj'; cases hj'
          right
          simp only [List.getElem?_set_self hlt]
        · left
          simp only [List.getElem?_set_ne hi]
          exact h
    | _ => simp [Op.isExecute] at hx

theorem step_holdsJob (idx : Nat) (j : Job) (its : List (Dict IV)) (w : World) (op : Op)
    (h : HoldsJob idx j its w) : HoldsJob idx j its (step w op).1 := by
  rcases h with h | h
  · exact step_job_kept w op idx j its h
  · rcases step_job_kept w op idx _ its h with h' | h'
    · exact Or.inr h'
    · exact Or.inr h'

/-- over EVERY history of the HTTP machine a job of the list stays there, as created or marked "executed" -/
theorem rexec_holdsJob (idx : Nat) (j : Job) (its : List (Dict IV)) (rw : RWorld) (ops : List ROp)
    (h : rw.w.jobs[idx]? = some (j, its)) : HoldsJob idx j its (exec rstep rw ops).w := by
  rw [rexec_refines]
  exact inv_exec step (HoldsJob idx j its) (fun s op hs => step_holdsJob idx j its s op hs) rw.w (Or.inl h) _

/-- `Sampler._create_job` that succeeds appends the job, with the sampler's iterations, at the end of the list -/
theorem step_createJob_appends (w : World) (e e' : Exp) (smp : Sampler) (method : Method) (j : Job)
    (he : w.exp = some e) (hs : w.sampler = some smp) (hc : createJob w.pf e smp method = (e', .ok j)) :
    (step w (.createJob method)).1.jobs[w.jobs.length]? = some (j, smp.iterator) := by
  simp [step, he, hs, hc]

/-! ### which calls keep the post-selection and the heralds -/

/-- the post-selection symbol and the heralds the remote processor currently holds -/
def World.ph (w : World) : Option (Option Sym × List (Nat × Nat)) := w.exp.map fun e => (e.post, e.heralds)

/-- calls that replace the processor, add a herald or set the post-selection -/
def Op.touchesPH : Op → Bool
  | .newRemote _ _ _ _ _ => true
  | .convert _ _ => true
  | .addHerald _ _ => true
  | .setPost _ => true
  | _ => false

theorem onExp_ph (w : World) (f : Exp → Res Exp)
    (hf : ∀ e e', f e = .ok e' → e'.post = e.post ∧ e'.heralds = e.heralds) : (onExp w f).1.ph = w.ph := by
  unfold onExp
  split
  · rfl
  · rename_i e he
    split
    · rfl
    · rename_i e' hfe
      simp [World.ph, he, (hf e e' hfe).1, (hf e e' hfe).2]

theorem step_ph_frame (w : World) (op : Op) (h : op.touchesPH = false) : (step w op).1.ph = w.ph := by
  cases op with
  | newRemote via m circ cps noise => simp [Op.touchesPH] at h
  | convert fixed p => simp [Op.touchesPH] at h
  | addHerald mode ex => simp [Op.touchesPH] at h
  | setPost p => simp [Op.touchesPH] at h
  | setCircuit checked sz circ cps =>
    simp only [step]; apply onExp_ph
    intro e e' hf
    split at hf
    · cases hf
    · unfold setCircuit at hf
      split at hf
      · cases hf
      · split at hf
        · cases hf
        · cases hf; exact ⟨rfl, rfl⟩
  | retune circ => simp only [step]; apply onExp_ph; intro e e' hf; cases hf; exact ⟨rfl, rfl⟩
  | addComponent circ cps =>
    simp only [step]; apply onExp_ph
    intro e e' hf
    split at hf
    · cases hf
    · cases hf; exact ⟨rfl, rfl⟩
  | withInput s =>
    simp only [step]
    exact onExp_ph _ _ (fun e e' hf => ⟨PSel.withInput_post e e' s hf, withInput_heralds e e' s hf⟩)
  | setFilter n => simp only [step]; apply onExp_ph; intro e e' hf; cases hf; exact ⟨rfl, rfl⟩
  | setNoise n => simp only [step]; apply onExp_ph; intro e e' hf; cases hf; exact ⟨rfl, rfl⟩
  | setParam k v => simp only [step]; apply onExp_ph; intro e e' hf; cases hf; exact ⟨rfl, rfl⟩
  | clearParams => simp only [step]; apply onExp_ph; intro e e' hf; cases hf; exact ⟨rfl, rfl⟩
  | prepare cmd cl il kw =>
    simp only [step]
    split
    · rfl
    · rename_i e he
      have h1 := preparePayload_fst w.pf e cmd cl il kw
      have hc : (preparePayload w.pf e cmd cl il kw).1.post = e.post ∧
          (preparePayload w.pf e cmd cl il kw).1.heralds = e.heralds := by
        rcases h1 with h1 | h1 <;> rw [h1] <;> exact ⟨rfl, rfl⟩
      split <;> (rename_i e' _ hp; rw [hp] at hc; simp only [World.ph, he, Option.map_some]; exact congrArg some (Prod.ext hc.1 hc.2))
  | newSampler ms =>
    simp only [step]
    split
    · rfl
    · split <;> rfl
  | addIterations its =>
    simp only [step]
    split
    · split <;> rfl
    · rfl
  | clearIterations => simp only [step]; split <;> rfl
  | createJob method =>
    simp only [step]
    split
    · rename_i e s he hs
      have h1 := createJob_fst w.pf e s method
      have hc : (createJob w.pf e s method).1.post = e.post ∧ (createJob w.pf e s method).1.heralds = e.heralds := by
        rcases h1 with h1 | h1 <;> rw [h1] <;> exact ⟨rfl, rfl⟩
      split <;> (rename_i e' _ hp; rw [hp] at hc; simp only [World.ph, he, Option.map_some]; exact congrArg some (Prod.ext hc.1 hc.2))
    · rfl
  | execute idx args kw net =>
    rcases step_execute w idx args kw net with ⟨-, h⟩ | ⟨j, its, -, -, h⟩ | ⟨j, its, err, -, -, -, h⟩ | ⟨j, its, pl, -, -, -, h⟩ <;>
      first | (rw [h]; rfl) | rw [h]

/-- a plain call of `astep` that is none of the four keeps the post-selection and the heralds -/
theorem astep_plain_ph (aw : AWorld) (op : Op) (h : op.touchesPH = false) :
    (astep aw (.base (.plain op))).1.cw.w.ph = aw.cw.w.ph := by
  have hpass : (pass aw (.plain op)).1.cw.w.ph = aw.cw.w.ph := by
    simp only [pass, cstep]
    split
    · rfl
    · exact step_ph_frame aw.cw.w op h
  simp only [astep, astepBase]
  unfold astepPlain
  split
  · rfl
  · split
    · rfl
    · exact hpass
  · split
    · unfold prepareEmpty
      split
      · rfl
      · rename_i e he
        split
        · rfl
        · split
          · rfl
          · split
            · rfl
            · simp [setExp, World.ph, he, syncFilterParam]
    · exact hpass
  · split
    · rfl
    · exact hpass

/-- … over every history of such calls -/
theorem aexec_plain_ph (aw : AWorld) (ops : List Op) (h : ∀ op ∈ ops, op.touchesPH = false) :
    (exec astep aw (ops.map fun op => AOp.base (.plain op))).cw.w.ph = aw.cw.w.ph := by
  induction ops generalizing aw with
  | nil => rfl
  | cons op ops ih =>
    rw [List.map_cons, exec_cons, ih _ (fun o ho => h o (List.mem_cons_of_mem _ ho)),
      astep_plain_ph aw op (h op (by simp))]

theorem cstep_convert_done (cw : CWorld) (p : Exp) (pc : List Comp) (h : (cstep cw (.convert p pc)).2 = .done) :
    p.WF ∧ ∃ e0, fromLocal true p = .ok e0 ∧ (cstep cw (.convert p pc)).1.w.exp = some e0 := by
  by_cases hσ : IsPermList p.size (relabelOf p)
  · by_cases hwf : p.WF
    · cases hfl : fromLocal true p with
      | error err => simp [cstep, hσ, step, hwf, hfl] at h
      | ok e0 => exact ⟨hwf, e0, rfl, by simp [cstep, hσ, step, hwf, hfl]⟩
    · simp [cstep, hσ, step, hwf] at h
  · simp [cstep, hσ] at h

/-- a conversion (with a post-selection) that succeeds leaves the processor `from_local_processor(p)` builds -/
theorem astep_convertPS_done (aw : AWorld) (p : Exp) (pc : List Comp) (conds : List (List Nat))
    (h : (astep aw (.convertPS p pc conds)).2 = .done) :
    p.WF ∧ ∃ e0, fromLocal true p = .ok e0 ∧ (astep aw (.convertPS p pc conds)).1.cw.w.exp = some e0 := by
  simp only [astep] at h ⊢
  split at h
  · cases h
  · rename_i hg
    rw [if_neg hg]
    have hf := freshOn_cw aw (pass aw (.convert p pc)) false
      (some (conds.map fun c => c.map fun x => (relabelOf p).idxOf x))
    rw [hf.2] at h
    rw [hf.1]
    exact cstep_convert_done aw.cw p pc h

/-- the machine with the user-level reading runs `astep` -/
theorem asexec_fst (st : AWorld × ASpec) (ops : List AOp) : (exec asstep st ops).1 = exec astep st.1 ops := by
  induction ops generalizing st with
  | nil => rfl
  | cons op ops ih => rw [exec_cons, exec_cons, ih]; rfl

end PM.C16
