/-
  C11 — `copy()` of nested circuits with object identity (`Model/C11Deep.lean`): the copy denotes the
  same circuit, consists of fresh pairwise distinct objects, and is independent of the original.
-/
import PercevalModel.Model.C11Deep

set_option linter.unusedVariables false

namespace PM.C11
variable {R : Type}

mutual
  theorem OCmp.copy_erase (n : ℕ) : (t : OCmp R) → (t.copy n).1.erase = t.erase
    | .leaf _ _ => rfl
    | .circ _ m items => by
      simp only [OCmp.copy, OCmp.erase]
      rw [OIts.copy_erase (n + 1) items]
  theorem OIts.copy_erase (n : ℕ) : (t : OIts R) → (t.copy n).1.erase = t.erase
    | .nil => rfl
    | .cons off c rest => by
      simp only [OIts.copy, OIts.erase]
      rw [OCmp.copy_erase n c, OIts.copy_erase _ rest]
end

mutual
  theorem OCmp.copy_ids (n : ℕ) : (t : OCmp R) →
      (t.copy n).2 = n + t.count ∧ (t.copy n).1.ids = List.range' n t.count
    | .leaf _ _ => ⟨rfl, rfl⟩
    | .circ _ m items => by
      obtain ⟨h1, h2⟩ := OIts.copy_ids (n + 1) items
      simp only [OCmp.copy, OCmp.count, OCmp.ids, h1, h2]
      refine ⟨by omega, ?_⟩
      rw [Nat.add_comm 1 items.count, List.range'_succ]
  theorem OIts.copy_ids (n : ℕ) : (t : OIts R) →
      (t.copy n).2 = n + t.count ∧ (t.copy n).1.ids = List.range' n t.count
    | .nil => ⟨rfl, rfl⟩
    | .cons off c rest => by
      obtain ⟨h1, h2⟩ := OCmp.copy_ids n c
      obtain ⟨h3, h4⟩ := OIts.copy_ids (c.copy n).2 rest
      rw [h1] at h3 h4
      simp only [OIts.copy, OIts.count, OIts.ids, h2, h1, h3, h4]
      refine ⟨by omega, ?_⟩
      rw [List.range'_append_1]
end

mutual
  theorem OCmp.mutate_fresh (a : ℕ) (f : Leaf R → Leaf R) : (t : OCmp R) → a ∉ t.ids →
      t.mutate a f = t
    | .leaf i l, h => by
      simp only [OCmp.ids, List.mem_singleton] at h
      simp only [OCmp.mutate]
      rw [if_neg (fun e => h e.symm)]
    | .circ i m items, h => by
      simp only [OCmp.ids, List.mem_cons, not_or] at h
      simp only [OCmp.mutate]
      rw [OIts.mutate_fresh a f items h.2]
  theorem OIts.mutate_fresh (a : ℕ) (f : Leaf R → Leaf R) : (t : OIts R) → a ∉ t.ids →
      t.mutate a f = t
    | .nil, _ => rfl
    | .cons off c rest, h => by
      simp only [OIts.ids, List.mem_append, not_or] at h
      simp only [OIts.mutate]
      rw [OCmp.mutate_fresh a f c h.1, OIts.mutate_fresh a f rest h.2]
end

end PM.C11
