/-
  C20 — the mode mapping the converter computes IS a `Placement` (glue between `mode_map_spec` and the theorems
  about placed gates), for every qubit count, every pair of distinct qubits and every gate position.

  * `convLayout n hv` (Model/C20Conv.lean): `n` dual-rail qubits on modes `0..2n-1`, herald modes appended;
    `convLayout_ok`: it is a sane layout (its modes are exactly `0..m-1`, each used once).
  * `gatePlacement`: the six modes of the `j`-th two-qubit catalog gate on control `a`, data `b` go to
    `gateModes n a b j = [2a, 2a+1, 2b, 2b+1, 2n+2j, 2n+2j+1]` — the first four are `_create_mode_map(2a, 2b)`
    (`gateModes_modeMap`), the last two the appended herald modes; this is a `Placement` of the gate's own layout
    `⟨6, [0,2], [(4,v),(5,v)]⟩` (`v = 1`: heralded CZ / CNOT, `v = 0`: post-processed CNOT) into `convLayout`.
  * `gateModes_heralds_disjoint`: two gates with different herald indices share no herald mode, a one-qubit gate or
    a SWAP touches no herald mode (the `Pairwise` hypothesis of the circuit theorems).
  * `placement_support`, `placedStep_ok`: a placed gate is a `Step` of `Lemmas/C20Forest.lean` (its support meets
    only the qubit pairs it was placed on), for ANY placement.
-/
import PercevalModel.Lemmas.C20Place
import PercevalModel.Lemmas.C20Forest
import Mathlib.Tactic.IntervalCases

open Matrix

namespace PM.C20
open PM.Fock PM.SimSpec

variable {R : Type*}

/-! ### the layout of a converted processor -/

theorem flatMap_pairs_range : ∀ n : ℕ,
    ((List.range n).map (2 * ·)).flatMap (fun p => [p, p + 1]) = List.range (2 * n)
  | 0 => rfl
  | n + 1 => by
    rw [List.range_succ, List.map_append, List.flatMap_append, flatMap_pairs_range n,
      show 2 * (n + 1) = 2 * n + 1 + 1 by ring, List.range_succ, List.range_succ]
    simp

theorem used_convLayout (n : ℕ) (hv : List ℕ) : used (convLayout n hv) = List.range (2 * n + hv.length) := by
  unfold used convLayout
  simp only
  rw [flatMap_pairs_range, List.map_map, List.range_add]
  congr 1

theorem convLayout_ok (n : ℕ) (hv : List ℕ) : (convLayout n hv).ok = true := by
  rw [ok_iff, used_convLayout]
  refine ⟨fun k hk => ?_, List.nodup_range, ?_⟩
  · exact List.mem_range.1 hk
  · rw [List.length_range]; rfl

theorem convLayout_heralds_le (n : ℕ) (hv : List ℕ) (h : ∀ v ∈ hv, v ≤ 1) :
    ∀ p ∈ (convLayout n hv).heralds, p.2 ≤ 1 := by
  intro p hp
  simp only [convLayout, List.mem_map, List.mem_range] at hp
  obtain ⟨i, hi, rfl⟩ := hp
  simp only
  rw [List.getD_eq_getElem?_getD, List.getElem?_eq_getElem hi, Option.getD_some]
  exact h _ (List.getElem_mem hi)

theorem convLayout_qubit (n : ℕ) (hv : List ℕ) (a : ℕ) (ha : a < n) :
    (convLayout n hv).qubits.getD a 0 = 2 * a := by
  simp [convLayout, List.getD_eq_getElem?_getD, ha]

theorem convLayout_herald_mode (n : ℕ) (hv : List ℕ) (p : ℕ × ℕ) (hp : p ∈ (convLayout n hv).heralds) :
    2 * n ≤ p.1 := by
  simp only [convLayout, List.mem_map, List.mem_range] at hp
  obtain ⟨i, _, rfl⟩ := hp
  simp

/-- the first four entries of `gateModes` are the keys of `_create_mode_map(2a, 2b)`, with values `0,1,2,3` -/
theorem gateModes_modeMap (n a b j : ℕ) :
    (createModeMap (2 * a) (2 * b)).map Prod.fst = (gateModes n a b j).take 4 ∧
      (createModeMap (2 * a) (2 * b)).map Prod.snd = [0, 1, 2, 3] := ⟨rfl, rfl⟩

/-! ### the placement of the `j`-th two-qubit catalog gate -/

/-- inverse of the mode map on the processor's modes -/
def gateInv (n a b j : ℕ) (i : ℕ) : Option (Fin 6) :=
  if i = 2 * a then some 0 else if i = 2 * a + 1 then some 1 else if i = 2 * b then some 2
  else if i = 2 * b + 1 then some 3 else if i = 2 * n + 2 * j then some 4
  else if i = 2 * n + 2 * j + 1 then some 5 else none

/-- **the converter's mode mapping is a `Placement`**: control qubit `a`, data qubit `b` (distinct, `< n`), the
gate's two heralds (value `v`) on the `j`-th appended pair of herald modes -/
def gatePlacement (n : ℕ) (hv : List ℕ) (a b j v : ℕ) (ha : a < n) (hb : b < n) (hab : a ≠ b)
    (hj : 2 * j + 1 < hv.length) (h0 : hv.getD (2 * j) 0 = v) (h1 : hv.getD (2 * j + 1) 0 = v) :
    Placement ⟨6, [0, 2], [(4, v), (5, v)]⟩ (convLayout n hv) where
  φ := fun k => (gateModes n a b j).getD k 0
  g := fun i => gateInv n a b j i.val
  sel := [a, b]
  φ_lt := by
    intro k hk
    have hk' : k < 6 := hk
    simp only [convLayout]
    interval_cases k <;> simp [gateModes] <;> omega
  inv := by
    intro x y
    obtain ⟨y, hy⟩ := y
    simp only [convLayout] at hy
    fin_cases x <;> simp only [gateInv, gateModes, Fin.ext_iff] <;> simp <;> split_ifs <;> simp <;> omega
  sel_length := rfl
  sel_lt := by
    intro k hk
    simp only [List.mem_cons, List.not_mem_nil, or_false] at hk
    simp only [convLayout, List.length_map, List.length_range]
    rcases hk with rfl | rfl <;> assumption
  qubit := by
    intro i hi
    have hi' : i < 2 := hi
    interval_cases i
    · have e := convLayout_qubit n hv a ha
      exact ⟨by show (gateModes n a b j).getD 0 0 = (convLayout n hv).qubits.getD a 0; rw [e]; rfl,
        by show (gateModes n a b j).getD 1 0 = (convLayout n hv).qubits.getD a 0 + 1; rw [e]; rfl⟩
    · have e := convLayout_qubit n hv b hb
      exact ⟨by show (gateModes n a b j).getD 2 0 = (convLayout n hv).qubits.getD b 0; rw [e]; rfl,
        by show (gateModes n a b j).getD 3 0 = (convLayout n hv).qubits.getD b 0 + 1; rw [e]; rfl⟩
  herald := by
    intro h hh
    simp only [List.mem_cons, List.not_mem_nil, or_false] at hh
    simp only [convLayout, List.mem_map, List.mem_range]
    rcases hh with rfl | rfl
    · exact ⟨2 * j, by omega, by
        show (2 * n + 2 * j, hv.getD (2 * j) 0) = ((gateModes n a b j).getD 4 0, v)
        rw [h0]; rfl⟩
    · exact ⟨2 * j + 1, by omega, by
        show (2 * n + (2 * j + 1), hv.getD (2 * j + 1) 0) = ((gateModes n a b j).getD 5 0, v)
        rw [h1]; rfl⟩

theorem gatePlacement_support (n : ℕ) (hv : List ℕ) (a b j v : ℕ) (ha : a < n) (hb : b < n) (hab : a ≠ b)
    (hj : 2 * j + 1 < hv.length) (h0 : hv.getD (2 * j) 0 = v) (h1 : hv.getD (2 * j + 1) 0 = v) :
    (List.ofFn fun k : Fin 6 => ((gatePlacement n hv a b j v ha hb hab hj h0 h1).f k).val) =
      gateModes n a b j := by
  simp [Placement.f, gatePlacement, gateModes, List.ofFn_succ]

/-- two catalog gates with different herald indices share no herald mode -/
theorem gateModes_heralds_disjoint (n : ℕ) (hv : List ℕ) (a b j a' b' j' : ℕ) (ha : a < n) (hb : b < n)
    (ha' : a' < n) (hb' : b' < n) (hjj : j ≠ j') :
    ∀ h ∈ (convLayout n hv).heralds, h.1 ∉ gateModes n a b j ∨ h.1 ∉ gateModes n a' b' j' := by
  intro h hh
  have := convLayout_herald_mode n hv h hh
  by_cases h1 : h.1 ∈ gateModes n a b j
  · right
    simp only [gateModes, List.mem_cons, List.not_mem_nil, or_false] at h1 ⊢
    omega
  · exact Or.inl h1

/-- a one-qubit gate or a SWAP (support inside the qubit modes) touches no herald mode -/
theorem qubit_modes_no_herald (n : ℕ) (hv : List ℕ) (S : List ℕ) (hS : ∀ k ∈ S, k < 2 * n) :
    ∀ h ∈ (convLayout n hv).heralds, h.1 ∉ S := by
  intro h hh hm
  have := convLayout_herald_mode n hv h hh
  have := hS _ hm
  omega

/-! ### a placed gate as a `Step` of the circuit theorem with leaky gates -/

/-- the support of a placed gate meets only the qubit pairs it was placed on -/
theorem placement_support {Lg L : Layout} (P : Placement Lg L) (hokg : Lg.ok = true) (hok : L.ok = true)
    (p : ℕ) (hp : p ∈ L.qubits) (hnQ : p ∉ P.sel.map fun j => L.qubits.getD j 0) (c : Bool) :
    rail p c ∉ List.ofFn fun a : Fin Lg.m => (P.f a).val := by
  intro hm
  rw [List.mem_ofFn] at hm
  obtain ⟨a, ha⟩ := hm
  have ha' : P.φ a.val = rail p c := ha
  have hu := mem_used_of_lt Lg hokg a.val a.isLt
  unfold used at hu
  rcases List.mem_append.1 hu with hqa | hha
  · obtain ⟨q, hq, hap⟩ := List.mem_flatMap.1 hqa
    obtain ⟨i, hi, rfl⟩ := List.mem_iff_getElem.1 hq
    obtain ⟨hφ0, hφ1⟩ := P.qubit i hi
    rw [getD_eq_getElem_nat _ _ hi] at hφ0 hφ1
    have hisel : i < P.sel.length := by rw [P.sel_length]; exact hi
    have hsel : P.sel.getD i 0 < L.qubits.length := by
      apply P.sel_lt
      rw [getD_eq_getElem_nat _ _ hisel]
      exact List.getElem_mem _
    have hq' : L.qubits.getD (P.sel.getD i 0) 0 ∈ L.qubits := by
      rw [getD_eq_getElem_nat _ _ hsel]; exact List.getElem_mem _
    have hqq : L.qubits.getD (P.sel.getD i 0) 0 = p := by
      rcases List.mem_cons.1 hap with h0 | h1
      · exact rail_inj L hok _ _ hq' hp false c (by rw [rail_false, ← hφ0, ← h0, ha'])
      · rw [List.mem_singleton] at h1
        exact rail_inj L hok _ _ hq' hp true c (by rw [rail_true, ← hφ1, ← h1, ha'])
    apply hnQ
    rw [← hqq]
    refine List.mem_map.2 ⟨P.sel.getD i 0, ?_, rfl⟩
    rw [getD_eq_getElem_nat _ _ hisel]
    exact List.getElem_mem _
  · obtain ⟨h, hh', hh1⟩ := List.mem_map.1 hha
    exact absurd (by rw [← ha', ← hh1]) (rail_not_herald L hok p hp c _ (P.herald h hh'))

/-- a gate placed in a processor, as a step of a circuit with leaky gates -/
def placedStep [Zero R] [One R] {Lg L : Layout} (P : Placement Lg L) (B : Matrix (Fin Lg.m) (Fin Lg.m) R)
    (G : List Bool → List Bool → R) (c : R) (leaky : Bool) : Step L R :=
  ⟨List.ofFn fun a : Fin Lg.m => (P.f a).val, P.sel.map fun j => L.qubits.getD j 0, PM.place P.g B,
    placedGate P G, c, leaky⟩

/-- **a placed gate is an admissible step**: amplitudes `c · G` on its own layout, heralded unless leaky -/
theorem placedStep_ok [CommRing R] {Lg L : Layout} (P : Placement Lg L) (hokg : Lg.ok = true)
    (hok : L.ok = true) (hh : ∀ p ∈ L.heralds, p.2 ≤ 1) (B : Matrix (Fin Lg.m) (Fin Lg.m) R)
    (G : List Bool → List Bool → R) (c : R) (leaky : Bool)
    (hB : ∀ bo bi : List Bool, bo.length = Lg.qubits.length → bi.length = Lg.qubits.length →
      gateAmp B Lg PS.tt bo bi = c * G bo bi)
    (hN : leaky = false → NoLeak Lg B) : (placedStep P B G c leaky).Ok := by
  refine ⟨localOn_placement P B, gateTable_place P hokg hok hh B G c hB PS.tt (fun _ _ => rfl),
    fun hl => noLeak_place P hokg hok B (hN hl), fun p hp hnQ => ?_, fun p hp => ?_⟩
  · have h0 := placement_support P hokg hok p hp hnQ false
    have h1 := placement_support P hokg hok p hp hnQ true
    rw [rail_false] at h0
    rw [rail_true] at h1
    exact ⟨h0, h1⟩
  · obtain ⟨j, hj, rfl⟩ := List.mem_map.1 hp
    have := P.sel_lt j hj
    rw [getD_eq_getElem_nat _ _ this]
    exact List.getElem_mem _

/-! ### non-vacuity: 3 qubits, a heralded gate (heralds 6,7) then a post-processed CNOT (heralds 8,9) with control
on qubit 2 and data on qubit 0 -/

example : gateModes 3 2 0 1 = [4, 5, 0, 1, 8, 9] ∧ (convLayout 3 [1, 1, 0, 0]).ok = true ∧
    (convLayout 3 [1, 1, 0, 0]).heralds = [(6, 1), (7, 1), (8, 0), (9, 0)] := by decide

example : Nonempty (Placement ⟨6, [0, 2], [(4, 0), (5, 0)]⟩ (convLayout 3 [1, 1, 0, 0])) :=
  ⟨gatePlacement 3 [1, 1, 0, 0] 2 0 1 0 (by decide) (by decide) (by decide) (by decide) rfl rfl⟩

end PM.C20
