/-
  C17 — helper lemmas for `Model/C17R.lean` (result retrieval on the content of the answer; every
  operation under the real throttle).
-/
import PercevalModel.Lemmas.C17
import PercevalModel.Model.C17R

set_option linter.unusedSimpArgs false

namespace PM.C17
open PM.SM

/-! ## PART R -/

theorem readStatus_no_results_call (fixed : Bool) (j : Job) (r : Resp) :
    ∀ c ∈ (readStatus fixed j r).2.2, isResultsCall c = false := by
  intro c hc
  rw [mem_readStatus_calls fixed j r c hc]; rfl

theorem fetch_calls (j : Job) (val : Option Payload) (cs : List Call) (b : RBody) :
    (fetch j val cs b).2.calls = cs ++ [.results j.id] := by
  unfold fetch
  cases b <;> simp

/-- the guard: refused, nothing requested, nothing stored -/
theorem getResultsR_refused (fixed : Bool) (s : RJob) (r1 r2 : Resp) (b : RBody)
    (hok : (readStatus fixed s.job r1).2.1 = none)
    (hun : (readStatus fixed s.job r1).1.status.maybeCompleted = false) :
    getResultsR fixed s r1 r2 b =
      (⟨(readStatus fixed s.job r1).1, s.val⟩,
       ⟨.raised (.base .stillRunning), (readStatus fixed s.job r1).2.2⟩) := by
  unfold getResultsR
  generalize readStatus fixed s.job r1 = p at hok hun
  obtain ⟨j1, e, c⟩ := p
  simp only at hok hun
  subst hok
  simp [hun]

/-- a results request is only ever sent when the first status read went through and the status it
left in force is SUCCESS / ERROR / CANCELED / UNKNOWN -/
theorem getResultsR_request_guarded (fixed : Bool) (s : RJob) (r1 r2 : Resp) (b : RBody)
    (c : Call) (hc : c ∈ (getResultsR fixed s r1 r2 b).2.calls) (hr : isResultsCall c = true) :
    (readStatus fixed s.job r1).2.1 = none ∧
    (readStatus fixed s.job r1).1.status.maybeCompleted = true := by
  have h1 := readStatus_no_results_call fixed s.job r1
  unfold getResultsR at hc
  generalize readStatus fixed s.job r1 = p at hc h1 ⊢
  obtain ⟨j1, e, c1⟩ := p
  simp only at h1
  cases e with
  | some e =>
    simp only at hc
    have := h1 c hc; simp [hr] at this
  | none =>
    simp only at hc ⊢
    cases hm : j1.status.maybeCompleted with
    | false =>
      simp only [hm, Bool.not_false, if_true] at hc
      have := h1 c hc; simp [hr] at this
    | true => simp

/-- the status reads of the operation on a job that is final -/
theorem getResultsR_final (fixed : Bool) (s : RJob) (r1 r2 : Resp) (b : RBody)
    (hfin : s.job.status.completed = true) :
    getResultsR fixed s r1 r2 b =
      if truthyVal s.val then (s, ⟨.value (s.val.getD .null), []⟩) else fetch s.job s.val [] b := by
  have hnd : ∀ r, readStatus fixed s.job r = (s.job, none, []) :=
    fun r => readStatus_not_due (statusDue_of_completed hfin)
  unfold getResultsR
  simp only [hnd, maybeCompleted_of_completed hfin, Bool.not_true, Bool.false_eq_true, if_false, hfin,
    if_true, List.append_nil]

theorem lookupExc_failed {j : Job} (h : j.status.failed = true) : lookupExc j = .jobFailed j.msg := by
  simp [lookupExc, h]

/-- the retrieval ends in a KeyError / TypeError -/
def RBody.lookupFails : RBody → Bool
  | .noKey => true
  | .notStr => true
  | .payload p => (process p).2 == .lookup
  | _ => false

theorem fetch_lookup (j : Job) (val : Option Payload) (cs : List Call) (b : RBody)
    (hb : b.lookupFails = true) :
    (fetch j val cs b).2.res = .raised (.base (lookupExc j)) := by
  unfold fetch
  cases b with
  | payload p =>
    simp only [RBody.lookupFails, beq_iff_eq] at hb
    simp [hb]
  | noKey => rfl
  | notStr => rfl
  | http c => simp [RBody.lookupFails] at hb
  | conn => simp [RBody.lookupFails] at hb
  | badJson => simp [RBody.lookupFails] at hb

/-- what a failed final job can answer to `get_results`: never "still running", never the anonymous
"Results are not available" -/
theorem fetch_failed_outcomes (j : Job) (val : Option Payload) (cs : List Call) (b : RBody)
    (hf : j.status.failed = true) :
    (fetch j val cs b).2.res ≠ .raised (.base .unavailable) ∧
    (fetch j val cs b).2.res ≠ .raised (.base .stillRunning) := by
  unfold fetch
  cases b with
  | payload p =>
    simp only [lookupExc, hf, if_true]
    cases (process p).2 <;> simp
  | noKey => simp [lookupExc, hf]
  | notStr => simp [lookupExc, hf]
  | http c => simp
  | conn => simp
  | badJson => simp

/-! ### the mapping -/

theorem argsFor_keys (deltas iter : List (String × Nat)) :
    (argsFor deltas iter).map Prod.fst = deltas.map Prod.fst := by
  simp [argsFor, List.map_map, Function.comp_def]

theorem argsFor_nil (deltas : List (String × Nat)) : argsFor deltas [] = deltas := by
  simp [argsFor]

theorem argsFor_override (deltas iter : List (String × Nat)) (k : String) (v x : Nat)
    (hk : (k, v) ∈ deltas) (hx : iter.lookup k = some x) : (k, x) ∈ argsFor deltas iter := by
  simp only [argsFor, List.mem_map]
  exact ⟨(k, v), hk, by simp [hx]⟩

theorem argsFor_default (deltas iter : List (String × Nat)) (k : String) (v : Nat)
    (hk : (k, v) ∈ deltas) (hx : iter.lookup k = none) : (k, v) ∈ argsFor deltas iter := by
  simp only [argsFor, List.mem_map]
  exact ⟨(k, v), hk, by simp [hx]⟩

theorem argsFor_empty_deltas (iter : List (String × Nat)) : argsFor [] iter = [] := rfl

theorem mapItems_ok (deltas : List (String × Nat)) (items : List Item) (h : itemsOK deltas items) :
    mapItems deltas items = (mapSpec deltas items, true) := by
  induction items with
  | nil => rfl
  | cons it rest ih =>
    have hit := h it (by simp)
    have hrest : itemsOK deltas rest := fun x hx => h x (by simp [hx])
    obtain ⟨v, hv⟩ := Option.isSome_iff_exists.mp hit.1
    unfold mapItems
    cases hd : deltas.isEmpty with
    | true =>
      have : deltas = [] := by simpa using hd
      subst this
      simp [hv, ih hrest, mapSpec, argsFor]
    | false =>
      obtain ⟨i, hi⟩ := Option.isSome_iff_exists.mp (hit.2 hd)
      simp [hv, hi, ih hrest, mapSpec]

theorem mapItems_length (deltas : List (String × Nat)) (items : List Item) :
    (mapItems deltas items).1.length = items.length := by
  induction items with
  | nil => rfl
  | cons it rest ih =>
    unfold mapItems
    cases deltas.isEmpty <;> cases it.iter <;> cases it.res <;> simp [ih]

/-- a dictionary whose mapping can be carried out on every item -/
def RDict.mappable (d : RDict) (dl : Option (List (String × Nat))) (items : List Item) : Prop :=
  d.ctx = .mapping .good dl ∧ d.rlist = some items ∧ itemsOK (dl.getD []) items

theorem process_mappable (d : RDict) (dl : Option (List (String × Nat))) (items : List Item)
    (h : d.mappable dl items) :
    process (.dict d) = (.dict { d with rlist := some (mapSpec (dl.getD []) items) }, .ok) := by
  obtain ⟨h1, h2, h3⟩ := h
  simp [process, h1, h2, mapItems_ok _ _ h3]

theorem process_single (d : RDict) (dl : Option (List (String × Nat))) (v : RV)
    (h1 : d.ctx = .mapping .good dl) (h2 : d.rlist = none) (h3 : d.results = some v) :
    process (.dict d) = (.dict { d with results := some (.mapped v (dl.getD [])) }, .ok) := by
  simp [process, h1, h2, h3]

theorem process_no_context (d : RDict) (h : d.ctx = .absent ∨ d.ctx = .noMapping) :
    process (.dict d) = (.dict d, .ok) := by
  rcases h with h | h <;> simp [process, h]

theorem mappable_truthy (d : RDict) (dl : Option (List (String × Nat))) (items : List Item)
    (h : d.mappable dl items) (l : List Item) : (Payload.dict { d with rlist := some l }).truthy = true := by
  simp [Payload.truthy]

/-! ### the cache of a final job -/

theorem rstep_final_cached (fixed : Bool) (s : RJob) (op : ROp) (p : Payload)
    (hfin : s.job.status.completed = true) (hv : s.val = some p) (ht : p.truthy = true)
    (hsw : ∀ o, op = .base o → o.switches = false) :
    (rstep fixed s op).1.job.status = s.job.status ∧ (rstep fixed s op).1.val = some p ∧
    (∀ r1 r2 b, op = .getResults r1 r2 b → (rstep fixed s op).2 = ⟨.value p, []⟩) ∧
    (∀ c ∈ (rstep fixed s op).2.calls, isResultsCall c = true → ∃ o, op = .base o) := by
  cases op with
  | base o =>
    have h := step_final fixed s.job o hfin (hsw o rfl)
    refine ⟨?_, ?_, ?_, ?_⟩
    · simpa [rstep] using h.1
    · simp [rstep, hsw o rfl, hv]
    · intro r1 r2 b hb; cases hb
    · exact fun _ _ _ => ⟨o, rfl⟩
  | getResults r1 r2 b =>
    have htv : truthyVal s.val = true := by simp [truthyVal, hv, ht]
    have h := getResultsR_final fixed s r1 r2 b hfin
    simp only [htv, if_true] at h
    refine ⟨?_, ?_, ?_, ?_⟩
    · simp [rstep, h]
    · simp [rstep, h, hv]
    · intro r1' r2' b' _
      simp [rstep, h, hv]
    · intro c hc
      simp [rstep, h] at hc

/-- the operations `ROp.base` is meant to carry in a history on one object: not `get_results` (the
results machine has its own) and not a rerun that is followed into the new job -/
def Op.stays : Op → Bool
  | .getResults _ _ _ => false
  | .rerun _ _ _ sw => !sw
  | _ => true

theorem Op.stays_switches {o : Op} (h : o.stays = true) : o.switches = false := by
  cases o <;> simp_all [Op.stays, Op.switches]

theorem step_final_no_results_call (fixed : Bool) (j : Job) (o : Op) (hc : j.status.completed = true)
    (ho : o.stays = true) : ∀ c ∈ (step fixed j o).2.calls, isResultsCall c = false := by
  have hnd : ∀ r, readStatus fixed j r = (j, none, []) :=
    fun r => readStatus_not_due (statusDue_of_completed hc)
  cases o with
  | execute h => simp [step, execute, canExecute, isWaiting_of_completed hc]
  | poll v r => simp [step, poll, hnd]
  | cancel r h => simp [step, cancel, hnd, cancellable_of_completed hc]
  | rerun r1 r2 h sw =>
    simp only [step, rerun, hnd]
    split
    · cases h <;> simp [isResultsCall]
    · simp
  | getResults r1 r2 h => simp [Op.stays] at ho

/-! ## PART K -/

theorem readStatusAt_completed (fixed : Bool) (delay : Int) (t : TJob) (now : Int) (r : Resp)
    (h : statusDue t.job = false) : readStatusAt fixed delay t now r = (t, none, []) := by
  simp [readStatusAt, h]

/-- a read of the clocked machine is the read of the plain machine or nothing at all -/
theorem readStatusAt_cases (fixed : Bool) (delay : Int) (t : TJob) (now : Int) (r : Resp) :
    (readStatusAt fixed delay t now r = (t, none, [])) ∨
    (now - t.prev > delay ∧
     readStatusAt fixed delay t now r =
       (⟨(readStatus fixed t.job r).1, now⟩, (readStatus fixed t.job r).2.1, (readStatus fixed t.job r).2.2)) := by
  unfold readStatusAt
  cases hdue : statusDue t.job
  · left; simp
  · by_cases h : now - t.prev > delay
    · right; simp [h]
    · left; simp [h]

/-- with a negative delay and a clock that does not run backwards: the plain read, and the clock
hypothesis again -/
theorem readStatusAt_neg (fixed : Bool) (delay : Int) (t : TJob) (now : Int) (r : Resp)
    (hd : delay < 0) (hm : t.prev ≤ now) :
    ∃ p, p ≤ now ∧ readStatusAt fixed delay t now r =
      (⟨(readStatus fixed t.job r).1, p⟩, (readStatus fixed t.job r).2.1, (readStatus fixed t.job r).2.2) := by
  unfold readStatusAt
  cases hdue : statusDue t.job
  · exact ⟨t.prev, hm, by simp [readStatus_not_due hdue]⟩
  · have : now - t.prev > delay := by omega
    exact ⟨now, Int.le_refl _, by simp [this]⟩

/-- one step of the clocked machine with a negative delay is the step of the main model -/
theorem kstep_neg (fixed : Bool) (delay : Int) (t : TJob) (k : KOp) (hd : delay < 0)
    (hm : t.prev ≤ k.now1) (h12 : k.now1 ≤ k.now2) (h0 : 0 ≤ k.now2) :
    (kstep fixed delay t k).1.job = (step fixed t.job k.op).1 ∧
    (kstep fixed delay t k).2 = (step fixed t.job k.op).2 ∧
    (kstep fixed delay t k).1.prev ≤ k.now2 := by
  obtain ⟨n1, n2, op⟩ := k
  simp only at hm h12 h0
  have hm2 : t.prev ≤ n2 := Int.le_trans hm h12
  cases op with
  | execute h => simp [kstep, step, hm2]
  | poll v r =>
    obtain ⟨p, hp, he⟩ := readStatusAt_neg fixed delay t n1 r hd hm
    simp only [kstep, step, pollAt, poll, he]
    generalize readStatus fixed t.job r = q
    obtain ⟨j1, e, c⟩ := q
    cases e <;> simp <;> omega
  | cancel r h =>
    obtain ⟨p, hp, he⟩ := readStatusAt_neg fixed delay t n1 r hd hm
    simp only [kstep, step, cancelAt, cancel, he]
    generalize readStatus fixed t.job r = q
    obtain ⟨j1, e, c⟩ := q
    cases e with
    | some e => simp; omega
    | none =>
      simp only
      split
      · cases h <;> simp <;> omega
      · simp; omega
  | rerun r1 r2 h sw =>
    obtain ⟨p, hp, he⟩ := readStatusAt_neg fixed delay t n1 r1 hd hm
    simp only [kstep, step, rerunAt, rerun, he]
    generalize readStatus fixed t.job r1 = q
    obtain ⟨j1, e, c⟩ := q
    cases e with
    | some e => simp; omega
    | none =>
      simp only
      split
      · cases h with
        | ok n => cases sw <;> simp <;> omega
        | http c => simp; omega
        | conn => simp; omega
      · obtain ⟨p2, hp2, he2⟩ := readStatusAt_neg fixed delay ⟨j1, p⟩ n2 r2 hd (by simp; omega)
        simp only [he2]
        generalize readStatus fixed j1 r2 = q2
        obtain ⟨j2, e2, c2⟩ := q2
        cases e2 <;> simp <;> omega
  | getResults r1 r2 h =>
    obtain ⟨p, hp, he⟩ := readStatusAt_neg fixed delay t n1 r1 hd hm
    simp only [kstep, step, getResultsAt, getResults, he]
    generalize readStatus fixed t.job r1 = q
    obtain ⟨j1, e, c⟩ := q
    cases e with
    | some e => simp; omega
    | none =>
      simp only
      split
      · simp; omega
      · cases hc : j1.cache.isSome with
        | false =>
          simp only [Bool.false_eq_true, if_false, Bool.false_and]
          cases h <;> simp [hc] <;> omega
        | true =>
          obtain ⟨p2, hp2, he2⟩ := readStatusAt_neg fixed delay ⟨j1, p⟩ n2 r2 hd (by simp; omega)
          simp only [if_true, he2]
          generalize readStatus fixed j1 r2 = q2
          obtain ⟨j2, e2, c2⟩ := q2
          cases e2 with
          | some e2 => simp; omega
          | none =>
            simp only
            split
            · simp; omega
            · cases h <;> simp <;> omega

/-- … and so is a whole history -/
theorem krun_neg (fixed : Bool) (delay : Int) (hd : delay < 0) (ks : List KOp) (t : TJob) (t0 : Int)
    (ht : t.prev ≤ t0) (h0 : 0 ≤ t0) (hmono : Monotone t0 ks) :
    (run (kstep fixed delay) t ks).1.job = (run (step fixed) t.job (ks.map (·.op))).1 ∧
    (run (kstep fixed delay) t ks).2 = (run (step fixed) t.job (ks.map (·.op))).2 := by
  induction ks generalizing t t0 with
  | nil => simp [run]
  | cons k ks ih =>
    obtain ⟨ha, hb, hc⟩ := hmono
    have h0' : 0 ≤ k.now2 := by omega
    obtain ⟨e1, e2, e3⟩ := kstep_neg fixed delay t k hd (Int.le_trans ht ha) hb h0'
    have := ih (kstep fixed delay t k).1 k.now2 e3 h0' hc
    simp only [List.map_cons, run_cons, e2]
    rw [e1] at this
    exact ⟨this.1, by rw [this.2]⟩

/-- a final job under the clock: the step of the main model, whatever the times -/
theorem kstep_final (fixed : Bool) (delay : Int) (t : TJob) (k : KOp)
    (hfin : t.job.status.completed = true) :
    (kstep fixed delay t k).1.job = (step fixed t.job k.op).1 ∧
    (kstep fixed delay t k).2 = (step fixed t.job k.op).2 := by
  have hnd : statusDue t.job = false := statusDue_of_completed hfin
  have hA : ∀ now r, readStatusAt fixed delay t now r = (t, none, []) :=
    fun now r => readStatusAt_completed fixed delay t now r hnd
  have hB : ∀ r, readStatus fixed t.job r = (t.job, none, []) := fun r => readStatus_not_due hnd
  obtain ⟨n1, n2, op⟩ := k
  cases op with
  | execute h => simp [kstep, step]
  | poll v r => simp [kstep, step, pollAt, poll, hA, hB]
  | cancel r h =>
    simp only [kstep, step, cancelAt, cancel, hA, hB, cancellable_of_completed hfin]
    simp
  | rerun r1 r2 h sw =>
    simp only [kstep, step, rerunAt, rerun, hA, hB]
    split
    · cases h with
      | ok n => cases sw <;> simp
      | http c => simp
      | conn => simp
    · simp
  | getResults r1 r2 h =>
    simp only [kstep, step, getResultsAt, getResults, hA, hB, maybeCompleted_of_completed hfin]
    simp only [Bool.not_true, Bool.false_eq_true, if_false, ite_self]
    split
    · simp
    · cases h <;> simp

end PM.C17
