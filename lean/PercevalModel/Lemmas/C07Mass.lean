/-
  C07 — total probability one of the enlarged lossless distribution (helper lemmas for
  `Props/C07.lean`).  Uses C02's normalisation theorem `dist_sums_to_one_GQ`.
-/
import PercevalModel.Lemmas.C07
import PercevalModel.Lemmas.FockComp

open Matrix

namespace PM.C07

/-- the mass of the full distribution is the sum of the Fock probabilities over the enumeration -/
theorem mass_fullDist {N : ℕ} (U : Matrix (Fin N) (Fin N) GQ) (s : List ℕ) :
    Dist.mass (fullDist U s) = ((Fock.allStates N s.sum).map (Fock.prob U s)).sum := by
  simp [Dist.mass, fullDist, Function.comp_def]

/-- a component list over `ℚ[i]` whose unitary components are unitary and whose loss channels are given by
*real* amplitudes `c = √(1 - loss)`, `s = √loss`, `c² + s² = 1` — i.e. a transmission `τ = c² = 1 - loss`
with `0 ≤ τ ≤ 1` (both bounds follow from `c² + s² = 1` over ℚ) -/
def RealLoss : Items GQ → Prop
  | [] => True
  | (_, .uni _ U) :: rest => IsUnitary U ∧ RealLoss rest
  | (_, .lc c s) :: rest => (c.im = 0 ∧ s.im = 0 ∧ c.re * c.re + s.re * s.re = 1) ∧ RealLoss rest

/-- the transmission of a real loss channel lies in `[0, 1]` -/
theorem realLoss_transmission (c s : GQ) (h : c.re * c.re + s.re * s.re = 1) :
    0 ≤ c.re * c.re ∧ c.re * c.re ≤ 1 ∧ s.re * s.re = 1 - c.re * c.re := by
  have h1 := mul_self_nonneg c.re
  have h2 := mul_self_nonneg s.re
  exact ⟨h1, by linarith, by linarith⟩

end PM.C07
