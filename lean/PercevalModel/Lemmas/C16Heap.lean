/-
  C16 (extension) — helper lemmas for the heap machine (`Model/C16Heap.lean`).  Core Lean only.
-/
import PercevalModel.Model.C16Heap
import PercevalModel.Lemmas.C16

namespace PM.C16
open PM.SM

/-! ### `aliased = false` is the symbol machine -/

theorem hstep_false (hw : HWorld) (op : Op) :
    (hstep false hw op).1.w = (step hw.w op).1 ∧ (hstep false hw op).2 = (step hw.w op).2 := by
  cases op <;> exact ⟨rfl, rfl⟩

theorem hstep_not_execute (aliased : Bool) (hw : HWorld) (op : Op) (h : op.isExecute = false) :
    (hstep aliased hw op).1.w = (step hw.w op).1 ∧ (hstep aliased hw op).2 = (step hw.w op).2 := by
  cases op <;> first | exact ⟨rfl, rfl⟩ | simp [Op.isExecute] at h

/-! ### `setLast` -/

theorem setLast_getLast? {α : Type} (l : List α) (x : α) : (setLast l x).getLast? = some x := by
  unfold setLast
  split <;> simp

theorem setLast_ne_nil {α : Type} (l : List α) (x : α) : setLast l x ≠ [] := by
  unfold setLast
  split <;> simp

theorem setLast_length {α : Type} (l : List α) (x : α) (h : l ≠ []) : (setLast l x).length = l.length := by
  unfold setLast
  rw [if_neg h]
  have : 0 < l.length := List.length_pos_iff.mpr h
  rw [List.length_append, List.length_dropLast, List.length_singleton]
  omega

theorem setLast_getD {α : Type} (l : List α) (x d : α) (i : Nat) (h : i + 1 < l.length) :
    (setLast l x).getD i d = l.getD i d := by
  have hne : l ≠ [] := by intro e; subst e; simp at h
  unfold setLast
  rw [if_neg hne]
  have h1 : i < l.dropLast.length := by simp; omega
  simp only [List.getD_eq_getElem?_getD]
  rw [List.getElem?_append_left h1, List.getElem?_dropLast]
  have h2 : i < l.length - 1 := by omega
  rw [if_pos h2]

theorem setLast_getD_last {α : Type} (l : List α) (x d : α) (h : l ≠ []) :
    (setLast l x).getD (l.length - 1) d = x := by
  unfold setLast
  rw [if_neg h]
  have : 0 < l.length := List.length_pos_iff.mpr h
  simp only [List.getD_eq_getElem?_getD]
  rw [List.getElem?_append_right (by simp)]
  simp

/-! ### a request read through its references -/

theorem dget_derefPayload_other (pl : Dict V) (P : Dict PV) (I : Option (List (Dict IV))) (x : String)
    (h1 : x ≠ "parameters") (h2 : x ≠ "iterator") : dget (derefPayload pl P I) x = dget pl x := by
  unfold derefPayload
  cases I with
  | none =>
    simp only
    split
    · rw [dget_dset_ne _ _ _ _ (Ne.symm h1)]
    · rfl
  | some its =>
    simp only
    rw [dget_dset_ne _ _ _ _ (Ne.symm h2)]
    split
    · rw [dget_dset_ne _ _ _ _ (Ne.symm h1)]
    · rfl

theorem dget_derefPayload_parameters (pl : Dict V) (P : Dict PV) (I : Option (List (Dict IV)))
    (h : (dget pl "parameters").isSome = true) :
    dget (derefPayload pl P I) "parameters" = some (.params P) := by
  unfold derefPayload
  cases I with
  | none => simp only [h, if_true]; exact dget_dset_self _ _ _
  | some its =>
    simp only [h, if_true]
    rw [dget_dset_ne _ _ _ _ (by decide)]
    exact dget_dset_self _ _ _

theorem dget_derefPayload_iterator (pl : Dict V) (P : Dict PV) (I : Option (List (Dict IV))) :
    dget (derefPayload pl P I) "iterator" =
      match I with
      | some its => some (.iter its.length)
      | none => dget pl "iterator" := by
  unfold derefPayload
  cases I with
  | none =>
    simp only
    split
    · rw [dget_dset_ne _ _ _ _ (by decide)]
    · rfl
  | some its => simp only; exact dget_dset_self _ _ _

/-! ### the current objects hold what the processor and the sampler hold -/

/-- the last dictionary is the processor's `_parameters`, the last list the sampler's `_iterator` -/
def HWorld.Current (hw : HWorld) : Prop :=
  (∀ e, hw.w.exp = some e → hw.pobjs.getLast? = some e.params) ∧
  (∀ s, hw.w.sampler = some s → hw.iobjs.getLast? = some s.iterator)

theorem heapAfter_current (hw : HWorld) (op : Op) (w' : World) (o : Out) : (heapAfter hw op w' o).Current := by
  constructor
  · intro e he
    have he' : w'.exp = some e := he
    simp only [heapAfter, he']
    exact setLast_getLast? _ _
  · intro s hs
    have hs' : w'.sampler = some s := hs
    simp only [heapAfter, hs']
    exact setLast_getLast? _ _

theorem hstep_current (aliased : Bool) (hw : HWorld) (op : Op) : (hstep aliased hw op).1.Current :=
  heapAfter_current _ _ _ _

/-- a call that does not rebind `_parameters` keeps the number of dictionaries (once there is one), the content
of all but the current one, and the references of the jobs created so far -/
theorem heapAfter_keeps_objects (hw : HWorld) (op : Op) (w' : World) (o : Out) (hop : op.rebindsParams = false)
    (hne : hw.pobjs ≠ []) :
    (heapAfter hw op w' o).pobjs.length = hw.pobjs.length ∧
    (∀ i, i + 1 < hw.pobjs.length → (heapAfter hw op w' o).pobjs.getD i [] = hw.pobjs.getD i []) ∧
    (∀ idx, idx < hw.jrefs.length → (heapAfter hw op w' o).jrefs[idx]? = hw.jrefs[idx]?) := by
  refine ⟨?_, ?_, ?_⟩
  · simp only [heapAfter, hop, Bool.false_and, Bool.false_eq_true, if_false]
    split
    · exact setLast_length _ _ hne
    · rfl
  · intro i hi
    simp only [heapAfter, hop, Bool.false_and, Bool.false_eq_true, if_false]
    split
    · exact setLast_getD _ _ _ _ hi
    · rfl
  · intro idx hidx
    by_cases hc : w'.jobs.length = hw.w.jobs.length + 1
    · simp only [heapAfter, hc, if_true]
      exact List.getElem?_append_left hidx
    · simp only [heapAfter, hc, if_false]

theorem hstep_keeps_objects (aliased : Bool) (hw : HWorld) (op : Op) (hop : op.rebindsParams = false)
    (hne : hw.pobjs ≠ []) :
    (hstep aliased hw op).1.pobjs.length = hw.pobjs.length ∧
    (∀ i, i + 1 < hw.pobjs.length → (hstep aliased hw op).1.pobjs.getD i [] = hw.pobjs.getD i []) ∧
    (∀ idx, idx < hw.jrefs.length → (hstep aliased hw op).1.jrefs[idx]? = hw.jrefs[idx]?) :=
  heapAfter_keeps_objects hw op _ _ hop hne

end PM.C16
