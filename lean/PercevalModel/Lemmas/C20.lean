/-
  C20 — helper lemmas (model: `Model/C20.lean`).
-/
import PercevalModel.Model.C20
import PercevalModel.Props.C02
import Mathlib.LinearAlgebra.Matrix.ConjTranspose

open Matrix

namespace PM.C20
open PM.Fock PM.SimSpec

variable {R : Type*}

/-! ### executable evaluation = specification -/

theorem permSkip_eq_permRec [CommRing R] [DecidableEq R] (f : ℕ → ℕ → R) :
    ∀ (cols rows : List ℕ), permSkip f rows cols = permRec f rows cols
  | [], rows => by simp [permSkip, permRec]
  | c :: cs, rows => by
    simp only [permSkip, permRec]
    congr 1
    apply List.map_congr_left
    intro i _
    by_cases h : f (rows.getD i 0) c = 0
    · simp only [h, if_true, zero_mul]
    · simp only [h, if_false]
      rw [permSkip_eq_permRec f cs]

theorem fastAmp_eq_pamp [CommRing R] [DecidableEq R] {m : ℕ} (U : Matrix (Fin m) (Fin m) R)
    (s t : List ℕ) : fastAmp U s t = pamp U s t := by
  unfold fastAmp
  by_cases h : s.sum = t.sum
  · rw [if_pos h, permSkip_eq_permRec, PM.C02.pamp_eq_permRec U s t h]
  · rw [if_neg h, PM.C02.pamp_zero_of_sum_ne U s t h]

/-! ### degrees, forests -/

theorem deg_perm {S S' : List Edge} (h : S.Perm S') (v : ℕ) : deg v S = deg v S' := by
  unfold deg
  exact (h.map _).sum_eq

theorem deg_nil (v : ℕ) : deg v [] = 0 := rfl

theorem deg_cons (v : ℕ) (e : Edge) (S : List Edge) :
    deg v (e :: S) = ((if e.1 = v then 1 else 0) + (if e.2 = v then 1 else 0)) + deg v S := by
  simp [deg]

theorem deg_pos_mem_verts {v : ℕ} {S : List Edge} (h : 0 < deg v S) : v ∈ verts S := by
  induction S with
  | nil => simp [deg] at h
  | cons e S ih =>
    rw [deg_cons] at h
    simp only [verts, List.flatMap_cons, List.mem_append, List.mem_cons, List.not_mem_nil, or_false]
    by_cases h1 : e.1 = v
    · exact Or.inl (Or.inl h1.symm)
    · by_cases h2 : e.2 = v
      · exact Or.inl (Or.inr h2.symm)
      · simp only [h1, h2, if_false, Nat.zero_add] at h
        exact Or.inr (ih h)

theorem forestB_iff (E : List Edge) : forestB E = true ↔ Forest E := by
  unfold forestB Forest
  simp only [List.all_eq_true, List.mem_sublists', Bool.or_eq_true, List.isEmpty_iff,
    List.any_eq_true, beq_iff_eq]
  constructor
  · intro h S hS hne
    obtain ⟨l, hl, hsub⟩ := hS
    have hlne : l ≠ [] := by
      intro e; subst e; exact hne (List.Perm.eq_nil hl.symm)
    rcases h l hsub with h0 | ⟨v, _, hv⟩
    · exact absurd h0 hlne
    · exact ⟨v, by rw [← deg_perm hl v]; exact hv⟩
  · intro h S hS
    by_cases hne : S = []
    · exact Or.inl hne
    · obtain ⟨v, hv⟩ := h S hS.subperm hne
      exact Or.inr ⟨v, deg_pos_mem_verts (by omega), hv⟩

theorem Forest.subperm {E E' : List Edge} (h : Forest E) (hs : E'.Subperm E) : Forest E' :=
  fun S hS hne => h S (hS.trans hs) hne

theorem Forest.perm {E E' : List Edge} (h : Forest E) (hp : E.Perm E') : Forest E' :=
  h.subperm hp.symm.subperm

theorem forest_nil : Forest [] := by
  intro S hS hne
  exact absurd (List.subperm_nil.mp hS) hne

/-- two edges are the same unordered pair of qubits -/
def sameUnordered (e f : Edge) : Prop := (e.1 = f.1 ∧ e.2 = f.2) ∨ (e.1 = f.2 ∧ e.2 = f.1)

instance (e f : Edge) : Decidable (sameUnordered e f) := by unfold sameUnordered; infer_instance

theorem Forest.no_loop {E : List Edge} (h : Forest E) {e : Edge} (he : e ∈ E) : e.1 ≠ e.2 := by
  intro heq
  obtain ⟨v, hv⟩ := h [e] (List.singleton_subperm_iff.mpr he) (by simp)
  rw [deg_cons, deg_nil] at hv
  by_cases h1 : e.1 = v
  · have h2 : e.2 = v := heq ▸ h1
    simp [h1, h2] at hv
  · have h2 : ¬ e.2 = v := heq ▸ h1
    simp [h1, h2] at hv

theorem Forest.no_parallel {E : List Edge} (h : Forest E) {e f : Edge} (hef : [e, f].Subperm E) :
    ¬ sameUnordered e f := by
  intro hs
  obtain ⟨v, hv⟩ := h [e, f] hef (by simp)
  rw [deg_cons, deg_cons, deg_nil] at hv
  rcases hs with ⟨h1, h2⟩ | ⟨h1, h2⟩
  · rw [h1, h2] at hv
    by_cases a : f.1 = v <;> by_cases b : f.2 = v <;> simp [a, b] at hv
  · rw [h1, h2] at hv
    by_cases a : f.1 = v <;> by_cases b : f.2 = v <;> simp [a, b] at hv

/-! ### `itertools.combinations` -/

theorem mem_combos : ∀ (r : ℕ) (L S : List Edge), S ∈ combos r L ↔ S.Sublist L ∧ S.length = r
  | 0, L, S => by
    cases L <;> simp only [combos, List.mem_singleton] <;> constructor
    · rintro rfl; simp
    · rintro ⟨_, h⟩; exact List.length_eq_zero_iff.mp h
    · rintro rfl; simp
    · rintro ⟨_, h⟩; exact List.length_eq_zero_iff.mp h
  | r + 1, [], S => by
    simp only [combos, List.not_mem_nil, false_iff, not_and]
    intro h; rw [List.sublist_nil.mp h]; simp
  | r + 1, x :: xs, S => by
    simp only [combos, List.mem_append, List.mem_map]
    constructor
    · rintro (⟨T, hT, rfl⟩ | h)
      · obtain ⟨h1, h2⟩ := (mem_combos r xs T).1 hT
        exact ⟨h1.cons_cons x, by simp [h2]⟩
      · obtain ⟨h1, h2⟩ := (mem_combos (r + 1) xs S).1 h
        exact ⟨h1.cons x, h2⟩
    · rintro ⟨h1, h2⟩
      cases h1 with
      | cons _ h => exact Or.inr ((mem_combos (r + 1) xs S).2 ⟨h, h2⟩)
      | cons_cons _ h =>
        rename_i T
        exact Or.inl ⟨T, (mem_combos r xs T).2 ⟨h, by simpa using h2⟩, rfl⟩

theorem mem_candidates {L S : List Edge} : S ∈ candidates L ↔ S.Sublist L ∧ S ≠ [] := by
  simp only [candidates, List.mem_flatMap, List.mem_range]
  constructor
  · rintro ⟨r, _, h⟩
    obtain ⟨h1, h2⟩ := (mem_combos (r + 1) L S).1 h
    exact ⟨h1, by intro e; subst e; simp at h2⟩
  · rintro ⟨h1, h2⟩
    have hpos : 0 < S.length := List.length_pos_iff.mpr h2
    refine ⟨S.length - 1, ?_, (mem_combos _ L S).2 ⟨h1, by omega⟩⟩
    have := h1.length_le
    omega

/-! ### the "first strictly larger admissible candidate" fold -/

def bestStep (P : List Edge → Bool) (best S : List Edge) : List Edge :=
  if P S && decide (S.length > best.length) then S else best

theorem foldl_best (P : List Edge → Bool) : ∀ (l : List (List Edge)) (init : List Edge),
    let res := l.foldl (bestStep P) init
    (res = init ∨ (res ∈ l ∧ P res = true)) ∧ init.length ≤ res.length ∧
      ∀ S ∈ l, P S = true → S.length ≤ res.length
  | [], init => by simp
  | x :: xs, init => by
    have ih := foldl_best P xs (bestStep P init x)
    simp only [List.foldl_cons] at ih ⊢
    obtain ⟨h1, h2, h3⟩ := ih
    have hstep : (bestStep P init x = init ∨ (bestStep P init x = x ∧ P x = true)) ∧
        init.length ≤ (bestStep P init x).length ∧ (P x = true → x.length ≤ (bestStep P init x).length) := by
      unfold bestStep
      by_cases hp : P x = true
      · by_cases hl : x.length > init.length
        · simp [hp, hl]; omega
        · simp [hp, hl]; omega
      · simp [hp]
    obtain ⟨s1, s2, s3⟩ := hstep
    refine ⟨?_, by omega, ?_⟩
    · rcases h1 with h1 | ⟨h1, hp⟩
      · rcases s1 with s1 | ⟨s1, hp⟩
        · exact Or.inl (h1.trans s1)
        · refine Or.inr ⟨?_, ?_⟩
          · rw [h1, s1]; exact List.mem_cons_self
          · rw [h1, s1]; exact hp
      · exact Or.inr ⟨List.mem_cons_of_mem _ h1, hp⟩
    · intro S hS hP
      rcases List.mem_cons.mp hS with rfl | hS
      · exact (s3 hP).trans h2
      · exact h3 S hS hP

theorem findMaxRalph_eq (pairs extra : List Edge) :
    findMaxRalph pairs extra = (candidates pairs).foldl (bestStep fun S => forestB (S ++ extra)) [] := rfl

theorem findMaxRalph_sublist (pairs extra : List Edge) : (findMaxRalph pairs extra).Sublist pairs := by
  rw [findMaxRalph_eq]
  obtain ⟨h1, _, _⟩ := foldl_best (fun S => forestB (S ++ extra)) (candidates pairs) []
  rcases h1 with h1 | ⟨h1, _⟩
  · rw [h1]; exact List.nil_sublist _
  · exact (mem_candidates.mp h1).1

theorem findMaxRalph_forest (pairs extra : List Edge) :
    findMaxRalph pairs extra = [] ∨ Forest (findMaxRalph pairs extra ++ extra) := by
  rw [findMaxRalph_eq]
  obtain ⟨h1, _, _⟩ := foldl_best (fun S => forestB (S ++ extra)) (candidates pairs) []
  rcases h1 with h1 | ⟨_, h1⟩
  · exact Or.inl h1
  · exact Or.inr ((forestB_iff _).mp h1)

theorem findMaxRalph_max (pairs extra S : List Edge) (hS : S.Sublist pairs)
    (hF : Forest (S ++ extra)) : S.length ≤ (findMaxRalph pairs extra).length := by
  rw [findMaxRalph_eq]
  obtain ⟨_, _, h3⟩ := foldl_best (fun S => forestB (S ++ extra)) (candidates pairs) []
  by_cases hne : S = []
  · subst hne; simp
  · exact h3 S (mem_candidates.mpr ⟨hS, hne⟩) ((forestB_iff _).mpr hF)

/-! ### the labelling loop -/

theorem chosen_perm : ∀ (L R : List Edge), R.Subperm L → (chosen L R).Perm R
  | [], R, h => by
    rw [List.subperm_nil.mp h]; simp [chosen]
  | x :: xs, R, h => by
    unfold chosen
    by_cases hx : x ∈ R
    · rw [if_pos hx]
      have h' : (R.erase x).Subperm xs := by
        have := h.erase x
        simpa using this
      exact ((chosen_perm xs (R.erase x) h').cons x).trans (List.perm_cons_erase hx).symm
    · rw [if_neg hx]
      have h' : R.Subperm xs := by
        have := h.erase x
        rw [List.erase_of_not_mem hx] at this
        simpa using this
      exact chosen_perm xs R h'

theorem assign_length : ∀ (L R : List Edge), (assign L R).length = L.length
  | [], _ => rfl
  | x :: xs, R => by
    unfold assign
    split <;> simp [assign_length xs]

theorem chosen_eq_filter : ∀ (L R : List Edge),
    chosen L R = ((L.zip (assign L R)).filter (·.2)).map (·.1)
  | [], _ => rfl
  | x :: xs, R => by
    unfold chosen assign
    by_cases hx : x ∈ R
    · simp [hx, chosen_eq_filter xs]
    · simp [hx, chosen_eq_filter xs]

theorem assign_count : ∀ (L R : List Edge), (assign L R).count true = (chosen L R).length
  | [], _ => rfl
  | x :: xs, R => by
    unfold chosen assign
    by_cases hx : x ∈ R
    · simp [hx, assign_count xs]
    · simp [hx, assign_count xs]

/-! ### relabelling -/

theorem relabel_length : ∀ (gs : List Gate) (flags : List Bool), (relabel gs flags).length = gs.length
  | [], _ => rfl
  | g :: gs, flags => by
    unfold relabel
    by_cases hc : isCnot g = true
    · rw [if_pos hc]
      cases flags with
      | nil => simp [relabel_length gs]
      | cons f fs => simp [relabel_length gs]
    · rw [if_neg hc]; simp [relabel_length gs]

/-- every position keeps its name unless the gate is a CNOT, in which case it gets one of the two labels -/
theorem relabel_spec : ∀ (gs : List Gate) (flags : List Bool),
    (gs.filter isCnot).length ≤ flags.length →
    ∀ i (hi : i < gs.length),
      (isCnot gs[i] = false → (relabel gs flags)[i]'(by rw [relabel_length]; exact hi) = gs[i].name) ∧
      (isCnot gs[i] = true → (relabel gs flags)[i]'(by rw [relabel_length]; exact hi) = "postprocessed cnot" ∨
        (relabel gs flags)[i]'(by rw [relabel_length]; exact hi) = "heralded cnot")
  | [], _, _, i, hi => by simp at hi
  | g :: gs, flags, hlen, i, hi => by
    by_cases hc : isCnot g = true
    · cases flags with
      | nil => simp [List.filter, hc] at hlen
      | cons f fs =>
        have hlen' : (gs.filter isCnot).length ≤ fs.length := by
          simp [List.filter, hc] at hlen; exact hlen
        cases i with
        | zero =>
          simp only [relabel, hc, if_true, List.getElem_cons_zero]
          refine ⟨by simp [hc], fun _ => ?_⟩
          cases f <;> simp
        | succ j =>
          simp only [relabel, hc, if_true, List.getElem_cons_succ]
          exact relabel_spec gs fs hlen' j (by simpa using hi)
    · have hlen' : (gs.filter isCnot).length ≤ flags.length := by
        simp [List.filter, hc] at hlen; exact hlen
      cases i with
      | zero =>
        simp only [relabel, hc, List.getElem_cons_zero]
        exact ⟨fun _ => by simp, fun h => absurd h (by simp)⟩
      | succ j =>
        simp only [relabel, hc, List.getElem_cons_succ]
        simpa using relabel_spec gs flags hlen' j (by simpa using hi)

theorem cnotFlags_length (fixed : Bool) (gs : List Gate) :
    (cnotFlags fixed gs).length = (gs.filter isCnot).length := by
  simp [cnotFlags, assign_length, cnotPairs]


/-! ### the SWAP permutation -/

/-- the list built by the four assignments, for `d = c_last - c_first` -/
def swapList (d : ℕ) : List ℕ :=
  ((((List.range (d + 2)).set 0 d).set 1 (d + 1)).set d 0).set (d + 1) 1

theorem swapList_length (d : ℕ) : (swapList d).length = d + 2 := by simp [swapList]

theorem swapList_getD (d : ℕ) (hd : 2 ≤ d) (i : ℕ) (hi : i < d + 2) :
    (swapList d).getD i 0 =
      if i = 0 then d else if i = 1 then d + 1 else if i = d then 0 else if i = d + 1 then 1 else i := by
  have e : (swapList d).getD i 0 =
      (if d + 1 = i then some 1 else if d = i then some 0 else if 1 = i then some (d + 1)
        else if 0 = i then some d else some i).getD 0 := by
    simp only [swapList, List.getD_eq_getElem?_getD, List.getElem?_set, List.length_set,
      List.length_range, List.getElem?_range hi]
    have h0 : 0 < d + 2 := by omega
    have h1 : 1 < d + 2 := by omega
    have h2 : d < d + 2 := by omega
    have h3 : d + 1 < d + 2 := by omega
    simp only [h0, h1, h2, h3, if_true]
  rw [e]
  by_cases c0 : i = 0
  · subst c0
    have a1 : ¬ d + 1 = 0 := by omega
    have a2 : ¬ d = 0 := by omega
    simp [a2]
  · by_cases c1 : i = 1
    · subst c1
      have a2 : ¬ d = 1 := by omega
      have a3 : ¬ d = 0 := by omega
      simp [a2, a3]
    · by_cases c2 : i = d
      · subst c2
        simp [c0, c1]
      · by_cases c3 : i = d + 1
        · subst c3
          simp
        · have b1 : ¬ d + 1 = i := fun h => c3 h.symm
          have b2 : ¬ d = i := fun h => c2 h.symm
          have b3 : ¬ 1 = i := fun h => c1 h.symm
          have b4 : ¬ 0 = i := fun h => c0 h.symm
          simp [b1, b2, b3, b4, c0, c1, c2, c3]

theorem setIdx_of_lt (l : List ℕ) (i v : ℕ) (h : i < l.length) : setIdx l i v = some (l.set i v) := by
  simp [setIdx, h]

theorem swapPerm_eq (cIdx cData : ℕ) (hd : 2 ≤ max cIdx cData - min cIdx cData)
    (he : (max cIdx cData - min cIdx cData) % 2 = 0) :
    swapPerm cIdx cData = some (min cIdx cData, swapList (max cIdx cData - min cIdx cData)) := by
  generalize hdd : max cIdx cData - min cIdx cData = d at hd he
  have hn : (d / 2 + 1) * 2 = d + 2 := by omega
  have g0 : ((List.range (d + 2)).set 0 d).getD 0 0 = d := by
    simp [List.getD_eq_getElem?_getD, List.getElem?_set]
  have g1 : (((List.range (d + 2)).set 0 d).set 1 (d + 1)).getD 0 0 = d := by
    simp [List.getD_eq_getElem?_getD, List.getElem?_set]
  have g2 : ((((List.range (d + 2)).set 0 d).set 1 (d + 1)).set d 0).getD 1 0 = d + 1 := by
    have : ¬ d = 1 := by omega
    simp [List.getD_eq_getElem?_getD, List.getElem?_set, this]
  unfold swapPerm
  simp only [hdd, hn]
  rw [setIdx_of_lt _ _ _ (by simp)]
  simp only [Option.bind_eq_bind, Option.bind_some]
  rw [g0, setIdx_of_lt _ _ _ (by simp)]
  simp only [Option.bind_some]
  rw [g1, setIdx_of_lt _ _ _ (by simp)]
  simp only [Option.bind_some]
  rw [g2, setIdx_of_lt _ _ _ (by simp)]
  simp only [Option.bind_some]
  rfl

theorem swapPairs_comm (a b j : ℕ) (h : a ≠ b) : swapPairs a b j = swapPairs b a j := by
  unfold swapPairs
  split_ifs <;> omega

theorem swap_aux (lo hi j : ℕ) (h : lo < hi) :
    permTarget (2 * lo) (swapList (2 * (hi - lo))) j = swapPairs lo hi j := by
  unfold permTarget swapPairs
  rw [swapList_length]
  by_cases hin : 2 * lo ≤ j ∧ j < 2 * lo + (2 * (hi - lo) + 2)
  · rw [if_pos hin, swapList_getD _ (by omega) _ (by omega)]
    split_ifs <;> omega
  · rw [if_neg hin]
    split_ifs <;> omega


theorem chosen_nil (L : List Edge) : chosen L [] = [] := by
  induction L with
  | nil => rfl
  | cons x xs ih => simp [chosen, ih]

/-! ### cQASM declarations -/

theorem qubitList_append (a b : List Decl) : qubitList (a ++ b) = qubitList a ++ qubitList b := by
  simp [qubitList]

theorem qubitList_cons (d : Decl) (ds : List Decl) : qubitList (d :: ds) = declQubits d ++ qubitList ds := by
  simp [qubitList]

theorem declQubits_length (d : Decl) : (declQubits d).length = declWidth d := by
  unfold declQubits declWidth
  cases d.size <;> simp

theorem qubitList_length (ds : List Decl) : (qubitList ds).length = (ds.map declWidth).sum := by
  induction ds with
  | nil => simp [qubitList]
  | cons d ds ih => simp [qubitList_cons, declQubits_length, ih]

theorem mem_declQubits_name {d : Decl} {r : String × ℤ} (h : r ∈ declQubits d) : r.1 = d.name := by
  unfold declQubits at h
  cases hs : d.size with
  | none => simp [hs] at h; simp [h]
  | some k =>
    simp [hs] at h
    obtain ⟨i, _, rfl⟩ := h
    rfl

theorem mem_qubitList_name {ds : List Decl} {r : String × ℤ} (h : r ∈ qubitList ds) :
    r.1 ∈ ds.map Decl.name := by
  simp only [qubitList, List.mem_flatMap] at h
  obtain ⟨d, hd, hr⟩ := h
  exact List.mem_map.2 ⟨d, hd, (mem_declQubits_name hr).symm⟩

theorem idxOf_range_map (nm : String) (k i : ℕ) (h : i < k) :
    ((List.range k).map fun j => (nm, Int.ofNat j)).idxOf (nm, Int.ofNat i) = i := by
  induction k generalizing i with
  | zero => omega
  | succ k ih =>
    rw [List.range_succ, List.map_append]
    by_cases hik : i < k
    · have hm : (nm, Int.ofNat i) ∈ (List.range k).map fun j => (nm, Int.ofNat j) :=
        List.mem_map.2 ⟨i, List.mem_range.2 hik, rfl⟩
      rw [List.idxOf_append_of_mem hm]
      exact ih i hik
    · have : i = k := by omega
      subst this
      rw [List.idxOf_append_of_notMem]
      · simp
      · intro hm
        obtain ⟨j, hj, he⟩ := List.mem_map.1 hm
        have h2 : Int.ofNat j = Int.ofNat i := (Prod.mk.inj he).2
        have h3 : j = i := Int.ofNat.inj h2
        have := List.mem_range.1 hj
        omega

end PM.C20
