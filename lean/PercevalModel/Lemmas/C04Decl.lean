/-
  C04 — lemmas about the declaration machine of `Model/C04Decl.lean` (`Experiment.add_herald` / `add_port`).
-/
import PercevalModel.Model.C04Decl
import PercevalModel.Lemmas.C04More
import PercevalModel.Lemmas.C04Evolve

namespace PM.C04
open PM.Fock PM.Dist PM.SimSpec

theorem heralds_append_herald (e : Exp) (k v : ℕ) :
    Exp.heralds { e with ports := e.ports ++ [(some v, [k])] } = e.heralds ++ [(k, v)] := by
  simp [Exp.heralds, List.filterMap_append]

theorem heralds_append_port (e : Exp) (r : List ℕ) :
    Exp.heralds { e with ports := e.ports ++ [(none, r)] } = e.heralds := by
  simp [Exp.heralds, List.filterMap_append]

theorem occupied_append (ports : List (Option ℕ × List ℕ)) (q : Option ℕ × List ℕ) (j : ℕ) :
    occupied (ports ++ [q]) j = (occupied ports j || q.2.contains j) := by
  simp [occupied, List.any_append]

theorem freeModes_heraldMask (m : ℕ) (h : List (ℕ × ℕ)) :
    freeModes (heraldMask m h) = ((List.range m).filter fun i => (h.lookup i).isNone).length := by
  unfold freeModes heraldMask
  rw [List.filter_map, List.length_map]
  rfl

theorem lookup_append_single (h : List (ℕ × ℕ)) (k v i : ℕ) :
    ((h ++ [(k, v)]).lookup i).isNone = ((h.lookup i).isNone && (i != k)) := by
  rw [List.lookup_append]
  cases hl : h.lookup i with
  | some x => simp
  | none =>
    by_cases hik : i = k
    · subst hik; simp [List.lookup]
    · have : (i == k) = false := by simpa using hik
      simp [List.lookup, this, hik]

theorem length_filter_and_ne : ∀ (l : List ℕ) (k : ℕ) (a : ℕ → Bool), l.Nodup → k ∈ l → a k = true →
    (l.filter fun i => a i && (i != k)).length + 1 = (l.filter a).length
  | [], _, _, _, hk, _ => by simp at hk
  | x :: xs, k, a, hn, hk, ha => by
    have hn' := List.nodup_cons.1 hn
    by_cases hx : x = k
    · subst hx
      have hc : (xs.filter fun i => a i && (i != x)) = xs.filter a := by
        apply List.filter_congr
        intro i hi
        have : i ≠ x := fun h => hn'.1 (h ▸ hi)
        simp [this]
      simp [List.filter_cons, ha, hc]
    · have hk' : k ∈ xs := by
        rcases List.mem_cons.1 hk with h | h
        · exact absurd h.symm hx
        · exact h
      have ih := length_filter_and_ne xs k a hn'.2 hk' ha
      have hne : (x != k) = true := by simpa using hx
      cases hax : a x <;> simp [List.filter_cons, hax, hne] <;> omega

/-- a fresh herald inside the circuit takes exactly one blank out of the mask -/
theorem freeModes_append_inside (m : ℕ) (h : List (ℕ × ℕ)) (k v : ℕ) (hk : k < m) (hf : h.lookup k = none) :
    freeModes (heraldMask m (h ++ [(k, v)])) + 1 = freeModes (heraldMask m h) := by
  rw [freeModes_heraldMask, freeModes_heraldMask]
  have e1 : ((List.range m).filter fun i => ((h ++ [(k, v)]).lookup i).isNone) =
      (List.range m).filter fun i => (h.lookup i).isNone && (i != k) := by
    apply List.filter_congr
    intro i _
    exact lookup_append_single h k v i
  rw [e1]
  exact length_filter_and_ne (List.range m) k (fun i => (h.lookup i).isNone) List.nodup_range
    (List.mem_range.2 hk) (by simp [hf])

/-- a herald outside the circuit is never looked up: the mask is unchanged -/
theorem heraldMask_append_outside (m : ℕ) (h : List (ℕ × ℕ)) (k v : ℕ) (hk : m ≤ k) :
    heraldMask m (h ++ [(k, v)]) = heraldMask m h := by
  unfold heraldMask
  apply List.map_congr_left
  intro i hi
  have hik : i ≠ k := by have := List.mem_range.1 hi; omega
  have : (i == k) = false := by simpa using hik
  rw [List.lookup_append]
  simp [List.lookup, this]

/-- what every history of caught and uncaught calls preserves -/
structure DeclInv (e : Exp) : Prop where
  nodup : (e.heralds.map (·.1)).Nodup
  occ : ∀ p ∈ e.heralds, occupied e.ports p.1 = true
  size : e.nMoi + e.nHer = e.size
  free : e.nMoi = freeModes (heraldMask e.size e.heralds)

theorem declInv_init (m : ℕ) : DeclInv (Exp.init m) := by
  refine ⟨by simp [Exp.init, Exp.heralds], by simp [Exp.init, Exp.heralds], by simp [Exp.init], ?_⟩
  simp [Exp.init, Exp.heralds, freeModes_heraldMask]

theorem declStep_size (e : Exp) (op : DeclOp) : (declStep e op).1.size = e.size := by
  cases op with
  | herald k v => simp only [declStep]; split_ifs <;> rfl
  | port k w => simp only [declStep]; split_ifs <;> rfl

theorem declStep_inv (e : Exp) (op : DeclOp) (I : DeclInv e) : DeclInv (declStep e op).1 := by
  cases op with
  | herald k v =>
    simp only [declStep]
    split_ifs with h1 h2 h3
    · exact I
    · exact I
    · -- IndexError: the port stays behind, the counters are untouched
      have hk : k ∉ e.heralds.map (·.1) := by
        intro hm
        obtain ⟨p, hp, rfl⟩ := List.mem_map.1 hm
        exact h2 (I.occ p hp)
      refine ⟨?_, ?_, I.size, ?_⟩
      · rw [heralds_append_herald, List.map_append, List.nodup_append]
        refine ⟨I.nodup, by simp, ?_⟩
        intro a ha b hb
        simp only [List.map_cons, List.map_nil, List.mem_singleton] at hb
        subst hb; rintro rfl; exact hk ha
      · intro p hp
        rw [heralds_append_herald] at hp
        show occupied (e.ports ++ [(some v, [k])]) p.1 = true
        rw [occupied_append]
        rcases List.mem_append.1 hp with hp | hp
        · simp [I.occ p hp]
        · simp only [List.mem_singleton] at hp; subst hp; simp
      · show e.nMoi = freeModes (heraldMask e.size (Exp.heralds { e with ports := e.ports ++ [(some v, [k])] }))
        rw [heralds_append_herald, heraldMask_append_outside _ _ _ _ h3]
        exact I.free
    · have hk : k ∉ e.heralds.map (·.1) := by
        intro hm
        obtain ⟨p, hp, rfl⟩ := List.mem_map.1 hm
        exact h2 (I.occ p hp)
      have hkm : k < e.size := Nat.lt_of_not_le h3
      have hfree := freeModes_append_inside e.size e.heralds k v hkm (lookup_none_of_not_mem _ _ hk)
      have hH : Exp.heralds { e with ports := e.ports ++ [(some v, [k])], nMoi := e.nMoi - 1, nHer := e.nHer + 1 } =
          e.heralds ++ [(k, v)] := heralds_append_herald e k v
      have hpos : 0 < e.nMoi := by rw [I.free]; omega
      refine ⟨?_, ?_, ?_, ?_⟩
      · rw [hH, List.map_append, List.nodup_append]
        refine ⟨I.nodup, by simp, ?_⟩
        intro a ha b hb
        simp only [List.map_cons, List.map_nil, List.mem_singleton] at hb
        subst hb; rintro rfl; exact hk ha
      · intro p hp
        rw [hH] at hp
        show occupied (e.ports ++ [(some v, [k])]) p.1 = true
        rw [occupied_append]
        rcases List.mem_append.1 hp with hp | hp
        · simp [I.occ p hp]
        · simp only [List.mem_singleton] at hp; subst hp; simp
      · show e.nMoi - 1 + (e.nHer + 1) = e.size
        have := I.size; omega
      · show e.nMoi - 1 = freeModes (heraldMask e.size _)
        rw [hH]
        have := I.free; omega
  | port k w =>
    simp only [declStep]
    split_ifs with h1
    · exact I
    · have hH : Exp.heralds { e with ports := e.ports ++ [(none, List.range' k w)] } = e.heralds :=
        heralds_append_port e _
      refine ⟨by rw [hH]; exact I.nodup, ?_, I.size, by rw [hH]; exact I.free⟩
      intro p hp
      rw [hH] at hp
      show occupied (e.ports ++ [(none, List.range' k w)]) p.1 = true
      rw [occupied_append]
      simp [I.occ p hp]

theorem declRun_size : ∀ (ops : List DeclOp) (e : Exp), (declRun e ops).1.size = e.size
  | [], _ => rfl
  | op :: rest, e => by
    simp only [declRun]
    rw [declRun_size rest, declStep_size]

theorem declRun_inv : ∀ (ops : List DeclOp) (e : Exp), DeclInv e → DeclInv (declRun e ops).1
  | [], _, I => I
  | op :: rest, e, I => by
    simp only [declRun]
    exact declRun_inv rest _ (declStep_inv e op I)

/-- a step that does not end in `IndexError` keeps every declared herald inside the circuit -/
theorem declStep_inRange (e : Exp) (op : DeclOp) (hr : ∀ p ∈ e.heralds, p.1 < e.size)
    (hne : (declStep e op).2 ≠ .indexError) : ∀ p ∈ (declStep e op).1.heralds, p.1 < e.size := by
  cases op with
  | herald k v =>
    simp only [declStep] at hne ⊢
    split_ifs at hne ⊢ with h1 h2 h3
    · exact hr
    · exact hr
    · exact absurd rfl hne
    · intro p hp
      have hH : Exp.heralds { e with ports := e.ports ++ [(some v, [k])], nMoi := e.nMoi - 1, nHer := e.nHer + 1 } =
          e.heralds ++ [(k, v)] := heralds_append_herald e k v
      rw [hH] at hp
      rcases List.mem_append.1 hp with hp | hp
      · exact hr p hp
      · simp only [List.mem_singleton] at hp; subst hp; exact Nat.lt_of_not_le h3
  | port k w =>
    simp only [declStep]
    split_ifs with h1
    · exact hr
    · intro p hp
      have hH : Exp.heralds { e with ports := e.ports ++ [(none, List.range' k w)] } = e.heralds :=
        heralds_append_port e _
      rw [hH] at hp
      exact hr p hp

theorem declRun_inRange : ∀ (ops : List DeclOp) (e : Exp), (∀ p ∈ e.heralds, p.1 < e.size) →
    DeclRes.indexError ∉ (declRun e ops).2 → ∀ p ∈ (declRun e ops).1.heralds, p.1 < e.size
  | [], _, hr, _ => hr
  | op :: rest, e, hr, hne => by
    simp only [declRun, List.mem_cons, not_or] at hne ⊢
    have h1 := declStep_inRange e op hr (fun h => hne.1 h.symm)
    have := declRun_inRange rest (declStep e op).1 (by rw [declStep_size]; exact h1) hne.2
    rw [declStep_size] at this
    exact this

/-! ### `evolve_svd`: the weights of the returned `SVDistribution` -/

/-- number of modes of the reported states: `post_select_statevector` removes the heralded modes unless
`keep_heralds` -/
def outModes (c : Cfg) : ℕ := if c.keepHeralds then c.m else c.m - c.heralds.length

/-- `evolve_svd`'s returned distribution, weights only: `new_svd[new_sv] += p * logical_perf(input)` for the members
that pass the photon filter and whose evolved state vector is not empty (`new_sv.m != 0`: something was accepted,
i.e. the input's logical performance is not 0 — AND the reported states have at least one mode: when every mode is
heralded and the heralds are discarded the accepted state vector has 0 modes too and nothing is stored, quirk kept),
then `normalize()` (skipped when nothing was stored).  Distinct members are assumed to evolve to distinct state
vectors (no merge of keys). -/
def evolveSvdWeights (eng : Fock → D) (c : Cfg) (members : List Member) : List ℚ :=
  let ws := (kept c members).map fun mb => mb.w * evolveLogical eng c mb.groups
  if outModes c = 0 then [] else (ws.filter fun x => decide (x ≠ 0)).map fun x => x / ws.sum

theorem sum_filter_ne_zero : ∀ l : List ℚ, (l.filter fun x => decide (x ≠ 0)).sum = l.sum
  | [] => rfl
  | x :: l => by
    have ih := sum_filter_ne_zero l
    by_cases hx : x = 0
    · rw [List.filter_cons, if_neg (by simp [hx]), ih, hx]; simp
    · rw [List.filter_cons, if_pos (by simp [hx]), List.sum_cons, List.sum_cons, ih]

theorem sum_map_div (t : ℚ) : ∀ l : List ℚ, (l.map fun x => x / t).sum = l.sum / t
  | [] => by simp
  | x :: l => by simp [sum_map_div t l, add_div]

end PM.C04
