/-
  C20 — the SWAP the converter places (a `PERM` exchanging the two rails of qubit `a` with those of qubit `b`,
  identity in between) as a step of the circuit theorem: on its own four modes it is the permutation matrix of
  `k ↦ k + 2 mod 4`; its logical table is exactly the SWAP gate, it never leaks, and placed on any two qubits of a
  processor it is an admissible heralded step (`swap_step_ok`) — the hypothesis `Step.Ok` that
  `converted_circuit_implements_product` used to take for SWAPs.
-/
import PercevalModel.Lemmas.C20Catalog

open Matrix

namespace PM.C20
open PM.Fock PM.SimSpec

variable {R : Type*}

/-- layout of a SWAP on its own: two qubits on four modes, no herald -/
abbrev swapLayout : Layout := ⟨4, [0, 2], []⟩

theorem swapLayout_ok : swapLayout.ok = true := by decide

/-- the mode permutation of the SWAP on its own four modes: rails `0,1 ↔ 2,3` -/
def swapFn : Fin 4 → Fin 4 := fun k => ⟨(k.val + 2) % 4, Nat.mod_lt _ (by decide)⟩

theorem swapFn_invol (x : Fin 4) : swapFn (swapFn x) = x := by
  fin_cases x <;> rfl

/-- the matrix of `PERM([2, 3, 0, 1])` -/
def swapMatrix [Zero R] [One R] : Matrix (Fin 4) (Fin 4) R := permMatF swapFn

/-- value of the SWAP gate between two logical basis states: out `[a,b]`, in `[c,d]` -/
def swapEntry [Zero R] [One R] (a b c d : Bool) : R := if a = d ∧ b = c then 1 else 0

section ring
variable [CommRing R]

theorem enc_swap (a b : Bool) :
    encode swapLayout [a, b] = [cond a 0 1, cond a 1 0, cond b 0 1, cond b 1 0] := by
  cases a <;> cases b <;> rfl

/-- Fock evolution through the SWAP: the state with its two pairs of modes exchanged, nothing else -/
theorem swap_pamp (s t : List ℕ) (hs : s.length = 4) (ht : t.length = 4) (hst : s.sum = t.sum) :
    pamp (swapMatrix (R := R)) s t =
      if t = [s.getD 2 0, s.getD 3 0, s.getD 0 0, s.getD 1 0] then (prodFact s : R) else 0 := by
  unfold swapMatrix
  rw [PM.C02.perm_relabel swapFn swapFn swapFn_invol swapFn_invol s t hs ht hst]
  have : (List.ofFn fun a : Fin 4 => s.getD (swapFn a).val 0) =
      [s.getD 2 0, s.getD 3 0, s.getD 0 0, s.getD 1 0] := by
    simp [List.ofFn_succ, swapFn]
  rw [this]

/-- **every logical amplitude of the SWAP**: `⟨ab|U|cd⟩ = SWAP[ab, cd]` -/
theorem swap_amp (a b c d : Bool) :
    gateAmp (swapMatrix (R := R)) swapLayout PS.tt [a, b] [c, d] = 1 * swapEntry a b c d := by
  unfold gateAmp
  rw [enc_swap, enc_swap, one_mul]
  simp only [PS.eval, if_true]
  cases a <;> cases b <;> cases c <;> cases d <;>
    (rw [swap_pamp _ _ (by rfl) (by rfl) (by rfl)]; simp [swapEntry, prodFact])

theorem swap_amp_tt (bo bi : List Bool) (hbo : bo.length = 2) (hbi : bi.length = 2) :
    gateAmp (swapMatrix (R := R)) swapLayout PS.tt bo bi = 1 * twoQubit swapEntry bo bi := by
  match bo, hbo, bi, hbi with
  | [a, b], _, [c, d], _ => exact swap_amp a b c d

/-- the SWAP never leaks: a logical input only reaches a logical output -/
theorem swap_noLeak : NoLeak swapLayout (swapMatrix (R := R)) := by
  intro bi hbi u hul _ hlog
  match bi, hbi with
  | [c, d], _ =>
    by_cases hsum : (encode swapLayout [c, d]).sum = u.sum
    · refine (swap_pamp _ _ (by rw [enc_swap]; rfl) hul hsum).trans (if_neg ?_)
      intro hu
      rw [hu, enc_swap] at hlog
      revert hlog
      cases c <;> cases d <;> decide
    · exact PM.C02.pamp_zero_of_sum_ne _ _ _ hsum

/-- **the SWAP placed on any two qubits of any processor** is a heralded step with table
`1 • (SWAP on those qubits ⊗ identity)` -/
theorem swap_step_ok {L : Layout} (P : Placement swapLayout L) (hok : L.ok = true)
    (hh : ∀ p ∈ L.heralds, p.2 ≤ 1) :
    (placedStep P (swapMatrix (R := R)) (twoQubit swapEntry) 1 false).Ok :=
  placedStep_ok P swapLayout_ok hok hh _ _ 1 false (fun bo bi hbo hbi => swap_amp_tt bo bi hbo hbi)
    (fun _ => swap_noLeak)

end ring

/-! ### the converter's SWAP: a placement of `swapLayout`, and its matrix is the `PERM` the converter adds -/

/-- inverse of the SWAP's mode map on the processor's modes -/
def swapInv (a b : ℕ) (i : ℕ) : Option (Fin 4) :=
  if i = 2 * a then some 0 else if i = 2 * a + 1 then some 1 else if i = 2 * b then some 2
  else if i = 2 * b + 1 then some 3 else none

/-- **the SWAP of two distinct qubits of a converted processor is a `Placement`** of `swapLayout` -/
def swapPlacement (n : ℕ) (hv : List ℕ) (a b : ℕ) (ha : a < n) (hb : b < n) (hab : a ≠ b) :
    Placement swapLayout (convLayout n hv) where
  φ := fun k => [2 * a, 2 * a + 1, 2 * b, 2 * b + 1].getD k 0
  g := fun i => swapInv a b i.val
  sel := [a, b]
  φ_lt := by
    intro k hk
    have hk' : k < 4 := hk
    simp only [convLayout]
    interval_cases k <;> simp <;> omega
  inv := by
    intro x y
    obtain ⟨y, hy⟩ := y
    simp only [convLayout] at hy
    fin_cases x <;> simp only [swapInv, Fin.ext_iff] <;> simp <;> split_ifs <;> simp <;> omega
  sel_length := rfl
  sel_lt := by
    intro k hk
    simp only [List.mem_cons, List.not_mem_nil, or_false] at hk
    simp only [convLayout, List.length_map, List.length_range]
    rcases hk with rfl | rfl <;> assumption
  qubit := by
    intro i hi
    have hi' : i < 2 := hi
    interval_cases i
    · have e := convLayout_qubit n hv a ha
      exact ⟨by show [2 * a, 2 * a + 1, 2 * b, 2 * b + 1].getD 0 0 = (convLayout n hv).qubits.getD a 0; rw [e]; rfl,
        by show [2 * a, 2 * a + 1, 2 * b, 2 * b + 1].getD 1 0 = (convLayout n hv).qubits.getD a 0 + 1; rw [e]; rfl⟩
    · have e := convLayout_qubit n hv b hb
      exact ⟨by show [2 * a, 2 * a + 1, 2 * b, 2 * b + 1].getD 2 0 = (convLayout n hv).qubits.getD b 0; rw [e]; rfl,
        by show [2 * a, 2 * a + 1, 2 * b, 2 * b + 1].getD 3 0 = (convLayout n hv).qubits.getD b 0 + 1; rw [e]; rfl⟩
  herald := by
    intro h hh
    simp [swapLayout] at hh

theorem swapInv_cases (a b i : ℕ) :
    (i = 2 * a ∧ swapInv a b i = some 0) ∨ (i = 2 * a + 1 ∧ swapInv a b i = some 1) ∨
    (i = 2 * b ∧ swapInv a b i = some 2) ∨ (i = 2 * b + 1 ∧ swapInv a b i = some 3) ∨
    (i ≠ 2 * a ∧ i ≠ 2 * a + 1 ∧ i ≠ 2 * b ∧ i ≠ 2 * b + 1 ∧ swapInv a b i = none) := by
  unfold swapInv
  by_cases h1 : i = 2 * a
  · exact Or.inl ⟨h1, by simp [h1]⟩
  · by_cases h2 : i = 2 * a + 1
    · exact Or.inr (Or.inl ⟨h2, by simp [h2]⟩)
    · by_cases h3 : i = 2 * b
      · refine Or.inr (Or.inr (Or.inl ⟨h3, ?_⟩))
        rw [if_neg h1, if_neg h2, if_pos h3]
      · by_cases h4 : i = 2 * b + 1
        · refine Or.inr (Or.inr (Or.inr (Or.inl ⟨h4, ?_⟩)))
          rw [if_neg h1, if_neg h2, if_neg h3, if_pos h4]
        · refine Or.inr (Or.inr (Or.inr (Or.inr ⟨h1, h2, h3, h4, ?_⟩)))
          rw [if_neg h1, if_neg h2, if_neg h3, if_neg h4]

theorem swapPairs_cases (a b j : ℕ) :
    (j = 2 * a → swapPairs a b j = 2 * b) ∧ (j = 2 * a + 1 → swapPairs a b j = 2 * b + 1) ∧
    (j = 2 * b → j ≠ 2 * a → swapPairs a b j = 2 * a) ∧
    (j = 2 * b + 1 → j ≠ 2 * a + 1 → swapPairs a b j = 2 * a + 1) ∧
    (j ≠ 2 * a → j ≠ 2 * a + 1 → j ≠ 2 * b → j ≠ 2 * b + 1 → swapPairs a b j = j) := by
  unfold swapPairs
  refine ⟨fun h => by simp [h], fun h => by simp [h], fun h h1 => ?_, fun h h2 => ?_, fun h1 h2 h3 h4 => ?_⟩
  · have h2 : j ≠ 2 * a + 1 := by omega
    rw [if_neg h1, if_neg h2, if_pos h]
  · have h1 : j ≠ 2 * a := by omega
    have h3 : j ≠ 2 * b := by omega
    rw [if_neg h1, if_neg h2, if_neg h3, if_pos h]
  · rw [if_neg h1, if_neg h2, if_neg h3, if_neg h4]

/-- the matrix the placed SWAP has on ALL the modes of the processor is the permutation matrix of `swapPairs a b`
— by `swap_perm_spec` the `PERM` that `_create_2_qubit_gates_from_catalog` adds at offset `2·min a b` -/
theorem swapPlacement_matrix [Zero R] [One R] (n : ℕ) (hv : List ℕ) (a b : ℕ) (ha : a < n) (hb : b < n)
    (hab : a ≠ b) (i j : Fin (convLayout n hv).m) :
    PM.place (swapPlacement n hv a b ha hb hab).g (swapMatrix (R := R)) i j =
      if swapPairs a b j.val = i.val then 1 else 0 := by
  obtain ⟨i, hi⟩ := i
  obtain ⟨j, hj⟩ := j
  obtain ⟨p1, p2, p3, p4, p5⟩ := swapPairs_cases a b j
  have hB : ∀ x y : Fin 4, swapMatrix (R := R) x y = if (y.val + 2) % 4 = x.val then 1 else 0 := by
    intro x y
    simp only [swapMatrix, permMatF, swapFn, Fin.ext_iff]
  have hg : ∀ k (hk : k < (convLayout n hv).m),
      (swapPlacement n hv a b ha hb hab).g ⟨k, hk⟩ = swapInv a b k := fun _ _ => rfl
  simp only [PM.place, hg, Fin.ext_iff]
  rcases swapInv_cases a b i with ⟨hi1, hi2⟩ | ⟨hi1, hi2⟩ | ⟨hi1, hi2⟩ | ⟨hi1, hi2⟩ | ⟨hi1, hi1a, hi1b, hi1c, hi2⟩ <;>
  rcases swapInv_cases a b j with ⟨hj1, hj2⟩ | ⟨hj1, hj2⟩ | ⟨hj1, hj2⟩ | ⟨hj1, hj2⟩ | ⟨hj1, hj1a, hj1b, hj1c, hj2⟩ <;>
  simp only [hi2, hj2, hB] <;>
  first
    | (rw [p1 hj1]; simp <;> omega)
    | (rw [p2 hj1]; simp <;> omega)
    | (rw [p3 hj1 (by omega)]; simp <;> omega)
    | (rw [p4 hj1 (by omega)]; simp <;> omega)
    | (rw [p5 hj1 hj1a hj1b hj1c]; simp <;> omega)
    | (rw [p5 hj1 hj1a hj1b hj1c]; simp [eq_comm])

/-- a SWAP touches no herald mode -/
theorem swap_modes_no_herald (n : ℕ) (hv : List ℕ) (a b : ℕ) (ha : a < n) (hb : b < n) :
    ∀ h ∈ (convLayout n hv).heralds, h.1 ∉ [2 * a, 2 * a + 1, 2 * b, 2 * b + 1] := by
  intro h hh
  have := convLayout_herald_mode n hv h hh
  simp only [List.mem_cons, List.not_mem_nil, or_false]
  omega

end PM.C20
