/-
  C18 — wave 10: end-to-end compositions at access granularity.  The end of the task (raise / return), the bounded
  termination of the worker (`more_raise_completes` / `more_return_completes`), the wait-freedom of the API call the
  caller may be inside of (`more_wait_free`) and the observation after the end (`more_status_after_end`) are composed
  into ONE statement per kind of end: whatever the schedule, the next status query reports the truthful final state.
-/
import PercevalModel.Lemmas.C18More

namespace PM.C18
open PM.SM

/-- the caller is idle after `w1 ++ x :: w2` when `w2` begins no call and grants the caller the accesses its
current call still needs -/
theorem w10_idle_after (cfg : Cfg) (w1 w2 : List REv) (x : REv) (hb : noBegin w2 = true)
    (hc : (rafter true cfg (w1 ++ [x])).cpc.cgo ≤ cCount w2) :
    (rafter true cfg (w1 ++ x :: w2)).cpc = .idle := by
  have h := more_wait_free true cfg (w1 ++ [x]) w2 hb hc
  simpa [List.append_assoc] using h

theorem w10_raise_reported (cfg : Cfg) (w1 w2 : List REv) (c t : Nat)
    (h : (rafter true cfg w1).wpc = .inTask) (hn : 3 ≤ wCount w2) (hb : noBegin w2 = true)
    (hc : (rafter true cfg (w1 ++ [.task (.raise c t)])).cpc.cgo ≤ cCount w2) :
    (rstep true cfg (rafter true cfg ((w1 ++ .task (.raise c t) :: w2) ++ [.begin .status, .c, .c, .c, .c])) .c).2 =
      .step .rProg (some (.status .error (.task c t) (rafter true cfg (w1 ++ .task (.raise c t) :: w2)).prog)) ∧
    (rafter true cfg ((w1 ++ .task (.raise c t) :: w2) ++ [.begin .status, .c, .c, .c, .c, .c])).cpc = .idle := by
  have hd := (more_raise_completes cfg w1 w2 c t h hn).1
  have hi := w10_idle_after cfg w1 w2 (.task (.raise c t)) hb hc
  exact more_status_after_end cfg _ (.raised c t) hd hi

theorem w10_return_reported (cfg : Cfg) (w1 w2 : List REv) (r : Ret)
    (h : (rafter true cfg w1).wpc = .inTask) (hn : 6 ≤ wCount w2) (hb : noBegin w2 = true)
    (hc : (rafter true cfg (w1 ++ [.task (.ret r)])).cpc.cgo ≤ cCount w2) :
    ∃ cn : Bool,
      (rstep true cfg (rafter true cfg ((w1 ++ .task (.ret r) :: w2) ++ [.begin .status, .c, .c, .c, .c])) .c).2 =
        .step .rProg (some (.status (if cn then .canceled else .success) (if cn then .canceled else .none)
          (rafter true cfg (w1 ++ .task (.ret r) :: w2)).prog)) ∧
      (rafter true cfg ((w1 ++ .task (.ret r) :: w2) ++ [.begin .status, .c, .c, .c, .c, .c])).cpc = .idle ∧
      (cn = true → (rafter true cfg (w1 ++ .task (.ret r) :: w2)).cancelReq = true) ∧
      ((rafter true cfg w1).cancelReq = true → cn = true) := by
  obtain ⟨cn, hd, _, _, _, h1, h2⟩ := more_return_completes cfg w1 w2 r h hn
  have hi := w10_idle_after cfg w1 w2 (.task (.ret r)) hb hc
  have hs := more_status_after_end cfg _ (.returned r cn) hd hi
  refine ⟨cn, ?_, hs.2, h1, h2⟩
  rw [hs.1]
  cases cn <;> rfl

theorem w10_return_results (cfg : Cfg) (w1 w2 : List REv) (r v : Ret)
    (h : (rafter true cfg w1).wpc = .inTask) (hn : 6 ≤ wCount w2) (hb : noBegin w2 = true)
    (hc : (rafter true cfg (w1 ++ [.task (.ret r)])).cpc.cgo ≤ cCount w2)
    (hv : if (rafter true cfg (w1 ++ .task (.ret r) :: w2)).mapPending
          then convertRet (rafter true cfg (w1 ++ .task (.ret r) :: w2)).mapping r = some v
          else (rafter true cfg (w1 ++ .task (.ret r) :: w2)).results = v) :
    (rstep true cfg (rafter true cfg ((w1 ++ .task (.ret r) :: w2) ++ [.begin .get, .c, .c, .c, .c])) .c).2 =
      .step .rSt (some (.results v)) ∧
    (rafter true cfg ((w1 ++ .task (.ret r) :: w2) ++ [.begin .get, .c, .c, .c, .c, .c])).cpc = .idle ∧
    (rafter true cfg ((w1 ++ .task (.ret r) :: w2) ++ [.begin .get, .c, .c, .c, .c, .c])).results = v ∧
    (rafter true cfg ((w1 ++ .task (.ret r) :: w2) ++ [.begin .get, .c, .c, .c, .c, .c])).mapPending = false := by
  obtain ⟨cn, hd, _⟩ := more_return_completes cfg w1 w2 r h hn
  have hi := w10_idle_after cfg w1 w2 (.task (.ret r)) hb hc
  exact more_results_after_end cfg _ r v cn hd hi hv

end PM.C18
