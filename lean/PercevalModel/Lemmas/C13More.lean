/-
  C13 — helper lemmas for the top-level theorem (`Props/C13.lean`, section 10) and for the
  extended sessions (section 11): re-typing a square matrix along an equation of sizes, sums over
  the fibres of a map between lists, merged Fock states, the scan of all modes of a polarised
  input, and circuit edits (`add`, re-tuning a leaf) on polarised trees.
-/
import PercevalModel.Lemmas.C13
import PercevalModel.Lemmas.FockComp

open Matrix

namespace PM.C13

variable {R : Type}

/-! ### re-typing a square matrix along `a = b`

`unitaryOfPol c` lives on `Fin (dbl c).size`, the preparation matrix on `Fin (c.size * 2)`; the two
sizes are equal (`dbl_size`) but not definitionally so for a variable `c`.  (The driver re-types
with `matOfRows`.) -/

def castSq {a b : ℕ} (h : a = b) (U : Matrix (Fin a) (Fin a) R) : Matrix (Fin b) (Fin b) R :=
  U.submatrix (Fin.cast h.symm) (Fin.cast h.symm)

@[simp] theorem castSq_rfl {a : ℕ} (U : Matrix (Fin a) (Fin a) R) : castSq rfl U = U := rfl

theorem castSq_apply {a b : ℕ} (h : a = b) (U : Matrix (Fin a) (Fin a) R) (i j : Fin b) :
    castSq h U i j = U (Fin.cast h.symm i) (Fin.cast h.symm j) := rfl

theorem castSq_isUnitary [CommRing R] [StarRing R] {a b : ℕ} (h : a = b)
    {U : Matrix (Fin a) (Fin a) R} (hU : IsUnitary U) : IsUnitary (castSq h U) := by
  subst h; exact hU

theorem castSq_mul [CommRing R] {a b : ℕ} (h : a = b) (U V : Matrix (Fin a) (Fin a) R) :
    castSq h (U * V) = castSq h U * castSq h V := by
  subst h; rfl

/-- the doubled matrix of a circuit, typed on `2 · (number of spatial modes)` -/
def upolOf [CommRing R] (c : PComp R) : Matrix (Fin (c.size * 2)) (Fin (c.size * 2)) R :=
  castSq (dbl_size c) (unitaryOfPol c)

/-- for a circuit (`Circuit(m)`) the re-typing is the identity -/
theorem upolOf_circ [CommRing R] (m : ℕ) (items : PItems R) :
    upolOf (.circ m items) = C01.prodItems (m * 2) (dblItems items) := by
  show castSq rfl (C01.unitaryOf (.circ (m * 2) (dblItems items))) = _
  rw [castSq_rfl, C01.unitaryOf_circ]

/-! ### sums over the fibres of a map -/

theorem sum_indicator_nodup {β : Type} [DecidableEq β] {M : Type} [AddCommMonoid M] (x : β) (c : M) :
    ∀ (K : List β), K.Nodup → x ∈ K → (K.map fun t => if x = t then c else 0).sum = c
  | [], _, h => by simp at h
  | t :: K, hK, h => by
    rw [List.nodup_cons] at hK
    by_cases hx : x = t
    · subst hx
      have : (K.map fun t => if x = t then c else 0).sum = 0 := by
        apply List.sum_eq_zero
        intro y hy
        obtain ⟨t, ht, rfl⟩ := List.mem_map.1 hy
        have : x ≠ t := fun e => hK.1 (e ▸ ht)
        simp [this]
      simp [this]
    · have hx' : x ∈ K := by
        rcases List.mem_cons.1 h with e | e
        · exact absurd e hx
        · exact e
      simp [hx, sum_indicator_nodup x c K hK.2 hx']

theorem sum_indicator_not_mem {β : Type} [DecidableEq β] {M : Type} [AddCommMonoid M] (x : β)
    (c : M) (K : List β) (h : x ∉ K) : (K.map fun t => if x = t then c else 0).sum = 0 := by
  apply List.sum_eq_zero
  intro y hy
  obtain ⟨t, ht, rfl⟩ := List.mem_map.1 hy
  have : x ≠ t := fun e => h (e ▸ ht)
  simp [this]

/-- a sum over `L` is the sum, over the (distinct) values `t ∈ K` of `g`, of the sums over the
fibres `{a ∈ L | g a = t}` — provided every value of `g` on `L` is listed in `K` -/
theorem sum_fibres {α β : Type} [DecidableEq β] {M : Type} [AddCommMonoid M] (g : α → β) (f : α → M)
    (K : List β) (hK : K.Nodup) :
    ∀ (L : List α), (∀ a ∈ L, g a ∈ K) →
      (L.map f).sum = (K.map fun t => ((L.filter fun a => decide (g a = t)).map f).sum).sum
  | [], _ => by simp
  | a :: L, h => by
    have ih := sum_fibres g f K hK L (fun b hb => h b (List.mem_cons_of_mem _ hb))
    have e : ∀ t, (((a :: L).filter fun a => decide (g a = t)).map f).sum =
        (if g a = t then f a else 0) + ((L.filter fun a => decide (g a = t)).map f).sum := by
      intro t
      by_cases ht : g a = t
      · simp [ht]
      · simp [ht]
    simp only [e, List.map_cons, List.sum_cons]
    rw [List.sum_map_add, sum_indicator_nodup (g a) (f a) K hK (h a (List.mem_cons_self ..)), ih]

/-! ### merged Fock states -/

theorem mergeState_length_sum : ∀ (m : ℕ) (s : List ℕ), s.length = m * 2 →
    (mergeState s).length = m ∧ (mergeState s).sum = s.sum
  | 0, s, h => by
    have : s = [] := List.length_eq_zero_iff.mp (by simpa using h)
    subst this; simp [mergeState]
  | m + 1, s, h => by
    match s, h with
    | [], h => simp at h
    | [_], h => simp at h; omega
    | a :: b :: rest, h =>
      have hr : rest.length = m * 2 := by simp at h; omega
      obtain ⟨h1, h2⟩ := mergeState_length_sum m rest hr
      simp [mergeState, h1, h2]; ring

/-- a state of the doubled modes merges to a state of the spatial modes with the same number of
photons -/
theorem mergeState_mem {m n : ℕ} {u : List ℕ} (h : u ∈ Fock.allStates (m * 2) n) :
    mergeState u ∈ Fock.allStates m n := by
  obtain ⟨hl, hs⟩ := (Fock.mem_allStates_iff _ _ _).1 h
  obtain ⟨h1, h2⟩ := mergeState_length_sum m u hl
  exact (Fock.mem_allStates_iff _ _ _).2 ⟨h1, h2.trans hs⟩

/-- every spatial state is the merge of some state of the doubled modes (all photons `H`) -/
def spreadH : List ℕ → List ℕ
  | [] => []
  | a :: r => a :: 0 :: spreadH r

theorem mergeState_spreadH : ∀ t : List ℕ, mergeState (spreadH t) = t
  | [] => rfl
  | a :: r => by simp [spreadH, mergeState, mergeState_spreadH r]

theorem spreadH_length_sum : ∀ t : List ℕ,
    (spreadH t).length = t.length * 2 ∧ (spreadH t).sum = t.sum
  | [] => ⟨rfl, rfl⟩
  | a :: r => by
    obtain ⟨h1, h2⟩ := spreadH_length_sum r
    simp [spreadH, h1, h2]; omega

theorem spreadH_mem {m n : ℕ} {t : List ℕ} (h : t ∈ Fock.allStates m n) :
    spreadH t ∈ Fock.allStates (m * 2) n := by
  obtain ⟨hl, hs⟩ := (Fock.mem_allStates_iff _ _ _).1 h
  obtain ⟨h1, h2⟩ := spreadH_length_sum t
  exact (Fock.mem_allStates_iff _ _ _).2 ⟨by rw [h1, hl], by rw [h2, hs]⟩

/-! ### the distribution of the model, pointwise -/

theorem mass_spatialDist {N : ℕ} (U : Matrix (Fin N) (Fin N) GQ) (s : List ℕ) :
    Dist.mass (spatialDist U s) = ((Fock.allStates N s.sum).map (Fock.prob U s)).sum := by
  simp [Dist.mass, spatialDist, Function.comp_def]

/-- the probability the model reports for a merged state `t`: the sum of the spatial
probabilities over the states of the doubled modes that merge to `t` -/
theorem get_polDist {N : ℕ} (U : Matrix (Fin N) (Fin N) GQ) (s t : List ℕ) :
    Dist.get (polDist U s) t =
      (((Fock.allStates N s.sum).filter fun u => mergeState u == t).map (Fock.prob U s)).sum := by
  simp only [Dist.get, polDist, spatialDist, Dist.mapKeys, List.map_map, List.filter_map,
    Function.comp_def]

theorem keys_polDist {N : ℕ} (U : Matrix (Fin N) (Fin N) GQ) (s : List ℕ) (p : List ℕ × ℚ)
    (hp : p ∈ polDist U s) : ∃ u ∈ Fock.allStates N s.sum, p.1 = mergeState u := by
  simp only [polDist, spatialDist, Dist.mapKeys, List.map_map, List.mem_map,
    Function.comp_def] at hp
  obtain ⟨u, hu, rfl⟩ := hp
  exact ⟨u, hu, rfl⟩

/-- the list of probabilities reported over the enumeration of the spatial states (what the driver
prints, what `probs()` returns) has the same total as the distribution on the doubled modes -/
theorem sum_get_polDist {m : ℕ} (U : Matrix (Fin (m * 2)) (Fin (m * 2)) GQ) (s : List ℕ) :
    ((Fock.allStates m s.sum).map (Dist.get (polDist U s))).sum =
      ((Fock.allStates (m * 2) s.sum).map (Fock.prob U s)).sum := by
  rw [sum_fibres mergeState (Fock.prob U s) (Fock.allStates m s.sum) (Fock.allStates_nodup _ _)
    (Fock.allStates (m * 2) s.sum) (fun a ha => mergeState_mem ha)]
  apply congrArg
  apply List.map_congr_left
  intro t _
  rw [get_polDist]
  congr 2
  apply List.filter_congr
  intro u _
  by_cases h : mergeState u = t
  · simp [h]
  · simp [h]

/-! ### the scan of all modes (`convert_polarized_state`) -/

deriving instance DecidableEq for Scan

/-- all modes, left to right; the first failing mode decides (the driver writes this as
`modes.mapM fun phs => scanMode orth phs ⟨[], 0, 0⟩`, see `scanAll_eq_mapM`) -/
def scanAll [DecidableEq R] (orth : R × R → R × R → Bool) :
    List (List (R × R)) → Except String (List (Scan R))
  | [] => .ok []
  | phs :: rest =>
    match scanMode orth phs ⟨[], 0, 0⟩ with
    | .error e => .error e
    | .ok sc =>
      match scanAll orth rest with
      | .error e => .error e
      | .ok scs => .ok (sc :: scs)

theorem scanAll_eq_mapM [DecidableEq R] (orth : R × R → R × R → Bool) (modes : List (List (R × R))) :
    scanAll orth modes = modes.mapM fun phs => scanMode orth phs ⟨[], 0, 0⟩ := by
  induction modes with
  | nil => rfl
  | cons phs rest ih =>
    rw [List.mapM_cons, ← ih]
    simp only [scanAll]
    cases scanMode orth phs ⟨[], 0, 0⟩ with
    | error e => rfl
    | ok sc =>
      cases scanAll orth rest with
      | error e => rfl
      | ok scs => rfl

/-- the vectors a scan keeps are among those it started with and the photons' -/
theorem scanStep_vectors [DecidableEq R] (orth : R × R → R × R → Bool) (st st' : Scan R)
    (v : R × R) (h : scanStep orth st v = .ok st') :
    ∀ w ∈ st'.vectors, w ∈ st.vectors ∨ w = v := by
  unfold scanStep at h
  split at h
  · cases h; intro w hw; simp at hw; exact Or.inr hw
  · rename_i v1 hv
    split_ifs at h <;> cases h <;> intro w hw <;> simp [hv] at hw ⊢
    · exact Or.inl hw
    · exact hw
  · rename_i v1 v2 r hv
    split_ifs at h <;> cases h <;> intro w hw <;> exact Or.inl hw

theorem scanMode_vectors [DecidableEq R] (orth : R × R → R × R → Bool) :
    ∀ (vs : List (R × R)) (st st' : Scan R), scanMode orth vs st = .ok st' →
      ∀ w ∈ st'.vectors, w ∈ st.vectors ∨ w ∈ vs
  | [], st, st', h => by simp [scanMode] at h; cases h; intro w hw; exact Or.inl hw
  | v :: rest, st, st', h => by
    simp only [scanMode] at h
    cases hs : scanStep orth st v with
    | error e => simp [hs] at h
    | ok st1 =>
      simp only [hs] at h
      intro w hw
      rcases scanMode_vectors orth rest st1 st' h w hw with h1 | h1
      · rcases scanStep_vectors orth st st1 v hs w h1 with h2 | h2
        · exact Or.inl h2
        · exact Or.inr (h2 ▸ List.mem_cons_self ..)
      · exact Or.inr (List.mem_cons_of_mem _ h1)

theorem scanStep_count' [DecidableEq R] (orth : R × R → R × R → Bool) (st st' : Scan R)
    (v : R × R) (h : scanStep orth st v = .ok st') :
    st'.n0 + st'.n1 = st.n0 + st.n1 + 1 := by
  unfold scanStep at h
  split at h
  · cases h; simp; omega
  · split_ifs at h <;> cases h <;> simp <;> omega
  · split_ifs at h <;> cases h <;> simp <;> omega

theorem scanMode_count' [DecidableEq R] (orth : R × R → R × R → Bool) :
    ∀ (vs : List (R × R)) (st st' : Scan R), scanMode orth vs st = .ok st' →
      st'.n0 + st'.n1 = st.n0 + st.n1 + vs.length
  | [], st, st', h => by simp [scanMode] at h; cases h; simp
  | v :: rest, st, st', h => by
    simp only [scanMode] at h
    cases hs : scanStep orth st v with
    | error e => simp [hs] at h
    | ok st1 =>
      simp only [hs] at h
      have := scanMode_count' orth rest st1 st' h
      have := scanStep_count' orth st st1 v hs
      simp only [List.length_cons]; omega

/-- what a successful scan of all modes yields: one scan per mode, each photon counted in exactly
one of the two sub-modes of its mode, each kept vector one of the mode's photons -/
theorem scanAll_spec [DecidableEq R] (orth : R × R → R × R → Bool) :
    ∀ (modes : List (List (R × R))) (scans : List (Scan R)), scanAll orth modes = .ok scans →
      List.Forall₂ (fun phs sc => sc.n0 + sc.n1 = phs.length ∧ ∀ w ∈ sc.vectors, w ∈ phs)
        modes scans
  | [], scans, h => by simp [scanAll] at h; cases h; exact .nil
  | phs :: rest, scans, h => by
    simp only [scanAll] at h
    cases hs : scanMode orth phs ⟨[], 0, 0⟩ with
    | error e => simp [hs] at h
    | ok sc =>
      simp only [hs] at h
      cases hr : scanAll orth rest with
      | error e => simp [hr] at h
      | ok scs =>
        simp only [hr] at h
        cases h
        refine .cons ⟨?_, ?_⟩ (scanAll_spec orth rest scs hr)
        · simpa using scanMode_count' orth phs _ sc hs
        · intro w hw
          rcases scanMode_vectors orth phs _ sc hs w hw with h1 | h1
          · simp at h1
          · exact h1

theorem spatialInput_length (scans : List (Scan R)) :
    (spatialInput scans).length = scans.length * 2 := by
  induction scans with
  | nil => rfl
  | cons s r ih => simp [spatialInput, List.flatMap_cons] at ih ⊢; omega

theorem spatialInput_sum (scans : List (Scan R)) :
    (spatialInput scans).sum = (scans.map fun s => s.n0 + s.n1).sum := by
  induction scans with
  | nil => rfl
  | cons s r ih => simp [spatialInput, List.flatMap_cons] at ih ⊢; omega

theorem forall₂_sum_eq {α β : Type} (f : α → ℕ) (g : β → ℕ) (P : α → β → Prop)
    (hP : ∀ a b, P a b → g b = f a) :
    ∀ (l : List α) (r : List β), List.Forall₂ P l r → (r.map g).sum = (l.map f).sum
  | _, _, .nil => rfl
  | _, _, .cons h t => by simp [hP _ _ h, forall₂_sum_eq f g P hP _ _ t]

/-- the preparation blocks of all modes, as the driver forms them: mode `k` gets the block of the
vectors its scan kept, `ρ vs` being the value of the inverse norm used by the Gram–Schmidt step -/
def blocksOf [CommRing R] [StarRing R] (fixed : Bool) (ρ : List (R × R) → R) (scans : List (Scan R))
    (m : ℕ) : Fin m → Matrix (Fin 2) (Fin 2) R :=
  fun k => modeBlock fixed (ρ (scans.getD k.val ⟨[], 0, 0⟩).vectors)
    (scans.getD k.val ⟨[], 0, 0⟩).vectors

theorem forall₂_getD {α β : Type} (P : α → β → Prop) (Q : β → Prop) (d : β) (hd : Q d)
    (hP : ∀ a b, P a b → Q b) :
    ∀ (l : List α) (r : List β), List.Forall₂ P l r → ∀ k, Q (r.getD k d)
  | _, _, .nil, k => by simpa using hd
  | _, _, .cons h t, 0 => by simpa using hP _ _ h
  | _, _, .cons h t, k + 1 => by simpa using forall₂_getD P Q d hd hP _ _ t k

theorem getD_mem_or_default {α : Type} (d : α) : ∀ (l : List α) (k : ℕ),
    l.getD k d ∈ l ∨ l.getD k d = d
  | [], k => Or.inr (by simp)
  | a :: l, 0 => Or.inl (by simp)
  | a :: l, k + 1 => by
    rcases getD_mem_or_default d l k with h | h
    · exact Or.inl (by simpa using Or.inr h)
    · exact Or.inr (by simpa using h)

theorem forall₂_mem_right {α β : Type} {P : α → β → Prop} :
    ∀ {l : List α} {r : List β}, List.Forall₂ P l r → ∀ b ∈ r, ∃ a ∈ l, P a b
  | _, _, .nil, b, hb => by simp at hb
  | _, _, .cons h t, b, hb => by
    rcases List.mem_cons.1 hb with e | e
    · subst e; exact ⟨_, List.mem_cons_self .., h⟩
    · obtain ⟨a, ha, hp⟩ := forall₂_mem_right t b e
      exact ⟨a, List.mem_cons_of_mem _ ha, hp⟩

end PM.C13
