/-
  C16 — helper lemmas (model: `Model/C16.lean`).  Core Lean only.
-/
import PercevalModel.Model.C16
import PercevalModel.Found.SM

namespace PM.C16
open PM.SM

theorem run_cons {S Op Out : Type} (step : S → Op → S × Out) (s : S) (op : Op) (ops : List Op) :
    run step s (op :: ops) = ((run step (step s op).1 ops).1, (step s op).2 :: (run step (step s op).1 ops).2) := by
  simp [run]

/-! ### Python dictionaries -/

theorem dget_dset_self {α : Type} (d : Dict α) (k : String) (v : α) : dget (dset d k v) k = some v := by
  induction d with
  | nil => simp [dset, dget]
  | cons h t ih =>
    obtain ⟨a, b⟩ := h
    by_cases hk : a = k
    · simp [dset, dget, hk]
    · simp [dset, dget, hk, ih]

theorem dget_dset_ne {α : Type} (d : Dict α) (k x : String) (v : α) (h : k ≠ x) :
    dget (dset d k v) x = dget d x := by
  induction d with
  | nil => simp [dset, dget, h]
  | cons hd t ih =>
    obtain ⟨a, b⟩ := hd
    by_cases hk : a = k
    · subst hk; simp [dset, dget, h]
    · by_cases hx : a = x
      · subst hx; simp [dset, dget, hk]
      · simp [dset, dget, hk, hx, ih]

theorem dget_dset {α : Type} (d : Dict α) (k x : String) (v : α) :
    dget (dset d k v) x = if k = x then some v else dget d x := by
  by_cases h : k = x
  · subst h; simp [dget_dset_self]
  · simp [h, dget_dset_ne]

theorem dget_eq_none_of_not_mem {α : Type} (d : Dict α) (x : String) (h : x ∉ dkeys d) : dget d x = none := by
  induction d with
  | nil => rfl
  | cons hd t ih =>
    obtain ⟨a, b⟩ := hd
    simp only [dkeys, List.map_cons, List.mem_cons, not_or] at h
    have h1 : a ≠ x := fun e => h.1 e.symm
    simp only [dget, h1, if_false]
    exact ih h.2

theorem mem_dkeys_of_dget {α : Type} (d : Dict α) (x : String) (v : α) (h : dget d x = some v) : x ∈ dkeys d := by
  apply Classical.byContradiction
  intro hn
  rw [dget_eq_none_of_not_mem d x hn] at h
  cases h

theorem dget_of_mem_dkeys {α : Type} (d : Dict α) (k : String) (h : k ∈ dkeys d) : ∃ v, dget d k = some v := by
  induction d with
  | nil => cases h
  | cons hd t ih =>
    obtain ⟨a, b⟩ := hd
    simp only [dkeys, List.map_cons, List.mem_cons] at h
    by_cases ha : a = k
    · exact ⟨b, by simp [dget, ha]⟩
    · simp only [dget, ha, if_false]
      rcases h with h | h
      · exact absurd h.symm ha
      · exact ih h

/-- `d.update(u)` leaves every key `u` does not mention untouched -/
theorem dget_dupdate_of_not_mem {α : Type} (d u : Dict α) (x : String) (h : x ∉ dkeys u) :
    dget (dupdate d u) x = dget d x := by
  induction u generalizing d with
  | nil => rfl
  | cons hd t ih =>
    obtain ⟨a, b⟩ := hd
    simp only [dkeys, List.map_cons, List.mem_cons, not_or] at h
    simp only [dupdate]
    rw [ih _ h.2, dget_dset_ne _ _ _ _ (fun e => h.1 e.symm)]

theorem dkeys_dset {α : Type} (d : Dict α) (k : String) (v : α) :
    ∀ x, x ∈ dkeys (dset d k v) ↔ x = k ∨ x ∈ dkeys d := by
  induction d with
  | nil => intro x; simp [dset, dkeys]
  | cons hd t ih =>
    obtain ⟨a, b⟩ := hd
    intro x
    by_cases hk : a = k
    · subst hk
      simp only [dset, if_true, dkeys, List.map_cons, List.mem_cons]
      constructor
      · intro h; rcases h with h | h
        · exact Or.inl h
        · exact Or.inr (Or.inr h)
      · intro h; rcases h with h | h | h
        · exact Or.inl h
        · exact Or.inl h
        · exact Or.inr h
    · have := ih x
      simp only [dkeys] at this
      simp only [dset, hk, if_false, dkeys, List.map_cons, List.mem_cons, this]
      constructor
      · intro h; rcases h with h | h | h
        · exact Or.inr (Or.inl h)
        · exact Or.inl h
        · exact Or.inr (Or.inr h)
      · intro h; rcases h with h | h | h
        · exact Or.inr (Or.inl h)
        · exact Or.inl h
        · exact Or.inr (Or.inr h)

theorem dkeys_pvDict (d : Dict PV) : dkeys (pvDict d) = dkeys d := by
  simp [dkeys, pvDict, List.map_map, Function.comp_def]

/-! ### `fields`: what `prepare_job_payload` writes for one key -/

theorem dget_oset (d : Dict V) (k x : String) (o : Option V) :
    dget (oset d k o) x = if k = x ∧ o.isSome then o else dget d x := by
  cases o with
  | none => simp [oset]
  | some v => simp [oset, dget_dset]

theorem dget_fields (e : Exp) (cl il : Bool) (base : Dict V) (x : String) :
    dget (fields e cl il base) x =
      if "noise" = x ∧ (e.noise.map V.noise).isSome then e.noise.map V.noise
      else if "heralds" = x ∧ (if e.heralds ≠ [] then some (V.heralds e.heralds) else none).isSome then
        (if e.heralds ≠ [] then some (V.heralds e.heralds) else none)
      else if "postselect" = x ∧ (e.post.map V.post).isSome then e.post.map V.post
      else if "parameters" = x ∧ (if e.params ≠ [] then some (V.params e.params) else none).isSome then
        (if e.params ≠ [] then some (V.params e.params) else none)
      else if "input_state" = x ∧ ((inputField e il).map V.state).isSome then (inputField e il).map V.state
      else if "circuit" = x ∧ (if cl then none else some (V.circ e.circ e.size)).isSome then
        (if cl then none else some (V.circ e.circ e.size))
      else dget base x := by
  simp only [fields, dget_oset]

theorem fields_command (e : Exp) (cl il : Bool) (base : Dict V) :
    dget (fields e cl il base) "command" = dget base "command" := by
  rw [dget_fields]; simp

theorem fields_circuit (e : Exp) (cl il : Bool) (base : Dict V) :
    dget (fields e cl il base) "circuit" =
      if cl then dget base "circuit" else some (.circ e.circ e.size) := by
  rw [dget_fields]; cases cl <;> simp

theorem fields_input (e : Exp) (cl il : Bool) (base : Dict V) :
    dget (fields e cl il base) "input_state" =
      match inputField e il with
      | some s => some (.state s)
      | none => dget base "input_state" := by
  rw [dget_fields]; cases inputField e il <;> simp

theorem fields_parameters (e : Exp) (cl il : Bool) (base : Dict V) :
    dget (fields e cl il base) "parameters" =
      if e.params ≠ [] then some (.params e.params) else dget base "parameters" := by
  rw [dget_fields]; by_cases h : e.params = [] <;> simp [h]

theorem fields_postselect (e : Exp) (cl il : Bool) (base : Dict V) :
    dget (fields e cl il base) "postselect" =
      match e.post with
      | some p => some (.post p)
      | none => dget base "postselect" := by
  rw [dget_fields]; cases e.post <;> simp

theorem fields_heralds (e : Exp) (cl il : Bool) (base : Dict V) :
    dget (fields e cl il base) "heralds" =
      if e.heralds ≠ [] then some (.heralds e.heralds) else dget base "heralds" := by
  rw [dget_fields]; by_cases h : e.heralds = [] <;> simp [h]

theorem fields_noise (e : Exp) (cl il : Bool) (base : Dict V) :
    dget (fields e cl il base) "noise" =
      match e.noise with
      | some n => some (.noise n)
      | none => dget base "noise" := by
  rw [dget_fields]; cases e.noise <;> simp

/-- keys `prepare_job_payload` does not write are passed through -/
theorem fields_other (e : Exp) (cl il : Bool) (base : Dict V) (x : String) (hx : x ∉ fieldKeys) :
    dget (fields e cl il base) x = dget base x := by
  simp only [fieldKeys, List.mem_cons, List.not_mem_nil, or_false, not_or] at hx
  obtain ⟨-, h1, h2, h3, h4, h5, h6⟩ := hx
  rw [dget_fields]
  simp [Ne.symm h1, Ne.symm h2, Ne.symm h3, Ne.symm h4, Ne.symm h5, Ne.symm h6]

theorem dset_ne_nil {α : Type} (d : Dict α) (k : String) (v : α) : dset d k v ≠ [] := by
  cases d with
  | nil => simp [dset]
  | cons hd t => obtain ⟨a, b⟩ := hd; simp only [dset]; split <;> simp

/-- a successful `prepare_job_payload`: which guards passed and what is returned -/
theorem preparePayload_ok (pf : Platform) (e : Exp) (cmd : String) (cl il : Bool) (kw : Dict V) (e' : Exp)
    (pl : Dict V) (h : preparePayload pf e cmd cl il kw = (e', .ok pl)) :
    dget kw "command" = none ∧ e.filter.isSome ∧ e' = syncFilterParam e ∧
      guardsAfterSync pf (syncFilterParam e) cl il = none ∧
      pl = fields (syncFilterParam e) cl il (("command", V.pv (.str cmd)) :: kw) := by
  unfold preparePayload at h
  split at h
  · cases h
  · split at h
    · cases h
    · rename_i h1 h2
      simp only at h
      cases hg : guardsAfterSync pf (syncFilterParam e) cl il with
      | some err => rw [hg] at h; cases h
      | none =>
        rw [hg] at h
        simp only [Prod.mk.injEq, pure, Except.pure, Except.ok.injEq] at h
        refine ⟨by simpa using h1, by cases hf : e.filter <;> simp_all, h.1.symm, rfl, h.2.symm⟩

/-! ### heralds: `with_input`'s merge loop and `remove_modes` -/

theorem hlookup_isSome (h : List (Nat × Nat)) (k : Nat) :
    (hlookup h k).isSome = (h.map (·.1)).contains k := by
  induction h with
  | nil => rfl
  | cons hd t ih =>
    obtain ⟨a, b⟩ := hd
    by_cases hk : a = k
    · simp [hlookup, hk]
    · have : (k == a) = false := by simpa using Ne.symm hk
      simp [hlookup, hk, ih, this]

theorem hlookup_of_mem (h : List (Nat × Nat)) (a v : Nat) (hn : (h.map (·.1)).Nodup) (hm : (a, v) ∈ h) :
    hlookup h a = some v := by
  induction h with
  | nil => cases hm
  | cons hd t ih =>
    obtain ⟨b, w⟩ := hd
    simp only [List.map_cons, List.nodup_cons] at hn
    simp only [List.mem_cons, Prod.mk.injEq] at hm
    rcases hm with ⟨rfl, rfl⟩ | hm
    · simp [hlookup]
    · have hb : b ≠ a := by
        intro e; subst e
        exact hn.1 (List.mem_map.mpr ⟨(b, v), hm, rfl⟩)
      simp only [hlookup, hb, if_false]
      exact ih hn.2 hm

/-- number of indices in `[k, k+n)` that belong to `L` -/
def cntIn (L : List Nat) : Nat → Nat → Nat
  | _, 0 => 0
  | k, n + 1 => (if L.contains k then 1 else 0) + cntIn L (k + 1) n

theorem cntIn_le (L : List Nat) (k n : Nat) : cntIn L k n ≤ n := by
  induction n generalizing k with
  | zero => simp [cntIn]
  | succ n ih => have := ih (k + 1); simp only [cntIn]; split <;> omega

theorem cntIn_congr (L L' : List Nat) (k n : Nat)
    (h : ∀ j, k ≤ j → j < k + n → L.contains j = L'.contains j) : cntIn L k n = cntIn L' k n := by
  induction n generalizing k with
  | zero => rfl
  | succ n ih =>
    simp only [cntIn]
    rw [h k (Nat.le_refl _) (by omega), ih (k + 1) (fun j h1 h2 => h j (by omega) (by omega))]

theorem cntIn_eq_length (L : List Nat) (k n : Nat) (hn : L.Nodup) (hb : ∀ x ∈ L, k ≤ x ∧ x < k + n) :
    cntIn L k n = L.length := by
  induction n generalizing k L with
  | zero =>
    cases L with
    | nil => rfl
    | cons a t => have := hb a (by simp); omega
  | succ n ih =>
    simp only [cntIn]
    by_cases hk : k ∈ L
    · have h1 : cntIn L (k + 1) n = cntIn (L.erase k) (k + 1) n := by
        apply cntIn_congr
        intro j hj _
        have hne : j ≠ k := by omega
        by_cases hm : j ∈ L
        · have : j ∈ L.erase k := (List.mem_erase_of_ne hne).mpr hm
          simp [hm, this]
        · have : j ∉ L.erase k := fun h => hm (List.mem_of_mem_erase h)
          simp [hm, this]
      have h2 := ih (L.erase k) (k + 1) (hn.erase k) (by
        intro x hx
        have hxL := List.mem_of_mem_erase hx
        have hxk : x ≠ k := fun e => by
          subst e; exact (List.Nodup.mem_erase_iff hn).mp hx |>.1 rfl
        have := hb x hxL
        omega)
      have h3 : (L.erase k).length = L.length - 1 := List.length_erase_of_mem hk
      have h4 : 0 < L.length := List.length_pos_of_mem hk
      simp only [List.contains_iff_mem, hk, if_true, h1, h2, h3]
      omega
    · have h2 := ih L (k + 1) hn (by
        intro x hx
        have := hb x hx
        have hxk : x ≠ k := fun e => hk (e ▸ hx)
        omega)
      simp only [List.contains_iff_mem, hk, if_false, h2]
      omega

theorem merge_length (h : List (Nat × Nat)) (k n : Nat) (s : List Nat) : (merge h k n s).length = n := by
  induction n generalizing k s with
  | zero => simp [merge]
  | succ n ih =>
    simp only [merge]
    split
    · simp [ih]
    · split <;> simp [ih]

theorem removeModes_length (L : List Nat) (k : Nat) (t : List Nat) :
    (removeModes L k t).length + cntIn L k t.length = t.length := by
  induction t generalizing k with
  | nil => simp [removeModes, cntIn]
  | cons x xs ih =>
    have := ih (k + 1)
    simp only [removeModes, List.length_cons, cntIn]
    by_cases hc : L.contains k = true
    · simp only [hc, if_true]; omega
    · simp only [hc, Bool.false_eq_true, if_false, List.length_cons]; omega

/-- removing the herald modes from the merged state gives back the user's state -/
theorem removeModes_merge (h : List (Nat × Nat)) (k n : Nat) (s : List Nat)
    (hc : s.length + cntIn (h.map (·.1)) k n = n) :
    removeModes (h.map (·.1)) k (merge h k n s) = s := by
  induction n generalizing k s with
  | zero =>
    simp only [cntIn, Nat.add_zero] at hc
    simp [merge, removeModes, List.eq_nil_of_length_eq_zero hc]
  | succ n ih =>
    have hs := hlookup_isSome h k
    simp only [cntIn] at hc
    simp only [merge]
    cases hl : hlookup h k with
    | some v =>
      rw [hl] at hs
      simp only [Option.isSome_some] at hs
      simp only [removeModes, ← hs, if_true]
      apply ih
      rw [← hs] at hc
      simp only [if_true] at hc
      omega
    | none =>
      rw [hl] at hs
      simp only [Option.isSome_none] at hs
      rw [← hs] at hc
      simp only [Bool.false_eq_true, if_false, Nat.zero_add] at hc
      have hle := cntIn_le (h.map (·.1)) (k + 1) n
      cases s with
      | nil => simp only [List.length_nil] at hc; omega
      | cons x xs =>
        simp only [removeModes, ← hs, Bool.false_eq_true, if_false, List.cons.injEq, true_and]
        apply ih
        simp only [List.length_cons] at hc
        omega

/-- every herald mode of the merged state carries the herald's expected photon count -/
theorem merge_herald (h : List (Nat × Nat)) (k n : Nat) (s : List Nat) (j v : Nat) (h1 : k ≤ j) (h2 : j < k + n)
    (hv : hlookup h j = some v) : (merge h k n s)[j - k]? = some v := by
  induction n generalizing k s with
  | zero => omega
  | succ n ih =>
    by_cases hjk : j = k
    · subst hjk
      simp [merge, hv]
    · have hstep : j - k = (j - (k + 1)) + 1 := by omega
      simp only [merge]
      split
      · rw [hstep, List.getElem?_cons_succ]; exact ih (k + 1) s (by omega) (by omega)
      · split
        · rw [hstep, List.getElem?_cons_succ]; exact ih (k + 1) _ (by omega) (by omega)
        · rw [hstep, List.getElem?_cons_succ]; exact ih (k + 1) _ (by omega) (by omega)

/-! ### well-formed experiments -/

theorem wf_cnt (e : Exp) (h : e.WF) : cntIn (heraldModes e) 0 e.size = e.heralds.length := by
  have := cntIn_eq_length (heraldModes e) 0 e.size h.nodup (fun x hx => ⟨Nat.zero_le _, by simpa using h.inside x hx⟩)
  simpa [heraldModes] using this

/-- a full-size state loses exactly the herald modes -/
theorem removeModes_length_wf (e : Exp) (h : e.WF) (t : List Nat) (ht : t.length = e.size) :
    (removeModes (heraldModes e) 0 t).length = e.m := by
  have h1 := removeModes_length (heraldModes e) 0 t
  rw [ht, wf_cnt e h] at h1
  have := h.count
  omega

theorem withInput_ok (e : Exp) (s : List Nat) (hs : s.length = e.m) :
    withInput e s = .ok { e with input := some (merge e.heralds 0 e.size s) } := by
  simp [withInput, hs, pure, Except.pure]

theorem withInput_err (e : Exp) (s : List Nat) (hs : s.length ≠ e.m) : withInput e s = .error .assertion := by
  simp [withInput, hs, throw, throwThe, MonadExceptOf.throw]

/-- `with_input` on a well-formed experiment: the stored state is full size, restricted to the modes of
interest it is the user's state, and every herald mode carries the herald's photon count -/
theorem merge_spec (e : Exp) (h : e.WF) (s : List Nat) (hs : s.length = e.m) :
    (merge e.heralds 0 e.size s).length = e.size ∧
    removeModes (heraldModes e) 0 (merge e.heralds 0 e.size s) = s ∧
    ∀ k v, (k, v) ∈ e.heralds → (merge e.heralds 0 e.size s)[k]? = some v := by
  refine ⟨merge_length _ _ _ _, ?_, ?_⟩
  · apply removeModes_merge
    have := wf_cnt e h
    simp only [heraldModes] at this
    rw [this, hs]; exact h.count
  · intro k v hkv
    have hk : k < e.size := h.inside k (List.mem_map.mpr ⟨(k, v), hkv, rfl⟩)
    have := merge_herald e.heralds 0 e.size s k v (Nat.zero_le _) (by omega)
      (hlookup_of_mem e.heralds k v h.nodup hkv)
    simpa using this

theorem withInput_wf (e e' : Exp) (h : e.WF) (s : List Nat) (hw : withInput e s = .ok e') : e'.WF := by
  by_cases hs : s.length = e.m
  · rw [withInput_ok e s hs] at hw
    cases hw
    exact ⟨h.count, h.nodup, h.inside, by simp [inputLenOk, merge_length]⟩
  · rw [withInput_err e s hs] at hw; cases hw

theorem addHerald_wf (e e' : Exp) (h : e.WF) (mode ex : Nat) (hm : mode < e.size) (h2 : 1 < e.m)
    (hw : addHerald e mode ex = .ok e') : e'.WF := by
  unfold addHerald at hw
  split at hw
  · cases hw
  · split at hw
    · cases hw
    · rename_i hc
      cases hw
      have hnot : mode ∉ heraldModes e := by simpa using hc
      refine ⟨?_, ?_, ?_, ?_⟩
      · have := h.count; simp only [List.length_append, List.length_cons, List.length_nil]; omega
      · have := h.nodup
        simp only [heraldModes, List.map_append, List.map_cons, List.map_nil] at this hnot ⊢
        rw [List.nodup_append]
        refine ⟨this, by simp, ?_⟩
        intro a ha b hb
        simp only [List.mem_cons, List.not_mem_nil, or_false] at hb
        subst hb
        intro e1; subst e1; exact hnot ha
      · intro k hk
        simp only [heraldModes, List.map_append, List.map_cons, List.map_nil, List.mem_append, List.mem_cons,
          List.not_mem_nil, or_false] at hk
        rcases hk with hk | rfl
        · exact h.inside k hk
        · exact hm
      · exact h.inlen

/-! ### `from_local_processor` -/

theorem enumHeralds_modes (base : Nat) (l : List (Nat × Nat)) :
    (enumHeralds base l).map (·.1) = List.range' base l.length := by
  induction l generalizing base with
  | nil => rfl
  | cons hd t ih => obtain ⟨a, b⟩ := hd; simp [enumHeralds, ih, List.range'_succ]

theorem enumHeralds_values (base : Nat) (l : List (Nat × Nat)) :
    (enumHeralds base l).map (·.2) = l.map (·.2) := by
  induction l generalizing base with
  | nil => rfl
  | cons hd t ih => obtain ⟨a, b⟩ := hd; simp [enumHeralds, ih]

theorem enumHeralds_length (base : Nat) (l : List (Nat × Nat)) : (enumHeralds base l).length = l.length := by
  have := congrArg List.length (enumHeralds_values base l)
  simpa using this

/-- the processor `from_local_processor` builds before it sets the input -/
def convBase (p : Exp) : Exp :=
  { m := p.m, size := p.m + p.heralds.length, heralds := enumHeralds p.m p.heralds, input := none,
    post := p.post.map (·.relabel (normPerm (relabelOf p))), noise := some (p.noise.getD 0), filter := p.filter,
    params := [("min_detected_photons", pvOfFilter p.filter)], circ := p.circ.relabel (normPerm (relabelOf p)),
    cparams := p.cparams }

theorem convBase_wf (p : Exp) : (convBase p).WF := by
  refine ⟨?_, ?_, ?_, rfl⟩
  · simp [convBase, enumHeralds_length]
  · simp only [heraldModes, convBase, enumHeralds_modes]; exact List.nodup_range'
  · intro k hk
    simp only [heraldModes, convBase, enumHeralds_modes, List.mem_range'_1] at hk
    simp only [convBase]; omega

theorem fromLocal_eq (fixed : Bool) (p : Exp) :
    fromLocal fixed p =
      match p.input with
      | none => pure (convBase p)
      | some s => withInput (convBase p) (if fixed then removeModes (heraldModes p) 0 s else s) := rfl

/-! ### the session machine: frame lemmas -/

theorem onExp_frame (w : World) (f : Exp → Res Exp) :
    (onExp w f).1.log = w.log ∧ (onExp w f).1.jobs = w.jobs ∧ (onExp w f).2.isSent = false ∧
      (onExp w f).1.pf = w.pf := by
  unfold onExp
  split
  · simp [Out.isSent]
  · split <;> simp [Out.isSent]

/-- every operation other than `execute` leaves the handler's log alone, sends nothing and keeps the jobs
created so far -/
theorem step_frame (w : World) (op : Op) (h : op.isExecute = false) :
    (step w op).1.log = w.log ∧ (step w op).2.isSent = false ∧ (step w op).1.pf = w.pf ∧
      ∀ idx, idx < w.jobs.length → (step w op).1.jobs[idx]? = w.jobs[idx]? := by
  cases op with
  | execute idx args kw net => simp [Op.isExecute] at h
  | newRemote via m circ cps noise =>
    simp only [step]; split <;> simp [Out.isSent]
  | convert fixed p =>
    simp only [step]; split
    · simp [Out.isSent]
    · split <;> simp [Out.isSent]
  | addHerald mode ex => simp only [step]; have := onExp_frame w (fun e => if e.size ≤ mode ∨ e.m ≤ 1 then throw .precondition else addHerald e mode ex); simp [this]
  | withInput s => simp only [step]; have := onExp_frame w (fun e => withInput e s); simp [this]
  | setFilter n => simp only [step]; have := onExp_frame w (fun e => pure (setFilter e n)); simp [this]
  | setPost p => simp only [step]; have := onExp_frame w (fun e => pure (setPost e (p.map (⟨·, []⟩)))); simp [this]
  | setNoise n => simp only [step]; have := onExp_frame w (fun e => pure (setNoise e n)); simp [this]
  | setParam k v => simp only [step]; have := onExp_frame w (fun e => pure (setParam e k v)); simp [this]
  | clearParams => simp only [step]; have := onExp_frame w (fun e => pure (clearParams e)); simp [this]
  | setCircuit checked sz circ cps =>
    simp only [step]
    have := onExp_frame w (fun e => if e.m = 0 then throw .precondition else setCircuit w.pf e checked sz circ cps)
    simp [this]
  | retune circ => simp only [step]; have := onExp_frame w (fun e => pure (retune e circ)); simp [this]
  | addComponent circ cps =>
    simp only [step]
    have := onExp_frame w (fun e => if e.post.isSome then throw .precondition else pure (addComponent e circ cps))
    simp [this]
  | prepare cmd cl il kw =>
    simp only [step]; split
    · simp [Out.isSent]
    · split <;> simp [Out.isSent]
  | newSampler ms =>
    simp only [step]; split
    · simp [Out.isSent]
    · split <;> simp [Out.isSent]
  | addIterations its =>
    simp only [step]; split
    · split <;> simp [Out.isSent]
    · simp [Out.isSent]
  | clearIterations => simp only [step]; split <;> simp [Out.isSent]
  | createJob method =>
    simp only [step]; split
    · split
      · simp [Out.isSent]
      · simp only [Out.isSent, true_and]
        intro idx hidx
        simp [List.getElem?_append_left hidx]
    · simp [Out.isSent]

theorem step_execute (w : World) (idx : Nat) (args : List PV) (kw : Dict PV) (net : Net) :
    (w.jobs[idx]? = none ∧ step w (.execute idx args kw net) = (w, .err .precondition)) ∨
    (∃ j its, w.jobs[idx]? = some (j, its) ∧ j.fresh = false ∧
      step w (.execute idx args kw net) = (w, .err .assertion)) ∨
    (∃ j its err, w.jobs[idx]? = some (j, its) ∧ j.fresh = true ∧ createPayloadData j args kw = .error err ∧
      step w (.execute idx args kw net) =
        ({ w with jobs := w.jobs.set idx ({ j with fresh := false }, its) }, .err err)) ∨
    (∃ j its pl, w.jobs[idx]? = some (j, its) ∧ j.fresh = true ∧ createPayloadData j args kw = .ok pl ∧
      step w (.execute idx args kw net) =
        ({ w with jobs := w.jobs.set idx ({ j with fresh := false }, its),
                  log := w.log ++ received net ⟨j.jobName, pl, its⟩ }, outcome net ⟨j.jobName, pl, its⟩)) := by
  cases hj : w.jobs[idx]? with
  | none => left; simp [step, hj]
  | some ji =>
    obtain ⟨j, its⟩ := ji
    right
    cases hf : j.fresh with
    | false => left; exact ⟨j, its, rfl, hf, by simp [step, hj, hf]⟩
    | true =>
      right
      cases hc : createPayloadData j args kw with
      | error err => left; exact ⟨j, its, err, rfl, hf, hc, by simp [step, hj, hf, hc]⟩
      | ok pl => right; exact ⟨j, its, pl, rfl, hf, hc, by simp [step, hj, hf, hc]⟩

/-! ### the handler's log -/

/-- the requests that reached the platform (answered or not) among a list of outputs, in order -/
def sentOf : List Out → List Sent
  | [] => []
  | .sent s :: t => s :: sentOf t
  | .lost s :: t => s :: sentOf t
  | .err _ :: t => sentOf t
  | .done :: t => sentOf t
  | .payload _ :: t => sentOf t

/-- one step: the handler's log grows by exactly the `Sent` output of the step, if there is one -/
theorem step_log (w : World) (op : Op) : (step w op).1.log = w.log ++ sentOf [(step w op).2] := by
  cases hx : op.isExecute with
  | false =>
    obtain ⟨h1, h2, -⟩ := step_frame w op hx
    rw [h1]
    cases ho : (step w op).2 with
    | sent s => rw [ho] at h2; cases h2
    | lost s => rw [ho] at h2; cases h2
    | err _ => simp [sentOf]
    | done => simp [sentOf]
    | payload _ => simp [sentOf]
  | true =>
    cases op with
    | execute idx args kw net =>
      rcases step_execute w idx args kw net with ⟨-, h⟩ | ⟨j, its, -, -, h⟩ | ⟨j, its, err, -, -, -, h⟩ |
          ⟨j, its, pl, -, -, -, h⟩ <;> rw [h]
      · simp [sentOf]
      · simp [sentOf]
      · simp [sentOf]
      · cases net <;> simp [sentOf, received, outcome]
    | _ => cases hx

theorem sentOf_cons (o : Out) (t : List Out) : sentOf (o :: t) = sentOf [o] ++ sentOf t := by
  cases o <;> simp [sentOf]

/-- a job that has been executed (successfully or not) -/
def Executed (w : World) (idx : Nat) : Prop := ∃ j its, w.jobs[idx]? = some (j, its) ∧ j.fresh = false

theorem executed_step (w : World) (op : Op) (idx : Nat) (h : Executed w idx) : Executed (step w op).1 idx := by
  obtain ⟨j, its, hj, hf⟩ := h
  have hlt : idx < w.jobs.length := by
    rcases Nat.lt_or_ge idx w.jobs.length with h | h
    · exact h
    · rw [List.getElem?_eq_none h] at hj; cases hj
  cases hx : op.isExecute with
  | false => exact ⟨j, its, by rw [(step_frame w op hx).2.2.2 idx hlt]; exact hj, hf⟩
  | true =>
    cases op with
    | execute i args kw net =>
      rcases step_execute w i args kw net with ⟨-, h⟩ | ⟨j', its', -, -, h⟩ | ⟨j', its', err, hj', -, -, h⟩ |
          ⟨j', its', pl, hj', -, -, h⟩
      · rw [h]; exact ⟨j, its, hj, hf⟩
      · rw [h]; exact ⟨j, its, hj, hf⟩
      · rw [h]
        by_cases hi : i = idx
        · subst hi; exact ⟨{ j' with fresh := false }, its', by simp [hlt], rfl⟩
        · exact ⟨j, its, by simp [hi, hj], hf⟩
      · rw [h]
        by_cases hi : i = idx
        · subst hi; exact ⟨{ j' with fresh := false }, its', by simp [hlt], rfl⟩
        · exact ⟨j, its, by simp [hi, hj], hf⟩
    | _ => cases hx

/-! ### limits -/

/-- `max_samples ≤ max_shots` whenever a payload carries both, and then both are integers -/
def Clamped (pl : Dict V) : Prop :=
  ∀ a b, dget pl "max_samples" = some a → dget pl "max_shots" = some b →
    ∃ x y : Int, a = .pv (.int x) ∧ b = .pv (.int y) ∧ x ≤ y

theorem clampPayload_other (pl pl' : Dict V) (h : clampPayload pl = .ok pl') (x : String) (hx : x ≠ "max_samples") :
    dget pl' x = dget pl x := by
  unfold clampPayload at h
  split at h
  · split at h
    · split at h
      · cases h; exact dget_dset_ne _ _ _ _ (Ne.symm hx)
      · cases h; rfl
    · cases h
    · cases h
  · cases h; rfl

theorem clampPayload_clamped (pl pl' : Dict V) (h : clampPayload pl = .ok pl') : Clamped pl' := by
  intro a b ha hb
  have hshots := clampPayload_other pl pl' h "max_shots" (by decide)
  unfold clampPayload at h
  split at h
  · rename_i a0 b0 h1 h2
    split at h
    · rename_i x y
      split at h
      · cases h
        rw [dget_dset_self] at ha
        rw [hshots, h2] at hb
        cases ha; cases hb
        exact ⟨y, y, rfl, rfl, Int.le_refl _⟩
      · rename_i hlt
        cases h
        rw [h1] at ha; rw [h2] at hb
        cases ha; cases hb
        exact ⟨x, y, rfl, rfl, by omega⟩
    · cases h
    · cases h
  · rename_i hno
    cases h
    exact absurd hb (hno a b ha)

/-! ### `_handle_params` -/

theorem dget_derase_self {α : Type} (d : Dict α) (k : String) : dget (derase d k) k = none := by
  induction d with
  | nil => rfl
  | cons hd t ih =>
    obtain ⟨a, b⟩ := hd
    by_cases h : a = k
    · simp [derase, h, ih]
    · simp [derase, dget, h, ih]

theorem dget_derase_ne {α : Type} (d : Dict α) (k x : String) (h : k ≠ x) : dget (derase d k) x = dget d x := by
  induction d with
  | nil => rfl
  | cons hd t ih =>
    obtain ⟨a, b⟩ := hd
    by_cases h1 : a = k
    · subst h1; simp [derase, dget, h, ih]
    · by_cases h2 : a = x
      · subst h2; simp [derase, dget, h1]
      · simp [derase, dget, h1, h2, ih]

theorem fill_keys (d kw : Dict PV) : dkeys (fill d kw).1 = dkeys d := by
  induction d generalizing kw with
  | nil => rfl
  | cons hd t ih =>
    obtain ⟨k, v⟩ := hd
    simp only [fill]
    split
    · simp only [dkeys, List.map_cons, List.cons.injEq, true_and]; exact ih _
    · simp only [dkeys, List.map_cons, List.cons.injEq, true_and]; exact ih _

/-- a keyword argument is either still unused after `fill`, or it has been written into the dictionary -/
theorem fill_lands (d kw : Dict PV) (k : String) (v : PV) (h : dget kw k = some v) :
    dget (fill d kw).2 k = some v ∨ (k, v) ∈ (fill d kw).1 := by
  induction d generalizing kw with
  | nil => left; exact h
  | cons hd t ih =>
    obtain ⟨k0, v0⟩ := hd
    simp only [fill]
    split
    · rename_i x hv hx
      by_cases hk : k0 = k
      · subst hk
        rw [hx] at h; cases h
        right; simp
      · have := ih (derase kw k0) (by rw [dget_derase_ne _ _ _ hk]; exact h)
        rcases this with h1 | h1
        · left; exact h1
        · right; simp [h1]
    · have := ih kw h
      rcases this with h1 | h1
      · left; exact h1
      · right; simp [h1]

/-- `fill` never touches a key the keyword arguments do not mention -/
theorem fill_dget_of_absent (d kw : Dict PV) (k : String) (h : dget kw k = none) :
    dget (fill d kw).1 k = dget d k := by
  induction d generalizing kw with
  | nil => rfl
  | cons hd t ih =>
    obtain ⟨k0, v0⟩ := hd
    simp only [fill]
    split
    · rename_i x hv hx
      by_cases hk : k0 = k
      · subst hk; rw [h] at hx; cases hx
      · simp only [dget, hk, if_false]
        exact ih _ (by rw [dget_derase_ne _ _ _ hk]; exact h)
    · by_cases hk : k0 = k
      · simp [dget, hk]
      · simp only [dget, hk, if_false]; exact ih _ h

theorem bindPositional_keys (kw : Dict PV) (args : List PV) (names : List String) (cmd c : Dict PV)
    (h : bindPositional kw args names cmd = .ok c) : ∀ x ∈ dkeys c, x ∈ dkeys cmd ∨ x ∈ names := by
  induction args generalizing names cmd with
  | nil => simp only [bindPositional, pure, Except.pure, Except.ok.injEq] at h; subst h; intro x hx; exact Or.inl hx
  | cons a as ih =>
    cases names with
    | nil => simp [bindPositional, throw, throwThe, MonadExceptOf.throw] at h
    | cons n ns =>
      simp only [bindPositional] at h
      split at h
      · simp [throw, throwThe, MonadExceptOf.throw] at h
      · intro x hx
        rcases ih ns _ h x hx with h1 | h1
        · rcases (dkeys_dset cmd n a x).mp h1 with h2 | h2
          · right; simp [h2]
          · left; exact h2
        · right; simp [h1]

/-- a successful positional binding: no more arguments than names, no bound name among the keywords, and
(names being distinct) each argument is stored under its name -/
theorem bindPositional_spec (kw : Dict PV) (args : List PV) (names : List String) (cmd c : Dict PV)
    (hn : names.Nodup) (h : bindPositional kw args names cmd = .ok c) :
    args.length ≤ names.length ∧
    (∀ i (h1 : i < args.length) (h2 : i < names.length), dget kw names[i] = none ∧ dget c names[i] = some args[i]) ∧
    (∀ x, x ∉ names.take args.length → dget c x = dget cmd x) := by
  induction args generalizing names cmd with
  | nil =>
    simp only [bindPositional, pure, Except.pure, Except.ok.injEq] at h; subst h
    exact ⟨Nat.zero_le _, fun i h1 => absurd h1 (Nat.not_lt_zero _), fun _ _ => rfl⟩
  | cons a as ih =>
    cases names with
    | nil => simp [bindPositional, throw, throwThe, MonadExceptOf.throw] at h
    | cons n ns =>
      simp only [bindPositional] at h
      split at h
      · simp [throw, throwThe, MonadExceptOf.throw] at h
      · rename_i hkw
        simp only [List.nodup_cons] at hn
        obtain ⟨i1, i2, i3⟩ := ih ns _ hn.2 h
        refine ⟨by simp only [List.length_cons]; omega, ?_, ?_⟩
        · intro i h1 h2
          cases i with
          | zero =>
            refine ⟨by simpa using hkw, ?_⟩
            simp only [List.getElem_cons_zero]
            rw [i3 n (fun hm => hn.1 (List.mem_of_mem_take hm)), dget_dset_self]
          | succ i =>
            simp only [List.length_cons] at h1 h2
            simpa using i2 i (by omega) (by omega)
        · intro x hx
          simp only [List.length_cons, List.take_succ_cons, List.mem_cons, not_or] at hx
          rw [i3 x hx.2, dget_dset_ne _ _ _ _ (Ne.symm hx.1)]

/-- the first positional argument whose name is also given by keyword raises `RuntimeError` -/
theorem bindPositional_dup (kw : Dict PV) (args : List PV) (names : List String) (cmd : Dict PV) (i : Nat)
    (h1 : i < args.length) (h2 : i < names.length) (hd : (dget kw names[i]).isSome) :
    bindPositional kw args names cmd = .error .runtime := by
  induction args generalizing names cmd i with
  | nil => simp at h1
  | cons a as ih =>
    cases names with
    | nil => simp at h2
    | cons n ns =>
      simp only [bindPositional]
      split
      · rfl
      · rename_i hkw
        cases i with
        | zero => simp only [List.getElem_cons_zero] at hd; exact absurd hd hkw
        | succ i =>
          simp only [List.length_cons] at h1 h2
          exact ih ns _ i (by omega) (by omega) (by simpa using hd)

theorem handleParams_ok (names : List String) (command mapping : Dict PV) (args : List PV) (kw c m : Dict PV)
    (h : handleParams names command mapping args kw = .ok (c, m)) :
    ∃ c₁, bindPositional kw (splitArgs names args mapping).1 names command = .ok c₁ ∧
      c = (fill c₁ kw).1 ∧ m = (fill (splitArgs names args mapping).2 (fill c₁ kw).2).1 ∧
      (fill (splitArgs names args mapping).2 (fill c₁ kw).2).2 = [] := by
  unfold handleParams at h
  simp only at h
  cases hb : bindPositional kw (splitArgs names args mapping).1 names command with
  | error err => rw [hb] at h; cases h
  | ok c₁ =>
    rw [hb] at h
    simp only at h
    split at h
    · cases h
    · rename_i hnil
      simp only [pure, Except.pure, Except.ok.injEq, Prod.mk.injEq] at h
      exact ⟨c₁, rfl, h.1.symm, h.2.symm, by simpa using hnil⟩

theorem splitArgs_keys (names : List String) (args : List PV) (mapping : Dict PV) :
    ∀ x ∈ dkeys (splitArgs names args mapping).2, x ∈ dkeys mapping ∨ x = "max_samples" := by
  intro x hx
  unfold splitArgs at hx
  split at hx
  · split at hx
    · rcases (dkeys_dset _ _ _ x).mp hx with h | h
      · exact Or.inr h
      · exact Or.inl h
    · exact Or.inl hx
  · exact Or.inl hx

/-- keys of the new command / mapping dictionaries -/
theorem handleParams_keys (names : List String) (command mapping : Dict PV) (args : List PV) (kw c m : Dict PV)
    (h : handleParams names command mapping args kw = .ok (c, m)) :
    (∀ x ∈ dkeys c, x ∈ dkeys command ∨ x ∈ names) ∧
    (∀ x ∈ dkeys m, x ∈ dkeys mapping ∨ x = "max_samples") := by
  obtain ⟨c₁, hb, rfl, rfl, -⟩ := handleParams_ok _ _ _ _ _ _ _ h
  constructor
  · rw [fill_keys]; exact bindPositional_keys _ _ _ _ _ hb
  · rw [fill_keys]; exact splitArgs_keys _ _ _

/-! ### `_create_payload_data` -/

theorem createPayloadData_ok (j : Job) (args : List PV) (kw : Dict PV) (pl : Dict V)
    (h : createPayloadData j args kw = .ok pl) :
    ∃ c m ctx, handleParams j.names j.command j.mapping args kw = .ok (c, m) ∧
      clampPayload (dupdate j.payload (pvDict c ++ [("job_context", ctx)])) = .ok pl := by
  unfold createPayloadData at h
  split at h
  · cases h
  · rename_i c m hh
    exact ⟨c, m, _, hh, h⟩

theorem decode_congr (a b : Dict V) (h : ∀ x ∈ fieldKeys, dget a x = dget b x) : decode a = decode b := by
  simp only [fieldKeys, List.mem_cons, List.not_mem_nil, or_false, forall_eq_or_imp, forall_eq] at h
  obtain ⟨h0, h1, h2, h3, h4, h5, h6⟩ := h
  simp only [decode, h0, h1, h2, h3, h4, h5, h6]

/-- executing a job changes none of the fields `prepare_job_payload` wrote, provided the job's command
parameters are not named like one of them (a `Sampler` job only ever uses `max_samples`) -/
theorem createPayloadData_fields (j : Job) (args : List PV) (kw : Dict PV) (pl : Dict V)
    (h : createPayloadData j args kw = .ok pl)
    (hk : ∀ x, x ∈ dkeys j.command ∨ x ∈ j.names → x ∉ fieldKeys) :
    ∀ x ∈ fieldKeys, dget pl x = dget j.payload x := by
  obtain ⟨c, m, ctx, hh, hc⟩ := createPayloadData_ok j args kw pl h
  have hkeys := (handleParams_keys _ _ _ _ _ _ _ hh).1
  intro x hx
  have hxms : x ≠ "max_samples" := by
    intro e; subst e; simp [fieldKeys] at hx
  rw [clampPayload_other _ _ hc x hxms]
  apply dget_dupdate_of_not_mem
  simp only [dkeys, List.map_append, List.map_cons, List.map_nil, List.mem_append, List.mem_cons,
    List.not_mem_nil, or_false, not_or]
  constructor
  · intro hm
    have : x ∈ dkeys (pvDict c) := hm
    rw [dkeys_pvDict] at this
    exact hk x (hkeys x this) hx
  · intro e; subst e; simp [fieldKeys] at hx

/-! ### `Sampler._create_job` -/

theorem createJob_ok (pf : Platform) (e : Exp) (s : Sampler) (method : Method) (e' : Exp) (j : Job)
    (h : createJob pf e s method = (e', .ok j)) :
    ∃ prim conv pl0, primitive pf.commands method = some (prim, conv) ∧ inputAvailable e s = true ∧
      preparePayload pf e prim.name false false [] = (e', .ok pl0) ∧
      j.payload = dset (if s.iterator ≠ [] then dset pl0 "iterator" (.iter s.iterator.length) else pl0)
        "max_shots" (.pv (.int s.maxShots)) ∧
      (∀ x, x ∈ dkeys j.command ∨ x ∈ j.names → x = "max_samples") ∧
      j.jobName = method.name ∧ j.fresh = true ∧ j.resultMapping = conv := by
  unfold createJob at h
  split at h
  · cases h
  · rename_i hia
    split at h
    · cases h
    · rename_i prim conv hprim
      simp only at h
      cases hp : preparePayload pf e prim.name false false [] with
      | mk e1 r =>
        rw [hp] at h
        cases r with
        | error err => cases h
        | ok pl0 =>
          simp only [Prod.mk.injEq, pure, Except.pure, Except.ok.injEq] at h
          obtain ⟨h1, h2⟩ := h
          subst h1; subst h2
          refine ⟨prim, conv, pl0, hprim, by simpa using hia, hp, rfl, ?_, rfl, rfl, rfl⟩
          intro x hx
          simp only at hx
          rcases hx with hx | hx
          · revert hx
            cases method.isProbs <;> cases prim.isProbs <;> simp [dkeys]
          · revert hx
            cases prim.isProbs <;> simp

/-! ### the session machine preserves well-formedness of the remote processor -/

def World.WFInv (w : World) : Prop := ∀ e, w.exp = some e → e.WF

theorem syncFilterParam_wf (e : Exp) (h : e.WF) : (syncFilterParam e).WF :=
  ⟨h.count, h.nodup, h.inside, h.inlen⟩

theorem preparePayload_fst (pf : Platform) (e : Exp) (cmd : String) (cl il : Bool) (kw : Dict V) :
    (preparePayload pf e cmd cl il kw).1 = e ∨ (preparePayload pf e cmd cl il kw).1 = syncFilterParam e := by
  unfold preparePayload
  split
  · left; rfl
  · split
    · left; rfl
    · simp only; split <;> (right; rfl)

theorem createJob_fst (pf : Platform) (e : Exp) (s : Sampler) (method : Method) :
    (createJob pf e s method).1 = e ∨ (createJob pf e s method).1 = syncFilterParam e := by
  unfold createJob
  split
  · left; rfl
  · split
    · left; rfl
    · simp only
      have := preparePayload_fst pf e (by assumption : Method).name false false []
      split <;> simp_all

theorem fromLocal_wf (fixed : Bool) (p e : Exp) (h : fromLocal fixed p = .ok e) : e.WF := by
  rw [fromLocal_eq] at h
  split at h
  · cases h; exact convBase_wf p
  · exact withInput_wf _ _ (convBase_wf p) _ h

theorem onExp_wf (w : World) (f : Exp → Res Exp) (hf : ∀ e e', e.WF → f e = .ok e' → e'.WF) (hw : w.WFInv) :
    (onExp w f).1.WFInv := by
  unfold onExp
  split
  · exact hw
  · rename_i e he
    split
    · exact hw
    · rename_i e' hfe
      intro e2 h2
      simp only [Option.some.injEq] at h2
      subst h2
      exact hf e e' (hw e he) hfe

theorem step_wf (w : World) (op : Op) (hw : w.WFInv) : (step w op).1.WFInv := by
  cases op with
  | newRemote via m circ cps noise =>
    simp only [step]
    split
    · exact hw
    · rename_i e he
      intro e2 h2
      simp only [Option.some.injEq] at h2
      subst h2
      unfold newRemote at he
      simp only at he
      split at he
      · cases he
      · split at he
        · split at he
          · cases he
          · cases he; exact ⟨rfl, List.nodup_nil, by simp [heraldModes], rfl⟩
        · cases he; exact ⟨rfl, List.nodup_nil, by simp [heraldModes], rfl⟩
  | convert fixed p =>
    simp only [step]
    split
    · exact hw
    · split
      · exact hw
      · rename_i e he
        intro e2 h2
        simp only [Option.some.injEq] at h2
        subst h2
        exact fromLocal_wf fixed p _ he
  | addHerald mode ex =>
    simp only [step]
    apply onExp_wf _ _ _ hw
    intro e e' he hf
    split at hf
    · cases hf
    · rename_i hc
      simp only [not_or, Nat.not_le] at hc
      exact addHerald_wf e e' he mode ex hc.1 hc.2 hf
  | withInput s => simp only [step]; exact onExp_wf _ _ (fun e e' he hf => withInput_wf e e' he s hf) hw
  | setFilter n =>
    simp only [step]; apply onExp_wf _ _ _ hw
    intro e e' he hf; cases hf; exact ⟨he.count, he.nodup, he.inside, he.inlen⟩
  | setPost p =>
    simp only [step]; apply onExp_wf _ _ _ hw
    intro e e' he hf; cases hf; exact ⟨he.count, he.nodup, he.inside, he.inlen⟩
  | setNoise n =>
    simp only [step]; apply onExp_wf _ _ _ hw
    intro e e' he hf; cases hf; exact ⟨he.count, he.nodup, he.inside, he.inlen⟩
  | setParam k v =>
    simp only [step]; apply onExp_wf _ _ _ hw
    intro e e' he hf; cases hf; exact ⟨he.count, he.nodup, he.inside, he.inlen⟩
  | clearParams =>
    simp only [step]; apply onExp_wf _ _ _ hw
    intro e e' he hf; cases hf; exact ⟨he.count, he.nodup, he.inside, he.inlen⟩
  | setCircuit checked sz circ cps =>
    simp only [step]; apply onExp_wf _ _ _ hw
    intro e e' he hf
    split at hf
    · cases hf
    · unfold setCircuit at hf
      split at hf
      · cases hf
      · split at hf
        · cases hf
        · cases hf; exact ⟨he.count, he.nodup, he.inside, he.inlen⟩
  | retune circ =>
    simp only [step]; apply onExp_wf _ _ _ hw
    intro e e' he hf; cases hf; exact ⟨he.count, he.nodup, he.inside, he.inlen⟩
  | addComponent circ cps =>
    simp only [step]; apply onExp_wf _ _ _ hw
    intro e e' he hf
    split at hf
    · cases hf
    · cases hf; exact ⟨he.count, he.nodup, he.inside, he.inlen⟩
  | prepare cmd cl il kw =>
    simp only [step]
    split
    · exact hw
    · rename_i e he
      have h1 := preparePayload_fst w.pf e cmd cl il kw
      have hwf : (preparePayload w.pf e cmd cl il kw).1.WF := by
        rcases h1 with h1 | h1 <;> rw [h1]
        · exact hw e he
        · exact syncFilterParam_wf e (hw e he)
      split <;> (rename_i e' _ hp; rw [hp] at hwf; intro e2 h2; simp only [Option.some.injEq] at h2; subst h2; exact hwf)
  | newSampler ms =>
    simp only [step]
    split
    · exact hw
    · split <;> exact hw
  | addIterations its =>
    simp only [step]
    split
    · split <;> exact hw
    · exact hw
  | clearIterations => simp only [step]; split <;> exact hw
  | createJob method =>
    simp only [step]
    split
    · rename_i e s he hs
      have h1 := createJob_fst w.pf e s method
      have hwf : (createJob w.pf e s method).1.WF := by
        rcases h1 with h1 | h1 <;> rw [h1]
        · exact hw e he
        · exact syncFilterParam_wf e (hw e he)
      split <;> (rename_i e' _ hp; rw [hp] at hwf; intro e2 h2; simp only [Option.some.injEq] at h2; subst h2; exact hwf)
    · exact hw
  | execute idx args kw net =>
    rcases step_execute w idx args kw net with ⟨-, h⟩ | ⟨j, its, -, -, h⟩ | ⟨j, its, err, -, -, -, h⟩ | ⟨j, its, pl, -, -, -, h⟩ <;>
      (rw [h]; exact hw)

/-! ### the circuit symbol of the remote processor: who changes it -/

/-- the operations that (may) change what the processor's circuit denotes -/
def Op.touchesCircuit : Op → Bool
  | .newRemote _ _ _ _ _ => true
  | .convert _ _ => true
  | .setCircuit _ _ _ _ => true
  | .retune _ => true
  | .addComponent _ _ => true
  | _ => false

/-- the circuit symbol the remote processor currently holds -/
def World.circ (w : World) : Option Sym := w.exp.map (·.circ)

theorem onExp_circ (w : World) (f : Exp → Res Exp) (hf : ∀ e e', f e = .ok e' → e'.circ = e.circ) :
    (onExp w f).1.circ = w.circ := by
  unfold onExp
  split
  · rfl
  · rename_i e he
    split
    · rfl
    · rename_i e' hfe
      simp [World.circ, he, hf e e' hfe]

theorem addHerald_circ (e e' : Exp) (mode ex : Nat) (h : addHerald e mode ex = .ok e') : e'.circ = e.circ := by
  unfold addHerald at h
  split at h
  · cases h
  · split at h
    · cases h
    · cases h; rfl

theorem withInput_circ (e e' : Exp) (s : List Nat) (h : withInput e s = .ok e') : e'.circ = e.circ := by
  unfold withInput at h
  split at h
  · cases h
  · cases h; rfl

/-- every operation other than the five circuit-changing ones leaves the circuit symbol alone -/
theorem step_circ_frame (w : World) (op : Op) (h : op.touchesCircuit = false) : (step w op).1.circ = w.circ := by
  cases op with
  | newRemote via m circ cps noise => simp [Op.touchesCircuit] at h
  | convert fixed p => simp [Op.touchesCircuit] at h
  | setCircuit checked sz circ cps => simp [Op.touchesCircuit] at h
  | retune circ => simp [Op.touchesCircuit] at h
  | addComponent circ cps => simp [Op.touchesCircuit] at h
  | addHerald mode ex =>
    simp only [step]; apply onExp_circ
    intro e e' hf
    split at hf
    · cases hf
    · exact addHerald_circ e e' mode ex hf
  | withInput s => simp only [step]; exact onExp_circ _ _ (fun e e' hf => withInput_circ e e' s hf)
  | setFilter n => simp only [step]; apply onExp_circ; intro e e' hf; cases hf; rfl
  | setPost p => simp only [step]; apply onExp_circ; intro e e' hf; cases hf; rfl
  | setNoise n => simp only [step]; apply onExp_circ; intro e e' hf; cases hf; rfl
  | setParam k v => simp only [step]; apply onExp_circ; intro e e' hf; cases hf; rfl
  | clearParams => simp only [step]; apply onExp_circ; intro e e' hf; cases hf; rfl
  | prepare cmd cl il kw =>
    simp only [step]
    split
    · rfl
    · rename_i e he
      have h1 := preparePayload_fst w.pf e cmd cl il kw
      have hc : (preparePayload w.pf e cmd cl il kw).1.circ = e.circ := by
        rcases h1 with h1 | h1 <;> rw [h1] <;> rfl
      split <;> (rename_i e' _ hp; rw [hp] at hc; simp only [World.circ, he, Option.map_some]; exact congrArg some hc)
  | newSampler ms =>
    simp only [step]
    split
    · rfl
    · split <;> rfl
  | addIterations its =>
    simp only [step]
    split
    · split <;> rfl
    · rfl
  | clearIterations => simp only [step]; split <;> rfl
  | createJob method =>
    simp only [step]
    split
    · rename_i e s he hs
      have h1 := createJob_fst w.pf e s method
      have hc : (createJob w.pf e s method).1.circ = e.circ := by
        rcases h1 with h1 | h1 <;> rw [h1] <;> rfl
      split <;> (rename_i e' _ hp; rw [hp] at hc; simp only [World.circ, he, Option.map_some]; exact congrArg some hc)
    · rfl
  | execute idx args kw net =>
    rcases step_execute w idx args kw net with ⟨-, h⟩ | ⟨j, its, -, -, h⟩ | ⟨j, its, err, -, -, -, h⟩ | ⟨j, its, pl, -, -, -, h⟩ <;>
      first | (rw [h]; rfl) | rw [h]

/-- … over every history made of such operations -/
theorem exec_circ_frame (w : World) (ops : List Op) (h : ∀ op ∈ ops, op.touchesCircuit = false) :
    (PM.SM.exec step w ops).circ = w.circ := by
  induction ops generalizing w with
  | nil => rfl
  | cons op ops ih =>
    rw [PM.SM.exec_cons, ih _ (fun o ho => h o (List.mem_cons_of_mem _ ho)), step_circ_frame w op (h op (by simp))]

/-! ### iterations: what `_check_iteration` has looked at -/

/-- an accepted iteration: every entry passed its own check (whatever the other keys are) -/
theorem checkIteration_none (pf : Platform) (e : Exp) (it : Dict IV) (h : checkIteration pf e it = none) :
    ∀ kv ∈ it, checkIterKey pf e kv.1 kv.2 = none := by
  induction it with
  | nil => intro kv hkv; cases hkv
  | cons hd tl ih =>
    obtain ⟨k, v⟩ := hd
    unfold checkIteration at h
    cases hk : checkIterKey pf e k v with
    | some err => rw [hk] at h; cases h
    | none =>
      rw [hk] at h
      intro kv hkv
      rcases List.mem_cons.mp hkv with rfl | hkv
      · exact hk
      · exact ih h kv hkv

/-- `add_iteration_list`: whatever is in the iterator afterwards was there before or was accepted by
`_check_iteration` against this processor — also when a later iteration of the list is refused -/
theorem addIterations_mem (pf : Platform) (e : Exp) (s : Sampler) (its : List (Dict IV)) :
    ∀ it ∈ (addIterations pf e s its).1.iterator, it ∈ s.iterator ∨ checkIteration pf e it = none := by
  induction its generalizing s with
  | nil => intro it hit; exact Or.inl hit
  | cons hd tl ih =>
    intro it hit
    unfold addIterations at hit
    cases hc : checkIteration pf e hd with
    | some err => rw [hc] at hit; exact Or.inl hit
    | none =>
      rw [hc] at hit
      rcases ih _ it hit with h | h
      · simp only [List.mem_append, List.mem_cons, List.not_mem_nil, or_false] at h
        rcases h with h | rfl
        · exact Or.inl h
        · exact Or.inr hc
      · exact Or.inr h

theorem addIterations_maxShots (pf : Platform) (e : Exp) (s : Sampler) (its : List (Dict IV)) :
    (addIterations pf e s its).1.maxShots = s.maxShots := by
  induction its generalizing s with
  | nil => rfl
  | cons hd tl ih =>
    unfold addIterations
    cases hc : checkIteration pf e hd with
    | some err => rfl
    | none => simp only []; rw [ih]

/-- the iteration was accepted by `_check_iteration` against some state of the session's processor -/
def IterChecked (pf : Platform) (it : Dict IV) : Prop := ∃ e : Exp, checkIteration pf e it = none

/-- every iteration the session holds anywhere — in the sampler, captured by a job, received by the
platform — has been accepted by `_check_iteration` -/
structure World.ItersChecked (w : World) : Prop where
  sampler : ∀ s, w.sampler = some s → ∀ it ∈ s.iterator, IterChecked w.pf it
  jobs : ∀ ji ∈ w.jobs, ∀ it ∈ ji.2, IterChecked w.pf it
  log : ∀ s ∈ w.log, ∀ it ∈ s.iterator, IterChecked w.pf it

theorem itersChecked_of_same (w w' : World) (hpf : w'.pf = w.pf) (hs : w'.sampler = w.sampler)
    (hj : w'.jobs = w.jobs) (hl : w'.log = w.log) (h : w.ItersChecked) : w'.ItersChecked :=
  ⟨by rw [hpf, hs]; exact h.sampler, by rw [hpf, hj]; exact h.jobs, by rw [hpf, hl]; exact h.log⟩

theorem onExp_same (w : World) (f : Exp → Res Exp) :
    (onExp w f).1.pf = w.pf ∧ (onExp w f).1.sampler = w.sampler ∧ (onExp w f).1.jobs = w.jobs ∧
      (onExp w f).1.log = w.log := by
  unfold onExp
  split
  · simp
  · split <;> simp

theorem itersChecked_step (w : World) (op : Op) (h : w.ItersChecked) : (step w op).1.ItersChecked := by
  have onE : ∀ f, (onExp w f).1.ItersChecked := fun f =>
    itersChecked_of_same w _ (onExp_same w f).1 (onExp_same w f).2.1 (onExp_same w f).2.2.1 (onExp_same w f).2.2.2 h
  have noSampler : ∀ e : Option Exp, World.ItersChecked { w with exp := e, sampler := none } := fun e =>
    ⟨fun s hs => (by cases hs), h.jobs, h.log⟩
  have sameExp : ∀ e : Option Exp, World.ItersChecked { w with exp := e } := fun e =>
    ⟨h.sampler, h.jobs, h.log⟩
  cases op with
  | newRemote via m circ cps noise =>
    simp only [step]; split
    · exact h
    · exact noSampler _
  | convert fixed p =>
    simp only [step]; split
    · exact h
    · split
      · exact h
      · exact noSampler _
  | addHerald mode ex => exact onE _
  | withInput s => exact onE _
  | setFilter n => exact onE _
  | setPost p => exact onE _
  | setNoise n => exact onE _
  | setParam k v => exact onE _
  | clearParams => exact onE _
  | setCircuit checked sz circ cps => exact onE _
  | retune circ => exact onE _
  | addComponent circ cps => exact onE _
  | prepare cmd cl il kw =>
    simp only [step]; split
    · exact h
    · split <;> exact sameExp _
  | newSampler ms =>
    simp only [step]; split
    · exact h
    · split
      · exact h
      · exact ⟨fun s hs it hit => (by
          simp only [Option.some.injEq] at hs; subst hs; cases hit), h.jobs, h.log⟩
  | addIterations its =>
    simp only [step]; split
    · rename_i e s he hs
      have key : ∀ it ∈ (addIterations w.pf e s its).1.iterator, IterChecked w.pf it := by
        intro it hit
        rcases addIterations_mem w.pf e s its it hit with h1 | h1
        · exact h.sampler s hs it h1
        · exact ⟨e, h1⟩
      split <;> (rename_i s' _ hp; rw [hp] at key
                 exact ⟨fun s2 hs2 it hit => (by
                   simp only [Option.some.injEq] at hs2; subst hs2; exact key it hit), h.jobs, h.log⟩)
    · exact h
  | clearIterations =>
    simp only [step]; split
    · exact ⟨fun s2 hs2 it hit => (by simp only [Option.some.injEq] at hs2; subst hs2; cases hit), h.jobs, h.log⟩
    · exact h
  | createJob method =>
    simp only [step]; split
    · rename_i e s he hs
      split
      · exact sameExp _
      · refine ⟨h.sampler, ?_, h.log⟩
        intro ji hji it hit
        simp only [List.mem_append, List.mem_cons, List.not_mem_nil, or_false] at hji
        rcases hji with hji | rfl
        · exact h.jobs ji hji it hit
        · exact h.sampler s hs it hit
    · exact h
  | execute idx args kw net =>
    rcases step_execute w idx args kw net with ⟨-, hst⟩ | ⟨j, its, -, -, hst⟩ | ⟨j, its, err, hj, -, -, hst⟩ |
        ⟨j, its, pl, hj, -, -, hst⟩ <;> rw [hst]
    · exact h
    · exact h
    · have hmem : (j, its) ∈ w.jobs := List.mem_of_getElem? hj
      refine ⟨h.sampler, ?_, h.log⟩
      intro ji hji it hit
      rcases List.mem_or_eq_of_mem_set hji with hji | rfl
      · exact h.jobs ji hji it hit
      · exact h.jobs _ hmem it hit
    · have hmem : (j, its) ∈ w.jobs := List.mem_of_getElem? hj
      refine ⟨h.sampler, ?_, ?_⟩
      · intro ji hji it hit
        rcases List.mem_or_eq_of_mem_set hji with hji | rfl
        · exact h.jobs ji hji it hit
        · exact h.jobs _ hmem it hit
      · intro s hs it hit
        simp only [List.mem_append] at hs
        rcases hs with hs | hs
        · exact h.log s hs it hit
        · cases net <;> simp only [received, List.mem_cons, List.not_mem_nil, or_false] at hs
          · subst hs; exact h.jobs _ hmem it hit
          · subst hs; exact h.jobs _ hmem it hit

end PM.C16
