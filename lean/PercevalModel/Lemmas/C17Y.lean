/-
  C17 — helper lemmas for `Model/C17Y.lean` (result retrieval on the content of the answer under the
  real throttle; re-creation from the dictionary / from the id under the real clock).
-/
import PercevalModel.Lemmas.C17R
import PercevalModel.Lemmas.C17X
import PercevalModel.Model.C17Y

set_option linter.unusedSimpArgs false
set_option linter.unusedVariables false

namespace PM.C17
open PM.SM

theorem reopenJ_eq_restoreJ (j : Job) : reopenJ j = restoreJ j := rfl

theorem readStatusAt_throttled (fixed : Bool) (delay : Int) (t : TJob) (now : Int) (r : Resp)
    (h : now - t.prev ≤ delay) : readStatusAt fixed delay t now r = (t, none, []) := by
  unfold readStatusAt
  split
  · rfl
  · have : ¬ now - t.prev > delay := by omega
    simp [this]

/-- a read that is due and not throttled is the plain read, stamped with its time -/
theorem readStatusAt_overdue (fixed : Bool) (delay : Int) (t : TJob) (now : Int) (r : Resp)
    (hdue : statusDue t.job = true) (h : now - t.prev > delay) :
    readStatusAt fixed delay t now r =
      (⟨(readStatus fixed t.job r).1, now⟩, (readStatus fixed t.job r).2.1, (readStatus fixed t.job r).2.2) := by
  simp [readStatusAt, hdue, h]

theorem readStatusAt_no_results_call (fixed : Bool) (delay : Int) (t : TJob) (now : Int) (r : Resp) :
    ∀ c ∈ (readStatusAt fixed delay t now r).2.2, isResultsCall c = false := by
  rcases readStatusAt_cases fixed delay t now r with h | ⟨_, h⟩
  · rw [h]; simp
  · rw [h]; exact readStatus_no_results_call fixed t.job r

/-! ## `get_results` on the content of the answer, under the throttle -/

theorem getResultsY_neg (fixed : Bool) (delay : Int) (s : YJob) (n1 n2 : Int) (r1 r2 : Resp) (b : RBody)
    (hd : delay < 0) (hm : s.prev ≤ n1) (h12 : n1 ≤ n2) :
    (getResultsY fixed delay s n1 n2 r1 r2 b).1.r = (getResultsR fixed s.r r1 r2 b).1 ∧
    (getResultsY fixed delay s n1 n2 r1 r2 b).2 = (getResultsR fixed s.r r1 r2 b).2 ∧
    (getResultsY fixed delay s n1 n2 r1 r2 b).1.prev ≤ n2 := by
  obtain ⟨p, hp, he⟩ := readStatusAt_neg fixed delay s.t n1 r1 hd (by simpa [YJob.t] using hm)
  simp only [YJob.t] at he
  simp only [getResultsY, getResultsR, YJob.r, YJob.t, he]
  generalize readStatus fixed s.job r1 = q
  obtain ⟨j1, e, c⟩ := q
  cases e with
  | some e => simp; omega
  | none =>
    simp only
    by_cases hmc : j1.status.maybeCompleted = true
    · by_cases htv : truthyVal s.val = true
      · obtain ⟨p2, hp2, he2⟩ := readStatusAt_neg fixed delay ⟨j1, p⟩ n2 r2 hd (by simp; omega)
        simp only [hmc, htv, Bool.not_true, Bool.false_eq_true, if_false, if_true, he2]
        generalize readStatus fixed j1 r2 = q2
        obtain ⟨j2, e2, c2⟩ := q2
        cases e2 with
        | some e2 => simp; omega
        | none =>
          simp only
          by_cases hcc : j2.status.completed = true
          · simp [hcc]; omega
          · simp only [hcc, Bool.false_eq_true, if_false]
            refine ⟨?_, ?_, ?_⟩ <;> first | trivial | rfl | omega | (simp; omega)
      · simp only [hmc, htv, Bool.not_true, Bool.false_eq_true, if_false]
        refine ⟨?_, ?_, ?_⟩ <;> first | trivial | rfl | omega | (simp; omega)
    · simp [hmc]; omega

theorem getResultsY_final (fixed : Bool) (delay : Int) (s : YJob) (n1 n2 : Int) (r1 r2 : Resp) (b : RBody)
    (hfin : s.job.status.completed = true) :
    (getResultsY fixed delay s n1 n2 r1 r2 b).1.r = (getResultsR fixed s.r r1 r2 b).1 ∧
    (getResultsY fixed delay s n1 n2 r1 r2 b).2 = (getResultsR fixed s.r r1 r2 b).2 ∧
    (getResultsY fixed delay s n1 n2 r1 r2 b).1.prev = s.prev := by
  have hnd : statusDue s.job = false := statusDue_of_completed hfin
  have hA : ∀ now r, readStatusAt fixed delay ⟨s.job, s.prev⟩ now r = (⟨s.job, s.prev⟩, none, []) :=
    fun now r => readStatusAt_completed fixed delay ⟨s.job, s.prev⟩ now r hnd
  have hB : ∀ r, readStatus fixed s.job r = (s.job, none, []) := fun r => readStatus_not_due hnd
  simp only [getResultsY, getResultsR, YJob.r, YJob.t, hA, hB, maybeCompleted_of_completed hfin, hfin]
  simp only [Bool.not_true, Bool.false_eq_true, if_false, if_true]
  split <;> simp

/-- "Results are refused while the job is unfinished", under the throttle -/
theorem getResultsY_refused (fixed : Bool) (delay : Int) (s : YJob) (n1 n2 : Int) (r1 r2 : Resp) (b : RBody)
    (hok : (readStatusAt fixed delay s.t n1 r1).2.1 = none)
    (hun : (readStatusAt fixed delay s.t n1 r1).1.job.status.maybeCompleted = false) :
    getResultsY fixed delay s n1 n2 r1 r2 b =
      (⟨(readStatusAt fixed delay s.t n1 r1).1.job, s.val, (readStatusAt fixed delay s.t n1 r1).1.prev⟩,
       ⟨.raised (.base .stillRunning), (readStatusAt fixed delay s.t n1 r1).2.2⟩) := by
  unfold getResultsY
  generalize readStatusAt fixed delay s.t n1 r1 = q at hok hun
  obtain ⟨t1, e, c⟩ := q
  simp only at hok hun
  subst hok
  simp [hun]

/-- inside the refresh delay nothing is read: the outcome is decided by what the object holds -/
theorem getResultsY_throttled (fixed : Bool) (delay : Int) (s : YJob) (n1 n2 : Int) (r1 r2 : Resp) (b : RBody)
    (h1 : n1 - s.prev ≤ delay) (h2 : n2 - s.prev ≤ delay) :
    getResultsY fixed delay s n1 n2 r1 r2 b =
      if !s.job.status.maybeCompleted then (s, ⟨.raised (.base .stillRunning), []⟩)
      else if truthyVal s.val && s.job.status.completed then (s, ⟨.value (s.val.getD .null), []⟩)
      else (⟨(fetch s.job s.val [] b).1.job, (fetch s.job s.val [] b).1.val, s.prev⟩, (fetch s.job s.val [] b).2) := by
  have hA : ∀ now r, now - s.prev ≤ delay →
      readStatusAt fixed delay ⟨s.job, s.prev⟩ now r = (⟨s.job, s.prev⟩, none, []) :=
    fun now r h => readStatusAt_throttled fixed delay ⟨s.job, s.prev⟩ now r h
  simp only [getResultsY, YJob.t, hA n1 r1 h1]
  split
  · simp
  · cases htv : truthyVal s.val
    · simp
    · simp only [if_true, hA n2 r2 h2, Bool.true_and]
      split <;> simp

/-! ## the machine -/

theorem ystep_neg (fixed : Bool) (delay : Int) (s : YJob) (y : YOp) (rop : ROp) (n1 n2 : Int)
    (hp : y.plain = some rop) (ht : y.times = some (n1, n2))
    (hd : delay < 0) (hm : s.prev ≤ n1) (h12 : n1 ≤ n2) (h0 : 0 ≤ n2) :
    (ystep fixed delay s y).1.r = (rstep fixed s.r rop).1 ∧
    (ystep fixed delay s y).2 = (rstep fixed s.r rop).2 ∧
    (ystep fixed delay s y).1.prev ≤ n2 := by
  cases y with
  | reopen => simp [YOp.plain] at hp
  | getResults a1 a2 r1 r2 b =>
    simp only [YOp.plain, Option.some.injEq] at hp
    simp only [YOp.times, Option.some.injEq, Prod.mk.injEq] at ht
    obtain ⟨rfl, rfl⟩ := ht
    subst hp
    exact getResultsY_neg fixed delay s a1 a2 r1 r2 b hd hm h12
  | base a1 a2 op =>
    simp only [YOp.plain, Option.some.injEq] at hp
    simp only [YOp.times, Option.some.injEq, Prod.mk.injEq] at ht
    obtain ⟨rfl, rfl⟩ := ht
    subst hp
    obtain ⟨e1, e2, e3⟩ := kstep_neg fixed delay s.t ⟨a1, a2, op⟩ hd (by simpa [YJob.t] using hm) h12 h0
    simp only [YJob.t] at e1 e2 e3
    refine ⟨?_, ?_, ?_⟩
    · simp only [ystep, rstep, YJob.r, YJob.t, e1, e2]
      congr 1
    · simp [ystep, rstep, YJob.r, YJob.t, e2]
    · simpa [ystep, YJob.t] using e3

theorem ystep_final (fixed : Bool) (delay : Int) (s : YJob) (y : YOp) (rop : ROp)
    (hp : y.plain = some rop) (hfin : s.job.status.completed = true) :
    (ystep fixed delay s y).1.r = (rstep fixed s.r rop).1 ∧
    (ystep fixed delay s y).2 = (rstep fixed s.r rop).2 := by
  cases y with
  | reopen => simp [YOp.plain] at hp
  | getResults a1 a2 r1 r2 b =>
    simp only [YOp.plain, Option.some.injEq] at hp
    subst hp
    exact ⟨(getResultsY_final fixed delay s a1 a2 r1 r2 b hfin).1,
           (getResultsY_final fixed delay s a1 a2 r1 r2 b hfin).2.1⟩
  | base a1 a2 op =>
    simp only [YOp.plain, Option.some.injEq] at hp
    subst hp
    obtain ⟨e1, e2⟩ := kstep_final fixed delay s.t ⟨a1, a2, op⟩ (by simpa [YJob.t] using hfin)
    simp only [YJob.t] at e1 e2
    refine ⟨?_, ?_⟩
    · simp only [ystep, rstep, YJob.r, YJob.t, e1, e2]
      congr 1
    · simp [ystep, rstep, YJob.r, YJob.t, e2]

/-- the clock never runs backwards along a history of timed operations (none of them `reopen`) -/
def YMonotone : Int → List YOp → Prop
  | _, [] => True
  | t0, y :: ys => ∃ n1 n2, y.times = some (n1, n2) ∧ t0 ≤ n1 ∧ n1 ≤ n2 ∧ YMonotone n2 ys

theorem YOp.plain_of_times {y : YOp} {n : Int × Int} (h : y.times = some n) : ∃ rop, y.plain = some rop := by
  cases y <;> simp_all [YOp.times, YOp.plain]

theorem yrun_neg (fixed : Bool) (delay : Int) (hd : delay < 0) (ys : List YOp) (s : YJob) (t0 : Int)
    (ht : s.prev ≤ t0) (h0 : 0 ≤ t0) (hmono : YMonotone t0 ys) :
    (run (ystep fixed delay) s ys).1.r = (run (rstep fixed) s.r (ys.filterMap YOp.plain)).1 ∧
    (run (ystep fixed delay) s ys).2 = (run (rstep fixed) s.r (ys.filterMap YOp.plain)).2 := by
  induction ys generalizing s t0 with
  | nil => simp [run]
  | cons y ys ih =>
    obtain ⟨n1, n2, htm, ha, hb, hc⟩ := hmono
    obtain ⟨rop, hpl⟩ := YOp.plain_of_times htm
    have h0' : 0 ≤ n2 := by omega
    obtain ⟨e1, e2, e3⟩ := ystep_neg fixed delay s y rop n1 n2 hpl htm hd (Int.le_trans ht ha) hb h0'
    have := ih (ystep fixed delay s y).1 n2 e3 h0' hc
    simp only [List.filterMap_cons, hpl, run_cons, e2]
    rw [e1] at this
    exact ⟨this.1, by rw [this.2]⟩

/-- the operations that keep the history on one object and leave `_results` alone -/
def YOp.keeps : YOp → Bool
  | .base _ _ op => op.stays
  | .getResults _ _ _ _ _ => true
  | .reopen => false

theorem YOp.keeps_plain {y : YOp} (h : y.keeps = true) :
    ∃ rop, y.plain = some rop ∧ ∀ o, rop = .base o → o.stays = true := by
  cases y with
  | base a1 a2 op => exact ⟨.base op, rfl, fun o ho => by cases ho; exact h⟩
  | getResults a1 a2 r1 r2 b => exact ⟨.getResults r1 r2 b, rfl, fun o ho => by cases ho⟩
  | reopen => simp [YOp.keeps] at h

/-- one step on a final job that holds a truthy result, whatever the clock -/
theorem ystep_final_cached (fixed : Bool) (delay : Int) (x : YJob) (y : YOp) (p : Payload)
    (hk : y.keeps = true) (hc : x.job.status.completed = true) (hv : x.val = some p) (ht : p.truthy = true) :
    ((ystep fixed delay x y).1.job.status = x.job.status ∧ (ystep fixed delay x y).1.val = some p) ∧
    (∀ c ∈ (ystep fixed delay x y).2.calls, isResultsCall c = false) ∧
    (∀ n1 n2 r1 r2 b, y = .getResults n1 n2 r1 r2 b → (ystep fixed delay x y).2 = ⟨.value p, []⟩) := by
  obtain ⟨rop, hpl, hst⟩ := YOp.keeps_plain hk
  obtain ⟨e1, e2⟩ := ystep_final fixed delay x y rop hpl hc
  obtain ⟨h1, h2, h3, h4⟩ := rstep_final_cached fixed x.r rop p hc hv ht
    (fun o ho => Op.stays_switches (hst o ho))
  have ej : (ystep fixed delay x y).1.job = (rstep fixed x.r rop).1.job := by rw [← e1]; rfl
  have ev : (ystep fixed delay x y).1.val = (rstep fixed x.r rop).1.val := by rw [← e1]; rfl
  refine ⟨⟨by rw [ej]; exact h1, by rw [ev]; exact h2⟩, ?_, ?_⟩
  · intro c hcm
    rw [e2] at hcm
    cases rop with
    | getResults r1 r2 b => rw [h3 r1 r2 b rfl] at hcm; simp at hcm
    | base o =>
      exact step_final_no_results_call fixed x.job o hc (hst o rfl) c (by simpa [rstep, Out.toR, YJob.r] using hcm)
  · intro n1 n2 r1 r2 b hy
    subst hy
    simp only [YOp.plain, Option.some.injEq] at hpl
    subst hpl
    rw [e2]
    exact h3 r1 r2 b rfl

/-! ## re-creation -/

theorem resumeAt_overdue (fixed : Bool) (delay : Int) (n : Nat) (now : Int) (r : Resp) (h : now > delay) :
    resumeAt fixed delay n now r =
      match readStatus fixed (born n) r with
      | (_, some e, c) => (none, some e, c)
      | (j, none, c) => (some ⟨j, none, now⟩, none, c) := by
  have hdue : statusDue (born n) = true := by simp [statusDue, born, St.completed]
  have := readStatusAt_overdue fixed delay ⟨born n, 0⟩ now r hdue (by simpa using h)
  simp only [resumeAt, this]
  generalize readStatus fixed (born n) r = q
  obtain ⟨j, e, c⟩ := q
  cases e <;> rfl

theorem readStatus_born_calls (fixed : Bool) (n : Nat) (r : Resp) :
    (readStatus fixed (born n) r).2.2 = [.status (some n)] := by
  cases r <;> simp [readStatus, statusDue, born, St.completed]

/-! ## a final status, on the whole object -/

theorem fetch_job (j : Job) (val : Option Payload) (cs : List Call) (b : RBody) :
    (fetch j val cs b).1.job.status = j.status ∧ (fetch j val cs b).1.job.id = j.id := by
  unfold fetch
  cases b <;> simp

/-- everything but a `rerun` that the history follows into the new job -/
def YOp.noSwitch : YOp → Bool
  | .base _ _ op => !op.switches
  | _ => true

theorem ystep_final_absorbing (fixed : Bool) (delay : Int) (x : YJob) (y : YOp) (hns : y.noSwitch = true)
    (hid : x.job.id.isSome = true) (hc : x.job.status.completed = true) :
    (ystep fixed delay x y).1.job.status = x.job.status ∧ (ystep fixed delay x y).1.job.id = x.job.id ∧
    ∀ c ∈ (ystep fixed delay x y).2.calls, isStatusCall c = false := by
  cases y with
  | reopen => simp [ystep, reopenJ, hid]
  | base a1 a2 op =>
    have hsw : op.switches = false := by simpa [YOp.noSwitch] using hns
    obtain ⟨e1, e2⟩ := kstep_final fixed delay x.t ⟨a1, a2, op⟩ (by simpa [YJob.t] using hc)
    simp only [YJob.t] at e1 e2
    obtain ⟨h1, h2, h3⟩ := step_final fixed x.job op hc hsw
    refine ⟨?_, ?_, ?_⟩
    · simp only [ystep, YJob.t, e1]; exact h1
    · simp only [ystep, YJob.t, e1]; exact h2
    · simp only [ystep, YJob.t, e2, Out.toR]; exact h3
  | getResults a1 a2 r1 r2 b =>
    obtain ⟨e1, e2, _⟩ := getResultsY_final fixed delay x a1 a2 r1 r2 b hc
    have ej : (getResultsY fixed delay x a1 a2 r1 r2 b).1.job = (getResultsR fixed x.r r1 r2 b).1.job := by
      rw [← e1]; rfl
    have hR := getResultsR_final fixed x.r r1 r2 b hc
    simp only [ystep, ej, e2, hR]
    split
    · simp [YJob.r]
    · obtain ⟨f1, f2⟩ := fetch_job x.r.job x.r.val [] b
      refine ⟨f1, f2, ?_⟩
      rw [fetch_calls]
      simp [isStatusCall]

/-! ## sent at most once, on the whole object under the throttle -/

theorem readStatusAt_noCreate (fixed : Bool) (delay : Int) (t : TJob) (now : Int) (r : Resp) :
    countCreate (readStatusAt fixed delay t now r).2.2 = 0 := by
  rcases readStatusAt_cases fixed delay t now r with h | ⟨_, h⟩
  · rw [h]; rfl
  · rw [h]; exact readStatus_noCreate fixed t.job r

theorem readStatusAt_id (fixed : Bool) (delay : Int) (t : TJob) (now : Int) (r : Resp) :
    (readStatusAt fixed delay t now r).1.job.id = t.job.id := by
  rcases readStatusAt_cases fixed delay t now r with h | ⟨_, h⟩
  · rw [h]
  · rw [h]; exact readStatus_id fixed t.job r

/-- a sent object stays sent (or is followed into a sent child) and never calls `create_job`:
the clocked base operations (repaired code) -/
theorem kstep_sent (delay : Int) (t : TJob) (k : KOp) (hid : t.job.id.isSome = true) :
    (kstep true delay t k).1.job.id.isSome = true ∧ countCreate (kstep true delay t k).2.calls = 0 := by
  obtain ⟨n1, n2, op⟩ := k
  cases op with
  | execute h =>
    simp [kstep, execute, canExecute, hid, countCreate]
  | poll v r =>
    have h1 := readStatusAt_noCreate true delay t n1 r
    have h2 := readStatusAt_id true delay t n1 r
    simp only [kstep, pollAt]
    generalize readStatusAt true delay t n1 r = q at h1 h2
    obtain ⟨t1, e, c⟩ := q
    simp only at h1 h2
    cases e <;> simp [h1, h2, hid]
  | cancel r h =>
    have h1 := readStatusAt_noCreate true delay t n1 r
    have h2 := readStatusAt_id true delay t n1 r
    simp only [kstep, cancelAt]
    generalize readStatusAt true delay t n1 r = q at h1 h2
    obtain ⟨t1, e, c⟩ := q
    simp only at h1 h2
    cases e with
    | some e => simp [h1, h2, hid]
    | none =>
      simp only
      split
      · cases h <;> simp [countCreate_append, countCreate, h1, h2, hid]
      · simp [h1, h2, hid]
  | rerun r1 r2 h sw =>
    have h1 := readStatusAt_noCreate true delay t n1 r1
    have h2 := readStatusAt_id true delay t n1 r1
    simp only [kstep, rerunAt]
    generalize readStatusAt true delay t n1 r1 = q at h1 h2
    obtain ⟨t1, e, c⟩ := q
    simp only at h1 h2
    cases e with
    | some e => simp [h1, h2, hid]
    | none =>
      simp only
      split
      · cases h with
        | ok n => cases sw <;> simp [countCreate_append, countCreate, h1, h2, hid, born]
        | http c => simp [countCreate_append, countCreate, h1, h2, hid]
        | conn => simp [countCreate_append, countCreate, h1, h2, hid]
      · have h3 := readStatusAt_noCreate true delay t1 n2 r2
        have h4 := readStatusAt_id true delay t1 n2 r2
        generalize readStatusAt true delay t1 n2 r2 = q2 at h3 h4
        obtain ⟨t2, e2, c2⟩ := q2
        simp only at h3 h4
        cases e2 <;> simp [countCreate_append, h1, h2, h3, h4, hid]
  | getResults r1 r2 h =>
    have h1 := readStatusAt_noCreate true delay t n1 r1
    have h2 := readStatusAt_id true delay t n1 r1
    simp only [kstep, getResultsAt]
    generalize readStatusAt true delay t n1 r1 = q at h1 h2
    obtain ⟨t1, e, c⟩ := q
    simp only at h1 h2
    cases e with
    | some e => simp [h1, h2, hid]
    | none =>
      simp only
      split
      · simp [h1, h2, hid]
      · have h3 : countCreate (if t1.job.cache.isSome then readStatusAt true delay t1 n2 r2 else (t1, none, [])).2.2 = 0 := by
          split
          · exact readStatusAt_noCreate true delay t1 n2 r2
          · rfl
        have h4 : (if t1.job.cache.isSome then readStatusAt true delay t1 n2 r2 else (t1, none, [])).1.job.id = t1.job.id := by
          split
          · exact readStatusAt_id true delay t1 n2 r2
          · rfl
        generalize (if t1.job.cache.isSome then readStatusAt true delay t1 n2 r2 else (t1, none, [])) = q2 at h3 h4
        obtain ⟨t2, e2, c2⟩ := q2
        simp only at h3 h4
        cases e2 with
        | some e2 => simp [countCreate_append, h1, h2, h3, h4, hid]
        | none =>
          simp only
          split
          · simp [countCreate_append, h1, h2, h3, h4, hid]
          · cases h <;> simp [countCreate_append, countCreate, h1, h2, h3, h4, hid]

theorem fetch_noCreate (j : Job) (val : Option Payload) (cs : List Call) (b : RBody) :
    countCreate (fetch j val cs b).2.calls = countCreate cs := by
  rw [fetch_calls, countCreate_append]; simp [countCreate]

theorem getResultsY_sent (delay : Int) (s : YJob) (n1 n2 : Int) (r1 r2 : Resp) (b : RBody)
    (hid : s.job.id.isSome = true) :
    (getResultsY true delay s n1 n2 r1 r2 b).1.job.id.isSome = true ∧
    countCreate (getResultsY true delay s n1 n2 r1 r2 b).2.calls = 0 := by
  have h1 := readStatusAt_noCreate true delay s.t n1 r1
  have h2 := readStatusAt_id true delay s.t n1 r1
  simp only [getResultsY]
  generalize readStatusAt true delay s.t n1 r1 = q at h1 h2
  obtain ⟨t1, e, c⟩ := q
  simp only [YJob.t] at h1 h2
  cases e with
  | some e => simp [h1, h2, hid]
  | none =>
    simp only
    by_cases hmc : t1.job.status.maybeCompleted = true
    · by_cases htv : truthyVal s.val = true
      · have h3 := readStatusAt_noCreate true delay t1 n2 r2
        have h4 := readStatusAt_id true delay t1 n2 r2
        simp only [hmc, htv, Bool.not_true, Bool.false_eq_true, if_false, if_true]
        generalize readStatusAt true delay t1 n2 r2 = q2 at h3 h4
        obtain ⟨t2, e2, c2⟩ := q2
        simp only at h3 h4
        cases e2 with
        | some e2 => simp [countCreate_append, h1, h2, h3, h4, hid]
        | none =>
          simp only
          by_cases hcc : t2.job.status.completed = true
          · simp [hcc, countCreate_append, h1, h2, h3, h4, hid]
          · simp only [hcc, Bool.false_eq_true, if_false]
            rw [fetch_noCreate, (fetch_job t2.job s.val (c ++ c2) b).2]
            simp [countCreate_append, h1, h2, h3, h4, hid]
      · simp only [hmc, htv, Bool.not_true, Bool.false_eq_true, if_false]
        rw [fetch_noCreate, (fetch_job t1.job s.val c b).2]
        simp [h1, h2, hid]
    · simp [hmc, h1, h2, hid]

theorem ystep_sent (delay : Int) (s : YJob) (y : YOp) (hid : s.job.id.isSome = true) :
    (ystep true delay s y).1.job.id.isSome = true ∧ countCreate (ystep true delay s y).2.calls = 0 := by
  cases y with
  | reopen => simp [ystep, reopenJ, hid, countCreate]
  | getResults a1 a2 r1 r2 b => exact getResultsY_sent delay s a1 a2 r1 r2 b hid
  | base a1 a2 op =>
    obtain ⟨h1, h2⟩ := kstep_sent delay s.t ⟨a1, a2, op⟩ (by simpa [YJob.t] using hid)
    exact ⟨by simpa [ystep] using h1, by simpa [ystep, Out.toR] using h2⟩

end PM.C17
