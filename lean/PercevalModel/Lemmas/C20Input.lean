/-
  C20 — the default input state of a converted processor (`_configure_processor` / `apply_input_state`) is the
  encoding of the logical state `|0…0⟩` on the converter's layout.
-/
import PercevalModel.Model.C20Post
import PercevalModel.Lemmas.C20ModeMap

namespace PM.C20

theorem ext_getD {l₁ l₂ : List ℕ} (hl : l₁.length = l₂.length)
    (h : ∀ k < l₁.length, l₁.getD k 0 = l₂.getD k 0) : l₁ = l₂ := by
  apply List.ext_getElem hl
  intro k h1 h2
  have := h k h1
  simpa [List.getD_eq_getElem?_getD, List.getElem?_eq_getElem h1, List.getElem?_eq_getElem h2] using this

/-- the assignments `_configure_processor` makes: a `1` at every even position -/
def inputAssign (n : ℕ) : List (ℕ × ℕ) := (List.range n).map fun i => (2 * i, 1)

theorem inputList_eq (n : ℕ) : inputList n = setAll (inputAssign n) (List.replicate (2 * n) 0) := by
  unfold inputList setAll inputAssign
  rw [List.foldl_map]

theorem inputList_length (n : ℕ) : (inputList n).length = 2 * n := by
  rw [inputList_eq, setAll_length, List.length_replicate]

theorem inputAssign_pos (n : ℕ) : (inputAssign n).map (·.1) = (List.range n).map (2 * ·) := by
  simp [inputAssign, List.map_map, Function.comp_def]

theorem inputList_even (n q : ℕ) (hq : q < n) : (inputList n).getD (2 * q) 0 = 1 := by
  rw [inputList_eq]
  refine setAll_getD_mem (inputAssign n) _ ?_ ?_ (2 * q, 1) ?_
  · rw [inputAssign_pos]
    exact List.Nodup.map (fun a b h => by simpa using h) List.nodup_range
  · intro a ha
    obtain ⟨i, hi, rfl⟩ := List.mem_map.1 ha
    rw [List.length_replicate]
    have := List.mem_range.1 hi
    show 2 * i < 2 * n
    omega
  · exact List.mem_map.2 ⟨q, List.mem_range.2 hq, rfl⟩

theorem inputList_odd (n q : ℕ) : (inputList n).getD (2 * q + 1) 0 = 0 := by
  rw [inputList_eq, setAll_getD_not_mem, getD_replicate_zero]
  rw [inputAssign_pos]
  intro h
  obtain ⟨i, _, hi⟩ := List.mem_map.1 h
  omega

/-- **the default input of a converted processor is the logical state `|0…0⟩`**: `_input_list` followed by the herald
values is the encoding of the all-zero bit string on the converter's layout, for every qubit count and every list
of herald values -/
theorem inputState_eq_encode_zero (n : ℕ) (hv : List ℕ) :
    inputState n hv = encode (convLayout n hv) (List.replicate n false) := by
  have hok := convLayout_ok n hv
  apply ext_getD
  · rw [encode_length]
    simp [inputState, inputList_length, convLayout]
  · intro k hk
    simp only [inputState, List.length_append, inputList_length] at hk
    by_cases h2 : k < 2 * n
    · have hl : (inputState n hv).getD k 0 = (inputList n).getD k 0 := by
        unfold inputState
        rw [List.getD_append _ _ _ _ (by rw [inputList_length]; exact h2)]
      rw [hl]
      have hz : ∀ q, q < n → (2 * q, false) ∈ (convLayout n hv).qubits.zip (List.replicate n false) := by
        intro q hq
        have : (convLayout n hv).qubits.zip (List.replicate n false) =
            (List.range n).map fun i => (2 * i, false) := by
          simp only [convLayout]
          apply List.ext_getElem
          · simp
          · intro i h1 h2
            simp
        rw [this]
        exact List.mem_map.2 ⟨q, List.mem_range.2 hq, rfl⟩
      rcases Nat.even_or_odd' k with ⟨q, rfl | rfl⟩
      · rw [inputList_even n q (by omega)]
        have := encode_getD_rail _ hok (List.replicate n false) (2 * q) false (hz q (by omega))
        rw [rail_false] at this
        exact this.symm
      · rw [inputList_odd]
        have := encode_getD_rail_other _ hok (List.replicate n false) (2 * q) false (hz q (by omega))
        rw [Bool.not_false, rail_true] at this
        exact this.symm
    · have hl : (inputState n hv).getD k 0 = hv.getD (k - 2 * n) 0 := by
        unfold inputState
        rw [List.getD_append_right _ _ _ _ (by rw [inputList_length]; omega), inputList_length]
      rw [hl]
      have hm : (2 * n + (k - 2 * n), hv.getD (k - 2 * n) 0) ∈ (convLayout n hv).heralds := by
        simp only [convLayout]
        exact List.mem_map.2 ⟨k - 2 * n, List.mem_range.2 (by omega), rfl⟩
      have := encode_getD_herald _ hok (List.replicate n false) _ hm
      simp only at this
      rw [show 2 * n + (k - 2 * n) = k by omega] at this
      exact this.symm

end PM.C20
