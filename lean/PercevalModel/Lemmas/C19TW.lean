/-
  C19 (extension) — torn writes: lemmas about the recogniser of `Model/C19TW.lean`.
  The one structural fact used: `done` is left only for `fail`, `fail` is never left; hence a text that
  reaches `done` cannot be extended to a text that reaches `done` except by white space.
-/
import PercevalModel.Model.C19TW

namespace PM.C19.TW

theorem step_fail (s : St) (c : Ch) (h : s.mode = .fail) : (step s c).mode = .fail := by
  simp [step, h]

theorem step_done (s : St) (c : Ch) (h : s.mode = .done) :
    (step s c).mode = if isWs c then .done else .fail := by
  simp only [step, h]
  split <;> rfl

theorem scanFrom_fail (t : Text) (s : St) (h : s.mode = .fail) : (scanFrom s t).mode = .fail := by
  induction t generalizing s with
  | nil => exact h
  | cons c r ih => exact ih _ (step_fail s c h)

theorem scanFrom_append (s : St) (a b : Text) : scanFrom s (a ++ b) = scanFrom (scanFrom s a) b := by
  simp [scanFrom, List.foldl_append]

/-- from `done`, only white space keeps the scanner in `done` -/
theorem scanFrom_done (t : Text) (s : St) (h : s.mode = .done) (h' : (scanFrom s t).mode = .done) :
    ∀ c ∈ t, isWs c = true := by
  induction t generalizing s with
  | nil => intro c hc; cases hc
  | cons x r ih =>
    have hs := step_done s x h
    by_cases hx : isWs x = true
    · rw [if_pos hx] at hs
      intro c hc
      rcases List.mem_cons.1 hc with rfl | hc
      · exact hx
      · exact ih (step s x) hs h' c hc
    · rw [if_neg hx] at hs
      have := scanFrom_fail r (step s x) hs
      have h'' : (scanFrom (step s x) r).mode = .done := h'
      rw [this] at h''
      cases h''

/-- an accepted text followed by anything that is accepted again: what follows is white space -/
theorem accepts_append (p r : Text) (hp : accepts p = true) (hpr : accepts (p ++ r) = true) :
    ∀ c ∈ r, isWs c = true := by
  have h1 : (scan p).mode = .done := by simpa [accepts] using hp
  have h2 : (scanFrom (scan p) r).mode = .done := by
    have : (scan (p ++ r)).mode = .done := by simpa [accepts] using hpr
    simpa [scan, scanFrom_append] using this
  exact scanFrom_done r (scan p) h1 h2

theorem getLast?_drop {α : Type} (t : List α) (k : Nat) (hk : k < t.length) :
    (t.drop k).getLast? = t.getLast? := by
  induction t generalizing k with
  | nil => cases hk
  | cons x r ih =>
    cases k with
    | zero => rfl
    | succ k =>
      have hk' : k < r.length := by simpa using hk
      rw [List.drop_succ_cons, ih k hk']
      cases r with
      | nil => cases hk'
      | cons y r' => simp [List.getLast?_cons_cons]

/-- no proper prefix of an accepted text that ends in a non-blank character is accepted -/
theorem proper_prefix_refused (t : Text) (ht : accepts t = true) (hb : endsBlack t = true) (k : Nat)
    (hk : k < t.length) : accepts (t.take k) = false := by
  cases hacc : accepts (t.take k) with
  | false => rfl
  | true =>
    exfalso
    have hpr : accepts (t.take k ++ t.drop k) = true := by rw [List.take_append_drop]; exact ht
    have hws := accepts_append _ _ hacc hpr
    have hl : (t.drop k).getLast? = t.getLast? := getLast?_drop t k hk
    unfold endsBlack at hb
    cases hg : t.getLast? with
    | none => rw [hg] at hb; cases hb
    | some c =>
      rw [hg] at hb hl
      have hc : c ∈ t.drop k := List.mem_of_getLast? hl
      have := hws c hc
      simp [this] at hb

theorem take_of_length_le {α : Type} (t : List α) (k : Nat) (hk : t.length ≤ k) : t.take k = t :=
  List.take_of_length_le hk

end PM.C19.TW
