/-
  C09 (extension) — Fubini / adaptive reading: reading a finite product law at positions chosen from what was
  read before gives independent draws.
-/
import PercevalModel.Lemmas.C09Law
import Mathlib.Logic.Function.Basic

set_option linter.unusedSimpArgs false
set_option linter.unusedVariables false

namespace PM.C09

open PM.Dist (D mass)

/-! ### exchanging expectations -/

theorem ex_fun_zero (d : D) : ex d (fun _ => 0) = 0 := by
  rw [ex_const]; ring

theorem ex_congr' (d : D) {f g : Fock → ℚ} (h : ∀ t, f t = g t) : ex d f = ex d g := by
  rw [funext h]

theorem exN_congr' (d : D) (n : ℕ) {F G : List Fock → ℚ} (h : ∀ l, F l = G l) : exN d n F = exN d n G := by
  rw [funext h]

theorem ex_comm (a b : D) (f : Fock → Fock → ℚ) :
    ex a (fun x => ex b (fun y => f x y)) = ex b (fun y => ex a (fun x => f x y)) := by
  induction a with
  | nil => simp only [ex_nil]; rw [ex_fun_zero]
  | cons p r ih =>
    simp only [ex_cons]
    rw [ex_add, ex_mul_left, ih]

theorem exN_ex_comm (d e : D) : ∀ (n : ℕ) (F : List Fock → Fock → ℚ),
    exN d n (fun l => ex e (fun y => F l y)) = ex e (fun y => exN d n (fun l => F l y)) := by
  intro n
  induction n with
  | zero => intro F; rfl
  | succ n ih =>
    intro F
    simp only [exN]
    rw [ex_congr' d (fun t => ih (fun l y => F (t :: l) y))]
    exact ex_comm d e _

/-! ### readers -/

/-- a strategy that reads streams adaptively: which site to read next depends on the values read so far -/
inductive Reader (K ρ : Type) where
  | done (r : ρ)
  | read (k : K) (cont : Fock → Reader K ρ)

variable {K ρ : Type} [DecidableEq K]

/-- run the strategy on concrete streams (`none` = a stream ran out) -/
def Reader.run : Reader K ρ → (K → List Fock) → Option ρ
  | .done r, _ => some r
  | .read k c, q => match q k with
      | [] => none
      | v :: vs => (c v).run (Function.update q k vs)

/-- iterated expectation: every read is a fresh independent draw from the law of its site -/
def Reader.exR (μ : K → D) : Reader K ρ → (ρ → ℚ) → ℚ
  | .done r, g => g r
  | .read k c, g => ex (μ k) fun v => (c v).exR μ g

/-- the streams are long enough for every path of the strategy -/
def Reader.Fits : Reader K ρ → (K → ℕ) → Prop
  | .done _, _ => True
  | .read k c, len => 0 < len k ∧ ∀ v, (c v).Fits (Function.update len k (len k - 1))

/-- the joint law of the streams: site `k` of the list holds `len k` independent draws of `μ k`, sites
independent; sites outside the list hold nothing -/
def exStreams (μ : K → D) (len : K → ℕ) : List K → ((K → List Fock) → ℚ) → ℚ
  | [], G => G (fun _ => [])
  | k :: ks, G => exN (μ k) (len k) fun l => exStreams μ len ks fun q => G (Function.update q k l)

theorem exStreams_congr (μ : K → D) (len : K → ℕ) (ks : List K) {G G' : (K → List Fock) → ℚ}
    (h : ∀ q, G q = G' q) : exStreams μ len ks G = exStreams μ len ks G' := by
  rw [funext h]

theorem exStreams_congr_len (μ : K → D) (len len' : K → ℕ) :
    ∀ (ks : List K) (G : (K → List Fock) → ℚ), (∀ k ∈ ks, len k = len' k) →
      exStreams μ len ks G = exStreams μ len' ks G := by
  intro ks
  induction ks with
  | nil => intro G _; rfl
  | cons k ks ih =>
    intro G h
    simp only [exStreams]
    rw [h k List.mem_cons_self]
    apply exN_congr'
    intro l
    exact ih _ (fun k' hk' => h k' (List.mem_cons_of_mem _ hk'))

theorem exStreams_const (μ : K → D) (hμ : ∀ k, mass (μ k) = 1) (len : K → ℕ) (c : ℚ) :
    ∀ ks : List K, exStreams μ len ks (fun _ => c) = c := by
  intro ks
  induction ks with
  | nil => rfl
  | cons k ks ih =>
    simp only [exStreams, ih]
    exact exN_const (μ k) (hμ k) c (len k)

/-- extracting the head of the stream of one site: it is one independent draw of the law of the site -/
theorem exStreams_head (μ : K → D) (k : K) (n : ℕ) :
    ∀ (ks : List K) (len : K → ℕ) (G : (K → List Fock) → ℚ), k ∈ ks → ks.Nodup → len k = n + 1 →
      exStreams μ len ks G =
        ex (μ k) fun v => exStreams μ (Function.update len k n) ks fun q =>
          G (Function.update q k (v :: q k)) := by
  intro ks
  induction ks with
  | nil => intro len G hk; simp at hk
  | cons k' ks ih =>
    intro len G hk hnd hlen
    have hnd' := List.nodup_cons.mp hnd
    by_cases hkk : k' = k
    · subst hkk
      simp only [exStreams, hlen, exN, Function.update_self]
      apply ex_congr'
      intro v
      apply exN_congr'
      intro l
      rw [exStreams_congr_len μ (Function.update len k' n) len ks _
        (fun k'' hk'' => Function.update_of_ne (fun (h : k'' = k') => hnd'.1 (h ▸ hk'')) _ _)]
      apply exStreams_congr
      intro q
      simp only [Function.update_self, Function.update_idem]
    · have hk' : k ∈ ks := by
        rcases List.mem_cons.mp hk with h | h
        · exact absurd h.symm hkk
        · exact h
      simp only [exStreams]
      rw [Function.update_of_ne hkk]
      rw [exN_congr' (μ k') (len k') (fun l => ih len _ hk' hnd'.2 hlen)]
      rw [exN_ex_comm]
      apply ex_congr'
      intro v
      apply exN_congr'
      intro l
      apply exStreams_congr
      intro q
      rw [Function.update_of_ne (Ne.symm hkk), Function.update_comm hkk]

theorem Reader.run_read_cons (k : K) (c : Fock → Reader K ρ) (v : Fock) (q : K → List Fock) :
    (Reader.read k c).run (Function.update q k (v :: q k)) = (c v).run q := by
  simp only [Reader.run, Function.update_self, Function.update_idem, Function.update_eq_self]

/-- **adaptive reading**: running a reading strategy on streams of independent draws (the streams being long
enough) has the law of the iterated expectation where every read is a fresh draw -/
theorem adaptive_reading (μ : K → D) (hμ : ∀ k, PM.Dist.mass (μ k) = 1) (ks : List K) (hnd : ks.Nodup)
    (rd : Reader K ρ) (len : K → ℕ) (hfit : rd.Fits len) (hout : ∀ k, k ∉ ks → len k = 0) (g : ρ → ℚ) :
    exStreams μ len ks (fun q => match rd.run q with | some r => g r | none => 0) = rd.exR μ g := by
  induction rd generalizing len with
  | done r =>
    simp only [Reader.run, Reader.exR]
    exact exStreams_const μ hμ len (g r) ks
  | read k c ih =>
    obtain ⟨hpos, hfit'⟩ := hfit
    have hk : k ∈ ks := by
      by_contra h
      have := hout k h
      omega
    obtain ⟨n, hn⟩ : ∃ n, len k = n + 1 := ⟨len k - 1, by omega⟩
    rw [exStreams_head μ k n ks len _ hk hnd hn]
    simp only [Reader.exR]
    apply ex_congr'
    intro v
    have hn' : len k - 1 = n := by omega
    rw [← ih v (Function.update len k n) (hn' ▸ hfit' v) ?_]
    · apply exStreams_congr
      intro q
      rw [Reader.run_read_cons]
    · intro k' hk'
      have hne : k' ≠ k := fun h => hk' (h ▸ hk)
      rw [Function.update_of_ne hne]
      exact hout k' hk'

/-! ### sequencing -/

/-- run `rd`, then the strategy chosen from its result -/
def Reader.bind {σ : Type} : Reader K ρ → (ρ → Reader K σ) → Reader K σ
  | .done r, f => f r
  | .read k c, f => .read k fun v => (c v).bind f

/-- post-process the result -/
def Reader.map {σ : Type} (f : ρ → σ) : Reader K ρ → Reader K σ
  | .done r => .done (f r)
  | .read k c => .read k fun v => (c v).map f

omit [DecidableEq K] in
theorem Reader.exR_bind {σ : Type} (μ : K → D) (rd : Reader K ρ) (f : ρ → Reader K σ) (g : σ → ℚ) :
    (rd.bind f).exR μ g = rd.exR μ (fun r => (f r).exR μ g) := by
  induction rd with
  | done r => rfl
  | read k c ih =>
    simp only [Reader.bind, Reader.exR]
    exact ex_congr' _ (fun v => ih v)

omit [DecidableEq K] in
theorem Reader.exR_map {σ : Type} (μ : K → D) (f : ρ → σ) (rd : Reader K ρ) (g : σ → ℚ) :
    (rd.map f).exR μ g = rd.exR μ (fun r => g (f r)) := by
  induction rd with
  | done r => rfl
  | read k c ih =>
    simp only [Reader.map, Reader.exR]
    exact ex_congr' _ (fun v => ih v)

theorem Reader.run_map {σ : Type} (f : ρ → σ) (rd : Reader K ρ) (q : K → List Fock) :
    (rd.map f).run q = (rd.run q).map f := by
  induction rd generalizing q with
  | done r => rfl
  | read k c ih =>
    simp only [Reader.map, Reader.run]
    cases q k with
    | nil => rfl
    | cons v vs => exact ih v _

/-- the streams left after a run (`none` = a stream ran out) -/
def Reader.rest : Reader K ρ → (K → List Fock) → Option (K → List Fock)
  | .done _, q => some q
  | .read k c, q => match q k with
      | [] => none
      | v :: vs => (c v).rest (Function.update q k vs)

/-- running a sequence: the second strategy runs on the streams the first one left -/
theorem Reader.run_bind {σ : Type} (rd : Reader K ρ) (f : ρ → Reader K σ) (q : K → List Fock) :
    (rd.bind f).run q =
      match rd.run q, rd.rest q with
      | some r, some q' => (f r).run q'
      | _, _ => none := by
  induction rd generalizing q with
  | done r => rfl
  | read k c ih =>
    simp only [Reader.bind, Reader.run, Reader.rest]
    cases q k with
    | nil => rfl
    | cons v vs => exact ih v _

/-! ### the backend reads of one shot -/

/-- the reads of one shot: one draw per component, from the stream of that component's input state -/
def readAll : List Fock → Reader Fock (List Fock)
  | [] => .done []
  | k :: ks => .read k fun v => (readAll ks).map (v :: ·)

theorem readAll_exR (bk : Fock → D) (ks : List Fock) (F : List Fock → ℚ) :
    (readAll ks).exR bk F = exComps bk ks F := by
  induction ks generalizing F with
  | nil => rfl
  | cons k ks ih =>
    simp only [readAll, Reader.exR, exComps]
    apply ex_congr'
    intro v
    rw [Reader.exR_map, ih]

theorem sfLazy_update (q : Fock → List Fock) (k : Fock) (xs : List Fock) :
    (fun k' => if k' = k then xs else q k') = Function.update q k xs := by
  funext k'
  simp only [Function.update_apply]

theorem readAll_run (ks : List Fock) (q : Fock → List Fock) :
    (readAll ks).run q = match sampleAll sfLazy q ks with | .ok (vs, _) => some vs | .error _ => none := by
  induction ks generalizing q with
  | nil => rfl
  | cons k ks ih =>
    simp only [readAll, Reader.run, sampleAll, sfLazy]
    cases hq : q k with
    | nil => rfl
    | cons v vs =>
      simp only [Reader.run_map, ih, sfLazy_update]
      cases sampleAll sfLazy (Function.update q k vs) ks with
      | error e => rfl
      | ok r => rfl

theorem Reader.fits_map {σ : Type} (f : ρ → σ) (rd : Reader K ρ) (len : K → ℕ) :
    (rd.map f).Fits len ↔ rd.Fits len := by
  induction rd generalizing len with
  | done r => exact Iff.rfl
  | read k c ih =>
    simp only [Reader.map, Reader.Fits, ih]

/-- the reads of one shot fit streams that hold, for every input state, at least as many draws as the shot has
components with that input state -/
theorem readAll_fits (ks : List Fock) (len : Fock → ℕ) (h : ∀ k, ks.count k ≤ len k) : (readAll ks).Fits len := by
  induction ks generalizing len with
  | nil => trivial
  | cons k ks ih =>
    have hk := h k
    rw [List.count_cons_self] at hk
    refine ⟨by omega, fun v => ?_⟩
    rw [Reader.fits_map]
    apply ih
    intro k'
    by_cases hkk : k' = k
    · subst hkk
      rw [Function.update_self]; omega
    · rw [Function.update_of_ne hkk]
      have := h k'
      rwa [List.count_cons_of_ne (Ne.symm hkk)] at this

/-- **the lazy provider on independent streams**: sampling the components of one shot from streams of independent
backend draws (long enough) is one independent backend draw per component -/
theorem sampleAll_lazy_law (bk : Fock → D) (hbk : ∀ k, PM.Dist.mass (bk k) = 1) (sites : List Fock)
    (hnd : sites.Nodup) (comps : List Fock) (len : Fock → ℕ) (hlen : ∀ k, comps.count k ≤ len k)
    (hout : ∀ k, k ∉ sites → len k = 0) (F : List Fock → ℚ) :
    exStreams bk len sites
        (fun q => match sampleAll sfLazy q comps with | .ok (vs, _) => F vs | .error _ => 0) =
      exComps bk comps F := by
  rw [← readAll_exR, ← adaptive_reading bk hbk sites hnd (readAll comps) len (readAll_fits comps len hlen) hout F]
  apply exStreams_congr
  intro q
  rw [readAll_run]
  cases sampleAll sfLazy q comps with
  | error e => rfl
  | ok r => rfl

end PM.C09
