/-
  C14 — instantiation of the generic component models at `ℂ` for real angles, and periodicity in
  each parameter slot (helper lemmas; the property theorems are in `Props/C14.lean`).
-/
import PercevalModel.Lemmas.C14
import Mathlib.Analysis.SpecialFunctions.Trigonometric.Basic

open Matrix PM Complex

namespace PM.C14

/-- `(cos x, sin x)` of a real angle, in `ℂ` -/
noncomputable def angR (x : ℝ) : Ang ℂ := ⟨(Real.cos x : ℂ), (Real.sin x : ℂ)⟩

theorem imagUnit_I : ImagUnit Complex.I := ⟨Complex.I_mul_I, Complex.conj_I⟩

theorem angR_isReal (x : ℝ) : (angR x).IsReal := by
  refine ⟨Complex.conj_ofReal _, Complex.conj_ofReal _, ?_⟩
  show (Real.cos x : ℂ) * (Real.cos x : ℂ) + (Real.sin x : ℂ) * (Real.sin x : ℂ) = 1
  have := Real.cos_sq_add_sin_sq x
  exact_mod_cast (by nlinarith : Real.cos x * Real.cos x + Real.sin x * Real.sin x = 1)

theorem angR_add (x y : ℝ) : (angR x).add (angR y) = angR (x + y) := by
  unfold Ang.add angR
  simp only [Real.cos_add, Real.sin_add]
  congr 1 <;> push_cast <;> ring

theorem angR_cis (x : ℝ) : (angR x).cis I = exp (x * I) := by
  simp only [Ang.cis, angR]
  rw [exp_mul_I, ofReal_cos, ofReal_sin]
  ring

theorem exp_unit (x : ℝ) : exp (x * I) * star (exp (x * I)) = 1 := by
  rw [← angR_cis]
  exact cis_unit imagUnit_I (angR_isReal x)

theorem angR_periodic (x : ℝ) (k : ℤ) : angR (x + k * (2 * Real.pi)) = angR x := by
  simp [angR, Real.cos_add_int_mul_two_pi, Real.sin_add_int_mul_two_pi]

theorem angR_add_pi (x : ℝ) : angR (x + Real.pi) = ⟨-(angR x).c, -(angR x).s⟩ := by
  simp [angR, Real.cos_add_pi, Real.sin_add_pi]

end PM.C14
