/-
  C14 — instantiation of the generic component models at `ℂ` for real angles, and periodicity in
  each parameter slot (helper lemmas; the property theorems are in `Props/C14.lean`).
-/
import PercevalModel.Lemmas.C14
import Mathlib.Analysis.SpecialFunctions.Trigonometric.Basic

open Matrix PM Complex

namespace PM.C14

/-- `(cos x, sin x)` of a real angle, in `ℂ` -/
noncomputable def angR (x : ℝ) : Ang ℂ := ⟨(Real.cos x : ℂ), (Real.sin x : ℂ)⟩

theorem imagUnit_I : ImagUnit Complex.I := ⟨Complex.I_mul_I, Complex.conj_I⟩

theorem angR_isReal (x : ℝ) : (angR x).IsReal := by
  refine ⟨Complex.conj_ofReal _, Complex.conj_ofReal _, ?_⟩
  show (Real.cos x : ℂ) * (Real.cos x : ℂ) + (Real.sin x : ℂ) * (Real.sin x : ℂ) = 1
  have := Real.cos_sq_add_sin_sq x
  exact_mod_cast (by nlinarith : Real.cos x * Real.cos x + Real.sin x * Real.sin x = 1)

theorem angR_add (x y : ℝ) : (angR x).add (angR y) = angR (x + y) := by
  unfold Ang.add angR
  simp only [Real.cos_add, Real.sin_add]
  congr 1 <;> push_cast <;> ring

theorem angR_cis (x : ℝ) : (angR x).cis I = exp (x * I) := by
  simp only [Ang.cis, angR]
  rw [exp_mul_I, ofReal_cos, ofReal_sin]
  ring

theorem exp_unit (x : ℝ) : exp (x * I) * star (exp (x * I)) = 1 := by
  rw [← angR_cis]
  exact cis_unit imagUnit_I (angR_isReal x)

theorem angR_periodic (x : ℝ) (k : ℤ) : angR (x + k * (2 * Real.pi)) = angR x := by
  simp [angR, Real.cos_add_int_mul_two_pi, Real.sin_add_int_mul_two_pi]

theorem angR_add_pi (x : ℝ) : angR (x + Real.pi) = ⟨-(angR x).c, -(angR x).s⟩ := by
  simp [angR, Real.cos_add_pi, Real.sin_add_pi]

/-! ### the matrices of the documentation (`docs/source/components.rst`), for real angles -/

/-- phase `e^{ix}` -/
noncomputable def ph (x : ℝ) : ℂ := exp (x * I)

/-- Beam splitter: convention table for `θ`, with "a phase shifter on each mode connected to the
beam splitter" (written out in the documentation for `Rx`). -/
noncomputable def bsDoc (conv : Conv) (θ φtl φbl φtr φbr : ℝ) : Matrix (Fin 2) (Fin 2) ℂ :=
  let c : ℂ := Real.cos (θ / 2)
  let s : ℂ := Real.sin (θ / 2)
  match conv with
  | .Rx => !![ph (φtl + φtr) * c, I * ph (φtr + φbl) * s; I * ph (φtl + φbr) * s, ph (φbr + φbl) * c]
  | .Ry => !![ph (φtl + φtr) * c, -(ph (φtr + φbl) * s); ph (φtl + φbr) * s, ph (φbr + φbl) * c]
  | .H => !![ph (φtl + φtr) * c, ph (φtr + φbl) * s; ph (φtl + φbr) * s, -(ph (φbr + φbl) * c)]

noncomputable def psDoc (φ : ℝ) : Matrix (Fin 1) (Fin 1) ℂ := !![ph φ]

noncomputable def wpDoc (δ ξ : ℝ) : Matrix (Fin 2) (Fin 2) ℂ :=
  !![I * Real.sin δ * Real.cos (2 * ξ) + Real.cos δ, I * Real.sin δ * Real.sin (2 * ξ);
     I * Real.sin δ * Real.sin (2 * ξ), -(I * Real.sin δ * Real.cos (2 * ξ)) + Real.cos δ]

noncomputable def prDoc (δ : ℝ) : Matrix (Fin 2) (Fin 2) ℂ :=
  !![(Real.cos δ : ℂ), (Real.sin δ : ℂ); -(Real.sin δ : ℂ), (Real.cos δ : ℂ)]

theorem ph_add (x y : ℝ) : ph (x + y) = ph x * ph y := by
  unfold ph; rw [← Complex.exp_add]; congr 1; push_cast; ring

theorem ph_periodic (x : ℝ) (k : ℤ) : ph (x + k * (2 * Real.pi)) = ph x := by
  unfold ph
  rw [← angR_cis, ← angR_cis, angR_periodic]

end PM.C14
