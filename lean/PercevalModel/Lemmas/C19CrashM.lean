/-
  C19 (extension) — the crash between the server's answer and the `_write_to_file` that follows it, as a stopping
  point INSIDE a machine: an extended machine whose histories interleave the operations of `Model/C19.lean` with
  crash steps, so that histories go on after such a crash (re-open, add, launch again, …).

  `XOp.crash g`: the process — which, as far as the base machine knows, stopped AT a `create_job` / `rerun_job`
  request (the state it is applied to is what that process left: memory lost, the group as the file has it) — had
  in fact received the answer `accept g` and died before the write: the server's counter has moved on and the
  identifier `next + g` has been issued.  The state it yields is `crashAfterAnswer` of `Model/C19Crash.lean` with
  one more piece of ghost book-keeping: the identifier in flight is entered in `retired` (which in this machine
  reads "identifiers known not to be in the file: replaced by a rerun, deleted with the group, or in flight at a
  crash") and in the ledger `lost` of the extended state.  `retired` is a ghost field: no operation's result, memory,
  file or server counter depends on it.
-/
import PercevalModel.Lemmas.C19
import PercevalModel.Model.C19Crash

namespace PM.C19
open PM.SM

inductive XOp
  | op (o : Op)
  | crash (g : Nat)
  deriving Repr

def WFX : XOp → Prop
  | .op o => WFOp o
  | .crash _ => True

structure XState where
  st : State
  lost : List Nat      -- identifiers in flight at a crash, newest first
  deriving Repr

/-- the crash step on the group state -/
def lose (s : State) (g : Nat) : State :=
  (construct fixed { s with next := s.next + g + 1, issued := (s.next + g) :: s.issued,
                            retired := (s.next + g) :: s.retired }).1

def xstep (x : XState) : XOp → XState × Out
  | .op o => (⟨(step fixed x.st o).1, x.lost⟩, (step fixed x.st o).2)
  | .crash g => (⟨lose x.st g, (x.st.next + g) :: x.lost⟩, ⟨.killed, []⟩)

def xinit (dir : Bool) : XState := ⟨create fixed dir, []⟩

def isCrash : XOp → Bool
  | .crash _ => true
  | .op _ => false

theorem lose_inv {s : State} (h : Inv s) (g : Nat) : Inv (lose s g) := by
  have h' : Inv { s with next := s.next + g + 1, issued := (s.next + g) :: s.issued,
                         retired := (s.next + g) :: s.retired } := by
    refine ⟨⟨h.dir, h.good, h.nodup, ?_, ?_, h.sent⟩, h.disk⟩
    · intro k hk
      have := h.lt k hk
      show k < s.next + g + 1
      omega
    · intro k hk
      show k ∈ (s.next + g) :: s.retired ∨ k ∈ ids s.mem
      rcases List.mem_cons.1 hk with rfl | hk
      · exact Or.inl (List.mem_cons_self)
      · rcases h.surv k hk with h1 | h1
        · exact Or.inl (List.mem_cons_of_mem _ h1)
        · exact Or.inr h1
  exact construct_inv h'

/-- the crash step is `crashAfterAnswer` plus the entry in `retired` -/
theorem lose_eq {s : State} (h : Inv s) (g : Nat) :
    lose s g = { crashAfterAnswer s g with retired := (s.next + g) :: s.retired } := by
  simp [lose, crashAfterAnswer, construct, h.disk]

theorem xstep_inv {x : XState} (h : Inv x.st) {o : XOp} (hw : WFX o) : Inv (xstep x o).1.st := by
  cases o with
  | op o => exact step_inv h hw
  | crash g => exact lose_inv h g

theorem xexec_inv (dir : Bool) (xs : List XOp) (hw : ∀ o ∈ xs, WFX o) :
    Inv (exec xstep (xinit dir) xs).st :=
  inv_exec_of xstep WFX (fun x => Inv x.st) (fun _ _ hop hi => xstep_inv hi hop) _ (create_inv dir) xs hw

theorem xexec_lost_length (xs : List XOp) (x : XState) :
    (exec xstep x xs).lost.length = x.lost.length + (xs.filter isCrash).length := by
  induction xs generalizing x with
  | nil => simp [exec_nil]
  | cons o r ih =>
    rw [exec_cons, ih]
    cases o with
    | op o =>
      have e : isCrash (.op o) = false := rfl
      simp [xstep, e]
    | crash g =>
      have e : isCrash (.crash g) = true := rfl
      simp [xstep, e]; omega

/-- a history of the base machine is a history of the extended one -/
theorem xexec_ops (ops : List Op) (x : XState) :
    exec xstep x (ops.map .op) = ⟨exec (step fixed) x.st ops, x.lost⟩ := by
  induction ops generalizing x with
  | nil => rfl
  | cons o r ih => rw [List.map_cons, exec_cons, exec_cons, ih]; rfl

end PM.C19
