/-
  C06 — a PARAMETER-DEPENDENT version of the trimming bound of `Lemmas/C06Loss.lean`.

  `lossCount ns` counts the places where an entry `≤ θ` can be dropped for the worst case of FIVE outcomes
  per requested photon.  The number of outcomes the source really has — `width P`, the number of entries of
  `_generate_one_photon_distribution` with a positive probability (`Source._add` keeps only those; it does
  not depend on the tag counter) — is smaller for most imperfection patterns (2 for a source whose only
  defect is the indistinguishability or the loss, 3 without annotations, 1 for a perfect one), and the same
  deficit calculus gives `1 − θ · lossCountW (width P) ns ≤ mass (generateRaw P θ ns t)` with
  `lossCountW c` the count for `c` outcomes per photon: `lossCountW 5 = lossCount`, `lossCountW` is monotone
  in `c`, and `lossCountW c ns ≤ 9 · #modes · c^(Σ nᵢ)` for `c ≥ 2`.
-/
import PercevalModel.Lemmas.C06Loss

namespace PM.C06

/-! ### the number of outcomes of one requested photon -/

/-- number of outcomes of one requested photon that have a positive probability -/
def width (P : Params) : ℕ := (onePhoton P 0).length

theorem length_positive_eq {α : Type} (d : Dist α) :
    (positive d).length = ((d.map Prod.snd).filter fun p => decide (0 < p)).length := by
  unfold positive
  rw [List.filter_map, List.length_map]
  rfl

theorem onePhotonRaw_probs (P : Params) (t : ℕ) :
    (onePhotonRaw P t).map Prod.snd = (onePhotonRaw P 0).map Prod.snd := by
  unfold onePhotonRaw
  by_cases hpd : partDist P = true <;> by_cases hdm : P.dm = true <;> simp [hpd, hdm]

/-- the tag counter changes the tags, not the number of outcomes -/
theorem length_onePhoton (P : Params) (t : ℕ) : (onePhoton P t).length = width P := by
  unfold width onePhoton
  rw [length_positive_eq, length_positive_eq, onePhotonRaw_probs]

theorem width_le_five (P : Params) : width P ≤ 5 := length_onePhoton_le P 0

theorem one_le_width {P : Params} (hP : P.WF) : 1 ≤ width P := by
  have h := mass_onePhoton hP 0
  unfold width
  cases hd : onePhoton P 0 with
  | nil => rw [hd] at h; simp [mass] at h
  | cons e d => simp

/-! ### D'. mode level with `c` outcomes per photon -/

/-- nodes of the product tree of `n` factors with at most `c` entries each -/
def kkW (c : ℕ) : ℕ → ℕ
  | 0 => 0
  | n + 1 => c * (1 + kkW c n)

theorem pruneCount_le_kkW {α : Type} (c : ℕ) (ds : List (Dist α)) (h : ∀ d ∈ ds, d.length ≤ c) :
    pruneCount ds ≤ kkW c ds.length := by
  induction ds with
  | nil => exact le_refl _
  | cons d ds ih =>
    simp only [pruneCount, List.length_cons, kkW]
    exact Nat.mul_le_mul (h d List.mem_cons_self)
      (Nat.add_le_add_left (ih fun x hx => h x (List.mem_cons_of_mem _ hx)) 1)

theorem sum_length_leW {α : Type} (c : ℕ) (ds : List (Dist α)) (h : ∀ d ∈ ds, d.length ≤ c) :
    (ds.map List.length).sum ≤ c * ds.length := by
  induction ds with
  | nil => simp
  | cons d ds ih =>
    rw [List.map_cons, List.sum_cons, List.length_cons, Nat.mul_succ]
    have h1 := h d List.mem_cons_self
    have h2 := ih fun x hx => h x (List.mem_cons_of_mem _ hx)
    omega

theorem prod_length_leW {α : Type} (c : ℕ) (ds : List (Dist α)) (h : ∀ d ∈ ds, d.length ≤ c) :
    (ds.map List.length).prod ≤ c ^ ds.length := by
  induction ds with
  | nil => simp
  | cons d ds ih =>
    rw [List.map_cons, List.prod_cons, List.length_cons, pow_succ, Nat.mul_comm]
    exact Nat.mul_le_mul (ih fun x hx => h x (List.mem_cons_of_mem _ hx)) (h d List.mem_cons_self)

theorem photonDists_length_leW (P : Params) (n t : ℕ) :
    ∀ d ∈ photonDists P n t, d.length ≤ width P := by
  induction n generalizing t with
  | zero => intro d hd; simp [photonDists] at hd
  | succ n ih =>
    intro d hd
    simp only [photonDists, List.mem_cons] at hd
    rcases hd with rfl | hd
    · exact le_of_eq (length_onePhoton P t)
    · exact ih _ d hd

/-- entries and tree nodes at which one mode (`n` requested photons, `c` outcomes each) can lose a
probability `≤ θ` -/
def modeLossW (c : ℕ) : ℕ → ℕ
  | 0 => 0
  | 1 => 0
  | n + 2 => c * (n + 2) + kkW c (n + 2)

theorem mass_probDist_deficitW {P : Params} (hP : P.WF) (θ : ℚ) (hθ : 0 ≤ θ) (n t : ℕ) :
    mass (probDist P 0 n t) - mass (probDist P θ n t) ≤ θ * (modeLossW (width P) n : ℚ) := by
  have hpos : 0 ≤ θ * (modeLossW (width P) n : ℚ) := mul_nonneg hθ (Nat.cast_nonneg _)
  unfold probDist
  split
  · rw [sub_self]; exact hpos
  · match n, hpos with
    | 0, hpos => simpa [photonDists, ltpMode] using hpos
    | 1, hpos => simpa [photonDists, ltpMode] using hpos
    | n + 2, _ =>
      have hds := photonDists_NonNeg P (n + 2) t
      have hlen := photonDists_length_leW P (n + 2) t
      have h1 := mass_ltpMode_deficit θ hθ (photonDists P (n + 2) t) hds
        (fun d hd => le_of_eq (photonDists_mass hP (n + 2) t d hd))
      have h2 := sum_length_leW (width P) _ hlen
      have h3 : pruneCount ((photonDists P (n + 2) t).map (trim θ)) ≤ kkW (width P) (n + 2) := by
        have := pruneCount_le_kkW (width P) ((photonDists P (n + 2) t).map (trim θ)) (by
          intro d hd
          simp only [List.mem_map] at hd
          obtain ⟨x, hx, rfl⟩ := hd
          exact le_trans (length_trim_le θ x) (hlen x hx))
        rwa [List.length_map, length_photonDists] at this
      rw [length_photonDists] at h2
      have h4 : (photonDists P (n + 2) t |>.map List.length).sum +
          pruneCount ((photonDists P (n + 2) t).map (trim θ)) ≤ modeLossW (width P) (n + 2) := by
        simp only [modeLossW]; exact Nat.add_le_add h2 h3
      have h5 : ((((photonDists P (n + 2) t).map List.length).sum +
          pruneCount ((photonDists P (n + 2) t).map (trim θ)) : ℕ) : ℚ) ≤
          (modeLossW (width P) (n + 2) : ℚ) :=
        Nat.cast_le.mpr h4
      exact le_trans h1 (mul_le_mul_of_nonneg_left h5 hθ)

theorem length_ltpMode_leW (θ : ℚ) (c : ℕ) (ds : List (Dist Mode)) (h : ∀ d ∈ ds, d.length ≤ c) :
    (ltpMode θ ds).length ≤ c ^ ds.length := by
  match ds, h with
  | [], _ => simp [ltpMode]
  | [d], h => simpa [ltpMode] using h d List.mem_cons_self
  | d₁ :: d₂ :: ds, h =>
    show (if (d₁ :: d₂ :: ds).any List.isEmpty then []
        else accum (dfs θ (fun s e => mergeTags e s) ((d₁ :: d₂ :: ds).map (trim θ)) [] 1)).length ≤ _
    split
    · simp
    · refine le_trans (length_accum_le _) (le_trans (length_dfs_le _ _ _ _ _) ?_)
      have := prod_length_leW c ((d₁ :: d₂ :: ds).map (trim θ)) (by
        intro d hd
        simp only [List.mem_map] at hd
        obtain ⟨x, hx, rfl⟩ := hd
        exact le_trans (length_trim_le θ x) (h x hx))
      rwa [List.length_map] at this

theorem length_probDist_leW {P : Params} (hP : P.WF) (θ : ℚ) (n t : ℕ) :
    (probDist P θ n t).length ≤ width P ^ n := by
  unfold probDist
  split
  · simpa using Nat.one_le_pow n (width P) (one_le_width hP)
  · have := length_ltpMode_leW θ (width P) _ (photonDists_length_leW P n t)
    rwa [length_photonDists] at this

/-! ### E'. state level -/

/-- nodes of the product tree of the modes (mode `i` has at most `c ^ nᵢ` entries) -/
def KKW (c : ℕ) : List ℕ → ℕ
  | [] => 0
  | n :: ns => c ^ n * (1 + KKW c ns)

theorem stateFactors_defSumW {P : Params} (hP : P.WF) (θ : ℚ) (hθ : 0 ≤ θ) (ns : List ℕ) (t : ℕ) :
    defSum (stateFactors P θ ns t) (stateFactors P 0 ns t) ≤
      θ * (((ns.map fun n => modeLossW (width P) n + width P ^ n).sum : ℕ) : ℚ) := by
  induction ns generalizing t with
  | nil => simp [stateFactors, modeDists, defSum]
  | cons n ns ih =>
    rw [stateFactors_cons, stateFactors_cons]
    simp only [defSum, List.map_cons, List.sum_cons]
    have h0 := lift_NonNeg _ (probDist_NonNeg P 0 n t)
    rw [mass_trim_zero _ h0, mass_lift, mass_probDist_zero hP]
    have h1 := mass_probDist_deficitW hP θ hθ n t
    rw [mass_probDist_zero hP] at h1
    have h2 := mass_trim_ge θ hθ (lift (probDist P θ n t))
    rw [mass_lift, length_lift] at h2
    have h3 : ((probDist P θ n t).length : ℚ) ≤ ((width P ^ n : ℕ) : ℚ) :=
      Nat.cast_le.mpr (length_probDist_leW hP θ n t)
    have h4 := mul_le_mul_of_nonneg_left h3 hθ
    have h5 := ih (probDistTag P n t)
    rw [Nat.cast_add, Nat.cast_add, mul_add, mul_add]
    linarith

theorem stateFactors_pruneCountW {P : Params} (hP : P.WF) (θ : ℚ) (ns : List ℕ) (t : ℕ) :
    pruneCount (stateFactors P θ ns t) ≤ KKW (width P) ns := by
  induction ns generalizing t with
  | nil => exact le_refl _
  | cons n ns ih =>
    rw [stateFactors_cons]
    simp only [pruneCount, KKW]
    refine Nat.mul_le_mul ?_ (Nat.add_le_add_left (ih _) 1)
    exact le_trans (length_trim_le θ _) (by rw [length_lift]; exact length_probDist_leW hP θ n t)

/-- explicit count of the places where mass ≤ θ can be dropped, `c` outcomes per requested photon -/
def lossCountW (c : ℕ) : List ℕ → ℕ
  | [] => 0
  | [n] => modeLossW c n
  | n₁ :: n₂ :: ns =>
    ((n₁ :: n₂ :: ns).map fun n => modeLossW c n + c ^ n).sum + KKW c (n₁ :: n₂ :: ns)

/-- **parameter-dependent trimming bound**: the threshold removes at most `θ` per place counted by
`lossCountW (width P)` -/
theorem mass_generateRaw_geW {P : Params} (hP : P.WF) (θ : ℚ) (hθ : 0 ≤ θ) {ns : List ℕ}
    (hne : ns ≠ []) (t : ℕ) :
    1 - θ * (lossCountW (width P) ns : ℚ) ≤ mass (generateRaw P θ ns t) := by
  match ns, hne with
  | [n], _ =>
    show 1 - θ * (modeLossW (width P) n : ℚ) ≤ mass (lift (probDist P θ n t))
    have h1 := mass_probDist_deficitW hP θ hθ n t
    rw [mass_probDist_zero hP] at h1
    rw [mass_lift]
    linarith
  | n₁ :: n₂ :: ns, hne =>
    have h0 := mass_generateRaw_zero hP hne t
    have h1 := mass_dfs_deficit (fun (s e : State) => s ++ e) θ hθ _ _
      (stateFactors_FacRel hP θ (n₁ :: n₂ :: ns) t) [] 1 zero_le_one
    have h2 := stateFactors_defSumW hP θ hθ (n₁ :: n₂ :: ns) t
    have h3 : (pruneCount (stateFactors P θ (n₁ :: n₂ :: ns) t) : ℚ) ≤
        (KKW (width P) (n₁ :: n₂ :: ns) : ℚ) :=
      Nat.cast_le.mpr (stateFactors_pruneCountW hP θ _ t)
    have h4 := mul_le_mul_of_nonneg_left h3 hθ
    change mass (dfs 0 (fun s e => s ++ e) (stateFactors P 0 (n₁ :: n₂ :: ns) t) [] 1) = 1 at h0
    rw [h0, one_mul] at h1
    show 1 - θ * (((((n₁ :: n₂ :: ns).map fun n => modeLossW (width P) n + width P ^ n).sum +
        KKW (width P) (n₁ :: n₂ :: ns) : ℕ)) : ℚ) ≤
      mass (dfs θ (fun s e => s ++ e) (stateFactors P θ (n₁ :: n₂ :: ns) t) [] 1)
    rw [Nat.cast_add, mul_add]
    linarith

/-- total-variation consequence of ANY lower bound `1 − L` on the retained mass (no smallness assumption) -/
theorem generateAt_close_of {P : Params} (hP : P.WF) (θ : ℚ) {ns : List ℕ} (hne : ns ≠ []) (t : ℕ)
    (L : ℚ) (hmε : 1 - L ≤ mass (generateRaw P θ ns t))
    (g : State → ℚ) (hg0 : ∀ s, 0 ≤ g s) (hg1 : ∀ s, g s ≤ 1) :
    |E g (generateAt P θ ns t) - E g (generateAt P 0 ns t)| ≤ L := by
  have hnn := generateRaw_NonNeg P θ ns t
  have hnn0 := generateRaw_NonNeg P 0 ns t
  have hx0 := E_nonneg g hg0 _ hnn
  have hxm := E_le_mass g hg1 _ hnn
  have hm0 := mass_nonneg _ hnn
  by_cases hpos : L < 1
  · rw [E_generateAt_zero hP g hne t, generateAt, E_normalize]
    have hm1 := mass_generateRaw_le_one hP θ hne t
    have hdom := Dom_generateRaw P θ ns t
    have hxy := hdom g hg0
    have hc := hdom (fun s => 1 - g s) fun s => sub_nonneg.mpr (hg1 s)
    rw [E_sub_one, E_sub_one, mass_generateRaw_zero hP hne t] at hc
    set m := mass (generateRaw P θ ns t) with hm
    set x := E g (generateRaw P θ ns t) with hx
    set y := E g (generateRaw P 0 ns t) with hy
    have hmpos : 0 < m := by linarith
    have hz0 : 0 ≤ x / m := div_nonneg hx0 hmpos.le
    have hz1 : x / m ≤ 1 := (div_le_one hmpos).mpr hxm
    have hxz : x = x / m * m := (div_mul_cancel₀ x hmpos.ne').symm
    have h1 : x / m * (1 - m) ≤ 1 - m :=
      mul_le_of_le_one_left (by linarith) hz1
    have h2 : 0 ≤ x / m * (1 - m) := mul_nonneg hz0 (by linarith)
    rw [abs_le]
    constructor
    · nlinarith
    · nlinarith
  · have hε : 1 ≤ L := not_lt.mp hpos
    have hy0 := E_nonneg g hg0 _ hnn0
    have hy1 := E_le_mass g hg1 _ hnn0
    rw [mass_generateRaw_zero hP hne t] at hy1
    rw [E_generateAt_zero hP g hne t, generateAt, E_normalize]
    have hz0 : 0 ≤ E g (generateRaw P θ ns t) / mass (generateRaw P θ ns t) := div_nonneg hx0 hm0
    have hz1 : E g (generateRaw P θ ns t) / mass (generateRaw P θ ns t) ≤ 1 := by
      rcases hm0.lt_or_eq with h | h
      · exact (div_le_one h).mpr hxm
      · rw [← h, div_zero]; exact zero_le_one
    rw [abs_le]
    constructor <;> linarith

/-! ### F'. size of `lossCountW` -/

theorem kkW_mono {c c' : ℕ} (h : c ≤ c') (n : ℕ) : kkW c n ≤ kkW c' n := by
  induction n with
  | zero => exact le_refl _
  | succ n ih => simp only [kkW]; exact Nat.mul_le_mul h (Nat.add_le_add_left ih 1)

theorem modeLossW_mono {c c' : ℕ} (h : c ≤ c') (n : ℕ) : modeLossW c n ≤ modeLossW c' n := by
  match n with
  | 0 => exact le_refl _
  | 1 => exact le_refl _
  | n + 2 =>
    simp only [modeLossW]
    exact Nat.add_le_add (Nat.mul_le_mul_right _ h) (kkW_mono h _)

theorem KKW_mono {c c' : ℕ} (h : c ≤ c') (ns : List ℕ) : KKW c ns ≤ KKW c' ns := by
  induction ns with
  | nil => exact le_refl _
  | cons n ns ih =>
    simp only [KKW]
    exact Nat.mul_le_mul (Nat.pow_le_pow_left h n) (Nat.add_le_add_left ih 1)

theorem sum_modeLossW_mono {c c' : ℕ} (h : c ≤ c') (ns : List ℕ) :
    (ns.map fun n => modeLossW c n + c ^ n).sum ≤ (ns.map fun n => modeLossW c' n + c' ^ n).sum := by
  induction ns with
  | nil => exact le_refl _
  | cons n ns ih =>
    simp only [List.map_cons, List.sum_cons]
    exact Nat.add_le_add (Nat.add_le_add (modeLossW_mono h n) (Nat.pow_le_pow_left h n)) ih

theorem lossCountW_mono {c c' : ℕ} (h : c ≤ c') (ns : List ℕ) : lossCountW c ns ≤ lossCountW c' ns := by
  match ns with
  | [] => exact le_refl _
  | [n] => exact modeLossW_mono h n
  | n₁ :: n₂ :: ns =>
    simp only [lossCountW]
    exact Nat.add_le_add (sum_modeLossW_mono h _) (KKW_mono h _)

theorem kkW_five (n : ℕ) : kkW 5 n = kk n := by
  induction n with
  | zero => rfl
  | succ n ih => simp only [kkW, kk, ih]

theorem modeLossW_five (n : ℕ) : modeLossW 5 n = modeLoss n := by
  match n with
  | 0 => rfl
  | 1 => rfl
  | n + 2 => simp only [modeLossW, modeLoss, kkW_five]

theorem KKW_five (ns : List ℕ) : KKW 5 ns = KK ns := by
  induction ns with
  | nil => rfl
  | cons n ns ih => simp only [KKW, KK, ih]

/-- the worst-case count is the count for five outcomes per photon -/
theorem lossCountW_five (ns : List ℕ) : lossCountW 5 ns = lossCount ns := by
  match ns with
  | [] => rfl
  | [n] => exact modeLossW_five n
  | n₁ :: n₂ :: ns =>
    simp only [lossCountW, lossCount, KKW_five, modeLossW_five]

/-- the parameter-dependent count never exceeds the worst-case one -/
theorem lossCountW_width_le (P : Params) (ns : List ℕ) : lossCountW (width P) ns ≤ lossCount ns := by
  rw [← lossCountW_five]
  exact lossCountW_mono (width_le_five P) ns

example : lossCountW 2 [2] = 10 := by decide
example : lossCountW 2 [1, 1] = 10 := by decide
example : lossCountW 2 [1, 1, 1] = 20 := by decide
example : lossCountW 3 [1, 1] = 18 := by decide

/-! ### F''. closed form for `c ≥ 2` outcomes, and the width of some imperfection patterns -/

theorem kkW_le {c : ℕ} (hc : 2 ≤ c) (n : ℕ) : kkW c n + 2 ≤ 2 * c ^ n := by
  induction n with
  | zero => simp [kkW]
  | succ n ih =>
    simp only [kkW, pow_succ]
    have h1 : c * (1 + kkW c n) + c ≤ c * (2 * c ^ n) := by
      have := Nat.mul_le_mul_left c (show 1 + kkW c n + 1 ≤ 2 * c ^ n by omega)
      rwa [Nat.mul_add, Nat.mul_one] at this
    have e : c * (2 * c ^ n) = 2 * (c ^ n * c) := by ring
    omega

theorem mul_le_pow {c : ℕ} (hc : 2 ≤ c) (m : ℕ) (hm : 2 ≤ m) : c * m ≤ c ^ m := by
  induction m, hm using Nat.le_induction with
  | base => rw [pow_two]; exact Nat.mul_le_mul_left c hc
  | succ m hm ih =>
    have h1 : c ≤ c ^ m := Nat.le_self_pow (by omega) c
    have h2 : c ^ m * 2 ≤ c ^ m * c := Nat.mul_le_mul_left _ hc
    rw [pow_succ, Nat.mul_succ]
    omega

theorem modeLossW_le {c : ℕ} (hc : 2 ≤ c) (n : ℕ) : modeLossW c n + c ^ n ≤ 8 * c ^ n := by
  match n with
  | 0 => simp [modeLossW]
  | 1 => simp only [modeLossW, pow_one]; omega
  | n + 2 =>
    have h1 := mul_le_pow hc (n + 2) (by omega)
    have h2 := kkW_le hc (n + 2)
    simp only [modeLossW]
    omega

theorem sum_modeLossW_le {c : ℕ} (hc : 2 ≤ c) (ns : List ℕ) :
    (ns.map fun n => modeLossW c n + c ^ n).sum ≤ 8 * (ns.length * c ^ ns.sum) := by
  induction ns with
  | nil => simp
  | cons n ns ih =>
    rw [List.map_cons, List.sum_cons, List.sum_cons, List.length_cons]
    have h1 := modeLossW_le hc n
    have h2 : c ^ n ≤ c ^ (n + ns.sum) := Nat.pow_le_pow_right (by omega) (Nat.le_add_right n ns.sum)
    have h3 : ns.length * c ^ ns.sum ≤ ns.length * c ^ (n + ns.sum) :=
      Nat.mul_le_mul_left _ (Nat.pow_le_pow_right (by omega) (Nat.le_add_left ns.sum n))
    have e : (ns.length + 1) * c ^ (n + ns.sum) =
        ns.length * c ^ (n + ns.sum) + c ^ (n + ns.sum) := by ring
    rw [e]
    omega

theorem KKW_le {c : ℕ} (hc : 2 ≤ c) (ns : List ℕ) : KKW c ns ≤ ns.length * c ^ ns.sum := by
  induction ns with
  | nil => simp [KKW]
  | cons n ns ih =>
    rw [List.sum_cons, List.length_cons, KKW, pow_add, Nat.succ_mul, Nat.mul_add, Nat.mul_one]
    have h1 : c ^ n * KKW c ns ≤ c ^ n * (ns.length * c ^ ns.sum) := Nat.mul_le_mul_left _ ih
    have h2 : c ^ n * 1 ≤ c ^ n * c ^ ns.sum :=
      Nat.mul_le_mul_left _ (Nat.one_le_pow _ _ (by omega))
    have e : ns.length * (c ^ n * c ^ ns.sum) = c ^ n * (ns.length * c ^ ns.sum) := by ring
    rw [e]
    omega

/-- closed-form size: `lossCountW c ns ≤ 9 · (number of modes) · c ^ (number of requested photons)` -/
theorem lossCountW_le {c : ℕ} (hc : 2 ≤ c) (ns : List ℕ) :
    lossCountW c ns ≤ 9 * (ns.length * c ^ ns.sum) := by
  match ns with
  | [] => simp [lossCountW]
  | [n] =>
    have := modeLossW_le hc n
    simp only [lossCountW, List.length_cons, List.length_nil, List.sum_cons, List.sum_nil,
      Nat.add_zero, Nat.zero_add, Nat.one_mul]
    omega
  | n₁ :: n₂ :: ns =>
    have h1 := sum_modeLossW_le hc (n₁ :: n₂ :: ns)
    have h2 := KKW_le hc (n₁ :: n₂ :: ns)
    simp only [lossCountW]
    omega

theorem width_eq (P : Params) :
    width P = (((onePhotonRaw P 0).map Prod.snd).filter fun p => decide (0 < p)).length := by
  unfold width onePhoton
  exact length_positive_eq _

/-- no multi-photon emission (`g2 = 0`): at most three outcomes per photon (nothing / a photon with the
common tag / a photon with a fresh tag); the same without annotations (nothing / one / two photons) -/
theorem width_le_three {P : Params} (h : P.g2 = 0 ∨ partDist P = false) : width P ≤ 3 := by
  rw [width_eq]
  unfold onePhotonRaw
  rcases h with h | h
  · have h22 : p22 P = 0 := by simp [p22, p2, h]
    by_cases hpd : partDist P = true <;> by_cases hdm : P.dm = true <;>
      simp only [hpd, hdm, if_true, if_false, Bool.false_eq_true, List.cons_append, List.nil_append,
        List.map_cons, List.map_nil, h22, mul_zero, List.filter_cons, lt_irrefl, decide_false] <;>
      split_ifs <;> simp
  · simp only [h, Bool.false_eq_true, if_false, List.map_cons, List.map_nil, List.filter_cons]
    split_ifs <;> simp

/-- a source that loses nothing and emits exactly one photon per request (the indistinguishability is the
only possible defect): at most two outcomes per photon -/
theorem width_le_two {P : Params} (hb : P.beta = 1) (hg : P.g2 = 0) (he : P.eta = 1) : width P ≤ 2 := by
  rw [width_eq]
  unfold onePhotonRaw
  have h22 : p22 P = 0 := by simp [p22, p2, hg]
  have h21 : p21 P = 0 := by simp [p21, p2, hg]
  have h11 : p11 P = 1 := by simp [p11, p1, p2, hg, hb, he]
  have h0 : p0 P = 0 := by simp [p0, h22, h21, h11]
  by_cases hpd : partDist P = true <;> by_cases hdm : P.dm = true <;>
    simp only [hpd, hdm, if_true, if_false, Bool.false_eq_true, List.cons_append, List.nil_append,
      List.map_cons, List.map_nil, h22, h21, h0, mul_zero, List.filter_cons, lt_irrefl, decide_false] <;>
    split_ifs <;> simp

end PM.C06
