/-
  C03 — helper lemmas: weighted sums over association-list distributions, convolution as a
  commutative/associative operation *at the level of `get`*, the merge loop of
  `list_tensor_product`, dict accumulation, amplitude lists.
-/
import PercevalModel.Model.C03
import Mathlib.Algebra.BigOperators.Group.Finset.Basic
import Mathlib.Algebra.BigOperators.Ring.Finset
import Mathlib.Algebra.Order.BigOperators.Group.List
import Mathlib.Tactic.Linarith
import Mathlib.Tactic.FieldSimp
import Mathlib.Data.List.Flatten
import Mathlib.Data.List.Basic

namespace PM.C03
open PM.Fock PM.Dist PM.SimSpec

/-! ### weighted sums -/

/-- `∑_{(k,p) ∈ d} g k · p` -/
def wsum (g : Fock → ℚ) (d : D) : ℚ := (d.map fun x => g x.1 * x.2).sum

@[simp] theorem wsum_nil (g : Fock → ℚ) : wsum g [] = 0 := rfl
@[simp] theorem wsum_cons (g : Fock → ℚ) (p : Fock × ℚ) (d : D) :
    wsum g (p :: d) = g p.1 * p.2 + wsum g d := by simp [wsum]
@[simp] theorem wsum_append (g : Fock → ℚ) (a b : D) : wsum g (a ++ b) = wsum g a + wsum g b := by
  simp [wsum]

theorem wsum_congr_fun {g g' : Fock → ℚ} (h : ∀ u, g u = g' u) (d : D) : wsum g d = wsum g' d := by
  have : g = g' := funext h
  rw [this]

theorem wsum_add (g h : Fock → ℚ) (d : D) :
    wsum (fun u => g u + h u) d = wsum g d + wsum h d := by
  induction d with
  | nil => simp
  | cons p r ih => simp only [wsum_cons, ih]; ring

theorem wsum_mul_left (c : ℚ) (g : Fock → ℚ) (d : D) :
    wsum (fun u => c * g u) d = c * wsum g d := by
  induction d with
  | nil => simp
  | cons p r ih => simp only [wsum_cons, ih]; ring

theorem wsum_mul_right (c : ℚ) (g : Fock → ℚ) (d : D) :
    wsum (fun u => g u * c) d = wsum g d * c := by
  induction d with
  | nil => simp
  | cons p r ih => simp only [wsum_cons, ih]; ring

theorem wsum_zero (d : D) : wsum (fun _ => 0) d = 0 := by
  induction d with
  | nil => simp
  | cons p r ih => simp [ih]

theorem get_nil (t : Fock) : get [] t = 0 := rfl

theorem get_cons (p : Fock × ℚ) (d : D) (t : Fock) :
    get (p :: d) t = (if p.1 == t then p.2 else 0) + get d t := by
  simp only [Dist.get, List.filter_cons]
  by_cases h : p.1 == t <;> simp [h]

theorem get_eq_wsum (d : D) (t : Fock) : get d t = wsum (fun u => if u == t then 1 else 0) d := by
  induction d with
  | nil => rfl
  | cons p r ih =>
    rw [get_cons, wsum_cons, ih]
    by_cases h : p.1 == t <;> simp [h]

theorem mass_eq_wsum (d : D) : mass d = wsum (fun _ => 1) d := by
  induction d with
  | nil => rfl
  | cons p r ih => simp [ih]

/-- Fubini for lists -/
theorem wsum_comm (h : Fock → Fock → ℚ) (a b : D) :
    wsum (fun x => wsum (fun y => h x y) b) a = wsum (fun y => wsum (fun x => h x y) a) b := by
  induction a with
  | nil => simp [wsum_zero]
  | cons p r ih =>
    simp only [wsum_cons, ih]
    rw [wsum_add (fun y => h p.1 y * p.2) (fun y => wsum (fun x => h x y) r) b,
      wsum_mul_right p.2 (fun y => h p.1 y) b]

theorem wsum_conv_row (g : Fock → ℚ) (p : Fock × ℚ) (b : D) :
    wsum g (b.map fun q => (fadd p.1 q.1, p.2 * q.2)) = wsum (fun y => g (fadd p.1 y)) b * p.2 := by
  induction b with
  | nil => simp
  | cons q s ihb => simp only [List.map_cons, wsum_cons, ihb]; ring

theorem wsum_conv (g : Fock → ℚ) (a b : D) :
    wsum g (conv a b) = wsum (fun x => wsum (fun y => g (fadd x y)) b) a := by
  induction a with
  | nil => simp [conv]
  | cons p r ih =>
    have hb := wsum_conv_row g p b
    have ih' : wsum g (List.flatMap (fun p => List.map (fun q => (fadd p.1 q.1, p.2 * q.2)) b) r) =
        wsum (fun x => wsum (fun y => g (fadd x y)) b) r := by
      simpa [conv] using ih
    simp only [conv, List.flatMap_cons, wsum_append, wsum_cons, hb, ih']

/-- a weighted sum only depends on the function `get` of the distribution -/
theorem wsum_eq_finset_sum (g : Fock → ℚ) (d : D) (K : Finset Fock) (hK : ∀ x ∈ d, x.1 ∈ K) :
    wsum g d = ∑ u ∈ K, g u * get d u := by
  induction d with
  | nil => simp [get_nil]
  | cons p r ih =>
    have hr : ∀ x ∈ r, x.1 ∈ K := fun x hx => hK x (List.mem_cons_of_mem _ hx)
    have hp : p.1 ∈ K := hK p List.mem_cons_self
    rw [wsum_cons, ih hr]
    have : ∀ u, g u * get (p :: r) u = (if p.1 = u then g u * p.2 else 0) + g u * get r u := by
      intro u
      rw [get_cons]
      by_cases h : p.1 = u <;> simp [h, mul_add]
    simp only [this, Finset.sum_add_distrib, Finset.sum_ite_eq, hp, ↓reduceIte]

theorem wsum_get_congr (g : Fock → ℚ) (a a' : D) (h : ∀ t, get a t = get a' t) :
    wsum g a = wsum g a' := by
  classical
  let K : Finset Fock := (a.map (·.1)).toFinset ∪ (a'.map (·.1)).toFinset
  rw [wsum_eq_finset_sum g a K (by intro x hx; simp [K]; left; exact ⟨x.2, hx⟩),
    wsum_eq_finset_sum g a' K (by intro x hx; simp [K]; right; exact ⟨x.2, hx⟩)]
  exact Finset.sum_congr rfl fun u _ => by rw [h u]

/-! ### `fadd` -/

theorem fadd_nil_right (a : Fock) : fadd a [] = a := by cases a <;> simp [fadd]
theorem fadd_nil_left (a : Fock) : fadd [] a = a := by cases a <;> simp [fadd]

theorem fadd_comm (a b : Fock) : fadd a b = fadd b a := by
  induction a generalizing b with
  | nil => rw [fadd_nil_left, fadd_nil_right]
  | cons x xs ih =>
    cases b with
    | nil => rw [fadd_nil_left, fadd_nil_right]
    | cons y ys => simp [fadd, ih ys, Nat.add_comm]

theorem fadd_assoc (a b c : Fock) : fadd (fadd a b) c = fadd a (fadd b c) := by
  induction a generalizing b c with
  | nil => simp [fadd_nil_left]
  | cons x xs ih =>
    cases b with
    | nil => simp [fadd_nil_left, fadd_nil_right]
    | cons y ys =>
      cases c with
      | nil => simp [fadd_nil_right]
      | cons z zs => simp [fadd, ih, Nat.add_assoc]

theorem fadd_zeros_left (m : ℕ) (t : Fock) (h : t.length = m) : fadd (zeros m) t = t := by
  induction t generalizing m with
  | nil => simp [fadd_nil_right, zeros, ← h]
  | cons x xs ih =>
    cases m with
    | zero => simp at h
    | succ k =>
      have hk : xs.length = k := by simpa using h
      have := ih k hk
      simp only [zeros] at this ⊢
      simp [List.replicate_succ, fadd, this]

/-! ### convolution at the level of `get` -/

/-- two distributions with the same meaning -/
def Eqv (a b : D) : Prop := ∀ t, get a t = get b t

theorem Eqv.refl (a : D) : Eqv a a := fun _ => rfl
theorem Eqv.symm {a b : D} (h : Eqv a b) : Eqv b a := fun t => (h t).symm
theorem Eqv.trans {a b c : D} (h : Eqv a b) (h' : Eqv b c) : Eqv a c := fun t => (h t).trans (h' t)

theorem conv_comm_eqv (a b : D) : Eqv (conv a b) (conv b a) := by
  intro t
  rw [get_eq_wsum, get_eq_wsum, wsum_conv, wsum_conv, wsum_comm]
  apply wsum_congr_fun; intro y
  apply wsum_congr_fun; intro x
  rw [fadd_comm]

theorem conv_congr_left {a a' : D} (h : Eqv a a') (c : D) : Eqv (conv a c) (conv a' c) := by
  intro t
  rw [get_eq_wsum, get_eq_wsum, wsum_conv, wsum_conv]
  exact wsum_get_congr _ a a' h

theorem conv_congr_right (a : D) {c c' : D} (h : Eqv c c') : Eqv (conv a c) (conv a c') :=
  ((conv_comm_eqv a c).trans (conv_congr_left h a)).trans (conv_comm_eqv c' a)

theorem conv_assoc_eqv (a b c : D) : Eqv (conv (conv a b) c) (conv a (conv b c)) := by
  intro t
  rw [get_eq_wsum, get_eq_wsum, wsum_conv, wsum_conv, wsum_conv]
  apply wsum_congr_fun; intro x
  rw [wsum_conv]
  apply wsum_congr_fun; intro y
  apply wsum_congr_fun; intro z
  rw [fadd_assoc]

theorem conv_right_comm_eqv (a b c : D) : Eqv (conv (conv a b) c) (conv (conv a c) b) :=
  ((conv_assoc_eqv a b c).trans (conv_congr_right a (conv_comm_eqv b c))).trans
    (conv_assoc_eqv a c b).symm

/-- left fold of convolutions -/
def foldConv (init : D) (ds : List D) : D := ds.foldl conv init

theorem foldConv_congr {i i' : D} (h : Eqv i i') (ds : List D) :
    Eqv (foldConv i ds) (foldConv i' ds) := by
  induction ds generalizing i i' with
  | nil => exact h
  | cons d r ih => exact ih (conv_congr_left h d)

theorem foldConv_perm {ds ds' : List D} (hp : ds.Perm ds') (i : D) :
    Eqv (foldConv i ds) (foldConv i ds') := by
  induction hp generalizing i with
  | nil => exact Eqv.refl _
  | cons x _ ih => exact ih (conv i x)
  | swap x y l => exact foldConv_congr (conv_right_comm_eqv i y x) l
  | trans _ _ ih₁ ih₂ => exact (ih₁ i).trans (ih₂ i)

theorem foldConv_congr_args {ds ds' : List D} (h : List.Forall₂ Eqv ds ds') (i : D) :
    Eqv (foldConv i ds) (foldConv i ds') := by
  induction h generalizing i with
  | nil => exact Eqv.refl _
  | cons hd _ ih =>
    exact (foldConv_congr (conv_congr_right i hd) _).trans (ih _)

theorem conv_append_left (a b d : D) : conv (a ++ b) d = conv a d ++ conv b d := by
  simp [conv]

theorem foldConv_append (a b : D) (ds : List D) :
    foldConv (a ++ b) ds = foldConv a ds ++ foldConv b ds := by
  induction ds generalizing a b with
  | nil => rfl
  | cons d r ih => simp only [foldConv, List.foldl_cons, conv_append_left] at *; exact ih _ _

theorem foldConv_nil_init (ds : List D) : foldConv [] ds = [] := by
  induction ds with
  | nil => rfl
  | cons d r ih => simpa [foldConv, conv] using ih

theorem foldConv_flatMap {α : Type} (l : List α) (f : α → D) (ds : List D) :
    foldConv (l.flatMap f) ds = l.flatMap fun e => foldConv (f e) ds := by
  induction l with
  | nil => simp [foldConv_nil_init]
  | cons x r ih => simp only [List.flatMap_cons, foldConv_append, ih]

theorem mass_foldConv (i : D) (ds : List D) :
    mass (foldConv i ds) = mass i * (ds.map mass).prod := by
  induction ds generalizing i with
  | nil => simp [foldConv]
  | cons d r ih =>
    simp only [foldConv, List.foldl_cons, List.map_cons, List.prod_cons] at *
    rw [ih, mass_conv]; ring

/-! ### `list_tensor_product` at threshold 0 -/

def NonNeg (d : D) : Prop := ∀ e ∈ d, 0 ≤ e.2

theorem innerTP_zero (ds : List D) (h : ∀ d ∈ ds, NonNeg d) (cur : Fock) (p : ℚ) (hp : 0 ≤ p) :
    innerTP 0 ds cur p = foldConv [(cur, p)] ds := by
  induction ds generalizing cur p with
  | nil => rfl
  | cons d r ih =>
    have hr : ∀ d' ∈ r, NonNeg d' := fun d' hd' => h d' (List.mem_cons_of_mem _ hd')
    have hd : NonNeg d := h d List.mem_cons_self
    have h1 : innerTP 0 (d :: r) cur p
        = d.flatMap fun e => foldConv [(fadd cur e.1, p * e.2)] r := by
      simp only [innerTP]
      apply List.flatMap_congr
      intro e he
      have : ¬ p * e.2 < 0 := not_lt.mpr (mul_nonneg hp (hd e he))
      rw [if_neg this, ih hr _ _ (mul_nonneg hp (hd e he)), fadd_comm]
    have h2 : foldConv [(cur, p)] (d :: r) = foldConv (d.flatMap fun e => [(fadd cur e.1, p * e.2)]) r := by
      simp [foldConv, conv, List.map_eq_flatMap]
    rw [h1, h2, foldConv_flatMap]

theorem filter_pos_eqv (d : D) (h : NonNeg d) : Eqv (d.filter fun e => 0 < e.2) d := by
  intro t
  induction d with
  | nil => rfl
  | cons p r ih =>
    have hr : NonNeg r := fun e he => h e (List.mem_cons_of_mem _ he)
    have hp : 0 ≤ p.2 := h p List.mem_cons_self
    by_cases hpos : 0 < p.2
    · simp only [List.filter_cons, hpos, decide_true, ↓reduceIte]
      rw [get_cons, get_cons, ih hr]
    · have h0 : p.2 = 0 := le_antisymm (not_lt.mp hpos) hp
      simp only [List.filter_cons, hpos, decide_false, Bool.false_eq_true, ↓reduceIte]
      rw [get_cons, ih hr, h0]; simp

theorem nonneg_filter (d : D) (h : NonNeg d) (f : Fock × ℚ → Bool) : NonNeg (d.filter f) :=
  fun e he => h e (List.mem_of_mem_filter he)

theorem foldConv_with_nil (i : D) (ds : List D) (h : [] ∈ ds) : foldConv i ds = [] := by
  induction ds generalizing i with
  | nil => simp at h
  | cons d r ih =>
    rcases List.mem_cons.mp h with h' | h'
    · subst h'
      simp only [foldConv, List.foldl_cons]
      have : conv i [] = [] := by simp [conv]
      rw [this]; exact foldConv_nil_init r
    · exact ih _ h'

theorem conv_unit_left (m : ℕ) (d : D) (hd : ∀ e ∈ d, e.1.length = m) : conv [(zeros m, 1)] d = d := by
  simp only [conv, List.flatMap_cons, List.flatMap_nil, List.append_nil, one_mul]
  conv_rhs => rw [← List.map_id d]
  apply List.map_congr_left
  intro e he
  rw [fadd_zeros_left m e.1 (hd e he)]
  rfl

/-- the merge loop of `list_tensor_product(merge_modes=True)` without threshold is the fold of
convolutions -/
theorem listTensor_zero (m : ℕ) (ds : List D) (hne : ds ≠ []) (h : ∀ d ∈ ds, NonNeg d)
    (hlen : ∀ d ∈ ds, ∀ e ∈ d, e.1.length = m) :
    Eqv (listTensor m 0 ds) (foldConv [(zeros m, 1)] ds) := by
  match ds, hne with
  | [d], _ =>
    simp only [listTensor, foldConv, List.foldl_cons, List.foldl_nil]
    rw [conv_unit_left m d (hlen d List.mem_cons_self)]
    exact Eqv.refl _
  | d₁ :: d₂ :: rest, _ =>
    simp only [listTensor]
    by_cases hemp : (d₁ :: d₂ :: rest).any List.isEmpty = true
    · rw [if_pos hemp]
      obtain ⟨d, hd, he⟩ := List.any_eq_true.mp hemp
      have : d = [] := List.isEmpty_iff.mp he
      subst this
      rw [foldConv_with_nil _ _ hd]
      exact Eqv.refl _
    · rw [if_neg hemp]
      rw [innerTP_zero _ (by
        intro d hd
        obtain ⟨d', hd', rfl⟩ := List.mem_map.mp hd
        exact nonneg_filter d' (h d' hd') _) _ _ zero_le_one]
      apply foldConv_congr_args
      rw [List.forall₂_map_left_iff]
      apply List.forall₂_same.mpr
      intro d hd
      exact filter_pos_eqv d (h d hd)

/-! ### dict accumulation -/

theorem get_dictAdd (d : D) (k : Fock) (v : ℚ) (t : Fock) :
    get (dictAdd d k v) t = get d t + if k == t then v else 0 := by
  induction d with
  | nil => simp [dictAdd, get_cons, get_nil]
  | cons p r ih =>
    obtain ⟨k', v'⟩ := p
    simp only [dictAdd]
    by_cases h : k' == k
    · have hk : k' = k := by simpa using h
      subst hk
      simp only [beq_self_eq_true, ↓reduceIte, get_cons]
      by_cases h2 : k' == t <;> simp [h2]; ring
    · simp only [h, Bool.false_eq_true, ↓reduceIte, get_cons, ih]
      ring

theorem mass_dictAdd (d : D) (k : Fock) (v : ℚ) : mass (dictAdd d k v) = mass d + v := by
  induction d with
  | nil => simp [dictAdd]
  | cons p r ih =>
    obtain ⟨k', v'⟩ := p
    simp only [dictAdd]
    by_cases h : k' == k
    · simp only [h, ↓reduceIte, mass_cons]; ring
    · simp only [h, Bool.false_eq_true, ↓reduceIte, mass_cons, ih]; ring

theorem get_accumulate (res : D) (w : ℚ) (d : D) (t : Fock) :
    get (accumulate res w d) t = get res t + w * get d t := by
  induction d generalizing res with
  | nil => simp [accumulate, get_nil]
  | cons p r ih =>
    have := ih (dictAdd res p.1 (p.2 * w))
    simp only [accumulate, List.foldl_cons] at this ⊢
    rw [this, get_dictAdd, get_cons]
    by_cases h : p.1 == t
    · simp [h]; ring
    · simp [h]

theorem mass_accumulate (res : D) (w : ℚ) (d : D) :
    mass (accumulate res w d) = mass res + w * mass d := by
  induction d generalizing res with
  | nil => simp [accumulate]
  | cons p r ih =>
    have := ih (dictAdd res p.1 (p.2 * w))
    simp only [accumulate, List.foldl_cons] at this ⊢
    rw [this, mass_dictAdd, mass_cons]; ring

theorem get_accumFrom (init : D) (ms : List (ℚ × D)) (t : Fock) :
    get (ms.foldl (fun r p => accumulate r p.1 p.2) init) t
      = get init t + (ms.map fun p => p.1 * get p.2 t).sum := by
  induction ms generalizing init with
  | nil => simp
  | cons p r ih => simp only [List.foldl_cons, ih, get_accumulate, List.map_cons, List.sum_cons]; ring

theorem mass_accumFrom (init : D) (ms : List (ℚ × D)) :
    mass (ms.foldl (fun r p => accumulate r p.1 p.2) init)
      = mass init + (ms.map fun p => p.1 * mass p.2).sum := by
  induction ms generalizing init with
  | nil => simp
  | cons p r ih => simp only [List.foldl_cons, ih, mass_accumulate, List.map_cons, List.sum_cons]; ring

/-! ### bounds -/

theorem get_nonneg (d : D) (h : NonNeg d) (t : Fock) : 0 ≤ get d t := by
  induction d with
  | nil => simp [get_nil]
  | cons p r ih =>
    rw [get_cons]
    have hp : 0 ≤ p.2 := h p List.mem_cons_self
    have := ih fun e he => h e (List.mem_cons_of_mem _ he)
    by_cases hk : p.1 == t <;> simp [hk] <;> linarith

theorem get_le_mass (d : D) (h : NonNeg d) (t : Fock) : get d t ≤ mass d := by
  induction d with
  | nil => simp [get_nil]
  | cons p r ih =>
    rw [get_cons, mass_cons]
    have hp : 0 ≤ p.2 := h p List.mem_cons_self
    have := ih fun e he => h e (List.mem_cons_of_mem _ he)
    by_cases hk : p.1 == t <;> simp [hk] <;> linarith

/-! ### amplitude lists -/

variable {R : Type*}

theorem ampGet_nil [AddCommMonoid R] (k : List Fock) : ampGet ([] : Amps R) k = 0 := rfl

theorem ampGet_append [AddCommMonoid R] (a b : Amps R) (k : List Fock) :
    ampGet (a ++ b) k = ampGet a k + ampGet b k := by
  simp [ampGet, List.filter_append]

theorem ampGet_map_mul [CommRing R] (c : R) (a : Amps R) (k : List Fock) :
    ampGet (a.map fun p => (p.1, c * p.2)) k = c * ampGet a k := by
  induction a with
  | nil => simp [ampGet]
  | cons p r ih =>
    simp only [ampGet, List.map_cons, List.filter_cons] at *
    by_cases h : p.1 == k <;> simp [h, ih, mul_add]

/-! ### helpers of the property theorems -/

theorem evolveTerm_from {m : ℕ} (U : Matrix (Fin m) (Fin m) GQ) (gs : List Fock) (acc : Amps GQ) :
    gs.foldl (fun acc s => mergeSV acc (groupEvolve U s)) acc
      = acc.flatMap fun x => (tuples U gs).map fun p => (x.1 ++ p.1, x.2 * p.2) := by
  induction gs generalizing acc with
  | nil =>
    simp only [List.foldl_nil, tuples, List.map_cons, List.append_nil, mul_one, List.map_nil]
    rw [← List.map_eq_flatMap]
    simp
  | cons s rest ih =>
    rw [List.foldl_cons, ih]
    simp only [mergeSV, groupEvolve, tuples, List.flatMap_assoc, List.flatMap_map, List.map_flatMap,
      List.map_map]
    apply List.flatMap_congr; intro x _
    apply List.flatMap_congr; intro t _
    apply List.map_congr_left; intro p _
    simp [mul_assoc]

theorem prob_nonneg {m : ℕ} (U : Matrix (Fin m) (Fin m) GQ) (s t : Fock) : 0 ≤ prob U s t := by
  unfold prob GQ.normSq
  apply div_nonneg
  · exact add_nonneg (mul_self_nonneg _) (mul_self_nonneg _)
  · positivity

theorem probsFock_nonneg {m : ℕ} (U : Matrix (Fin m) (Fin m) GQ) (s : Fock) :
    NonNeg (probsFock U s) := by
  intro e he
  obtain ⟨t, _, rfl⟩ := List.mem_map.mp he
  exact prob_nonneg U s t

theorem probsFock_length {m : ℕ} (U : Matrix (Fin m) (Fin m) GQ) (s : Fock) :
    ∀ e ∈ probsFock U s, e.1.length = m := by
  intro e he
  obtain ⟨t, ht, rfl⟩ := List.mem_map.mp he
  exact ((mem_allStates_iff m s.sum t).mp ht).1

theorem probsTagged_eq_foldConv {m : ℕ} (U : Matrix (Fin m) (Fin m) GQ) (gs : List Fock) :
    probsTagged U gs = foldConv [(zeros m, 1)] (gs.map (probsFock U)) := by
  simp [probsTagged, foldConv, List.foldl_map]

theorem separate_ne_nil (st : AState) : separate st ≠ [] := by
  unfold separate
  by_cases h : tagsOf st = []
  · simp [h]
  · simp [h]

theorem mass_congr {a b : D} (h : Eqv a b) : mass a = mass b := by
  rw [mass_eq_wsum, mass_eq_wsum]
  exact wsum_get_congr _ a b h

theorem normalize_congr {a b : D} (h : Eqv a b) : Eqv (normalize a) (normalize b) := by
  intro t
  have hm := mass_congr h
  unfold normalize
  rw [hm]
  by_cases h0 : mass b = 0
  · simp only [h0, ↓reduceIte]; exact h t
  · simp only [h0, ↓reduceIte, get_scale, h t]

/-! ### the amplitude threshold of `_merge_sv` -/

theorem mergeSVθ_eq_filter (thr : ℚ) (a : AmpsF) (b : List (Fock × GQ × ℚ)) :
    mergeSVθ thr a b = (mergeAllF a b).filter (keepF thr) := by
  unfold mergeSVθ mergeAllF
  rw [List.filter_flatMap]
  congr 1
  funext x
  induction b with
  | nil => rfl
  | cons y ys ih =>
    by_cases h : thr < GQ.normSq (x.2.1 * y.2.1) / (x.2.2 * y.2.2)
    · simp only [List.filterMap_cons, List.map_cons, List.filter_cons, keepF, sqF, h, if_true,
        decide_true, ih]
    · simp only [List.filterMap_cons, List.map_cons, List.filter_cons, keepF, sqF, h, if_false,
        decide_false, ih]
      rfl

theorem keepF_mono {thr thr' : ℚ} (h : thr ≤ thr') (z : List Fock × GQ × ℚ) :
    keepF thr' z = true → keepF thr z = true := by
  simp only [keepF, decide_eq_true_eq]
  intro h'
  exact lt_of_le_of_lt h h'

theorem mergeSVθ_mono {thr thr' : ℚ} (h : thr ≤ thr') {a a' : AmpsF} (ha : a.Sublist a')
    (b : List (Fock × GQ × ℚ)) : (mergeSVθ thr' a b).Sublist (mergeSVθ thr a' b) := by
  rw [mergeSVθ_eq_filter, mergeSVθ_eq_filter]
  have h1 : ((mergeAllF a b).filter (keepF thr')).Sublist ((mergeAllF a b).filter (keepF thr)) :=
    List.monotone_filter_right _ (fun z hz => keepF_mono h z hz)
  exact h1.trans ((ha.flatMap _).filter _)

/-- one step of the fold of `evolveTermθ` -/
def stepθ {m : ℕ} (U : Matrix (Fin m) (Fin m) GQ) (thr : ℚ) (acc : AmpsF × Bool) (s : Fock) :
    AmpsF × Bool :=
  if s.sum = 0 then (acc.1.map fun x => (x.1 ++ [s], x.2.1, x.2.2), acc.2)
  else if acc.2 then (mergeSVθ thr acc.1 (groupEvolveF U s), true)
  else (acc.1.flatMap fun x => (groupEvolveF U s).map fun y =>
    (x.1 ++ [y.1], x.2.1 * y.2.1, x.2.2 * y.2.2), true)

theorem evolveTermθ_eq_foldl {m : ℕ} (U : Matrix (Fin m) (Fin m) GQ) (thr : ℚ) (gs : List Fock) :
    evolveTermθ U thr gs = (gs.foldl (stepθ U thr) ([([], 1, 1)], false)).1 := rfl

theorem stepθ_mono {m : ℕ} (U : Matrix (Fin m) (Fin m) GQ) {thr thr' : ℚ} (h : thr ≤ thr')
    {acc acc' : AmpsF × Bool} (h1 : acc.1.Sublist acc'.1) (h2 : acc.2 = acc'.2) (s : Fock) :
    (stepθ U thr' acc s).1.Sublist (stepθ U thr acc' s).1 ∧
      (stepθ U thr' acc s).2 = (stepθ U thr acc' s).2 := by
  unfold stepθ
  by_cases hs : s.sum = 0
  · simp only [hs, if_true]
    exact ⟨h1.map _, h2⟩
  · simp only [hs, if_false]
    rw [h2]
    by_cases hb : acc'.2 = true
    · simp only [hb, if_true]
      exact ⟨mergeSVθ_mono h h1 _, trivial⟩
    · have hb' : acc'.2 = false := by simpa using hb
      simp only [hb', Bool.false_eq_true, if_false]
      exact ⟨h1.flatMap _, trivial⟩

theorem foldl_stepθ_mono {m : ℕ} (U : Matrix (Fin m) (Fin m) GQ) {thr thr' : ℚ} (h : thr ≤ thr')
    (gs : List Fock) : ∀ {acc acc' : AmpsF × Bool}, acc.1.Sublist acc'.1 → acc.2 = acc'.2 →
    (gs.foldl (stepθ U thr') acc).1.Sublist (gs.foldl (stepθ U thr) acc').1 := by
  induction gs with
  | nil => intro acc acc' h1 _; exact h1
  | cons s rest ih =>
    intro acc acc' h1 h2
    simp only [List.foldl_cons]
    exact ih (stepθ_mono U h h1 h2 s).1 (stepθ_mono U h h1 h2 s).2

/-! ### the cache of a long-lived simulator -/

section Session
variable {K V A : Type} [DecidableEq K]

theorem cacheOk_fill (compute : K → V) (cache : List (K × V)) (h : CacheOk compute cache)
    (keys : List K) : CacheOk compute (cacheFill compute cache keys) := by
  induction keys generalizing cache with
  | nil => exact h
  | cons k ks ih =>
    simp only [cacheFill, List.foldl_cons]
    apply ih
    cases hk : cache.lookup k with
    | some v => exact h
    | none =>
      intro k' v' hv
      by_cases e : k' = k
      · subst e; simp [List.lookup_cons] at hv; exact hv.symm
      · have : (k' == k) = false := by simpa using e
        simp [List.lookup_cons, this] at hv
        exact h k' v' hv

theorem lookup_fill_of_some (compute : K → V) (cache : List (K × V)) (keys : List K) (k : K) (v : V)
    (h : cache.lookup k = some v) : (cacheFill compute cache keys).lookup k = some v := by
  induction keys generalizing cache with
  | nil => exact h
  | cons k' ks ih =>
    simp only [cacheFill, List.foldl_cons]
    apply ih
    cases hk : cache.lookup k' with
    | some v' => exact h
    | none =>
      have e : k ≠ k' := by rintro rfl; rw [h] at hk; cases hk
      have : (k == k') = false := by simpa using e
      simp [List.lookup_cons, this, h]

/-- after `_evolve_cache(keys)` every requested key is present with the value the backend computes -/
theorem lookup_fill_of_mem (compute : K → V) (cache : List (K × V)) (h : CacheOk compute cache)
    (keys : List K) (k : K) (hk : k ∈ keys) :
    (cacheFill compute cache keys).lookup k = some (compute k) := by
  induction keys generalizing cache with
  | nil => cases hk
  | cons k' ks ih =>
    have hok : CacheOk compute (cacheFill compute cache [k']) := cacheOk_fill compute cache h [k']
    have hstep : cacheFill compute cache (k' :: ks) = cacheFill compute (cacheFill compute cache [k']) ks := by
      simp [cacheFill]
    rw [hstep]
    rcases List.mem_cons.mp hk with rfl | hk
    · apply lookup_fill_of_some
      simp only [cacheFill, List.foldl_cons, List.foldl_nil]
      cases hl : cache.lookup k with
      | some v => simp [hl, h k v hl]
      | none => simp [List.lookup_cons]
    · exact ih _ hok hk

end Session

end PM.C03
