/-
  C04 — lemmas for the superposed path at a non-zero precision (`Model/C04TrimDet.lean`, part B).

  The amplitude threshold of `_merge_sv` removes *components* before the terms interfere, so the probabilities of the
  trimmed computation are not dominated by the untrimmed ones.  What holds is C03's coherent perturbation bound, per
  annotated output `k`: `| |b_k + l_k|² − |b_k|² | ≤ |l_k|² + 2·|b_k|·|l_k|` (kept amplitude `b_k`, dropped amplitude
  `l_k`), collected in an *error distribution* (`genErrDM`).  `Near e p q` — "for every predicate the masses of `p` and
  `q` differ by at most the mass `e` gives to it" — is the relation that survives mixtures, restrictions and relabelling,
  and from which the deviations of `logical_perf` and `results` follow.
-/
import PercevalModel.Model.C04TrimDet
import PercevalModel.Lemmas.C04TrimDet
import PercevalModel.Lemmas.C04Generic
import PercevalModel.Lemmas.C03Prec

namespace PM.C04
open PM.Fock PM.Dist PM.SimSpec

/-! ### the coherent bound for two arbitrary component lists -/

/-- error distribution of two component lists `a0` (reference) and `aθ` (kept) -/
def errDOf (m : ℕ) (n2 : ℚ) (a0 aθ : List (List Fock × GQ)) : D :=
  ((a0 ++ aθ).map (·.1)).dedup.map fun k =>
    (flattenTuple m k, PM.C03.keyErrOf n2 (PM.C03.ampGet a0 k) (PM.C03.ampGet aθ k) k)

theorem keyErrOf_nonneg (n2 : ℚ) (h : 0 ≤ n2) (a b : GQ) (k : List Fock) : 0 ≤ PM.C03.keyErrOf n2 a b k := by
  unfold PM.C03.keyErrOf
  have h1 : 0 ≤ PM.C03.droppedPOf n2 a b k :=
    mul_nonneg (PM.C03.normSq_nonneg _) (PM.C03.keyScale_nonneg _ h k)
  have h2 := mul_nonneg (mul_nonneg (by norm_num : (0 : ℚ) ≤ 2) (PM.C03.sqrtUp_nonneg (PM.C03.keptPOf n2 b k)))
    (PM.C03.sqrtUp_nonneg (PM.C03.droppedPOf n2 a b k))
  linarith

theorem NN_errDOf (m : ℕ) (n2 : ℚ) (h : 0 ≤ n2) (a0 aθ : List (List Fock × GQ)) : NN (errDOf m n2 a0 aθ) := by
  intro e he
  obtain ⟨k, _, rfl⟩ := List.mem_map.1 he
  exact keyErrOf_nonneg n2 h _ _ k

/-- **coherent loss**: whatever the two component lists, the probabilities `_to_bsd` computes from them differ, outcome
by outcome, by at most what the error distribution gives to the outcome -/
theorem coherent_bound_lists (m : ℕ) (n2 : ℚ) (hn2 : 0 ≤ n2) (a0 aθ : List (List Fock × GQ)) (t : Fock) :
    |get (toBsd m n2 a0) t - get (toBsd m n2 aθ) t| ≤ get (errDOf m n2 a0 aθ) t := by
  classical
  set keys := ((a0 ++ aθ).map (·.1)).dedup with hkeys
  have hS0 : ∀ K ∈ a0.map (·.1), K ∈ keys.toFinset := by
    intro K hK
    rw [List.mem_toFinset, hkeys, List.mem_dedup, List.map_append]
    exact List.mem_append_left _ hK
  have hSθ : ∀ K ∈ aθ.map (·.1), K ∈ keys.toFinset := by
    intro K hK
    rw [List.mem_toFinset, hkeys, List.mem_dedup, List.map_append]
    exact List.mem_append_right _ hK
  unfold toBsd
  rw [PM.C03.get_toBsd m _ _ t _ hS0, PM.C03.get_toBsd m _ _ t _ hSθ]
  have hE : get (errDOf m n2 a0 aθ) t =
      ∑ K ∈ keys.toFinset, if flattenTuple m K == t then
        PM.C03.keyErrOf n2 (PM.C03.ampGet a0 K) (PM.C03.ampGet aθ K) K else 0 := by
    unfold errDOf
    rw [PM.C03.get_map_pair]
    exact (List.sum_toFinset _ (List.nodup_dedup _ : keys.Nodup)).symm
  rw [hE, div_eq_mul_inv, div_eq_mul_inv, Finset.sum_mul, Finset.sum_mul, ← Finset.sum_sub_distrib]
  refine (Finset.abs_sum_le_sum_abs _ _).trans (Finset.sum_le_sum fun K _ => ?_)
  unfold PM.C03.outW
  split
  · have := PM.C03.normSq_sub_bound (PM.C03.ampGet a0 K) (PM.C03.ampGet aθ K)
      (PM.C03.keyScale n2 K) (PM.C03.keyScale_nonneg _ hn2 K)
    have e : ∀ x : ℚ, x / (((K.map prodFact).prod : ℕ) : ℚ) * n2⁻¹ = x * PM.C03.keyScale n2 K := by
      intro x; unfold PM.C03.keyScale; rw [div_eq_mul_inv, mul_assoc]
    rw [e, e]
    exact this
  · simp

theorem genErrDM_eq {m : ℕ} (U : Matrix (Fin m) (Fin m) GQ) (c : Cfg) (θ w : ℚ) (terms : List Term) :
    genErrDM U c θ w terms = errDOf m (svNorm2 terms) (ampsθM U c 0 w terms) (ampsθM U c θ w terms) := rfl

/-- one member: threshold `θ` against threshold 0 of the same masked computation -/
theorem memberGenθ_bound {m : ℕ} (U : Matrix (Fin m) (Fin m) GQ) (c : Cfg) (θ w : ℚ) (terms : List Term) (t : Fock) :
    |get (memberGenθ U c 0 w terms) t - get (memberGenθ U c θ w terms) t| ≤ get (genErrDM U c θ w terms) t :=
  coherent_bound_lists m (svNorm2 terms) (PM.C03.svNorm2_nonneg terms) _ _ t

theorem NN_toBsd (m : ℕ) (n2 : ℚ) (h : 0 ≤ n2) (l : List (List Fock × GQ)) : NN (toBsd m n2 l) := by
  intro e he
  obtain ⟨p, _, rfl⟩ := List.mem_map.1 he
  exact div_nonneg (div_nonneg (PM.C03.normSq_nonneg _) (Nat.cast_nonneg _)) h

theorem NN_memberGenθ {m : ℕ} (U : Matrix (Fin m) (Fin m) GQ) (c : Cfg) (θ w : ℚ) (terms : List Term) :
    NN (memberGenθ U c θ w terms) := NN_toBsd m _ (PM.C03.svNorm2_nonneg terms) _

theorem NN_genErrDM {m : ℕ} (U : Matrix (Fin m) (Fin m) GQ) (c : Cfg) (θ w : ℚ) (terms : List Term) :
    NN (genErrDM U c θ w terms) := NN_errDOf m _ (PM.C03.svNorm2_nonneg terms) _ _

/-! ### `Near`: closeness for every predicate -/

/-- for every predicate, the masses `p` and `q` give to it differ by at most the mass `e` gives to it -/
def Near (e p q : D) : Prop :=
  ∀ f : Fock → Bool, |mass (restrict f p) - mass (restrict f q)| ≤ mass (restrict f e)

theorem Near.refl (p : D) : Near [] p p := fun f => by simp [restrict]

theorem Near.append {e e' p p' q q' : D} (h : Near e p q) (h' : Near e' p' q') :
    Near (e ++ e') (p ++ p') (q ++ q') := fun f => by
  rw [restrict_append, restrict_append, restrict_append, mass_append, mass_append, mass_append]
  have := abs_add_le (mass (restrict f p) - mass (restrict f q)) (mass (restrict f p') - mass (restrict f q'))
  have e1 : mass (restrict f p) + mass (restrict f p') - (mass (restrict f q) + mass (restrict f q')) =
      mass (restrict f p) - mass (restrict f q) + (mass (restrict f p') - mass (restrict f q')) := by ring
  rw [e1]
  linarith [h f, h' f]

theorem Near.scale {e p q : D} (h : Near e p q) {w : ℚ} (hw : 0 ≤ w) : Near (scale w e) (scale w p) (scale w q) :=
  fun f => by
    rw [restrict_scale, restrict_scale, restrict_scale, mass_scale, mass_scale, mass_scale, ← mul_sub, abs_mul,
      abs_of_nonneg hw]
    exact mul_le_mul_of_nonneg_left (h f) hw

theorem Near.restrict {e p q : D} (h : Near e p q) (g : Fock → Bool) :
    Near (restrict g e) (restrict g p) (restrict g q) := fun f => by
  rw [restrict_restrict, restrict_restrict, restrict_restrict]
  exact h _

theorem Near.mapKeys {e p q : D} (h : Near e p q) (g : Fock → Fock) :
    Near (mapKeys g e) (mapKeys g p) (mapKeys g q) := fun f => by
  rw [restrict_mapKeys, restrict_mapKeys, restrict_mapKeys, mass_mapKeys, mass_mapKeys, mass_mapKeys]
  exact h _

theorem Near.mass {e p q : D} (h : Near e p q) : |mass p - mass q| ≤ mass e := by
  have := h (fun _ => true)
  rwa [restrict_true, restrict_true, restrict_true] at this

theorem Near.get {e p q : D} (h : Near e p q) (t : Fock) : |get p t - get q t| ≤ get e t := by
  rw [get_eq_mass_restrict, get_eq_mass_restrict, get_eq_mass_restrict]
  exact h _

/-- a dropped member: the whole distribution is the error -/
theorem near_drop {p : D} (hn : NN p) : Near p p [] := fun f => by
  have : mass (restrict f ([] : D)) = 0 := rfl
  rw [this, sub_zero, abs_of_nonneg (hn.restrict f).mass_nonneg]

theorem get_restrict (f : Fock → Bool) (t : Fock) : ∀ d : D,
    get (restrict f d) t = if f t then get d t else 0
  | [] => by simp [restrict, Dist.get]
  | x :: r => by
    have ih := get_restrict f t r
    by_cases hx : f x.1 = true
    · have e1 : restrict f (x :: r) = x :: restrict f r := by simp [restrict, hx]
      rw [e1]
      by_cases hxt : x.1 = t
      · have hft : f t = true := by rw [← hxt]; exact hx
        have hb : (x.1 == t) = true := by simpa using hxt
        simp only [hft, if_true] at ih ⊢
        simp only [Dist.get, List.filter_cons, hb, if_true, List.map_cons, List.sum_cons] at ih ⊢
        rw [ih]
      · have hb : (x.1 == t) = false := by simpa using hxt
        simp only [Dist.get, List.filter_cons, hb, Bool.false_eq_true, if_false] at ih ⊢
        exact ih
    · have e1 : restrict f (x :: r) = restrict f r := by simp [restrict, hx]
      rw [e1, ih]
      by_cases hxt : x.1 = t
      · have hft : ¬ f t = true := by rw [← hxt]; exact hx
        simp [hft]
      · have hb : (x.1 == t) = false := by simpa using hxt
        simp only [Dist.get, List.filter_cons, hb, Bool.false_eq_true, if_false]

/-- masses over a finite set of outcomes that contains every key -/
theorem mass_restrict_eq_sum (f : Fock → Bool) (d : D) (S : Finset Fock) (hS : ∀ e ∈ d, e.1 ∈ S) :
    mass (restrict f d) = ∑ t ∈ S, if f t then get d t else 0 := by
  classical
  have h1 : mass (restrict f d) = ∑ t ∈ S, get (restrict f d) t :=
    PM.C03.mass_eq_sum_get _ S (fun e he => hS e (mem_restrict he))
  rw [h1]
  exact Finset.sum_congr rfl fun t _ => get_restrict f t d

/-- from outcome by outcome to every predicate -/
theorem near_of_pointwise {e p q : D} (h : ∀ t, |get p t - get q t| ≤ get e t) : Near e p q := by
  classical
  intro f
  set S : Finset Fock := (p.map (·.1)).toFinset ∪ (q.map (·.1)).toFinset ∪ (e.map (·.1)).toFinset with hSdef
  have hp : ∀ x ∈ p, x.1 ∈ S := fun x hx => by
    rw [hSdef]
    exact Finset.mem_union_left _ (Finset.mem_union_left _ (List.mem_toFinset.2 (List.mem_map_of_mem hx)))
  have hq : ∀ x ∈ q, x.1 ∈ S := fun x hx => by
    rw [hSdef]
    exact Finset.mem_union_left _ (Finset.mem_union_right _ (List.mem_toFinset.2 (List.mem_map_of_mem hx)))
  have he : ∀ x ∈ e, x.1 ∈ S := fun x hx => by
    rw [hSdef]
    exact Finset.mem_union_right _ (List.mem_toFinset.2 (List.mem_map_of_mem hx))
  rw [mass_restrict_eq_sum f p S hp, mass_restrict_eq_sum f q S hq, mass_restrict_eq_sum f e S he,
    ← Finset.sum_sub_distrib]
  refine (Finset.abs_sum_le_sum_abs _ _).trans (Finset.sum_le_sum fun t _ => ?_)
  by_cases hf : f t = true
  · simp only [hf, if_true]
    exact h t
  · simp [hf]

/-! ### the mixture: members dropped by the relative threshold, members trimmed inside -/

theorem near_mix_split (P : GMember → Bool) (p0 pθ e : GMember → D) : ∀ l : List GMember,
    (∀ g ∈ l, 0 ≤ g.w) → (∀ g ∈ l, NN (p0 g)) → (∀ g ∈ l, Near (e g) (p0 g) (pθ g)) →
    Near (mix ((l.filter fun g => !P g).map fun g => (g.w, p0 g)) ++ mix ((l.filter P).map fun g => (g.w, e g)))
      (mix (l.map fun g => (g.w, p0 g))) (mix ((l.filter P).map fun g => (g.w, pθ g)))
  | [], _, _, _ => fun f => by simp [mix, restrict]
  | g :: r, hw, hn, hb => by
    have ih := near_mix_split P p0 pθ e r (fun x hx => hw x (List.mem_cons_of_mem _ hx))
      (fun x hx => hn x (List.mem_cons_of_mem _ hx)) (fun x hx => hb x (List.mem_cons_of_mem _ hx))
    have w0 := hw g List.mem_cons_self
    intro f
    have ihf := ih f
    rw [restrict_append, mass_append] at ihf
    by_cases hP : P g = true
    · have e1 : ((g :: r).filter P) = g :: r.filter P := by simp [hP]
      have e2 : ((g :: r).filter fun g => !P g) = r.filter fun g => !P g := by simp [hP]
      rw [e1, e2]
      simp only [List.map_cons, mix_cons', restrict_append, mass_append]
      have hg := ((hb g List.mem_cons_self).scale w0) f
      have := abs_add_le (mass (restrict f (scale g.w (p0 g))) - mass (restrict f (scale g.w (pθ g))))
        (mass (restrict f (mix (r.map fun g => (g.w, p0 g)))) -
          mass (restrict f (mix ((r.filter P).map fun g => (g.w, pθ g)))))
      have e3 : mass (restrict f (scale g.w (p0 g))) + mass (restrict f (mix (r.map fun g => (g.w, p0 g)))) -
          (mass (restrict f (scale g.w (pθ g))) + mass (restrict f (mix ((r.filter P).map fun g => (g.w, pθ g))))) =
          mass (restrict f (scale g.w (p0 g))) - mass (restrict f (scale g.w (pθ g))) +
          (mass (restrict f (mix (r.map fun g => (g.w, p0 g)))) -
            mass (restrict f (mix ((r.filter P).map fun g => (g.w, pθ g))))) := by ring
      rw [e3]
      linarith
    · have hP' : P g = false := by simpa using hP
      have e1 : ((g :: r).filter P) = r.filter P := by simp [hP']
      have e2 : ((g :: r).filter fun g => !P g) = g :: r.filter fun g => !P g := by simp [hP']
      rw [e1, e2]
      simp only [List.map_cons, mix_cons', restrict_append, mass_append]
      have hg0 : 0 ≤ mass (restrict f (scale g.w (p0 g))) :=
        (((hn g List.mem_cons_self).scale w0).restrict f).mass_nonneg
      have := abs_add_le (mass (restrict f (scale g.w (p0 g))))
        (mass (restrict f (mix (r.map fun g => (g.w, p0 g)))) -
          mass (restrict f (mix ((r.filter P).map fun g => (g.w, pθ g)))))
      rw [abs_of_nonneg hg0] at this
      have e3 : mass (restrict f (scale g.w (p0 g))) + mass (restrict f (mix (r.map fun g => (g.w, p0 g)))) -
          mass (restrict f (mix ((r.filter P).map fun g => (g.w, pθ g)))) =
          mass (restrict f (scale g.w (p0 g))) +
          (mass (restrict f (mix (r.map fun g => (g.w, p0 g)))) -
            mass (restrict f (mix ((r.filter P).map fun g => (g.w, pθ g))))) := by ring
      rw [e3]
      linarith

theorem mem_keptG {c : Cfg} {members : List GMember} {g : GMember} (h : g ∈ keptG c members) : g ∈ members :=
  (List.mem_filter.1 h).1

/-- **the accumulated lists**: what `_probs_svd_generic` accumulates at precision `P` is, for every predicate, within
the error distribution of what it accumulates with no threshold at all -/
theorem genRes_near {m : ℕ} (U : Matrix (Fin m) (Fin m) GQ) (P : Prec) (c : Cfg) (members : List GMember)
    (hw : ∀ g ∈ members, 0 ≤ g.w) :
    Near (genErrD U P c members) (genRes0 U c members) (genResθ U P c members) := by
  have h := near_mix_split (fun g => decide (pThresholdG P c members < g.w))
    (fun g => memberGenθ U c 0 g.w g.terms)
    (fun g => memberGenθ U c (pThresholdG P c members) g.w g.terms)
    (fun g => genErrDM U c (pThresholdG P c members) g.w g.terms) (keptG c members)
    (fun g hg => hw g (mem_keptG hg)) (fun g _ => NN_memberGenθ U c 0 g.w g.terms)
    (fun g _ => near_of_pointwise (memberGenθ_bound U c _ g.w g.terms))
  exact h

theorem NN_mix_map {α : Type} (l : List α) (w : α → ℚ) (d : α → D) (hw : ∀ a ∈ l, 0 ≤ w a) (hd : ∀ a ∈ l, NN (d a)) :
    NN (mix (l.map fun a => (w a, d a))) := by
  apply NN.mix
  intro p hp
  obtain ⟨a, ha, rfl⟩ := List.mem_map.1 hp
  exact ⟨hw a ha, hd a ha⟩

theorem NN_genRes0 {m : ℕ} (U : Matrix (Fin m) (Fin m) GQ) (c : Cfg) (members : List GMember)
    (hw : ∀ g ∈ members, 0 ≤ g.w) : NN (genRes0 U c members) :=
  NN_mix_map _ _ _ (fun g hg => hw g (mem_keptG hg)) (fun g _ => NN_memberGenθ U c 0 g.w g.terms)

theorem NN_genResθ {m : ℕ} (U : Matrix (Fin m) (Fin m) GQ) (P : Prec) (c : Cfg) (members : List GMember)
    (hw : ∀ g ∈ members, 0 ≤ g.w) : NN (genResθ U P c members) :=
  NN_mix_map _ _ _ (fun g hg => hw g (mem_keptG (List.mem_filter.1 hg).1)) (fun g _ => NN_memberGenθ U c _ g.w g.terms)

theorem NN_genErrD {m : ℕ} (U : Matrix (Fin m) (Fin m) GQ) (P : Prec) (c : Cfg) (members : List GMember)
    (hw : ∀ g ∈ members, 0 ≤ g.w) : NN (genErrD U P c members) :=
  (NN_mix_map _ _ _ (fun g hg => hw g (mem_keptG (List.mem_filter.1 hg).1))
      (fun g _ => NN_memberGenθ U c 0 g.w g.terms)).append
    (NN_mix_map _ _ _ (fun g hg => hw g (mem_keptG (List.mem_filter.1 hg).1))
      (fun g _ => NN_genErrDM U c _ g.w g.terms))

/-! ### the tail of `probs_svd` on two accumulated lists that are `Near` -/

theorem finishSvd_near_logical (c : Cfg) (phys : ℚ) (hphys : 0 < phys) (X0 Xθ eD : D) (hn0 : NN X0) (hnθ : NN Xθ)
    (h : Near eD X0 Xθ) :
    |(finishSvd c phys Xθ).logical - (finishSvd c phys X0).logical| ≤
      mass (restrict (logicOk (cond c)) eD) / phys := by
  rw [finishSvd_logical c phys Xθ hnθ (fun _ => hphys), finishSvd_logical c phys X0 hn0 (fun _ => hphys),
    ← sub_div, abs_div, abs_of_pos hphys]
  apply div_le_div_of_nonneg_right _ hphys.le
  rw [abs_sub_comm]
  exact h _

theorem finishSvd_near_results (c : Cfg) (phys : ℚ) (X0 Xθ eD : D) (hn0 : NN X0) (hnθ : NN Xθ) (hne : NN eD)
    (h : Near eD X0 Xθ) (h0 : mass (restrict (logicOk (cond c)) X0) ≠ 0)
    (hθ : mass (restrict (logicOk (cond c)) Xθ) ≠ 0) (t : Fock) :
    |get (finishSvd c phys Xθ).results t - get (finishSvd c phys X0).results t| ≤
      (get (mapKeys (reported (cond c)) (restrict (logicOk (cond c)) eD)) t +
        get (finishSvd c phys X0).results t * mass (restrict (logicOk (cond c)) eD)) /
      mass (restrict (logicOk (cond c)) Xθ) := by
  rw [finishSvd_results c phys Xθ hnθ hθ, finishSvd_results c phys X0 hn0 h0]
  have hN := (h.restrict (logicOk (cond c))).mapKeys (reported (cond c))
  have nnA : ∀ (X : D), NN X → ∀ t, 0 ≤ get (mapKeys (reported (cond c)) (restrict (logicOk (cond c)) X)) t := by
    intro X hX t
    apply get_nonneg'
    intro p hp
    simp only [mapKeys, List.mem_map] at hp
    obtain ⟨q, hq, rfl⟩ := hp
    exact hX q (mem_restrict hq)
  have hne' : PM.C03.NonNeg (mapKeys (reported (cond c)) (restrict (logicOk (cond c)) eD)) := by
    intro p hp
    simp only [mapKeys, List.mem_map] at hp
    obtain ⟨q, hq, rfl⟩ := hp
    exact hne q (mem_restrict hq)
  have := (PM.C03.normalize_perturb
    (mapKeys (reported (cond c)) (restrict (logicOk (cond c)) X0))
    (mapKeys (reported (cond c)) (restrict (logicOk (cond c)) Xθ))
    (fun t => get (mapKeys (reported (cond c)) (restrict (logicOk (cond c)) eD)) t)
    (mass (mapKeys (reported (cond c)) (restrict (logicOk (cond c)) eD)))
    (nnA X0 hn0) (nnA Xθ hnθ)
    (fun t => by rw [abs_sub_comm]; exact hN.get t)
    (fun S => PM.C03.sum_get_le_mass _ hne' S)
    (by rwa [mass_mapKeys]) (by rwa [mass_mapKeys])).2.1 t
  rw [mass_mapKeys, mass_mapKeys] at this
  exact this

/-! ### the herald mask commutes with the thresholded merge

The threshold of `_merge_sv` tests one product of amplitudes at a time, and the mask removes outputs of single groups:
the masked, thresholded component list of a term is the un-masked thresholded one (`PM.C03.evolveTermθ`) restricted to
the keys all of whose group outputs pass the mask. -/

def keyP (c : Cfg) (n : ℕ) (x : List Fock × GQ × ℚ) : Bool := keyOk c n x.1

theorem keyOk_snoc (c : Cfg) (n : ℕ) (K : List Fock) (t : Fock) :
    keyOk c n (K ++ [t]) = (keyOk c n K && ampFilter c n t t) := by
  simp [keyOk, List.all_append]

theorem groupEvolveFM_eq_filter {m : ℕ} (U : Matrix (Fin m) (Fin m) GQ) (c : Cfg) (n : ℕ) (s : Fock) :
    groupEvolveFM U c n s = (PM.C03.groupEvolveF U s).filter fun y => ampFilter c n s y.1 := by
  unfold groupEvolveFM PM.C03.groupEvolveF
  rw [List.filter_map]
  rfl

theorem mem_groupEvolveF_sum {m : ℕ} (U : Matrix (Fin m) (Fin m) GQ) (s : Fock) (y : Fock × GQ × ℚ)
    (hy : y ∈ PM.C03.groupEvolveF U s) : y.1.sum = s.sum := by
  simp only [PM.C03.groupEvolveF, List.mem_map] at hy
  obtain ⟨t, ht, rfl⟩ := hy
  exact ((mem_allStates_iff m s.sum t).1 ht).2

/-- products of two filtered lists = filtered products -/
theorem mergeAllF_filter (Pa : List Fock × GQ × ℚ → Bool) (Qb : Fock × GQ × ℚ → Bool)
    (P' : List Fock × GQ × ℚ → Bool) (b : List (Fock × GQ × ℚ)) : ∀ a : PM.C03.AmpsF,
    (∀ x ∈ a, ∀ y ∈ b, P' (x.1 ++ [y.1], x.2.1 * y.2.1, x.2.2 * y.2.2) = (Pa x && Qb y)) →
    PM.C03.mergeAllF (a.filter Pa) (b.filter Qb) = (PM.C03.mergeAllF a b).filter P'
  | [], _ => rfl
  | x :: r, h => by
    have ih := mergeAllF_filter Pa Qb P' b r (fun x' hx' => h x' (List.mem_cons_of_mem _ hx'))
    have hx := h x List.mem_cons_self
    have hrow : ∀ (b' : List (Fock × GQ × ℚ)), (∀ y ∈ b', y ∈ b) →
        ((b'.map fun y => (x.1 ++ [y.1], x.2.1 * y.2.1, x.2.2 * y.2.2)).filter P') =
          if Pa x then (b'.filter Qb).map fun y => (x.1 ++ [y.1], x.2.1 * y.2.1, x.2.2 * y.2.2) else [] := by
      intro b'
      induction b' with
      | nil => intro _; simp
      | cons y ys ihy =>
        intro hb
        have hy := hx y (hb y List.mem_cons_self)
        have ih' := ihy (fun z hz => hb z (List.mem_cons_of_mem _ hz))
        by_cases hpa : Pa x = true
        · simp only [hpa, if_true, Bool.true_and] at hy ih' ⊢
          by_cases hq : Qb y = true
          · simp only [List.map_cons, List.filter_cons, hy, hq, if_true, ih']
          · have hq' : Qb y = false := by simpa using hq
            simp only [List.map_cons, List.filter_cons, hy, hq', Bool.false_eq_true, if_false, ih']
        · have hpa' : Pa x = false := by simpa using hpa
          simp only [hpa', Bool.false_eq_true, if_false, Bool.false_and] at hy ih' ⊢
          simp only [List.map_cons, List.filter_cons, hy, Bool.false_eq_true, if_false, ih']
    have e2 : PM.C03.mergeAllF (x :: r) b =
        (b.map fun y => (x.1 ++ [y.1], x.2.1 * y.2.1, x.2.2 * y.2.2)) ++ PM.C03.mergeAllF r b := by
      simp [PM.C03.mergeAllF]
    rw [e2, List.filter_append, ← ih, hrow b (fun y hy => hy)]
    by_cases hpa : Pa x = true
    · simp only [List.filter_cons, hpa, if_true]
      simp [PM.C03.mergeAllF]
    · have hpa' : Pa x = false := by simpa using hpa
      simp only [List.filter_cons, hpa', Bool.false_eq_true, if_false, List.nil_append]

theorem stepθM_eq_filter {m : ℕ} (U : Matrix (Fin m) (Fin m) GQ) (c : Cfg) (n : ℕ) (thr : ℚ)
    (acc : PM.C03.AmpsF × Bool) (s : Fock) :
    stepθM U c n thr (acc.1.filter (keyP c n), acc.2) s =
      (((PM.C03.stepθ U thr acc s).1).filter (keyP c n), (PM.C03.stepθ U thr acc s).2) := by
  unfold stepθM PM.C03.stepθ
  have hmerge : PM.C03.mergeAllF (acc.1.filter (keyP c n)) (groupEvolveFM U c n s) =
      (PM.C03.mergeAllF acc.1 (PM.C03.groupEvolveF U s)).filter (keyP c n) := by
    rw [groupEvolveFM_eq_filter]
    apply mergeAllF_filter
    intro x _ y hy
    have hsum := mem_groupEvolveF_sum U s y hy
    simp only [keyP, keyOk_snoc]
    rw [ampFilter_congr c n hsum]
  by_cases hs : s.sum = 0
  · simp only [hs, if_true]
    congr 1
    rw [List.filter_map]
    congr 1
    apply List.filter_congr
    intro x _
    have hv : ampFilter c n s s = true := by simp [ampFilter, hs]
    simp [keyP, keyOk_snoc, hv]
  · simp only [hs, if_false]
    by_cases hb : acc.2 = true
    · simp only [hb, if_true]
      congr 1
      rw [PM.C03.mergeSVθ_eq_filter, PM.C03.mergeSVθ_eq_filter, hmerge, List.filter_filter, List.filter_filter]
      apply List.filter_congr
      intro z _
      exact Bool.and_comm _ _
    · have hb' : acc.2 = false := by simpa using hb
      simp only [hb', Bool.false_eq_true, if_false]
      congr 1

theorem foldl_stepθM_eq_filter {m : ℕ} (U : Matrix (Fin m) (Fin m) GQ) (c : Cfg) (n : ℕ) (thr : ℚ) :
    ∀ (gs : List Fock) (acc : PM.C03.AmpsF × Bool),
    gs.foldl (stepθM U c n thr) (acc.1.filter (keyP c n), acc.2) =
      (((gs.foldl (PM.C03.stepθ U thr) acc).1).filter (keyP c n), (gs.foldl (PM.C03.stepθ U thr) acc).2)
  | [], _ => rfl
  | s :: r, acc => by
    simp only [List.foldl_cons]
    rw [stepθM_eq_filter, foldl_stepθM_eq_filter U c n thr r (PM.C03.stepθ U thr acc s)]

/-- **mask_commutes_with_merge_threshold.**  The masked, thresholded components of a term are the thresholded
components of the un-masked computation whose group outputs all pass the mask — as lists, at every threshold. -/
theorem evolveTermθM_eq_filter {m : ℕ} (U : Matrix (Fin m) (Fin m) GQ) (c : Cfg) (n : ℕ) (thr : ℚ) (gs : List Fock) :
    evolveTermθM U c n thr gs = (PM.C03.evolveTermθ U thr gs).filter (keyP c n) := by
  rw [PM.C03.evolveTermθ_eq_foldl]
  have h := foldl_stepθM_eq_filter U c n thr gs ([([], 1, 1)], false)
  have e : (([([], 1, 1)] : PM.C03.AmpsF).filter (keyP c n)) = [([], 1, 1)] := by
    simp [keyP, keyOk]
  rw [e] at h
  unfold evolveTermθM
  rw [h]

/-! ### threshold 0 is the exact masked computation -/

theorem ampGet_strip_filter_key (c : Cfg) (n : ℕ) (K : List Fock) : ∀ a : PM.C03.AmpsF,
    PM.C03.ampGet (PM.C03.strip (a.filter (keyP c n))) K =
      if keyOk c n K then PM.C03.ampGet (PM.C03.strip a) K else 0
  | [] => by simp [PM.C03.strip, PM.C03.ampGet]
  | x :: r => by
    have ih := ampGet_strip_filter_key c n K r
    by_cases hx : keyP c n x = true
    · have e : (x :: r).filter (keyP c n) = x :: r.filter (keyP c n) := by simp [hx]
      rw [e]
      simp only [PM.C03.strip, List.map_cons] at ih ⊢
      rw [PM.C03.ampGet_cons', PM.C03.ampGet_cons', ih]
      by_cases hk : keyOk c n K = true
      · simp [hk]
      · have hne : ¬ x.1 = K := by
          intro e'
          apply hk
          rw [← e']
          exact hx
        simp [hk, hne]
    · have hx' : keyP c n x = false := by simpa using hx
      have e : (x :: r).filter (keyP c n) = r.filter (keyP c n) := by simp [hx']
      rw [e, ih]
      simp only [PM.C03.strip, List.map_cons]
      rw [PM.C03.ampGet_cons']
      by_cases hk : keyOk c n K = true
      · have hne : ¬ x.1 = K := by
          intro e'
          rw [← e'] at hk
          have : keyP c n x = true := hk
          rw [hx'] at this
          exact Bool.false_ne_true this
        simp [hk, hne]
      · simp [hk]

theorem ampGet_filter_key (c : Cfg) (n : ℕ) (K : List Fock) : ∀ l : List (List Fock × GQ),
    PM.C03.ampGet (l.filter fun p => keyOk c n p.1) K = if keyOk c n K then PM.C03.ampGet l K else 0
  | [] => by simp [PM.C03.ampGet]
  | x :: r => by
    have ih := ampGet_filter_key c n K r
    by_cases hx : keyOk c n x.1 = true
    · have e : (x :: r).filter (fun p => keyOk c n p.1) = x :: r.filter (fun p => keyOk c n p.1) := by simp [hx]
      rw [e, PM.C03.ampGet_cons', PM.C03.ampGet_cons', ih]
      by_cases hk : keyOk c n K = true
      · simp [hk]
      · have hne : ¬ x.1 = K := fun e' => hk (e' ▸ hx)
        simp [hk, hne]
    · have hx' : keyOk c n x.1 = false := by simpa using hx
      have e : (x :: r).filter (fun p => keyOk c n p.1) = r.filter (fun p => keyOk c n p.1) := by simp [hx']
      rw [e, ih, PM.C03.ampGet_cons']
      by_cases hk : keyOk c n K = true
      · have hne : ¬ x.1 = K := by
          intro e'
          rw [← e', hx'] at hk
          exact Bool.false_ne_true hk
        simp [hk, hne]
      · simp [hk]

theorem evolveTerm_eq_tuples {m : ℕ} (U : Matrix (Fin m) (Fin m) GQ) (gs : List Fock) :
    PM.C03.evolveTerm U gs = tuples U gs := by
  unfold PM.C03.evolveTerm
  rw [PM.C03.evolveTerm_from]
  simp

/-- at threshold 0 the masked fold produces, key by key, the amplitudes of the exact masked model -/
theorem evolveTermθM_zero {m : ℕ} (U : Matrix (Fin m) (Fin m) GQ) (c : Cfg) (n : ℕ) (gs : List Fock)
    (hl : ∀ s ∈ gs, s.length = m) :
    PM.C03.AEqv (PM.C03.strip (evolveTermθM U c n 0 gs)) (tuplesMasked U c n gs) := by
  intro K
  rw [evolveTermθM_eq_filter, ampGet_strip_filter_key, PM.C03.evolveTermθ_zero U gs hl K, evolveTerm_eq_tuples,
    tuplesMasked_eq_filter, ampGet_filter_key]

theorem ampsθM_zero {m : ℕ} (U : Matrix (Fin m) (Fin m) GQ) (c : Cfg) (w : ℚ) (n : ℕ) (n2 : ℚ) :
    ∀ (terms : List Term), (∀ t ∈ terms, ∀ s ∈ t.groups, s.length = m) →
    PM.C03.AEqv
      (terms.flatMap fun t =>
        (evolveTermθM U c n (0 / (10 * (PM.C03.termW t / n2) * w)) t.groups).map fun x => (x.1, t.coef * x.2.1))
      (terms.flatMap fun t => (tuplesMasked U c n t.groups).map fun p => (p.1, t.coef * p.2))
  | [], _ => fun _ => rfl
  | t :: r, hl => by
    intro K
    have ih := ampsθM_zero U c w n n2 r (fun t' ht' => hl t' (List.mem_cons_of_mem _ ht')) K
    simp only [List.flatMap_cons, PM.C03.ampGet_append]
    rw [ih, zero_div]
    congr 1
    have : ((evolveTermθM U c n 0 t.groups).map fun x => (x.1, t.coef * x.2.1)) =
        (PM.C03.strip (evolveTermθM U c n 0 t.groups)).map fun p => (p.1, t.coef * p.2) := by
      simp [PM.C03.strip, List.map_map, Function.comp_def]
    rw [this, PM.C03.ampGet_map_mul, PM.C03.ampGet_map_mul, evolveTermθM_zero U c n t.groups (hl t List.mem_cons_self) K]

/-- **threshold_zero_is_exact.**  With no threshold, the code-shaped thresholded model gives every outcome the
probability the exact masked model `memberGen` gives it -/
theorem memberGenθ_zero {m : ℕ} (U : Matrix (Fin m) (Fin m) GQ) (c : Cfg) (w : ℚ) (terms : List Term)
    (hl : ∀ t ∈ terms, ∀ s ∈ t.groups, s.length = m) (t : Fock) :
    get (memberGenθ U c 0 w terms) t = get (memberGen U c terms) t := by
  have h := ampsθM_zero U c w (svN terms) (svNorm2 terms) terms hl
  exact PM.C03.get_toBsd_congr m _ _ h (svNorm2 terms) t

/-! ### the thresholded computation against the exact masked model `probsSvdGen` -/

theorem mass_restrict_mix_congr (f : Fock → Bool) (p q : GMember → D) : ∀ l : List GMember,
    (∀ g ∈ l, ∀ t, get (p g) t = get (q g) t) →
    mass (restrict f (mix (l.map fun g => (g.w, p g)))) = mass (restrict f (mix (l.map fun g => (g.w, q g))))
  | [], _ => rfl
  | g :: r, h => by
    have ih := mass_restrict_mix_congr f p q r (fun x hx => h x (List.mem_cons_of_mem _ hx))
    have hg : Near [] (p g) (q g) := near_of_pointwise (fun t => by
      rw [h g List.mem_cons_self t, sub_self, abs_zero]; rfl)
    have := hg f
    have e0 : mass (restrict f ([] : D)) = 0 := rfl
    rw [e0] at this
    have heq : mass (restrict f (p g)) = mass (restrict f (q g)) := by
      have := abs_nonpos_iff.1 this
      linarith
    simp only [List.map_cons, mix_cons', restrict_append, mass_append, restrict_scale, mass_scale, ih, heq]

theorem AM_kept_map {m : ℕ} (U : Matrix (Fin m) (Fin m) GQ) (c : Cfg) (members : List GMember) :
    AM.kept c (members.map (toAM U c)) = (keptG c members).map (toAM U c) := by
  unfold AM.kept keptG
  rw [List.filter_map]
  rfl

theorem AM_res_eq {m : ℕ} (U : Matrix (Fin m) (Fin m) GQ) (c : Cfg) (members : List GMember) :
    AM.res c (members.map (toAM U c)) = mix ((keptG c members).map fun g => (g.w, memberGen U c g.terms)) := by
  unfold AM.res
  rw [AM_kept_map, List.map_map]
  rfl

/-- for every predicate, what is accumulated at precision `P` is within the error distribution of what the exact
masked model accumulates -/
theorem genResθ_near_exact {m : ℕ} (U : Matrix (Fin m) (Fin m) GQ) (P : Prec) (c : Cfg) (members : List GMember)
    (hw : ∀ g ∈ members, 0 ≤ g.w) (hl : ∀ g ∈ members, ∀ t ∈ g.terms, ∀ s ∈ t.groups, s.length = m) :
    Near (genErrD U P c members) (AM.res c (members.map (toAM U c))) (genResθ U P c members) := by
  intro f
  have h := genRes_near U P c members hw f
  have e : mass (restrict f (AM.res c (members.map (toAM U c)))) = mass (restrict f (genRes0 U c members)) := by
    rw [AM_res_eq]
    unfold genRes0
    apply mass_restrict_mix_congr
    intro g hg t
    exact (memberGenθ_zero U c g.w g.terms (hl g (mem_keptG hg)) t).symm
  rw [e]
  exact h

theorem NN_AM_res {m : ℕ} (U : Matrix (Fin m) (Fin m) GQ) (c : Cfg) (members : List GMember)
    (hw : ∀ g ∈ members, 0 ≤ g.w) : NN (AM.res c (members.map (toAM U c))) := by
  rw [AM_res_eq]
  exact NN_mix_map _ _ _ (fun g hg => hw g (mem_keptG hg)) (fun g _ => NN_memberGen U c g.terms)

theorem probsSvdGenθ_phys {m : ℕ} (U : Matrix (Fin m) (Fin m) GQ) (P : Prec) (c : Cfg) (members : List GMember) :
    (probsSvdGenθ U P c members).phys = (probsSvdGen U c members).phys := by
  unfold probsSvdGenθ probsSvdGen AM.out
  rw [finishSvd_phys, finishSvd_phys]

theorem probsSvdGenθ_logical_bound {m : ℕ} (U : Matrix (Fin m) (Fin m) GQ) (P : Prec) (c : Cfg)
    (members : List GMember) (hw : ∀ g ∈ members, 0 ≤ g.w)
    (hl : ∀ g ∈ members, ∀ t ∈ g.terms, ∀ s ∈ t.groups, s.length = m)
    (hphys : 0 < AM.phys c (members.map (toAM U c))) :
    |(probsSvdGenθ U P c members).logical - (probsSvdGen U c members).logical| ≤
      mass (restrict (logicOk (cond c)) (genErrD U P c members)) / AM.phys c (members.map (toAM U c)) :=
  finishSvd_near_logical c _ hphys _ _ _ (NN_AM_res U c members hw) (NN_genResθ U P c members hw)
    (genResθ_near_exact U P c members hw hl)

theorem probsSvdGenθ_results_bound {m : ℕ} (U : Matrix (Fin m) (Fin m) GQ) (P : Prec) (c : Cfg)
    (members : List GMember) (hw : ∀ g ∈ members, 0 ≤ g.w)
    (hl : ∀ g ∈ members, ∀ t ∈ g.terms, ∀ s ∈ t.groups, s.length = m)
    (h0 : mass (restrict (logicOk (cond c)) (AM.res c (members.map (toAM U c)))) ≠ 0)
    (hθ : mass (restrict (logicOk (cond c)) (genResθ U P c members)) ≠ 0) (t : Fock) :
    |get (probsSvdGenθ U P c members).results t - get (probsSvdGen U c members).results t| ≤
      (get (mapKeys (reported (cond c)) (restrict (logicOk (cond c)) (genErrD U P c members))) t +
        get (probsSvdGen U c members).results t * mass (restrict (logicOk (cond c)) (genErrD U P c members))) /
      mass (restrict (logicOk (cond c)) (genResθ U P c members)) :=
  finishSvd_near_results c _ _ _ _ (NN_AM_res U c members hw) (NN_genResθ U P c members hw)
    (NN_genErrD U P c members hw) (genResθ_near_exact U P c members hw hl) h0 hθ t

end PM.C04
