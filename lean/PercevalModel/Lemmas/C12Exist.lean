/-
  C12 — existence of block parameters nulling the entry `decompose_triangle` targets, for the two blocks the
  elimination scheme is documented with (`Model/C12Block.lean`): algebra over any commutative ring, then the
  instantiation over ℂ with `Real.cos`, `Real.sin`, `Complex.exp`, `Complex.arg`, `Real.arctan`.
-/
import PercevalModel.Model.C12Block
import PercevalModel.Model.C12Solve
import Mathlib.Analysis.SpecialFunctions.Complex.Arg
import Mathlib.Analysis.SpecialFunctions.Trigonometric.Arctan
import Mathlib.Tactic.LinearCombination
import Mathlib.Tactic.FinCases
import Mathlib.Tactic.FieldSimp

open Matrix

namespace PM.C12

section algebra
variable {R : Type} [CommRing R]

theorem bsPs_eq_bsPsMat (i c s p : R) : bsPs i c s p = bsPsMat i c s p := by
  ext a b
  fin_cases a <;> fin_cases b <;> simp [bsPs, bsPsMat, psTop, bsRx, Matrix.mul_apply, Fin.sum_univ_two]

theorem bsPsInv_mul_bsPsMat {i c s p q : R} (hi : i * i = -1) (hcs : c * c + s * s = 1) (hpq : p * q = 1) :
    bsPsInv i c s q * bsPsMat i c s p = 1 := by
  ext a b
  fin_cases a <;> fin_cases b <;>
    simp [bsPsInv, bsPsMat, Matrix.mul_apply, Fin.sum_univ_two]
  · linear_combination c * c * hpq - s * s * hi + hcs
  · linear_combination i * s * c * hpq
  · linear_combination -(i * s * c) * hpq
  · linear_combination -(s * s * p * q) * hi + s * s * hpq + hcs

theorem bsPsMat_mul_bsPsInv {i c s p q : R} (hi : i * i = -1) (hcs : c * c + s * s = 1) (hpq : p * q = 1) :
    bsPsMat i c s p * bsPsInv i c s q = 1 := by
  ext a b
  fin_cases a <;> fin_cases b <;>
    simp [bsPsInv, bsPsMat, Matrix.mul_apply, Fin.sum_univ_two]
  · linear_combination (c * c - i * i * s * s) * hpq - s * s * hi + hcs
  · linear_combination 0 * hi
  · linear_combination 0 * hi
  · linear_combination -(s * s) * hi + hcs

theorem nullEq_bsPsInv (i c s q a b : R) : nullEq (bsPsInv i c s q) a b = c * q * a - i * s * b := by
  simp [nullEq, bsPsInv]
  ring

/-- the algebraic heart of the existence clause for `BS(theta) // PS(phi)`: with `a = ra·ea`, `b = rb·eb` (polar
forms), `cos(θ/2)·ra = sin(θ/2)·rb` and `e^{-iφ}·ea = i·eb` the equation vanishes -/
theorem bsPs_null_alg {i c s q a b ra ea rb eb : R} (ha : a = ra * ea) (hb : b = rb * eb)
    (hmod : c * ra = s * rb) (hph : q * ea = i * eb) : nullEq (bsPsInv i c s q) a b = 0 := by
  rw [nullEq_bsPsInv, ha, hb]
  linear_combination (c * ra) * hph + (i * eb) * hmod

theorem mziLast_eq_mziMat {i r h ea eb : R} (hi : i * i = -1) (hh : h = r * r) :
    mziLast i r ea eb = mziMat i h ea eb := by
  subst hh
  ext a b
  fin_cases a <;> fin_cases b <;>
    simp [mziLast, mziMat, psBot, bsRx, Matrix.mul_apply, Fin.sum_univ_two]
  · linear_combination (r * r * ea) * hi
  · ring
  · ring
  · linear_combination (eb * r * r) * hi

theorem mziInv_mul_mziMat {i h ea eb fa fb : R} (hi : i * i = -1) (h2 : 2 * h = 1) (ha : ea * fa = 1)
    (hb : eb * fb = 1) : mziInv i h fa fb * mziMat i h ea eb = 1 := by
  have h4 : 4 * (h * h) = 1 := by linear_combination (2 * h + 1) * h2
  ext a b
  fin_cases a <;> fin_cases b <;>
    simp [mziInv, mziMat, Matrix.mul_apply, Fin.sum_univ_two]
  · linear_combination (-(h * h * (1 + fa) * (1 + ea) * fb * eb)) * hi +
      (h * h * (1 + fa) * (1 + ea)) * hb + (2 * (h * h)) * ha + h4
  · linear_combination (-(i * h * h * (1 + fa) * (ea - 1))) * hb - (2 * i * h * h) * ha
  · linear_combination (i * h * h * (fa - 1) * (1 + ea)) * hb + (2 * i * h * h) * ha
  · linear_combination (-(h * h * (1 + fa) * (1 + ea))) * hi + (h * h * (fa - 1) * (ea - 1)) * hb +
      (2 * (h * h)) * ha + h4

theorem nullEq_mziInv (i h fa fb a b : R) :
    nullEq (mziInv i h fa fb) a b = h * (1 - fa) * a - i * h * (1 + fa) * fb * b := by
  simp [nullEq, mziInv]
  ring

/-- the algebraic heart of the existence clause for the MZI: with `e^{-iφ_a} = (c - i·s)²` (`c = cos φ_a/2`,
`s = sin φ_a/2`), `a = ra·ea`, `b = rb·eb`, `s·ra = c·rb` and `e^{-iφ_b}·eb = ea` the equation vanishes -/
theorem mzi_null_alg {i h c s fa fb a b ra ea rb eb : R} (hi : i * i = -1) (hcs : c * c + s * s = 1)
    (hfa : fa = (c - i * s) * (c - i * s)) (ha : a = ra * ea) (hb : b = rb * eb)
    (hmod : s * ra = c * rb) (hph : fb * eb = ea) : nullEq (mziInv i h fa fb) a b = 0 := by
  have h1 : 1 - fa = 2 * s * (s + i * c) := by
    rw [hfa]; linear_combination -hcs - (s * s) * hi
  have h2 : 1 + fa = 2 * c * (c - i * s) := by
    rw [hfa]; linear_combination -hcs + (s * s) * hi
  have h3 : s + i * c = i * (c - i * s) := by linear_combination s * hi
  rw [nullEq_mziInv, h1, h2, h3, ha, hb]
  linear_combination (-(2 * h * i * (c - i * s) * c * rb)) * hph + (2 * h * i * (c - i * s) * ea) * hmod

end algebra

/-! ### `firstSome` / `solve` on an unrestricted constraint -/

open Solve in
theorem firstSome_replicate_none {α : Type} (k : ℕ) : firstSome (List.replicate k (none : Option α)) = none := by
  induction k with
  | zero => rfl
  | succ k ih => simp [List.replicate_succ, firstSome, ih]

open Solve in
/-- with the unrestricted constraint `(None, …, None)` and at least one parameter, `solve` hands back whatever the
minimiser returns as soon as `f` is within the precision there -/
theorem solve_free_accepts {α β : Type} [AddGroup β] [LinearOrder β] (opt : (List α → β) → List α → List α)
    (prec : β) (f : List α → β) (x0 : List α) (hx0 : x0 ≠ []) (k : ℕ) (hroot : f (opt f x0) ≤ prec) :
    solve opt false prec f x0 (List.replicate k none) = some (opt f x0) := by
  have he : x0.isEmpty = false := by
    cases x0 with
    | nil => exact absurd rfl hx0
    | cons _ _ => rfl
  rw [solve]
  simp only [he, Bool.false_eq_true, false_and, if_false]
  split
  · rename_i i c hfs
    rw [firstSome_replicate_none] at hfs
    cases hfs
  · simp [not_lt.2 hroot]

/-! ### over ℂ -/

section complex
open Complex

/-- `BS(theta) // PS(phi)` as built, at real parameter values -/
noncomputable def bsPsC (θ φ : ℝ) : Matrix (Fin 2) (Fin 2) ℂ :=
  bsPs I ((Real.cos (θ / 2) : ℝ) : ℂ) ((Real.sin (θ / 2) : ℝ) : ℂ) (exp ((φ : ℂ) * I))

/-- its `cU_inv` -/
noncomputable def bsPsInvC (θ φ : ℝ) : Matrix (Fin 2) (Fin 2) ℂ :=
  bsPsInv I ((Real.cos (θ / 2) : ℝ) : ℂ) ((Real.sin (θ / 2) : ℝ) : ℂ) (exp (-((φ : ℂ) * I)))

theorem cos_sin_cast (x : ℝ) :
    ((Real.cos x : ℝ) : ℂ) * ((Real.cos x : ℝ) : ℂ) + ((Real.sin x : ℝ) : ℂ) * ((Real.sin x : ℝ) : ℂ) = 1 := by
  have h : Real.cos x * Real.cos x + Real.sin x * Real.sin x = 1 := by
    have := Real.cos_sq_add_sin_sq x
    rw [sq, sq] at this
    exact this
  exact_mod_cast h

theorem exp_mul_exp_neg (z : ℂ) : exp z * exp (-z) = 1 := by
  rw [← Complex.exp_add, add_neg_cancel, Complex.exp_zero]

theorem bsPsInvC_mul_bsPsC (θ φ : ℝ) : bsPsInvC θ φ * bsPsC θ φ = 1 := by
  unfold bsPsInvC bsPsC
  rw [bsPs_eq_bsPsMat]
  exact bsPsInv_mul_bsPsMat Complex.I_mul_I (cos_sin_cast _) (exp_mul_exp_neg _)

theorem bsPsC_mul_bsPsInvC (θ φ : ℝ) : bsPsC θ φ * bsPsInvC θ φ = 1 := by
  unfold bsPsInvC bsPsC
  rw [bsPs_eq_bsPsMat]
  exact bsPsMat_mul_bsPsInv Complex.I_mul_I (cos_sin_cast _) (exp_mul_exp_neg _)

/-- closed-form solution, beam-splitter angle: from the moduli only -/
noncomputable def bsPsTheta (a b : ℂ) : ℝ := if b = 0 then Real.pi else 2 * Real.arctan (‖a‖ / ‖b‖)

/-- closed-form solution, phase: from the arguments only -/
noncomputable def bsPsPhi (a b : ℂ) : ℝ := arg a - arg b - Real.pi / 2

theorem arctan_modulus {x y : ℝ} (hy : y ≠ 0) :
    Real.cos (Real.arctan (x / y)) * x = Real.sin (Real.arctan (x / y)) * y := by
  rw [Real.cos_arctan, Real.sin_arctan]
  have hpos : 0 < √(1 + (x / y) ^ 2) := Real.sqrt_pos.2 (by positivity)
  field_simp

theorem bsPs_modulus (a b : ℂ) :
    Real.cos (bsPsTheta a b / 2) * ‖a‖ = Real.sin (bsPsTheta a b / 2) * ‖b‖ := by
  unfold bsPsTheta
  split_ifs with hb
  · subst hb
    simp [Real.cos_pi_div_two]
  · have hb' : ‖b‖ ≠ 0 := norm_ne_zero_iff.2 hb
    have e : 2 * Real.arctan (‖a‖ / ‖b‖) / 2 = Real.arctan (‖a‖ / ‖b‖) := by ring
    rw [e]
    exact arctan_modulus hb'

theorem bsPs_nulls' (a b : ℂ) : nullEq (bsPsInvC (bsPsTheta a b) (bsPsPhi a b)) a b = 0 := by
  unfold bsPsInvC
  apply bsPs_null_alg (ra := ((‖a‖ : ℝ) : ℂ)) (ea := exp ((arg a : ℂ) * I)) (rb := ((‖b‖ : ℝ) : ℂ))
    (eb := exp ((arg b : ℂ) * I))
  · exact (norm_mul_exp_arg_mul_I a).symm
  · exact (norm_mul_exp_arg_mul_I b).symm
  · exact_mod_cast bsPs_modulus a b
  · rw [← Complex.exp_add]
    have e : -(((bsPsPhi a b : ℝ) : ℂ) * I) + (arg a : ℂ) * I = (Real.pi : ℂ) / 2 * I + (arg b : ℂ) * I := by
      unfold bsPsPhi
      push_cast
      ring
    rw [e, Complex.exp_add, Complex.exp_pi_div_two_mul_I]

/-- `catalog['mzi phase last']` as built (`BS(theta = π/2)`: `cos π/4 = sin π/4`) at real parameter values -/
noncomputable def mziC (φa φb : ℝ) : Matrix (Fin 2) (Fin 2) ℂ :=
  mziLast I ((Real.cos (Real.pi / 4) : ℝ) : ℂ) (exp ((φa : ℂ) * I)) (exp ((φb : ℂ) * I))

/-- its `cU_inv` -/
noncomputable def mziInvC (φa φb : ℝ) : Matrix (Fin 2) (Fin 2) ℂ :=
  mziInv I (1 / 2) (exp (-((φa : ℂ) * I))) (exp (-((φb : ℂ) * I)))

theorem cos_pi_div_four_sq : ((1 / 2 : ℂ)) =
    ((Real.cos (Real.pi / 4) : ℝ) : ℂ) * ((Real.cos (Real.pi / 4) : ℝ) : ℂ) := by
  have h : (1 / 2 : ℝ) = Real.cos (Real.pi / 4) * Real.cos (Real.pi / 4) := by
    rw [Real.cos_pi_div_four]
    have := Real.mul_self_sqrt (show (0 : ℝ) ≤ 2 by norm_num)
    nlinarith
  have h' := congrArg Complex.ofReal h
  push_cast at h' ⊢
  linear_combination h'

theorem mziC_eq_mziMat (φa φb : ℝ) :
    mziC φa φb = mziMat I (1 / 2) (exp ((φa : ℂ) * I)) (exp ((φb : ℂ) * I)) :=
  mziLast_eq_mziMat Complex.I_mul_I cos_pi_div_four_sq

theorem mziInvC_mul_mziC (φa φb : ℝ) : mziInvC φa φb * mziC φa φb = 1 := by
  rw [mziC_eq_mziMat]
  unfold mziInvC
  exact mziInv_mul_mziMat Complex.I_mul_I (by norm_num) (exp_mul_exp_neg _) (exp_mul_exp_neg _)

/-- closed-form solution, inner phase of the MZI: from the moduli only -/
noncomputable def mziPhiA (a b : ℂ) : ℝ := if a = 0 then Real.pi else 2 * Real.arctan (‖b‖ / ‖a‖)

/-- closed-form solution, outer phase of the MZI: from the arguments only -/
noncomputable def mziPhiB (a b : ℂ) : ℝ := arg b - arg a

theorem mzi_modulus (a b : ℂ) :
    Real.sin (mziPhiA a b / 2) * ‖a‖ = Real.cos (mziPhiA a b / 2) * ‖b‖ := by
  unfold mziPhiA
  split_ifs with ha
  · subst ha
    simp [Real.cos_pi_div_two]
  · have ha' : ‖a‖ ≠ 0 := norm_ne_zero_iff.2 ha
    have e : 2 * Real.arctan (‖b‖ / ‖a‖) / 2 = Real.arctan (‖b‖ / ‖a‖) := by ring
    rw [e]
    exact (arctan_modulus ha').symm

theorem exp_neg_eq_half_sq (φ : ℝ) :
    exp (-((φ : ℂ) * I)) =
      (((Real.cos (φ / 2) : ℝ) : ℂ) - I * ((Real.sin (φ / 2) : ℝ) : ℂ)) *
        (((Real.cos (φ / 2) : ℝ) : ℂ) - I * ((Real.sin (φ / 2) : ℝ) : ℂ)) := by
  have h1 : exp (-((φ : ℂ) * I)) = exp (((-(φ / 2) : ℝ) : ℂ) * I) * exp (((-(φ / 2) : ℝ) : ℂ) * I) := by
    rw [← Complex.exp_add]
    congr 1
    push_cast
    ring
  have h2 : exp (((-(φ / 2) : ℝ) : ℂ) * I) =
      ((Real.cos (φ / 2) : ℝ) : ℂ) - I * ((Real.sin (φ / 2) : ℝ) : ℂ) := by
    rw [Complex.exp_mul_I, ← Complex.ofReal_cos, ← Complex.ofReal_sin, Real.cos_neg, Real.sin_neg]
    push_cast
    ring
  rw [h1, h2]

theorem mzi_nulls' (a b : ℂ) : nullEq (mziInvC (mziPhiA a b) (mziPhiB a b)) a b = 0 := by
  unfold mziInvC
  apply mzi_null_alg (c := ((Real.cos (mziPhiA a b / 2) : ℝ) : ℂ)) (s := ((Real.sin (mziPhiA a b / 2) : ℝ) : ℂ))
    (ra := ((‖a‖ : ℝ) : ℂ)) (ea := exp ((arg a : ℂ) * I)) (rb := ((‖b‖ : ℝ) : ℂ)) (eb := exp ((arg b : ℂ) * I))
    Complex.I_mul_I (cos_sin_cast _) (exp_neg_eq_half_sq _)
  · exact (norm_mul_exp_arg_mul_I a).symm
  · exact (norm_mul_exp_arg_mul_I b).symm
  · exact_mod_cast mzi_modulus a b
  · rw [← Complex.exp_add]
    congr 1
    unfold mziPhiB
    push_cast
    ring

end complex

end PM.C12
