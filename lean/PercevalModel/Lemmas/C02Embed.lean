/-
  C02 — spectator factorisation of Fock amplitudes: a component `B` on `k` modes embedded in an
  `m`-mode circuit (`PM.place g B`, contiguous case `PM.embed m o B`) acts on the photons of its own
  modes as `B` alone does and leaves the other modes alone:

    ⟨t|embed m o B|s⟩ = [t = s outside o..o+k-1] · (∏_{outside} sⱼ!) · ⟨t[o:o+k]|B|s[o:o+k]⟩

  This file is a verbatim copy (other namespace, `localOn_place`, `pamp_place_of_le_one` and the
  examples dropped) of the proved part of `Lemmas/C20Lift.lean`, which cannot be imported here
  because it depends on `Props/C02.lean`.  Everything stated here is proved; any `CommRing`.
-/
import PercevalModel.Lemmas.FockComp
import Mathlib.GroupTheory.Perm.Finite
import Mathlib.Data.Matrix.Block
import Mathlib.Logic.Equiv.Sum

open Matrix Finset Equiv

namespace PM.C02.Embed
open PM.Fock PM.FockComp

set_option linter.unusedSectionVars false

section abstract
variable {R : Type*} [CommRing R]
variable {α β κ κ' ι : Type*} [Fintype α] [DecidableEq α] [Fintype β] [DecidableEq β]
  [Fintype κ] [DecidableEq κ] [Fintype κ'] [DecidableEq κ'] [Fintype ι] [DecidableEq ι]

/-- the permanent of a block-triangular matrix is the product of the permanents of the diagonal
blocks -/
theorem permanent_fromBlocks_zero₂₁ (A : Matrix α α R) (B : Matrix α β R) (D : Matrix β β R) :
    permanent (fromBlocks A B 0 D) = permanent A * permanent D := by
  unfold permanent
  rw [Finset.sum_mul_sum, ← Finset.sum_product', Finset.univ_product_univ]
  symm
  rw [← Finset.sum_subset (Finset.subset_univ
    (Finset.univ.image fun p : Perm α × Perm β => p.1.sumCongr p.2))]
  · rw [Finset.sum_image]
    · refine Finset.sum_congr rfl fun p _ => ?_
      rw [Fintype.prod_sum_type]
      simp only [Equiv.sumCongr_apply, Sum.map_inl, Sum.map_inr, fromBlocks_apply₁₁,
        fromBlocks_apply₂₂]
    · intro p _ p' _ h
      have h2 : ∀ x, Perm.sumCongr p.1 p.2 x = Perm.sumCongr p'.1 p'.2 x := DFunLike.congr_fun h
      simp only [Sum.map_inr, Sum.map_inl, Perm.sumCongr_apply, Sum.forall, Sum.inl.injEq,
        Sum.inr.injEq] at h2
      ext x
      · exact h2.left x
      · exact h2.right x
  · intro σ _ hσ
    have h1 : ¬ Set.MapsTo σ (Set.range Sum.inl) (Set.range Sum.inl) := by
      intro hm
      obtain ⟨p, hp⟩ := MonoidHom.mem_range.1 (Equiv.Perm.mem_sumCongrHom_range_of_perm_mapsTo_inl hm)
      exact hσ (Finset.mem_image.2 ⟨p, Finset.mem_univ _, hp⟩)
    have h2 : ∃ a, ∀ a', σ (Sum.inl a) ≠ Sum.inl a' := by
      by_contra hcon
      apply h1
      rintro _ ⟨a, rfl⟩
      by_contra hn
      exact hcon ⟨a, fun a' h => hn ⟨a', h.symm⟩⟩
    obtain ⟨a, ha⟩ := h2
    rcases hx : σ (Sum.inl a) with a2 | b
    · exact absurd hx (ha a2)
    · rw [Finset.prod_eq_zero (Finset.mem_univ (Sum.inl a))]
      rw [hx, fromBlocks_apply₂₁, zero_apply]

theorem occ_sumElim (u : α → ι) (v : β → ι) (a : ι) :
    occ (Sum.elim u v) a = occ u a + occ v a := by
  unfold occ
  rw [Fintype.card_congr (Equiv.subtypeSum), Fintype.card_sum]
  rfl

theorem occ_comp_equiv (e : κ ≃ κ') (u : κ' → ι) : occ (u ∘ e) = occ u := by
  funext a
  exact Fintype.card_congr (e.subtypeEquiv fun i => Iff.rfl)

theorem permanent_submatrix_of_occ_eq_rows (A : Matrix ι ι R) {f f' : κ → ι} (c : κ → ι)
    (h : occ f = occ f') : permanent (A.submatrix f c) = permanent (A.submatrix f' c) := by
  rw [← permanent_transpose, ← permanent_transpose (A.submatrix f' c), transpose_submatrix,
    transpose_submatrix]
  exact permanent_submatrix_of_occ_eq Aᵀ c h

/-- the permanent of `M[r|c]` only depends on the occupations of `r` and `c`, whatever the type
indexing the photons -/
theorem permanent_submatrix_congr_occ (M : Matrix ι ι R) (r c : κ → ι) (r' c' : κ' → ι)
    (hr : occ r = occ r') (hc : occ c = occ c') :
    permanent (M.submatrix r c) = permanent (M.submatrix r' c') := by
  let e : κ ≃ κ' := Equiv.ofFiberEquiv (f := c) (g := c')
    (fun a => Classical.choice (Fintype.card_eq.1 (congrFun hc a)))
  have he : c' ∘ e = c := funext fun i => Equiv.ofFiberEquiv_map _ i
  rw [← permanent_submatrix_equiv_self e (M.submatrix r' c'), submatrix_submatrix, he]
  exact permanent_submatrix_of_occ_eq_rows M c (by rw [occ_comp_equiv, hr])

/-- the permanent of the `0/1` matrix `[q i = q j]` is `∏ₐ (occ q a)!` -/
theorem permanent_eqMatrix (q : κ → ι) :
    permanent (Matrix.of fun i j : κ => if q i = q j then (1 : R) else 0) = (stab q : R) := by
  have key := card_perm_comp_eq q q
  rw [if_pos rfl] at key
  rw [← key]
  unfold permanent
  simp only [of_apply, Finset.prod_ite_zero, Finset.prod_const_one]
  rw [Finset.sum_boole]
  congr 2
  refine Finset.filter_congr fun σ _ => ?_
  constructor
  · intro h; funext i; exact h i (mem_univ i)
  · intro h i _; exact congrFun h i

theorem occ_restrict (c : κ → ι) (P : ι → Prop) [DecidablePred P] (a : ι) :
    occ (fun i : {i // P (c i)} => c i.val) a = if P a then occ c a else 0 := by
  unfold occ
  split_ifs with h
  · apply Fintype.card_congr
    exact
      { toFun := fun x => ⟨x.1.1, x.2⟩
        invFun := fun x => ⟨⟨x.1, by rw [x.2]; exact h⟩, x.2⟩
        left_inv := fun _ => rfl
        right_inv := fun _ => rfl }
  · rw [Fintype.card_eq_zero_iff]
    exact ⟨fun x => h (x.2 ▸ x.1.2)⟩

theorem not_of_occ_eq_zero {P : ι → Prop} (u : κ → ι) (h : ∀ a, P a → occ u a = 0) (i : κ) :
    ¬ P (u i) := by
  intro hp
  have := h (u i) hp
  unfold occ at this
  rw [Fintype.card_eq_zero_iff] at this
  exact this.false ⟨i, rfl⟩

/-- **spectator factorisation, abstract form.**  `M` is the identity on every row and column
of a *spectator* mode (`P`); `r`, `c` assign the photons (`κ`) of the output and of the input to
modes; `r'`, `c'` (photons `κ'`) have the occupations of `r`, `c` with the spectator modes
emptied.  If `r` and `c` agree on the spectator modes, the permanent factorises. -/
theorem permanent_spectator (M : Matrix ι ι R) (P : ι → Prop) [DecidablePred P]
    (hM : ∀ a b, P a ∨ P b → M a b = if a = b then 1 else 0)
    (r c : κ → ι) (r' c' : κ' → ι)
    (hr' : ∀ a, occ r' a = if P a then 0 else occ r a)
    (hc' : ∀ a, occ c' a = if P a then 0 else occ c a)
    (hagree : ∀ a, P a → occ r a = occ c a) :
    permanent (M.submatrix r c) =
      ((∏ a with P a, (occ c a).factorial : ℕ) : R) * permanent (M.submatrix r' c') := by
  set q : {i // P (c i)} → ι := fun i => c i.val with hq
  have hoq : ∀ a, occ q a = if P a then occ c a else 0 := occ_restrict c P
  have hR : occ r = occ (Sum.elim r' q) := by
    funext a
    rw [occ_sumElim, hr', hoq]
    by_cases h : P a
    · rw [if_pos h, if_pos h, zero_add, hagree a h]
    · rw [if_neg h, if_neg h, add_zero]
  have hC : occ c = occ (Sum.elim c' q) := by
    funext a
    rw [occ_sumElim, hc', hoq]
    by_cases h : P a
    · rw [if_pos h, if_pos h, zero_add]
    · rw [if_neg h, if_neg h, add_zero]
  rw [permanent_submatrix_congr_occ M r c _ _ hR hC]
  have hnc : ∀ i, ¬ P (c' i) :=
    not_of_occ_eq_zero c' fun a ha => by rw [hc', if_pos ha]
  have hblock : M.submatrix (Sum.elim r' q) (Sum.elim c' q) =
      fromBlocks (M.submatrix r' c') (M.submatrix r' q) 0
        (Matrix.of fun i j => if q i = q j then (1 : R) else 0) := by
    ext (i | i) (j | j)
    · rfl
    · rfl
    · show M (q i) (c' j) = 0
      rw [hM _ _ (Or.inl i.2), if_neg]
      intro h
      exact hnc j (h ▸ i.2)
    · show M (q i) (q j) = _
      rw [hM _ _ (Or.inl i.2)]
      rfl
  rw [hblock, permanent_fromBlocks_zero₂₁, permanent_eqMatrix, mul_comm]
  congr 2
  unfold stab
  rw [Finset.prod_filter]
  refine Finset.prod_congr rfl fun a _ => ?_
  rw [hoq]
  split_ifs <;> rfl

/-- if the spectator occupations differ the permanent vanishes -/
theorem permanent_spectator_zero (M : Matrix ι ι R) (P : ι → Prop)
    (hM : ∀ a b, P a ∨ P b → M a b = if a = b then 1 else 0)
    (r c : κ → ι) (a : ι) (ha : P a) (hne : occ r a ≠ occ c a) :
    permanent (M.submatrix r c) = 0 := by
  unfold permanent
  refine Finset.sum_eq_zero fun σ _ => ?_
  by_contra hσ
  have hfac : ∀ i, M (r (σ i)) (c i) ≠ 0 := fun i h0 =>
    hσ (Finset.prod_eq_zero (Finset.mem_univ i) h0)
  apply hne
  symm
  unfold occ
  apply Fintype.card_congr
  refine σ.subtypeEquiv fun i => ?_
  have h1 := hfac i
  constructor
  · intro hi
    by_contra hcon
    apply h1
    rw [hM _ _ (Or.inr (by rw [hi]; exact ha)), if_neg]
    intro heq
    exact hcon (by rw [heq, hi])
  · intro hi
    by_contra hcon
    apply h1
    rw [hM _ _ (Or.inl (by rw [hi]; exact ha)), if_neg]
    intro heq
    exact hcon (by rw [← heq, hi])

end abstract

section concrete
variable {R : Type*} [CommRing R]

theorem pamp_zero_of_sum_ne' {m : ℕ} (U : Matrix (Fin m) (Fin m) R) (s t : List ℕ)
    (h : s.sum ≠ t.sum) : pamp U s t = 0 := by
  simp [pamp, h]

theorem occ_comp_injective {κ ι ι' : Type*} [Fintype κ] [DecidableEq ι] [DecidableEq ι']
    (f : ι' → ι) (hf : Function.Injective f) (u : κ → ι') (b : ι') :
    occ (f ∘ u) (f b) = occ u b :=
  Fintype.card_congr (Equiv.subtypeEquivRight fun _ => hf.eq_iff)

theorem occ_comp_of_not_range {κ ι ι' : Type*} [Fintype κ] [DecidableEq ι]
    (f : ι' → ι) (u : κ → ι') (a : ι) (h : ∀ b, f b ≠ a) : occ (f ∘ u) a = 0 := by
  unfold occ
  rw [Fintype.card_eq_zero_iff]
  exact ⟨fun x => h _ x.2⟩

/-- `place g B` is the identity on the rows and columns of the modes that `g` does not select -/
theorem place_spectator {k m : ℕ} (g : Fin m → Option (Fin k)) (B : Matrix (Fin k) (Fin k) R)
    (a b : Fin m) (h : g a = none ∨ g b = none) :
    PM.place g B a b = if a = b then 1 else 0 := by
  unfold PM.place
  rcases h with h | h
  · rw [h]
    cases hb : g b with
    | none => rfl
    | some y =>
      show (0 : R) = _
      rw [if_neg]
      intro e; rw [e, hb] at h; exact absurd h (Option.some_ne_none _)
  · rw [h]
    cases ha : g a with
    | none => rfl
    | some x =>
      show (0 : R) = _
      rw [if_neg]
      intro e; rw [← e, ha] at h; exact absurd h (Option.some_ne_none _)

theorem place_submatrix_comp {k m : ℕ} {κ κ' : Type*} (f : Fin k → Fin m)
    (g : Fin m → Option (Fin k)) (hfg : Function.IsPartialInv f g) (B : Matrix (Fin k) (Fin k) R)
    (u : κ → Fin k) (v : κ' → Fin k) :
    (PM.place g B).submatrix (f ∘ u) (f ∘ v) = B.submatrix u v := by
  have hgf : ∀ a, g (f a) = some a := fun a => (hfg a (f a)).2 rfl
  ext i j
  simp only [submatrix_apply, Function.comp_apply, PM.place, hgf]

theorem lift_sum_fin_getD (t : List ℕ) {m : ℕ} (ht : t.length = m) :
    ∑ j : Fin m, t.getD j.val 0 = t.sum := by
  subst ht
  have h := Fin.sum_univ_fun_getElem t id
  rw [List.map_id] at h
  rw [← h]
  refine Finset.sum_congr rfl fun j _ => ?_
  rw [List.getD_eq_getElem?_getD, List.getElem?_eq_getElem j.isLt, Option.getD_some]
  rfl

/-- splitting a sum over the modes into the spectators and the block -/
theorem sum_split_partialInv {k m : ℕ} (f : Fin k → Fin m) (g : Fin m → Option (Fin k))
    (hfg : Function.IsPartialInv f g) (F : Fin m → ℕ) :
    ∑ j, F j = ∑ j with g j = none, F j + ∑ a, F (f a) := by
  rw [← Finset.sum_filter_add_sum_filter_not Finset.univ (fun j => g j = none) F]
  congr 1
  have himg : (Finset.univ.filter fun j => ¬ g j = none) = Finset.univ.image f := by
    ext j
    simp only [Finset.mem_filter, Finset.mem_univ, true_and, Finset.mem_image]
    constructor
    · intro h
      cases hgj : g j with
      | none => exact absurd hgj h
      | some a => exact ⟨a, (hfg a j).1 hgj⟩
    · rintro ⟨a, rfl⟩ h
      rw [(hfg a (f a)).2 rfl] at h
      exact absurd h (Option.some_ne_none _)
  rw [himg, Finset.sum_image (fun a _ b _ h => hfg.injective h)]

/-- the state `s` restricted to the modes selected by `f` -/
def restr {k m : ℕ} (f : Fin k → Fin m) (s : List ℕ) : List ℕ :=
  List.ofFn fun a : Fin k => s.getD (f a).val 0

@[simp] theorem restr_length {k m : ℕ} (f : Fin k → Fin m) (s : List ℕ) :
    (restr f s).length = k := by simp [restr]

theorem restr_getD {k m : ℕ} (f : Fin k → Fin m) (s : List ℕ) (a : Fin k) :
    (restr f s).getD a.val 0 = s.getD (f a).val 0 := by
  have h : a.val < (restr f s).length := by rw [restr_length]; exact a.isLt
  rw [List.getD_eq_getElem?_getD, List.getElem?_eq_getElem h, Option.getD_some]
  simp [restr]

theorem restr_sum {k m : ℕ} (f : Fin k → Fin m) (g : Fin m → Option (Fin k))
    (hfg : Function.IsPartialInv f g) (s : List ℕ) (hs : s.length = m) :
    s.sum = ∑ j with g j = none, s.getD j.val 0 + (restr f s).sum := by
  rw [← lift_sum_fin_getD s hs, sum_split_partialInv f g hfg, restr, List.sum_ofFn]

/-- **spectator factorisation of Fock amplitudes.**  A gate `B` on `k` modes placed on the modes
`f 0, …, f (k-1)` of an `m`-mode circuit: the amplitude between `s` and `t` vanishes unless every
other mode keeps its photons, and then it is the amplitude of `B` alone between the restricted
states, times `∏ sⱼ!` over the spectator modes (the un-normalised amplitude of the identity). -/
theorem pamp_place {k m : ℕ} (f : Fin k → Fin m) (g : Fin m → Option (Fin k))
    (hfg : Function.IsPartialInv f g) (B : Matrix (Fin k) (Fin k) R) (s t : List ℕ)
    (hs : s.length = m) (ht : t.length = m) :
    pamp (PM.place g B) s t =
      if ∀ j : Fin m, g j = none → t.getD j.val 0 = s.getD j.val 0 then
        ((∏ j : Fin m with g j = none, (s.getD j.val 0).factorial : ℕ) : R) *
          pamp B (List.ofFn fun a : Fin k => s.getD (f a).val 0)
            (List.ofFn fun a : Fin k => t.getD (f a).val 0)
      else 0 := by
  change _ = if _ then _ * pamp B (restr f s) (restr f t) else 0
  have hM : ∀ a b : Fin m, (g a = none ∨ g b = none) →
      PM.place g B a b = if a = b then 1 else 0 := place_spectator g B
  split_ifs with hcond
  · have hsum : ∑ j with g j = none, t.getD j.val 0 = ∑ j with g j = none, s.getD j.val 0 :=
      Finset.sum_congr rfl fun j hj => hcond j (Finset.mem_filter.1 hj).2
    have hS := restr_sum f g hfg s hs
    have hT := restr_sum f g hfg t ht
    by_cases hst : s.sum = t.sum
    · have hst' : (restr f s).sum = (restr f t).sum := by omega
      rw [pamp_eq _ s t hs ht rfl hst.symm,
        pamp_eq B (restr f s) (restr f t) (restr_length f s) (restr_length f t) rfl hst'.symm,
        ← place_submatrix_comp f g hfg B]
      have hocc : ∀ (u : List ℕ) (hu : u.length = m) (n : ℕ) (hn : u.sum = n) (n' : ℕ)
          (hn' : (restr f u).sum = n') (a : Fin m),
          occ (f ∘ modes (restr f u) (restr_length f u) hn') a =
            if g a = none then 0 else occ (modes u hu hn) a := by
        intro u hu n hn n' hn' a
        cases hga : g a with
        | none =>
          rw [if_pos rfl]
          apply occ_comp_of_not_range
          intro b hb
          rw [(hfg b a).2 hb] at hga
          exact absurd hga (Option.some_ne_none _)
        | some b =>
          rw [if_neg (Option.some_ne_none _), ← (hfg b a).1 hga,
            occ_comp_injective f hfg.injective, occ_modes, occ_modes, restr_getD]
      rw [permanent_spectator (PM.place g B) (fun a => g a = none) hM
        (modes t ht hst.symm) (modes s hs rfl) _ _
        (hocc t ht _ hst.symm _ hst'.symm) (hocc s hs _ rfl _ rfl)
        (fun a ha => by rw [occ_modes, occ_modes]; exact hcond a ha)]
      simp only [occ_modes]
    · have hst' : (restr f s).sum ≠ (restr f t).sum := by omega
      rw [pamp_zero_of_sum_ne' _ s t hst, pamp_zero_of_sum_ne' B _ _ hst', mul_zero]
  · by_cases hst : s.sum = t.sum
    · have hex : ∃ j : Fin m, g j = none ∧ t.getD j.val 0 ≠ s.getD j.val 0 := by
        by_contra hcon
        apply hcond
        intro j hj
        by_contra hne
        exact hcon ⟨j, hj, hne⟩
      obtain ⟨j, hj, hne⟩ := hex
      rw [pamp_eq _ s t hs ht rfl hst.symm]
      exact permanent_spectator_zero (PM.place g B) (fun a => g a = none) hM _ _ j hj
        (by rw [occ_modes, occ_modes]; exact hne)
    · exact pamp_zero_of_sum_ne' _ s t hst

theorem unshift_eq_none_iff {N o k : ℕ} (i : Fin N) :
    PM.unshift N o k i = none ↔ ¬ (o ≤ i.val ∧ i.val < o + k) := by
  unfold PM.unshift
  by_cases h : o ≤ i.val ∧ i.val < o + k
  · rw [dif_pos h]
    exact iff_of_false (Option.some_ne_none _) (not_not_intro h)
  · rw [dif_neg h]
    exact iff_of_true rfl h

/-- **contiguous case**: `B` on the modes `o, …, o+k-1` (`PM.embed`, the model of
`nU = eye(m); nU[o:o+k, o:o+k] = B`) -/
theorem pamp_embed {k m o : ℕ} (hk : o + k ≤ m) (B : Matrix (Fin k) (Fin k) R) (s t : List ℕ)
    (hs : s.length = m) (ht : t.length = m) :
    pamp (PM.embed m o B) s t =
      if ∀ j : Fin m, ¬ (o ≤ j.val ∧ j.val < o + k) → t.getD j.val 0 = s.getD j.val 0 then
        ((∏ j : Fin m with ¬ (o ≤ j.val ∧ j.val < o + k), (s.getD j.val 0).factorial : ℕ) : R) *
          pamp B (List.ofFn fun a : Fin k => s.getD (a.val + o) 0)
            (List.ofFn fun a : Fin k => t.getD (a.val + o) 0)
      else 0 := by
  unfold PM.embed
  rw [pamp_place _ _ (PM.unshift_partialInv hk) B s t hs ht]
  simp only [unshift_eq_none_iff]

/-- the restricted state of the contiguous case is the slice `s[o : o+k]` -/
theorem ofFn_getD_add (s : List ℕ) (o k : ℕ) (h : o + k ≤ s.length) :
    (List.ofFn fun a : Fin k => s.getD (a.val + o) 0) = (s.drop o).take k := by
  apply List.ext_getElem
  · simp; omega
  · intro i h1 h2
    have hi : i < k := by simpa using h1
    simp only [List.getElem_ofFn, List.getElem_take, List.getElem_drop]
    rw [List.getD_eq_getElem?_getD, List.getElem?_eq_getElem (by omega), Option.getD_some]
    congr 1
    omega

theorem pamp_embed_slice {k m o : ℕ} (hk : o + k ≤ m) (B : Matrix (Fin k) (Fin k) R)
    (s t : List ℕ) (hs : s.length = m) (ht : t.length = m) :
    pamp (PM.embed m o B) s t =
      if ∀ j : Fin m, ¬ (o ≤ j.val ∧ j.val < o + k) → t.getD j.val 0 = s.getD j.val 0 then
        ((∏ j : Fin m with ¬ (o ≤ j.val ∧ j.val < o + k), (s.getD j.val 0).factorial : ℕ) : R) *
          pamp B ((s.drop o).take k) ((t.drop o).take k)
      else 0 := by
  rw [pamp_embed hk B s t hs ht, ofFn_getD_add s o k (by omega), ofFn_getD_add t o k (by omega)]

/-- splitting a product over the modes into the spectators and the block -/
theorem prod_split_partialInv {k m : ℕ} (f : Fin k → Fin m) (g : Fin m → Option (Fin k))
    (hfg : Function.IsPartialInv f g) (F : Fin m → ℕ) :
    ∏ j, F j = (∏ j with g j = none, F j) * ∏ a, F (f a) := by
  rw [← Finset.prod_filter_mul_prod_filter_not Finset.univ (fun j => g j = none) F]
  congr 1
  have himg : (Finset.univ.filter fun j => ¬ g j = none) = Finset.univ.image f := by
    ext j
    simp only [Finset.mem_filter, Finset.mem_univ, true_and, Finset.mem_image]
    constructor
    · intro h
      cases hgj : g j with
      | none => exact absurd hgj h
      | some a => exact ⟨a, (hfg a j).1 hgj⟩
    · rintro ⟨a, rfl⟩ h
      rw [(hfg a (f a)).2 rfl] at h
      exact absurd h (Option.some_ne_none _)
  rw [himg, Finset.prod_image (fun a _ b _ h => hfg.injective h)]

/-- the normalisation `∏ sᵢ!` splits in the same way, so the *normalised* amplitude of the placed
gate is the normalised amplitude of the gate alone -/
theorem prodFact_split {k m : ℕ} (f : Fin k → Fin m) (g : Fin m → Option (Fin k))
    (hfg : Function.IsPartialInv f g) (s : List ℕ) (hs : s.length = m) :
    prodFact s = (∏ j : Fin m with g j = none, (s.getD j.val 0).factorial) *
      prodFact (List.ofFn fun a : Fin k => s.getD (f a).val 0) := by
  change _ = _ * prodFact (restr f s)
  rw [prodFact_eq_prod s hs, prodFact_eq_prod (restr f s) (restr_length f s),
    prod_split_partialInv f g hfg]
  simp only [restr_getD]

end concrete

end PM.C02.Embed
