/-
  C20 — from the labelling theorem (`Lemmas/C20Label.lean`) to the hypothesis of `forest_circuit_implements`:
  the shape `convShape true gs (labelCnots true gs)` of a converted circuit satisfies the cut condition, for every
  gate sequence of one- and two-qubit gates (the converter raises NotImplementedError on wider gates).
-/
import PercevalModel.Lemmas.C20Label
import PercevalModel.Lemmas.C20Forest

namespace PM.C20

variable {R : Type*}

/-- the cut condition on the shape of a circuit (Prop form of `cutCheck`; no component is computed) -/
def CutShape : List (List ℕ × Bool) → Prop
  | [] => True
  | g :: gs => (g.2 = true → ∃ (a b : ℕ) (A : ℕ → Bool), g.1 = [a, b] ∧ A a = true ∧ A b = false ∧
      ∀ g' ∈ gs, respectsB A g'.1 = true) ∧ CutShape gs

theorem cutOk_of_cutShape {L : Layout} : ∀ gs : List (Step L R),
    CutShape (gs.map fun g => (g.Q, g.leaky)) → CutOk gs
  | [], _ => trivial
  | g :: gs, h => by
    rw [List.map_cons, CutShape] at h
    refine ⟨fun hlk => ?_, cutOk_of_cutShape gs h.2⟩
    obtain ⟨a, b, A, hQ, ha, hb, hall⟩ := h.1 hlk
    refine ⟨a, b, A, hQ, ha, hb, fun g' hg' => respectsB_sound g' A (hall (g'.Q, g'.leaky) ?_)⟩
    exact List.mem_map.2 ⟨g', hg', rfl⟩

theorem cutShape_of_cutCheck : ∀ sh : List (List ℕ × Bool), cutCheck sh = true → CutShape sh
  | [], _ => trivial
  | g :: gs, h => by
    rw [cutCheck, Bool.and_eq_true, Bool.or_eq_true] at h
    refine ⟨fun hlk => ?_, cutShape_of_cutCheck gs h.2⟩
    rcases h.1 with h0 | h1
    · simp only [hlk, Bool.not_true] at h0
      cases h0
    · obtain ⟨a, b, A, hQ, ha, hb, hall⟩ := leakyOk_spec _ _ h1
      exact ⟨a, b, A, hQ, ha, hb, fun g' hg' => hall g'.1 (List.mem_map.2 ⟨g', hg', rfl⟩)⟩

/-! ### the shape of a converted circuit -/

theorem convShape_mem (ups : Bool) : ∀ (gs : List Gate) (ls : List String) (sh : List ℕ × Bool),
    sh ∈ convShape ups gs ls → ∃ g ∈ gs, sh.1 = g.qubits.map (2 * ·)
  | [], _, sh, h => by simp [convShape] at h
  | _ :: _, [], sh, h => by simp [convShape] at h
  | g :: gs, l :: ls, sh, h => by
    rw [convShape, List.mem_cons] at h
    rcases h with h | h
    · exact ⟨g, List.mem_cons_self, by rw [h]⟩
    · obtain ⟨g', hg', hsh⟩ := convShape_mem ups gs ls sh h
      exact ⟨g', List.mem_cons_of_mem _ hg', hsh⟩

theorem twoQubitKind_pp {l : String} (h : twoQubitKind true l = "PostProcessed CNOT") :
    l.toUpper = "POSTPROCESSED CNOT" := by
  unfold twoQubitKind at h
  simp only [Bool.true_and] at h
  by_cases h1 : l.toUpper = "POSTPROCESSED CNOT"
  · exact h1
  · exfalso
    have hb : (l.toUpper == "POSTPROCESSED CNOT") = false := by simpa using h1
    simp only [hb, Bool.false_or, Bool.false_eq_true, if_false] at h
    split at h
    · exact absurd h (by decide)
    · split at h
      · exact absurd h (by decide)
      · split at h
        · exact absurd h (by decide)
        · exact absurd h (by decide)

theorem twoQubitKind_heralded : twoQubitKind true "heralded cnot" ≠ "PostProcessed CNOT" := by decide +kernel

theorem cnotPairs_cons (g : Gate) (gs : List Gate) :
    cnotPairs (g :: gs) = if isCnot g then edgeOf g :: cnotPairs gs else cnotPairs gs := by
  unfold cnotPairs
  by_cases h : isCnot g = true <;> simp [List.filter_cons, h]

theorem otherPairs_mem_cons {g : Gate} {gs : List Gate} {e : Edge} (h : e ∈ otherPairs gs) :
    e ∈ otherPairs (g :: gs) := by
  unfold otherPairs at h ⊢
  obtain ⟨g', hg', rfl⟩ := List.mem_map.1 h
  rw [List.mem_filter] at hg'
  exact List.mem_map.2 ⟨g', List.mem_filter.2 ⟨List.mem_cons_of_mem _ hg'.1, hg'.2⟩, rfl⟩

/-- the edge of a later two-qubit gate is a later CNOT edge or one of the other two-qubit edges -/
theorem edge_mem {gs : List Gate} {g : Gate} (hg : g ∈ gs) (h2 : g.qubits.length = 2) :
    edgeOf g ∈ cnotPairs gs ∨ edgeOf g ∈ otherPairs gs := by
  by_cases hc : isCnot g = true
  · exact Or.inl (List.mem_map.2 ⟨g, List.mem_filter.2 ⟨hg, hc⟩, rfl⟩)
  · refine Or.inr (List.mem_map.2 ⟨g, List.mem_filter.2 ⟨hg, ?_⟩, rfl⟩)
    simp [hc, h2]

open Classical in
/-- **from the cut property of the flags to the cut condition on the shape** -/
theorem cutShape_of_good : ∀ (gs : List Gate) (fl : List Bool) (X : List Edge),
    (∀ g ∈ gs, g.qubits.length = 1 ∨ g.qubits.length = 2) →
    (∀ g ∈ gs, isCnot g = false → g.qubits.length = 2 → g.name.toUpper ≠ "POSTPROCESSED CNOT") →
    fl.length = (cnotPairs gs).length → Good (cnotPairs gs) fl X → (∀ e ∈ otherPairs gs, e ∈ X) →
    CutShape (convShape true gs (relabel gs fl))
  | [], _, _, _, _, _, _, _ => by simp [relabel, convShape, CutShape]
  | g :: gs, fl, X, hq, hname, hlen, hgood, hX => by
    have hq' : ∀ g' ∈ gs, g'.qubits.length = 1 ∨ g'.qubits.length = 2 :=
      fun g' hg' => hq g' (List.mem_cons_of_mem _ hg')
    have hname' : ∀ g' ∈ gs, isCnot g' = false → g'.qubits.length = 2 → g'.name.toUpper ≠ "POSTPROCESSED CNOT" :=
      fun g' hg' => hname g' (List.mem_cons_of_mem _ hg')
    have hX' : ∀ e ∈ otherPairs gs, e ∈ X := fun e he => hX e (otherPairs_mem_cons he)
    -- closure of a cut under the later gates ⇒ `respectsB` for every later entry of the shape
    have hresp : ∀ (A : ℕ → Prop) (ls : List String), Closed A (cnotPairs gs ++ X) →
        ∀ sh ∈ convShape true gs ls, respectsB (fun p => decide (A (p / 2))) sh.1 = true := by
      intro A ls hA sh hsh
      obtain ⟨g', hg', hsh1⟩ := convShape_mem true gs ls sh hsh
      rw [hsh1]
      rcases hq' g' hg' with h1 | h2
      · obtain ⟨c, hc⟩ := List.length_eq_one_iff.1 h1
        rw [hc]
        simp [respectsB]
      · obtain ⟨c, d, hcd⟩ := List.length_eq_two.1 h2
        have hedge : edgeOf g' = (c, d) := by simp [edgeOf, hcd]
        have hmem : edgeOf g' ∈ cnotPairs gs ++ X := by
          rcases edge_mem hg' h2 with h | h
          · exact List.mem_append_left _ h
          · exact List.mem_append_right _ (hX' _ h)
        have hiff : A c ↔ A d := by
          have := hA _ hmem
          rwa [hedge] at this
        rw [hcd]
        simp [respectsB]
        by_cases h : A c
        · simp [h, hiff.1 h]
        · have hd : ¬ A d := fun h' => h (hiff.2 h')
          simp [h, hd]
    by_cases hc : isCnot g = true
    · -- a CNOT: consumes one flag
      rw [cnotPairs_cons, if_pos hc] at hlen hgood
      cases fl with
      | nil => simp at hlen
      | cons f fs =>
        have hlen' : fs.length = (cnotPairs gs).length := by simpa using hlen
        have hgood' : Good (cnotPairs gs) fs X := by
          intro i hi
          obtain ⟨e, he, A, hA, ha, hb⟩ := hgood (i + 1) (by simpa using hi)
          exact ⟨e, by simpa using he, A, by simpa using hA, ha, hb⟩
        have ih := cutShape_of_good gs fs X hq' hname' hlen' hgood' hX'
        rw [relabel.eq_def]; simp only [hc, if_true]
        simp only [convShape, CutShape]
        refine ⟨fun hlk => ?_, ih⟩
        rw [Bool.and_eq_true] at hlk
        obtain ⟨hl2, hkind⟩ := hlk
        have hf : f = true := by
          by_contra hf
          have hf' : f = false := by simpa using hf
          rw [hf'] at hkind
          simp only [Bool.false_eq_true, if_false] at hkind
          exact twoQubitKind_heralded (by simpa using hkind)
        obtain ⟨a, b, hab⟩ := List.length_eq_two.1 (by simpa using hl2 : g.qubits.length = 2)
        obtain ⟨e, he, A, hA, ha, hb⟩ := hgood 0 (by simp [hf])
        have hedge : e = (a, b) := by
          have : e = edgeOf g := by simpa using he.symm
          rw [this]; simp [edgeOf, hab]
        subst hedge
        refine ⟨2 * a, 2 * b, fun p => decide (A (p / 2)), by simp [hab], by simpa using ha, by simpa using hb, ?_⟩
        exact hresp A _ (by simpa using hA)
    · -- any other gate: never leaky
      have hc' : isCnot g = false := by simpa using hc
      rw [cnotPairs_cons, if_neg hc] at hlen hgood
      have ih := cutShape_of_good gs fl X hq' hname' hlen hgood hX'
      rw [relabel.eq_def]; simp only [hc', Bool.false_eq_true, if_false]
      simp only [convShape, CutShape]
      refine ⟨fun hlk => ?_, ih⟩
      rw [Bool.and_eq_true] at hlk
      exact absurd (twoQubitKind_pp (by simpa using hlk.2)) (hname g List.mem_cons_self hc' (by simpa using hlk.1))

/-- **the labelling `label_cnots_in_gate_sequence` computes always satisfies the cut condition** (repaired
labelling, `use_postselection = True`; gates on one or two qubits; no foreign gate is called "postprocessed cnot") -/
theorem label_cutShape (gs : List Gate)
    (hq : ∀ g ∈ gs, g.qubits.length = 1 ∨ g.qubits.length = 2)
    (hname : ∀ g ∈ gs, isCnot g = false → g.qubits.length = 2 → g.name.toUpper ≠ "POSTPROCESSED CNOT") :
    CutShape (convShape true gs (labelCnots true gs)) := by
  unfold labelCnots cnotFlags
  apply cutShape_of_good gs _ (otherPairs gs) hq hname
  · simp [assign_length]
  · simpa [extraEdges] using label_cut (cnotPairs gs) (otherPairs gs)
  · exact fun e he => he

/-! ### completeness of the executable check: `cutCheck` decides the cut condition

`compOf` sweeps the later gates `later.length + 1` times; a sweep that changes nothing has reached a set closed
under every gate, and every other sweep absorbs at least one more gate (`sweep_progress`). -/

/-- one gate of a sweep -/
def stepC (C Q : List ℕ) : List ℕ :=
  if Q.any (fun p => C.contains p) then C ++ Q.filter (fun p => !C.contains p) else C

theorem growComp_eq (later : List (List ℕ)) (C : List ℕ) : growComp later C = later.foldl stepC C := rfl

theorem mem_stepC_of_mem {C Q : List ℕ} {p : ℕ} (h : p ∈ C) : p ∈ stepC C Q := by
  unfold stepC
  split
  · exact List.mem_append_left _ h
  · exact h

theorem mem_fold_of_mem : ∀ (l : List (List ℕ)) {C : List ℕ} {p : ℕ}, p ∈ C → p ∈ l.foldl stepC C
  | [], _, _, h => h
  | Q :: l, _, _, h => mem_fold_of_mem l (mem_stepC_of_mem (Q := Q) h)

theorem stepC_absorbs {C Q : List ℕ} (h : ∃ p ∈ Q, p ∈ C) : ∀ p ∈ Q, p ∈ stepC C Q := by
  intro p hp
  unfold stepC
  have hany : (Q.any fun p => C.contains p) = true := by
    obtain ⟨q, hq, hqC⟩ := h
    exact List.any_eq_true.2 ⟨q, hq, by simpa using hqC⟩
  rw [if_pos hany]
  by_cases hpC : p ∈ C
  · exact List.mem_append_left _ hpC
  · exact List.mem_append_right _ (List.mem_filter.2 ⟨hp, by simpa using hpC⟩)

theorem fold_absorbs : ∀ (l : List (List ℕ)) {C Q : List ℕ}, Q ∈ l → (∃ p ∈ Q, p ∈ C) →
    ∀ p ∈ Q, p ∈ l.foldl stepC C
  | [], _, _, h, _ => by simp at h
  | Q0 :: l, C, Q, h, hex => by
    intro p hp
    rw [List.foldl_cons]
    rcases List.mem_cons.1 h with rfl | h
    · exact mem_fold_of_mem l (stepC_absorbs hex p hp)
    · obtain ⟨q, hq, hqC⟩ := hex
      exact fold_absorbs l h ⟨q, hq, mem_stepC_of_mem hqC⟩ p hp

/-- closed under every gate of `l` -/
def StableOn (l : List (List ℕ)) (C : List ℕ) : Prop := ∀ Q ∈ l, respectsB (fun p => C.contains p) Q = true

theorem stepC_of_respects {C Q : List ℕ} (h : respectsB (fun p => C.contains p) Q = true) : stepC C Q = C := by
  unfold stepC
  split
  · rename_i hany
    obtain ⟨q, hq, hqC⟩ := List.any_eq_true.1 hany
    unfold respectsB at h
    rw [Bool.or_eq_true, List.all_eq_true, List.all_eq_true] at h
    rcases h with h | h
    · have : Q.filter (fun p => !C.contains p) = [] := by
        rw [List.filter_eq_nil_iff]
        intro p hp
        have := h p hp
        simpa using this
      rw [this, List.append_nil]
    · have := h q hq
      simp only [hqC, Bool.not_true] at this
      cases this
  · rfl

theorem fold_stable : ∀ (l : List (List ℕ)) {C : List ℕ}, StableOn l C → l.foldl stepC C = C
  | [], _, _ => rfl
  | Q :: l, C, h => by
    rw [List.foldl_cons, stepC_of_respects (h Q List.mem_cons_self)]
    exact fold_stable l fun Q' hQ' => h Q' (List.mem_cons_of_mem _ hQ')

/-- the gates not yet inside `C` -/
def notFull (C Q : List ℕ) : Bool := !Q.all fun p => C.contains p

theorem countP_lt_of {α : Type} (p q : α → Bool) : ∀ l : List α, (∀ x ∈ l, q x = true → p x = true) →
    (∃ x ∈ l, p x = true ∧ q x = false) → l.countP q < l.countP p
  | [], _, h => by simp at h
  | x :: l, hmono, hex => by
    have hmono' : ∀ y ∈ l, q y = true → p y = true := fun y hy => hmono y (List.mem_cons_of_mem _ hy)
    have hle : l.countP q ≤ l.countP p := List.countP_mono_left hmono'
    obtain ⟨y, hy, hpy, hqy⟩ := hex
    rcases List.mem_cons.1 hy with rfl | hy
    · rw [List.countP_cons_of_pos hpy, List.countP_cons_of_neg (by simp [hqy])]
      omega
    · have ih := countP_lt_of p q l hmono' ⟨y, hy, hpy, hqy⟩
      by_cases hqx : q x = true
      · rw [List.countP_cons_of_pos hqx, List.countP_cons_of_pos (hmono x List.mem_cons_self hqx)]
        omega
      · rw [List.countP_cons_of_neg hqx]
        by_cases hpx : p x = true
        · rw [List.countP_cons_of_pos hpx]; omega
        · rw [List.countP_cons_of_neg hpx]; exact ih

/-- a sweep over a set that is not closed absorbs a gate -/
theorem sweep_progress (later : List (List ℕ)) (C : List ℕ) (h : ¬ StableOn later C) :
    later.countP (notFull (growComp later C)) < later.countP (notFull C) := by
  unfold StableOn at h
  push Not at h
  obtain ⟨Q, hQ, hresp⟩ := h
  have hresp' : respectsB (fun p => C.contains p) Q = false := by simpa using hresp
  unfold respectsB at hresp'
  rw [Bool.or_eq_false_iff] at hresp'
  obtain ⟨hin, hout⟩ := hresp'
  have hex : ∃ p ∈ Q, p ∈ C := by
    by_contra hcon
    push Not at hcon
    have : (Q.all fun p => !C.contains p) = true := List.all_eq_true.2 fun p hp => by simpa using hcon p hp
    rw [this] at hout
    cases hout
  apply countP_lt_of
  · intro Q' _ hQ'
    unfold notFull at hQ' ⊢
    rw [Bool.not_eq_true'] at hQ' ⊢
    by_contra hcon
    have hall : (Q'.all fun p => C.contains p) = true := by simpa using hcon
    have : (Q'.all fun p => (growComp later C).contains p) = true := by
      rw [List.all_eq_true] at hall ⊢
      intro p hp
      have := hall p hp
      rw [growComp_eq]
      simpa using mem_fold_of_mem later (by simpa using this)
    rw [this] at hQ'
    cases hQ'
  · refine ⟨Q, hQ, ?_, ?_⟩
    · unfold notFull; rw [hin]; rfl
    · unfold notFull
      have : (Q.all fun p => (growComp later C).contains p) = true := by
        rw [List.all_eq_true]
        intro p hp
        rw [growComp_eq]
        simpa using fold_absorbs later hQ hex p hp
      rw [this]; rfl

theorem sweeps_reach (later : List (List ℕ)) (C0 : List ℕ) : ∀ j : ℕ,
    let C := (List.range j).foldl (fun C _ => growComp later C) C0
    StableOn later C ∨ later.countP (notFull C) + j ≤ later.countP (notFull C0)
  | 0 => Or.inr (by simp)
  | j + 1 => by
    have ih := sweeps_reach later C0 j
    simp only [List.range_succ, List.foldl_append, List.foldl_cons, List.foldl_nil] at ih ⊢
    rcases ih with ih | ih
    · left
      rw [growComp_eq, fold_stable later ih]
      exact ih
    · by_cases hst : StableOn later ((List.range j).foldl (fun C _ => growComp later C) C0)
      · left
        rw [growComp_eq, fold_stable later hst]
        exact hst
      · right
        have := sweep_progress later _ hst
        omega

theorem compOf_stable (a : ℕ) (later : List (List ℕ)) : StableOn later (compOf a later) := by
  rcases sweeps_reach later [a] (later.length + 1) with h | h
  · exact h
  · have : later.countP (notFull [a]) ≤ later.length := List.countP_le_length
    omega

theorem mem_sweeps_of_mem (later : List (List ℕ)) {p : ℕ} : ∀ (j : ℕ) {C0 : List ℕ}, p ∈ C0 →
    p ∈ (List.range j).foldl (fun C _ => growComp later C) C0
  | 0, _, h => by simpa using h
  | j + 1, C0, h => by
    simp only [List.range_succ, List.foldl_append, List.foldl_cons, List.foldl_nil]
    rw [growComp_eq]
    exact mem_fold_of_mem later (mem_sweeps_of_mem later j h)

/-- every computed component stays inside a set closed under the gates -/
theorem stepC_inside {A : ℕ → Bool} {C Q : List ℕ} (hQ : respectsB A Q = true) (hC : ∀ p ∈ C, A p = true) :
    ∀ p ∈ stepC C Q, A p = true := by
  intro p hp
  unfold stepC at hp
  split at hp
  · rename_i hany
    obtain ⟨q, hq, hqC⟩ := List.any_eq_true.1 hany
    rcases List.mem_append.1 hp with hp | hp
    · exact hC p hp
    · have hpQ : p ∈ Q := (List.mem_filter.1 hp).1
      unfold respectsB at hQ
      rw [Bool.or_eq_true, List.all_eq_true, List.all_eq_true] at hQ
      rcases hQ with hQ | hQ
      · exact hQ p hpQ
      · have h1 := hQ q hq
        have h2 := hC q (by simpa using hqC)
        simp [h2] at h1
  · exact hC p hp

theorem fold_inside {A : ℕ → Bool} : ∀ (l : List (List ℕ)) {C : List ℕ}, (∀ Q ∈ l, respectsB A Q = true) →
    (∀ p ∈ C, A p = true) → ∀ p ∈ l.foldl stepC C, A p = true
  | [], _, _, hC => hC
  | Q :: l, _, hl, hC =>
    fold_inside l (fun Q' hQ' => hl Q' (List.mem_cons_of_mem _ hQ'))
      (stepC_inside (hl Q List.mem_cons_self) hC)

theorem sweeps_inside {A : ℕ → Bool} (later : List (List ℕ)) (hl : ∀ Q ∈ later, respectsB A Q = true) :
    ∀ (j : ℕ) {C0 : List ℕ}, (∀ p ∈ C0, A p = true) →
      ∀ p ∈ (List.range j).foldl (fun C _ => growComp later C) C0, A p = true
  | 0, _, h => by simpa using h
  | j + 1, C0, h => by
    simp only [List.range_succ, List.foldl_append, List.foldl_cons, List.foldl_nil]
    rw [growComp_eq]
    exact fold_inside later hl (sweeps_inside later hl j h)

theorem leakyOk_complete (a b : ℕ) (later : List (List ℕ)) (A : ℕ → Bool) (ha : A a = true) (hb : A b = false)
    (hl : ∀ Q ∈ later, respectsB A Q = true) : leakyOk [a, b] later = true := by
  simp only [leakyOk, Bool.and_eq_true, Bool.not_eq_eq_eq_not, Bool.not_true, List.all_eq_true]
  refine ⟨⟨?_, ?_⟩, compOf_stable a later⟩
  · have : a ∈ compOf a later := mem_sweeps_of_mem later (later.length + 1) (C0 := [a]) (by simp)
    simpa using this
  · by_contra hcon
    have hbC : b ∈ compOf a later := by simpa using hcon
    have := sweeps_inside later hl (later.length + 1) (C0 := [a]) (by simpa using ha) b hbC
    rw [hb] at this
    cases this

/-- **the executable check decides the cut condition** -/
theorem cutCheck_complete : ∀ sh : List (List ℕ × Bool), CutShape sh → cutCheck sh = true
  | [], _ => rfl
  | g :: gs, h => by
    rw [cutCheck, Bool.and_eq_true, Bool.or_eq_true]
    refine ⟨?_, cutCheck_complete gs h.2⟩
    by_cases hlk : g.2 = true
    · right
      obtain ⟨a, b, A, hQ, ha, hb, hall⟩ := h.1 hlk
      rw [hQ]
      apply leakyOk_complete a b _ A ha hb
      intro Q hQ'
      obtain ⟨g', hg', rfl⟩ := List.mem_map.1 hQ'
      exact hall g' hg'
    · left
      simpa using hlk

theorem cutCheck_iff (sh : List (List ℕ × Bool)) : cutCheck sh = true ↔ CutShape sh :=
  ⟨cutShape_of_cutCheck sh, cutCheck_complete sh⟩

/-- **the labelling passes the check the driver runs** -/
theorem label_cutCheck (gs : List Gate)
    (hq : ∀ g ∈ gs, g.qubits.length = 1 ∨ g.qubits.length = 2)
    (hname : ∀ g ∈ gs, isCnot g = false → g.qubits.length = 2 → g.name.toUpper ≠ "POSTPROCESSED CNOT") :
    cutCheck (convShape true gs (labelCnots true gs)) = true :=
  cutCheck_complete _ (label_cutShape gs hq hname)

end PM.C20
